(** Proofs for C07, part 9: the error bound of the composite trapezoid rule for smooth integrands,
    |trapz f a b n - RInt f a b| <= (b-a) h^2/12 max|f''|, h = (b-a)/n, about the model term [trapz RO].
    Route: pointwise error of the chord (Rolle twice on f - chord - lambda (x-c)(x-d)), integrated over one panel
    (Coquelicot [norm_RInt_le]), summed over the panels of any nondecreasing grid (Chasles).  No continuity of f''
    is needed: only its existence and a bound on the open interval. *)
From Coq Require Import Reals List ZArith QArith Lra Lia.
From Coquelicot Require Import Coquelicot.
From Compute Require Import Base.Ops Base.ListMat Model.Quad Spec.Quad Proofs.C07_base Proofs.C07_poly Proofs.C07_trapz Proofs.C07_samples.
Import ListNotations.
Open Scope R_scope.


Lemma rolle_cq (f df : R -> R) a b :
  a < b -> (forall x, a < x < b -> is_derive f x (df x)) ->
  (forall x, a <= x <= b -> continuous f x) -> f a = f b ->
  exists c, a < c < b /\ df c = 0.
Proof.
  intros Hab Hd Hc Hfab.
  assert (pr : forall x, a < x < b -> derivable_pt f x).
  { intros x Hx. apply ex_derive_Reals_0. eexists; apply Hd, Hx. }
  assert (Hc' : forall x, a <= x <= b -> continuity_pt f x).
  { intros x Hx. apply continuity_pt_filterlim. apply Hc, Hx. }
  destruct (Rolle f a b pr Hc' Hab Hfab) as [c [P Hc0]].
  exists c; split; [exact P|].
  rewrite Derive_Reals in Hc0. rewrite <- Hc0. symmetry. apply is_derive_unique. apply Hd, P.
Qed.

Lemma chord_error (f f' f'' : R -> R) c d t M :
  c < t < d ->
  (forall x, c <= x <= d -> continuous f x) ->
  (forall x, c < x < d -> is_derive f x (f' x)) ->
  (forall x, c < x < d -> is_derive f' x (f'' x)) ->
  (forall x, c < x < d -> Rabs (f'' x) <= M) ->
  Rabs (f t - chord c (f c) d (f d) t) <= M / 2 * ((t - c) * (d - t)).
Proof.
  intros Ht Hc Hf' Hf'' HM.
  set (s := (f d - f c) / (d - c)).
  set (lam := (f t - chord c (f c) d (f d) t) / ((t - c) * (t - d))).
  set (q := fun x => chord c (f c) d (f d) x + lam * ((x - c) * (x - d))).
  set (dq := fun x => s + lam * (2 * x - c - d)).
  set (g := fun x => f x - q x).
  set (dg := fun x => f' x - dq x).
  assert (Hq : forall x, is_derive q x (dq x)).
  { intros x. unfold q, dq, chord, s. auto_derive; [trivial|]. field. lra. }
  assert (Hdq : forall x, is_derive dq x (2 * lam)).
  { intros x. unfold dq. auto_derive; [trivial|]. ring. }
  assert (Hg : forall x, c < x < d -> is_derive g x (dg x)).
  { intros x Hx. apply (is_derive_minus f q x (f' x) (dq x)); [apply Hf', Hx|apply Hq]. }
  assert (Hdg : forall x, c < x < d -> is_derive dg x (f'' x - 2 * lam)).
  { intros x Hx. apply (is_derive_minus f' dq x (f'' x) (2 * lam)); [apply Hf'', Hx|apply Hdq]. }
  assert (Hgc : forall x, c <= x <= d -> continuous g x).
  { intros x Hx. apply (continuous_minus f q x); [apply Hc, Hx|].
    apply (ex_derive_continuous q). eexists; apply Hq. }
  assert (Htc : (t - c) * (t - d) <> 0) by (apply Rmult_integral_contrapositive; lra).
  assert (g0 : g c = 0). { unfold g, q, chord. field. lra. }
  assert (g2 : g d = 0). { unfold g, q, chord. field. lra. }
  assert (g1 : g t = 0). { unfold g, q, lam. field. lra. }
  destruct (rolle_cq g dg c t) as [x1 [Hx1 E1]]; [lra| | |lra|].
  { intros x Hx. apply Hg. lra. } { intros x Hx. apply Hgc. lra. }
  destruct (rolle_cq g dg t d) as [x2 [Hx2 E2]]; [lra| | |lra|].
  { intros x Hx. apply Hg. lra. } { intros x Hx. apply Hgc. lra. }
  destruct (rolle_cq dg (fun x => f'' x - 2 * lam) x1 x2) as [eta [Heta E3]]; [lra| | |lra|].
  { intros x Hx. apply Hdg. lra. }
  { intros x Hx. apply (ex_derive_continuous dg). eexists. apply Hdg. lra. }
  assert (El : f t - chord c (f c) d (f d) t = f'' eta / 2 * ((t - c) * (t - d))).
  { replace (f'' eta) with (2 * lam) by lra. unfold lam. field. lra. }
  rewrite El. rewrite Rabs_mult. unfold Rdiv. rewrite Rabs_mult.
  rewrite (Rabs_pos_eq (/ 2)) by lra.
  replace (Rabs ((t - c) * (t - d))) with ((t - c) * (d - t)).
  2:{ rewrite Rabs_left; [ring|]. apply Ropp_lt_cancel. rewrite Ropp_0. 
      replace (- ((t - c) * (t - d))) with ((t - c) * (d - t)) by ring. apply Rmult_lt_0_compat; lra. }
  assert (HMe := HM eta ltac:(lra)).
  assert (0 <= (t - c) * (d - t)) by (apply Rmult_le_pos; lra).
  nra.
Qed.


Lemma ex_RInt_cont_le (f : R -> R) c d :
  c <= d -> (forall x, c <= x <= d -> continuous f x) -> ex_RInt f c d.
Proof.
  intros Hcd Hc. apply (ex_RInt_continuous f). intros z. rewrite Rmin_left, Rmax_right by lra. apply Hc.
Qed.

Lemma kernel_is_RInt M c d :
  is_RInt (fun t => M / 2 * ((t - c) * (d - t))) c d (M * (d - c) ^ 3 / 12).
Proof.
  set (AB := fun t => M / 2 * (- (t ^ 3) / 3 + (c + d) * t ^ 2 / 2 - c * d * t)).
  replace (M * (d - c) ^ 3 / 12) with (minus (AB d) (AB c)) by (unfold minus, plus, opp, AB; cbn; field).
  apply (is_RInt_derive AB).
  - intros t _. unfold AB. auto_derive; [trivial|]. field.
  - intros t _. apply (ex_derive_continuous (fun t => M / 2 * ((t - c) * (d - t)))). auto_derive. trivial.
Qed.

Lemma panel_bound (f f' f'' : R -> R) c d M :
  c <= d ->
  (forall x, c <= x <= d -> continuous f x) ->
  (forall x, c < x < d -> is_derive f x (f' x)) ->
  (forall x, c < x < d -> is_derive f' x (f'' x)) ->
  (forall x, c < x < d -> Rabs (f'' x) <= M) ->
  Rabs ((f d + f c) / 2 * (d - c) - RInt f c d) <= M * (d - c) ^ 3 / 12.
Proof.
  intros Hcd Hc Hf' Hf'' HM.
  destruct (Req_dec c d) as [->|Hne].
  { rewrite RInt_point. unfold zero; cbn. replace ((f d + f d) / 2 * (d - d) - 0) with 0 by ring.
    rewrite Rabs_R0. lra. }
  assert (Hlt : c < d) by lra.
  assert (HexF : ex_RInt f c d) by (apply ex_RInt_cont_le; assumption).
  pose proof (chord_is_RInt c (f c) d (f d) Hne) as HP.
  set (p := chord c (f c) d (f d)) in *.
  assert (HF : is_RInt f c d (RInt f c d)) by (exact (@RInt_correct R_CompleteNormedModule f c d HexF)).
  pose proof (is_RInt_minus p f c d _ _ HP HF) as HD.
  apply (norm_RInt_le (fun x => minus (p x) (f x)) (fun t => M / 2 * ((t - c) * (d - t))) c d
           (minus ((f d + f c) / 2 * (d - c)) (RInt f c d)) (M * (d - c) ^ 3 / 12) Hcd); [|exact HD|apply kernel_is_RInt].
  intros x Hx. change (Rabs (p x - f x) <= M / 2 * ((x - c) * (d - x))).
  destruct (Req_dec x c) as [->|Hxc].
  { replace (p c - f c) with 0 by (unfold p, chord; field; lra). rewrite Rabs_R0. lra. }
  destruct (Req_dec x d) as [->|Hxd].
  { replace (p d - f d) with 0 by (unfold p, chord; field; lra). rewrite Rabs_R0. lra. }
  rewrite Rabs_minus_sym. apply (chord_error f f' f''); try assumption. lra.
Qed.


Lemma grid_mono (x : nat -> R) n :
  (forall i, (i < n)%nat -> x i <= x (S i)) -> forall i, (i <= n)%nat -> x 0%nat <= x i /\ x i <= x n.
Proof.
  induction n as [|n IH]; intros Hm i Hi.
  - replace i with 0%nat by lia. lra.
  - assert (Hn := Hm n ltac:(lia)).
    destruct (Nat.eq_dec i (S n)) as [->|Hne].
    + destruct (IH ltac:(intros; apply Hm; lia) n ltac:(lia)). lra.
    + destruct (IH ltac:(intros; apply Hm; lia) i ltac:(lia)). lra.
Qed.

(** one panel, with the cube of the width relaxed to width * H^2 *)
Lemma panel_bound_H (f f' f'' : R -> R) c d M H :
  c <= d <= c + H ->
  (forall x, c <= x <= d -> continuous f x) ->
  (forall x, c < x < d -> is_derive f x (f' x)) ->
  (forall x, c < x < d -> is_derive f' x (f'' x)) ->
  (forall x, c < x < d -> Rabs (f'' x) <= M) ->
  Rabs ((f d + f c) / 2 * (d - c) - RInt f c d) <= M * H ^ 2 / 12 * (d - c).
Proof.
  intros Hcd Hc Hf' Hf'' HM.
  eapply Rle_trans; [apply (panel_bound f f' f'' c d M); try assumption; lra|].
  destruct (Req_dec c d) as [->|Hne]; [lra|].
  assert (HM0 : 0 <= M).
  { eapply Rle_trans; [apply Rabs_pos|apply (HM ((c + d) / 2))]. lra. }
  assert (0 <= d - c <= H) by lra.
  assert ((d - c) ^ 2 <= H ^ 2) by (apply pow_incr; lra).
  replace (M * (d - c) ^ 3 / 12) with (M / 12 * (d - c) * (d - c) ^ 2) by field.
  replace (M * H ^ 2 / 12 * (d - c)) with (M / 12 * (d - c) * H ^ 2) by field.
  apply Rmult_le_compat_l; [|assumption].
  apply Rmult_le_pos; lra.
Qed.

(** composite rule on an arbitrary nondecreasing grid x_0 <= x_1 <= ... <= x_n with spacings <= H *)
Lemma grid_bound (f f' f'' : R -> R) M H (x : nat -> R) n :
  (forall i, (i < n)%nat -> x i <= x (S i) <= x i + H) ->
  (forall t, x 0%nat <= t <= x n -> continuous f t) ->
  (forall t, x 0%nat < t < x n -> is_derive f t (f' t)) ->
  (forall t, x 0%nat < t < x n -> is_derive f' t (f'' t)) ->
  (forall t, x 0%nat < t < x n -> Rabs (f'' t) <= M) ->
  Rabs (rsum (fun i => (f (x (S i)) + f (x i)) / 2 * (x (S i) - x i)) n - RInt f (x 0%nat) (x n))
  <= M * H ^ 2 / 12 * (x n - x 0%nat).
Proof.
  induction n as [|n IH]; intros Hm Hc Hf' Hf'' HM.
  - cbn [rsum]. rewrite RInt_point. unfold zero; cbn. rewrite Rminus_0_r, Rabs_R0. lra.
  - assert (Hn := Hm n ltac:(lia)).
    destruct (grid_mono x n ltac:(intros; apply Hm; lia) n ltac:(lia)) as [H0n _].
    assert (E1 : ex_RInt f (x 0%nat) (x n)) by (apply ex_RInt_cont_le; [lra|intros; apply Hc; lra]).
    assert (E2 : ex_RInt f (x n) (x (S n))) by (apply ex_RInt_cont_le; [lra|intros; apply Hc; lra]).
    pose proof (RInt_Chasles f (x 0%nat) (x n) (x (S n)) E1 E2) as HCh.
    change (RInt f (x 0%nat) (x n) + RInt f (x n) (x (S n)) = RInt f (x 0%nat) (x (S n))) in HCh.
    rewrite <- HCh. cbn [rsum].
    set (A := rsum _ n). set (I1 := RInt f (x 0%nat) (x n)). set (I2 := RInt f (x n) (x (S n))).
    set (T := (f (x (S n)) + f (x n)) / 2 * (x (S n) - x n)).
    replace (A + T - (I1 + I2)) with ((A - I1) + (T - I2)) by ring.
    eapply Rle_trans; [apply Rabs_triang|].
    replace (M * H ^ 2 / 12 * (x (S n) - x 0%nat))
      with (M * H ^ 2 / 12 * (x n - x 0%nat) + M * H ^ 2 / 12 * (x (S n) - x n)) by ring.
    apply Rplus_le_compat.
    + apply IH; intros; [apply Hm; lia|apply Hc; lra|apply Hf'; lra|apply Hf''; lra|apply HM; lra].
    + apply (panel_bound_H f f' f''); intros; [lra|apply Hc; lra|apply Hf'; lra|apply Hf''; lra|apply HM; lra].
Qed.


Lemma rsum_trap (g : nat -> R) m :
  rsum (fun i => g (S i)) m + (g (S m) + g 0%nat) / 2 = rsum (fun i => (g (S i) + g i) / 2) (S m).
Proof.
  induction m as [|m IH]; [cbn [rsum]; lra|].
  change (rsum (fun i => (g (S i) + g i) / 2) (S (S m)))
    with (rsum (fun i => (g (S i) + g i) / 2) (S m) + (g (S (S m)) + g (S m)) / 2).
  rewrite <- IH. cbn [rsum]. lra.
Qed.

(** the model's [trapz] is the composite rule on the uniform grid x_i = a + i h *)
Lemma trapz_as_grid (f : R -> R) a b n :
  (1 <= n)%nat ->
  let h := (b - a) / INR n in
  let x := fun i : nat => a + INR i * h in
  x 0%nat = a /\ x n = b /\ (forall i, x (S i) = x i + h) /\
  trapz RO f a b n = rsum (fun i => (f (x (S i)) + f (x i)) / 2 * (x (S i) - x i)) n.
Proof.
  intros Hn h x.
  assert (HN : INR n <> 0) by (apply not_0_INR; lia).
  assert (X0 : x 0%nat = a) by (unfold x; cbn [INR]; ring).
  assert (Xn : x n = b) by (unfold x, h; field; exact HN).
  assert (XS : forall i, x (S i) = x i + h) by (intros i; unfold x; rewrite S_INR; ring).
  repeat split; try assumption.
  rewrite trapz_R. fold h.
  rewrite (rsum_ext (fun i => (f (x (S i)) + f (x i)) / 2 * (x (S i) - x i))
                    (fun i => h * ((f (x (S i)) + f (x i)) / 2))).
  2:{ intros i. rewrite (XS i). ring. }
  rewrite rsum_scal. f_equal.
  destruct n as [|m]; [lia|]. replace (S m - 1)%nat with m by lia.
  rewrite <- (rsum_trap (fun i => f (x i)) m). rewrite Xn, X0. f_equal.
  apply rsum_ext. intros i. unfold x. rewrite S_INR. f_equal. ring.
Qed.

Theorem trapz_error_bound_open (f f' f'' : R -> R) a b n M :
  a <= b -> (1 <= n)%nat ->
  (forall x, a <= x <= b -> continuous f x) ->
  (forall x, a < x < b -> is_derive f x (f' x) /\ is_derive f' x (f'' x)) ->
  (forall x, a < x < b -> Rabs (f'' x) <= M) ->
  Rabs (trapz RO f a b n - RInt f a b) <= (b - a) * ((b - a) / INR n) ^ 2 / 12 * M.
Proof.
  intros Hab Hn Hc Hd HM.
  destruct (trapz_as_grid f a b n Hn) as (X0 & Xn & XS & ET).
  set (h := (b - a) / INR n) in *. set (x := fun i : nat => a + INR i * h) in *.
  change (x 0%nat = a) in X0. change (x n = b) in Xn. change (forall i, x (S i) = x i + h) in XS.
  assert (Hh : 0 <= h).
  { unfold h. apply Rmult_le_pos; [lra|]. apply Rlt_le, Rinv_0_lt_compat, lt_0_INR. lia. }
  rewrite ET.
  pose proof (grid_bound f f' f'' M h x n) as G. rewrite X0, Xn in G.
  replace ((b - a) * h ^ 2 / 12 * M) with (M * h ^ 2 / 12 * (b - a)) by field.
  apply G.
  - intros i _. rewrite XS. lra.
  - exact Hc.
  - intros t Ht. apply Hd, Ht.
  - intros t Ht. apply Hd, Ht.
  - exact HM.
Qed.

(** the statement with derivatives required on the closed interval (continuity of f follows) *)
Theorem trapz_error_bound (f f' f'' : R -> R) a b n M :
  a <= b -> (1 <= n)%nat ->
  (forall x, a <= x <= b -> is_derive f x (f' x) /\ is_derive f' x (f'' x)) ->
  (forall x, a <= x <= b -> Rabs (f'' x) <= M) ->
  Rabs (trapz RO f a b n - RInt f a b) <= (b - a) * ((b - a) / INR n) ^ 2 / 12 * M.
Proof.
  intros Hab Hn Hd HM. apply (trapz_error_bound_open f f' f''); try assumption.
  - intros x Hx. apply (ex_derive_continuous f). eexists. exact (proj1 (Hd x Hx)).
  - intros x Hx. apply Hd. lra.
  - intros x Hx. apply HM. lra.
Qed.

(** either orientation of the limits *)
Theorem trapz_error_bound_any (f f' f'' : R -> R) a b n M :
  (1 <= n)%nat ->
  (forall x, Rmin a b <= x <= Rmax a b -> continuous f x) ->
  (forall x, Rmin a b < x < Rmax a b -> is_derive f x (f' x) /\ is_derive f' x (f'' x)) ->
  (forall x, Rmin a b < x < Rmax a b -> Rabs (f'' x) <= M) ->
  Rabs (trapz RO f a b n - RInt f a b) <= Rabs (b - a) * ((b - a) / INR n) ^ 2 / 12 * M.
Proof.
  intros Hn Hc Hd HM.
  destruct (Rle_dec a b) as [Hab|Hba].
  - assert (Emin : Rmin a b = a) by (apply Rmin_left; lra).
    assert (Emax : Rmax a b = b) by (apply Rmax_right; lra).
    rewrite Emin, Emax in Hc, Hd, HM. rewrite (Rabs_pos_eq (b - a)) by lra.
    apply (trapz_error_bound_open f f' f''); assumption.
  - assert (Emin : Rmin a b = b) by (apply Rmin_right; lra).
    assert (Emax : Rmax a b = a) by (apply Rmax_left; lra).
    rewrite Emin, Emax in Hc, Hd, HM. rewrite (Rabs_left (b - a)) by lra.
    assert (Ex : ex_RInt f b a) by (apply ex_RInt_cont_le; [lra|exact Hc]).
    pose proof (opp_RInt_swap f b a Ex) as Esw. change (- RInt f b a = RInt f a b) in Esw.
    rewrite trapz_swap, <- Esw.
    replace (- trapz RO f b a n - - RInt f b a) with (- (trapz RO f b a n - RInt f b a)) by ring.
    rewrite Rabs_Ropp.
    replace (- (b - a) * ((b - a) / INR n) ^ 2 / 12 * M) with ((a - b) * ((a - b) / INR n) ^ 2 / 12 * M) by (unfold Rdiv; ring).
    apply (trapz_error_bound_open f f' f''); try assumption. lra.
Qed.

Example trapz_error_bound_exp :
  forall n, (1 <= n)%nat -> Rabs (trapz RO exp 0 1 n - (exp 1 - 1)) <= (1 - 0) * ((1 - 0) / INR n) ^ 2 / 12 * exp 1.
Proof.
  intros n Hn.
  replace (exp 1 - 1) with (RInt exp 0 1).
  - apply (trapz_error_bound exp exp exp); [lra|exact Hn| |].
    + intros x _. split; apply is_derive_exp.
    + intros x Hx. rewrite Rabs_pos_eq by (left; apply exp_pos).
      destruct (proj2 Hx) as [Hlt| ->]; [left; apply exp_increasing, Hlt|right; reflexivity].
  - apply is_RInt_unique. rewrite <- exp_0.
    apply (is_RInt_derive exp exp).
    + intros x _. apply is_derive_exp.
    + intros x _. apply (ex_derive_continuous exp). eexists. apply is_derive_exp.
Qed.


Lemma rsum_telescope (u : nat -> R) n : rsum (fun i => u (S i) - u i) n = u n - u 0%nat.
Proof. induction n as [|n IH]; cbn [rsum]; [ring|rewrite IH; ring]. Qed.
Lemma rsum_const c n : rsum (fun _ => c) n = INR n * c.
Proof. induction n as [|n IH]; [cbn; ring|]. cbn [rsum]. rewrite IH, S_INR. ring. Qed.

(** the constant 1/12 is attained: for f(x) = x^2 (f'' = 2) the error is exactly (b-a) h^2/12 * 2 *)
Theorem trapz_error_bound_sharp a b n :
  (1 <= n)%nat ->
  trapz RO (fun x => x * x) a b n - RInt (fun x => x * x) a b = (b - a) * ((b - a) / INR n) ^ 2 / 12 * 2.
Proof.
  intros Hn.
  assert (HN : INR n <> 0) by (apply not_0_INR; lia).
  destruct (trapz_as_grid (fun x => x * x) a b n Hn) as (X0 & Xn & XS & ET).
  set (h := (b - a) / INR n) in *. set (x := fun i : nat => a + INR i * h) in *.
  change (x 0%nat = a) in X0. change (x n = b) in Xn. change (forall i, x (S i) = x i + h) in XS.
  rewrite ET.
  rewrite (rsum_ext _ (fun i => ((x (S i)) ^ 3 / 3 - (x i) ^ 3 / 3) + h ^ 3 / 6)).
  2:{ intros i. unfold x. rewrite S_INR. generalize (INR i); intros r. field. }
  assert (EI : RInt (fun x => x * x) a b = b ^ 3 / 3 - a ^ 3 / 3).
  { apply is_RInt_unique.
    apply (is_RInt_ext (horner RO [0; 0; 1])).
    - intros t _. change (horner RO [0; 0; 1] t = t * t). rewrite horner_peval. unfold peval. cbn [peval_from]. ring.
    - replace (b ^ 3 / 3 - a ^ 3 / 3) with (poly_int [0; 0; 1] a b); [apply poly_int_is_RInt|].
      unfold poly_int. cbn [poly_int_from INR]. field. }
  rewrite EI.
  rewrite <- (Rplus_0_l (rsum _ n)).
  rewrite <- (Rmult_1_l (rsum _ n)) at 1.
  pose proof (rsum_lin 1 1 (fun i => x (S i) ^ 3 / 3 - x i ^ 3 / 3) (fun _ => h ^ 3 / 6) n) as L.
  rewrite (rsum_ext (fun i => x (S i) ^ 3 / 3 - x i ^ 3 / 3 + h ^ 3 / 6)
                    (fun i => 1 * (x (S i) ^ 3 / 3 - x i ^ 3 / 3) + 1 * (h ^ 3 / 6))) by (intros; ring).
  rewrite L, (rsum_telescope (fun i => x i ^ 3 / 3) n), rsum_const, X0, Xn.
  unfold h. field. exact HN.
Qed.


(** consequence: the rule converges to the integral as the number of panels grows *)
Theorem trapz_converges (f f' f'' : R -> R) a b M :
  (forall x, Rmin a b <= x <= Rmax a b -> continuous f x) ->
  (forall x, Rmin a b < x < Rmax a b -> is_derive f x (f' x) /\ is_derive f' x (f'' x)) ->
  (forall x, Rmin a b < x < Rmax a b -> Rabs (f'' x) <= M) ->
  is_lim_seq (fun n => trapz RO f a b n) (RInt f a b).
Proof.
  intros Hc Hd HM.
  apply is_lim_seq_spec. intros eps.
  set (C := Rabs (b - a) * (b - a) ^ 2 / 12 * M).
  assert (HB : forall n, (1 <= n)%nat -> Rabs (trapz RO f a b n - RInt f a b) <= C / INR n).
  { intros n Hn. eapply Rle_trans; [apply (trapz_error_bound_any f f' f'' a b n M Hn Hc Hd HM)|].
    assert (Hn1 : 1 <= INR n) by (change 1 with (INR 1); apply le_INR, Hn).
    assert (HM0 : a <> b -> 0 <= M).
    { intros Hne. eapply Rle_trans; [apply Rabs_pos|apply (HM ((a + b) / 2))].
      destruct (Rle_dec a b); [rewrite Rmin_left, Rmax_right by lra|rewrite Rmin_right, Rmax_left by lra]; lra. }
    destruct (Req_dec a b) as [->|Hne].
    { unfold C. replace (b - b) with 0 by ring. rewrite Rabs_R0. unfold Rdiv. rewrite !Rmult_0_l. lra. }
    specialize (HM0 Hne).
    replace (Rabs (b - a) * ((b - a) / INR n) ^ 2 / 12 * M) with (C / INR n * / INR n) by (unfold C; field; lra).
    assert (0 <= C / INR n).
    { apply Rmult_le_pos; [|apply Rlt_le, Rinv_0_lt_compat; lra].
      unfold C. apply Rmult_le_pos; [|exact HM0]. apply Rmult_le_pos; [|lra].
      apply Rmult_le_pos; [apply Rabs_pos|apply pow2_ge_0]. }
    assert (/ INR n <= 1) by (rewrite <- Rinv_1; apply Rinv_le_contravar; lra).
    nra. }
  destruct (archimed_cor1 (eps / (Rabs C + 1))) as [N [HN1 HN2]].
  { apply Rdiv_lt_0_compat; [apply eps|]. pose proof (Rabs_pos C). lra. }
  exists N. intros n Hn.
  assert (Hn1 : (1 <= n)%nat) by lia.
  eapply Rle_lt_trans; [apply (HB n Hn1)|].
  assert (HNn : / INR n <= / INR N).
  { apply Rinv_le_contravar; [apply lt_0_INR; lia|apply le_INR, Hn]. }
  assert (HCa : C <= Rabs C) by apply Rle_abs.
  assert (0 < / INR n) by (apply Rinv_0_lt_compat, lt_0_INR; lia).
  assert (Hpos : 0 < Rabs C + 1) by (pose proof (Rabs_pos C); lra).
  assert (E : / INR N * (Rabs C + 1) < eps).
  { apply (Rmult_lt_compat_r (Rabs C + 1)) in HN1; [|exact Hpos].
    unfold Rdiv in HN1. rewrite Rmult_assoc, Rinv_l, Rmult_1_r in HN1 by lra. exact HN1. }
  unfold Rdiv. nra.
Qed.
