(** * C15 — the struct invariant alone, and the empty matrix.
    (a) [nrows * ncols = data.len()] is preserved by EVERY structural operation from EVERY state that has it, whatever
        the shape: positive, the empty 0 x 0 matrix of [Matrix::empty()], or the degenerate 0 x c / r x 0 shapes that
        [reshape_mut] with an inferred dimension produces on empty data.  (The lock-step theorem [run_refines] is about
        positive shapes: a list of rows cannot carry the column count of a 0 x c matrix.)
    (b) what each operation does on the empty matrix, as a table ([Spec.Shape.empty_step]).
    (c) the requests with a zero or negative dimension: the repaired [reshape_mut] accepts 0 x 0 exactly on empty data
        and still refuses every other one. *)
From Coq Require Import List Arith ZArith Bool Lia.
From Compute Require Import Base.Ops Base.ListMat Model.Shape Spec.Shape Proofs.C15Lists Proofs.C15 Proofs.C15Step.
Import ListNotations.

Lemma want_shape_prod : forall sz r c r' c', want_shape sz r c = Some (r', c') -> r' * c' = sz.
Proof. intros sz r c r' c' W. exact (proj1 (want_shape_mul _ _ _ _ _ W)). Qed.

Lemma concat_repeat_nil : forall {A} n, concat (repeat (@nil A) n) = [].
Proof. intros A n. induction n as [|n IH]; [reflexivity|exact IH]. Qed.

Section Empty.
  Context {T : Type} (O : Ops T).
  Local Notation d := (zero O).
  Local Notation mat := (mat T).
  Local Notation E := (mkMat 0 0 (@nil T)).

  (** ** (a) the invariant *)
  Lemma new_wf : forall (a : list T) r c m, new a r c = Some m -> WF m /\ data m = a.
  Proof.
    intros a r c m. rewrite new_want.
    destruct (want_shape (length a) r c) as [[r' c']|] eqn:W; cbn [option_map fst snd]; [|discriminate].
    intros H; inversion H; subst. unfold WF. cbn [nrows ncols data]. split; [|reflexivity].
    now apply want_shape_prod in W.
  Qed.

  Lemma reshape_mut_wf : forall (m : mat) r c m', WF m -> reshape_mut m r c = Some m' -> WF m' /\ data m' = data m.
  Proof.
    intros m r c m' L. rewrite reshape_mut_want.
    destruct (want_shape (size m) r c) as [[r' c']|] eqn:W; cbn [option_map fst snd]; [|discriminate].
    intros H; inversion H; subst. unfold WF. cbn [nrows ncols data]. split; [|reflexivity].
    apply want_shape_prod in W. unfold WF, size in *. lia.
  Qed.

  Lemma reshape_wf : forall (m : mat) r c m', reshape m r c = Some m' -> WF m' /\ data m' = data m.
  Proof.
    intros m r c m'. unfold reshape.
    match goal with |- bind ?x _ = _ -> _ => destruct x as [[r' c']|] end; cbn [bind]; [|discriminate].
    apply new_wf.
  Qed.

  Lemma length_transpose_flat : forall (a : list T) nr b,
    transpose_flat O a nr = Some b -> length b = length a /\ 0 < nr.
  Proof.
    intros a nr b. unfold transpose_flat.
    destruct (is_matrix (length a) nr) as [nc|] eqn:M; [|discriminate]. unfold bind. intros [= <-].
    rewrite (length_flat_map_const _ _ nr) by (intros; cbv beta; now rewrite map_length, seq_length).
    rewrite seq_length. unfold is_matrix in M. destruct nr as [|n]; [discriminate|].
    destruct (Nat.eqb_spec (S n * (length a / S n)) (length a)) as [Q|Q]; [|discriminate].
    injection M as <-. split; [rewrite Nat.mul_comm; exact Q|lia].
  Qed.

  Theorem step_wf : forall (m : mat) (o : op) m' out, WF m -> step O m o = Some (m', out) -> WF m'.
  Proof.
    intros m o m' out L. unfold step, upd_state, observe.
    destruct o;
      repeat match goal with
             | |- option_map _ ?x = Some _ -> _ => let E := fresh "E" in destruct x eqn:E; cbn [option_map]; [|discriminate]
             end; intros H; inversion H; subst; clear H; try exact L.
    - (* t *) unfold t in E. destruct (transpose_flat O (data m) (nrows m)); cbn [bind] in E; [|discriminate].
      now apply new_wf in E.
    - (* t_mut *) unfold t_mut in E. destruct (transpose_flat O (data m) (nrows m)) as [a|] eqn:Tr; cbn [bind] in E; [|discriminate].
      inversion E; subst. apply length_transpose_flat in Tr. unfold WF in *. cbn [nrows ncols data]. lia.
    - now apply reshape_wf in E.
    - now apply reshape_mut_wf in E.
    - (* hcat *) destruct (new od r c); cbn [bind] in E; [|discriminate]. unfold hcat in E.
      repeat (match type of E with bind (guard ?b) _ = _ => destruct b; cbn [guard bind] in E; [|discriminate] end).
      now apply new_wf in E.
    - (* vcat *) destruct (new od r c); cbn [bind] in E; [|discriminate]. unfold vcat in E.
      repeat (match type of E with bind (guard ?b) _ = _ => destruct b; cbn [guard bind] in E; [|discriminate] end).
      now apply new_wf in E.
    - unfold hrepeat in E.
      repeat (match type of E with bind (guard ?b) _ = _ => destruct b; cbn [guard bind] in E; [|discriminate] end).
      now apply new_wf in E.
    - unfold vrepeat in E. now apply new_wf in E.
    - (* apply_along_row *) unfold apply_along_row in E.
      repeat (match type of E with bind (guard ?b) _ = _ => destruct b; cbn [guard bind] in E; [|discriminate] end).
      inversion E; subst. unfold WF in *. cbn [nrows ncols data]. now rewrite length_mapi.
    - unfold apply_along_col in E. cbv zeta in E.
      repeat (match type of E with bind (guard ?b) _ = _ => destruct b; cbn [guard bind] in E; [|discriminate] end).
      inversion E; subst. unfold WF in *. cbn [nrows ncols data]. now rewrite length_mapi.
    - unfold flat_idx_replace in E.
      repeat (match type of E with bind (guard ?b) _ = _ => destruct b; cbn [guard bind] in E; [|discriminate] end).
      inversion E; subst. unfold WF in *. cbn [nrows ncols data]. now rewrite length_upd.
    - unfold idx_set in E.
      repeat (match type of E with bind (guard ?b) _ = _ => destruct b; cbn [guard bind] in E; [|discriminate] end).
      inversion E; subst. unfold WF in *. cbn [nrows ncols data]. now rewrite length_upd.
    - now apply new_wf in E.
    - now apply new_wf in E.
    - destruct (row_to_col_major O (data m) (nrows m)); cbn [bind] in E; [|discriminate]. now apply new_wf in E.
    - destruct (col_to_row_major O (data m) (ncols m)); cbn [bind] in E; [|discriminate]. now apply new_wf in E.
  Qed.

  Theorem run_wf : forall (ops : list op) (m : mat) m' outs, WF m -> run O m ops = Some (m', outs) -> WF m'.
  Proof.
    induction ops as [|o ops IH]; intros m m' outs L; cbn [run].
    - intros H; inversion H; subst. exact L.
    - destruct (step O m o) as [[m1 out]|] eqn:S; cbn [bind]; [|discriminate].
      destruct (run O m1 ops) as [[m2 outs2]|] eqn:R; cbn [bind]; [|discriminate].
      intros H; inversion H; subst. eapply IH; [|exact R]. eapply step_wf; eassumption.
  Qed.

  (** ** (c) requests with a zero dimension, or a negative one other than -1 *)
  Lemma want_shape_zero : forall sz r c, (r = 0 \/ c = 0)%Z ->
    want_shape sz r c = if ((r =? 0) && (c =? 0))%Z && (sz =? 0) then Some (0, 0) else None.
  Proof.
    intros sz r c H. unfold want_shape. destruct H; subst; zb; try reflexivity;
      destruct (sz =? 0); reflexivity.
  Qed.

  Lemma want_shape_negative : forall sz r c, (r < -1 \/ c < -1)%Z -> want_shape sz r c = None.
  Proof. intros sz r c H. unfold want_shape. destruct H; zb; reflexivity. Qed.

  Theorem zero_dimension_requests : forall (m : mat) (r c : Z), (r = 0 \/ c = 0)%Z ->
    reshape_mut m r c = (if ((r =? 0) && (c =? 0))%Z && (size m =? 0) then Some (mkMat 0 0 (data m)) else None) /\
    new (data m) r c = (if ((r =? 0) && (c =? 0))%Z && (length (data m) =? 0) then Some (mkMat 0 0 (data m)) else None) /\
    reshape m r c = (if ((r =? 0) && (c =? 0))%Z && (length (data m) =? 0) then Some (mkMat 0 0 (data m)) else None).
  Proof.
    intros m r c H.
    assert (Hn : new (data m) r c =
                 if ((r =? 0) && (c =? 0))%Z && (length (data m) =? 0) then Some (mkMat 0 0 (data m)) else None).
    { rewrite new_want, want_shape_zero by exact H.
      destruct (((r =? 0) && (c =? 0))%Z && (length (data m) =? 0)); reflexivity. }
    split; [|split; [exact Hn|]].
    - rewrite reshape_mut_want, want_shape_zero by exact H.
      destruct (((r =? 0) && (c =? 0))%Z && (size m =? 0)); reflexivity.
    - unfold reshape. destruct H as [-> | ->].
      + change ((0 <? 0)%Z) with false. cbn [andb]. change ((0 =? 0)%Z) with true. cbn [andb].
        destruct (Z.ltb_spec c 0) as [Hc|Hc].
        * change ((0 =? -1)%Z) with false. rewrite andb_false_r. cbn [guard bind].
          destruct (Z.eqb_spec c 0); [lia|]. reflexivity.
        * destruct (Z.eqb_spec c 0) as [Ec|Hc0]; cbn [bind andb].
          -- rewrite Ec in Hn. change ((0 =? 0)%Z) with true in Hn. cbn [andb] in Hn. exact Hn.
          -- reflexivity.
      + rewrite andb_false_r. change ((0 <? 0)%Z) with false. change ((0 =? 0)%Z) with true. rewrite andb_true_r.
        destruct (Z.ltb_spec r 0) as [Hr|Hr].
        * rewrite andb_false_r. cbn [guard bind]. destruct (Z.eqb_spec r 0); [lia|]. reflexivity.
        * change ((0 =? -1)%Z) with false. cbn [andb guard bind].
          destruct (Z.eqb_spec r 0) as [Er|Hr0]; cbn [bind andb].
          -- rewrite Er in Hn. change ((0 =? 0)%Z) with true in Hn. cbn [andb] in Hn. exact Hn.
          -- reflexivity.
  Qed.

  Theorem negative_dimension_requests : forall (m : mat) (r c : Z), (r < -1 \/ c < -1)%Z ->
    reshape_mut m r c = None /\ new (data m) r c = None.
  Proof.
    intros m r c H. rewrite reshape_mut_want, new_want, !want_shape_negative by exact H. split; reflexivity.
  Qed.

  (** [Matrix::new] / [reshape_mut] on no elements: 0 x 0, or a degenerate shape through an inferred dimension,
      nothing else *)
  Lemma want_shape_0 : forall r c,
    want_shape 0 r c =
    if ((r =? 0) && (c =? 0))%Z then Some (0, 0)
    else if ((r =? -1) && (0 <? c))%Z then Some (0, Z.to_nat c)
    else if ((c =? -1) && (0 <? r))%Z then Some (Z.to_nat r, 0)
    else None.
  Proof.
    intros r c. unfold want_shape.
    destruct (Z.ltb_spec 0 r) as [Hr|Hr]; destruct (Z.ltb_spec 0 c) as [Hc|Hc]; cbn [andb].
    - destruct (Z.eqb_spec (r * c) (Z.of_nat 0)) as [Q|Q]; [cbn in Q; nia|]. zb; reflexivity.
    - destruct (Z.eqb_spec r (-1)); [lia|]. destruct (Z.eqb_spec r 0); [lia|]. cbn [andb]. rewrite !andb_true_r.
      destruct (Z.eqb_spec c (-1)); [|reflexivity].
      rewrite Nat.mod_0_l, Nat.div_0_l by lia. reflexivity.
    - destruct (Z.eqb_spec c (-1)); [lia|]. destruct (Z.eqb_spec c 0); [lia|]. cbn [andb].
      rewrite !andb_false_r, !andb_true_r.
      destruct (Z.eqb_spec r (-1)); [|reflexivity].
      rewrite Nat.mod_0_l, Nat.div_0_l by lia. reflexivity.
    - rewrite !andb_false_r. destruct ((r =? 0) && (c =? 0))%Z; reflexivity.
  Qed.

  Theorem new_on_empty_data : forall r c : Z,
    new (@nil T) r c =
    if ((r =? 0) && (c =? 0))%Z then Some E
    else if ((r =? -1) && (0 <? c))%Z then Some (mkMat 0 (Z.to_nat c) [])
    else if ((c =? -1) && (0 <? r))%Z then Some (mkMat (Z.to_nat r) 0 [])
    else None.
  Proof.
    intros r c. rewrite new_want. cbn [length]. rewrite want_shape_0.
    destruct (_ && _)%Z; [reflexivity|]. destruct (_ && _)%Z; [reflexivity|]. destruct (_ && _)%Z; reflexivity.
  Qed.

  (** ** (b) the empty matrix under every operation *)
  Lemma reshape_empty : forall r c, reshape E r c = if ((r =? 0) && (c =? 0))%Z then Some E else None.
  Proof.
    intros r c. unfold reshape, size. cbn [nrows ncols data Nat.mul Z.of_nat].
    destruct (Z.ltb_spec 0 r) as [Hr|Hr]; destruct (Z.ltb_spec 0 c) as [Hc|Hc]; cbn [andb].
    - destruct (Z.eqb_spec (r * c) 0) as [Q|Q]; [nia|]. cbn [guard bind]. destruct (Z.eqb_spec r 0); [lia|reflexivity].
    - destruct (Z.ltb_spec r 0); [lia|]. destruct (Z.eqb_spec r 0); [lia|]. cbn [andb].
      destruct (Z.ltb_spec c 0) as [Nc|Nc]; [|reflexivity].
      destruct (Z.eqb_spec c (-1)) as [Ec|Ec]; cbn [andb guard bind]; [|reflexivity].
      rewrite Z.quot_0_l by lia. rewrite new_on_empty_data.
      destruct (Z.eqb_spec r 0); [lia|]. destruct (Z.eqb_spec r (-1)); [lia|]. cbn [andb]. reflexivity.
    - destruct (Z.eqb_spec c 0); [lia|]. rewrite !andb_false_r.
      destruct (Z.ltb_spec r 0) as [Nr|Nr].
      + destruct (Z.eqb_spec r (-1)) as [Er|Er]; cbn [andb guard bind]; [|reflexivity].
        rewrite Z.quot_0_l by lia. rewrite new_on_empty_data.
        destruct (Z.eqb_spec c 0); [lia|]. rewrite andb_false_r. change ((0 =? -1)%Z) with false. cbn [andb].
        destruct (Z.eqb_spec c (-1)); [lia|]. reflexivity.
      + destruct (Z.ltb_spec c 0); [lia|]. reflexivity.
    - destruct (Z.ltb_spec r 0) as [Nr|Nr].
      + rewrite andb_false_r. cbn [guard bind]. destruct (Z.eqb_spec r 0); [lia|]. reflexivity.
      + destruct (Z.ltb_spec c 0) as [Nc|Nc].
        * rewrite andb_false_r. cbn [guard bind]. destruct (Z.eqb_spec c 0); [lia|]. rewrite andb_false_r. reflexivity.
        * destruct ((r =? 0) && (c =? 0))%Z; reflexivity.
  Qed.

  Lemma cat_empty : forall (od : list T) r c,
    (let* o := new od r c in hcat O E o) =
      (match od with [] => if ((r =? 0) && (c =? 0))%Z then Some E else None | _ => None end) /\
    (let* o := new od r c in vcat E o) =
      (match od with [] => if ((r =? 0) && (c =? 0))%Z then Some E else None | _ => None end).
  Proof.
    intros od r c. destruct (new od r c) as [o|] eqn:N; cbn [bind].
    - pose proof (new_wf _ _ _ _ N) as [L D]. unfold WF in L.
      destruct od as [|x od].
      + rewrite new_on_empty_data in N.
        destruct ((r =? 0) && (c =? 0))%Z; [inversion N; subst; split; reflexivity|].
        destruct ((r =? -1) && (0 <? c))%Z eqn:Q1.
        * inversion N; subst. apply andb_true_iff in Q1. destruct Q1 as [_ Q1]. apply Z.ltb_lt in Q1.
          unfold hcat, vcat. cbn [nrows ncols data Nat.eqb guard bind app length Nat.add seq flat_map].
          destruct (Z.to_nat c) eqn:Q; [lia|]. split; reflexivity.
        * destruct ((c =? -1) && (0 <? r))%Z eqn:Q2; [|discriminate].
          inversion N; subst. apply andb_true_iff in Q2. destruct Q2 as [_ Q2]. apply Z.ltb_lt in Q2.
          unfold hcat, vcat. cbn [nrows ncols data].
          destruct (Z.to_nat r) eqn:Q; [lia|]. split; reflexivity.
      + (* non-empty data: the operand has a row and a column, the empty matrix has none *)
        assert (0 < nrows o /\ 0 < ncols o) as [Pr Pc] by (rewrite D in L; cbn [length] in L; nia).
        unfold hcat, vcat. cbn [nrows ncols data].
        destruct (nrows o) eqn:Q1; [lia|]. destruct (ncols o) eqn:Q2; [lia|]. split; reflexivity.
    - destruct od; [|split; reflexivity].
      rewrite new_on_empty_data in N. destruct ((r =? 0) && (c =? 0))%Z; [discriminate|]. split; reflexivity.
  Qed.

  Theorem step_on_empty : forall o : op, step O E o = empty_step o.
  Proof.
    intros o. unfold step, empty_step, upd_state, observe. destruct o; try reflexivity.
    - rewrite reshape_empty. destruct (_ && _)%Z; reflexivity.
    - rewrite reshape_mut_want. unfold size. cbn [nrows ncols data Nat.mul].
      destruct (want_shape 0 r c) as [[r' c']|]; reflexivity.
    - rewrite (proj1 (cat_empty od r c)). destruct od; [destruct (_ && _)%Z|]; reflexivity.
    - rewrite (proj2 (cat_empty od r c)). destruct od; [destruct (_ && _)%Z|]; reflexivity.
    - unfold hrepeat. cbn [nrows ncols data in_bounds size Nat.mul length Nat.leb].
      rewrite orb_true_r. reflexivity.
    - unfold vrepeat. cbn [nrows ncols data Nat.mul]. rewrite concat_repeat_nil. reflexivity.
    - rewrite new_want. cbn [data length]. destruct (want_shape 0 r c) as [[r' c']|]; reflexivity.
  Qed.

End Empty.
