(** Proofs for C11 (extension), floating point, part 7: without the no-underflow hypotheses, the perturbed form of the
    backward error of the triangular solves, and the versions for a triangular argument and for the [Matrix] forms.

    A componentwise residual bound with an absolute term,  |b_i - (T x)_i| <= g * Sigma_j |T_ij| |x_j| + a_i ,  is
    equivalent to:  (T') x = b + db  for a matrix T' with |T'_ij - T_ij| <= g |T_ij| (same zero pattern) and a
    right-hand-side perturbation |db_i| <= a_i  (the residual r_i is split in the proportion g S_i : a_i). *)
From Coq Require Import List Arith Bool ZArith Reals Lra Lia Floats.
From Flocq Require Import Core BinarySingleNaN PrimFloat.
From Compute Require Import Base.Ops Base.ListMat Model.Reduce Model.MatMul Model.Subst Model.LU Spec.Vops Spec.Factor
  Proofs.C04Red Proofs.C04Err Proofs.C04ErrF Proofs.C04ErrDot Proofs.C04ErrNP Proofs.C04ErrGen Proofs.C05 Proofs.LinAlgBase
  Proofs.C11_Subst Proofs.C11_Det Proofs.C11_Forms Proofs.C11_FloatBase Proofs.C11_FloatSubst Proofs.C11_FloatPert
  Proofs.C11_FloatMatrix Proofs.C11_FloatGen.
Import ListNotations.
Local Open Scope R_scope.

(** ** residual bound with an absolute term -> perturbed matrix and perturbed right-hand side *)
Definition rhs_share (r gS a : R) : R := if Req_EM_T (gS + a) 0 then 0 else r * (a / (gS + a)).

Lemma rhs_share_spec (r gS a : R) :
  0 <= gS -> 0 <= a -> Rabs r <= gS + a ->
  Rabs (rhs_share r gS a) <= a /\ Rabs (r - rhs_share r gS a) <= gS.
Proof.
  intros HgS Ha Hr. unfold rhs_share. destruct (Req_EM_T (gS + a) 0) as [H0|H0].
  - assert (r = 0). { destruct (Req_dec r 0) as [|Hne]; [assumption|]. pose proof (Rabs_pos_lt r Hne). lra. }
    subst r. rewrite Rminus_0_r, Rabs_R0. lra.
  - assert (Hp : 0 < gS + a) by lra.
    assert (Hq : 0 <= a / (gS + a) <= 1).
    { split; [apply Rmult_le_pos; [lra|left; apply Rinv_0_lt_compat; lra]|].
      apply (Rmult_le_reg_r (gS + a)); [exact Hp|]. unfold Rdiv. rewrite Rmult_assoc, Rinv_l by exact H0. lra. }
    set (q := a / (gS + a)) in *.
    assert (Hqa : q * (gS + a) = a) by (unfold q; field; exact H0).
    split.
    + rewrite Rabs_mult, (Rabs_pos_eq q) by lra.
      apply Rle_trans with ((gS + a) * q); [apply Rmult_le_compat_r; lra|lra].
    + replace (r - r * q) with (r * (1 - q)) by ring. rewrite Rabs_mult, (Rabs_pos_eq (1 - q)) by lra.
      apply Rle_trans with ((gS + a) * (1 - q)); [apply Rmult_le_compat_r; lra|].
      replace ((gS + a) * (1 - q)) with (gS + a - q * (gS + a)) by ring. lra.
Qed.

Lemma nth_map_seq0 {A} (h : nat -> A) p j d : (j < p)%nat -> nth j (map h (seq 0 p)) d = h j.
Proof.
  intros H. rewrite (nth_indep _ d (h 0%nat)) by (rewrite map_length, seq_length; exact H).
  rewrite map_nth, seq_nth by exact H. reflexivity.
Qed.

Lemma perturbed_matrix_abs (P : nat -> nat -> R) (X B : list R) (g : R) (a : nat -> R) (n : nat) :
  0 <= g -> (forall i, (i < n)%nat -> 0 <= a i) ->
  (forall i, (i < n)%nat ->
     Rabs (nth i B 0 - rsum (fun k => P i k * nth k X 0) n)
     <= g * rsum (fun k => Rabs (P i k) * Rabs (nth k X 0)) n + a i) ->
  exists T' dB : list R,
    length T' = (n * n)%nat /\ length dB = n /\
    (forall i j, (i < n)%nat -> (j < n)%nat -> Rabs (getm T' n i j - P i j) <= g * Rabs (P i j)) /\
    (forall i, (i < n)%nat -> Rabs (nth i dB 0) <= a i) /\
    (forall i, (i < n)%nat -> mvec T' n X i = nth i B 0 + nth i dB 0).
Proof.
  intros Hg Ha H.
  set (S := fun i => rsum (fun k => Rabs (P i k) * Rabs (nth k X 0)) n).
  set (r := fun i => nth i B 0 - rsum (fun k => P i k * nth k X 0) n).
  set (d := fun i => rhs_share (r i) (g * S i) (a i)).
  set (B' := map (fun i => nth i B 0 - d i) (seq 0 n)).
  assert (HS : forall i, 0 <= g * S i).
  { intros i. apply Rmult_le_pos; [exact Hg|]. unfold S. apply rsum_abs_nonneg. }
  assert (Hspec : forall i, (i < n)%nat -> Rabs (d i) <= a i /\ Rabs (r i - d i) <= g * S i).
  { intros i Hi. apply rhs_share_spec; [apply HS|apply Ha; exact Hi|apply (H i Hi)]. }
  assert (HB' : forall i, (i < n)%nat -> nth i B' 0 = nth i B 0 - d i).
  { intros i Hi. unfold B'. rewrite (nth_map_seq0 _ n i 0 Hi). reflexivity. }
  destruct (perturbed_matrix P X B' g n Hg) as (T' & Hlen & Hb & Hs).
  { intros i Hi. rewrite (HB' i Hi).
    replace (nth i B 0 - d i - rsum (fun k => P i k * nth k X 0) n) with (r i - d i) by (unfold r; ring).
    apply (Hspec i Hi). }
  exists T', (map (fun i => - d i) (seq 0 n)).
  split; [exact Hlen|]. split; [rewrite map_length, seq_length; reflexivity|]. split; [exact Hb|]. split.
  - intros i Hi. rewrite (nth_map_seq0 _ n i 0 Hi), Rabs_Ropp. apply (Hspec i Hi).
  - intros i Hi. rewrite (Hs i Hi), (HB' i Hi), (nth_map_seq0 _ n i 0 Hi). ring.
Qed.

Lemma abs_term_nonneg (n : nat) (t : R) : 0 <= / 2 ^ 1075 * (INR n * (1 + / 2 ^ 53) ^ n + (1 + / 2 ^ 53) * Rabs t).
Proof.
  rewrite <- u64_val, <- eta64_val. pose proof u64_nonneg. pose proof eta64_nonneg. pose proof (pos_INR n). pose proof (Rabs_pos t).
  assert (0 <= (1 + u64) ^ n) by (apply pow_le; lra).
  apply Rmult_le_pos; [assumption|]. apply Rplus_le_le_0_compat; apply Rmult_le_pos; lra.
Qed.

(** ** the explicit statements *)
Lemma forward_substitution_backward_error_general (tbl : libm_table) (l b x : list pfloat) (n : nat) :
  forward_substitution (FO tbl) l b = Some x -> (n * n)%nat = length l ->
  (forall i, (i < n)%nat -> B2Rf (nth (i * n + i) l 0%float) <> 0) ->
  Forall finite x ->
  let T := map B2Rf l in let B := map B2Rf b in let X := map B2Rf x in
  let gamma := (1 + / 2 ^ 53) ^ n - 1 in
  let alpha := fun i => / 2 ^ 1075 * (INR n * (1 + / 2 ^ 53) ^ n + (1 + / 2 ^ 53) * Rabs (B2Rf (nth (i * n + i) l 0%float))) in
  exists T' dB : list R,
    length T' = (n * n)%nat /\ length dB = n /\ lower_triangular T' n /\
    (forall i j, (i < n)%nat -> (j < n)%nat ->
       Rabs (getm T' n i j - lower_part T n i j) <= gamma * Rabs (lower_part T n i j)) /\
    (forall i, (i < n)%nat -> Rabs (nth i dB 0) <= alpha i) /\
    (forall i, (i < n)%nat -> mvec T' n X i = nth i B 0 + nth i dB 0).
Proof.
  intros Hrun Hn Hd Hfin T B X gamma alpha.
  assert (Hres := fwd_F_residual_general tbl l b x n Hrun Hn Hd Hfin).
  destruct (perturbed_matrix_abs (lower_part T n) X B gamma alpha n (gamma_nonneg n)) as (T' & dB & Hlen & Hld & Hb & Hdb & Hs).
  { intros i _. apply abs_term_nonneg. }
  { exact Hres. }
  exists T', dB. split; [exact Hlen|]. split; [exact Hld|]. split; [|split; [exact Hb|split; assumption]].
  intros i j Hi Hj Hij. specialize (Hb i j Hi Hj). unfold lower_part in Hb.
  destruct (Nat.leb_spec j i); [lia|]. apply (bound_zero _ gamma Hb).
Qed.

Lemma backward_substitution_backward_error_general (tbl : libm_table) (u b x : list pfloat) (n : nat) :
  backward_substitution (FO tbl) u b = Some x -> (n * n)%nat = length u ->
  (forall i, (i < n)%nat -> B2Rf (nth (i * n + i) u 0%float) <> 0) ->
  Forall finite x ->
  let T := map B2Rf u in let B := map B2Rf b in let X := map B2Rf x in
  let gamma := (1 + / 2 ^ 53) ^ n - 1 in
  let alpha := fun i => / 2 ^ 1075 * (INR n * (1 + / 2 ^ 53) ^ n + (1 + / 2 ^ 53) * Rabs (B2Rf (nth (i * n + i) u 0%float))) in
  exists T' dB : list R,
    length T' = (n * n)%nat /\ length dB = n /\ upper_triangular T' n /\
    (forall i j, (i < n)%nat -> (j < n)%nat ->
       Rabs (getm T' n i j - upper_part T n i j) <= gamma * Rabs (upper_part T n i j)) /\
    (forall i, (i < n)%nat -> Rabs (nth i dB 0) <= alpha i) /\
    (forall i, (i < n)%nat -> mvec T' n X i = nth i B 0 + nth i dB 0).
Proof.
  intros Hrun Hn Hd Hfin T B X gamma alpha.
  assert (Hres := bwd_F_residual_general tbl u b x n Hrun Hn Hd Hfin).
  destruct (perturbed_matrix_abs (upper_part T n) X B gamma alpha n (gamma_nonneg n)) as (T' & dB & Hlen & Hld & Hb & Hdb & Hs).
  { intros i _. apply abs_term_nonneg. }
  { exact Hres. }
  exists T', dB. split; [exact Hlen|]. split; [exact Hld|]. split; [|split; [exact Hb|split; assumption]].
  intros i j Hi Hj Hij. specialize (Hb i j Hi Hj). unfold upper_part in Hb.
  destruct (Nat.leb_spec i j); [lia|]. apply (bound_zero _ gamma Hb).
Qed.

(** ** for a triangular argument, and for the [Matrix] forms (whose receiver is checked to be triangular): the residual
    reads with the matrix itself *)
Lemma forward_substitution_residual_triangular_general (tbl : libm_table) (l b x : list pfloat) (n : nat) :
  forward_substitution (FO tbl) l b = Some x -> (n * n)%nat = length l ->
  lower_triangular (map B2Rf l) n ->
  (forall i, (i < n)%nat -> B2Rf (nth (i * n + i) l 0%float) <> 0) ->
  Forall finite x ->
  let T := map B2Rf l in let B := map B2Rf b in let X := map B2Rf x in
  let gamma := (1 + / 2 ^ 53) ^ n - 1 in
  forall i, (i < n)%nat ->
    Rabs (nth i B 0 - mvec T n X i)
    <= gamma * rsum (fun k => Rabs (getm T n i k) * Rabs (nth k X 0)) n
       + / 2 ^ 1075 * (INR n * (1 + / 2 ^ 53) ^ n + (1 + / 2 ^ 53) * Rabs (getm T n i i)).
Proof.
  intros Hrun Hn Htri Hd Hfin T B X gamma i Hi. change (lower_triangular T n) in Htri.
  pose proof (fwd_F_residual_general tbl l b x n Hrun Hn Hd Hfin i Hi) as Hres. unfold mvec.
  rewrite (rsum_ext (fun k => getm T n i k * nth k X 0) (fun k => lower_part T n i k * nth k X 0))
    by (intros k Hk; rewrite (lower_part_triangular _ _ _ _ Htri Hi Hk); reflexivity).
  rewrite (rsum_ext (fun k => Rabs (getm T n i k) * Rabs (nth k X 0)) (fun k => Rabs (lower_part T n i k) * Rabs (nth k X 0)))
    by (intros k Hk; rewrite (lower_part_triangular _ _ _ _ Htri Hi Hk); reflexivity).
  unfold getm. unfold T. rewrite nth_map_B2Rf. exact Hres.
Qed.

Lemma backward_substitution_residual_triangular_general (tbl : libm_table) (u b x : list pfloat) (n : nat) :
  backward_substitution (FO tbl) u b = Some x -> (n * n)%nat = length u ->
  upper_triangular (map B2Rf u) n ->
  (forall i, (i < n)%nat -> B2Rf (nth (i * n + i) u 0%float) <> 0) ->
  Forall finite x ->
  let T := map B2Rf u in let B := map B2Rf b in let X := map B2Rf x in
  let gamma := (1 + / 2 ^ 53) ^ n - 1 in
  forall i, (i < n)%nat ->
    Rabs (nth i B 0 - mvec T n X i)
    <= gamma * rsum (fun k => Rabs (getm T n i k) * Rabs (nth k X 0)) n
       + / 2 ^ 1075 * (INR n * (1 + / 2 ^ 53) ^ n + (1 + / 2 ^ 53) * Rabs (getm T n i i)).
Proof.
  intros Hrun Hn Htri Hd Hfin T B X gamma i Hi. change (upper_triangular T n) in Htri.
  pose proof (bwd_F_residual_general tbl u b x n Hrun Hn Hd Hfin i Hi) as Hres. unfold mvec.
  rewrite (rsum_ext (fun k => getm T n i k * nth k X 0) (fun k => upper_part T n i k * nth k X 0))
    by (intros k Hk; rewrite (upper_part_triangular _ _ _ _ Htri Hi Hk); reflexivity).
  rewrite (rsum_ext (fun k => Rabs (getm T n i k) * Rabs (nth k X 0)) (fun k => Rabs (upper_part T n i k) * Rabs (nth k X 0)))
    by (intros k Hk; rewrite (upper_part_triangular _ _ _ _ Htri Hi Hk); reflexivity).
  unfold getm. unfold T. rewrite nth_map_B2Rf. exact Hres.
Qed.

Lemma matrix_forward_substitution_residual_general (tbl : libm_table) (m : matrix (T:=pfloat)) (b x : list pfloat) :
  matrix_forward_substitution (FO tbl) m b = Some x ->
  let n := nr m in let l := dat m in
  (forall i, (i < n)%nat -> B2Rf (nth (i * n + i) l 0%float) <> 0) ->
  Forall finite x ->
  let T := map B2Rf l in let B := map B2Rf b in let X := map B2Rf x in
  let gamma := (1 + / 2 ^ 53) ^ n - 1 in
  forall i, (i < n)%nat ->
    Rabs (nth i B 0 - mvec T n X i)
    <= gamma * rsum (fun k => Rabs (getm T n i k) * Rabs (nth k X 0)) n
       + / 2 ^ 1075 * (INR n * (1 + / 2 ^ 53) ^ n + (1 + / 2 ^ 53) * Rabs (getm T n i i)).
Proof.
  intros H n l. destruct (matrix_fwd_guards tbl m b x H) as (Hrun & Hn & Htri).
  apply (forward_substitution_residual_triangular_general tbl l b x n Hrun Hn Htri).
Qed.

Lemma matrix_backward_substitution_residual_general (tbl : libm_table) (m : matrix (T:=pfloat)) (b x : list pfloat) :
  matrix_backward_substitution (FO tbl) m b = Some x ->
  let n := nr m in let u := dat m in
  (forall i, (i < n)%nat -> B2Rf (nth (i * n + i) u 0%float) <> 0) ->
  Forall finite x ->
  let T := map B2Rf u in let B := map B2Rf b in let X := map B2Rf x in
  let gamma := (1 + / 2 ^ 53) ^ n - 1 in
  forall i, (i < n)%nat ->
    Rabs (nth i B 0 - mvec T n X i)
    <= gamma * rsum (fun k => Rabs (getm T n i k) * Rabs (nth k X 0)) n
       + / 2 ^ 1075 * (INR n * (1 + / 2 ^ 53) ^ n + (1 + / 2 ^ 53) * Rabs (getm T n i i)).
Proof.
  intros H n u. destruct (matrix_bwd_guards tbl m b x H) as (Hrun & Hn & Htri).
  apply (backward_substitution_residual_triangular_general tbl u b x n Hrun Hn Htri).
Qed.
