(** C09: Γ(n) = (n−1)! to 1e-13 for n = 115 .. 171, each by [interval] on the regenerated constants. *)
From Compute Require Import Proofs.C09_base.
Lemma lanczos_part3 : Forall lanczos_ok (seq 115 57).
Proof. cbv [seq]. lanczos_all. Qed.
