(** Proofs for C11 (extension), floating point, part 1: one row of a triangular solve on binary64.

    The two substitution loops of [Model/Subst.v] compute, row by row,
        x_i = fl( fl( b_i - dot(t_i, x) ) / t_ii ) ,
    where [dot] is the 8-way unrolled [Reduce.dot_raw] over the already computed components.  This file proves
    the classical backward-error statement for ONE such row on binary64 (Flocq):
        | b_i - ( Sigma_k t_ik x_k  +  t_ii x_i ) |  <=  ((1+u)^(m+1) - 1) * ( Sigma_k |t_ik x_k| + |t_ii x_i| ) ,
    u = 2^-53, m = length of the dot product, all x the COMPUTED doubles, whenever the computed x_i is finite (no
    overflow anywhere in the row) and neither a product nor the quotient underflows.
    The key is that a correctly rounded result r' = fl(r) satisfies |r' - r| <= u |r'| (error relative to the
    ROUNDED value), so b_i - d = t_ii x_i (1+e1)(1+e2): the two roundings after the dot product perturb t_ii only,
    by (1+u)^2 - 1 <= (1+u)^(m+1) - 1 for m >= 1; for m = 0 the subtraction b_i - 0 is exact and one rounding remains.
    [b_i] itself is not perturbed.  *)
From Coq Require Import List Arith Bool ZArith Reals Lra Lia Floats.
From Flocq Require Import Core Relative Plus_error BinarySingleNaN PrimFloat.
From Compute Require Import Base.Ops Base.ListMat Model.Reduce Spec.Vops
  Proofs.C04Red Proofs.C04Err Proofs.C04ErrF Proofs.C04ErrDot Proofs.C04ErrNP.
Import ListNotations.
Local Open Scope R_scope.
Local Existing Instance Flocq.IEEE754.PrimFloat.Hprec.
Local Existing Instance Flocq.IEEE754.PrimFloat.Hmax.

(** ** real arithmetic: the two roundings after the dot product *)
Lemma row_step_err (u e b d' t s' x' c A : R) :
  0 <= u -> (1 + u) ^ 2 - 1 <= e -> 0 <= A ->
  Rabs (s' - (b - d')) <= u * Rabs s' ->
  Rabs (x' - s' / t) <= u * Rabs x' -> t <> 0 ->
  Rabs (d' - c) <= e * A ->
  Rabs (b - (c + t * x')) <= e * (A + Rabs (t * x')).
Proof.
  intros Hu He HA Hs Hx Ht Hd.
  set (y := t * x').
  assert (H1 : Rabs (y - s') <= u * Rabs y).
  { replace (y - s') with (t * (x' - s' / t)) by (unfold y; field; exact Ht).
    unfold y. rewrite !Rabs_mult.
    replace (u * (Rabs t * Rabs x')) with (Rabs t * (u * Rabs x')) by ring.
    apply Rmult_le_compat_l; [apply Rabs_pos|exact Hx]. }
  assert (H2 : Rabs s' <= Rabs y + Rabs (y - s')).
  { replace s' with (y - (y - s')) at 1 by ring. unfold Rminus at 1.
    eapply Rle_trans; [apply Rabs_triang|]. rewrite Rabs_Ropp. lra. }
  assert (H3 : u * Rabs s' <= u * ((1 + u) * Rabs y)) by (apply Rmult_le_compat_l; lra).
  replace (b - (c + y)) with ((- (s' - (b - d')) + - (y - s')) + (d' - c)) by ring.
  eapply Rle_trans; [apply Rabs_triang|].
  eapply Rle_trans; [apply Rplus_le_compat_r, Rabs_triang|]. rewrite !Rabs_Ropp.
  pose proof (Rabs_pos y) as Hy.
  assert (H4 : ((1 + u) ^ 2 - 1) * Rabs y <= e * Rabs y) by (apply Rmult_le_compat_r; assumption).
  simpl in H4. nra.
Qed.

(** the first row: no dot product, [b - 0] is exact, one rounding *)
Lemma row_step_first (u b t x' : R) :
  Rabs (x' - b / t) <= u * Rabs x' -> t <> 0 -> Rabs (b - t * x') <= u * Rabs (t * x').
Proof.
  intros Hx Ht. replace (b - t * x') with (- (t * (x' - b / t))) by (field; exact Ht).
  rewrite Rabs_Ropp, !Rabs_mult.
  replace (u * (Rabs t * Rabs x')) with (Rabs t * (u * Rabs x')) by ring.
  apply Rmult_le_compat_l; [apply Rabs_pos|exact Hx].
Qed.

(** ** binary64 *)

(** a finite difference of two doubles has finite operands and is the rounded exact difference *)
Lemma fsub_finite (x y : pfloat) :
  finite (x - y)%float -> finite x /\ finite y /\ B2Rf (x - y)%float = rnd64 (B2Rf x - B2Rf y).
Proof.
  unfold finite, B2Rf. rewrite sub_equiv.
  destruct (is_finite (Prim2B x)) eqn:Fx.
  - destruct (is_finite (Prim2B y)) eqn:Fy.
    + intros H. split; [reflexivity|]. split; [reflexivity|].
      pose proof (Bminus_correct prec emax _ _ mode_NE (Prim2B x) (Prim2B y) Fx Fy) as HB.
      destruct (Rlt_bool _ _) in HB.
      * destruct HB as (HR & _). exact HR.
      * destruct HB as (HS & _). exfalso.
        destruct (Bminus mode_NE (Prim2B x) (Prim2B y)); try discriminate H;
          cbn [B2SF] in HS; unfold binary_overflow in HS; cbn [overflow_to_inf] in HS; discriminate HS.
    + intros H. exfalso.
      destruct (Prim2B x) as [sx|sx| |sx mx ex Hx]; try discriminate Fx;
        destruct (Prim2B y) as [sy|sy| |sy my ey Hy]; try discriminate Fy; cbn in H; discriminate H.
  - intros H. exfalso.
    destruct (Prim2B x) as [sx|sx| |sx mx ex Hx]; try discriminate Fx;
      destruct (Prim2B y) as [sy|sy| |sy my ey Hy]; cbn in H; try discriminate H;
      destruct (Bool.eqb sx (negb sy)); discriminate H.
Qed.

(** a double with a nonzero real value is finite *)
Lemma B2Rf_nonzero_finite (y : pfloat) : B2Rf y <> 0 -> finite y.
Proof.
  unfold B2Rf, finite. destruct (Prim2B y); cbn; intros H; try reflexivity; exfalso; apply H; reflexivity.
Qed.

(** a finite quotient by a nonzero double has a finite numerator and is the rounded exact quotient *)
Lemma fdiv_finite (x y : pfloat) :
  B2Rf y <> 0 -> finite (x / y)%float -> finite x /\ B2Rf (x / y)%float = rnd64 (B2Rf x / B2Rf y).
Proof.
  unfold finite, B2Rf. rewrite div_equiv. intros Hy H.
  pose proof (Bdiv_correct prec emax _ _ mode_NE (Prim2B x) (Prim2B y) Hy) as HB.
  destruct (Rlt_bool _ _) in HB.
  - destruct HB as (HR & HF & _). rewrite H in HF. split; [symmetry; exact HF|exact HR].
  - exfalso. destruct (Bdiv mode_NE (Prim2B x) (Prim2B y)); try discriminate H;
      cbn [B2SF] in HB; unfold binary_overflow in HB; cbn [overflow_to_inf] in HB; discriminate HB.
Qed.

(** error of a rounded difference of two doubles, relative to the ROUNDED value (no underflow condition: a
    subnormal difference is exact) *)
Lemma rnd64_sub_round (a b : R) :
  F64 a -> F64 b -> Rabs (rnd64 (a - b) - (a - b)) <= u64 * Rabs (rnd64 (a - b)).
Proof.
  intros Fa Fb.
  assert (Fb' : F64 (- b)) by (apply generic_format_opp; exact Fb).
  destruct (FLT_plus_error_N_round_ex radix2 (-1074) 53 (fun z => negb (Z.even z)) a (- b) Fa Fb') as (eps & He & Hr).
  change (a + - b) with (a - b) in Hr. fold rnd64 in Hr.
  rewrite Hr at 2.
  replace (rnd64 (a - b) - rnd64 (a - b) * (1 + eps)) with (- (rnd64 (a - b) * eps)) by ring.
  rewrite Rabs_Ropp, Rabs_mult, Rmult_comm. apply Rmult_le_compat_r; [apply Rabs_pos|exact He].
Qed.

(** error of a rounding without underflow, relative to the ROUNDED value *)
Lemma rnd64_rel_round (r : R) : no_underflow r -> Rabs (rnd64 r - r) <= u64 * Rabs (rnd64 r).
Proof.
  intros [->|Hr].
  - unfold rnd64. rewrite round_0 by apply valid_rnd_N. rewrite Rminus_0_r, Rabs_R0. lra.
  - unfold rnd64, u64, u_ro. apply relative_error_N_FLT_round; [reflexivity|exact Hr].
Qed.

Lemma rnd64_F64 (r : R) : F64 r -> rnd64 r = r.
Proof. intros H. unfold rnd64. apply round_generic; [apply valid_rnd_N|exact H]. Qed.

Lemma dot_raw_nil_l {T} (O : Ops T) (y : list T) : dot_raw O [] y = zero O.
Proof. reflexivity. Qed.

(** ** one row *)
Theorem row_F_error (tbl : libm_table) (r xs : list pfloat) (bi t : pfloat) :
  length r = length xs ->
  B2Rf t <> 0 ->
  finite (div (FO tbl) (sub (FO tbl) bi (dot_raw (FO tbl) r xs)) t) ->
  Forall2 (fun a b => no_underflow (B2Rf a * B2Rf b)) r xs ->
  no_underflow (B2Rf (sub (FO tbl) bi (dot_raw (FO tbl) r xs)) / B2Rf t) ->
  finite bi /\ finite (dot_raw (FO tbl) r xs) /\
  Rabs (B2Rf bi - (Rdot (map B2Rf r) (map B2Rf xs)
                   + B2Rf t * B2Rf (div (FO tbl) (sub (FO tbl) bi (dot_raw (FO tbl) r xs)) t)))
  <= ((1 + / 2 ^ 53) ^ S (length r) - 1)
     * (Rsum (map Rabs (map2 Rmult (map B2Rf r) (map B2Rf xs)))
        + Rabs (B2Rf t * B2Rf (div (FO tbl) (sub (FO tbl) bi (dot_raw (FO tbl) r xs)) t))).
Proof.
  intros Hl Ht Hfin Hnu Hq.
  set (d := dot_raw (FO tbl) r xs) in *. cbn [div sub FO] in *.
  destruct (fdiv_finite _ _ Ht Hfin) as (Hfs & Hx).
  destruct (fsub_finite _ _ Hfs) as (Hfb & Hfd & Hs).
  split; [exact Hfb|]. split; [exact Hfd|].
  rewrite <- u64_val. fold (E u64 (S (length r))).
  pose proof (rnd64_rel_round _ Hq) as Hxe. rewrite <- Hx in Hxe.
  destruct r as [|r0 r'].
  - (* no dot product: d = +0, the subtraction is exact *)
    destruct xs as [|? ?]; [|discriminate Hl].
    assert (Hd0 : B2Rf d = 0) by (unfold d; rewrite dot_raw_nil_l; apply B2Rf_zero).
    assert (Hsb : B2Rf (bi - d)%float = B2Rf bi).
    { rewrite Hs, Hd0, Rminus_0_r. apply rnd64_F64, F64_B2Rf. }
    rewrite Hsb in Hxe.
    cbn [map map2 length]. unfold Rdot. cbn [map2]. unfold Rsum. cbn [map fold_right].
    rewrite !Rplus_0_l. unfold E. rewrite pow_1. replace (1 + u64 - 1) with u64 by ring.
    apply row_step_first; [exact Hxe|exact Ht].
  - pose proof (dot_F_error tbl (r0 :: r') xs Hl Hfd Hnu) as Hd. fold d in Hd.
    rewrite <- u64_val in Hd. fold (E u64 (S (length (r0 :: r')))) in Hd.
    pose proof (rnd64_sub_round (B2Rf bi) (B2Rf d) (F64_B2Rf _) (F64_B2Rf _)) as Hse. rewrite <- Hs in Hse.
    apply (row_step_err u64 _ (B2Rf bi) (B2Rf d) (B2Rf t) (B2Rf (bi - d)%float)); try assumption.
    + apply u64_nonneg.
    + apply (E_mono u64 u64_nonneg 2). cbn [length]. lia.
    + apply Asum_nonneg.
Qed.

(** a sufficient condition on COMPUTED values for the quotient: a quotient whose computed value is finite and
    strictly above the smallest normal number 2^-1022 in magnitude did not underflow *)
Lemma computed_normal_quotient (a b : pfloat) :
  B2Rf b <> 0 -> finite (a / b)%float -> / 2 ^ 1022 < Rabs (B2Rf (a / b)%float) ->
  B2Rf a / B2Rf b = 0 \/ / 2 ^ 1022 <= Rabs (B2Rf a / B2Rf b).
Proof.
  intros Hb Hf Hn. right. destruct (fdiv_finite a b Hb Hf) as (_ & Hm). rewrite Hm in Hn.
  rewrite <- tiny_val in *.
  destruct (Rle_dec tiny (Rabs (B2Rf a / B2Rf b))) as [H|H]; [exact H|exfalso].
  assert (Hle : Rabs (rnd64 (B2Rf a / B2Rf b)) <= tiny).
  { unfold rnd64. apply abs_round_le_generic.
    - apply FLT_exp_valid. reflexivity.
    - apply valid_rnd_N.
    - unfold tiny. apply generic_format_FLT_bpow; [reflexivity|lia].
    - lra. }
  lra.
Qed.
