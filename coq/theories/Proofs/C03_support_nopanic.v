(** Proofs for C03, part 13: ACCEPTANCE half for the samplers — a distribution object the constructors accept never makes
    [sample] panic: the loops contain no panic site (every carrier), the constructor calls made inside [sample]
    ([Gamma::new(dof / 2., 1.)] in t, [Uniform::new(0., p4)] in BTPE) receive valid parameters (real carrier), and the
    range draw of DiscreteUniform is asked for a non-empty range.  With the fuel-monotonicity theorems: the outcome of a
    run on a valid object is either a value of the support or "out of fuel". *)
From Coq Require Import Reals List ZArith NArith QArith Lra Lia Bool.
From Compute Require Import Base.Ops Base.ListMat Base.Rng Model.MatMul Model.Samplers Spec.Samplers.
From Compute Require Import Proofs.C03 Proofs.C03_discrete Proofs.C03_support Proofs.C03_support_fuel.
Import ListNotations.
Open Scope R_scope.

Lemma res_bind_not_fail {A B : Type} (r : res A) (k : A -> res B) :
  r <> Fail -> (forall a, k a <> Fail) -> res_bind r k <> Fail.
Proof. intros Hr Hk. destruct r; cbn [res_bind]; [apply Hk|contradiction|discriminate]. Qed.

Section Loops.
  Context {T : Type} (O : Ops T) {S : Type} (src : source S T).

  Lemma positive_unit_not_fail fuel : forall s, positive_unit O src fuel s <> Fail.
  Proof. induction fuel as [|fuel IH]; intros s; [discriminate|]. cbn [positive_unit]. split_shared; [discriminate|apply IH]. Qed.
  Lemma positive_f64_not_fail fuel : forall s, positive_f64 O src fuel s <> Fail.
  Proof. induction fuel as [|fuel IH]; intros s; [discriminate|]. cbn [positive_f64]. split_shared; [discriminate|apply IH]. Qed.
  Lemma normal_sample_not_fail fuel : forall mu sigma s, normal_sample O src fuel mu sigma s <> Fail.
  Proof.
    induction fuel as [|fuel IH]; intros mu sigma s; [discriminate|]. cbn [normal_sample].
    split_shared; try discriminate; apply IH.
  Qed.
  Lemma gamma_xv_not_fail fuel nfuel d : forall s, gamma_xv O src fuel nfuel d s <> Fail.
  Proof.
    induction fuel as [|fuel IH]; intros s; [discriminate|]. cbn [gamma_xv].
    apply res_bind_not_fail; [apply normal_sample_not_fail|]. intros [x s1]. split_shared; [discriminate|apply IH].
  Qed.
  Lemma gamma_loop_not_fail fuel ifuel d beta boost : forall s, gamma_loop O src fuel ifuel d beta boost s <> Fail.
  Proof.
    induction fuel as [|fuel IH]; intros s; [discriminate|]. cbn [gamma_loop].
    apply res_bind_not_fail; [apply gamma_xv_not_fail|]. intros [[x v] s1]. split_shared; try discriminate. apply IH.
  Qed.
  Lemma gamma_sample_not_fail fuel alpha beta s : gamma_sample O src fuel alpha beta s <> Fail.
  Proof. unfold gamma_sample. split_shared; apply gamma_loop_not_fail. Qed.
  Lemma beta_sample_not_fail fuel a b s : beta_sample O src fuel a b s <> Fail.
  Proof.
    unfold beta_sample. apply res_bind_not_fail; [apply gamma_sample_not_fail|]. intros [x s1].
    apply res_bind_not_fail; [apply gamma_sample_not_fail|]. intros [y s2]. discriminate.
  Qed.
  Lemma poisson_mult_loop_not_fail fuel : forall limit count product s, poisson_mult_loop O src fuel limit count product s <> Fail.
  Proof.
    induction fuel as [|fuel IH]; intros limit count product s; cbn [poisson_mult_loop]; split_shared; try discriminate. apply IH.
  Qed.
  Lemma ptrs_loop_not_fail fuel lam loglam b a invalpha vr : forall s, ptrs_loop O src fuel lam loglam b a invalpha vr s <> Fail.
  Proof. induction fuel as [|fuel IH]; intros s; [discriminate|]. cbn [ptrs_loop]. split_shared; try discriminate; apply IH. Qed.
  Lemma poisson_sample_not_fail fuel lambda s : poisson_sample O src fuel lambda s <> Fail.
  Proof.
    unfold poisson_sample, poisson_mult, poisson_ptrs. split_shared; [apply poisson_mult_loop_not_fail|apply ptrs_loop_not_fail].
  Qed.
End Loops.

Section Valid.
  Context {S : Type} (src : source S R).

  (** the range draw does not panic on a non-empty range ([alea::i64_in_range] asserts [max > min]; the repaired
      DiscreteUniform handles [lower == upper] before calling it — here: any source with that contract) *)
  Definition range_total : Prop := forall lo hi s, (lo <= hi)%Z -> next_range src lo hi s <> Fail.

  Lemma sample_not_fail fuel d s : valid RO d = true -> range_total -> sample RO src fuel d s <> Fail.
  Proof.
    intros Hv Hr. destruct d; cbn [sample valid] in *; try discriminate.
    - apply normal_sample_not_fail.
    - unfold exponential_sample. apply res_bind_not_fail; [apply positive_unit_not_fail|]. intros [u s1]. discriminate.
    - unfold gumbel_sample. apply res_bind_not_fail; [apply positive_unit_not_fail|]. intros [u s1]. discriminate.
    - unfold pareto_sample. apply res_bind_not_fail; [apply positive_f64_not_fail|]. intros [u s1]. discriminate.
    - apply gamma_sample_not_fail.
    - apply beta_sample_not_fail.
    - apply gamma_sample_not_fail.
    - unfold t_sample. apply res_bind_not_fail; [apply normal_sample_not_fail|]. intros [z s1].
      cbn [ltb RO zero] in Hv. apply Rltb_true in Hv.
      cbn [leb div two add one zero RO]. unfold Rleb. destruct (Rle_dec (dof / (1 + 1)) 0); [lra|].
      apply res_bind_not_fail; [apply gamma_sample_not_fail|]. intros [g s2]. discriminate.
    - apply poisson_sample_not_fail.
    - apply binomial_sample_not_fail.
    - unfold discrete_uniform_sample. apply res_bind_not_fail; [|intros [k s1]; discriminate].
      apply Hr. apply negb_true_iff in Hv. apply Z.ltb_ge in Hv. exact Hv.
  Qed.
  (** a run on a valid object: a value of the support, or out of fuel — nothing else *)
  Lemma sample_outcome fuel d s :
    valid RO d = true -> range_total ->
    (exists x s', sample RO src fuel d s = Ok (x, s')) \/ sample RO src fuel d s = Fuel.
  Proof.
    intros Hv Hr. pose proof (sample_not_fail fuel d s Hv Hr) as H.
    destruct (sample RO src fuel d s) as [[x s']| |]; [left; eauto|contradiction|right; reflexivity].
  Qed.
End Valid.

(** the hypothesis on the range draw is satisfiable *)
From Compute Require Import Proofs.C03_examples.
Example range_total_inhabited : range_total (const_source (1 / 2)).
Proof. intros lo hi s H. cbn. destruct (Z.ltb_spec hi lo); [lia|discriminate]. Qed.
