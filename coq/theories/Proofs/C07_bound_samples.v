(** Proofs for C07, part 10: the sampled rule [trapezoid] applied to the samples y_i = f(x_i) of a smooth f on a strictly
    increasing grid (uniform or not) with spacings <= H is within (x_last - x_first) H^2/12 max|f''| of the integral. *)
From Coq Require Import Reals List ZArith QArith Lra Lia.
From Coquelicot Require Import Coquelicot.
From Compute Require Import Base.Ops Base.ListMat Model.Quad Spec.Quad Spec.QuadBound Proofs.C07_base Proofs.C07_samples
  Proofs.C07_interp Proofs.C07_bound.
Import ListNotations.
Open Scope R_scope.

Lemma chord_sum_bound (f f' f'' : R -> R) M H xs : forall x0,
  increasing (x0 :: xs) -> spacing_le H (x0 :: xs) ->
  (forall t, x0 <= t <= last (x0 :: xs) x0 -> continuous f t) ->
  (forall t, x0 < t < last (x0 :: xs) x0 -> is_derive f t (f' t) /\ is_derive f' t (f'' t)) ->
  (forall t, x0 < t < last (x0 :: xs) x0 -> Rabs (f'' t) <= M) ->
  Rabs (chord_sum (x0 :: xs) (map f (x0 :: xs)) - RInt f x0 (last (x0 :: xs) x0))
  <= M * H ^ 2 / 12 * (last (x0 :: xs) x0 - x0).
Proof.
  induction xs as [|x1 xs IH]; intros x0 Hi Hs Hc Hd HM.
  - cbn [map chord_sum last]. rewrite RInt_point. unfold zero; cbn. rewrite Rminus_0_r, Rabs_R0. lra.
  - destruct Hi as [H01 Hi]. destruct Hs as [Hs01 Hs].
    change (last (x0 :: x1 :: xs) x0) with (last (x1 :: xs) x0) in *.
    rewrite (last_default_irrelevant x1 xs x0 x1) in *.
    pose proof (increasing_last_ge x1 xs Hi) as HL.
    set (xl := last (x1 :: xs) x1) in *.
    change (chord_sum (x0 :: x1 :: xs) (map f (x0 :: x1 :: xs)))
      with ((f x1 + f x0) / 2 * (x1 - x0) + chord_sum (x1 :: xs) (map f (x1 :: xs))).
    assert (E1 : ex_RInt f x0 x1) by (apply ex_RInt_cont_le; [lra|intros; apply Hc; lra]).
    assert (E2 : ex_RInt f x1 xl) by (apply ex_RInt_cont_le; [lra|intros; apply Hc; lra]).
    pose proof (RInt_Chasles f x0 x1 xl E1 E2) as HCh.
    change (RInt f x0 x1 + RInt f x1 xl = RInt f x0 xl) in HCh.
    rewrite <- HCh.
    set (A := chord_sum _ _). set (I1 := RInt f x0 x1). set (I2 := RInt f x1 xl).
    set (T := (f x1 + f x0) / 2 * (x1 - x0)).
    replace (T + A - (I1 + I2)) with ((T - I1) + (A - I2)) by ring.
    eapply Rle_trans; [apply Rabs_triang|].
    replace (M * H ^ 2 / 12 * (xl - x0)) with (M * H ^ 2 / 12 * (x1 - x0) + M * H ^ 2 / 12 * (xl - x1)) by ring.
    apply Rplus_le_compat.
    + apply (panel_bound_H f f' f''); intros; [lra|apply Hc; lra|apply Hd; lra|apply Hd; lra|apply HM; lra].
    + apply IH; try assumption; fold xl; intros; [apply Hc; lra|apply Hd; lra|apply HM; lra].
Qed.

Theorem trapezoid_error_bound (f f' f'' : R -> R) x0 xs M H :
  increasing (x0 :: xs) -> spacing_le H (x0 :: xs) ->
  (forall t, x0 <= t <= last (x0 :: xs) x0 -> continuous f t) ->
  (forall t, x0 < t < last (x0 :: xs) x0 -> is_derive f t (f' t) /\ is_derive f' t (f'' t)) ->
  (forall t, x0 < t < last (x0 :: xs) x0 -> Rabs (f'' t) <= M) ->
  exists v, trapezoid RO (map f (x0 :: xs)) (Some (x0 :: xs)) None = Some v /\
            Rabs (v - RInt f x0 (last (x0 :: xs) x0)) <= (last (x0 :: xs) x0 - x0) * H ^ 2 / 12 * M.
Proof.
  intros Hi Hs Hc Hd HM. exists (chord_sum (x0 :: xs) (map f (x0 :: xs))). split.
  - apply trapezoid_x_accept. apply map_length.
  - replace ((last (x0 :: xs) x0 - x0) * H ^ 2 / 12 * M) with (M * H ^ 2 / 12 * (last (x0 :: xs) x0 - x0)) by field.
    apply (chord_sum_bound f f' f''); assumption.
Qed.

(** the hypotheses are satisfiable: exp sampled at 0, 1/4, 1/2, 1 (non-uniform), H = 1/2, M = e *)
Example trapezoid_error_bound_exp :
  exists v, trapezoid RO (map exp [0; 1/4; 1/2; 1]) (Some [0; 1/4; 1/2; 1]) None = Some v /\
            Rabs (v - (exp 1 - 1)) <= (1 - 0) * (1/2) ^ 2 / 12 * exp 1.
Proof.
  replace (exp 1 - 1) with (RInt exp 0 1).
  - apply (trapezoid_error_bound exp exp exp 0 [1/4; 1/2; 1] (exp 1) (1/2)).
    + cbn. lra.
    + cbn. lra.
    + intros t _. apply (ex_derive_continuous exp). eexists. apply is_derive_exp.
    + intros t _. split; apply is_derive_exp.
    + cbn [last]. intros t Ht. rewrite Rabs_pos_eq by (left; apply exp_pos). left. apply exp_increasing, Ht.
  - apply is_RInt_unique. rewrite <- exp_0.
    apply (is_RInt_derive exp exp).
    + intros x _. apply is_derive_exp.
    + intros x _. apply (ex_derive_continuous exp). eexists. apply is_derive_exp.
Qed.


Lemma map2_avg_seq (g : nat -> R) n : forall s,
  fold_right Rplus 0 (map2 (fun u v => (u + v) / 2) (map g (seq (S s) n)) (map g (seq s (S n))))
  = rsum (fun i => (g (S (s + i)) + g (s + i)%nat) / 2) n.
Proof.
  induction n as [|n IH]; intros s; [reflexivity|].
  change (seq (S s) (S n)) with (S s :: seq (S (S s)) n).
  change (seq s (S (S n))) with (s :: seq (S s) (S n)).
  cbn [map map2 fold_right]. rewrite IH, rsum_shift. rewrite Nat.add_0_r. f_equal.
  apply rsum_ext. intros i. replace (s + S i)%nat with (S s + i)%nat by lia. reflexivity.
Qed.

(** constant-spacing form of the sampled rule: y_i = f(a + i d), i = 0..n, spacing d = dx (or 1 when not given) *)
Theorem trapezoid_dx_error_bound (f f' f'' : R -> R) a n (dx : option R) M :
  let d := match dx with Some d => d | None => 1 end in
  0 <= d ->
  (forall t, a <= t <= a + INR n * d -> continuous f t) ->
  (forall t, a < t < a + INR n * d -> is_derive f t (f' t) /\ is_derive f' t (f'' t)) ->
  (forall t, a < t < a + INR n * d -> Rabs (f'' t) <= M) ->
  exists v, trapezoid RO (map (fun i => f (a + INR i * d)) (seq 0 (S n))) None dx = Some v /\
            Rabs (v - RInt f a (a + INR n * d)) <= (INR n * d) * d ^ 2 / 12 * M.
Proof.
  intros d Hd Hc Hder HM.
  set (g := fun i : nat => f (a + INR i * d)).
  change (seq 0 (S n)) with (0%nat :: seq 1 n). cbn [map].
  rewrite trapezoid_dx_accept. fold d. eexists. split; [reflexivity|].
  pose proof (map2_avg_seq g n 0) as E. change (seq 0 (S n)) with (0%nat :: seq 1 n) in E. cbn [map] in E.
  fold g. rewrite E. clear E. cbn [Nat.add].
  set (x := fun i : nat => a + INR i * d).
  rewrite <- rsum_scal.
  rewrite (rsum_ext _ (fun i => (f (x (S i)) + f (x i)) / 2 * (x (S i) - x i))).
  2:{ intros i. unfold g, x. rewrite S_INR. ring. }
  pose proof (grid_bound f f' f'' M d x n) as G.
  assert (X0 : x 0%nat = a) by (unfold x; cbn [INR]; ring).
  rewrite X0 in G. change (x n) with (a + INR n * d) in G.
  replace (INR n * d * d ^ 2 / 12 * M) with (M * d ^ 2 / 12 * (a + INR n * d - a)) by field.
  apply G; try assumption.
  - intros i _. unfold x. rewrite S_INR. lra.
  - intros t Ht. apply Hder, Ht.
  - intros t Ht. apply Hder, Ht.
Qed.

Example trapezoid_dx_error_bound_exp :
  exists v, trapezoid RO (map (fun i => exp (0 + INR i * (1/4))) (seq 0 5)) None (Some (1/4)) = Some v /\
            Rabs (v - (exp 1 - 1)) <= (INR 4 * (1/4)) * (1/4) ^ 2 / 12 * exp 1.
Proof.
  replace (exp 1 - 1) with (RInt exp 0 (0 + INR 4 * (1/4))).
  - apply (trapezoid_dx_error_bound exp exp exp 0 4 (Some (1/4)) (exp 1)).
    + lra.
    + intros t _. apply (ex_derive_continuous exp). eexists. apply is_derive_exp.
    + intros t _. split; apply is_derive_exp.
    + intros t Ht. rewrite Rabs_pos_eq by (left; apply exp_pos). left. apply exp_increasing.
      replace (0 + INR 4 * (1/4)) with 1 in Ht by (cbn [INR]; field). apply Ht.
  - replace (0 + INR 4 * (1/4)) with 1 by (cbn [INR]; field).
    apply is_RInt_unique. rewrite <- exp_0.
    apply (is_RInt_derive exp exp).
    + intros x _. apply is_derive_exp.
    + intros x _. apply (ex_derive_continuous exp). eexists. apply is_derive_exp.
Qed.
