(** Proofs for C03, part 12: STRUCTURE of a ziggurat draw.  Whatever the random source delivers, a value returned by
    [Normal::sample] is mu + sigma * s * x with s = +1 or -1 (bit 7 of the 64-bit word), the layer index (low 7 bits)
    below 128 — so every read of K, W, Y is in bounds, Y[i+1] included because the wedge is entered only for i < 127 —,
    the 24-bit abscissa index j below 2^24, and x >= 0 produced in exactly one of three ways: the fast path
    (j < K[i], x = j W[i], one word consumed), the wedge (i < 127, x = j W[i], accepted under the density), or the
    tail (i = 127, x = R - ln(1 - u)/R >= R, accepted under the density).  Real carrier; the index facts hold for
    every carrier. *)
From Coq Require Import Reals List ZArith NArith QArith Qreals Lra Lia Bool Floats.
From Compute Require Import Base.Ops Base.ListMat Base.Rng Model.Samplers Spec.Samplers Proofs.C03 Proofs.C03_discrete.
From Compute Require Import Generated.ziggurat_tables Proofs.C03_zig Proofs.C03_support.
Import ListNotations.
Open Scope R_scope.

(** the three fields of the 64-bit word *)
Definition zig_i (w : N) : nat := N.to_nat (N.land w 127).
Definition zig_j (w : N) : N := N.land (N.shiftr w 8) 16777215.
Definition zig_sign (w : N) : R := if N.testbit w 7 then 1 else Ropp 1.

Lemma zig_i_lt w : (zig_i w < 128)%nat.
Proof.
  unfold zig_i. change 127%N with (N.ones 7). rewrite N.land_ones.
  assert (H : (w mod 2 ^ 7 < 2 ^ 7)%N) by (apply N.mod_lt; discriminate). change (2 ^ 7)%N with 128%N in *. lia.
Qed.
Lemma zig_j_lt w : (zig_j w < 16777216)%N.
Proof.
  unfold zig_j. change 16777215%N with (N.ones 24). rewrite N.land_ones.
  change 16777216%N with (2 ^ 24)%N. apply N.mod_lt. discriminate.
Qed.
(** what is needed of the regenerated tables: their lengths and the sign of W, by computation on the rationals (the
    script mentions no table entry; the interval-arithmetic part of [ziggurat_tables_consistent] is not needed here) *)
Lemma zig_lengths : (length zig_K = 128 /\ length zig_W = 128 /\ length zig_Y = 128)%nat.
Proof. vm_compute. repeat split. Qed.
Lemma zig_W_all_pos : forallb (fun l : Q * float => Qltb 0 (fst l)) zig_W = true.
Proof. vm_compute. reflexivity. Qed.
(** every table read of the loop is in bounds *)
Lemma zig_reads_in_bounds w :
  (zig_i w < length zig_K)%nat /\ (zig_i w < length zig_W)%nat /\ (zig_i w < length zig_Y)%nat /\
  ((zig_i w <? 127)%nat = true -> (Datatypes.S (zig_i w) < length zig_Y)%nat).
Proof.
  destruct zig_lengths as (HK & HW & HY). pose proof (zig_i_lt w) as Hi.
  rewrite HK, HW, HY. repeat split; try exact Hi. intros H. apply Nat.ltb_lt in H. lia.
Qed.

Lemma zW_pos i : (i < 128)%nat -> 0 < zW RO i.
Proof.
  intros Hi. unfold zW. cbn [ofLit RO]. destruct zig_lengths as (_ & HW & _).
  pose proof zig_W_all_pos as H. rewrite forallb_forall in H.
  specialize (H (nth i zig_W (0%Q, 0%float))). cbv beta in H.
  assert (Hw : (0 < fst (nth i zig_W (0%Q, 0%float)))%Q).
  { apply Qltb_lt. apply H. apply nth_In. rewrite HW. exact Hi. }
  apply Qlt_Rlt in Hw. rewrite RMicromega.Q2R_0 in Hw. exact Hw.
Qed.
Lemma zR_pos : 0 < zR RO.
Proof.
  unfold zR. cbn [ofLit RO]. assert (H : (0 < fst zig_R)%Q) by reflexivity.
  apply Qlt_Rlt in H. rewrite RMicromega.Q2R_0 in H. exact H.
Qed.

Section AnySource.
  Context {S : Type} (src : source S R).
  Local Notation W64 s := (fst (next_u64 src s)).
  Local Notation S64 s := (snd (next_u64 src s)).
  Local Notation U s := (fst (next_f64 src s)).
  Local Notation St s := (snd (next_f64 src s)).

  Lemma normal_sample_structure fuel mu sigma : unit_source src -> forall s v s',
    normal_sample RO src fuel mu sigma s = Ok (v, s') ->
    exists (s0 : S) (x : R),
      let w := W64 s0 in let s1 := S64 s0 in let i := zig_i w in let j := zig_j w in
      (i < 128)%nat /\ (j < 16777216)%N /\
      v = zig_sign w * x * sigma + mu /\ 0 <= x /\
      ( ((j < zK i)%N /\ x = IZR (Z.of_N j) * zW RO i /\ s' = s1)
        \/ ((zK i <= j)%N /\ (i < 127)%nat /\ x = IZR (Z.of_N j) * zW RO i /\ s' = St s1 /\
            zY RO (Datatypes.S i) + (zY RO i - zY RO (Datatypes.S i)) * U s1 < exp (- (1 / 2) * x * x))
        \/ ((zK i <= j)%N /\ i = 127%nat /\ x = zR RO - ln (1 + - U s1) / zR RO /\ zR RO <= x /\ s' = St (St s1) /\
            exp (- zR RO * (x - 1 / 2 * zR RO)) * U (St s1) < exp (- (1 / 2) * x * x)) ).
  Proof.
    intros Hu. induction fuel as [|fuel IH]; intros s v s' H; [discriminate|]. cbn [normal_sample] in H.
    destruct (next_u64 src s) as [w s1] eqn:Ew.
    change (N.to_nat (N.land w 127)) with (zig_i w) in H. change (N.land (N.shiftr w 8) 16777215) with (zig_j w) in H.
    assert (Hw : W64 s = w) by (rewrite Ew; reflexivity). assert (Hs1 : S64 s = s1) by (rewrite Ew; reflexivity).
    pose proof (zig_i_lt w) as Hi. pose proof (zig_j_lt w) as Hj.
    assert (Hsg : (if N.testbit w 7 then one RO else neg RO (one RO)) = zig_sign w) by reflexivity.
    rewrite Hsg in H. clear Hsg.
    assert (Hx0 : 0 <= IZR (Z.of_N (zig_j w)) * zW RO (zig_i w)).
    { apply Rmult_le_pos; [apply IZR_le; lia|left; apply zW_pos; exact Hi]. }
    cbn [ofZ ofQ RO] in H. replace (Q2R (1 # 2)) with (1 / 2) in H by (unfold Q2R; cbn; lra).
    destruct (N.ltb_spec (zig_j w) (zK (zig_i w))) as [Hfast|Hslow].
    - inversion H; subst v s'. exists s, (IZR (Z.of_N (zig_j w)) * zW RO (zig_i w)). cbv zeta. rewrite Hw, Hs1.
      split; [exact Hi|]. split; [exact Hj|]. split; [reflexivity|]. split; [exact Hx0|]. left. repeat split. exact Hfast.
    - destruct (Nat.ltb_spec (zig_i w) 127) as [Hwedge|Htail].
      + destruct (next_f64 src s1) as [u2 s2] eqn:E2.
        cbn [f1 RO Rf1 add sub mul neg] in H.
        match type of H with (if ?c then _ else _) = _ => destruct c eqn:Ea end; [|eapply IH; exact H].
        inversion H; subst v s'. exists s, (IZR (Z.of_N (zig_j w)) * zW RO (zig_i w)). cbv zeta. rewrite Hw, Hs1, E2.
        split; [exact Hi|]. split; [exact Hj|]. split; [reflexivity|]. split; [exact Hx0|]. right; left.
        cbn [fst snd]. apply Rltb_true in Ea. repeat split; assumption.
      + destruct (next_f64 src s1) as [u1 s2] eqn:E1. destruct (next_f64 src s2) as [u2 s3] eqn:E2.
        cbn [f1 RO Rf1 add sub mul neg div one] in H.
        match type of H with (if ?c then _ else _) = _ => destruct c eqn:Ea end; [|eapply IH; exact H].
        inversion H; subst v s'. exists s, (zR RO - ln (1 + - u1) / zR RO). cbv zeta. rewrite Hw, Hs1, E1. cbn [fst snd]. rewrite E2.
        pose proof zR_pos as HR. pose proof (Hu s1) as Hu1. rewrite E1 in Hu1. cbn [fst] in Hu1.
        assert (Hln : ln (1 + - u1) <= 0).
        { destruct (Req_dec u1 0) as [->|Hne]; [replace (1 + - 0) with 1 by ring; rewrite ln_1; lra|].
          rewrite <- ln_1. left. apply ln_increasing; lra. }
        assert (Hq : 0 <= - ln (1 + - u1) / zR RO) by (apply Rle_mult_inv_pos; lra).
        assert (HRx : zR RO <= zR RO - ln (1 + - u1) / zR RO) by (unfold Rdiv in *; lra).
        split; [exact Hi|]. split; [exact Hj|]. split; [reflexivity|]. split; [lra|]. right; right.
        cbn [fst snd]. apply Rltb_true in Ea. assert (zig_i w = 127%nat) by lia. repeat split; assumption.
  Qed.
End AnySource.
