(** * C10 (tape, part 4) — Nesterov's look-ahead gradient [tape_grad_la].

    [SGD::optimize] with Nesterov momentum evaluates the objective on NON-LEAF nodes
    [p - momentum * u] (weights 1., 0. on the leaf) and reads the adjoints of those nodes.
    [tape_grad_la_sound]: the vector returned is again the gradient of the denotation at the
    look-ahead point - the adjoint theorem [grad_adjoint] holds at every node, leaf or not. *)
From Coq Require Import List Arith ZArith Bool Lia Reals Lra.
From Coquelicot Require Import Coquelicot.
From Compute Require Import Base.Ops Base.ListMat Base.Tape Spec.Autodiff Proofs.C10_tape Proofs.C10_tape_den Proofs.C10_tape_grad.
Import ListNotations.
Local Open Scope R_scope.

(** the fold of [tape_grad_la] as a structural recursion *)
Fixpoint la_push (tp : rtape) (ps : list rvar) : list rvar * rtape :=
  match ps with
  | [] => ([], tp)
  | pv :: ps' =>
      let (vs, tp') := la_push (pushed tp (snd pv) (snd pv) 1 0) ps' in
      ((fst pv, tlen tp) :: vs, tp')
  end.

Definition la_step (st : list rvar * rtape) (pv : rvar) : list rvar * rtape :=
  let (l, t') := push (snd st) (snd pv) (snd pv) (one RO) (zero RO) in (fst st ++ [(fst pv, l)], t').
Lemma la_step_eq acc tp pv :
  la_step (acc, tp) pv = (acc ++ [(fst pv, tlen tp)], pushed tp (snd pv) (snd pv) 1 0).
Proof. reflexivity. Qed.

Lemma la_fold : forall (ps : list rvar) (acc : list rvar) (tp : rtape),
  fold_left la_step ps (acc, tp) = (acc ++ fst (la_push tp ps), snd (la_push tp ps)).
Proof.
  induction ps as [|pv ps IH]; intros acc tp; cbn [fold_left la_push].
  - cbn [fst snd]. rewrite app_nil_r. reflexivity.
  - rewrite la_step_eq, IH.
    destruct (la_push (pushed tp (snd pv) (snd pv) 1 0) ps) as [vs tp']. cbn [fst snd].
    rewrite <- app_assoc. reflexivity.
Qed.

Lemma pushed_text tp d1 d2 w1 w2 :
  tape_wf tp -> (d1 < tlen tp)%nat -> (d2 < tlen tp)%nat -> text tp (pushed tp d1 d2 w1 w2).
Proof.
  intros [L W] H1 H2. split; [split|].
  - cbn [pushed tlen nodes length]. rewrite L. reflexivity.
  - cbn [pushed nodes nodes_wf nd1 nd2 nw1 nw2]. split; [right; lia|exact W].
  - exists [mkNode w1 w2 d1 d2]. reflexivity.
Qed.

Lemma tanf_text tp tp' k j : tape_wf tp -> text tp tp' -> (j < tlen tp)%nat ->
  tanf (nodes tp') k j = tanf (nodes tp) k j.
Proof. intros [L _] [_ [new H]] Hj. rewrite H. apply tanf_app. lia. Qed.

Lemma la_push_spec : forall (ps : list rvar) (tp : rtape),
  tape_wf tp -> (forall pv, In pv ps -> (snd pv < tlen tp)%nat) ->
  text tp (snd (la_push tp ps)) /\
  tlen (snd (la_push tp ps)) = (tlen tp + length ps)%nat /\
  fst (la_push tp ps) = combine (map fst ps) (seq (tlen tp) (length ps)) /\
  forall j pv k, nth_error ps j = Some pv ->
    tanf (nodes (snd (la_push tp ps))) k (tlen tp + j) =
    if (tlen tp + j =? k)%nat then 1 else tanf (nodes tp) k (snd pv).
Proof.
  induction ps as [|pv ps IH]; intros tp W Hin; cbn [la_push].
  - cbn [fst snd length map seq combine]. split; [apply text_refl; exact W|]. split; [lia|]. split; [reflexivity|].
    intros [|j] pv k Hj; discriminate.
  - assert (Hpv : (snd pv < tlen tp)%nat) by (apply Hin; left; reflexivity).
    pose proof (pushed_text tp (snd pv) (snd pv) 1 0 W Hpv Hpv) as T1.
    destruct (IH (pushed tp (snd pv) (snd pv) 1 0) (proj1 T1)) as (T2 & L2 & F2 & H2).
    { intros pv' Hpv'. cbn [pushed tlen]. specialize (Hin pv' (or_intror Hpv')). lia. }
    destruct (la_push (pushed tp (snd pv) (snd pv) 1 0) ps) as [vs tp']. cbn [fst snd] in *.
    split; [eapply text_trans; eassumption|]. split; [rewrite L2; cbn [pushed tlen length]; lia|].
    split; [cbn [map length seq combine]; rewrite F2; reflexivity|].
    intros [|j] pv' k Hj; cbn [nth_error] in Hj.
    + injection Hj as <-. rewrite Nat.add_0_r.
      rewrite (tanf_text _ _ k (tlen tp) (proj1 T1) T2) by (cbn [pushed tlen]; lia).
      destruct W as [L W]. cbn [pushed nodes tanf nd1 nd2 nw1 nw2]. rewrite <- L, Nat.eqb_refl.
      destruct (tlen tp =? k)%nat; [reflexivity|].
      destruct (Nat.eqb_spec (snd pv) (tlen tp)); [lia|]. ring.
    + specialize (H2 j pv' k Hj). cbn [pushed tlen] in H2.
      replace (tlen tp + S j)%nat with (S (tlen tp) + j)%nat by lia. rewrite H2.
      destruct (S (tlen tp) + j =? k)%nat; [reflexivity|].
      apply (tanf_text tp (pushed tp (snd pv) (snd pv) 1 0) k (snd pv') W T1).
      apply Hin. right. eapply nth_error_In; exact Hj.
Qed.

Lemma map_fst_combine_seq (xs : list R) : forall t, map fst (combine xs (seq t (length xs))) = xs.
Proof. induction xs as [|x xs IH]; intros t; cbn [length seq combine map fst]; [reflexivity|]. rewrite IH. reflexivity. Qed.

Lemma nth_error_combine_seq_lt (xs : list R) : forall t j, (j < length xs)%nat ->
  nth_error (combine xs (seq t (length xs))) j = Some (nth j xs 0, (t + j)%nat).
Proof.
  induction xs as [|x xs IH]; intros t [|j] Hlt; cbn [length] in Hlt; try lia; cbn [length seq combine nth_error nth].
  - rewrite Nat.add_0_r. reflexivity.
  - rewrite IH by lia. do 2 f_equal. lia.
Qed.

Theorem tape_grad_la_sound (e : expr R) (data : list (list R)) (xs : list R) :
  covered e -> smooth_at e data xs [] ->
  exists g, tape_grad_la RO e data xs = Some g /\ length g = length xs /\
    forall i, (i < length xs)%nat ->
      is_derive (fun t => den e data (upd xs i t) []) (nth i xs 0) (nth i g 0).
Proof.
  intros Hc Hs. unfold tape_grad_la.
  destruct (add_vars_spec xs empty_tape eq_refl I) as (Hps & HL & HA & Hn).
  destruct (add_vars RO empty_tape xs) as [ps tp]. cbn [fst snd tlen empty_tape] in *.
  cbn [Nat.add] in Hn.
  assert (W : tape_wf tp) by (split; [exact HL|apply all_leaf_wf; exact HA]).
  assert (Lps : length ps = length xs) by (rewrite Hps; unfold var; rewrite combine_length, seq_length; lia).
  assert (Hsnd : forall j pv, nth_error ps j = Some pv -> (j < length xs)%nat /\ pv = (nth j xs 0, j)).
  { intros j pv Hj. rewrite Hps in Hj. apply nth_error_combine_seq in Hj. exact Hj. }
  pose proof (la_fold ps [] tp) as HF. unfold la_step in HF. rewrite HF. clear HF. cbn [app].
  destruct (la_push_spec ps tp W) as (T1 & L1 & F1 & H1).
  { intros pv Hin. apply In_nth_error in Hin. destruct Hin as [j Hj]. destruct (Hsnd j pv Hj) as [Hlt ->]. cbn [snd]. lia. }
  destruct (la_push tp ps) as [fps tp1]. cbn [fst snd] in *.
  assert (Hmf : map fst ps = xs).
  { rewrite Hps. apply map_fst_combine_seq. }
  rewrite Hmf, Lps, Hn in F1. rewrite Lps, Hn in L1. rewrite Hn in H1.
  assert (Lf : length fps = length xs) by (rewrite F1; unfold var; rewrite combine_length, seq_length; lia).
  (* existence *)
  destruct (eval_sound data 0 0 0 e Hc fps [] tp1 (fun _ => xs) (fun _ => []) (proj1 T1) ltac:(lia))
    as (r & tp' & Ee & T & Hr).
  { split; [exact Lf|].
    intros j pv Hj. rewrite F1 in Hj. destruct (nth_error_combine_seq _ _ _ _ Hj) as [Hlt ->].
    split; [cbn [snd]; destruct T1 as [[LL _] _]; rewrite <- LL; lia|]. split; [reflexivity|]. intros; lia. }
  { split; [reflexivity|]. intros [|j] pv Hj; discriminate. }
  { exact Hs. }
  rewrite Ee. cbn [bind]. eexists. split; [reflexivity|].
  split; [unfold wrt; rewrite map_length; exact Lf|].
  intros i Hi.
  destruct (eval_sound data (length xs + i) (length xs + length xs) (nth i xs 0) e Hc fps [] tp1
              (fun s => upd xs i s) (fun _ => []) (proj1 T1) ltac:(lia))
    as (r' & tp'' & Ee' & T' & Hr').
  { split; [rewrite upd_length; exact Lf|].
    intros j pv Hj. rewrite F1 in Hj. destruct (nth_error_combine_seq _ _ _ _ Hj) as [Hlt ->].
    split; [cbn [snd]; destruct T1 as [[LL _] _]; rewrite <- LL; lia|].
    split; [cbn [fst]; rewrite upd_same; reflexivity|].
    intros _. cbn [snd].
    assert (Hjn : nth_error ps j = Some (nth j xs 0, j)).
    { rewrite Hps. exact (nth_error_combine_seq_lt xs 0 j Hlt). }
    rewrite (H1 j _ (length xs + i)%nat Hjn). cbn [snd].
    rewrite tanf_leaf by (auto; lia).
    destruct (Nat.eqb_spec (length xs + j) (length xs + i)) as [Heq|Hne].
    - assert (j = i) by lia. subst j.
      eapply is_derive_ext; [intros t; symmetry; apply nth_upd_eq; exact Hi|]. apply @is_derive_id.
    - destruct (Nat.eqb_spec j (length xs + i)); [lia|].
      eapply is_derive_ext; [intros t; symmetry; apply nth_upd_ne; lia|]. apply @is_derive_const. }
  { split; [reflexivity|]. intros [|j] pv Hj; discriminate. }
  { rewrite upd_same. exact Hs. }
  rewrite Ee in Ee'. injection Ee' as <- <-.
  destruct Hr' as (Hlt & _ & Hd). specialize (Hd ltac:(lia)).
  unfold wrt. rewrite (nth_map_lt _ fps i (0, 0%nat)) by lia.
  rewrite F1, nth_combine_seq by exact Hi. cbn [snd zero RO].
  rewrite grad_adjoint; [exact Hd|exact (proj1 T)|].
  pose proof (text_tlen _ _ (proj1 T1) T). lia.
Qed.
