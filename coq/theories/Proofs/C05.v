(** Proofs for C05 (matrix products).  Statements are pinned in Properties/C05.v. *)
From Coq Require Import List Arith Bool Lia.
From Compute Require Import Base.Ops Base.ListMat Model.Reduce Model.MatMul Spec.MatMul.
Import ListNotations.

(** ** Generic list facts *)
Section ListAux.
  Context {A : Type}.

  Lemma map2_length {B C} (f : A -> B -> C) l1 l2 :
    length (map2 f l1 l2) = Nat.min (length l1) (length l2).
  Proof. revert l2; induction l1 as [|a l1 IH]; intros [|b l2]; simpl; auto. Qed.

  Lemma nth_map2 {B C} (f : A -> B -> C) l1 l2 i d d1 d2 :
    i < length l1 -> i < length l2 ->
    nth i (map2 f l1 l2) d = f (nth i l1 d1) (nth i l2 d2).
  Proof.
    revert l2 i; induction l1 as [|a l1 IH]; intros [|b l2] [|i]; simpl; intros H1 H2; try lia; auto.
    apply IH; lia.
  Qed.

  Lemma map2_map_r {B C} (f : A -> B -> C) (h : A -> B) l :
    map2 f l (map h l) = map (fun a => f a (h a)) l.
  Proof. induction l as [|a l IH]; simpl; congruence. Qed.

  Lemma mapi_from_length {B} (f : nat -> A -> B) l s : length (mapi_from s f l) = length l.
  Proof. revert s; induction l as [|a l IH]; intros s; simpl; auto. Qed.

  Lemma nth_mapi_from {B} (f : nat -> A -> B) l s i d d' :
    i < length l -> nth i (mapi_from s f l) d = f (s + i) (nth i l d').
  Proof.
    revert s i; induction l as [|a l IH]; intros s [|i]; simpl; intros H; try lia.
    - f_equal; lia.
    - rewrite (IH (S s) i) by lia. f_equal; lia.
  Qed.

  Lemma flat_map_single (l : list A) : flat_map (fun x => [x]) l = l.
  Proof. induction l as [|a l IH]; simpl; congruence. Qed.

  Lemma flat_map_if {X} (b : bool) (f : X -> list A) (l : list X) :
    flat_map (fun x => if b then f x else []) l = if b then flat_map f l else [].
  Proof. destruct b; auto. induction l as [|a l IH]; simpl; auto. Qed.

  Lemma flat_map_nil {X} (f : X -> list A) (l : list X) :
    (forall x, In x l -> f x = []) -> flat_map f l = [].
  Proof.
    induction l as [|a l IH]; simpl; intros H; auto.
    rewrite (H a) by auto. rewrite IH; auto.
  Qed.

  Lemma nth_nil (i : nat) (d : A) : nth i [] d = d.
  Proof. destruct i; reflexivity. Qed.
End ListAux.

(** the only [x] of [seq s len] with [P x = true] is [q] *)
Lemma flat_map_seq_one {A} (P : nat -> bool) (X : list A) s len q :
  s <= q < s + len -> (forall x, x <> q -> P x = false) -> P q = true ->
  flat_map (fun x => if P x then X else []) (seq s len) = X.
Proof.
  intros Hq Hne Hq1.
  replace len with ((q - s) + S (s + len - S q)) by lia.
  rewrite seq_app, flat_map_app. simpl.
  replace (s + (q - s)) with q by lia. rewrite Hq1.
  rewrite !flat_map_nil; [apply app_nil_r | |].
  - intros x Hx. apply in_seq in Hx. rewrite Hne by lia. reflexivity.
  - intros x Hx. apply in_seq in Hx. rewrite Hne by lia. reflexivity.
Qed.

(** the k-blocks of [matmul_blocked] concatenate to [0..l) *)
Lemma kblocks_concat l bs : 1 <= bs -> flat_map (kblock l bs) (seq 0 (l / bs + 1)) = seq 0 l.
Proof.
  intros Hbs.
  assert (Hq : bs * (l / bs) <= l) by (apply Nat.mul_div_le; lia).
  assert (Hq' : l < bs * S (l / bs)) by (apply Nat.mul_succ_div_gt; lia).
  assert (Hfull : forall m, m <= l / bs -> flat_map (kblock l bs) (seq 0 m) = seq 0 (m * bs)).
  { induction m as [|m IH]; intros Hm; [reflexivity|].
    rewrite seq_S, flat_map_app, IH by lia. simpl. rewrite app_nil_r.
    assert (S m * bs <= l / bs * bs) by (apply Nat.mul_le_mono_r; lia).
    unfold kblock. replace (Nat.min (m * bs + bs) l - m * bs) with bs by lia.
    rewrite <- seq_app. f_equal. lia. }
  rewrite Nat.add_1_r, seq_S, flat_map_app, Hfull by lia. simpl. rewrite app_nil_r.
  unfold kblock. replace (Nat.min (l / bs * bs + bs) l - l / bs * bs) with (l - l / bs * bs) by lia.
  rewrite <- seq_app. f_equal. lia.
Qed.

(** column [j < n] lies in exactly the j-block number [j / bs] *)
Definition in_jblock (bs n j jj : nat) : bool :=
  (jj * bs <=? j) && (j <? Nat.min (jj * bs + bs) n).

Lemma in_jblock_true bs n j : 1 <= bs -> j < n -> in_jblock bs n j (j / bs) = true.
Proof.
  intros Hbs Hj. unfold in_jblock.
  assert (bs * (j / bs) <= j) by (apply Nat.mul_div_le; lia).
  assert (j < bs * S (j / bs)) by (apply Nat.mul_succ_div_gt; lia).
  apply andb_true_iff; split; [apply Nat.leb_le | apply Nat.ltb_lt]; lia.
Qed.

Lemma in_jblock_false bs n j jj : 1 <= bs -> jj <> j / bs -> in_jblock bs n j jj = false.
Proof.
  intros Hbs Hne. unfold in_jblock.
  assert (bs * (j / bs) <= j) by (apply Nat.mul_div_le; lia).
  assert (j < bs * S (j / bs)) by (apply Nat.mul_succ_div_gt; lia).
  apply andb_false_iff.
  destruct (Nat.lt_ge_cases jj (j / bs)) as [Hlt|Hge].
  - right. apply Nat.ltb_ge.
    assert (S jj * bs <= j / bs * bs) by (apply Nat.mul_le_mono_r; lia). lia.
  - left. apply Nat.leb_gt.
    assert (S (j / bs) * bs <= jj * bs) by (apply Nat.mul_le_mono_r; lia). lia.
Qed.

Lemma blocked_ks l n bs j :
  1 <= bs -> j < n ->
  flat_map (fun jj => flat_map (fun kk => flat_map (fun k => if in_jblock bs n j jj then [k] else [])
                                            (kblock l bs kk)) (seq 0 (l / bs + 1)))
           (seq 0 (n / bs + 1)) = seq 0 l.
Proof.
  intros Hbs Hj.
  rewrite (flat_map_ext _ (fun jj => if in_jblock bs n j jj then seq 0 l else [])).
  - apply (flat_map_seq_one (in_jblock bs n j) (seq 0 l) 0 (n / bs + 1) (j / bs)).
    + assert (j / bs <= n / bs) by (apply Nat.div_le_mono; lia). lia.
    + intros x Hx. apply in_jblock_false; auto.
    + apply in_jblock_true; auto.
  - intros jj. destruct (in_jblock bs n j jj).
    + rewrite <- (kblocks_concat l bs Hbs). apply flat_map_ext. intros kk. apply flat_map_single.
    + apply flat_map_nil. intros kk _. apply flat_map_nil. reflexivity.
Qed.

(** ** Index arithmetic of row-major flat arrays *)
Section IndexAux.
  Context {A : Type}.

  Lemma nth_skipn_plus (l : list A) s i d : nth i (skipn s l) d = nth (s + i) l d.
  Proof.
    revert l; induction s as [|s IH]; intros [|a l]; simpl; auto.
    destruct i; reflexivity.
  Qed.

  Lemma nth_firstn_lt (l : list A) n i d : i < n -> nth i (firstn n l) d = nth i l d.
  Proof.
    revert n i; induction l as [|a l IH]; intros [|n] [|i] H; simpl; auto; try lia.
    apply IH; lia.
  Qed.

  Lemma nth_row_of (a : list A) nc i k d : k < nc -> nth k (row_of a nc i) d = nth (i * nc + k) a d.
  Proof. intros H. unfold row_of. rewrite nth_firstn_lt by auto. apply nth_skipn_plus. Qed.

  Lemma length_row_of (a : list A) nr nc i :
    i < nr -> nr * nc = length a -> length (row_of a nc i) = nc.
  Proof.
    intros Hi Hlen. unfold row_of. rewrite firstn_length, skipn_length.
    assert (S i * nc <= nr * nc) by (apply Nat.mul_le_mono_r; lia). lia.
  Qed.

  Lemma nth_map_seq {B} (f : nat -> B) s n i d : i < n -> nth i (map f (seq s n)) d = f (s + i).
  Proof.
    intros Hi. rewrite (nth_indep _ d (f 0)) by (rewrite map_length, seq_length; auto).
    rewrite map_nth, seq_nth by auto. reflexivity.
  Qed.

  Lemma unflatten_length (a : list A) nr nc : length (unflatten a nr nc) = nr.
  Proof. unfold unflatten. rewrite map_length, seq_length. reflexivity. Qed.

  Lemma nth_unflatten (a : list A) nr nc i : i < nr -> nth i (unflatten a nr nc) [] = row_of a nc i.
  Proof. intros Hi. unfold unflatten. rewrite nth_map_seq by auto. reflexivity. Qed.

  Lemma ent_unflatten d (a : list A) nr nc i k :
    i < nr -> k < nc -> ent d (unflatten a nr nc) i k = nth (i * nc + k) a d.
  Proof. intros Hi Hk. unfold ent. rewrite nth_unflatten by auto. apply nth_row_of; auto. Qed.

  Lemma row_len_unflatten (a : list A) nr nc i :
    i < nr -> nr * nc = length a -> length (nth i (unflatten a nr nc) []) = nc.
  Proof. intros Hi Hlen. rewrite nth_unflatten by auto. apply (length_row_of a nr); auto. Qed.

  Lemma transpose_rows_length d (M : list (list A)) nc : length (transpose_rows d M nc) = nc.
  Proof. unfold transpose_rows. rewrite map_length, seq_length. reflexivity. Qed.

  Lemma nth_transpose_rows d (M : list (list A)) nc i :
    i < nc -> nth i (transpose_rows d M nc) [] = col_of d M i.
  Proof. intros Hi. unfold transpose_rows. rewrite nth_map_seq by auto. reflexivity. Qed.

  Lemma row_len_transpose d (M : list (list A)) nc i :
    i < nc -> length (nth i (transpose_rows d M nc) []) = length M.
  Proof. intros Hi. rewrite nth_transpose_rows by auto. unfold col_of. apply map_length. Qed.

  Lemma ent_transpose d (M : list (list A)) nc i k :
    i < nc -> ent d (transpose_rows d M nc) i k = ent d M k i.
  Proof.
    intros Hi. unfold ent. rewrite nth_transpose_rows by auto. unfold col_of.
    transitivity (nth k (map (fun r => nth i r d) M) ((fun r => nth i r d) [])).
    - f_equal. symmetry. apply nth_nil.
    - apply (map_nth (fun r => nth i r d)).
  Qed.

  Lemma concat_rows_length (M : list (list A)) n :
    (forall i, i < length M -> length (nth i M []) = n) -> length (concat M) = length M * n.
  Proof.
    induction M as [|r M IH]; intros H; simpl; auto.
    assert (Hr : length r = n) by (apply (H 0); simpl; lia).
    rewrite app_length, IH, Hr; [reflexivity|].
    intros i Hi. apply (H (S i)). simpl; lia.
  Qed.

  Lemma nth_concat_rows (M : list (list A)) n i j d :
    (forall i, i < length M -> length (nth i M []) = n) -> i < length M -> j < n ->
    nth (i * n + j) (concat M) d = nth j (nth i M []) d.
  Proof.
    revert i; induction M as [|r M IH]; intros i H Hi Hj; simpl in Hi; [lia|].
    assert (Hr : length r = n) by (apply (H 0); simpl; lia).
    assert (HM : forall i, i < length M -> length (nth i M []) = n)
      by (intros i' Hi'; apply (H (S i')); simpl; lia).
    destruct i as [|i]; simpl.
    - apply app_nth1. lia.
    - rewrite app_nth2 by lia. rewrite <- (IH i) by (auto; lia). f_equal. lia.
  Qed.

  Lemma fold_left_ext_in {B} (f g : A -> B -> A) l a :
    (forall a b, In b l -> f a b = g a b) -> fold_left f l a = fold_left g l a.
  Proof.
    revert a; induction l as [|b l IH]; intros a H; simpl; auto.
    rewrite (H a b) by (left; auto). apply IH. intros a' b' Hb'. apply H. right; auto.
  Qed.
End IndexAux.

(** ** [dims] through [is_matrix] *)
Lemma is_matrix_mod len nr :
  is_matrix len nr = if (0 <? nr) && (len mod nr =? 0) then Some (len / nr) else None.
Proof.
  unfold is_matrix. destruct nr as [|r]; [reflexivity|].
  change (0 <? S r) with true. cbn [andb].
  pose proof (Nat.div_mod len (S r)) as Hdm.
  destruct (Nat.eqb_spec (S r * (len / S r)) len), (Nat.eqb_spec (len mod S r) 0); auto; exfalso; lia.
Qed.

Lemma is_matrix_some len nr nc : is_matrix len nr = Some nc -> 0 < nr /\ nr * nc = len.
Proof.
  unfold is_matrix. destruct nr as [|r]; [discriminate|].
  destruct (Nat.eqb_spec (S r * (len / S r)) len) as [E|E]; [|discriminate].
  intros [= <-]. split; [lia | exact E].
Qed.

Lemma is_matrix_mul nr nc : 0 < nr -> is_matrix (nr * nc) nr = Some nc.
Proof.
  intros H. unfold is_matrix. destruct nr as [|r]; [lia|].
  replace (S r * nc / S r) with nc by (rewrite Nat.mul_comm, Nat.div_mul; lia).
  rewrite Nat.eqb_refl. reflexivity.
Qed.

Definition dims' (la lb ra rb : nat) (ta tb : bool) : option (nat * nat * nat * nat * nat) :=
  let* ca := is_matrix la ra in
  let* cb := is_matrix lb rb in
  let* _ := guard ((if ta then ra else ca) =? (if tb then cb else rb)) in
  Some (ca, cb, if ta then ca else ra, if ta then ra else ca, if tb then rb else cb).

Lemma dims_is_matrix la lb ra rb ta tb : dims la lb ra rb ta tb = dims' la lb ra rb ta tb.
Proof.
  unfold dims, dims'. rewrite !is_matrix_mod.
  destruct (0 <? ra), (0 <? rb), (la mod ra =? 0), (lb mod rb =? 0); cbn [andb bind]; try reflexivity.
  destruct ta, tb; cbn [bind guard];
    match goal with |- context [?x =? ?y] => destruct (x =? y) end; reflexivity.
Qed.

Section Proofs.
  Context {T : Type} (O : Ops T).
  Local Notation z := (zero O).

  (** one accumulation step of entry [j] of a row: [s + a_k * b_kj] *)
  Definition step (arow : list T) (B : list (list T)) (j : nat) (s : T) (k : nat) : T :=
    add O s (mul O (nth k arow z) (nth j (nth k B []) z)).

  (** a loop whose body adds to entry [j] the terms [K x] adds, in total, the terms
      [flat_map K xs] (in order) *)
  Lemma fold_rows_nth {X} (F : X -> list T -> list T) (K : X -> list nat) arow B j n xs :
    (forall x c, In x xs -> length c = n ->
       length (F x c) = n /\
       (j < n -> nth j (F x c) z = fold_left (step arow B j) (K x) (nth j c z))) ->
    forall c, length c = n ->
      length (fold_left (fun c x => F x c) xs c) = n /\
      (j < n -> nth j (fold_left (fun c x => F x c) xs c) z =
                fold_left (step arow B j) (flat_map K xs) (nth j c z)).
  Proof.
    induction xs as [|x xs IH]; intros HF c Hc; simpl.
    - auto.
    - destruct (HF x c (or_introl eq_refl) Hc) as [HL HN].
      destruct (IH (fun x' c' Hin => HF x' c' (or_intror Hin)) (F x c) HL) as [HL' HN'].
      split; auto. intros Hj. rewrite HN', HN by auto. rewrite fold_left_app. reflexivity.
  Qed.

  Lemma axpy_row_nth arow B k j n c :
    length (nth k B []) = n -> length c = n ->
    length (axpy_row O (nth k arow z) (nth k B []) c) = n /\
    (j < n -> nth j (axpy_row O (nth k arow z) (nth k B []) c) z =
              fold_left (step arow B j) [k] (nth j c z)).
  Proof.
    intros HB Hc; unfold axpy_row; split.
    - rewrite map2_length; lia.
    - intros Hj. rewrite (nth_map2 _ _ _ _ _ z z) by lia. reflexivity.
  Qed.

  Lemma row_times_nth arow B ks j n c :
    (forall k, In k ks -> length (nth k B []) = n) -> length c = n ->
    length (row_times O arow B ks c) = n /\
    (j < n -> nth j (row_times O arow B ks c) z = fold_left (step arow B j) ks (nth j c z)).
  Proof.
    intros HB Hc. unfold row_times.
    destruct (fold_rows_nth (fun k c => axpy_row O (nth k arow z) (nth k B []) c)
                            (fun k => [k]) arow B j n ks) with (c := c) as [HL HN]; auto.
    - intros k c' Hin Hc'. apply axpy_row_nth; auto.
    - split; auto. intros Hj. rewrite HN by auto. rewrite flat_map_single. reflexivity.
  Qed.

  Lemma nth_map_row {X} (f : list X -> list T) (A : list (list X)) i :
    i < length A -> nth i (map f A) [] = f (nth i A []).
  Proof.
    intros Hi. rewrite (nth_indep _ [] (f [])) by (rewrite map_length; auto). apply map_nth.
  Qed.

  Lemma seq_rows_len (B : list (list T)) l n :
    (forall k, k < l -> length (nth k B []) = n) ->
    forall k, In k (seq 0 l) -> length (nth k B []) = n.
  Proof. intros H k Hk. apply in_seq in Hk. apply H; lia. Qed.

  (** the i-k-j nest computes, in every entry, the left-to-right sum over k *)
  Lemma mm_rows_entry A B l n i j :
    i < length A -> j < n -> (forall k, k < l -> length (nth k B []) = n) ->
    ent z (mm_rows O A B l n) i j =
    sumk O (fun k => mul O (ent z A i k) (ent z B k j)) l.
  Proof.
    intros Hi Hj HB. unfold ent, mm_rows. rewrite nth_map_row by auto.
    destruct (row_times_nth (nth i A []) B (seq 0 l) j n (repeat z n)) as [_ HN].
    - apply seq_rows_len; auto.
    - apply repeat_length.
    - rewrite HN by auto. rewrite nth_repeat. reflexivity.
  Qed.

  Lemma mm_rows_shape A B l n :
    (forall k, k < l -> length (nth k B []) = n) ->
    length (mm_rows O A B l n) = length A /\
    forall i, i < length A -> length (nth i (mm_rows O A B l n) []) = n.
  Proof.
    intros HB. unfold mm_rows. split; [apply map_length|].
    intros i Hi. rewrite nth_map_row by auto.
    apply (row_times_nth (nth i A []) B (seq 0 l) 0 n (repeat z n)).
    - apply seq_rows_len; auto.
    - apply repeat_length.
  Qed.

  (** *** the blocked nest, one row at a time *)
  Lemma axpy_range_nth arow B k j lo hi c :
    length (axpy_range O (nth k arow z) (nth k B []) c lo hi) = length c /\
    (j < length c ->
     nth j (axpy_range O (nth k arow z) (nth k B []) c lo hi) z =
     fold_left (step arow B j) (if (lo <=? j) && (j <? hi) then [k] else []) (nth j c z)).
  Proof.
    unfold axpy_range, mapi. split; [apply mapi_from_length|].
    intros Hj. rewrite (nth_mapi_from _ _ _ _ _ z) by auto. simpl.
    destruct ((lo <=? j) && (j <? hi)); reflexivity.
  Qed.

  Definition blocked_row (arow : list T) (B : list (list T)) (l n bs : nat) (c : list T) : list T :=
    fold_left (fun c jj =>
      fold_left (fun c kk =>
        fold_left (fun c k => axpy_range O (nth k arow z) (nth k B []) c
                                (jj * bs) (Nat.min (jj * bs + bs) n))
                  (kblock l bs kk) c)
        (seq 0 (l / bs + 1)) c)
      (seq 0 (n / bs + 1)) c.

  Lemma blocked_row_nth arow B l n bs j c :
    1 <= bs -> length c = n ->
    length (blocked_row arow B l n bs c) = n /\
    (j < n -> nth j (blocked_row arow B l n bs c) z = fold_left (step arow B j) (seq 0 l) (nth j c z)).
  Proof.
    intros Hbs Hc. unfold blocked_row.
    destruct (fold_rows_nth
      (fun jj c => fold_left (fun c kk =>
          fold_left (fun c k => axpy_range O (nth k arow z) (nth k B []) c
                                  (jj * bs) (Nat.min (jj * bs + bs) n))
                    (kblock l bs kk) c) (seq 0 (l / bs + 1)) c)
      (fun jj => flat_map (fun kk => flat_map (fun k => if in_jblock bs n j jj then [k] else [])
                                              (kblock l bs kk)) (seq 0 (l / bs + 1)))
      arow B j n (seq 0 (n / bs + 1))) with (c := c) as [HL HN]; auto.
    - intros jj c1 _ Hc1.
      apply (fold_rows_nth
        (fun kk c => fold_left (fun c k => axpy_range O (nth k arow z) (nth k B []) c
                                  (jj * bs) (Nat.min (jj * bs + bs) n)) (kblock l bs kk) c)
        (fun kk => flat_map (fun k => if in_jblock bs n j jj then [k] else []) (kblock l bs kk))); auto.
      intros kk c2 _ Hc2.
      apply (fold_rows_nth
        (fun k c => axpy_range O (nth k arow z) (nth k B []) c (jj * bs) (Nat.min (jj * bs + bs) n))
        (fun k => if in_jblock bs n j jj then [k] else [])); auto.
      intros k c3 _ Hc3.
      destruct (axpy_range_nth arow B k j (jj * bs) (Nat.min (jj * bs + bs) n) c3) as [HL3 HN3].
      split; [congruence|]. intros Hj. apply HN3. lia.
    - split; auto. intros Hj. rewrite HN by auto. rewrite blocked_ks by auto. reflexivity.
  Qed.

  (** rows are independent: a loop of row-wise updates is a map of per-row loops *)
  Lemma fold_map_rows {X} (F : X -> list (list T) -> list (list T))
        (g : X -> list T -> list T -> list T) (A : list (list T)) :
    (forall x (h : list T -> list T), F x (map h A) = map (fun arow => g x arow (h arow)) A) ->
    forall xs (h : list T -> list T),
      fold_left (fun C x => F x C) xs (map h A) =
      map (fun arow => fold_left (fun c x => g x arow c) xs (h arow)) A.
  Proof.
    intros HF; induction xs as [|x xs IH]; intros h; simpl; auto.
    rewrite HF. rewrite (IH (fun arow => g x arow (h arow))). reflexivity.
  Qed.

  Lemma mm_blocked_rows_map A B l n bs :
    mm_blocked_rows O A B l n bs = map (fun arow => blocked_row arow B l n bs (repeat z n)) A.
  Proof.
    unfold mm_blocked_rows, blocked_row.
    apply (fold_map_rows
      (fun jj C => fold_left (fun C kk =>
          map2 (fun arow crow =>
                  fold_left (fun c k => axpy_range O (nth k arow z) (nth k B []) c
                                          (jj * bs) (Nat.min (jj * bs + bs) n))
                            (kblock l bs kk) crow) A C) (seq 0 (l / bs + 1)) C)
      (fun jj arow c => fold_left (fun c kk =>
          fold_left (fun c k => axpy_range O (nth k arow z) (nth k B []) c
                                  (jj * bs) (Nat.min (jj * bs + bs) n))
                    (kblock l bs kk) c) (seq 0 (l / bs + 1)) c)
      A) with (h := fun _ : list T => repeat z n).
    intros jj h.
    apply (fold_map_rows
      (fun kk C => map2 (fun arow crow =>
                  fold_left (fun c k => axpy_range O (nth k arow z) (nth k B []) c
                                          (jj * bs) (Nat.min (jj * bs + bs) n))
                            (kblock l bs kk) crow) A C)
      (fun kk arow c => fold_left (fun c k => axpy_range O (nth k arow z) (nth k B []) c
                                  (jj * bs) (Nat.min (jj * bs + bs) n))
                    (kblock l bs kk) c) A).
    intros kk h'. apply map2_map_r.
  Qed.

  (** blocked = unblocked, bit for bit, for every block size >= 1 (no algebraic law used) *)
  Lemma mm_blocked_rows_eq A B l n bs :
    1 <= bs -> (forall k, k < l -> length (nth k B []) = n) ->
    mm_blocked_rows O A B l n bs = mm_rows O A B l n.
  Proof.
    intros Hbs HB. rewrite mm_blocked_rows_map. unfold mm_rows.
    apply map_ext. intros arow.
    assert (Hr : length (repeat z n) = n) by apply repeat_length.
    assert (HB' := seq_rows_len B l n HB).
    apply (nth_ext _ _ z z).
    - destruct (blocked_row_nth arow B l n bs 0 (repeat z n) Hbs Hr) as [H1 _].
      destruct (row_times_nth arow B (seq 0 l) 0 n (repeat z n) HB' Hr) as [H2 _]. congruence.
    - intros j Hj.
      destruct (blocked_row_nth arow B l n bs j (repeat z n) Hbs Hr) as [H1 N1].
      destruct (row_times_nth arow B (seq 0 l) j n (repeat z n) HB' Hr) as [H2 N2].
      rewrite N1, N2 by lia. reflexivity.
  Qed.

  (** *** flat arrays: operands, conformability, entries *)
  Lemma operands_spec a b ra rb ta tb :
    match dims (length a) (length b) ra rb ta tb with
    | None => operands O a b ra rb ta tb = None
    | Some (ca, cb, m, l, n) =>
        exists A B, operands O a b ra rb ta tb = Some (A, B, l, n) /\
          length A = m /\
          (forall k, k < l -> length (nth k B []) = n) /\
          (forall i k, i < m -> k < l -> ent z A i k = opA O a ca ta i k) /\
          (forall k j, k < l -> j < n -> ent z B k j = opB O b cb tb k j)
    end.
  Proof.
    rewrite dims_is_matrix. unfold dims', operands. cbv zeta.
    destruct (is_matrix (length a) ra) as [ca|] eqn:Ha; cbn [bind]; [|reflexivity].
    destruct (is_matrix (length b) rb) as [cb|] eqn:Hb; cbn [bind]; [|reflexivity].
    destruct (Nat.eqb_spec (if ta then ra else ca) (if tb then cb else rb)) as [Hg|Hg];
      cbn [guard bind]; [|reflexivity].
    apply is_matrix_some in Ha, Hb. destruct Ha as [Hra Ha], Hb as [Hrb Hb].
    eexists; eexists; split; [reflexivity|].
    split; [|split; [|split]].
    - destruct ta; [apply transpose_rows_length | apply unflatten_length].
    - intros k Hk. destruct tb.
      + rewrite row_len_transpose by lia. apply unflatten_length.
      + apply row_len_unflatten; auto. lia.
    - intros i k Hi Hk. unfold opA. destruct ta.
      + rewrite ent_transpose by auto. apply ent_unflatten; auto.
      + apply ent_unflatten; auto.
    - intros k j Hk Hj. unfold opB. destruct tb.
      + rewrite ent_transpose by lia. apply ent_unflatten; auto. lia.
      + apply ent_unflatten; auto. lia.
  Qed.

  Lemma sumk_ext f g l : (forall k, k < l -> f k = g k) -> sumk O f l = sumk O g l.
  Proof.
    intros H. unfold sumk. apply fold_left_ext_in. intros s k Hk.
    apply in_seq in Hk. rewrite H by lia. reflexivity.
  Qed.

  Lemma matmul_nt_spec a b ra rb ta tb :
    match dims (length a) (length b) ra rb ta tb with
    | None => matmul_nt O a b ra rb ta tb = None
    | Some (ca, cb, m, l, n) =>
        exists c, matmul_nt O a b ra rb ta tb = Some c /\
                  is_product O false a b ca cb ta tb m l n c
    end.
  Proof.
    pose proof (operands_spec a b ra rb ta tb) as H. unfold matmul_nt.
    destruct (dims (length a) (length b) ra rb ta tb) as [[[[[ca cb] m] l] n]|].
    - destruct H as (A & B & Hop & HA & HB & HeA & HeB). rewrite Hop. cbn [bind].
      eexists; split; [reflexivity|].
      destruct (mm_rows_shape A B l n HB) as [HL HR].
      unfold is_product, flatten. split.
      + rewrite (concat_rows_length _ n) by (rewrite HL; exact HR). congruence.
      + intros i j Hi Hj.
        rewrite (nth_concat_rows _ n) by (try (rewrite HL; exact HR); lia).
        change (ent z (mm_rows O A B l n) i j =
                sumk O (fun k => mul O (opA O a ca ta i k) (opB O b cb tb k j)) l).
        rewrite mm_rows_entry by (auto; lia).
        apply sumk_ext. intros k Hk. rewrite HeA, HeB by auto. reflexivity.
    - rewrite H. reflexivity.
  Qed.

  Lemma matmul_blocked_eq_nt a b ra rb ta tb bs :
    1 <= bs -> matmul_blocked O a b ra rb ta tb bs = matmul_nt O a b ra rb ta tb.
  Proof.
    intros Hbs. pose proof (operands_spec a b ra rb ta tb) as H.
    unfold matmul_blocked, matmul_nt.
    destruct (dims (length a) (length b) ra rb ta tb) as [[[[[ca cb] m] l] n]|].
    - destruct H as (A & B & Hop & HA & HB & HeA & HeB). rewrite Hop. cbn [bind].
      destruct bs as [|bs']; [lia|]. cbn [Nat.eqb negb guard bind].
      rewrite mm_blocked_rows_eq by (auto; lia). reflexivity.
    - rewrite H. reflexivity.
  Qed.

  Lemma transpose_spec c nr nc :
    0 < nr -> length c = nr * nc ->
    exists t, transpose O c nr = Some t /\ length t = nc * nr /\
      forall i j, i < nc -> j < nr -> nth (i * nr + j) t z = nth (j * nc + i) c z.
  Proof.
    intros Hnr Hlen. unfold transpose. rewrite Hlen, is_matrix_mul by auto. cbn [bind].
    eexists; split; [reflexivity|].
    assert (HR : forall i, i < length (transpose_rows z (unflatten c nr nc) nc) ->
                 length (nth i (transpose_rows z (unflatten c nr nc) nc) []) = nr).
    { intros i Hi. rewrite transpose_rows_length in Hi.
      rewrite row_len_transpose by auto. apply unflatten_length. }
    unfold flatten. split.
    - rewrite (concat_rows_length _ nr) by exact HR. rewrite transpose_rows_length. reflexivity.
    - intros i j Hi Hj.
      rewrite (nth_concat_rows _ nr) by (try exact HR; try rewrite transpose_rows_length; lia).
      change (ent z (transpose_rows z (unflatten c nr nc) nc) i j = nth (j * nc + i) c z).
      rewrite ent_transpose by auto. apply ent_unflatten; auto.
  Qed.

  Lemma matmul_blocked_zero_block a b ra rb ta tb :
    matmul_blocked O a b ra rb ta tb 0 = None.
  Proof.
    unfold matmul_blocked.
    destruct (operands O a b ra rb ta tb) as [[[[A B] l] n]|]; reflexivity.
  Qed.

  (** acceptance and rejection, and every entry, against the flat-array definition *)
  Lemma matmul_spec a b ra rb ta tb :
    match dims (length a) (length b) ra rb ta tb with
    | None => matmul O a b ra rb ta tb = None
    | Some (ca, cb, m, l, n) =>
        exists c, matmul O a b ra rb ta tb = Some c /\
                  is_product O (ta && tb) a b ca cb ta tb m l n c
    end.
  Proof.
    destruct (ta && tb) eqn:Htt.
    - apply andb_true_iff in Htt. destruct Htt; subst ta tb.
      pose proof (matmul_nt_spec b a rb ra false false) as H.
      unfold matmul. cbn [andb].
      rewrite dims_is_matrix in *. unfold dims' in *.
      destruct (is_matrix (length a) ra) as [ca|] eqn:Ha; cbn [bind] in *;
        destruct (is_matrix (length b) rb) as [cb|] eqn:Hb; cbn [bind] in *; try reflexivity.
      rewrite (Nat.eqb_sym cb ra) in H.
      destruct (Nat.eqb_spec ra cb) as [Hg|Hg]; cbn [guard bind] in *.
      + destruct H as (c & Hc & Hlen & Hent). rewrite Hc. cbn [bind].
        apply is_matrix_some in Hb. destruct Hb as [Hrb Hb].
        destruct (transpose_spec c rb ca Hrb Hlen) as (t & Ht & Htl & Hte).
        exists t. split; [exact Ht|]. split; [exact Htl|].
        intros i j Hi Hj. rewrite Hte, Hent by auto. subst ra. reflexivity.
      + rewrite H. reflexivity.
    - unfold matmul. rewrite Htt. apply matmul_nt_spec.
  Qed.

  Lemma matmul_blocked_spec a b ra rb ta tb bs :
    1 <= bs ->
    match dims (length a) (length b) ra rb ta tb with
    | None => matmul_blocked O a b ra rb ta tb bs = None
    | Some (ca, cb, m, l, n) =>
        exists c, matmul_blocked O a b ra rb ta tb bs = Some c /\
                  is_product O false a b ca cb ta tb m l n c
    end.
  Proof. intros Hbs. rewrite matmul_blocked_eq_nt by auto. apply matmul_nt_spec. Qed.

  (** the blocked product equals the plain one for every block size; when both operands are
      transposed the plain routine goes through (B.A)^T, so each product's factors are commuted *)
  Lemma matmul_blocked_eq a b ra rb ta tb bs :
    1 <= bs -> (ta && tb = true -> forall x y, mul O x y = mul O y x) ->
    matmul_blocked O a b ra rb ta tb bs = matmul O a b ra rb ta tb.
  Proof.
    intros Hbs Hcomm. destruct (ta && tb) eqn:Htt.
    - pose proof (matmul_spec a b ra rb ta tb) as H1.
      pose proof (matmul_blocked_spec a b ra rb ta tb bs Hbs) as H2.
      destruct (dims (length a) (length b) ra rb ta tb) as [[[[[ca cb] m] l] n]|]; [|congruence].
      destruct H1 as (c1 & Hc1 & Hl1 & He1), H2 as (c2 & Hc2 & Hl2 & He2).
      rewrite Hc1, Hc2. f_equal. apply (nth_ext _ _ z z); [congruence|].
      intros p Hp. rewrite Hl2 in Hp.
      assert (Hn : n <> 0) by (intros ->; lia).
      assert (Hi : p / n < m) by (apply Nat.div_lt_upper_bound; lia).
      assert (Hj : p mod n < n) by (apply Nat.mod_upper_bound; auto).
      replace p with (p / n * n + p mod n) by (pose proof (Nat.div_mod p n Hn); lia).
      rewrite He1, He2 by auto. rewrite Htt.
      apply sumk_ext. intros k Hk. apply Hcomm. reflexivity.
    - rewrite matmul_blocked_eq_nt by auto. unfold matmul. rewrite Htt. reflexivity.
  Qed.
End Proofs.
