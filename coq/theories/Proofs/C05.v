(** Proofs for C05 (matrix products).  Statements are pinned in Properties/C05.v. *)
From Coq Require Import List Arith Bool Lia.
From Compute Require Import Base.Ops Base.ListMat Model.Reduce Model.MatMul Spec.MatMul.
Import ListNotations.

Section Proofs.
  Context {T : Type} (O : Ops T).
  Local Notation z := (zero O).

  (** the i-k-j nest computes, in every entry, the left-to-right sum over k *)
  Lemma mm_rows_entry A B l n i j :
    i < length A -> j < n -> (forall k, k < l -> length (nth k B []) = n) ->
    ent z (mm_rows O A B l n) i j =
    sumk O (fun k => mul O (ent z A i k) (ent z B k j)) l.
  Admitted.

  Lemma mm_rows_shape A B l n :
    (forall k, k < l -> length (nth k B []) = n) ->
    length (mm_rows O A B l n) = length A /\
    forall i, i < length A -> length (nth i (mm_rows O A B l n) []) = n.
  Admitted.

  (** blocked = unblocked, bit for bit, for every block size >= 1 (no algebraic law used) *)
  Lemma mm_blocked_rows_eq A B l n bs :
    1 <= bs -> (forall k, k < l -> length (nth k B []) = n) ->
    mm_blocked_rows O A B l n bs = mm_rows O A B l n.
  Admitted.

  Lemma matmul_blocked_eq_nt a b ra rb ta tb bs :
    1 <= bs -> matmul_blocked O a b ra rb ta tb bs = matmul_nt O a b ra rb ta tb.
  Admitted.

  (** the blocked product equals the plain one for every block size; when both operands are
      transposed the plain routine goes through (B.A)^T, so each product's factors are commuted *)
  Lemma matmul_blocked_eq a b ra rb ta tb bs :
    1 <= bs -> (ta && tb = true -> forall x y, mul O x y = mul O y x) ->
    matmul_blocked O a b ra rb ta tb bs = matmul O a b ra rb ta tb.
  Admitted.

  Lemma matmul_blocked_zero_block a b ra rb ta tb :
    matmul_blocked O a b ra rb ta tb 0 = None.
  Admitted.

  (** acceptance and rejection, and every entry, against the flat-array definition *)
  Lemma matmul_spec a b ra rb ta tb :
    match dims (length a) (length b) ra rb ta tb with
    | None => matmul O a b ra rb ta tb = None
    | Some (ca, cb, m, l, n) =>
        exists c, matmul O a b ra rb ta tb = Some c /\
                  is_product O (ta && tb) a b ca cb ta tb m l n c
    end.
  Admitted.

  Lemma matmul_blocked_spec a b ra rb ta tb bs :
    1 <= bs ->
    match dims (length a) (length b) ra rb ta tb with
    | None => matmul_blocked O a b ra rb ta tb bs = None
    | Some (ca, cb, m, l, n) =>
        exists c, matmul_blocked O a b ra rb ta tb bs = Some c /\
                  is_product O false a b ca cb ta tb m l n c
    end.
  Admitted.
End Proofs.
