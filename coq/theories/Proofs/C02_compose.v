(** C02 composed with C01 / C11: the multivariate normal END TO END.  [MVN::new] computes the Cholesky factor, the
    inverse and the determinant of the covariance with the executable models of C01 / C11 (Model/MVNNew.v), and for
    EVERY symmetric positive definite covariance the constructor returns, the cached inverse is THE (two-sided)
    inverse, the cached determinant is THE determinant ([Spec.Determinant.determinant]) and is positive, [pdf] is the
    textbook density (2 pi)^(-n/2) det(Sigma)^(-1/2) exp(-(x-mu)^T Sigma^-1 (x-mu)/2) and [ln_pdf] its logarithm.
    No hypothesis on an inner routine is left: they are discharged by Proofs/Compose_spd.v from the theorems of
    C01 ([matrix_inv_nonsingular]) and C11 ([spd_cholesky], [matrix_det_is_determinant], [lu_determinant_zero_iff]). *)
From Coq Require Import Reals List ZArith Lra Lia Bool Arith.
From Compute Require Import Base.Ops Base.ListMat Model.Reduce Model.MatMul Model.Subst Model.Cholesky Model.LU
  Model.Solve Model.SolveInst Model.MVN Model.MVNNew Spec.Factor Spec.Solve Spec.Determinant Spec.MVNDensity
  Proofs.C05 Proofs.LinAlgBase Proofs.C11_Pred Proofs.C11_Chol Proofs.C11_SPD Proofs.C02_mvn Proofs.Compose_spd.
Import ListNotations.
Local Open Scope R_scope.

(** ** the two ways of writing the quadratic form and the density agree *)
Lemma Rsum_rsum f n : Rsum f n = rsum f n.
Proof.
  unfold Rsum. change (fold_right Rplus 0 (map f (seq 0 n))) with (lsum (map f (seq 0 n))).
  rewrite lsum_rsum, map_length, seq_length. apply rsum_ext. intros k Hk.
  rewrite nth_map_seq by exact Hk. reflexivity.
Qed.

Lemma quad_spec_mvn_quad n P mu x : quad_spec n P mu x = mvn_quad n P mu x.
Proof.
  unfold quad_spec, mvn_quad. rewrite Rsum_rsum. apply rsum_ext. intros i Hi. f_equal.
  rewrite Rsum_rsum. reflexivity.
Qed.

Lemma density_forms n q d :
  0 < d -> exp (- q / 2) / R_sqrt.sqrt ((2 * PI) ^ n * d) = Rpower (2 * PI) (- INR n / 2) * Rpower d (- 1 / 2) * exp (- q / 2).
Proof.
  intros Hd.
  assert (H2pi : 0 < 2 * PI) by (pose proof PI_RGT_0; lra).
  assert (Hp : 0 < (2 * PI) ^ n) by (apply pow_lt; exact H2pi).
  assert (HK : 0 < (2 * PI) ^ n * d) by (apply Rmult_lt_0_compat; assumption).
  assert (Hs : R_sqrt.sqrt ((2 * PI) ^ n * d) = exp ((INR n * ln (2 * PI) + ln d) / 2)).
  { rewrite <- (exp_ln (R_sqrt.sqrt _)) by (apply sqrt_lt_R0; exact HK).
    rewrite ln_sqrt_half by exact HK. rewrite ln_mult by assumption. rewrite ln_pow by exact H2pi. reflexivity. }
  rewrite Hs. unfold Rpower, Rdiv. rewrite <- exp_Ropp, <- !exp_plus. f_equal. field.
Qed.

(** ** what a returned object contains — every carrier (binary64 included): which routine computed what is cached *)
Section AnyCarrier.
  Context {T : Type} (O : Ops T).

  Lemma matrix_cholesky_shape (c r : matrix (T:=T)) :
    matrix_cholesky O c = Some r -> nr r = nr c /\ nc r = nc c.
  Proof.
    unfold matrix_cholesky. destruct (well_formed c); cbn [guard bind]; [|discriminate].
    destruct (matrix_is_positive_definite O c); cbn [guard bind]; [|discriminate].
    destruct (try_chol_rows O true (mrows c) (nc c)); cbn [bind]; [|discriminate].
    intros H. injection H as <-. split; reflexivity.
  Qed.

  Lemma mvn_new_fields (mean : list T) (c : matrix (T:=T)) (d : mvn T) :
    mvn_new O mean c = Some d ->
    mvn_mean d = mean /\ mvn_cov d = c /\ matrix_cholesky O c = Some (mvn_chol d) /\
    mat_inv O c = Some (mvn_cinv d) /\ matrix_det O c = Some (mvn_cdet d) /\
    nr c = nc c /\ length mean = nc c.
  Proof.
    unfold mvn_new. destruct (well_formed c); cbn [guard bind]; [|discriminate].
    destruct (matrix_is_symmetric O c) eqn:Es; cbn [guard bind]; [|discriminate].
    destruct (Nat.eqb_spec (length mean) (nc c)) as [Hm|]; cbn [guard bind]; [|discriminate].
    destruct (matrix_cholesky O c) as [l|]; cbn [bind]; [|discriminate].
    destruct (mat_inv O c) as [ci|]; cbn [bind]; [|discriminate].
    destruct (matrix_det O c) as [cd|]; cbn [bind]; [|discriminate].
    intros H. injection H as <-. cbn [mvn_mean mvn_cov mvn_chol mvn_cinv mvn_cdet].
    repeat split; try reflexivity; try assumption.
    unfold matrix_is_symmetric in Es. apply andb_prop in Es. destruct Es as [Es _]. apply Nat.eqb_eq in Es. exact Es.
  Qed.

  (** the cached factor has [mean.len()] rows and columns: the [Matrix] that [sample] multiplies with is the one
      [Model/Samplers.v: mvn_sample] rebuilds from its data *)
  Lemma mvn_new_chol_shape (mean : list T) (c : matrix (T:=T)) (d : mvn T) :
    mvn_new O mean c = Some d ->
    mvn_chol d = {| nr := length (mvn_mean d); nc := length (mvn_mean d); dat := dat (mvn_chol d) |}.
  Proof.
    intros H. destruct (mvn_new_fields mean c d H) as (Hm & _ & Hc & _ & _ & Hsq & Hl).
    destruct (matrix_cholesky_shape c _ Hc) as [H1 H2]. rewrite Hm, Hl.
    destruct (mvn_chol d) as [r1 r2 r3]. cbn [nr nc dat] in *. rewrite H1, H2, Hsq. reflexivity.
  Qed.

End AnyCarrier.

(** ** the constructor on a symmetric positive definite covariance *)
Lemma mvn_new_spd (n : nat) (cov mean : list R) :
  (0 < n)%nat -> length cov = (n * n)%nat -> length mean = n ->
  symmetric cov n -> positive_definite cov n ->
  exists Sinv L,
    mvn_new RO mean (sqmat n cov)
      = Some {| mvn_mean := mean; mvn_cov := sqmat n cov; mvn_cinv := sqmat n Sinv;
                mvn_cdet := determinant (unflatten cov n n); mvn_chol := sqmat n L |} /\
    (length Sinv = (n * n)%nat /\
     (forall i j, (i < n)%nat -> (j < n)%nat -> mmul cov Sinv n i j = delta i j) /\
     (forall i j, (i < n)%nat -> (j < n)%nat -> mmul Sinv cov n i j = delta i j)) /\
    0 < determinant (unflatten cov n n) /\
    (length L = (n * n)%nat /\ lower_triangular L n /\ (forall i, (i < n)%nat -> 0 < getm L n i i) /\
     forall i j, (i < n)%nat -> (j < n)%nat -> rsum (fun k => getm L n i k * getm L n j k) n = getm cov n i j).
Proof.
  intros Hn Hl Hm Hsym Hpd. symmetry in Hl.
  destruct (matrix_cholesky_spd cov n Hl Hn Hsym Hpd) as (L & HL & HLs).
  destruct (matrix_inv_spd cov n Hl Hn Hsym Hpd) as (X & HX & HXl & HXr & HXleft).
  destruct (matrix_det_spd cov n Hl Hn Hsym Hpd) as (Hdet & Hdpos).
  exists X, L. split; [|split; [auto|split; [exact Hdpos|]]].
  - unfold mvn_new. rewrite sqmat_well_formed by assumption. cbn [guard bind].
    rewrite matrix_is_symmetric_exact by exact Hsym. cbn [guard bind].
    cbn [sqmat nc]. rewrite Hm, Nat.eqb_refl. cbn [guard bind].
    fold (sqmat n cov). rewrite HL. cbn [bind]. rewrite HX. cbn [bind]. rewrite Hdet. reflexivity.
  - destruct (chol_reconstructs cov L n HLs Hl) as (H1 & H2 & H3 & _ & H5).
    split; [exact H1|split; [exact H2|split; [exact H3|exact (H5 Hsym)]]].
Qed.

(** ** pdf is the textbook density, ln_pdf its logarithm *)
Lemma mvn_pdf_full_textbook (n : nat) (cov mean x : list R) :
  (0 < n)%nat -> (Z.of_nat n < 2 ^ 64)%Z -> length cov = (n * n)%nat -> length mean = n -> length x = n ->
  symmetric cov n -> positive_definite cov n ->
  exists Sinv,
    (length Sinv = (n * n)%nat /\
     (forall i j, (i < n)%nat -> (j < n)%nat -> mmul cov Sinv n i j = delta i j) /\
     (forall i j, (i < n)%nat -> (j < n)%nat -> mmul Sinv cov n i j = delta i j)) /\
    0 < determinant (unflatten cov n n) /\
    mvn_pdf_full RO mean (sqmat n cov) x = Some (mvn_density n Sinv (determinant (unflatten cov n n)) mean x) /\
    mvn_ln_pdf_full RO mean (sqmat n cov) x = Some (ln (mvn_density n Sinv (determinant (unflatten cov n n)) mean x)).
Proof.
  intros Hn Hn64 Hl Hm Hx Hsym Hpd.
  destruct (mvn_new_spd n cov mean Hn Hl Hm Hsym Hpd) as (X & L & Hnew & HX & Hdpos & _).
  exists X. split; [exact HX|split; [exact Hdpos|]].
  assert (Hpdf : mvn_pdf_full RO mean (sqmat n cov) x = Some (mvn_density n X (determinant (unflatten cov n n)) mean x)).
  { unfold mvn_pdf_full. rewrite Hnew. cbn [bind]. unfold mvn_obj_pdf. cbn [mvn_cov mvn_cinv mvn_cdet mvn_mean].
    unfold sqmat at 2.
    rewrite (mvn_pdf_textbook n (sqmat n cov) X mean x _ Hn Hn64 (proj1 HX) Hm Hx (matrix_is_pd_spd n cov Hsym Hpd)).
    f_equal. rewrite quad_spec_mvn_quad. unfold mvn_density. apply density_forms. exact Hdpos. }
  split; [exact Hpdf|].
  unfold mvn_ln_pdf_full. rewrite Hnew. cbn [bind]. unfold mvn_obj_ln_pdf. cbn [mvn_cov mvn_cinv mvn_cdet mvn_mean].
  rewrite mvn_ln_pdf_is_ln by (try rewrite Hx; assumption).
  unfold mvn_pdf_full in Hpdf. rewrite Hnew in Hpdf. cbn [bind] in Hpdf. unfold mvn_obj_pdf in Hpdf.
  cbn [mvn_cov mvn_cinv mvn_cdet mvn_mean] in Hpdf. rewrite Hpdf. reflexivity.
Qed.

(** the inverse the density is written with is determined by Sigma: any right inverse has the same entries *)
Lemma mvn_precision_unique (n : nat) (cov X Y : list R) :
  (forall i j, (i < n)%nat -> (j < n)%nat -> mmul X cov n i j = delta i j) ->
  (forall i j, (i < n)%nat -> (j < n)%nat -> mmul cov Y n i j = delta i j) ->
  forall i j, (i < n)%nat -> (j < n)%nat -> getm Y n i j = getm X n i j.
Proof. exact (two_sided_inverse_unique cov n X Y). Qed.

(** ** rejection: what the constructor refuses (it panics) *)
Lemma mvn_new_rejects (n : nat) (cov mean : list R) :
  (n * n)%nat = length cov ->
  ((exists i j, (i < n)%nat /\ (j < n)%nat /\
      sym_tol (getm cov n i j) (getm cov n j i) < Rabs (getm cov n i j - getm cov n j i)) \/
   length mean <> n \/
   (exists i, (i < n)%nat /\ getm cov n i i <= 0) \/
   (symmetric cov n /\ ~ positive_definite cov n)) ->
  mvn_new RO mean (sqmat n cov) = None.
Proof.
  intros Hl H. unfold mvn_new.
  destruct (well_formed (sqmat n cov)); cbn [guard bind]; [|reflexivity].
  destruct (matrix_is_symmetric RO (sqmat n cov)) eqn:Esym; cbn [guard bind]; [|reflexivity].
  destruct H as [(i & j & Hi & Hj & Hfar)|[Hm|[(i & Hi & Hd)|[Hsym Hnpd]]]].
  - exfalso. unfold matrix_is_symmetric, mrows, sqmat in Esym. cbn [nr nc dat] in Esym.
    rewrite Nat.eqb_refl in Esym. cbn [andb] in Esym.
    rewrite (is_symmetric_rows_far (unflatten cov n n) n i j Hi Hj) in Esym; [discriminate|].
    rewrite !ent_unflatten by auto. exact Hfar.
  - cbn [sqmat nc]. destruct (Nat.eqb_spec (length mean) n); [contradiction|reflexivity].
  - destruct (length mean =? nc (sqmat n cov))%nat; cbn [guard bind]; [|reflexivity].
    unfold matrix_cholesky. destruct (well_formed (sqmat n cov)); cbn [guard bind]; [|reflexivity].
    replace (matrix_is_positive_definite RO (sqmat n cov)) with false; [reflexivity|].
    symmetry. unfold matrix_is_positive_definite. rewrite Esym. cbn [andb].
    destruct (diag_positive_rows RO (mrows (sqmat n cov)) (nc (sqmat n cov))) eqn:Ed; [|reflexivity].
    exfalso. rewrite diag_positive_rows_true in Ed. specialize (Ed i Hi).
    unfold mrows, sqmat in Ed. cbn [nr nc dat] in Ed. rewrite ent_unflatten in Ed by auto. unfold getm in Hd. lra.
  - destruct (length mean =? nc (sqmat n cov))%nat; cbn [guard bind]; [|reflexivity].
    destruct (matrix_cholesky RO (sqmat n cov)) as [r|] eqn:Ec; cbn [bind]; [|reflexivity].
    exfalso. destruct (matrix_cholesky_eq_slice (sqmat n cov) r Ec) as (Hs & _ & _). cbn [sqmat dat] in Hs.
    rewrite (cholesky_rejects_not_pd cov n Hl Hsym Hnpd) in Hs. discriminate.
Qed.

(** among the (exactly) symmetric matrices the constructor returns EXACTLY on the positive definite ones *)
Lemma mvn_new_iff_spd (n : nat) (cov mean : list R) :
  (0 < n)%nat -> length cov = (n * n)%nat -> length mean = n -> symmetric cov n ->
  ((exists d, mvn_new RO mean (sqmat n cov) = Some d) <-> positive_definite cov n).
Proof.
  intros Hn Hl Hm Hsym. split.
  - intros [d Hd]. destruct (mvn_new_fields RO mean (sqmat n cov) d Hd) as (_ & _ & Hc & _).
    destruct (matrix_cholesky_eq_slice (sqmat n cov) _ Hc) as (Hs & _ & _). cbn [sqmat dat] in Hs.
    exact (cholesky_some_pd cov _ n Hs (eq_sym Hl) Hsym).
  - intros Hpd. destruct (mvn_new_spd n cov mean Hn Hl Hm Hsym Hpd) as (X & L & Hnew & _). eexists. exact Hnew.
Qed.

(** a point of the wrong length is refused by [pdf] and [ln_pdf] (whatever the constructor returned) *)
Lemma mvn_full_rejects_point (cov : matrix (T:=R)) (mean x : list R) :
  length x <> length mean ->
  mvn_pdf_full RO mean cov x = None /\ mvn_ln_pdf_full RO mean cov x = None.
Proof.
  intros Hx. unfold mvn_pdf_full, mvn_ln_pdf_full.
  destruct (mvn_new RO mean cov) as [d|] eqn:En; cbn [bind]; [|split; reflexivity].
  assert (Hmean : mvn_mean d = mean).
  { unfold mvn_new in En.
    repeat match type of En with
           | (let* _ := guard ?b in _) = Some _ => destruct b; cbn [guard bind] in En; [|discriminate]
           | (let* _ := ?e in _) = Some _ => destruct e; cbn [bind] in En; [|discriminate]
           end.
    injection En as <-. reflexivity. }
  unfold mvn_obj_pdf, mvn_obj_ln_pdf. rewrite Hmean.
  apply mvn_rejects. right. exact Hx.
Qed.

(** ** a non-trivial instance: Sigma = [[2,1],[1,2]], mu = (0,0), x = (1,0):
       Sigma^-1 = [[2/3,-1/3],[-1/3,2/3]], det = 3, quadratic form 2/3 *)
Lemma example_cov_spd : symmetric [2; 1; 1; 2] 2 /\ positive_definite [2; 1; 1; 2] 2.
Proof.
  split.
  - intros [|[|i]] [|[|j]] Hi Hj; try lia; reflexivity.
  - intros x (i & Hi & Hx). cbn [rsum]. unfold getm. cbn [nth Nat.mul Nat.add].
    assert (H : x 0%nat <> 0 \/ x 1%nat <> 0) by (destruct i as [|[|i]]; [left|right|lia]; exact Hx).
    assert (E : 0 + (0 + x 0%nat * 2 * x 0%nat + x 0%nat * 1 * x 1%nat) + (0 + x 1%nat * 1 * x 0%nat + x 1%nat * 2 * x 1%nat)
                = (x 0%nat + x 1%nat) ^ 2 + x 0%nat ^ 2 + x 1%nat ^ 2) by ring.
    rewrite E. pose proof (pow2_ge_0 (x 0%nat + x 1%nat)). pose proof (pow2_ge_0 (x 0%nat)). pose proof (pow2_ge_0 (x 1%nat)).
    destruct H as [H|H]; pose proof (pow_nonzero _ 2 H); lra.
Qed.

Lemma mvn_full_example :
  mvn_pdf_full RO [0; 0] (sqmat 2 [2; 1; 1; 2]) [1; 0] = Some (exp (- (1 / 3)) / (2 * PI * R_sqrt.sqrt 3)).
Proof.
  destruct example_cov_spd as [Hsym Hpd].
  destruct (mvn_pdf_full_textbook 2 [2; 1; 1; 2] [0; 0] [1; 0] ltac:(lia) ltac:(reflexivity) eq_refl eq_refl eq_refl Hsym Hpd)
    as (X & (HXl & HXr & HXleft) & Hdpos & Hpdf & _).
  rewrite Hpdf. f_equal.
  (* the entries of X are forced *)
  assert (HY : forall i j, (i < 2)%nat -> (j < 2)%nat -> mmul [2; 1; 1; 2] [2 / 3; - (1 / 3); - (1 / 3); 2 / 3] 2 i j = delta i j).
  { intros [|[|i]] [|[|j]] Hi Hj; try lia; unfold mmul, getm, delta; cbn; field. }
  pose proof (two_sided_inverse_unique [2; 1; 1; 2] 2 X _ HXleft HY) as HE.
  assert (Hq : mvn_quad 2 X [0; 0] [1; 0] = 2 / 3).
  { unfold mvn_quad. cbn [rsum nth]. rewrite <- (HE 0%nat 0%nat), <- (HE 0%nat 1%nat), <- (HE 1%nat 0%nat), <- (HE 1%nat 1%nat) by lia.
    unfold getm. cbn [nth Nat.mul Nat.add]. field. }
  assert (Hd : determinant (unflatten [2; 1; 1; 2] 2 2) = 3).
  { change (unflatten [2; 1; 1; 2] 2 2) with [[2; 1]; [1; 2]]. rewrite Proofs.C11_DetLU.determinant_2x2. ring. }
  unfold mvn_density. rewrite Hq, Hd. rewrite <- (density_forms 2 (2 / 3) 3) by lra.
  replace (- (2 / 3) / 2) with (- (1 / 3)) by field. f_equal.
  replace ((2 * PI) ^ 2 * 3) with ((2 * PI) * (2 * PI) * 3) by ring.
  rewrite R_sqrt.sqrt_mult by (pose proof PI_RGT_0; nra).
  rewrite R_sqrt.sqrt_square by (pose proof PI_RGT_0; lra). reflexivity.
Qed.
