(** C06 composed with C01: the inner linear routines of the GLM fit are C01's models —
    [solve] := [slice_solve] (routing predicate, fallible Cholesky sweep, LU fall-back), [inv] := [slice_invert]
    (Model/SolveInst.v) — and the hypotheses [solve_ok] / [inv_ok] of Proofs/C06.v, Proofs/C06_infer.v are
    DISCHARGED from C01's theorems.  What remains is a condition on the data at the iterate: the penalised
    Fisher information matrix (exactly symmetric) has a left inverse ([info_nonsingular]); for the standard
    errors, the stored information matrix has one.

    [solve_ok] / [inv_ok] as stated quantify over EVERY argument, which [slice_solve RO] / [slice_invert RO] do
    not meet (a singular matrix yields [Some garbage] in exact arithmetic); a scoring step calls the inner
    routine on one system only, so the parametric theorems are applied to the routine restricted to that
    system ([only_at2] / [only_at], Proofs/Compose_base.v), which the model cannot distinguish from the
    unrestricted one ([step_restrict]). *)
From Coq Require Import Reals List Arith ZArith Bool Lia Lra.
From Compute Require Import Base.Ops Base.ListMat Model.Reduce Model.MatMul Model.SolveInst Spec.MatMul Proofs.C05.
From Compute Require Import Generated.glm_families Model.GLM Spec.GLM Proofs.C06_base Proofs.C06 Proofs.C06_infer.
From Compute Require Spec.Factor Spec.Solve Proofs.LinAlgBase Proofs.C01 Proofs.Compose_base.
Import ListNotations.
Local Open Scope R_scope.

(** ** the two vocabularies agree *)
Lemma bigsum_same : bigsum = Spec.Factor.rsum.
Proof. reflexivity. Qed.

(** the matrix with the given entries has a left inverse *)
Definition entries_nonsingular (E : nat -> nat -> R) (p : nat) : Prop :=
  exists c : list R, forall i j, (i < p)%nat -> (j < p)%nat ->
    bigsum (fun l => nth (i * p + l) c 0 * E l j) p = if (i =? j)%nat then 1 else 0.

Lemma entries_nonsingular_list (E : nat -> nat -> R) a p :
  (forall j k, (j < p)%nat -> (k < p)%nat -> nth (j * p + k) a 0 = E j k) ->
  entries_nonsingular E p -> Spec.Solve.nonsingular a p.
Proof.
  intros Ha [c Hc]. exists c. intros i j Hi Hj.
  unfold Spec.Factor.mmul, Spec.Solve.delta. rewrite <- (Hc i j Hi Hj), bigsum_same.
  apply Proofs.LinAlgBase.rsum_ext. intros l Hl. unfold Spec.Factor.getm. rewrite Ha by assumption. reflexivity.
Qed.

Lemma entries_symmetric_list (E : nat -> nat -> R) a p :
  (forall j k, (j < p)%nat -> (k < p)%nat -> nth (j * p + k) a 0 = E j k) ->
  (forall j k, E j k = E k j) -> Spec.Factor.symmetric a p.
Proof. intros Ha Hs i j Hi Hj. unfold Spec.Factor.getm. rewrite !Ha by assumption. apply Hs. Qed.

(** ** the penalised Fisher information is exactly symmetric *)
Lemma fisher_sym f x n p w off beta j k : fisher f x n p w off beta j k = fisher f x n p w off beta k j.
Proof. unfold fisher. apply bigsum_ext. intros i Hi. ring. Qed.

Lemma penalised_fisher_sym f x n p w off alpha beta j k :
  penalised_fisher f x n p w off alpha beta j k = penalised_fisher f x n p w off alpha beta k j.
Proof.
  unfold penalised_fisher. rewrite (fisher_sym f x n p w off beta j k). f_equal.
  destruct (Nat.eq_dec j k) as [->|Hne]; [reflexivity|].
  replace (j =? k)%nat with false by (symmetry; apply Nat.eqb_neq; exact Hne).
  replace (k =? j)%nat with false by (symmetry; apply Nat.eqb_neq; lia).
  rewrite !andb_false_r. reflexivity.
Qed.

(** the data condition at an iterate [beta]: the penalised information matrix has a left inverse *)
Definition info_nonsingular (f : family) (x : list R) (n p : nat) (w : list R) (off : option (list R))
           (alpha : R) (beta : list R) : Prop :=
  entries_nonsingular (penalised_fisher f x n p w (offs off) alpha beta) p.

Section Step.
  Variables (f : family) (alpha tol : R) (x y w : list R) (off : option (list R)) (n p : nat).
  Hypothesis W : wf_data x y w off n p.
  Hypothesis Ha : 0 <= alpha.

  (** C01's [solve] on the Newton system of an iterate with nonsingular penalised information *)
  Lemma newton_solved beta q :
    length beta = p -> at_coef RO f x n p off beta = Some q -> info_nonsingular f x n p w off alpha beta ->
    exists a b s,
      newton_system RO alpha x y p w beta q = Some (a, b) /\ length a = (p * p)%nat /\ length b = p /\
      slice_solve RO a b = Some s /\ length s = p /\
      (forall j, (j < p)%nat -> matvec a p s j = nth j b 0) /\
      (forall s', length s' = p -> (forall j, (j < p)%nat -> matvec a p s' j = nth j b 0) -> s' = s).
  Proof.
    intros Hb Hq Hns.
    destruct (newton_system_spec f alpha x y w off n p beta q W Hb Ha Hq) as (a & b & Hs & La & Lb & Eb & Ea).
    assert (Hp : (0 < p)%nat) by (destruct W as (_ & Hp & _); exact Hp).
    pose proof (entries_nonsingular_list _ a p Ea Hns) as Hnsa.
    pose proof (entries_symmetric_list _ a p Ea (penalised_fisher_sym f x n p w (offs off) alpha beta)) as Hsym.
    destruct (Proofs.C01.solve_nonsingular a b p (eq_sym La) Hp Lb (or_introl Hsym) Hnsa) as (s & Hsol & [Ls Hs'] & Huniq).
    exists a, b, s. split; [exact Hs|]. split; [exact La|]. split; [exact Lb|]. split; [exact Hsol|].
    split; [exact Ls|]. split.
    - intros j Hj. exact (Hs' j Hj).
    - intros s' Ls' Hs''. apply Huniq. split; [exact Ls'|]. intros j Hj. exact (Hs'' j Hj).
  Qed.

  Definition solve_at (a b : list R) := Proofs.Compose_base.only_at2 a b (slice_solve RO).

  Lemma solve_at_ok a b :
    length a = (p * p)%nat -> length b = p -> Spec.Factor.symmetric a p -> Spec.Solve.nonsingular a p ->
    forall a' b' s, solve_at a b a' b' = Some s ->
      length s = length b' /\ forall j, (j < length b')%nat -> matvec a' (length b') s j = nth j b' 0.
  Proof.
    intros La Lb Hsym Hns a' b' s H.
    destruct (Proofs.Compose_base.only_at2_some _ _ _ _ _ _ H) as (-> & -> & Hs).
    assert (Hp : (0 < p)%nat) by (destruct W as (_ & Hp & _); exact Hp).
    destruct (Proofs.C01.solve_nonsingular a b p (eq_sym La) Hp Lb (or_introl Hsym) Hns) as (s0 & Hsol & [Ls Hs'] & _).
    rewrite Hsol in Hs. injection Hs as <-. rewrite Lb. split; [exact Ls|]. intros j Hj. exact (Hs' j Hj).
  Qed.

  Lemma step_restrict beta pdev a b q :
    at_coef RO f x n p off beta = Some q -> newton_system RO alpha x y p w beta q = Some (a, b) ->
    step RO (solve_at a b) f alpha tol x y n p w off beta pdev = step RO (slice_solve RO) f alpha tol x y n p w off beta pdev.
  Proof.
    intros Hq Hs. unfold step. rewrite Hq. cbn [bind]. rewrite Hs. cbn [bind].
    unfold solve_at. rewrite Proofs.Compose_base.only_at2_same. reflexivity.
  Qed.

  (** a composed step, re-read as a step of a solver that is correct everywhere *)
  Lemma step_as_restricted beta pdev r :
    length beta = p -> info_nonsingular f x n p w off alpha beta ->
    step RO (slice_solve RO) f alpha tol x y n p w off beta pdev = Some r ->
    exists a b,
      (forall a' b' s, solve_at a b a' b' = Some s ->
         length s = length b' /\ forall j, (j < length b')%nat -> matvec a' (length b') s j = nth j b' 0) /\
      step RO (solve_at a b) f alpha tol x y n p w off beta pdev = Some r.
  Proof.
    intros Hb Hns Hstep.
    destruct (at_coef RO f x n p off beta) as [q|] eqn:Hq;
      [|unfold step in Hstep; rewrite Hq in Hstep; discriminate].
    destruct (newton_system_spec f alpha x y w off n p beta q W Hb Ha Hq) as (a & b & Hs & La & Lb & Eb & Ea).
    exists a, b. split.
    - apply solve_at_ok; auto.
      + apply (entries_symmetric_list _ a p Ea (penalised_fisher_sym f x n p w (offs off) alpha beta)).
      + apply (entries_nonsingular_list _ a p Ea Hns).
    - rewrite (step_restrict beta pdev a b q Hq Hs). exact Hstep.
  Qed.

  (** the scoring step IS the Fisher-scoring update: it returns whenever the quantities and the deviance are
      defined, and the move [beta - beta'] is THE solution of  (information + ridge).d = - penalised score *)
  Theorem step_is_fisher_scoring_composed beta pdev beta' pd conv q :
    length beta = p -> info_nonsingular f x n p w off alpha beta ->
    step RO (slice_solve RO) f alpha tol x y n p w off beta pdev = Some (beta', pd, conv, q) ->
    length beta' = p /\
    forall j, (j < p)%nat ->
      bigsum (fun k => penalised_fisher f x n p w (offs off) alpha beta j k * (nth k beta 0 - nth k beta' 0)) p
      = - penalised_score f x n p y w (offs off) alpha beta j.
  Proof.
    intros Hb Hns Hstep.
    destruct (step_as_restricted beta pdev _ Hb Hns Hstep) as (a & b & Hok & Hstep').
    destruct (step_inv (solve_at a b) Hok f alpha tol x y w off n p W Ha beta pdev beta' pd conv q Hb Hstep')
      as (a' & b' & s & _ & _ & _ & Ls & Eq & _ & _ & Es & Ea').
    subst beta'. split; [rewrite map2_length; lia|].
    intros j Hj. rewrite <- (Es j Hj). unfold matvec. apply bigsum_ext. intros k Hk.
    rewrite Ea' by assumption. rewrite (nth_map2 _ _ _ _ _ 0 0) by lia. ring.
  Qed.

  Theorem fixed_point_is_penalised_mle_composed beta pdev pd conv q :
    length beta = p -> info_nonsingular f x n p w off alpha beta ->
    step RO (slice_solve RO) f alpha tol x y n p w off beta pdev = Some (beta, pd, conv, q) ->
    forall j, (j < p)%nat -> penalised_score f x n p y w (offs off) alpha beta j = 0.
  Proof.
    intros Hb Hns Hstep.
    destruct (step_as_restricted beta pdev _ Hb Hns Hstep) as (a & b & Hok & Hstep').
    exact (fixed_point_is_penalised_mle (solve_at a b) Hok f alpha tol x y w off n p W Ha beta pdev pd conv q Hb Hstep').
  Qed.

  (** a left inverse forces a trivial kernel *)
  Lemma left_inverse_kernel (E : nat -> nat -> R) v :
    entries_nonsingular E p -> length v = p ->
    (forall j, (j < p)%nat -> bigsum (fun k => E j k * nth k v 0) p = 0) ->
    forall k, (k < p)%nat -> nth k v 0 = 0.
  Proof.
    intros [c Hc] Lv Hker k Hk.
    transitivity (bigsum (fun j => (if (k =? j)%nat then 1 else 0) * nth j v 0) p).
    - symmetry. rewrite bigsum_same.
      rewrite (Proofs.LinAlgBase.rsum_single _ k p Hk).
      + rewrite Nat.eqb_refl. ring.
      + intros j Hj Hne. destruct (Nat.eqb_spec k j); [lia|ring].
    - rewrite (bigsum_ext _ (fun j => bigsum (fun l => nth (k * p + l) c 0 * (E l j * nth j v 0)) p)).
      + rewrite bigsum_swap.
        rewrite (bigsum_ext _ (fun _ => 0)); [apply bigsum_zero|].
        intros l Hl. cbv beta.
        rewrite (bigsum_scal (nth (k * p + l) c 0) (fun j => E l j * nth j v 0) p), (Hker l Hl). ring.
      + intros j Hj. rewrite <- (Hc k j Hk Hj). rewrite bigsum_scal_r. apply bigsum_ext. intros; ring.
  Qed.

  Theorem penalised_mle_is_fixed_point_composed beta pdev beta' pd conv q :
    length beta = p -> info_nonsingular f x n p w off alpha beta ->
    (forall j, (j < p)%nat -> penalised_score f x n p y w (offs off) alpha beta j = 0) ->
    step RO (slice_solve RO) f alpha tol x y n p w off beta pdev = Some (beta', pd, conv, q) ->
    beta' = beta.
  Proof.
    intros Hb Hns Hsc Hstep.
    destruct (step_as_restricted beta pdev _ Hb Hns Hstep) as (a & b & Hok & Hstep').
    apply (penalised_mle_is_fixed_point (solve_at a b) Hok f alpha tol x y w off n p W Ha beta pdev beta' pd conv q Hb); auto.
    intros v Lv Hker. apply (left_inverse_kernel _ v Hns Lv Hker).
  Qed.

  Theorem gaussian_step_is_ridge_wls_composed beta pdev beta' pd conv q :
    f = Gaussian -> length beta = p -> info_nonsingular f x n p w off alpha beta ->
    step RO (slice_solve RO) f alpha tol x y n p w off beta pdev = Some (beta', pd, conv, q) ->
    forall j, (j < p)%nat ->
      bigsum (fun k => (bigsum (fun i => X x p i j * (nth i w 0 * X x p i k)) n
                        + (if (1 <=? j)%nat && (j =? k)%nat then alpha else 0)) * nth k beta' 0) p
      = bigsum (fun i => X x p i j * (nth i w 0 * (nth i y 0 - offs off i))) n.
  Proof.
    intros Hf Hb Hns Hstep.
    destruct (step_as_restricted beta pdev _ Hb Hns Hstep) as (a & b & Hok & Hstep').
    exact (gaussian_step_is_ridge_wls (solve_at a b) Hok f alpha tol x y w off n p W Ha beta pdev beta' pd conv q Hf Hb Hstep').
  Qed.
End Step.

(** ** standard errors: the information matrix stored by [fit] is exactly symmetric, so C01's
    [invert_matrix] returns its inverse as soon as it is nonsingular *)
Lemma compute_ddbeta_symmetric x dmu var w p dd :
  (0 < p)%nat -> is_matrix (length x) (length w) = Some p ->
  compute_ddbeta RO x dmu var w = Some dd ->
  length dd = (p * p)%nat /\ Spec.Factor.symmetric dd p.
Proof.
  intros Hp Hm Hdd.
  assert (Hlens : length dmu = length w /\ length var = length w).
  { unfold compute_ddbeta in Hdd.
    destruct (is_matrix (length x) (length dmu)); [|discriminate]. cbn [bind] in Hdd.
    destruct (working_weights RO dmu var w) as [ww|] eqn:Hww; [|discriminate].
    unfold working_weights in Hww.
    destruct (vbin (mul RO) w dmu) as [wd|] eqn:H1; [|discriminate]. cbn [bind] in Hww.
    destruct (vbin (div RO) dmu var) as [q|] eqn:H2; [|discriminate]. cbn [bind] in Hww.
    apply vbin_inv in H1. destruct H1 as [L1 _].
    apply vbin_inv in H2. destruct H2 as [L2 _].
    lia. }
  destruct Hlens as [Ld Lv].
  destruct (is_matrix_some _ _ _ Hm) as [Hn Hx].
  destruct (compute_ddbeta_spec x dmu var w (length w) p Hn Hp (eq_sym Hx) Ld Lv eq_refl) as (dd' & Hdd' & Ldd & Hent).
  rewrite Hdd in Hdd'. injection Hdd' as <-. split; [exact Ldd|].
  intros i j Hi Hj. unfold Spec.Factor.getm. rewrite !Hent by assumption.
  apply bigsum_ext. intros k Hk. ring.
Qed.

Lemma fit_info_symmetric solve f alpha tol w off x y max_iter (ft : fitted (T:=R)) :
  fit RO solve f alpha tol w off x y max_iter = Some ft -> (0 < f_p ft)%nat ->
  length (f_info ft) = (f_p ft * f_p ft)%nat /\ Spec.Factor.symmetric (f_info ft) (f_p ft).
Proof.
  intros Hfit Hp.
  destruct (fit_inv RO solve f alpha tol w off x y max_iter ft Hfit) as (p & q & Hm & _ & Lw & _ & _ & Hdd & Hfp).
  rewrite Hfp in *. rewrite <- Lw in Hm.
  exact (compute_ddbeta_symmetric x (q_dmu q) (q_var q) _ p (f_info ft) Hp Hm Hdd).
Qed.

Definition inv_at (a : list R) := Proofs.Compose_base.only_at a (slice_invert RO).

Theorem stderr_composed f (ft : fitted (T:=R)) disp :
  (0 < f_p ft)%nat -> length (f_info ft) = (f_p ft * f_p ft)%nat ->
  Spec.Factor.symmetric (f_info ft) (f_p ft) -> Spec.Solve.nonsingular (f_info ft) (f_p ft) ->
  dispersion RO f ft = Some disp ->
  exists iv se,
    slice_invert RO (f_info ft) = Some iv /\ length iv = (f_p ft * f_p ft)%nat /\
    (forall j k, (j < f_p ft)%nat -> (k < f_p ft)%nat ->
       bigsum (fun l => nth (j * f_p ft + l) (f_info ft) 0 * nth (l * f_p ft + k) iv 0) (f_p ft)
       = if (j =? k)%nat then 1 else 0) /\
    coef_standard_error RO (slice_invert RO) f ft = Some se /\ length se = f_p ft /\
    forall j, (j < f_p ft)%nat -> nth j se 0 = R_sqrt.sqrt (disp * nth (j * f_p ft + j) iv 0).
Proof.
  intros Hp Li Hsym Hns Hdisp.
  destruct (Proofs.Compose_base.invert_sym_nonsingular (f_info ft) (f_p ft) (eq_sym Li) Hp Hsym Hns) as (iv & Hiv & [Liv Hri]).
  assert (Hok : forall a ai m, length a = (m * m)%nat -> inv_at (f_info ft) a = Some ai ->
            length ai = (m * m)%nat /\
            forall j k, (j < m)%nat -> (k < m)%nat ->
              bigsum (fun l => nth (j * m + l) a 0 * nth (l * m + k) ai 0) m = if (j =? k)%nat then 1 else 0).
  { intros a ai m La H. destruct (Proofs.Compose_base.only_at_some _ _ _ _ H) as [-> Hai].
    rewrite Hiv in Hai. injection Hai as <-. rewrite Li in La. assert (m = f_p ft) by nia. subst m.
    split; [exact Liv|]. intros j k Hj Hk. exact (Hri j k Hj Hk). }
  assert (Hse : coef_standard_error RO (inv_at (f_info ft)) f ft = coef_standard_error RO (slice_invert RO) f ft).
  { unfold coef_standard_error, coef_covariance_matrix, inv_at.
    rewrite Proofs.Compose_base.only_at_same. reflexivity. }
  assert (Hsome : exists se, coef_standard_error RO (slice_invert RO) f ft = Some se).
  { unfold coef_standard_error, coef_covariance_matrix. rewrite Hdisp, Hiv. cbn [bind].
    unfold diag. rewrite map_length, Liv, Nat.sqrt_square, Nat.eqb_refl. cbn [bind]. eauto. }
  destruct Hsome as [se Hse'].
  rewrite <- Hse in Hse'.
  destruct (stderr_formula (inv_at (f_info ft)) Hok f ft se Li Hse') as (disp' & iv' & Hd' & Hiv' & Liv' & Hri' & Lse & Hent).
  rewrite Hdisp in Hd'. injection Hd' as <-.
  unfold inv_at in Hiv'. rewrite Proofs.Compose_base.only_at_same, Hiv in Hiv'. injection Hiv' as <-.
  exists iv, se. rewrite <- Hse. repeat split; auto.
Qed.

(** ** the conditions are satisfiable: intercept-only Gaussian model on three observations *)
Example info_nonsingular_instance : info_nonsingular Gaussian [1; 1; 1] 3 1 [1; 1; 1] None 0 [0].
Proof.
  exists [1 / 3]. intros i j Hi Hj. assert (i = 0%nat) by lia. assert (j = 0%nat) by lia. subst i j.
  unfold penalised_fisher, fisher, X. cbn. field.
Qed.
