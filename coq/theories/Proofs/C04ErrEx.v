(** Proofs for C04, part 8: satisfiability examples for the hypotheses of the binary64 error bounds. *)
From Coq Require Import List Arith Bool ZArith Reals Lra Lia Floats.
From Flocq Require Import Core BinarySingleNaN PrimFloat.
From Compute Require Import Base.Ops Base.ListMat Model.Reduce Spec.Vops Proofs.C04Red Proofs.C04Err Proofs.C04ErrF Proofs.C04ErrDot Proofs.C04ErrNP.
Import ListNotations.
Local Open Scope R_scope.

Lemma tiny_lit : / 2 ^ 1022 = / IZR (2 ^ 1022).
Proof. f_equal. rewrite (pow_IZR 2 1022). reflexivity. Qed.
Ltac tiny_compute := rewrite tiny_lit; let v := eval vm_compute in (2 ^ 1022)%Z in change (2 ^ 1022)%Z with v.
(** [r = 0 \/ / 2 ^ 1022 <= Rabs r] for a product [r] of two concrete doubles (linear arithmetic on the exact rationals) *)
Ltac nu_tac := first [ left; b2rf_compute; lra
                     | right; tiny_compute; b2rf_compute; apply Rabs_ge; first [right; lra | left; lra] ].

Lemma dot_example :
  let x := [1; 2; 3; 4; 5; 6; 7; 8; 0x1.999999999999ap-4]%float in
  let y := [0.5; -1; 3; 0; 5; 6; 7; 8; 3]%float in
  (exists d, Reduce.dot FO0 x y = Some d /\ finite d) /\
  Forall2 (fun a b => B2Rf a * B2Rf b = 0 \/ / 2 ^ 1022 <= Rabs (B2Rf a * B2Rf b)) x y.
Proof.
  cbv zeta. split.
  - eexists. split; [reflexivity|]. vm_compute. reflexivity.
  - repeat (constructor; [nu_tac|]). constructor.
Qed.

Lemma norm_prod_example :
  let x := [3; -4; 0; 0x1.999999999999ap-4; 5; 6; 7; 8; 9; 0x1p-500]%float in
  finite (Reduce.norm FO0 x) /\
  Forall (fun a => B2Rf a * B2Rf a = 0 \/ / 2 ^ 1022 <= Rabs (B2Rf a * B2Rf a)) x /\
  finite (Reduce.prod FO0 [1.5; -2; 0x1.999999999999ap-4; 0x1p-500]%float) /\
  prod_no_underflow 1%float [1.5; -2; 0x1.999999999999ap-4; 0x1p-500]%float.
Proof.
  cbv zeta. split; [vm_compute; reflexivity|]. split; [|split; [vm_compute; reflexivity|]].
  - repeat (constructor; [nu_tac|]). constructor.
  - cbn [prod_no_underflow].
    repeat (split; [nu_tac|]). exact I.
Qed.
