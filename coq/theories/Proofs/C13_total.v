(** Proofs for C13, part 6: which calls panic — on EVERY carrier (so on binary64 as well):
    [predict] returns exactly h forecasts iff the history is at least as long as the coefficient
    vector, [predict_one] never panics, [fit] returns p coefficients whenever the order is
    positive and the inner routine returns a p x p result. *)
From Coq Require Import List Arith Bool Lia.
From Compute Require Import Base.Ops Base.ListMat Model.Reduce Model.MatMul Model.TimeSeries
  Spec.MatMul Proofs.C05 Proofs.C13_base Proofs.C13_ar.
Import ListNotations.

Section Total.
  Context {T : Type} (O : Ops T).

  Lemma predict_one_total c mu data : exists v, predict_one O c mu data = Some v.
  Proof.
    unfold predict_one.
    destruct (Nat.leb_spec (length c) (length data)) as [Hle|Hlt]; unfold dot.
    - rewrite map_length, skipn_length.
      replace (length data - (length data - length c)) with (length c) by lia.
      rewrite Nat.eqb_refl. cbn [bind]. eexists; reflexivity.
    - rewrite map_length, skipn_length.
      replace (length c - (length c - length data)) with (length data) by lia.
      rewrite Nat.eqb_refl. cbn [bind]. eexists; reflexivity.
  Qed.

  Lemma predict_loop_total c mu h : forall d,
    exists d', predict_loop O c mu h d = Some d' /\ length d' = length d + h.
  Proof.
    induction h as [|h IH]; intros d.
    - exists d. split; [reflexivity | lia].
    - cbn [predict_loop]. destruct (predict_one_total c mu d) as [v ->]. cbn [bind].
      destruct (IH (d ++ [v])) as [d' [-> Hl]]. exists d'. split; [reflexivity|].
      rewrite Hl, app_length. cbn [length]. lia.
  Qed.

  (** exactly the calls with a history shorter than the coefficient vector panic; every other
      call returns h forecasts *)
  Lemma predict_total c mu data h :
    if length c <=? length data
    then exists f, predict O c mu data h = Some f /\ length f = h
    else predict O c mu data h = None.
  Proof.
    unfold predict.
    destruct (Nat.leb_spec (length c) (length data)) as [Hle|Hlt]; cbn [guard bind]; [|reflexivity].
    destruct (predict_loop_total c mu h (skipn (length data - length c) data)) as [d [-> Hl]].
    cbn [bind]. eexists. split; [reflexivity|].
    rewrite skipn_length. lia.
  Qed.

  (** [fit]: positive order + an inner result with p*p entries => a state with p coefficients
      and intercept = the unrolled mean of the data *)
  Lemma fit_total (inv : list T -> option (list T)) p data rinv :
    0 < p -> inv (fit_inv_arg O p data) = Some rinv -> length rinv = p * p ->
    exists c, ar_new_fit O inv p data = Some (c, ts_mean O data) /\ length c = p.
  Proof.
    intros Hp Hinv Hlen. unfold ar_new_fit, ar_fit.
    assert (Hlt : (0 <? p) = true) by (apply Nat.ltb_lt; exact Hp).
    rewrite Hlt, Hinv. cbn [guard bind].
    pose proof (matmul_spec O rinv (tl (autocorrs O p data)) p p false false) as Hm.
    assert (Hr : length (tl (autocorrs O p data)) = p).
    { unfold autocorrs. cbn [seq map tl]. rewrite map_length, seq_length. reflexivity. }
    rewrite Hlen, Hr, dims_fit in Hm by exact Hp.
    destruct Hm as [c0 [Hc0 [Hclen _]]].
    rewrite Hc0. cbn [bind]. exists (rev c0). split; [reflexivity|].
    rewrite rev_length. lia.
  Qed.

  (** the matrix handed to the inner routine always has p*p entries *)
  Lemma fit_inv_arg_length_any p data : length (fit_inv_arg O p data) = p * p.
  Proof.
    unfold fit_inv_arg. rewrite toeplitz_length, firstn_length.
    unfold autocorrs. rewrite map_length, seq_length.
    replace (Nat.min p (S p)) with p by lia. reflexivity.
  Qed.
End Total.
