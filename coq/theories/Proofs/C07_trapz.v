(** Proofs for C07, part 1: the composite trapezoid rule [trapz] on the real carrier. *)
From Coq Require Import Reals List ZArith QArith Qreals Lra Lia.
From Compute Require Import Base.Ops Base.ListMat Model.Quad Proofs.C07_base.
Import ListNotations.
Open Scope R_scope.

(** the model on reals is the textbook composite rule: h·(Σ_{k=1}^{n-1} f(a+kh) + (f(a)+f(b))/2), h = (b-a)/n *)
Lemma trapz_R f a b n :
  trapz RO f a b n =
  (b - a) / INR n * (rsum (fun i => f (a + (1 + INR i) * ((b - a) / INR n))) (n - 1) + (f b + f a) / 2).
Proof.
  unfold trapz. rewrite ksum_R, negzero_R, two_R. unfold ofN. cbn [add sub mul div ofZ RO].
  rewrite <- INR_IZR_INZ, Rplus_0_l. f_equal. f_equal.
  apply rsum_ext. intros i. rewrite plus_IZR, <- INR_IZR_INZ. reflexivity.
Qed.

Lemma trapz_linear f g al be a b n :
  trapz RO (fun x => al * f x + be * g x) a b n = al * trapz RO f a b n + be * trapz RO g a b n.
Proof. rewrite !trapz_R, rsum_lin. unfold Rdiv. ring. Qed.

Lemma trapz_empty f a n : trapz RO f a a n = 0.
Proof. rewrite trapz_R. replace (a - a) with 0 by ring. unfold Rdiv. rewrite !Rmult_0_l. reflexivity. Qed.

(** swapping the limits changes the sign (every n, including the degenerate n = 0 where both sides are 0) *)
Lemma trapz_swap f a b n : trapz RO f b a n = - trapz RO f a b n.
Proof.
  rewrite !trapz_R.
  destruct n as [|m].
  - cbn [INR]. unfold Rdiv. rewrite Rinv_0. ring.
  - set (N := INR (S m)). assert (HN : N <> 0) by (apply not_0_INR; lia).
    replace (S m - 1)%nat with m by lia.
    rewrite (rsum_rev (fun i => f (b + (1 + INR i) * ((a - b) / N))) m).
    rewrite (rsum_ext_lt (fun i => f (b + (1 + INR (m - 1 - i)) * ((a - b) / N)))
                         (fun i => f (a + (1 + INR i) * ((b - a) / N))) m).
    + field. exact HN.
    + intros i Hi. f_equal. rewrite !minus_INR by lia. change (INR 1) with 1. unfold N. rewrite (S_INR m). field.
      rewrite <- S_INR. apply not_0_INR. lia.
Qed.

(** exact on affine integrands, for EVERY number of panels n >= 1 and every interval *)
Lemma trapz_affine_exact c d a b n :
  (1 <= n)%nat ->
  trapz RO (fun x => c + d * x) a b n = c * (b - a) + d * (b * b - a * a) / 2.
Proof.
  intros Hn. rewrite trapz_R.
  assert (HN : INR n <> 0) by (apply not_0_INR; lia).
  rewrite (rsum_ext _ (fun i => (c + d * (a + (b - a) / INR n)) + (d * ((b - a) / INR n)) * INR i))
    by (intros i; ring).
  rewrite rsum_affine. rewrite minus_INR by lia. cbn [INR]. field. exact HN.
Qed.

(** affine substitution: the rule on [a,b] is (b-a) times the rule on [0,1] applied to f∘(a+(b-a)·) *)
Lemma trapz_affine_subst f a b n :
  trapz RO f a b n = (b - a) * trapz RO (fun t => f (a + (b - a) * t)) 0 1 n.
Proof.
  rewrite !trapz_R.
  rewrite (rsum_ext (fun i => f (a + (b - a) * (0 + (1 + INR i) * ((1 - 0) / INR n))))
                    (fun i => f (a + (1 + INR i) * ((b - a) / INR n)))).
  - replace (a + (b - a) * 1) with b by ring. replace (a + (b - a) * 0) with a by ring.
    unfold Rdiv. ring.
  - intros i. f_equal. unfold Rdiv. ring.
Qed.
