(** Proofs for C03, part 4: the multivariate normal draw is mu + L z (every carrier: the sum is the left-to-right
    accumulation the matrix product performs), and [DistributionND::sample_n] returns an n x dim matrix. *)
From Coq Require Import List Arith ZArith Lia Bool.
From Compute Require Import Base.Ops Base.ListMat Base.Rng Model.Reduce Model.MatMul Spec.MatMul Proofs.C05 Model.Samplers Proofs.C03.
Import ListNotations.

Section MVN.
  Context {T S : Type} (O : Ops T) (src : source S T).
  Local Notation z0 := (zero O).

  Lemma mat_vec_dot_spec (L z : list T) dim :
    0 < dim -> length L = dim * dim -> length z = dim ->
    exists v, mat_vec_dot O DotNN {| nr := dim; nc := dim; dat := L |} z = Some v /\ length v = dim /\
      forall i, i < dim ->
        nth i v z0 = sumk O (fun k => mul O (nth (i * dim + k) L z0) (nth k z z0)) dim.
  Proof.
    intros Hd HL Hz. unfold mat_vec_dot, to_matrix, matrix_new.
    rewrite Hz. replace ((0 <? 1) && (0 <? dim) && (1 * dim =? dim)) with true
      by (symmetry; destruct (Nat.ltb_spec 0 dim); [|lia]; rewrite Nat.mul_1_l, Nat.eqb_refl; reflexivity).
    cbn [guard bind]. unfold t_mut. cbn [dat nr nc].
    destruct (transpose_spec O z 1 dim) as (t & Ht & Htl & Hte); [lia|lia|].
    rewrite Ht. cbn [bind]. unfold mat_mat_dot. cbn [nr nc dat]. rewrite Nat.eqb_refl. cbn [guard bind].
    pose proof (matmul_spec O L t dim dim false false) as Hm.
    rewrite dims_is_matrix in Hm. unfold dims' in Hm. rewrite HL, Htl in Hm.
    rewrite !is_matrix_mul in Hm by lia. cbn [bind] in Hm. rewrite Nat.eqb_refl in Hm. cbn [guard bind] in Hm.
    destruct Hm as (c & Hc & Hlen & Hent). rewrite Hc. cbn [bind andb]. unfold matrix_new.
    replace ((0 <? dim) && (0 <? 1) && (dim * 1 =? length c)) with true
      by (symmetry; destruct (Nat.ltb_spec 0 dim); [|lia]; rewrite Hlen, Nat.eqb_refl; reflexivity).
    cbn [guard bind dat]. exists c. split; [reflexivity|]. split; [lia|].
    intros i Hi. pose proof (Hent i 0 Hi ltac:(lia)) as He.
    assert (Ei : i * 1 + 0 = i) by lia. rewrite Ei in He. rewrite He.
    apply sumk_ext. intros k Hk. cbn [andb]. unfold opA, opB. f_equal.
    rewrite (Hte k 0) by lia. reflexivity.
  Qed.

  Lemma vec_add_spec (a b : list T) : length a = length b ->
    exists v, vec_add O a b = Some v /\ length v = length a /\ forall i, i < length a -> nth i v z0 = add O (nth i a z0) (nth i b z0).
  Proof.
    intros H. unfold vec_add. rewrite H, Nat.eqb_refl. eexists. split; [reflexivity|]. split.
    - rewrite map2_length. rewrite H. apply Nat.min_id.
    - intros i Hi. apply nth_map2; lia.
  Qed.

  (** the draw is mu + L z, z the vector of [dim] standard normal draws made from the same state *)
  Lemma mvn_sample_structure fuel (mu L : list T) s z s' :
    0 < length mu -> length L = length mu * length mu ->
    sample_n O src fuel (DNormal z0 (one O)) (length mu) s = Ok (z, s') ->
    exists v, mvn_sample O src fuel mu L s = Ok (v, s') /\ length v = length mu /\
      forall i, i < length mu ->
        nth i v z0 = add O (nth i mu z0) (sumk O (fun k => mul O (nth (i * length mu + k) L z0) (nth k z z0)) (length mu)).
  Proof.
    intros Hd HL Hz. unfold mvn_sample. rewrite Hz. cbn [res_bind].
    apply sample_n_length in Hz.
    destruct (mat_vec_dot_spec L z (length mu) Hd HL Hz) as (lz & Hlz & Hlen & Hent). rewrite Hlz. cbn [bind].
    destruct (vec_add_spec mu lz ltac:(lia)) as (v & Hv & Hvl & Hve). rewrite Hv.
    exists v. split; [reflexivity|]. split; [assumption|]. intros i Hi. rewrite Hve, Hent by assumption. reflexivity.
  Qed.
  (** nothing else can come out: a failed or fuel-exhausted normal draw propagates *)
  Lemma mvn_sample_ok_inv fuel (mu L : list T) s v s' :
    mvn_sample O src fuel mu L s = Ok (v, s') ->
    exists z, sample_n O src fuel (DNormal z0 (one O)) (length mu) s = Ok (z, s').
  Proof.
    unfold mvn_sample. destruct (sample_n O src fuel (DNormal z0 (one O)) (length mu) s) as [[z s1]| |]; cbn [res_bind]; try discriminate.
    intros H. destruct (let* lz := _ in _); [|discriminate]. inversion H; subst. eexists; reflexivity.
  Qed.
  Lemma mvn_sample_length fuel (mu L : list T) s v s' :
    mvn_sample O src fuel mu L s = Ok (v, s') -> length v = length mu.
  Proof.
    unfold mvn_sample. destruct (sample_n O src fuel (DNormal z0 (one O)) (length mu) s) as [[z s1]| |]; cbn [res_bind]; try discriminate.
    destruct (mat_vec_dot O DotNN _ z) as [lz|]; cbn [bind]; [|discriminate].
    unfold vec_add. destruct (Nat.eqb_spec (length mu) (length lz)) as [E|E]; [|discriminate].
    intros H. inversion H; subst. rewrite map2_length. rewrite <- E. apply Nat.min_id.
  Qed.

  Lemma concat_length_const {A} (rows : list (list A)) d : Forall (fun r => length r = d) rows -> length (concat rows) = length rows * d.
  Proof. induction 1 as [|r rows Hr _ IH]; [reflexivity|]. cbn [concat length]. rewrite app_length, IH, Hr. lia. Qed.

  (** [DistributionND::sample_n(n)]: n rows of [dim] columns; and it is accepted whenever n, dim > 0 and the draws succeed *)
  Lemma mvn_sample_n_shape fuel (mu L : list T) n s m s' :
    mvn_sample_n O src fuel mu L n s = Ok (m, s') -> nr m = n /\ nc m = length mu /\ length (dat m) = n * length mu.
  Proof.
    unfold mvn_sample_n. destruct (draws (mvn_sample O src fuel mu L) n s) as [[rows s1]| |]; cbn [res_bind]; try discriminate.
    destruct (matrix_new (concat rows) n (length mu)) as [m1|] eqn:Em; [|discriminate]. intros H. inversion H; subst.
    apply (matrix_new_shape) in Em. destruct Em as (? & ? & Hd & ? & _). rewrite Hd. auto.
  Qed.
  Lemma mvn_sample_n_accepts fuel (mu L : list T) n s rows s' :
    0 < n -> 0 < length mu -> draws (mvn_sample O src fuel mu L) n s = Ok (rows, s') ->
    mvn_sample_n O src fuel mu L n s = Ok ({| nr := n; nc := length mu; dat := concat rows |}, s').
  Proof.
    intros Hn Hd H. unfold mvn_sample_n. rewrite H. cbn [res_bind]. unfold matrix_new.
    assert (Hl : length (concat rows) = n * length mu).
    { rewrite (concat_length_const rows (length mu)).
      - apply draws_length in H. rewrite H. reflexivity.
      - eapply draws_all; [|exact H]. intros s0 x s1 Hx. eapply mvn_sample_length; eassumption. }
    rewrite Hl, Nat.eqb_refl. destruct (Nat.ltb_spec 0 n); [|lia]. destruct (Nat.ltb_spec 0 (length mu)); [|lia]. reflexivity.
  Qed.
End MVN.
