(** Proofs for C04, part 9 (extension): the infinity norm on binary64.

    [inf_norm(x, nrows)] sums the absolute values of each row LEFT TO RIGHT from 0. and returns [max] of the row sums.
    [abs] and [max] are exact; the first addition 0 + |a_i0| of a row is exact; the remaining ncols - 1 additions
    are rounded.  Hence, for every matrix of finite doubles:
      - the result is never NaN and never negative: it is a finite non-negative double or +infinity (overflow);
      - when finite,  | inf_norm x - max_i Sigma_j |a_ij| |  <=  ((1 + 2^-53)^(ncols-1) - 1) * max_i Sigma_j |a_ij| ;
      - for a single column (the vector case, nrows = length x) NO rounding occurs: the result is finite and its real
        value IS the largest |x_i|. *)
From Coq Require Import List Arith Bool ZArith Reals Lra Lia Floats.
From Flocq Require Import Core Relative Plus_error BinarySingleNaN PrimFloat.
From Compute Require Import Base.Ops Base.ListMat Model.Reduce Model.Broadcast Model.Vops Spec.Vops
  Proofs.C04 Proofs.C04Ops Proofs.C04Red Proofs.C04Err Proofs.C04ErrF Proofs.C04ErrDot Proofs.C11_FloatBase.
Import ListNotations.
Local Open Scope R_scope.
Local Existing Instance Flocq.IEEE754.PrimFloat.Hprec.
Local Existing Instance Flocq.IEEE754.PrimFloat.Hmax.

(** ** binary64 facts: abs, +infinity, max *)
Definition pinf (x : pfloat) : Prop := Prim2B x = B754_infinity false.
(** finite and non-negative, or +infinity *)
Definition nn_or_inf (x : pfloat) : Prop := (finite x /\ 0 <= B2Rf x) \/ pinf x.

Lemma abs_F (x : pfloat) : finite x ->
  finite (PrimFloat.abs x) /\ B2Rf (PrimFloat.abs x) = Rabs (B2Rf x) /\ Bsign (Prim2B (PrimFloat.abs x)) = false.
Proof.
  unfold finite, B2Rf. rewrite abs_equiv. intros Fx.
  destruct (Prim2B x) as [s|s| |s m e He]; try discriminate Fx; cbn [Babs is_finite B2R Bsign].
  - rewrite Rabs_R0. auto.
  - split; [reflexivity|]. split; [|reflexivity].
    rewrite <- F2R_Zabs. cbn [Z.abs cond_Zopp]. destruct s; reflexivity.
Qed.

Lemma rnd64_nonneg' (r : R) : 0 <= r -> 0 <= rnd64 r.
Proof.
  intros H. unfold rnd64. apply round_ge_generic; [apply FLT_exp_valid; reflexivity|apply valid_rnd_N|apply generic_format_0|exact H].
Qed.

(** adding a finite double of sign + keeps "finite non-negative or +inf" *)
Lemma add_nn_or_inf (s a : pfloat) :
  nn_or_inf s -> finite a -> 0 <= B2Rf a -> Bsign (Prim2B a) = false -> nn_or_inf (s + a)%float.
Proof.
  unfold nn_or_inf, pinf, finite, B2Rf. rewrite add_equiv. intros [[Fs Hs]|Hs] Fa Ha Sa.
  - pose proof (Bplus_correct prec emax _ _ mode_NE (Prim2B s) (Prim2B a) Fs Fa) as HB.
    destruct (Rlt_bool _ _) in HB.
    + destruct HB as (HR & HF & _). left. split; [exact HF|]. rewrite HR. apply rnd64_nonneg'. lra.
    + destruct HB as (HS & Hsg). right. rewrite Sa in Hsg. rewrite Hsg in HS.
      destruct (Bplus mode_NE (Prim2B s) (Prim2B a)) as [s'|s'| |s' m' e' He']; cbn [B2SF] in HS;
        unfold binary_overflow in HS; cbn [overflow_to_inf] in HS; try discriminate HS.
      injection HS as ->. reflexivity.
  - right. rewrite Hs. destruct (Prim2B a) as [sa|sa| |sa ma ea Ha']; try discriminate Fa; reflexivity.
Qed.

Lemma B2Rf_finite_lt (x : pfloat) : Rabs (B2Rf x) < bpow radix2 emax.
Proof. unfold B2Rf. apply abs_B2R_lt_emax. Qed.

(** [0 + a] is exact *)
Lemma zero_add_F (a : pfloat) : finite a -> finite (0 + a)%float /\ B2Rf (0 + a)%float = B2Rf a.
Proof.
  intros Fa. unfold finite, B2Rf in *. rewrite add_equiv.
  assert (F0 : is_finite (Prim2B 0%float) = true) by reflexivity.
  pose proof (Bplus_correct prec emax _ _ mode_NE (Prim2B 0%float) (Prim2B a) F0 Fa) as HB.
  fold (B2Rf 0%float) in HB. rewrite B2Rf_zero, Rplus_0_l in HB.
  rewrite round_generic in HB by (try apply valid_rnd_N; apply generic_format_B2R).
  rewrite Rlt_bool_true in HB by apply abs_B2R_lt_emax.
  destruct HB as (HR & HF & _). split; [exact HF|exact HR].
Qed.

(** [f64::max] on finite-or-+inf operands *)
Lemma eqb_refl_nn (x : pfloat) : nn_or_inf x -> PrimFloat.eqb x x = true.
Proof.
  intros [[Fx _]|Hx]; rewrite eqb_equiv.
  - unfold finite in Fx. rewrite Beqb_correct by assumption. apply Req_bool_true. reflexivity.
  - unfold pinf in Hx. rewrite Hx. reflexivity.
Qed.

Lemma fmax_nn (tbl : libm_table) (a b : pfloat) :
  nn_or_inf a -> nn_or_inf b ->
  nn_or_inf (fmax (FO tbl) a b) /\ (fmax (FO tbl) a b = a \/ fmax (FO tbl) a b = b) /\
  (finite (fmax (FO tbl) a b) -> finite a /\ finite b /\ B2Rf a <= B2Rf (fmax (FO tbl) a b) /\ B2Rf b <= B2Rf (fmax (FO tbl) a b)).
Proof.
  intros Ha Hb. unfold fmax, is_nan. cbn [eqb ltb FO].
  rewrite (eqb_refl_nn a Ha), (eqb_refl_nn b Hb). cbn [negb].
  rewrite ltb_equiv.
  destruct Ha as [[Fa Ha]|Ia]; destruct Hb as [[Fb Hb]|Ib].
  - unfold finite in Fa, Fb. rewrite Bltb_correct by assumption. fold (B2Rf a) (B2Rf b).
    destruct (Rlt_bool_spec (B2Rf a) (B2Rf b)) as [Hlt|Hge].
    + split; [left; split; assumption|]. split; [right; reflexivity|]. intros _. repeat split; auto; lra.
    + split; [left; split; assumption|]. split; [left; reflexivity|]. intros _. repeat split; auto; lra.
  - assert (E : Bltb (Prim2B a) (Prim2B b) = true).
    { unfold pinf in Ib. rewrite Ib. unfold finite in Fa.
      destruct (Prim2B a) as [s|s| |s m e He]; try discriminate Fa; reflexivity. }
    rewrite E. split; [right; exact Ib|]. split; [right; reflexivity|].
    intros Fb. exfalso. unfold finite, pinf in *. rewrite Ib in Fb. discriminate Fb.
  - assert (E : Bltb (Prim2B a) (Prim2B b) = false).
    { unfold pinf in Ia. rewrite Ia. unfold finite in Fb.
      destruct (Prim2B b) as [s|s| |s m e He]; try discriminate Fb; reflexivity. }
    rewrite E. split; [right; exact Ia|]. split; [left; reflexivity|].
    intros Fa. exfalso. unfold finite, pinf in *. rewrite Ia in Fa. discriminate Fa.
  - assert (E : Bltb (Prim2B a) (Prim2B b) = false) by (unfold pinf in *; rewrite Ia, Ib; reflexivity).
    rewrite E. split; [right; exact Ia|]. split; [left; reflexivity|].
    intros Fa. exfalso. unfold finite, pinf in *. rewrite Ia in Fa. discriminate Fa.
Qed.

Lemma vmax_fold_nn (tbl : libm_table) (l : list pfloat) : forall x0,
  nn_or_inf x0 -> Forall nn_or_inf l ->
  nn_or_inf (fold_left (fmax (FO tbl)) l x0) /\ In (fold_left (fmax (FO tbl)) l x0) (x0 :: l) /\
  (finite (fold_left (fmax (FO tbl)) l x0) ->
   Forall finite (x0 :: l) /\ forall y, In y (x0 :: l) -> B2Rf y <= B2Rf (fold_left (fmax (FO tbl)) l x0)).
Proof.
  induction l as [|a l IH]; intros x0 H0 Hl.
  - cbn [fold_left]. split; [exact H0|]. split; [left; reflexivity|]. intros F. split; [constructor; [exact F|constructor]|].
    intros y [<-|[]]. lra.
  - inversion Hl as [|? ? Ha Hl']; subst. cbn [fold_left].
    destruct (fmax_nn tbl x0 a H0 Ha) as (Hm & Hor & Hfin).
    destruct (IH _ Hm Hl') as (Hr & Hin & Hf).
    split; [exact Hr|]. split.
    + destruct Hin as [E|Hin]; [|right; right; exact Hin]. rewrite <- E.
      destruct Hor as [->| ->]; [left; reflexivity|right; left; reflexivity].
    + intros F. destruct (Hf F) as (Fall & Hle). inversion Fall as [|? ? Fm Fl]; subst.
      destruct (Hfin Fm) as (F0 & Fa & L0 & La).
      split; [constructor; [exact F0|constructor; [exact Fa|exact Fl]]|].
      intros y [<-|[<-|Hy]].
      * specialize (Hle _ (or_introl eq_refl)). lra.
      * specialize (Hle _ (or_introl eq_refl)). lra.
      * apply Hle. right. exact Hy.
Qed.

(** ** one row: [s = 0.; s += |a_j|] *)
Lemma fold_abs_nn (tbl : libm_table) (row : list pfloat) : forall acc,
  Forall finite row -> nn_or_inf acc ->
  nn_or_inf (fold_left (add (FO tbl)) (map (abs (FO tbl)) row) acc).
Proof.
  induction row as [|a row IH]; intros acc Hr Hacc; cbn [map fold_left]; [exact Hacc|].
  inversion Hr as [|? ? Fa Hr']; subst. apply IH; [exact Hr'|].
  destruct (abs_F a Fa) as (F1 & V1 & S1). cbn [add abs FO].
  apply add_nn_or_inf; auto. rewrite V1. apply Rabs_pos.
Qed.

Lemma map_abs_B2Rf (row : list pfloat) :
  Forall finite row -> map B2Rf (map PrimFloat.abs row) = map Rabs (map B2Rf row).
Proof.
  induction 1 as [|a row Fa _ IH]; cbn [map]; [reflexivity|].
  rewrite IH. f_equal. apply (abs_F a Fa).
Qed.

Lemma Rabs_Rabs' (a : R) : Rabs (Rabs a) = Rabs a.
Proof. apply Rabs_pos_eq, Rabs_pos. Qed.

Lemma Asum_abs (l : list R) : Asum (map Rabs l) = Rsum (map Rabs l).
Proof. unfold Asum. rewrite map_map. f_equal. apply map_ext. intros a. apply Rabs_Rabs'. Qed.

Lemma Forall_F64_map (l : list pfloat) : Forall F64 (map B2Rf l).
Proof. apply Forall_forall. intros r Hr. apply in_map_iff in Hr. destruct Hr as (f & <- & _). apply F64_B2Rf. Qed.

Lemma rowsum_F (tbl : libm_table) (row : list pfloat) :
  Forall finite row ->
  let s := fold_left (add (FO tbl)) (map (abs (FO tbl)) row) (zero (FO tbl)) in
  nn_or_inf s /\
  (finite s ->
   Rabs (B2Rf s - Rsum (map Rabs (map B2Rf row))) <= E u64 (length row - 1) * Rsum (map Rabs (map B2Rf row))).
Proof.
  intros Hr s. split.
  - apply fold_abs_nn; [exact Hr|]. left. split; [reflexivity|]. cbn [zero FO]. rewrite B2Rf_zero. lra.
  - intros Fs. unfold s in *. clear s. destruct row as [|a row].
    + cbn [map fold_left zero FO length]. unfold Rsum. cbn [fold_right]. rewrite B2Rf_zero, Rminus_0_r, Rabs_R0. lra.
    + inversion Hr as [|? ? Fa Hr']; subst. cbn [map fold_left length zero FO abs add] in *.
      replace (S (length row) - 1)%nat with (length row) by lia.
      destruct (abs_F a Fa) as (F1 & V1 & _).
      destruct (zero_add_F _ F1) as (F2 & V2).
      destruct (fold_sim (FO tbl) (RndO rnd64) B2Rf finite) with (l := map PrimFloat.abs row) (s := (0 + PrimFloat.abs a)%float)
        as (_ & Hsim).
      { intros x y Hxy. cbn [add FO RndO] in *. apply fadd_finite. exact Hxy. }
      { exact Fs. }
      cbn [add FO] in Hsim. rewrite Hsim, V2, V1, (map_abs_B2Rf row Hr').
      set (a0 := Rabs (B2Rf a)).
      destruct (fold_err u64 u64_nonneg F64 rnd64 rnd64_model (map Rabs (map B2Rf row)) a0 a0 a0 0) as (_ & Hb).
      * unfold a0. rewrite <- V1. apply F64_B2Rf.
      * rewrite <- (map_abs_B2Rf row Hr'). apply Forall_F64_map.
      * unfold a0. rewrite Rabs_Rabs'. lra.
      * replace (a0 - a0) with 0 by ring. rewrite Rabs_R0. unfold E. simpl. unfold a0. pose proof (Rabs_pos (B2Rf a)). lra.
      * cbn [Nat.add] in Hb. rewrite Asum_abs in Hb.
        rewrite map_length, map_length in Hb. rewrite Rsum_cons. exact Hb.
Qed.

(** ** the free function [inf_norm] *)
Lemma is_matrix_ok (len nrows ncols : nat) :
  nrows <> 0%nat -> len = (nrows * ncols)%nat -> is_matrix len nrows = Some ncols.
Proof.
  intros Hn Hl. unfold is_matrix. destruct nrows as [|k]; [congruence|].
  assert (Hd : (len / S k = ncols)%nat) by (rewrite Hl, Nat.mul_comm; apply Nat.div_mul; lia).
  rewrite Hd. rewrite (proj2 (Nat.eqb_eq _ _)) by lia. reflexivity.
Qed.

Lemma Forall_firstn' {A} (P : A -> Prop) (n : nat) : forall l, Forall P l -> Forall P (firstn n l).
Proof.
  induction n as [|n IH]; intros l H; [constructor|]. destruct l as [|a l]; [constructor|].
  inversion H; subst. cbn [firstn]. constructor; auto.
Qed.
Lemma Forall_skipn' {A} (P : A -> Prop) (n : nat) : forall l, Forall P l -> Forall P (skipn n l).
Proof.
  induction n as [|n IH]; intros l H; [exact H|]. destruct l as [|a l]; [constructor|].
  inversion H; subst. cbn [skipn]. auto.
Qed.
Lemma Forall_row_of {A} (P : A -> Prop) (x : list A) (nc i : nat) : Forall P x -> Forall P (row_of x nc i).
Proof. intros H. unfold row_of. apply Forall_firstn', Forall_skipn', H. Qed.

Lemma skipn_map' {A B} (f : A -> B) (n : nat) : forall l, skipn n (map f l) = map f (skipn n l).
Proof. induction n as [|n IH]; intros l; [reflexivity|]. destruct l as [|a l]; [reflexivity|]. cbn [map skipn]. apply IH. Qed.
Lemma row_of_map {A B} (f : A -> B) (x : list A) (nc i : nat) : row_of (map f x) nc i = map f (row_of x nc i).
Proof. unfold row_of. rewrite skipn_map', firstn_map. reflexivity. Qed.

Lemma Rsum_abs_nonneg (l : list R) : 0 <= Rsum (map Rabs l).
Proof.
  induction l as [|a l IH]; [unfold Rsum; cbn; lra|]. cbn [map]. rewrite Rsum_cons. pose proof (Rabs_pos a). lra.
Qed.

(** [max] of computed row sums [rs i], each within relative error [e] of the exact non-negative [S i] *)
Lemma vmax_rows (tbl : libm_table) (rs : nat -> pfloat) (S : nat -> R) (e : R) (nrows : nat) :
  nrows <> 0%nat -> 0 <= e -> (forall i, 0 <= S i) ->
  (forall i, nn_or_inf (rs i) /\ (finite (rs i) -> Rabs (B2Rf (rs i) - S i) <= e * S i)) ->
  let r := vmax (FO tbl) (map rs (seq 0 nrows)) in
  (exists i, (i < nrows)%nat /\ r = rs i) /\
  nn_or_inf r /\
  (finite r -> forall M, is_max M (map S (seq 0 nrows)) -> Rabs (B2Rf r - M) <= e * M).
Proof.
  intros Hn He HS Hrs. destruct nrows as [|k]; [congruence|]. cbn [seq map vmax].
  destruct (vmax_fold_nn tbl (map rs (seq 1 k)) (rs 0%nat)) as (Hr & Hin & Hf).
  { apply Hrs. }
  { apply Forall_forall. intros y Hy. apply in_map_iff in Hy. destruct Hy as (i & <- & _). apply Hrs. }
  set (r := fold_left (fmax (FO tbl)) (map rs (seq 1 k)) (rs 0%nat)) in *.
  change (rs 0%nat :: map rs (seq 1 k)) with (map rs (seq 0 (Datatypes.S k))) in *.
  split.
  { apply in_map_iff in Hin. destruct Hin as (i & Ei & Hi). exists i. split; [apply in_seq in Hi; lia|].
    symmetry. exact Ei. }
  split; [exact Hr|].
  intros Fr M [HMin HMmax]. destruct (Hf Fr) as (Fall & Hle).
  change (S 0%nat :: map S (seq 1 k)) with (map S (seq 0 (Datatypes.S k))) in *.
  apply in_map_iff in Hin. destruct Hin as (i0 & Ei0 & Hi0).
  assert (Fi0 : finite (rs i0)) by (rewrite Ei0; exact Fr).
  pose proof (proj2 (Hrs i0) Fi0) as Bi0. rewrite Ei0 in Bi0.
  assert (Si0 : S i0 <= M) by (apply HMmax, in_map_iff; exists i0; auto).
  apply in_map_iff in HMin. destruct HMin as (j0 & Ej0 & Hj0).
  assert (Fj0 : finite (rs j0)).
  { revert Fall. rewrite Forall_forall. intros Fall. apply Fall, in_map_iff. exists j0. auto. }
  pose proof (proj2 (Hrs j0) Fj0) as Bj0. rewrite Ej0 in Bj0.
  assert (Lj0 : B2Rf (rs j0) <= B2Rf r) by (apply Hle, in_map_iff; exists j0; auto).
  assert (HM0 : 0 <= M) by (rewrite <- Ej0; apply HS).
  pose proof (HS i0) as HS0.
  apply Rabs_le_inv in Bi0. apply Rabs_le_inv in Bj0. apply Rabs_le. nra.
Qed.

Theorem inf_norm_F_error (tbl : libm_table) (x : list pfloat) (nrows ncols : nat) :
  nrows <> 0%nat -> length x = (nrows * ncols)%nat -> Forall finite x ->
  exists r, inf_norm (FO tbl) x nrows = Some r /\
    (exists i, (i < nrows)%nat /\
       r = fold_left (add (FO tbl)) (map (abs (FO tbl)) (row_of x ncols i)) (zero (FO tbl))) /\
    ((finite r /\ 0 <= B2Rf r) \/ Prim2B r = B754_infinity false) /\
    (finite r -> forall M, is_max M (abs_row_sums (map B2Rf x) nrows ncols) ->
       Rabs (B2Rf r - M) <= ((1 + / 2 ^ 53) ^ (ncols - 1) - 1) * M).
Proof.
  intros Hn Hl Hx. unfold inf_norm. rewrite (is_matrix_ok _ _ _ Hn Hl). cbn [bind].
  set (rs := fun i => fold_left (add (FO tbl)) (map (abs (FO tbl)) (row_of x ncols i)) (zero (FO tbl))).
  eexists. split; [reflexivity|].
  destruct (vmax_rows tbl rs (fun i => Rsum (map Rabs (row_of (map B2Rf x) ncols i))) (E u64 (ncols - 1)) nrows Hn)
    as (Hi & Hnn & Hb).
  - apply (E_nonneg u64 u64_nonneg).
  - intros i. apply Rsum_abs_nonneg.
  - intros i. destruct (rowsum_F tbl (row_of x ncols i) (Forall_row_of _ _ _ _ Hx)) as (H1 & H2).
    split; [exact H1|]. intros Fi. rewrite row_of_map. eapply Rle_trans; [apply (H2 Fi)|].
    apply Rmult_le_compat_r; [apply Rsum_abs_nonneg|].
    apply (E_mono u64 u64_nonneg). unfold row_of. pose proof (firstn_le_length ncols (skipn (i * ncols) x)). lia.
  - split; [exact Hi|]. split; [exact Hnn|]. intros Fr M HM. rewrite <- u64_val. apply (Hb Fr M HM).
Qed.

(** ** a single column (the vector case): no rounding at all *)
Lemma col_rows {A B} (g : list A -> B) (y : list A) :
  map (fun i => g (row_of y 1 i)) (seq 0 (length y)) = map (fun a => g [a]) y.
Proof.
  induction y as [|a y IH]; [reflexivity|].
  cbn [length seq map]. f_equal. rewrite <- seq_shift, map_map. rewrite <- IH.
  apply map_ext. intros j. unfold row_of. cbn [Nat.mul Nat.add skipn]. reflexivity.
Qed.

Theorem inf_norm_F_exact (tbl : libm_table) (x : list pfloat) :
  x <> [] -> Forall finite x ->
  exists r, inf_norm (FO tbl) x (length x) = Some r /\ finite r /\
    is_max (B2Rf r) (map (fun a => Rabs (B2Rf a)) x).
Proof.
  intros Hne Hx.
  assert (Hn : length x <> 0%nat) by (destruct x; [congruence|discriminate]).
  destruct (inf_norm_F_error tbl x (length x) 1 Hn ltac:(lia) Hx) as (r & Er & (i & Hi & Ei) & _ & Hb).
  exists r. split; [exact Er|].
  (* r = 0 + |x_i| *)
  assert (Hrow : exists a, In a x /\ row_of x 1 i = [a]).
  { clear - Hi. revert i Hi. induction x as [|a x IH]; intros i Hi; [cbn in Hi; lia|].
    destruct i as [|j].
    - exists a. split; [left; reflexivity|reflexivity].
    - destruct (IH j ltac:(cbn [length] in Hi; lia)) as (b & Hb & Eb). exists b. split; [right; exact Hb|].
      unfold row_of in *. cbn [Nat.mul Nat.add skipn]. exact Eb. }
  destruct Hrow as (a & Ha & Erow). rewrite Erow in Ei. cbn [map fold_left zero FO abs add] in Ei.
  assert (Fa : finite a) by (apply (proj1 (Forall_forall finite x) Hx); exact Ha).
  destruct (abs_F a Fa) as (F1 & V1 & _). destruct (zero_add_F _ F1) as (F2 & V2).
  assert (Fr : finite r) by (rewrite Ei; exact F2).
  split; [exact Fr|].
  (* the exact maximum exists and the computed value equals it *)
  set (S := abs_row_sums (map B2Rf x) (length x) 1).
  assert (HS : S = map (fun a => Rabs a + 0) (map B2Rf x)).
  { unfold S, abs_row_sums. rewrite <- (map_length B2Rf x) at 1.
    rewrite (col_rows (fun l => Rsum (map Rabs l))). reflexivity. }
  assert (HSne : S <> []) by (rewrite HS; destruct x; [congruence|discriminate]).
  destruct (vmax_R S HSne) as [Hin Hge]. set (M := vmax RO S) in *.
  specialize (Hb Fr M (conj Hin Hge)). cbn [Nat.sub pow] in Hb.
  replace (1 - 1) with 0 in Hb by ring. rewrite Rmult_0_l in Hb.
  assert (EM : B2Rf r = M).
  { pose proof (Rabs_pos (B2Rf r - M)). assert (Rabs (B2Rf r - M) = 0) by lra.
    apply Rminus_diag_uniq. destruct (Req_dec (B2Rf r - M) 0) as [E0|E0]; [exact E0|].
    apply Rabs_no_R0 in E0. congruence. }
  rewrite EM. rewrite HS in Hin, Hge. rewrite map_map in Hin, Hge.
  assert (Hext : map (fun a0 => Rabs (B2Rf a0) + 0) x = map (fun a0 => Rabs (B2Rf a0)) x)
    by (apply map_ext; intros; lra).
  rewrite Hext in Hin, Hge. split; assumption.
Qed.

(** ** [Matrix::inf_norm] = [self.abs().sum_rows().max()]: the 8-way unrolled [sum] on each row of |a_ij| *)
Definition nns (x : pfloat) : Prop := (finite x /\ Bsign (Prim2B x) = false) \/ pinf x.

Lemma nns_nn (x : pfloat) : nns x -> nn_or_inf x.
Proof.
  intros [[F S]|I]; [left|right; exact I]. split; [exact F|].
  unfold finite, B2Rf in *. destruct (Prim2B x) as [s|s| |s m e He]; try discriminate F; cbn [B2R Bsign] in *; [lra|].
  subst s. apply F2R_ge_0. cbn [Fnum cond_Zopp]. lia.
Qed.

Lemma add_nns (s a : pfloat) : nns s -> nns a -> nns (s + a)%float.
Proof.
  unfold nns, pinf, finite. rewrite add_equiv. intros [[Fs Ss]|Is] [[Fa Sa]|Ia].
  - pose proof (Bplus_correct prec emax _ _ mode_NE (Prim2B s) (Prim2B a) Fs Fa) as HB.
    destruct (Rlt_bool _ _) in HB.
    + destruct HB as (_ & HF & HS). left. split; [exact HF|]. rewrite HS, Ss, Sa.
      assert (0 <= B2R (Prim2B s) + B2R (Prim2B a)).
      { pose proof (nns_nn s (or_introl (conj Fs Ss))) as [[_ H1]|H1]; [|unfold pinf in H1; rewrite H1 in Fs; discriminate].
        pose proof (nns_nn a (or_introl (conj Fa Sa))) as [[_ H2]|H2]; [|unfold pinf in H2; rewrite H2 in Fa; discriminate].
        unfold B2Rf in *. lra. }
      destruct (Rcompare_spec (B2R (Prim2B s) + B2R (Prim2B a)) 0); [lra|reflexivity|reflexivity].
    + destruct HB as (HS & _). right. rewrite Ss in HS.
      destruct (Bplus mode_NE (Prim2B s) (Prim2B a)) as [s'|s'| |s' m' e' He']; cbn [B2SF] in HS;
        unfold binary_overflow in HS; cbn [overflow_to_inf] in HS; try discriminate HS.
      injection HS as ->. reflexivity.
  - right. rewrite Ia. destruct (Prim2B s) as [ss|ss| |ss ms es Hs]; try discriminate Fs; reflexivity.
  - right. rewrite Is. destruct (Prim2B a) as [sa|sa| |sa ma ea Ha']; try discriminate Fa; reflexivity.
  - right. rewrite Is, Ia. reflexivity.
Qed.

Lemma fold_nns (tbl : libm_table) (l : list pfloat) : forall acc,
  nns acc -> Forall nns l -> nns (fold_left (add (FO tbl)) l acc).
Proof.
  induction l as [|a l IH]; intros acc Hacc Hl; cbn [fold_left]; [exact Hacc|].
  inversion Hl; subst. apply IH; [|assumption]. cbn [add FO]. apply add_nns; assumption.
Qed.

Lemma sum8_nns (tbl : libm_table) fuel : forall (x : list pfloat) (s : pfloat),
  nns s -> Forall nns x -> nns (sum8 (FO tbl) fuel s x).
Proof.
  induction fuel as [|fuel IH]; intros x s Hs Hx; [exact Hs|].
  destruct x as [|x0 [|x1 [|x2 [|x3 [|x4 [|x5 [|x6 [|x7 x']]]]]]]];
    try (cbn [sum8]; apply fold_nns; assumption).
  cbn [sum8].
  repeat match goal with H : Forall nns (_ :: _) |- _ => inversion H; clear H; subst end.
  apply IH; [|assumption]. cbn [add FO]. repeat apply add_nns; assumption.
Qed.

Lemma sum_abs_nns (tbl : libm_table) (row : list pfloat) :
  Forall finite row -> nns (Reduce.sum (FO tbl) (map PrimFloat.abs row)).
Proof.
  intros Hr. unfold Reduce.sum. apply sum8_nns.
  - left. split; reflexivity.
  - apply Forall_forall. intros a Ha. apply in_map_iff in Ha. destruct Ha as (b & <- & Hb).
    left. assert (Fb : finite b) by (apply (proj1 (Forall_forall finite row) Hr); exact Hb).
    destruct (abs_F b Fb) as (F1 & _ & S1). split; assumption.
Qed.

Theorem mat_inf_norm_F_error (tbl : libm_table) (m : mat pfloat) :
  wf_mat m -> Forall finite (dat m) ->
  exists r, mat_inf_norm (FO tbl) m = Some r /\
    ((finite r /\ 0 <= B2Rf r) \/ Prim2B r = B754_infinity false) /\
    (finite r -> forall M, is_max M (abs_row_sums (map B2Rf (dat m)) (nr m) (nc m)) ->
       Rabs (B2Rf r - M) <= ((1 + / 2 ^ 53) ^ nc m - 1) * M).
Proof.
  intros Hwf Hx. unfold mat_inf_norm. rewrite (mat_map_wf (FO tbl) UAbs m Hwf). cbn [bind nr nc dat umap_fn abs FO].
  destruct Hwf as (Hr & Hc & Hl).
  set (rs := fun i => Reduce.sum (FO tbl) (row_of (map PrimFloat.abs (dat m)) (nc m) i)).
  eexists. split; [reflexivity|].
  destruct (vmax_rows tbl rs (fun i => Rsum (map Rabs (row_of (map B2Rf (dat m)) (nc m) i))) (E u64 (nc m)) (nr m))
    as (_ & Hnn & Hb).
  - lia.
  - apply (E_nonneg u64 u64_nonneg).
  - intros i. rewrite row_of_map. apply Rsum_abs_nonneg.
  - intros i. unfold rs. rewrite row_of_map.
    pose proof (Forall_row_of finite (dat m) (nc m) i Hx) as Hrow.
    split; [apply nns_nn, sum_abs_nns; exact Hrow|].
    intros Fi. pose proof (sum_F_error tbl _ Fi) as Hs.
    rewrite (map_abs_B2Rf _ Hrow) in Hs. rewrite <- u64_val in Hs. fold (E u64 (length (map PrimFloat.abs (row_of (dat m) (nc m) i)))) in Hs.
    rewrite row_of_map.
    assert (Hid : map Rabs (map Rabs (map B2Rf (row_of (dat m) (nc m) i))) = map Rabs (map B2Rf (row_of (dat m) (nc m) i))).
    { rewrite map_map. apply map_ext. intros a. apply Rabs_Rabs'. }
    rewrite Hid in Hs. eapply Rle_trans; [exact Hs|].
    apply Rmult_le_compat_r; [apply Rsum_abs_nonneg|].
    apply (E_mono u64 u64_nonneg). rewrite map_length. unfold row_of.
    pose proof (firstn_le_length (nc m) (skipn (i * nc m) (dat m))). lia.
  - split; [exact Hnn|]. intros Fr M HM. rewrite <- u64_val. apply (Hb Fr M HM).
Qed.

(** the hypotheses are satisfiable: a 2 x 3 matrix of finite doubles with a finite norm, and an overflowing one *)
Lemma inf_norm_example :
  let x := [1; -2; 0x1.999999999999ap-4; -4; 5; 0x1p-1074]%float in
  Forall finite x /\ length x = (2 * 3)%nat /\
  (exists r, inf_norm FO0 x 2 = Some r /\ finite r) /\
  inf_norm FO0 [0x1.fffffffffffffp+1023; (-0x1.fffffffffffffp+1023)]%float 1 = Some infinity.
Proof.
  cbv zeta. split; [repeat constructor|]. split; [reflexivity|]. split.
  - eexists. split; [vm_compute; reflexivity|]. vm_compute. reflexivity.
  - vm_compute. reflexivity.
Qed.
