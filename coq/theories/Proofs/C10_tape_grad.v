(** * C10 (tape, part 3) — [tape_grad] returns the gradient of the denotation.

    [tape_grad_sound]: for every covered program and every point at which it is smooth,
    [f(&params).grad().wrt(&params)] on the reals returns a vector of the parameters' length whose
    [i]-th entry is the partial derivative of the denotation along coordinate [i] (Coquelicot's
    [is_derive] of [t |-> den e (upd xs i t)]).  [tape_cdiv_wrong]: the excluded node kind
    ([f64 / Var]) records [-1/x] where the derivative is [-c/x^2]. *)
From Coq Require Import List Arith ZArith Bool Lia Reals Lra.
From Coquelicot Require Import Coquelicot.
From Compute Require Import Base.Ops Base.ListMat Base.Tape Spec.Autodiff Proofs.C10_tape Proofs.C10_tape_den.
Import ListNotations.
Local Open Scope R_scope.

(** ** lists *)
Lemma upd_length {A} (l : list A) i v : length (upd l i v) = length l.
Proof. revert i; induction l as [|a l IH]; intros [|i]; cbn [upd length]; auto. Qed.
Lemma upd_same (l : list R) i : upd l i (nth i l 0) = l.
Proof. revert i; induction l as [|a l IH]; intros [|i]; cbn [upd nth]; auto. f_equal. apply IH. Qed.
Lemma nth_upd_eq (l : list R) i v d : (i < length l)%nat -> nth i (upd l i v) d = v.
Proof. revert i; induction l as [|a l IH]; intros [|i]; cbn [upd nth length]; intros; try lia; auto. apply IH. lia. Qed.
Lemma nth_upd_ne (l : list R) i j v d : j <> i -> nth j (upd l i v) d = nth j l d.
Proof.
  revert i j; induction l as [|a l IH]; intros [|i] [|j]; cbn [upd nth]; intros; try lia; auto.
Qed.
Lemma nth_map_lt {A B} (f : A -> B) l i d d' : (i < length l)%nat -> nth i (map f l) d' = f (nth i l d).
Proof. revert i; induction l as [|a l IH]; intros [|i]; cbn [map nth length]; intros; try lia; auto. apply IH. lia. Qed.
Lemma nth_error_combine_seq (xs : list R) : forall t j pv,
  nth_error (combine xs (seq t (length xs))) j = Some pv -> (j < length xs)%nat /\ pv = (nth j xs 0, (t + j)%nat).
Proof.
  induction xs as [|x xs IH]; intros t j pv; cbn [length seq combine].
  - destruct j; discriminate.
  - destruct j as [|j]; cbn [nth_error nth].
    + intros [= <-]. split; [lia|]. rewrite Nat.add_0_r. reflexivity.
    + intros H. destruct (IH _ _ _ H) as [H1 ->]. split; [lia|]. f_equal. lia.
Qed.
Lemma nth_combine_seq (xs : list R) t j : (j < length xs)%nat ->
  nth j (combine xs (seq t (length xs))) (0, 0%nat) = (nth j xs 0, (t + j)%nat).
Proof.
  revert t j; induction xs as [|x xs IH]; intros t [|j]; cbn [length seq combine nth]; intros; try lia.
  - rewrite Nat.add_0_r. reflexivity.
  - rewrite IH by lia. f_equal. lia.
Qed.

(** ** the leaves pushed by [add_vars] *)
Fixpoint all_leaf (nds : list rnode) : Prop :=
  match nds with
  | [] => True
  | nd :: nds' => (nd1 nd = length nds' /\ nd2 nd = length nds' /\ nw1 nd = 0 /\ nw2 nd = 0) /\ all_leaf nds'
  end.
Lemma all_leaf_wf nds : all_leaf nds -> nodes_wf nds.
Proof. induction nds as [|nd nds IH]; cbn; [auto|]. intros [H1 H2]. split; [left; exact H1|auto]. Qed.
Lemma tanf_leaf nds k j : all_leaf nds -> (j < length nds)%nat -> tanf nds k j = if (j =? k)%nat then 1 else 0.
Proof.
  induction nds as [|nd nds IH]; cbn [all_leaf length tanf]; intros Hl Hj; [lia|].
  destruct Hl as [(H1 & _) Hl].
  destruct (Nat.eqb_spec j (length nds)) as [->|Hne].
  - rewrite H1, Nat.eqb_refl. destruct (length nds =? k)%nat; reflexivity.
  - apply IH; [exact Hl|lia].
Qed.

Lemma add_vars_spec : forall (xs : list R) (tp : rtape),
  tlen tp = length (nodes tp) -> all_leaf (nodes tp) ->
  fst (add_vars RO tp xs) = combine xs (seq (tlen tp) (length xs)) /\
  tlen (snd (add_vars RO tp xs)) = length (nodes (snd (add_vars RO tp xs))) /\
  all_leaf (nodes (snd (add_vars RO tp xs))) /\
  tlen (snd (add_vars RO tp xs)) = (tlen tp + length xs)%nat.
Proof.
  induction xs as [|x xs IH]; intros tp L A.
  - cbn. repeat split; auto; lia.
  - cbn [add_vars]. unfold add_var, push.
    set (tp1 := mkTape (mkNode (zero RO) (zero RO) (tlen tp) (tlen tp) :: nodes tp) (S (tlen tp))).
    destruct (IH tp1) as (H1 & H2 & H3 & H4).
    + cbn. rewrite L. reflexivity.
    + cbn [tp1 nodes all_leaf nd1 nd2 nw1 nw2]. rewrite L. repeat split; auto.
    + destruct (add_vars RO tp1 xs) as [vs tp2]. cbn [fst snd] in *.
      split; [|split; [exact H2|split; [exact H3|]]].
      * cbn [length seq combine]. rewrite H1. reflexivity.
      * rewrite H4. cbn [tp1 tlen length]. lia.
Qed.

(** ** the gradient *)
Theorem tape_grad_sound (e : expr R) (data : list (list R)) (xs : list R) :
  covered e -> smooth_at e data xs [] ->
  exists g, tape_grad RO e data xs = Some g /\ length g = length xs /\
    forall i, (i < length xs)%nat ->
      is_derive (fun t => den e data (upd xs i t) []) (nth i xs 0) (nth i g 0).
Proof.
  intros Hc Hs. unfold tape_grad.
  destruct (add_vars_spec xs empty_tape eq_refl I) as (Hps & HL & HA & Hn).
  destruct (add_vars RO empty_tape xs) as [ps tp]. cbn [fst snd tlen empty_tape] in *.
  cbn [Nat.add] in Hn.
  assert (W : tape_wf tp) by (split; [exact HL|apply all_leaf_wf; exact HA]).
  assert (Hnodes : length (nodes tp) = length xs) by lia.
  (* existence (no derivative claim: base = 0) *)
  destruct (eval_sound data 0 0 0 e Hc ps [] tp (fun _ => xs) (fun _ => []) W ltac:(lia))
    as (r & tp' & Ee & T & Hr).
  { split; [rewrite Hps; unfold var; rewrite combine_length, seq_length; lia|].
    intros j pv Hj. rewrite Hps in Hj. destruct (nth_error_combine_seq _ _ _ _ Hj) as [Hlt ->].
    split; [cbn [snd]; lia|]. split; [reflexivity|]. intros; lia. }
  { split; [reflexivity|]. intros [|j] pv Hj; discriminate. }
  { exact Hs. }
  rewrite Ee. cbn [bind]. eexists. split; [reflexivity|].
  assert (Lps : length ps = length xs) by (rewrite Hps; unfold var; rewrite combine_length, seq_length; lia).
  split; [unfold wrt; rewrite map_length; exact Lps|].
  intros i Hi.
  destruct (eval_sound data i (length xs) (nth i xs 0) e Hc ps [] tp (fun s => upd xs i s) (fun _ => []) W ltac:(lia))
    as (r' & tp'' & Ee' & T' & Hr').
  { split; [rewrite upd_length; exact Lps|].
    intros j pv Hj. rewrite Hps in Hj. destruct (nth_error_combine_seq _ _ _ _ Hj) as [Hlt ->].
    cbn [Nat.add]. split; [cbn [snd]; lia|]. split; [cbn [fst]; rewrite upd_same; reflexivity|].
    intros _. cbn [snd]. rewrite tanf_leaf by (auto; lia).
    destruct (Nat.eqb_spec j i) as [->|Hne].
    - eapply is_derive_ext; [intros t; symmetry; apply nth_upd_eq; exact Hi|]. apply @is_derive_id.
    - eapply is_derive_ext; [intros t; symmetry; apply nth_upd_ne; exact Hne|]. apply @is_derive_const. }
  { split; [reflexivity|]. intros [|j] pv Hj; discriminate. }
  { rewrite upd_same. exact Hs. }
  rewrite Ee in Ee'. injection Ee' as <- <-.
  destruct Hr' as (Hlt & _ & Hd). specialize (Hd Hi).
  unfold wrt. rewrite (nth_map_lt _ ps i (0, 0%nat)) by lia.
  rewrite Hps, nth_combine_seq by exact Hi. cbn [snd Nat.add zero RO].
  rewrite grad_adjoint; [exact Hd|exact (proj1 T)|].
  pose proof (text_tlen _ _ W T). lia.
Qed.

(** the value computed along the way is the denotation *)
Theorem tape_val_sound (e : expr R) (data : list (list R)) (xs : list R) :
  covered e -> smooth_at e data xs [] -> tape_val RO e data xs = Some (den e data xs []).
Proof.
  intros Hc Hs. unfold tape_val.
  destruct (add_vars_spec xs empty_tape eq_refl I) as (Hps & HL & HA & Hn).
  destruct (add_vars RO empty_tape xs) as [ps tp]. cbn [fst snd tlen empty_tape] in *.
  assert (W : tape_wf tp) by (split; [exact HL|apply all_leaf_wf; exact HA]).
  destruct (eval_sound data 0 0 0 e Hc ps [] tp (fun _ => xs) (fun _ => []) W ltac:(lia))
    as (r & tp' & Ee & T & Hr).
  { split; [rewrite Hps; unfold var; rewrite combine_length, seq_length; lia|].
    intros j pv Hj. rewrite Hps in Hj. destruct (nth_error_combine_seq _ _ _ _ Hj) as [Hlt ->].
    split; [cbn [snd]; lia|]. split; [reflexivity|]. intros; lia. }
  { split; [reflexivity|]. intros [|j] pv Hj; discriminate. }
  { exact Hs. }
  rewrite Ee. cbn [bind]. destruct Hr as (_ & -> & _). reflexivity.
Qed.

(** ** the excluded node kind: [c / x] records the weight [-1/x]; the derivative is [-c/x^2] *)
Theorem tape_cdiv_wrong (c x : R) : x <> 0 ->
  tape_grad RO (ECDiv (CLit c) (EPar 0)) [] [x] = Some [- (1) / x] /\
  is_derive (fun t => den (ECDiv (CLit c) (EPar 0)) [] (upd [x] 0 t) []) x (- c / (x * x)) /\
  (c <> x -> ~ is_derive (fun t => den (ECDiv (CLit c) (EPar 0)) [] (upd [x] 0 t) []) x (- (1) / x)).
Proof.
  intros Hx.
  assert (D : is_derive (fun t => den (ECDiv (CLit c) (EPar 0)) [] (upd [x] 0 t) []) x (- c / (x * x))).
  { cbn [den upd nth cden cval]. auto_derive; [exact Hx|]. field. exact Hx. }
  split; [|split; [exact D|]].
  - unfold tape_grad. cbn. f_equal. f_equal. unfold Rdiv. ring.
  - intros Hne Hd. apply is_derive_unique in D. apply is_derive_unique in Hd. rewrite D in Hd.
    apply Hne. replace c with (- (- c / (x * x)) * (x * x)) by (field; exact Hx). rewrite Hd. field. exact Hx.
Qed.
