(** Proofs for C11 (extension), floating point, part 5: the [Matrix] forms of the triangular solves.  They check that
    the receiver is triangular ([== 0.] on the other triangle, which on binary64 means the entry is +0 or -0), so the
    backward-error statements hold for them with the matrix itself and without a triangularity hypothesis. *)
From Coq Require Import List Arith Bool ZArith Reals Lra Lia Floats.
From Flocq Require Import Core BinarySingleNaN PrimFloat.
From Compute Require Import Base.Ops Base.ListMat Model.Reduce Model.MatMul Model.Subst Model.LU Spec.Vops Spec.Factor
  Proofs.C04Red Proofs.C04Err Proofs.C04ErrF Proofs.C04ErrDot Proofs.C04ErrNP Proofs.C05 Proofs.LinAlgBase Proofs.C11_Subst
  Proofs.C11_Det Proofs.C11_Forms Proofs.C11_FloatBase Proofs.C11_FloatSubst Proofs.C11_FloatPert.
Import ListNotations.
Local Open Scope R_scope.

(** [x == 0.] on binary64: the real value is 0 *)
Lemma feqb_zero (x : pfloat) : PrimFloat.eqb x 0%float = true -> B2Rf x = 0.
Proof.
  unfold B2Rf. rewrite eqb_equiv.
  assert (H0 : Prim2B 0%float = B754_zero false) by (apply B2SF_inj; rewrite B2SF_Prim2B; reflexivity).
  rewrite H0. destruct (Prim2B x) as [s|s| |s m e Hb]; cbn; try reflexivity; try discriminate.
  destruct s; discriminate.
Qed.

Lemma lower_guard_triangular (tbl : libm_table) (l : list pfloat) (n : nat) :
  is_lower_triangular_rows (FO tbl) (unflatten l n n) n n = true -> lower_triangular (map B2Rf l) n.
Proof.
  intros H i j Hi Hj Hij. unfold getm. rewrite nth_map_B2Rf. apply feqb_zero.
  unfold is_lower_triangular_rows in H. rewrite forallb_forall in H.
  specialize (H i ltac:(apply in_seq; lia)). rewrite forallb_forall in H.
  specialize (H j ltac:(apply in_seq; lia)). rewrite ent_unflatten in H by assumption. exact H.
Qed.

Lemma upper_guard_triangular (tbl : libm_table) (u : list pfloat) (n : nat) :
  is_upper_triangular_rows (FO tbl) (unflatten u n n) n = true -> upper_triangular (map B2Rf u) n.
Proof.
  intros H i j Hi Hj Hij. unfold getm. rewrite nth_map_B2Rf. apply feqb_zero.
  unfold is_upper_triangular_rows in H. rewrite forallb_forall in H.
  specialize (H i ltac:(apply in_seq; lia)). rewrite forallb_forall in H.
  specialize (H j ltac:(apply in_seq; lia)). rewrite ent_unflatten in H by assumption. exact H.
Qed.

Lemma matrix_fwd_guards (tbl : libm_table) (m : matrix (T:=pfloat)) b x :
  matrix_forward_substitution (FO tbl) m b = Some x ->
  forward_substitution (FO tbl) (dat m) b = Some x /\ (nr m * nr m)%nat = length (dat m) /\
  lower_triangular (map B2Rf (dat m)) (nr m).
Proof.
  intros H. split; [apply matrix_fwd_eq_slice; exact H|].
  unfold matrix_forward_substitution in H.
  destruct (well_formed m && (nr m =? nc m)) eqn:Hg; cbn [guard bind] in H; [|discriminate].
  destruct (square_guard m Hg) as (Hsq & Hs & Hrows).
  split; [apply is_square_some in Hs; exact Hs|].
  destruct (is_lower_triangular_rows (FO tbl) (mrows m) (nr m) (nc m)) eqn:Ht; cbn [guard bind] in H; [|discriminate].
  rewrite Hrows, <- Hsq in Ht. apply (lower_guard_triangular tbl _ _ Ht).
Qed.

Lemma matrix_bwd_guards (tbl : libm_table) (m : matrix (T:=pfloat)) b x :
  matrix_backward_substitution (FO tbl) m b = Some x ->
  backward_substitution (FO tbl) (dat m) b = Some x /\ (nr m * nr m)%nat = length (dat m) /\
  upper_triangular (map B2Rf (dat m)) (nr m).
Proof.
  intros H. split; [apply matrix_bwd_eq_slice; exact H|].
  unfold matrix_backward_substitution in H.
  destruct (well_formed m && (nr m =? nc m)) eqn:Hg; cbn [guard bind] in H; [|discriminate].
  destruct (square_guard m Hg) as (Hsq & Hs & Hrows).
  split; [apply is_square_some in Hs; exact Hs|].
  destruct (is_upper_triangular_rows (FO tbl) (mrows m) (nr m)) eqn:Ht; cbn [guard bind] in H; [|discriminate].
  rewrite Hrows in Ht. apply (upper_guard_triangular tbl _ _ Ht).
Qed.

Lemma matrix_forward_substitution_backward_error (tbl : libm_table) (m : matrix (T:=pfloat)) (b x : list pfloat) :
  matrix_forward_substitution (FO tbl) m b = Some x ->
  let n := nr m in let l := dat m in
  (forall i, (i < n)%nat -> finite (nth (i * n + i) l 0%float) /\ B2Rf (nth (i * n + i) l 0%float) <> 0) ->
  Forall finite x ->
  (forall i j, (i < n)%nat -> (j < i)%nat ->
     B2Rf (nth (i * n + j) l 0%float) * B2Rf (nth j x 0%float) = 0 \/
     / 2 ^ 1022 <= Rabs (B2Rf (nth (i * n + j) l 0%float) * B2Rf (nth j x 0%float))) ->
  (forall i, (i < n)%nat ->
     let s := (nth i b 0 - dot_raw (FO tbl) (firstn i (skipn (i * n) l)) (firstn i x))%float in
     B2Rf s / B2Rf (nth (i * n + i) l 0%float) = 0 \/ / 2 ^ 1022 <= Rabs (B2Rf s / B2Rf (nth (i * n + i) l 0%float))) ->
  let T := map B2Rf l in let B := map B2Rf b in let X := map B2Rf x in
  let gamma := (1 + / 2 ^ 53) ^ n - 1 in
  (forall i, (i < n)%nat ->
     Rabs (nth i B 0 - mvec T n X i) <= gamma * rsum (fun k => Rabs (getm T n i k) * Rabs (nth k X 0)) n) /\
  exists T' : list R,
    length T' = (n * n)%nat /\ lower_triangular T' n /\
    (forall i j, (i < n)%nat -> (j < n)%nat -> Rabs (getm T' n i j - getm T n i j) <= gamma * Rabs (getm T n i j)) /\
    (forall i, (i < n)%nat -> mvec T' n X i = nth i B 0).
Proof.
  intros H n l. destruct (matrix_fwd_guards tbl m b x H) as (Hrun & Hn & Htri).
  apply (forward_substitution_backward_error_triangular tbl l b x n Hrun Hn Htri).
Qed.

Lemma matrix_backward_substitution_backward_error (tbl : libm_table) (m : matrix (T:=pfloat)) (b x : list pfloat) :
  matrix_backward_substitution (FO tbl) m b = Some x ->
  let n := nr m in let u := dat m in
  (forall i, (i < n)%nat -> finite (nth (i * n + i) u 0%float) /\ B2Rf (nth (i * n + i) u 0%float) <> 0) ->
  Forall finite x ->
  (forall i j, (i < j)%nat -> (j < n)%nat ->
     B2Rf (nth (i * n + j) u 0%float) * B2Rf (nth j x 0%float) = 0 \/
     / 2 ^ 1022 <= Rabs (B2Rf (nth (i * n + j) u 0%float) * B2Rf (nth j x 0%float))) ->
  (forall i, (i < n)%nat ->
     let s := (nth i b 0 - dot_raw (FO tbl) (firstn (n - S i) (skipn (i * n + S i) u)) (skipn (S i) x))%float in
     B2Rf s / B2Rf (nth (i * n + i) u 0%float) = 0 \/ / 2 ^ 1022 <= Rabs (B2Rf s / B2Rf (nth (i * n + i) u 0%float))) ->
  let T := map B2Rf u in let B := map B2Rf b in let X := map B2Rf x in
  let gamma := (1 + / 2 ^ 53) ^ n - 1 in
  (forall i, (i < n)%nat ->
     Rabs (nth i B 0 - mvec T n X i) <= gamma * rsum (fun k => Rabs (getm T n i k) * Rabs (nth k X 0)) n) /\
  exists T' : list R,
    length T' = (n * n)%nat /\ upper_triangular T' n /\
    (forall i j, (i < n)%nat -> (j < n)%nat -> Rabs (getm T' n i j - getm T n i j) <= gamma * Rabs (getm T n i j)) /\
    (forall i, (i < n)%nat -> mvec T' n X i = nth i B 0).
Proof.
  intros H n u. destruct (matrix_bwd_guards tbl m b x H) as (Hrun & Hn & Htri).
  apply (backward_substitution_backward_error_triangular tbl u b x n Hrun Hn Htri).
Qed.
