(** Proofs for C04, part 1: the unrolled kernels are point-wise maps, for every length and every carrier.
    Statements are pinned in Properties/C04.v. *)
From Coq Require Import String.
From Coq Require Import List Arith Bool ZArith Lia.
From Compute Require Import Base.Ops Base.ListMat Model.Reduce Model.Broadcast Model.Vops.
Import ListNotations.

(** the part of a length covered by the chunk loop: [chunks * 8 = n - n % 8] *)
Definition chunked (n : nat) : nat := n - n mod 8.

Lemma chunked_lt8 n : n < 8 -> chunked n = 0.
Proof. intros H. unfold chunked. rewrite Nat.mod_small by exact H. lia. Qed.

Lemma chunked_add8 n : chunked (8 + n) = 8 + chunked n.
Proof.
  unfold chunked.
  assert (H : (8 + n) mod 8 = n mod 8).
  { rewrite Nat.add_comm. exact (Nat.mod_add n 1 8 ltac:(lia)). }
  rewrite H. pose proof (Nat.mod_le n 8 ltac:(lia)). lia.
Qed.

Lemma chunked_le n : chunked n <= n.
Proof. unfold chunked. lia. Qed.

Lemma chunked_mult8 n : exists k, chunked n = 8 * k.
Proof.
  unfold chunked. exists (n / 8).
  pose proof (Nat.div_mod n 8 ltac:(lia)). lia.
Qed.

Lemma chunked_rem n : n - chunked n < 8.
Proof.
  unfold chunked. pose proof (Nat.mod_upper_bound n 8 ltac:(lia)).
  pose proof (Nat.mod_le n 8 ltac:(lia)). lia.
Qed.

Section Kernels.
  Context {T : Type}.

  (** the kernel skeleton: chunk body on the first [chunked (length v)] positions, remainder body on the rest *)
  Lemma unary8_split (f g : T -> T) fuel (v : list T) :
    length v < 8 * fuel ->
    unary8 fuel f g v =
    map f (firstn (chunked (length v)) v) ++ map g (skipn (chunked (length v)) v).
  Proof.
    revert v. induction fuel as [|fuel IH]; intros v Hl; [lia|].
    destruct v as [|x0 [|x1 [|x2 [|x3 [|x4 [|x5 [|x6 [|x7 v']]]]]]]];
      try (cbn [unary8]; rewrite chunked_lt8 by (cbn [length]; lia); reflexivity).
    cbn [unary8].
    change (length (x0 :: x1 :: x2 :: x3 :: x4 :: x5 :: x6 :: x7 :: v')) with (8 + length v').
    rewrite chunked_add8.
    rewrite IH by (cbn [length] in Hl; lia).
    reflexivity.
  Qed.

  Lemma kernel1_split (f g : T -> T) (v : list T) :
    kernel1 f g v = map f (firstn (chunked (length v)) v) ++ map g (skipn (chunked (length v)) v).
  Proof. unfold kernel1. apply unary8_split. lia. Qed.

  (** same body in both loops: the kernel is [map] *)
  Lemma kernel1_map (f : T -> T) (v : list T) : kernel1 f f v = map f v.
  Proof. rewrite kernel1_split, <- map_app, firstn_skipn. reflexivity. Qed.

  (** the two bodies may differ syntactically but agree on the elements: still [map] *)
  Lemma kernel1_map_ext (f g : T -> T) (v : list T) :
    (forall x, In x v -> f x = g x) -> kernel1 f g v = map g v.
  Proof.
    intros H. rewrite kernel1_split.
    rewrite (map_ext_in f g).
    - rewrite <- map_app, firstn_skipn. reflexivity.
    - intros x Hx. apply H. rewrite <- (firstn_skipn (chunked (length v)) v). apply in_or_app. left. exact Hx.
  Qed.

  (** position-wise reading of the split *)
  Lemma kernel1_nth (f g : T -> T) (v : list T) (i : nat) (d : T) :
    i < length v ->
    nth i (kernel1 f g v) d = if i <? chunked (length v) then f (nth i v d) else g (nth i v d).
  Proof.
    intros Hi. rewrite kernel1_split.
    set (c := chunked (length v)).
    assert (Hc : c <= length v) by apply chunked_le.
    assert (Hlen : length (map f (firstn c v)) = c) by (rewrite map_length, firstn_length; lia).
    destruct (Nat.ltb_spec i c) as [Hlt|Hge].
    - rewrite app_nth1 by lia.
      rewrite (nth_indep _ d (f d)) by lia. rewrite map_nth.
      f_equal. rewrite <- (firstn_skipn c v) at 2. rewrite app_nth1 by (rewrite firstn_length; lia). reflexivity.
    - rewrite app_nth2 by lia. rewrite Hlen.
      rewrite (nth_indep _ d (g d)) by (rewrite map_length, skipn_length; lia). rewrite map_nth.
      f_equal. rewrite <- (firstn_skipn c v) at 2.
      rewrite app_nth2 by (rewrite firstn_length; lia). rewrite firstn_length. f_equal. lia.
  Qed.

  Lemma kernel1_length (f g : T -> T) (v : list T) : length (kernel1 f g v) = length v.
  Proof.
    rewrite kernel1_split, app_length, !map_length, firstn_length, skipn_length.
    pose proof (chunked_le (length v)). lia.
  Qed.

  (** the binary skeleton is [map2] (whatever the lengths: [zip]-like truncation never happens in the code
      because of the assert, but the equation does not need it) *)
  Lemma binary8_map2 (op : T -> T -> T) fuel (v1 v2 : list T) :
    length v1 < 8 * fuel -> binary8 fuel op v1 v2 = map2 op v1 v2.
  Proof.
    revert v1 v2. induction fuel as [|fuel IH]; intros v1 v2 Hl; [lia|].
    destruct v1 as [|x0 [|x1 [|x2 [|x3 [|x4 [|x5 [|x6 [|x7 v1']]]]]]]]; try reflexivity.
    destruct v2 as [|y0 [|y1 [|y2 [|y3 [|y4 [|y5 [|y6 [|y7 v2']]]]]]]]; try reflexivity.
    cbn [binary8 map2]. rewrite IH by (cbn [length] in Hl; lia). reflexivity.
  Qed.

  Lemma map2_length' {B C} (f : T -> B -> C) l1 l2 :
    length (map2 f l1 l2) = Nat.min (length l1) (length l2).
  Proof. revert l2; induction l1 as [|a l1 IH]; intros [|b l2]; simpl; auto. Qed.

  (** [vadd] / [vsub] / [vmul] / [vdiv] for any operation in place of the token *)
  Lemma vbin_accepts (op : T -> T -> T) (v1 v2 : list T) :
    length v1 = length v2 -> vbin op v1 v2 = Some (map2 op v1 v2).
  Proof.
    intros H. unfold vbin. rewrite (proj2 (Nat.eqb_eq _ _) H). cbn [guard bind].
    rewrite binary8_map2 by lia. reflexivity.
  Qed.
  Lemma vbin_rejects (op : T -> T -> T) (v1 v2 : list T) :
    length v1 <> length v2 -> vbin op v1 v2 = None.
  Proof. intros H. unfold vbin. rewrite (proj2 (Nat.eqb_neq _ _) H). reflexivity. Qed.
  Lemma vbin_closed (op : T -> T -> T) (v1 v2 : list T) :
    vbin op v1 v2 = if length v1 =? length v2 then Some (map2 op v1 v2) else None.
  Proof.
    destruct (Nat.eqb_spec (length v1) (length v2)) as [H|H];
      [apply vbin_accepts | apply vbin_rejects]; exact H.
  Qed.
  Lemma vbin_mut_closed (op : T -> T -> T) (v1 v2 : list T) :
    vbin_mut op v1 v2 = if length v1 =? length v2 then Some (map2 op v1 v2) else None.
  Proof. exact (vbin_closed op v1 v2). Qed.

  Lemma vs_map (op : T -> T -> T) v s : vs op v s = map (fun x => op x s) v.
  Proof. apply kernel1_map. Qed.
  Lemma sv_map (op : T -> T -> T) s v : sv op s v = map (fun x => op s x) v.
  Proof. apply kernel1_map. Qed.
  Lemma vs_mut_map (op : T -> T -> T) v s : vs_mut op v s = map (fun x => op x s) v.
  Proof. apply kernel1_map. Qed.
  Lemma vunary_map (f : T -> T) v : vunary f v = map f v.
  Proof. apply kernel1_map. Qed.

  (** entry-wise form of [map2] (what "at each position" means) *)
  Lemma map2_nth (op : T -> T -> T) (v1 v2 : list T) i d :
    i < length v1 -> i < length v2 -> nth i (map2 op v1 v2) d = op (nth i v1 d) (nth i v2 d).
  Proof.
    revert v2 i; induction v1 as [|a v1 IH]; intros [|b v2] [|i]; simpl; intros H1 H2; try lia; auto.
    apply IH; lia.
  Qed.
End Kernels.

Section Scalar.
  Context {T : Type} (O : Ops T).

  Lemma vmap_map u v : vmap O u v = map (umap_fn O u) v.
  Proof. apply vunary_map. Qed.
  Lemma vpowf_map v a : vpowf O v a = map (fun x => powf O x a) v.
  Proof. apply vunary_map. Qed.

  (** what the chunk loop of [vpowi] computes for exponent [n] *)
  Definition powi_chunk (n : Z) (x : T) : T :=
    if (n =? 2)%Z then mul O x x else if (n =? 3)%Z then mul O (mul O x x) x else powi O x n.

  (** [vpowi] exactly: multiplications on the chunked prefix when [n] is 2 or 3, [powi] on the remainder *)
  Lemma vpowi_split v n :
    vpowi O v n = map (powi_chunk n) (firstn (chunked (length v)) v)
                  ++ map (fun x => powi O x n) (skipn (chunked (length v)) v).
  Proof.
    unfold vpowi, powi_chunk.
    destruct (n =? 2)%Z; [apply kernel1_split|].
    destruct (n =? 3)%Z; apply kernel1_split.
  Qed.

  (** hence: on every carrier where the two short products agree with [powi] on the elements, [vpowi] is the
      point-wise [powi] at every length (the side conditions are theorems on the reals and on binary64) *)
  Lemma vpowi_pointwise v n :
    (n = 2%Z -> forall x, In x v -> mul O x x = powi O x 2) ->
    (n = 3%Z -> forall x, In x v -> mul O (mul O x x) x = powi O x 3) ->
    vpowi O v n = map (fun x => powi O x n) v.
  Proof.
    intros H2 H3. unfold vpowi.
    destruct (Z.eqb_spec n 2) as [->|N2].
    - apply kernel1_map_ext. apply H2. reflexivity.
    - destruct (Z.eqb_spec n 3) as [->|N3].
      + apply kernel1_map_ext. apply H3. reflexivity.
      + apply kernel1_map.
  Qed.

  (** exponents other than 2 and 3: unconditionally, on every carrier *)
  Lemma vpowi_other v n : n <> 2%Z -> n <> 3%Z -> vpowi O v n = map (fun x => powi O x n) v.
  Proof. intros N2 N3. apply vpowi_pointwise; intros E; contradiction. Qed.

  Lemma vpowi_length v n : length (vpowi O v n) = length v.
  Proof.
    unfold vpowi. destruct (n =? 2)%Z; [apply kernel1_length|].
    destruct (n =? 3)%Z; apply kernel1_length.
  Qed.
End Scalar.
