(** * C15 — the flat-array state machine refines the rows-of-lists reference model. *)
From Coq Require Import List Arith ZArith Bool Lia.
From Compute Require Import Base.Ops Base.ListMat Model.Shape Spec.Shape Proofs.C15Lists.
Import ListNotations.

(** ** the dimension logic *)
Ltac split_bools :=
  repeat match goal with
         | |- context [(?a <? ?b)%Z] => destruct (Z.ltb_spec a b)
         | |- context [(?a =? ?b)%Z] => destruct (Z.eqb_spec a b)
         | |- context [Nat.eqb ?a ?b] => destruct (Nat.eqb_spec a b)
         | |- context [Nat.ltb ?a ?b] => destruct (Nat.ltb_spec a b)
         | |- context [Nat.leb ?a ?b] => destruct (Nat.leb_spec a b)
         end; cbn [andb orb negb].

Ltac zb :=
  repeat match goal with
         | |- context [(?a <? ?b)%Z] => let H := fresh in destruct (Z.ltb_spec a b) as [H|H]; try lia
         | |- context [(?a =? ?b)%Z] => let H := fresh in destruct (Z.eqb_spec a b) as [H|H]; try lia
         end; cbn [andb orb].

Lemma reshape_dims_want : forall sz r c, reshape_dims sz r c = want_shape sz r c.
Proof.
  intros. unfold reshape_dims, want_shape, guard, bind. zb;
  repeat match goal with |- context [Nat.eqb ?a ?b] => destruct (Nat.eqb a b) end; reflexivity.
Qed.

Lemma want_shape_mul : forall sz r c r' c',
  want_shape sz r c = Some (r', c') -> r' * c' = sz /\ (0 < sz -> 0 < r' /\ 0 < c').
Proof.
  intros sz r c r' c'. unfold want_shape. zb;
  repeat match goal with |- context [Nat.eqb ?a ?b] => destruct (Nat.eqb_spec a b) end;
  intros E; inversion E; subst; clear E.
  all: try (assert (Z.of_nat (Z.to_nat r * Z.to_nat c) = Z.of_nat sz) by (rewrite Nat2Z.inj_mul, !Z2Nat.id by lia; lia)).
  all: try (pose proof (Nat.div_mod sz (Z.to_nat c) ltac:(lia))).
  all: try (pose proof (Nat.div_mod sz (Z.to_nat r) ltac:(lia))).
  all: split; [nia | intros; split; nia].
Qed.

(** the requests that are accepted, declaratively: the unique shape with [r' * c' = sz] that agrees with
    every explicitly given dimension; everything else is rejected *)
Lemma want_shape_iff : forall sz r c r' c', 0 < sz ->
  (want_shape sz r c = Some (r', c') <->
   r' * c' = sz /\ (r = Z.of_nat r' \/ r = (-1)%Z) /\ (c = Z.of_nat c' \/ c = (-1)%Z) /\ ~ (r = (-1)%Z /\ c = (-1)%Z)).
Proof.
  intros sz r c r' c' Hsz. split.
  - intros W. destruct (want_shape_mul _ _ _ _ _ W) as [M P]. destruct (P Hsz) as [Pr Pc]. split; [exact M|].
    revert W. unfold want_shape. zb;
    repeat match goal with |- context [Nat.eqb ?a ?b] => destruct (Nat.eqb_spec a b) end;
    intros E; inversion E; subst; clear E; lia.
  - intros (M & Hr & Hc & Hn). unfold want_shape.
    assert (0 < r' /\ 0 < c') as [Pr Pc] by nia.
    destruct Hr as [-> | ->], Hc as [-> | ->]; try (exfalso; apply Hn; split; reflexivity); zb.
    + now rewrite !Nat2Z.id.
    + rewrite Nat2Z.id. subst sz. rewrite Nat.mul_comm at 1. rewrite Nat.mod_mul by lia. cbn [Nat.eqb].
      rewrite Nat.mul_comm, Nat.div_mul by lia. reflexivity.
    + rewrite Nat2Z.id. subst sz. rewrite Nat.mod_mul by lia. cbn [Nat.eqb]. rewrite Nat.div_mul by lia. reflexivity.
Qed.

(** ** [new] / [reshape_mut] / [reshape] all reduce to [want_shape] *)
Section Refine.
  Context {T : Type} (O : Ops T).
  Local Notation d := (zero O).
  Local Notation rows := (@rows_of_mat T).
  Local Notation mat := (mat T).
  Local Notation mk := (fun (a : list T) (p : nat * nat) => mkMat (fst p) (snd p) a).

  Lemma reshape_mut_want : forall (m : mat) r c,
    reshape_mut m r c = option_map (mk (data m)) (want_shape (size m) r c).
  Proof.
    intros. unfold reshape_mut. rewrite reshape_dims_want.
    destruct (want_shape (size m) r c) as [[r' c']|]; reflexivity.
  Qed.

  Lemma new_want : forall (a : list T) r c, new a r c = option_map (mk a) (want_shape (length a) r c).
  Proof. intros. unfold new. rewrite reshape_mut_want. unfold size. cbn [nrows ncols data]. now rewrite Nat.mul_1_l. Qed.

  Lemma new_exact : forall (a : list T) r c, length a = r * c -> 0 < r -> 0 < c ->
    new a (Z.of_nat r) (Z.of_nat c) = Some (mkMat r c a).
  Proof.
    intros a r c L Hr Hc. rewrite new_want.
    assert (W : want_shape (length a) (Z.of_nat r) (Z.of_nat c) = Some (r, c)).
    { apply want_shape_iff; [nia|]. repeat split; auto. lia. }
    now rewrite W.
  Qed.

  (** a zero dimension is refused, the request 0 x 0 on empty data apart (repaired [reshape_mut]) *)
  Lemma new_zero : forall (a : list T) r c, r = 0 \/ c = 0 -> ~ (r = 0 /\ c = 0 /\ a = []) ->
    new a (Z.of_nat r) (Z.of_nat c) = None.
  Proof.
    intros a r c H Hn. rewrite new_want. unfold want_shape.
    destruct H; subst; zb; try reflexivity.
    all: destruct (Nat.eqb_spec (length a) 0) as [E|E]; [|reflexivity].
    all: exfalso; apply Hn; repeat split; try lia.
    all: destruct a; [reflexivity|discriminate E].
  Qed.

  Lemma new_empty : new (@nil T) 0 0 = Some (mkMat 0 0 []).
  Proof. reflexivity. Qed.

  Lemma reshape_want : forall (m : mat) r c, Inv m ->
    reshape m r c = option_map (mk (data m)) (want_shape (size m) r c).
  Proof.
    intros m r c (L & Hr & Hc). unfold reshape. fold (size m) in L.
    assert (Hs : 0 < size m) by (unfold size; nia).
    remember (size m) as sz. unfold guard, bind, want_shape.
    destruct (Z.ltb_spec 0 r) as [Pr|Pr], (Z.ltb_spec 0 c) as [Pc|Pc]; cbn [andb].
    - destruct (Z.eqb_spec (r * c) (Z.of_nat sz)) as [E|E]; [|reflexivity].
      rewrite new_want, <- L. unfold want_shape. zb. reflexivity.
    - destruct (Z.ltb_spec r 0); [lia|]. destruct (Z.eqb_spec r (-1)); [lia|]. cbn [andb].
      destruct (Z.ltb_spec c 0) as [Nc|Nc]; [|zb; reflexivity].
      destruct (Z.eqb_spec c (-1)) as [->|]; cbn [andb]; [|zb; reflexivity].
      set (r' := Z.to_nat r). assert (Er : r = Z.of_nat r') by (unfold r'; lia). assert (0 < r') by lia.
      rewrite Er, Z.quot_div_nonneg, <- Nat2Z.inj_div by lia. rewrite new_want, <- L.
      pose proof (Nat.div_mod sz r' ltac:(lia)) as DM.
      destruct (Nat.eqb_spec (sz mod r') 0) as [M|M].
      + assert (W : want_shape sz (Z.of_nat r') (Z.of_nat (sz / r')) = Some (r', sz / r')).
        { apply want_shape_iff; [lia|]. repeat split; auto; nia. }
        now rewrite W.
      + assert (W : want_shape sz (Z.of_nat r') (Z.of_nat (sz / r')) = None).
        { destruct (want_shape sz (Z.of_nat r') (Z.of_nat (sz / r'))) as [[a b]|] eqn:W; [|reflexivity].
          apply want_shape_iff in W; [|lia]. destruct W as (M1 & [Ha|Ha] & [Hb|Hb] & _); try lia.
          all: apply Nat2Z.inj in Ha, Hb; subst a b; pose proof (Nat.mod_upper_bound sz r' ltac:(lia)); nia. }
        now rewrite W.
    - destruct (Z.ltb_spec r 0) as [Nr|Nr].
      + destruct (Z.eqb_spec r (-1)) as [->|]; cbn [andb]; [|zb; reflexivity].
        set (c' := Z.to_nat c). assert (Ec : c = Z.of_nat c') by (unfold c'; lia). assert (0 < c') by lia.
        rewrite Ec, Z.quot_div_nonneg, <- Nat2Z.inj_div by lia. rewrite new_want, <- L.
        pose proof (Nat.div_mod sz c' ltac:(lia)) as DM.
        destruct (Nat.eqb_spec (sz mod c') 0) as [M|M].
        * assert (W : want_shape sz (Z.of_nat (sz / c')) (Z.of_nat c') = Some (sz / c', c')).
          { apply want_shape_iff; [lia|]. repeat split; auto; nia. }
          now rewrite W.
        * assert (W : want_shape sz (Z.of_nat (sz / c')) (Z.of_nat c') = None).
          { destruct (want_shape sz (Z.of_nat (sz / c')) (Z.of_nat c')) as [[a b]|] eqn:W; [|reflexivity].
            apply want_shape_iff in W; [|lia]. destruct W as (M1 & [Ha|Ha] & [Hb|Hb] & _); try lia.
            all: apply Nat2Z.inj in Ha, Hb; subst a b; pose proof (Nat.mod_upper_bound sz c' ltac:(lia)); nia. }
          now rewrite W.
      + destruct (Z.eqb_spec r (-1)); [lia|]. cbn [andb]. destruct (Z.ltb_spec c 0); [lia|].
        destruct (Z.eqb_spec c (-1)); [lia|]. zb; reflexivity.
    - destruct (Z.ltb_spec r 0) as [Nr|Nr].
      + destruct (Z.eqb_spec r (-1)); cbn [andb]; zb; reflexivity.
      + destruct (Z.eqb_spec r (-1)); [lia|]. cbn [andb]. destruct (Z.ltb_spec c 0).
        * destruct (Z.eqb_spec c (-1)); cbn [andb]; zb; reflexivity.
        * destruct (Z.eqb_spec c (-1)); [lia|]. zb; try reflexivity.
          subst r c. rewrite new_want, <- L. unfold want_shape. cbn [Z.ltb Z.eqb Z.compare andb].
          destruct (Nat.eqb_spec sz 0); [lia|reflexivity].
  Qed.

  (** ** what a well-formed state denotes *)
  Lemma rows_nr : forall m : mat, rnr (rows m) = nrows m.
  Proof. intros. apply length_unflatten. Qed.

  Lemma rows_nc : forall m : mat, Inv m -> rnc (rows m) = ncols m.
  Proof.
    intros m (L & Hr & Hc). unfold rnc, rows_of_mat. rewrite hd_unflatten by auto.
    apply length_row_of. nia.
  Qed.

  Lemma rows_concat : forall m : mat, Inv m -> concat (rows m) = data m.
  Proof. intros m (L & _). apply concat_unflatten. auto. Qed.

  Lemma rows_rect : forall m : mat, Inv m -> Forall (fun r => length r = ncols m) (rows m).
  Proof. intros m (L & _). apply unflatten_rows_length. lia. Qed.

  Lemma want_result : forall (a : list T) r c r' c', 0 < length a ->
    want_shape (length a) r c = Some (r', c') -> Inv (mkMat r' c' a).
  Proof.
    intros a r c r' c' Ha W. destruct (want_shape_mul _ _ _ _ _ W) as [M P]. destruct (P Ha).
    unfold Inv. cbn [nrows ncols data]. auto.
  Qed.
End Refine.
