(** Proofs for C07, part 8: the statements pinned in Properties/C07.v that combine the earlier parts. *)
From Coq Require Import Reals List ZArith QArith Qreals Lra Lia Bool FunctionalExtensionality.
From Coquelicot Require Import Coquelicot.
From Compute Require Import Base.Ops Base.ListMat Model.Quad Spec.Quad
  Proofs.C07_base Proofs.C07_hom Proofs.C07_poly Proofs.C07_trapz Proofs.C07_romberg Proofs.C07_romberg_exact
  Proofs.C07_gauss Proofs.C07_samples.
Import ListNotations.
Open Scope R_scope.

Lemma horner_affine c d x : horner RO [c; d] x = c + d * x.
Proof. cbn. ring. Qed.

(** trapz = the integral, on affine integrands, for every n >= 1 *)
Lemma trapz_affine_RInt c d a b n :
  (1 <= n)%nat -> trapz RO (horner RO [c; d]) a b n = RInt (horner RO [c; d]) a b.
Proof.
  intros Hn. rewrite poly_int_RInt.
  replace (horner RO [c; d]) with (fun x => c + d * x)
    by (apply functional_extensionality; intros x; symmetry; apply horner_affine).
  rewrite trapz_affine_exact by exact Hn. unfold poly_int. cbn. field.
Qed.

(** Romberg, eps = 0, in the option form of the model *)
Lemma romberg_linear al be f g a b m :
  exists rf rg, romberg RO f a b 0 (S m) = Some rf /\ romberg RO g a b 0 (S m) = Some rg /\
                romberg RO (fun x => al * f x + be * g x) a b 0 (S m) = Some (al * rf + be * rg).
Proof.
  exists (romberg_noeps RO f a b m), (romberg_noeps RO g a b m).
  rewrite !romberg_R, romberg_noeps_linear. auto.
Qed.
Lemma romberg_affine_subst f a b m :
  exists r, romberg RO (fun t => f (a + (b - a) * t)) 0 1 0 (S m) = Some r /\
            romberg RO f a b 0 (S m) = Some ((b - a) * r).
Proof.
  exists (romberg_noeps RO (fun t => f (a + (b - a) * t)) 0 1 m).
  rewrite !romberg_R, <- romberg_noeps_affine. auto.
Qed.
Lemma romberg_empty f a m : romberg RO f a a 0 (S m) = Some 0.
Proof. rewrite romberg_R, romberg_noeps_affine. f_equal. ring. Qed.
Lemma romberg_defined f a b eps m : exists r, romberg RO f a b eps (S m) = Some r.
Proof. unfold romberg. eexists. reflexivity. Qed.

Lemma romberg_exact_RInt k p a b :
  (1 <= k <= K0)%nat -> (length p <= 2 * k)%nat ->
  romberg RO (horner RO p) a b 0 k = Some (RInt (horner RO p) a b).
Proof. intros Hk Hp. rewrite poly_int_RInt. apply romberg_exact; assumption. Qed.

Lemma quad5_exact_RInt p a b :
  (length p <= 20)%nat ->
  Rabs (quad5 RO (horner RO p) a b - RInt (horner RO p) a b)
  <= 1e-15 * (Rabs (b - a) / 2) * norm1 (comp_aff p ((b + a) / 2) ((b - a) / 2)).
Proof. intros Hp. rewrite poly_int_RInt. apply quad5_exact. exact Hp. Qed.


(** ** why the tolerance clause is not a theorem: with eps > 0 the (repaired) stopping rule can end the run on two
    agreeing but wrong estimates.  p(t) = t^4 + (16/3) t^2 (t-1)^2 (t-1/2)^2 on [0,1]: the 3-node and the 5-node
    estimates are both 5/24, the integral is 13/63, and 4 levels (eps = 0) return it exactly.  Computed on [QO]. *)
Definition alias_poly : list Q := [0; 0; 4 # 3; - (8 # 1); 55 # 3; - (16 # 1); 16 # 3]%Q.
Lemma romberg_early_stop_spurious :
  romberg QO (horner QO alias_poly) 0%Q 1%Q (1 # 100000000)%Q 12 = Some (5 # 24)%Q /\
  romberg QO (horner QO alias_poly) 0%Q 1%Q 0%Q 4 = Some (13 # 63)%Q /\
  ~ (5 # 24 == 13 # 63)%Q.
Proof. split; [vm_compute; reflexivity|split; [vm_compute; reflexivity|]]. intros H. discriminate H. Qed.
