(** * C18, generic part: what has to be shown of one machine, and what follows for every history.
    Nothing here looks inside a particular distribution, and nothing assumes anything about the carrier. *)
From Coq Require Import ZArith List Bool.
From Compute Require Import Base.Ops Base.DistCore.
Import ListNotations.

Section Generic.
  Context {T : Type} (m : machine T).

  (** The four per-call facts (proved per distribution over the generated text in Proofs/C18.v). *)
  Record machine_ok : Prop := {
    (* the constructor stores exactly its arguments *)
    ok_new : forall th s, m_new m th = Some s -> m_params m s = th;
    (* a call asking for a parameter vector the constructor accepts returns, and the object is then the freshly
       constructed one -- whatever the previous parameters were *)
    ok_accept : forall s o th s', coherent m s -> m_wf m o = true ->
        m_target m s o = Some th -> m_new m th = Some s' -> m_step m s o = Ok s';
    (* a call asking for a vector the constructor rejects (or passing too few numbers) panics; the object left
       behind is still coherent, and untouched if the call was a single setter *)
    ok_reject : forall s o, coherent m s -> obind (m_target m s o) (m_new m) = None ->
        exists s'', m_step m s o = Panicked s'' /\ coherent m s'' /\ (m_is_update m o = false -> s'' = s);
    (* whatever the call and its outcome, coherence survives *)
    ok_step : forall s o, coherent m s -> coherent m (state_of (m_step m s o)) }.

  Hypothesis OK : machine_ok.

  Lemma new_coherent : forall th s, m_new m th = Some s -> coherent m s.
  Proof. intros th s H. unfold coherent. rewrite (ok_new OK _ _ H). exact H. Qed.

  Lemma run_coherent : forall h s, coherent m s -> coherent m (run m s h).
  Proof. induction h as [|o h IH]; intros s Hs; cbn [run]; [exact Hs|]. apply IH, (ok_step OK), Hs. Qed.

  Lemma trace_coherent : forall h s, coherent m s -> Forall (fun bs => coherent m (snd bs)) (trace m s h).
  Proof.
    induction h as [|o h IH]; intros s Hs; cbn [trace]; constructor.
    - cbn [snd]. apply (ok_step OK), Hs.
    - apply IH, (ok_step OK), Hs.
  Qed.

  (** fresh_equiv: after ANY history (panics caught and the object used further), the object is the one [new]
      builds from the object's current parameters -- cached sub-samplers included *)
  Theorem fresh_equiv : forall th0 s0 h, m_new m th0 = Some s0 ->
      m_new m (m_params m (run m s0 h)) = Some (run m s0 h).
  Proof. intros th0 s0 h H. apply run_coherent, (new_coherent _ _ H). Qed.

  (** hence every observation (density, mean, variance, the sample stream from any RNG state: any function of the
      object) coincides with that of a fresh twin *)
  Corollary observational_equiv : forall (A : Type) (obs : m_state m -> A) th0 s0 h, m_new m th0 = Some s0 ->
      exists twin, m_new m (m_params m (run m s0 h)) = Some twin /\ obs (run m s0 h) = obs twin.
  Proof. intros A obs th0 s0 h H. exists (run m s0 h). split; [apply (fresh_equiv _ _ _ H)|reflexivity]. Qed.

  (** no object ever holds parameters the constructor refuses *)
  Theorem domain_invariant : forall th0 s0 h, m_new m th0 = Some s0 ->
      m_new m (m_params m (run m s0 h)) <> None.
  Proof. intros th0 s0 h H. rewrite (fresh_equiv _ _ _ H). discriminate. Qed.

  (** a valid request succeeds at any point of any history and yields the fresh object at the requested parameters *)
  Theorem valid_update_succeeds : forall th0 s0 h o th s', m_new m th0 = Some s0 -> m_wf m o = true ->
      m_target m (run m s0 h) o = Some th -> m_new m th = Some s' ->
      m_step m (run m s0 h) o = Ok s' /\ m_params m s' = th.
  Proof.
    intros th0 s0 h o th s' H0 Hwf Ht Hn. split.
    - apply (ok_accept OK) with (th := th); auto. apply run_coherent, (new_coherent _ _ H0).
    - apply (ok_new OK), Hn.
  Qed.

  (** an invalid request panics at any point of any history; a setter leaves the object untouched, a bulk update
      leaves a coherent object *)
  Theorem invalid_rejected : forall th0 s0 h o, m_new m th0 = Some s0 ->
      obind (m_target m (run m s0 h) o) (m_new m) = None ->
      exists s'', m_step m (run m s0 h) o = Panicked s'' /\ coherent m s'' /\
                  (m_is_update m o = false -> s'' = run m s0 h).
  Proof. intros th0 s0 h o H0 Hr. apply (ok_reject OK); auto. apply run_coherent, (new_coherent _ _ H0). Qed.

  (** the panic pattern of a whole history is decided by the constructor alone *)
  Theorem step_ok_iff_new_accepts : forall s o, coherent m s -> m_wf m o = true ->
      is_ok (m_step m s o) = match obind (m_target m s o) (m_new m) with Some _ => true | None => false end.
  Proof.
    intros s o Hs Hwf. destruct (obind (m_target m s o) (m_new m)) as [s'|] eqn:E.
    - unfold obind in E. destruct (m_target m s o) as [th|] eqn:Et; [|discriminate].
      rewrite (ok_accept OK s o th s' Hs Hwf Et E). reflexivity.
    - destruct (ok_reject OK s o Hs E) as (s'' & -> & _). reflexivity.
  Qed.

  (** with the constructor's guard read as a domain [dom]: a well-formed call returns iff it asks for a point of [dom] *)
  Theorem accepted_iff_domain : forall (dom : m_param m -> Prop),
      (forall th, m_new m th <> None <-> dom th) ->
      forall th0 s0 h o th, m_new m th0 = Some s0 -> m_wf m o = true ->
      m_target m (run m s0 h) o = Some th ->
      (is_ok (m_step m (run m s0 h) o) = true <-> dom th).
  Proof.
    intros dom Hdom th0 s0 h o th H0 Hwf Ht.
    rewrite step_ok_iff_new_accepts; [|apply run_coherent, (new_coherent _ _ H0)|exact Hwf].
    rewrite Ht. cbn [obind]. rewrite <- Hdom.
    destruct (m_new m th); split; intros H; try reflexivity; try discriminate.
    exfalso; apply H; reflexivity.
  Qed.
End Generic.
