(** Proofs for C01, part 2: the fallible Cholesky sweep ([try_cholesky]) against the sweep of property
    C11 ([Cholesky.chol_rows]), and the correctness of the Cholesky route in exact arithmetic. *)
From Coq Require Import List Arith Bool Lia Reals Lra.
From Compute Require Import Base.Ops Base.ListMat Model.Reduce Model.MatMul Model.Subst Model.Cholesky Model.Solve
  Spec.Factor Spec.Solve Proofs.C05 Proofs.LinAlgBase Proofs.C11_Subst Proofs.C01_Layout.
From Compute Require Export Proofs.C11_Pred Proofs.C11_Chol.
Import ListNotations.

(** (the lemmas relating the fallible sweep [try_cholesky] to the plain sweep and its reconstruction
    theorems are in Proofs/C11_Chol.v, shared with property C11) *)
Local Open Scope R_scope.

(** ** [cholesky_solve] solves (L.L^T).x = b *)
Lemma cholesky_solve_correct (a l b : list R) n :
  (0 < n)%nat -> length l = (n * n)%nat -> lower_triangular l n ->
  (forall i, (i < n)%nat -> 0 < getm l n i i) ->
  (forall i j, (i < n)%nat -> (j < n)%nat ->
     rsum (fun k => getm l n i k * getm l n j k) n = getm a n i j) ->
  length b = n ->
  exists x, cholesky_solve RO l b = Some x /\ solves a n x b.
Proof.
  intros Hn Hl Hlow Hpos Hrec Hb.
  assert (Hd : forall i, (i < n)%nat -> getm l n i i <> 0) by (intros i Hi; specialize (Hpos i Hi); lra).
  unfold cholesky_solve. rewrite Hl, is_square_sq. cbn [bind]. rewrite Hb, Nat.eqb_refl. cbn [guard bind].
  pose proof (fwd_subst_shape l b) as Hf. rewrite Hl, is_square_sq, Hb, Nat.eqb_refl in Hf.
  destruct Hf as (y & Hy & Hyl). rewrite Hy. cbn [bind].
  destruct (fwd_subst_correct l b y n Hy (eq_sym Hl) Hd) as (_ & _ & Hfy).
  destruct (transpose_spec RO l n n Hn Hl) as (lt & Hlt & Hltl & Hlte). rewrite Hlt. cbn [bind].
  assert (Hg : forall i j, (i < n)%nat -> (j < n)%nat -> getm lt n i j = getm l n j i)
    by (intros i j Hi Hj; unfold getm; apply Hlte; auto).
  pose proof (bwd_subst_shape lt y) as Hbw. rewrite Hltl, is_square_sq, Hyl, Nat.eqb_refl in Hbw.
  destruct Hbw as (x & Hx & Hxl). exists x. split; [exact Hx|].
  assert (Hdt : forall i, (i < n)%nat -> getm lt n i i <> 0) by (intros i Hi; rewrite Hg by auto; auto).
  destruct (bwd_subst_correct lt y x n Hx (eq_sym Hltl) Hdt) as (_ & _ & Hbx).
  split; [exact Hxl|]. intros i Hi. unfold mvec.
  (* A.x = L.(L^T.x) *)
  rewrite (rsum_ext _ (fun j => rsum (fun k => getm l n i k * (getm l n j k * nth j x 0)) n)).
  2:{ intros j Hj. rewrite <- (Hrec i j Hi Hj). rewrite <- rsum_scal_r. apply rsum_ext. intros; ring. }
  rewrite rsum_swap.
  rewrite (rsum_ext _ (fun k => lower_part l n i k * nth k y 0)).
  - apply Hfy; auto.
  - intros k Hk. rewrite rsum_scal_l. unfold lower_part.
    destruct (Nat.leb_spec k i) as [Hki|Hki].
    + f_equal. rewrite <- (Hbx k Hk). apply rsum_ext. intros j Hj. unfold upper_part.
      destruct (Nat.leb_spec k j) as [Hkj|Hkj].
      * rewrite Hg by auto. reflexivity.
      * rewrite (Hlow j k) by auto. ring.
    + rewrite (Hlow i k) by auto. ring.
Qed.
