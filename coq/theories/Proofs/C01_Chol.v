(** Proofs for C01, part 2: the fallible Cholesky sweep ([try_cholesky]) against the sweep of property
    C11 ([Cholesky.chol_rows]), and the correctness of the Cholesky route in exact arithmetic. *)
From Coq Require Import List Arith Bool Lia Reals Lra.
From Compute Require Import Base.Ops Base.ListMat Model.Reduce Model.MatMul Model.Subst Model.Cholesky Model.Solve
  Spec.Factor Spec.Solve Proofs.C05 Proofs.LinAlgBase Proofs.C11_Subst Proofs.C11_Chol Proofs.C01_Layout.
Import ListNotations.

(** ** any carrier: a successful [try_cholesky] sweep returns exactly the factor of the plain sweep,
    and every diagonal entry is the square root of a pivot that passed the [d > 0] test *)
Section TryChol.
  Context {T : Type} (O : Ops T).
  Local Notation z := (zero O).

  Lemma fold_append_length {X} (g : list T -> X -> T) js r0 :
    length (fold_left (fun r j => r ++ [g r j]) js r0) = length r0 + length js.
  Proof.
    revert r0; induction js as [|j js IH]; intros r0; cbn [fold_left length]; [lia|].
    rewrite IH, app_length. cbn [length]. lia.
  Qed.

  Lemma try_step_prefix A L n i js r0 :
    (forall j, In j js -> j <> i) ->
    fold_left (try_chol_step O A L n i) js (Some r0) =
    Some (fold_left (fun r j => r ++ [chol_entry O false A L n i r j]) js r0).
  Proof.
    revert r0; induction js as [|j js IH]; intros r0 H; cbn [fold_left]; auto.
    unfold try_chol_step at 2. cbn [bind].
    destruct (Nat.eqb_spec j i) as [E|E]; [exfalso; apply (H j); [left; auto|auto]|].
    apply IH. intros j' Hj'. apply H. right; auto.
  Qed.

  Lemma chol_entry_diag A L n i r :
    chol_entry O false A L n i r i = sqrt O (chol_pivot O A i r).
  Proof. unfold chol_entry, chol_pivot. rewrite Nat.eqb_refl. reflexivity. Qed.

  Lemma try_chol_row_some A L n i row :
    try_chol_row O A L n i = Some row ->
    row = chol_row O false A L n i /\
    exists d, ltb O z d = true /\ nth i row z = sqrt O d.
  Proof.
    unfold try_chol_row, chol_row. rewrite seq_S, !fold_left_app. cbn [Nat.add fold_left].
    rewrite try_step_prefix by (intros j Hj; apply in_seq in Hj; lia).
    set (r := fold_left (fun r j => r ++ [chol_entry O false A L n i r j]) (seq 0 i) []).
    assert (Hr : length r = i) by (unfold r; rewrite fold_append_length, seq_length; reflexivity).
    unfold try_chol_step. cbn [bind]. rewrite Nat.eqb_refl.
    destruct (ltb O z (chol_pivot O A i r)) eqn:Hd; cbn [bind]; [|discriminate].
    intros [= <-]. rewrite chol_entry_diag. split; [reflexivity|].
    exists (chol_pivot O A i r). split; [exact Hd|].
    unfold pad. rewrite app_nth1 by (rewrite app_length; cbn [length]; lia).
    rewrite app_nth2 by lia. rewrite Hr, Nat.sub_diag. reflexivity.
  Qed.

  Lemma try_chol_row_none A L n i :
    try_chol_row O A L n i = None ->
    ltb O z (chol_pivot O A i (fold_left (fun r j => r ++ [chol_entry O false A L n i r j]) (seq 0 i) [])) = false.
  Proof.
    unfold try_chol_row. rewrite seq_S, !fold_left_app. cbn [Nat.add fold_left].
    rewrite try_step_prefix by (intros j Hj; apply in_seq in Hj; lia).
    unfold try_chol_step. cbn [bind]. rewrite Nat.eqb_refl.
    destruct (ltb O z _); cbn [bind]; [discriminate|reflexivity].
  Qed.

  Lemma try_chol_rows_prefix A n k L :
    fold_left (try_chol_rows_step O A n) (seq 0 k) (Some []) = Some L ->
    L = fold_left (fun L i => L ++ [chol_row O false A L n i]) (seq 0 k) [] /\
    length L = k /\
    forall i, i < k -> exists d, ltb O z d = true /\ ent z L i i = sqrt O d.
  Proof.
    revert L; induction k as [|k IH]; intros L.
    - cbn [seq fold_left]. intros [= <-]. repeat split; auto. intros; lia.
    - rewrite seq_S, !fold_left_app. cbn [Nat.add fold_left].
      destruct (fold_left (try_chol_rows_step O A n) (seq 0 k) (Some [])) as [Lk|] eqn:Ek;
        unfold try_chol_rows_step at 1; cbn [bind]; [|discriminate].
      destruct (IH Lk eq_refl) as (HLk & Hlen & Hpiv).
      destruct (try_chol_row O A Lk n k) as [row|] eqn:Erow; cbn [bind]; [|discriminate].
      intros [= <-]. destruct (try_chol_row_some _ _ _ _ _ Erow) as (Hrow & d & Hd & Hnth).
      split; [|split].
      + rewrite <- HLk, <- Hrow. reflexivity.
      + rewrite app_length. cbn [length]. lia.
      + intros i Hi. unfold ent. destruct (Nat.eq_dec i k) as [->|Hne].
        * exists d. split; auto. rewrite app_nth2 by lia. rewrite Hlen, Nat.sub_diag. exact Hnth.
        * rewrite app_nth1 by lia. apply Hpiv. lia.
  Qed.

  Lemma try_chol_rows_some A n L :
    try_chol_rows O A n = Some L ->
    L = chol_rows O false A n /\
    forall i, i < n -> exists d, ltb O z d = true /\ ent z L i i = sqrt O d.
  Proof.
    intros H. destruct (try_chol_rows_prefix A n n L H) as (H1 & _ & H3). split; auto.
  Qed.

  (** [try_cholesky] panics exactly when [is_symmetric] panics or answers false *)
  Lemma try_cholesky_shape a :
    match is_square (length a) with
    | None => try_cholesky O a = None
    | Some n => if is_symmetric_rel_rows O (unflatten a n n) n
                then exists r, try_cholesky O a = Some r
                else try_cholesky O a = None
    end.
  Proof.
    unfold try_cholesky. destruct (is_square (length a)) as [n|]; cbn [bind]; auto.
    destruct (is_symmetric_rel_rows O (unflatten a n n) n); cbn [guard bind]; eauto.
  Qed.

  (** the repaired [cholesky] either panics or returns the factor [try_cholesky] found *)
  Lemma cholesky_checked_spec a l :
    cholesky_checked O a = Some l <-> try_cholesky O a = Some (Some l).
  Proof.
    unfold cholesky_checked. destruct (try_cholesky O a) as [[l'|]|]; cbn [bind]; split; intros H;
      try discriminate; congruence.
  Qed.
End TryChol.

Local Open Scope R_scope.

(** ** exact arithmetic *)
Lemma Rltb_sqrt_pos d : ltb RO (zero RO) d = true -> 0 < R_sqrt.sqrt d.
Proof. cbn [ltb RO zero]. intros H. apply Rltb_true in H. apply sqrt_lt_R0. exact H. Qed.

(** a successful fallible sweep: the factor of C11's sweep, with positive diagonal *)
Lemma try_cholesky_factor a l n :
  try_cholesky RO a = Some (Some l) -> (n * n)%nat = length a ->
  l = flatten (chol_rows RO false (unflatten a n n) n) /\
  length l = (n * n)%nat /\
  (forall i, (i < n)%nat -> 0 < getm l n i i).
Proof.
  intros H Hn. unfold try_cholesky in H. rewrite <- Hn, is_square_sq in H. cbn [bind] in H.
  destruct (is_symmetric_rel_rows RO (unflatten a n n) n); cbn [guard bind] in H; [|discriminate].
  destruct (try_chol_rows RO (unflatten a n n) n) as [L|] eqn:EL; cbn [option_map] in H; [|discriminate].
  inversion H; subst l; clear H.
  destruct (try_chol_rows_some RO _ _ _ EL) as [HL Hpiv].
  destruct (chol_rows_spec false (unflatten a n n) n) as [Hw _].
  rewrite <- HL in Hw.
  split; [rewrite HL; reflexivity|]. split; [apply (wf_flatten_length _ n Hw)|].
  intros i Hi. unfold getm. rewrite (nth_flatten 0 L n i i Hw Hi Hi).
  destruct (Hpiv i Hi) as (d & Hd & He). cbn [zero RO] in He. rewrite He. apply Rltb_sqrt_pos. exact Hd.
Qed.

(** ... hence, for an exactly symmetric matrix, L.L^T = A with L lower triangular (C11 [chol_reconstructs]) *)
Lemma try_cholesky_reconstructs a l n :
  try_cholesky RO a = Some (Some l) -> (n * n)%nat = length a -> symmetric a n ->
  length l = (n * n)%nat /\ lower_triangular l n /\
  (forall i, (i < n)%nat -> 0 < getm l n i i) /\
  (forall i j, (i < n)%nat -> (j < n)%nat ->
     rsum (fun k => getm l n i k * getm l n j k) n = getm a n i j).
Proof.
  intros H Hn Hsym.
  destruct (try_cholesky_factor a l n H Hn) as (Hl & Hlen & Hpos).
  assert (Hc : cholesky RO a = Some l).
  { unfold cholesky. rewrite <- Hn, is_square_sq. cbn [bind].
    rewrite is_symmetric_rows_exact.
    - cbn [guard bind]. rewrite Hl. reflexivity.
    - intros i j Hi Hj. rewrite !ent_unflatten by auto. apply (Hsym i j); auto. }
  destruct (chol_reconstructs a l n Hc Hn Hpos) as (_ & Hlow & _ & Hfull).
  repeat split; auto.
Qed.

(** the lower triangle alone determines the factor: without any symmetry assumption, L.L^T reproduces
    the lower triangle of A (so the Cholesky route solves the system of the matrix mirrored from it) *)
Lemma try_cholesky_reconstructs_lower a l n :
  try_cholesky RO a = Some (Some l) -> (n * n)%nat = length a ->
  length l = (n * n)%nat /\ lower_triangular l n /\
  (forall i, (i < n)%nat -> 0 < getm l n i i) /\
  (forall i j, (i < n)%nat -> (j <= i)%nat ->
     rsum (fun k => getm l n i k * getm l n j k) n = getm a n i j).
Proof.
  intros H Hn.
  destruct (try_cholesky_factor a l n H Hn) as (Hl & Hlen & Hpos).
  destruct (chol_rows_spec false (unflatten a n n) n) as [Hw Hrec].
  set (L := chol_rows RO false (unflatten a n n) n) in *.
  assert (Hg : forall i j, (i < n)%nat -> (j < n)%nat -> getm l n i j = ent 0 L i j)
    by (intros; subst l; apply nth_flatten; auto).
  assert (Hpos' : forall i, (i < n)%nat -> 0 < ent 0 L i i) by (intros i Hi; rewrite <- Hg by auto; auto).
  repeat split; auto.
  - intros i j Hi Hj Hij. rewrite Hg by auto. destruct (Hrec i Hi) as [Hz _]. apply Hz; auto.
  - intros i j Hi Hj.
    rewrite (rsum_trunc _ (S j) n); [|lia|].
    + rewrite (rsum_ext _ (fun k => ent 0 L i k * ent 0 L j k)) by (intros k Hk; rewrite !Hg by lia; reflexivity).
      rewrite (chol_rec_reconstructs _ L n Hrec Hpos' i j Hi Hj). apply ent_unflatten; lia.
    + intros k Hk. rewrite (Hg j k) by lia. destruct (Hrec j ltac:(lia)) as [Hz _]. rewrite Hz by lia. lra.
Qed.

(** ** [cholesky_solve] solves (L.L^T).x = b *)
Lemma cholesky_solve_correct (a l b : list R) n :
  (0 < n)%nat -> length l = (n * n)%nat -> lower_triangular l n ->
  (forall i, (i < n)%nat -> 0 < getm l n i i) ->
  (forall i j, (i < n)%nat -> (j < n)%nat ->
     rsum (fun k => getm l n i k * getm l n j k) n = getm a n i j) ->
  length b = n ->
  exists x, cholesky_solve RO l b = Some x /\ solves a n x b.
Proof.
  intros Hn Hl Hlow Hpos Hrec Hb.
  assert (Hd : forall i, (i < n)%nat -> getm l n i i <> 0) by (intros i Hi; specialize (Hpos i Hi); lra).
  unfold cholesky_solve. rewrite Hl, is_square_sq. cbn [bind]. rewrite Hb, Nat.eqb_refl. cbn [guard bind].
  pose proof (fwd_subst_shape l b) as Hf. rewrite Hl, is_square_sq, Hb, Nat.eqb_refl in Hf.
  destruct Hf as (y & Hy & Hyl). rewrite Hy. cbn [bind].
  destruct (fwd_subst_correct l b y n Hy (eq_sym Hl) Hd) as (_ & _ & Hfy).
  destruct (transpose_spec RO l n n Hn Hl) as (lt & Hlt & Hltl & Hlte). rewrite Hlt. cbn [bind].
  assert (Hg : forall i j, (i < n)%nat -> (j < n)%nat -> getm lt n i j = getm l n j i)
    by (intros i j Hi Hj; unfold getm; apply Hlte; auto).
  pose proof (bwd_subst_shape lt y) as Hbw. rewrite Hltl, is_square_sq, Hyl, Nat.eqb_refl in Hbw.
  destruct Hbw as (x & Hx & Hxl). exists x. split; [exact Hx|].
  assert (Hdt : forall i, (i < n)%nat -> getm lt n i i <> 0) by (intros i Hi; rewrite Hg by auto; auto).
  destruct (bwd_subst_correct lt y x n Hx (eq_sym Hltl) Hdt) as (_ & _ & Hbx).
  split; [exact Hxl|]. intros i Hi. unfold mvec.
  (* A.x = L.(L^T.x) *)
  rewrite (rsum_ext _ (fun j => rsum (fun k => getm l n i k * (getm l n j k * nth j x 0)) n)).
  2:{ intros j Hj. rewrite <- (Hrec i j Hi Hj). rewrite <- rsum_scal_r. apply rsum_ext. intros; ring. }
  rewrite rsum_swap.
  rewrite (rsum_ext _ (fun k => lower_part l n i k * nth k y 0)).
  - apply Hfy; auto.
  - intros k Hk. rewrite rsum_scal_l. unfold lower_part.
    destruct (Nat.leb_spec k i) as [Hki|Hki].
    + f_equal. rewrite <- (Hbx k Hk). apply rsum_ext. intros j Hj. unfold upper_part.
      destruct (Nat.leb_spec k j) as [Hkj|Hkj].
      * rewrite Hg by auto. reflexivity.
      * rewrite (Hlow j k) by auto. ring.
    + rewrite (Hlow i k) by auto. ring.
Qed.
