(** * Tie A for C13: the hand-written model of [AR::fit] / [AR::new] IS the source.
    [Generated/ar_fit_loops.v] is produced on every run by tools/tiea/ar_fit_loops.py (statement-level translator
    [LoopTranslator] of tools/rsexpr.py) from src/timeseries/autoregressive.rs.  The routines of other files that [fit]
    calls are abstract parameters of the generated text, instantiated here by their models ([ts_mean], [acf], [toeplitz],
    [matmul] — each tied to its own source by C08 / C13 / C15 / C05 — and [inv], in which the model is parametric as well).
    No law of the carrier is used. *)
From Coq Require Import List ZArith Arith Bool Lia.
From Compute Require Import Base.Ops Base.ListMat Base.RsExpr Base.RsExprMut Model.Reduce Model.MatMul Model.TimeSeries
  Proofs.RsExprLemmas Generated.ar_fit_loops.
Import ListNotations.

Section ARFitTie.
  Context {T : Type} (O : Ops T).
  Definition acf_opt (x : list T) (k : Z) : option T := Some (acf O x k).
  Definition toeplitz_opt (x : list T) : option (list T) := Some (toeplitz O x).
  Definition matmul_z (a b : list T) (ra rb : Z) (ta tb : bool) : option (list T) := matmul O a b (Z.to_nat ra) (Z.to_nat rb) ta tb.

  (** [fit]: mean, centring, the autocorrelations at lags 0..=p, [r = &ac[1..]], the Toeplitz matrix of [&ac[..p]], its inverse,
      the product with [r], the reversal; the fields (p, coeffs, intercept) after the call *)
  Theorem tiea_ar_fit : forall (inv : list T -> option (list T)) (p : nat) (coeffs0 : list T) (intercept0 : T) (data : list T),
    src_fit O (ts_mean O) acf_opt toeplitz_opt inv matmul_z (Z.of_nat p) coeffs0 intercept0 data
    = option_map (fun '(c, mu) => (Z.of_nat p, c, mu)) (ar_fit O inv p data).
  Proof.
    intros inv p coeffs0 intercept0 data. unfold src_fit, ar_fit, fit_inv_arg, acf_opt, toeplitz_opt, matmul_z. cbv zeta.
    change 0%Z with (Z.of_nat 0). rewrite rs_range_nat, Nat.sub_0_r. cbn [Z.of_nat].
    rewrite (rs_map_opt_seq _ (fun t => acf O (map (fun x => sub O x (ts_mean O data)) data) (Z.of_nat t))) by (intros k Hk; reflexivity).
    cbn [bind]. fold (adjusted O data). fold (autocorrs O p data).
    assert (L : length (autocorrs O p data) = S p) by (unfold autocorrs; now rewrite map_length, seq_length).
    change 1%Z with (Z.of_nat 1). rewrite rs_slice_from_nat by lia. cbn [bind].
    unfold rs_len. rewrite skipn_length, L. replace (S p - 1) with p by lia.
    rewrite rs_slice_to_nat by lia. cbn [bind]. rewrite !Nat2Z.id.
    change (skipn 1 (autocorrs O p data)) with (tl (autocorrs O p data)).
    destruct (inv (toeplitz O (firstn p (autocorrs O p data)))) as [rinv|]; cbn [bind]; [|reflexivity].
    destruct (matmul O rinv (tl (autocorrs O p data)) p p false false) as [c|]; reflexivity.
  Qed.

  (** [AR::new(p)]: [assert!(p > 0)], [p] zero coefficients (below the allocation limit), zero intercept *)
  Theorem tiea_ar_new : forall p : nat, (Z.of_nat p <= 1152921504606846975)%Z ->
    src_new O (Z.of_nat p) = if 0 <? p then Some (Z.of_nat p, repeat (zero O) p, zero O) else None.
  Proof.
    intros p H. unfold src_new. change 0%Z with (Z.of_nat 0). rewrite Zltb_of_nat. destruct (0 <? p); [|reflexivity].
    now rewrite rs_vec_alloc_nat by exact H.
  Qed.
  (** the constructor followed by [fit] is the model's [ar_new_fit] *)
  Theorem tiea_ar_new_fit : forall (inv : list T -> option (list T)) (p : nat) (data : list T), (Z.of_nat p <= 1152921504606846975)%Z ->
    (let* (p', c0, i0) := src_new O (Z.of_nat p) in src_fit O (ts_mean O) acf_opt toeplitz_opt inv matmul_z p' c0 i0 data)
    = option_map (fun '(c, mu) => (Z.of_nat p, c, mu)) (ar_new_fit O inv p data).
  Proof.
    intros inv p data H. rewrite tiea_ar_new by exact H. unfold ar_new_fit. destruct (0 <? p); cbn [guard bind]; [|reflexivity].
    apply tiea_ar_fit.
  Qed.
End ARFitTie.
