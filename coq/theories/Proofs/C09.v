(** Proofs for C09 (special functions) on the real carrier. *)
From Compute Require Import Proofs.C09_base Proofs.C09_lanczos1 Proofs.C09_lanczos2 Proofs.C09_lanczos3 Proofs.C09_digamma_u.

(** ** Tie A: the regenerated binary64 constants are the roundings of the decimal literals *)
Lemma all_literals_ok : forallb lit_ok all_literals = true.
Proof. vm_compute. reflexivity. Qed.

(** ** Γ(n) = (n−1)! for every integer argument whose factorial is finite in binary64 *)
Lemma lanczos_at_integers : Forall lanczos_ok (seq 1 171).
Proof.
  change (seq 1 171) with (seq 1 57 ++ seq 58 57 ++ seq 115 57).
  repeat (apply Forall_app; split); [exact lanczos_part1 | exact lanczos_part2 | exact lanczos_part3].
Qed.

(** ** reflection: Γ(z)·Γ(1−z)·sin(πz) = π by construction, for z < 1/2 off the poles *)
Lemma gamma_reflection z :
  z < 1/2 -> sin (PI * z) <> 0 -> gamma_pos RO (1 - z) <> 0 ->
  gamma RO z * gamma RO (1 - z) * sin (PI * z) = PI.
Proof.
  intros Hz Hs Hg. rewrite (gamma_RO_lt_half z Hz), (gamma_RO_ge_half (1 - z)) by lra.
  field. split; assumption.
Qed.

(** ** the repaired evaluation order keeps every factor in range up to the overflow threshold of Γ *)
Lemma lanczos_factors_in_range z : 1/2 <= z <= 1716/10 ->
  let t := z - 1 + 735/128 - 1/2 in
  let p := Rpower t ((z - 1 + 1/2) / 2) in
  0 < p <= 1e193 /\ R_sqrt.sqrt (2 * PI) * p * exp (- t) <= 1e118 /\
  0 < gamma_pos RO z <= 17e307.
Proof.
  intros Hz t p. subst t p. unfold Rpower.
  split; [split|split; [|split]].
  - apply exp_pos.
  - interval with (i_bisect z, i_depth 20).
  - interval with (i_bisect z, i_depth 20).
  - unfold_special; unfold Rpower. interval with (i_bisect z, i_depth 20, i_prec 60).
  - unfold_special; unfold Rpower. interval with (i_bisect z, i_depth 30, i_prec 60).
Qed.

(** the expression of the original code, t^(z−1/2), already exceeds the binary64 range at z = 144
    although Γ(144) = 143! is finite: the defect repaired by commit "fix: gamma no longer overflows" *)
Lemma gamma_overflow_refuted :
  let z := 144 in let t := z - 1 + 735/128 - 1/2 in
  Rpower t (z - 1 + 1/2) > 2 ^ 1024 /\ IZR (zfact 143) < 2 ^ 1024.
Proof.
  cbv zeta. unfold Rpower. split.
  - interval with (i_prec 60).
  - let f := eval vm_compute in (zfact 143) in change (zfact 143) with f. interval with (i_prec 60).
Qed.

(** ** beta *)
Lemma beta_def a b : beta RO a b = gamma RO a * gamma RO b / gamma RO (a + b).
Proof. reflexivity. Qed.
Lemma beta_symmetric a b : beta RO a b = beta RO b a.
Proof. unfold beta. cbn [add mul div RO]. rewrite (Rplus_comm b a). unfold Rdiv. ring. Qed.

(** ** digamma *)
Lemma digamma_S fuel x :
  digamma RO (S fuel) x =
  if ltb RO x (ofZ RO 6) then
    match digamma RO fuel (x + 1) with Some d => Some (d - 1 / x) | None => None end
  else Some (digamma_asym RO x).
Proof. reflexivity. Qed.

Lemma digamma_fuel_mono fuel x v : digamma RO fuel x = Some v -> digamma RO (S fuel) x = Some v.
Proof.
  revert x v. induction fuel as [|fuel IH]; intros x v H; [discriminate|].
  rewrite digamma_S in H. rewrite digamma_S.
  destruct (ltb RO x (ofZ RO 6)); [|exact H].
  destruct (digamma RO fuel (x + 1)) as [d|] eqn:E; [|discriminate].
  rewrite (IH _ _ E). exact H.
Qed.

(** below 6 the recurrence ψ(x+1) = ψ(x) + 1/x holds exactly (it is how the value is computed) *)
Lemma digamma_recurrence_low fuel x a b :
  x < 6 -> digamma RO (S fuel) x = Some a -> digamma RO (S fuel) (x + 1) = Some b -> b = a + 1 / x.
Proof.
  intros Hx Ha Hb. rewrite digamma_S in Ha.
  assert (Hlt : ltb RO x (ofZ RO 6) = true).
  { cbn [ltb RO ofZ]. unfold Rltb. destruct (Rlt_dec x 6); [reflexivity|lra]. }
  rewrite Hlt in Ha.
  destruct (digamma RO fuel (x + 1)) as [d|] eqn:E; [|discriminate].
  apply digamma_fuel_mono in E. rewrite E in Hb. injection Hb as <-. injection Ha as <-.
  lra.
Qed.

(** from 6 up to 1e6 the asymptotic series satisfies the recurrence to 1e-10 *)
Lemma digamma_asym_recurrence x : 6 <= x <= 1000000 ->
  Rabs (digamma_asym RO (x + 1) - digamma_asym RO x - 1 / x) <= 1e-10.
Proof.
  intros Hx. apply digamma_asym_recurrence_all. lra.
Qed.

Lemma digamma_ge6 fuel x : 6 <= x -> digamma RO (S fuel) x = Some (digamma_asym RO x).
Proof.
  intros Hx. rewrite digamma_S.
  assert (Hlt : ltb RO x (ofZ RO 6) = false).
  { cbn [ltb RO ofZ]. unfold Rltb. destruct (Rlt_dec x 6); [lra|reflexivity]. }
  rewrite Hlt. reflexivity.
Qed.

Lemma digamma_recurrence fuel x a b :
  0 < x <= 1000000 -> digamma RO (S fuel) x = Some a -> digamma RO (S fuel) (x + 1) = Some b ->
  Rabs (b - a - 1 / x) <= 1e-10.
Proof.
  intros Hx Ha Hb. destruct (Rlt_dec x 6) as [Hlt|Hge].
  - rewrite (digamma_recurrence_low fuel x a b Hlt Ha Hb).
    replace (a + 1 / x - a - 1 / x) with 0 by lra. rewrite Rabs_R0. lra.
  - rewrite digamma_ge6 in Ha, Hb by lra. injection Ha as <-. injection Hb as <-.
    apply digamma_asym_recurrence. lra.
Qed.

(** enough fuel always exists for a positive argument: 7 levels *)
Lemma digamma_positive_defined x : 0 < x -> exists v, digamma RO 7 x = Some v.
Proof.
  intros Hx.
  assert (step : forall fuel y, (exists v, digamma RO fuel (y + 1) = Some v) -> exists v, digamma RO (S fuel) y = Some v).
  { intros fuel y [v Hv]. rewrite digamma_S. destruct (ltb RO y (ofZ RO 6)); [|eauto].
    rewrite Hv. eauto. }
  do 6 apply step. replace (x + 1 + 1 + 1 + 1 + 1 + 1) with (x + 6) by ring.
  rewrite digamma_ge6 by lra. eauto.
Qed.

(** the series coefficients are −B_{2k}/(2k) (Bernoulli numbers from their defining recurrence) *)
Fixpoint zbinom (n k : nat) : Z :=
  match n, k with
  | _, 0%nat => 1%Z
  | 0%nat, S _ => 0%Z
  | S n', S k' => (zbinom n' k' + zbinom n' k)%Z
  end.
(** B_0..B_m, most recent first: B_m = −1/(m+1) Σ_{k<m} C(m+1,k) B_k *)
Fixpoint bernoulli_upto (m : nat) : list Q :=
  match m with
  | 0%nat => [1%Q]
  | S m' =>
      let prev := bernoulli_upto m' in           (* B_m' :: ... :: B_0 *)
      let idx := seq 0 (S m') in                  (* k = 0..m' matches rev prev *)
      let s := fold_left Qplus (map (fun '(k, b) => (inject_Z (zbinom (S (S m')) k) * b)%Q) (combine idx (rev prev))) 0%Q in
      Qred (- s / inject_Z (Z.of_nat (S (S m')))) :: prev
  end.
Definition bernoulli (n : nat) : Q := nth 0 (bernoulli_upto n) 0%Q.
Definition digamma_term_q (t : bool * Z * Z * Z) : Q * Z :=
  let '(negative, num, den, k) := t in (Qred ((if negative then Qopp else fun q => q) (num # Z.to_pos den)), k).
Lemma digamma_series_coeffs :
  map digamma_term_q digamma_terms =
  map (fun k => (Qred (- bernoulli (2 * k) / inject_Z (Z.of_nat (2 * k))), Z.of_nat (2 * k))) (seq 1 7).
Proof. vm_compute. reflexivity. Qed.

(** ** erf *)
Definition erfP (t : R) :=
  ((((Q2R (fst erf_a5) * t + Q2R (fst erf_a4)) * t) + Q2R (fst erf_a3)) * t + Q2R (fst erf_a2)) * t + Q2R (fst erf_a1).
Lemma erf_poly_pos t : 0 <= t <= 1 -> 1/10 <= erfP t.
Proof.
  intros Ht. unfold erfP, erf_a1, erf_a2, erf_a3, erf_a4, erf_a5; cbn [fst]; rewrite ?Q2R_simpl.
  interval with (i_bisect t, i_taylor t, i_degree 6).
Qed.
Lemma erf_poly_le1 t : 0 <= t <= 1 -> erfP t * t <= 1.
Proof.
  intros Ht. unfold erfP, erf_a1, erf_a2, erf_a3, erf_a4, erf_a5; cbn [fst]; rewrite ?Q2R_simpl.
  interval with (i_bisect t, i_taylor t, i_degree 6, i_prec 60).
Qed.

Lemma erf_nonneg_eq x :
  erf_nonneg RO x = 1 - erfP (1 / (1 + Q2R (fst erf_p) * x)) * (1 / (1 + Q2R (fst erf_p) * x)) * exp (- x * x).
Proof. reflexivity. Qed.

Lemma erf_nonneg_range x : 0 <= x -> 0 <= erf_nonneg RO x <= 1.
Proof.
  intros Hx. rewrite erf_nonneg_eq.
  set (t := 1 / (1 + Q2R (fst erf_p) * x)).
  assert (Hp : 0 < Q2R (fst erf_p)) by (unfold erf_p; cbn [fst]; rewrite Q2R_simpl; lra).
  assert (Hd : 1 <= 1 + Q2R (fst erf_p) * x) by nra.
  assert (Ht : 0 < t <= 1).
  { unfold t. split.
    - apply Rdiv_lt_0_compat; lra.
    - apply Rle_trans with (1 / 1); [|lra]. unfold Rdiv. rewrite !Rmult_1_l.
      apply Rinv_le_contravar; lra. }
  assert (He : 0 < exp (- x * x) <= 1).
  { split; [apply exp_pos|]. rewrite <- exp_0. destruct (Req_dec x 0) as [->|Hn].
    - replace (- 0 * 0) with 0 by ring. lra.
    - left. apply exp_increasing. nra. }
  pose proof (erf_poly_pos t ltac:(lra)) as H1. pose proof (erf_poly_le1 t ltac:(lra)) as H2.
  assert (0 <= erfP t * t) by nra. nra.
Qed.

Lemma erf_RO_nonneg x : 0 <= x -> erf RO x = erf_nonneg RO x.
Proof.
  intros Hx. unfold erf. cbn [leb zero RO]. unfold Rleb. destruct (Rle_dec 0 x); [reflexivity|lra].
Qed.
Lemma erf_RO_neg x : x < 0 -> erf RO x = - erf_nonneg RO (- x).
Proof.
  intros Hx. unfold erf. cbn [leb zero neg RO]. unfold Rleb. destruct (Rle_dec 0 x); [lra|reflexivity].
Qed.

Lemma erf_bounded x : Rabs (erf RO x) <= 1.
Proof.
  destruct (Rle_dec 0 x) as [Hx|Hx].
  - rewrite erf_RO_nonneg by lra. pose proof (erf_nonneg_range x Hx). apply Rabs_le. lra.
  - rewrite erf_RO_neg by lra. pose proof (erf_nonneg_range (- x) ltac:(lra)). apply Rabs_le. lra.
Qed.

Lemma erf_odd x : x <> 0 -> erf RO (- x) = - erf RO x.
Proof.
  intros Hx. destruct (Rlt_dec 0 x) as [Hp|Hn].
  - rewrite (erf_RO_neg (- x)) by lra. rewrite erf_RO_nonneg by lra. rewrite Ropp_involutive. reflexivity.
  - rewrite (erf_RO_nonneg (- x)) by lra. rewrite (erf_RO_neg x) by lra. lra.
Qed.

(** at 0 the formula gives 1 − (a1+…+a5) = 1e-9, not 0: the (recorded) oddness finding at x = 0 *)
Lemma erf_at_zero : erf RO 0 = 1 / 1000000000.
Proof.
  rewrite erf_RO_nonneg by lra. unfold_special.
  replace (- 0 * 0) with 0 by ring. rewrite exp_0. field.
Qed.
