(** Proofs for C07, part 0: finite sums over [nat], the real-carrier reading of the model's loops. *)
From Coq Require Import Reals List ZArith QArith Qreals Lra Lia.
From Compute Require Import Base.Ops Base.ListMat Model.Quad.
Import ListNotations.
Open Scope R_scope.

(** Σ_{i<n} g i *)
Fixpoint rsum (g : nat -> R) (n : nat) : R :=
  match n with
  | 0%nat => 0
  | S m => rsum g m + g m
  end.

Lemma rsum_ext_lt g h n : (forall i, (i < n)%nat -> g i = h i) -> rsum g n = rsum h n.
Proof.
  induction n as [|n IH]; intros H; cbn [rsum]; [reflexivity|].
  rewrite IH by (intros; apply H; lia). rewrite H by lia. reflexivity.
Qed.
Lemma rsum_ext g h n : (forall i, g i = h i) -> rsum g n = rsum h n.
Proof. intros H. apply rsum_ext_lt. intros; apply H. Qed.
Lemma rsum_lin al be g h n :
  rsum (fun i => al * g i + be * h i) n = al * rsum g n + be * rsum h n.
Proof. induction n as [|n IH]; cbn [rsum]; [ring|rewrite IH; ring]. Qed.
Lemma rsum_scal c g n : rsum (fun i => c * g i) n = c * rsum g n.
Proof. induction n as [|n IH]; cbn [rsum]; [ring|rewrite IH; ring]. Qed.
Lemma rsum_shift g n : rsum g (S n) = g 0%nat + rsum (fun i => g (S i)) n.
Proof. induction n as [|n IH]; [cbn; ring|]. cbn [rsum] in *. rewrite IH. ring. Qed.
Lemma rsum_rev g n : rsum g n = rsum (fun i => g (n - 1 - i)%nat) n.
Proof.
  induction n as [|n IH]; [reflexivity|].
  rewrite (rsum_shift (fun i => g (S n - 1 - i)%nat)). cbn [rsum].
  replace (S n - 1 - 0)%nat with n by lia.
  rewrite IH. rewrite Rplus_comm. f_equal.
  apply rsum_ext_lt. intros i Hi. f_equal. lia.
Qed.
Lemma rsum_zero n : rsum (fun _ => 0) n = 0.
Proof. induction n as [|n IH]; cbn [rsum]; [reflexivity|rewrite IH; ring]. Qed.
(** Σ_{i<n} (u + v i) = n u + v n (n-1)/2 *)
Lemma rsum_affine u v n : rsum (fun i => u + v * INR i) n = INR n * u + v * (INR n * (INR n - 1) / 2).
Proof.
  induction n as [|n IH]; [cbn; lra|].
  cbn [rsum]. rewrite IH, S_INR. field.
Qed.

(** ** real-carrier reading of the small pieces *)
Lemma negzero_R : negzero RO = 0.
Proof. unfold negzero. cbn. ring. Qed.
Lemma half_R : ofQ RO (1 # 2) = / 2.
Proof. cbn [ofQ RO]. unfold Q2R. cbn [Qnum Qden]. lra. Qed.
Lemma two_R : two RO = 2.
Proof. unfold two. cbn. ring. Qed.

Lemma ksum_R f a dx cnt k s :
  ksum RO f a dx cnt k s = s + rsum (fun i => f (a + IZR (k + Z.of_nat i) * dx)) cnt.
Proof.
  revert k s. induction cnt as [|c IH]; intros k s; cbn [ksum].
  - cbn. ring.
  - rewrite IH, rsum_shift. cbn [add mul ofZ RO].
    rewrite Z.add_0_r, Rplus_assoc. f_equal. f_equal.
    apply rsum_ext. intros i.
    replace (k + 1 + Z.of_nat i)%Z with (k + Z.of_nat (S i))%Z by lia. reflexivity.
Qed.
Lemma oddsum_R f a hn cnt k s :
  oddsum RO f a hn cnt k s = s + rsum (fun i => f (a + IZR (2 * (k + Z.of_nat i) - 1) * hn)) cnt.
Proof.
  revert k s. induction cnt as [|c IH]; intros k s; cbn [oddsum].
  - cbn. ring.
  - rewrite IH, rsum_shift. cbn [add mul ofZ RO].
    rewrite Z.add_0_r, Rplus_assoc. f_equal. f_equal.
    apply rsum_ext. intros i.
    replace (k + 1 + Z.of_nat i)%Z with (k + Z.of_nat (S i))%Z by lia. reflexivity.
Qed.
