(** * C17 on BINARY64: the libm-table hypotheses are DECIDABLE on a concrete table (boolean checkers + soundness), so for any
    recorded table they can be discharged by computation; and the value of the maximal output. *)
From Coq Require Import Reals Floats List Lra Lia Bool ZArith.
From Flocq Require Import Core BinarySingleNaN.
From Flocq Require PrimFloat.
From Compute Require Import Base.Ops Model.Transforms Spec.Transforms.
From Compute Require Import Proofs.C17_softmax_f64 Proofs.C17_float Proofs.C17_float_logistic.
Import ListNotations.
Local Open Scope R_scope.

Definition exp_tbl_unit_range_b (t : libm_table) (args : list f64) : bool :=
  forallb (fun a => implb (PrimFloat.leb a 0) (PrimFloat.leb 0 (texp t a) && PrimFloat.leb (texp t a) 1)) args.
Definition exp_tbl_one_at_zero_b (t : libm_table) (args : list f64) : bool :=
  forallb (fun a => implb (PrimFloat.eqb a 0) (PrimFloat.eqb (texp t a) 1)) args.
Definition exp_tbl_monotone_b (t : libm_table) (args : list f64) : bool :=
  forallb (fun a => forallb (fun b => implb (PrimFloat.leb a b) (PrimFloat.leb (texp t a) (texp t b))) args) args.
(** all three, on the arguments softmax passes to exp *)
Definition softmax_tbl_ok (t : libm_table) (x : list f64) : bool :=
  let args := softmax_args (FO t) x in
  exp_tbl_unit_range_b t args && exp_tbl_one_at_zero_b t args && exp_tbl_monotone_b t args.

Lemma exp_tbl_unit_range_b_sound t args : exp_tbl_unit_range_b t args = true -> exp_tbl_unit_range t args.
Proof.
  unfold exp_tbl_unit_range_b. rewrite forallb_forall. intros H a Ha Hle. specialize (H a Ha). rewrite Hle in H.
  cbn [implb] in H. apply andb_prop in H. destruct H as [H0 H1]. apply unit_fin; assumption.
Qed.

Lemma eqb1_val (e : f64) : PrimFloat.eqb e 1 = true -> val e = 1.
Proof.
  intros H. assert (Fe : fin e).
  { rewrite FP.eqb_equiv in H. destruct one_cases as (mm & ee & HH & E1). rewrite E1 in H. unfold fin.
    destruct (FP.Prim2B e) as [s|s| |s m2 e2 H2]; try reflexivity; [destruct s; discriminate H|discriminate H]. }
  rewrite FP.eqb_equiv, Beqb_correct in H by (try exact Fe; apply fin_one).
  fold (val e) (val 1%float) in H. rewrite val_one in H. destruct (Req_bool_spec (val e) 1); [assumption|discriminate].
Qed.

Lemma exp_tbl_one_at_zero_b_sound t args : exp_tbl_one_at_zero_b t args = true -> exp_tbl_one_at_zero t args.
Proof.
  unfold exp_tbl_one_at_zero_b. rewrite forallb_forall. intros H a Ha Hz. specialize (H a Ha). rewrite Hz in H.
  apply eqb1_val. exact H.
Qed.

Lemma exp_tbl_monotone_b_sound t args : exp_tbl_monotone_b t args = true -> exp_tbl_monotone t args.
Proof.
  unfold exp_tbl_monotone_b. rewrite forallb_forall. intros H a b Ha Hb Hle. specialize (H a Ha).
  rewrite forallb_forall in H. specialize (H b Hb). rewrite Hle in H. exact H.
Qed.

Lemma softmax_tbl_ok_sound t x : softmax_tbl_ok t x = true ->
  exp_tbl_unit_range t (softmax_args (FO t) x) /\ exp_tbl_one_at_zero t (softmax_args (FO t) x) /\
  exp_tbl_monotone t (softmax_args (FO t) x).
Proof.
  unfold softmax_tbl_ok. cbn zeta. intros H. apply andb_prop in H. destruct H as [H H3].
  apply andb_prop in H. destruct H as [H1 H2].
  split; [apply exp_tbl_unit_range_b_sound, H1|]. split; [apply exp_tbl_one_at_zero_b_sound, H2|apply exp_tbl_monotone_b_sound, H3].
Qed.

(** finiteness of the inputs is decidable too *)
Definition all_finite_b (x : list f64) : bool := forallb (fun v => is_finite (FP.Prim2B v)) x.
Lemma all_finite_b_sound x : all_finite_b x = true -> Forall fin x.
Proof. unfold all_finite_b. rewrite forallb_forall. intros H. apply Forall_forall. exact H. Qed.

(** ** the output at a maximal input is the rounded reciprocal of the denominator, hence at least the rounded 1/n > 0 *)
Section MaxValue.
  Variable t : libm_table.
  Variable x : list f64.
  Hypothesis Hne : x <> [].
  Hypothesis Fx : Forall fin x.
  Hypothesis Hlen : (Z.of_nat (length x) < 2 ^ 53)%Z.
  Hypothesis Hrange : exp_tbl_unit_range t (softmax_args (FO t) x).
  Hypothesis Hone : exp_tbl_one_at_zero t (softmax_args (FO t) x).

  Lemma softmax_max_value_f64 (j : nat) : (j < length x)%nat ->
    (forall v, In v x -> val v <= val (nth j x 0%float)) ->
    val (nth j (softmax (FO t) x) 0%float) = rnd (1 / val (softmax_denom (FO t) x)) /\
    rnd (1 / IZR (Z.of_nat (length x))) <= val (nth j (softmax (FO t) x) 0%float) /\
    0 < val (nth j (softmax (FO t) x) 0%float).
  Proof.
    intros Hj Hmax. set (v := nth j x 0%float). assert (Hv : In v x) by (apply nth_In, Hj).
    destruct (softmax_shift_f64 t x Hne Fx) as [Hin Hall]. set (m := softmax_shift (FO t) x) in *.
    pose proof Fx as Fx'. rewrite Forall_forall in Fx'.
    assert (Evm : val v = val m) by (apply Rle_antisym; [apply Hall, Hv|apply Hmax, Hin]).
    assert (Hz : PrimFloat.eqb (v - m) 0 = true).
    { destruct (sub_cases v m (Fx' v Hv) (Fx' m Hin) ltac:(lra)) as [(_ & Fd & Vd)|(Bd & _)].
      - rewrite FP.eqb_equiv, Beqb_correct by (try exact Fd; apply fin_zero).
        fold (val (v - m)%float) (val 0%float). rewrite Vd, val_zero. replace (val v - val m) with 0 by lra.
        rewrite rnd_0. apply Req_bool_true. reflexivity.
      - exfalso. replace (val v - val m) with 0 in Bd by lra. rewrite rnd_0, Rabs_R0 in Bd.
        pose proof (bpow_gt_0 radix2 emax). lra. }
    pose proof (Hone _ (sm_arg_in t x v Hv) Hz) as V1. fold m in V1.
    destruct (sm_entry t x Hne Fx Hlen Hrange Hone v Hv) as (_ & Vp & _). cbn zeta in Vp. fold m in Vp.
    destruct (sm_denom t x Hne Fx Hlen Hrange Hone) as [_ [Hs1 Hsn]].
    rewrite (nth_softmax t x j Hj). fold v m. rewrite Vp, V1.
    split; [reflexivity|].
    assert (Hn : 1 <= IZR (Z.of_nat (length x))) by lra.
    assert (Hq : / IZR (Z.of_nat (length x)) <= / val (softmax_denom (FO t) x)) by (apply Rinv_le_contravar; lra).
    split.
    - apply rnd_le. unfold Rdiv. rewrite !Rmult_1_l. exact Hq.
    - (* 1/s >= 2^-53 > 0 is representable, so the rounded quotient stays above it *)
      apply Rlt_le_trans with (bpow radix2 (-53)); [apply bpow_gt_0|].
      rewrite <- (round_generic radix2 (fexp prec emax) (round_mode mode_NE) (bpow radix2 (-53))).
      + apply rnd_le. unfold Rdiv. rewrite Rmult_1_l.
        apply Rle_trans with (/ IZR (Z.of_nat (length x))); [|exact Hq].
        change (bpow radix2 (-53)) with (/ IZR (Z.pow_pos 2 53)). apply Rinv_le_contravar; [lra|].
        apply IZR_le. change (Z.pow_pos 2 53) with (2 ^ 53)%Z. lia.
      + apply generic_format_bpow. vm_compute. discriminate.
  Qed.
End MaxValue.

(** the decidable form of the softmax theorems: everything to the left of the arrow is a boolean computed from the recorded
    table and the input *)
Lemma softmax_f64_decidable t (x : list f64) :
  x <> [] -> all_finite_b x = true -> (Z.of_nat (length x) <= 2 ^ 25)%Z -> softmax_tbl_ok t x = true ->
  Forall (fun p => fin p /\ 0 <= val p <= 1) (softmax (FO t) x) /\
  (forall i j : nat, (i < length x)%nat -> (j < length x)%nat -> val (nth i x 0%float) <= val (nth j x 0%float) ->
     val (nth i (softmax (FO t) x) 0%float) <= val (nth j (softmax (FO t) x) 0%float)) /\
  Rabs (Rsum (map val (softmax (FO t) x)) - 1) <= (INR (length x) + 2) * / 2 ^ 53 + INR (length x) * / 2 ^ 1075.
Proof.
  intros Hne Hf Hlen Hok. apply all_finite_b_sound in Hf. destruct (softmax_tbl_ok_sound t x Hok) as (H1 & H2 & H3).
  assert (Hlen' : (Z.of_nat (length x) < 2 ^ 53)%Z) by lia.
  split; [apply softmax_range_f64; assumption|]. split.
  - apply softmax_order_f64; assumption.
  - apply softmax_sum_linear_f64; assumption.
Qed.

Example softmax_f64_decidable_ex :
  softmax_tbl_ok softmax_ex_tbl softmax_ex_x = true /\ all_finite_b softmax_ex_x = true.
Proof. split; vm_compute; reflexivity. Qed.
