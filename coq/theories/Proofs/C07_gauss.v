(** Proofs for C07, part 6: the symmetric Gauss-Legendre rule [quad5] with the regenerated tables (Tie A). *)
From Coq Require Import Reals List ZArith QArith Qreals Lra Lia Bool Floats FunctionalExtensionality.
From Compute Require Import Base.Ops Base.ListMat Model.Quad Spec.Quad Generated.quad_tables
  Proofs.C07_base Proofs.C07_hom Proofs.C07_poly Proofs.C07_romberg Proofs.C07_romberg_exact.
Import ListNotations.

Section GL.
  Context {T : Type} (O : Ops T).
  Definition gl_step (f : T -> T) (xm xr : T) (s : T) (nw : (Q * float) * (Q * float)) : T :=
    let dx := mul O xr (ofLit O (fst nw)) in
    add O s (mul O (ofLit O (snd nw)) (add O (f (add O xm dx)) (f (sub O xm dx)))).
  Definition gl_fold (f : T -> T) (xm xr : T) (tbl : list ((Q * float) * (Q * float))) (s : T) : T :=
    fold_left (gl_step f xm xr) tbl s.
  Lemma quad5_fold f a b :
    quad5 O f a b =
    mul O (gl_fold f (mul O (ofQ O (1 # 2)) (add O b a)) (mul O (ofQ O (1 # 2)) (sub O b a))
                   (combine gauss_nodes gauss_weights) (negzero O))
          (mul O (ofQ O (1 # 2)) (sub O b a)).
  Proof. reflexivity. Qed.
End GL.

Section HomGL.
  Context {A B : Type} (OA : Ops A) (OB : Ops B) (h : A -> B) (H : hom OA OB h).
  Lemma h_gl_fold fa fb xm xr tbl : frel h fa fb -> forall s,
    h (gl_fold OA fa xm xr tbl s) = gl_fold OB fb (h xm) (h xr) tbl (h s).
  Proof.
    intros Hf. unfold gl_fold. induction tbl as [|nw tbl IH]; intros s; cbn [fold_left]; [reflexivity|].
    rewrite IH. f_equal. unfold gl_step.
    repeat (rewrite ?(h_add _ _ _ H), ?(h_sub _ _ _ H), ?(h_mul _ _ _ H), ?Hf, ?(h_ofLit _ _ _ H)).
    reflexivity.
  Qed.
  Lemma h_quad5 fa fb a b : frel h fa fb -> h (quad5 OA fa a b) = quad5 OB fb (h a) (h b).
  Proof.
    intros Hf. rewrite !quad5_fold, (h_mul _ _ _ H), (h_gl_fold fa fb _ _ _ Hf).
    rewrite !(h_mul _ _ _ H), (h_ofQ _ _ _ H), (h_add _ _ _ H), (h_sub _ _ _ H), (h_negzero _ _ _ H). reflexivity.
  Qed.
End HomGL.

(** Tie A: each regenerated binary64 constant is a nearest double of its decimal literal *)
Lemma gauss_literals_ok : forallb lit_ok gauss_literals = true.
Proof. vm_compute. reflexivity. Qed.

(** ** the monomial table on [-1,1], on rationals *)
Definition gl_mono_q (j : nat) : Q := quad5 QO (fun x => qpow x j) (neg QO (one QO)) (one QO).
Definition moment_q (j : nat) : Q := if Nat.even j then 2 # Pos.of_nat (S j) else 0.
Definition gl_tol_q : Q := 1 # 1000000000000000.
Definition gl_degree : nat := 20.   (* number of monomials checked: degrees 0..19 *)
(** |Q_j - m_j| <= 1e-15 for j = 0..19, and the odd monomials vanish exactly.  (The predicate is written as a
    lambda so that its use needs only beta/zeta steps at [Qed] time.) *)
Lemma gl_table_ok :
  forallb (fun j => let v := gl_mono_q j in
                    Qle_bool (v - moment_q j) gl_tol_q && Qle_bool (- gl_tol_q) (v - moment_q j)
                    && (Nat.even j || Qeq_bool v 0)) (seq 0 gl_degree) = true.
Proof. vm_cast_no_check (eq_refl true). Qed.
(** the table is not exact to 1e-15 at degree 20 *)
Lemma gl_table_sharp :
  Qle_bool (gl_mono_q 20 - moment_q 20) gl_tol_q && Qle_bool (- gl_tol_q) (gl_mono_q 20 - moment_q 20) = false.
Proof. vm_compute. reflexivity. Qed.

Lemma gl_bits j : (j < gl_degree)%nat ->
  Qle_bool (gl_mono_q j - moment_q j) gl_tol_q = true /\ Qle_bool (- gl_tol_q) (gl_mono_q j - moment_q j) = true
  /\ (Nat.even j || Qeq_bool (gl_mono_q j) 0) = true.
Proof.
  intros Hj. pose proof (forallb_seq_spec _ gl_degree gl_table_ok j Hj) as Ht. cbv beta zeta in Ht.
  apply andb_true_iff in Ht. destruct Ht as [Ht H3]. apply andb_true_iff in Ht. destruct Ht as [H1 H2]. auto.
Qed.

Open Scope R_scope.

Definition moment (j : nat) : R := (1 - (-1) ^ S j) / INR (S j).
Lemma moment_q_R j : Q2R (moment_q j) = moment j.
Proof.
  unfold moment_q, moment. destruct (Nat.even j) eqn:E.
  - apply Nat.even_spec in E. destruct E as [n ->].
    replace (S (2 * n)) with (S (2 * n))%nat by reflexivity. rewrite pow_1_odd.
    unfold Q2R. cbn [Qnum Qden]. rewrite <- Pos.of_nat_succ, Zpos_P_of_succ_nat, <- Nat2Z.inj_succ, <- INR_IZR_INZ.
    unfold Rdiv. ring.
  - assert (Ho : Nat.odd j = true) by (rewrite <- Nat.negb_even, E; reflexivity).
    apply Nat.odd_spec in Ho. destruct Ho as [n ->].
    replace (S (2 * n + 1)) with (2 * (S n))%nat by lia. rewrite pow_1_even.
    rewrite RMicromega.Q2R_0. unfold Rdiv. ring.
Qed.
Lemma gl_mono_transport j : Q2R (gl_mono_q j) = quad5 RO (fun x => x ^ j) (-1) 1.
Proof.
  unfold gl_mono_q.
  pose proof (qpow_frel j) as Hf.
  rewrite (h_quad5 QO RO Q2R hom_Q2R _ _ _ _ Hf).
  rewrite (h_neg _ _ _ hom_Q2R), (h_one _ _ _ hom_Q2R). reflexivity.
Qed.
Lemma gl_tol_R : Q2R gl_tol_q = 1e-15.
Proof. unfold gl_tol_q, Q2R; cbn [Qnum Qden]; lra. Qed.
Lemma gl_monomial j : (j < gl_degree)%nat -> Rabs (quad5 RO (fun x => x ^ j) (-1) 1 - moment j) <= 1e-15.
Proof.
  intros Hj. destruct (gl_bits j Hj) as (H1 & H2 & _).
  apply Qle_bool_imp_le, Qle_Rle in H1. apply Qle_bool_imp_le, Qle_Rle in H2.
  rewrite Q2R_minus, gl_mono_transport, moment_q_R in H1, H2. rewrite Q2R_opp in H2.
  rewrite gl_tol_R in H1, H2. apply Rabs_le. lra.
Qed.
Lemma gl_monomial_odd j : (j < gl_degree)%nat -> Nat.odd j = true -> quad5 RO (fun x => x ^ j) (-1) 1 = 0.
Proof.
  intros Hj Ho. destruct (gl_bits j Hj) as (_ & _ & Ht).
  apply orb_true_iff in Ht. destruct Ht as [Ht|Ht]; [rewrite <- Nat.negb_odd, Ho in Ht; discriminate|].
  apply Qeq_bool_eq, Qeq_eqR in Ht. rewrite gl_mono_transport, RMicromega.Q2R_0 in Ht. exact Ht.
Qed.

(** ** linearity, symmetry, affine substitution *)
Lemma gl_fold_lin al be f g xm xr tbl : forall s s',
  gl_fold RO (fun x => al * f x + be * g x) xm xr tbl (al * s + be * s')
  = al * gl_fold RO f xm xr tbl s + be * gl_fold RO g xm xr tbl s'.
Proof.
  unfold gl_fold. induction tbl as [|nw tbl IH]; intros s s'; cbn [fold_left]; [reflexivity|].
  rewrite <- IH. f_equal. unfold gl_step. cbn [add sub mul RO]. ring.
Qed.
Lemma quad5_linear al be f g a b :
  quad5 RO (fun x => al * f x + be * g x) a b = al * quad5 RO f a b + be * quad5 RO g a b.
Proof.
  rewrite !quad5_fold.
  replace (negzero RO) with (al * negzero RO + be * negzero RO) at 1 by (rewrite negzero_R; ring).
  rewrite gl_fold_lin. cbn [mul RO]. ring.
Qed.
Lemma quad5_empty f a : quad5 RO f a a = 0.
Proof. rewrite quad5_fold. cbn [mul sub RO]. replace (a - a) with 0 by ring. ring. Qed.
Lemma gl_fold_ext f g xm xr xm' xr' tbl :
  (forall t, f (xm + xr * t) + f (xm - xr * t) = g (xm' + xr' * t) + g (xm' - xr' * t)) ->
  forall s, gl_fold RO f xm xr tbl s = gl_fold RO g xm' xr' tbl s.
Proof.
  intros Hfg. unfold gl_fold. induction tbl as [|nw tbl IH]; intros s; cbn [fold_left]; [reflexivity|].
  rewrite IH. f_equal. unfold gl_step. cbn [add sub mul RO]. rewrite Hfg. reflexivity.
Qed.
Lemma quad5_swap f a b : quad5 RO f b a = - quad5 RO f a b.
Proof.
  rewrite !quad5_fold. cbn [add sub mul RO]. rewrite half_R.
  rewrite (gl_fold_ext f f (/ 2 * (a + b)) (/ 2 * (a - b)) (/ 2 * (b + a)) (/ 2 * (b - a))).
  - ring.
  - intros t. rewrite Rplus_comm. f_equal; f_equal; ring.
Qed.
(** the rule on [a,b] is (b-a)/2 times the rule on [-1,1] applied to f∘(xm + xr·) *)
Lemma quad5_affine f a b :
  quad5 RO f a b = (b - a) / 2 * quad5 RO (fun t => f ((b + a) / 2 + (b - a) / 2 * t)) (-1) 1.
Proof.
  rewrite !quad5_fold. cbn [add sub mul RO]. rewrite half_R.
  rewrite (gl_fold_ext f (fun t => f ((b + a) / 2 + (b - a) / 2 * t))
             (/ 2 * (b + a)) (/ 2 * (b - a)) (/ 2 * (1 + -1)) (/ 2 * (1 - -1))).
  - field.
  - intros t. f_equal; f_equal; field.
Qed.
(** integrands odd about the midpoint integrate to exactly 0 *)
Lemma gl_fold_odd f xm xr tbl : (forall t, f (xm + t) = - f (xm - t)) -> forall s, gl_fold RO f xm xr tbl s = s.
Proof.
  intros Ho. unfold gl_fold. induction tbl as [|nw tbl IH]; intros s; cbn [fold_left]; [reflexivity|].
  rewrite IH. unfold gl_step. cbn [add sub mul RO]. rewrite Ho. ring.
Qed.
Lemma quad5_odd f a b :
  (forall t, f ((b + a) / 2 + t) = - f ((b + a) / 2 - t)) -> quad5 RO f a b = 0.
Proof.
  intros Ho. rewrite quad5_fold, gl_fold_odd, negzero_R.
  - cbn [mul RO]. ring.
  - intros t. cbn [add mul RO]. rewrite half_R. replace (/ 2 * (b + a)) with ((b + a) / 2) by field. apply Ho.
Qed.

(** ** exactness to 1e-15 (relative to the size of the transformed coefficients) up to degree 19 *)
Lemma msum_close (L : (R -> R) -> R) (w : nat -> R) e p : forall i,
  (forall j, (i <= j < i + length p)%nat -> Rabs (L (fun x => x ^ j) - w j) <= e) ->
  Rabs (msum L i p - wsum w i p) <= e * norm1 p.
Proof.
  induction p as [|c p IH]; intros i Hw.
  - cbn. rewrite Rminus_0_r, Rabs_R0. lra.
  - rewrite wsum_cons. cbn [msum norm1 fold_right]. fold (norm1 p).
    replace (c * L (fun x => x ^ i) + msum L (S i) p - (c * w i + wsum w (S i) p))
      with (c * (L (fun x => x ^ i) - w i) + (msum L (S i) p - wsum w (S i) p)) by ring.
    eapply Rle_trans; [apply Rabs_triang|]. rewrite Rabs_mult.
    specialize (IH (S i) ltac:(intros j Hj; apply Hw; cbn [length]; lia)).
    specialize (Hw i ltac:(cbn [length]; lia)).
    pose proof (Rabs_pos c). nra.
Qed.

Lemma quad5_exact p a b :
  (length p <= gl_degree)%nat ->
  Rabs (quad5 RO (horner RO p) a b - poly_int p a b)
  <= 1e-15 * (Rabs (b - a) / 2) * norm1 (comp_aff p ((b + a) / 2) ((b - a) / 2)).
Proof.
  intros Hp. rewrite quad5_affine.
  set (xm := (b + a) / 2). set (xr := (b - a) / 2). set (q := comp_aff p xm xr).
  replace (fun t => horner RO p (xm + xr * t)) with (horner RO q)
    by (apply functional_extensionality; intros t; apply horner_comp_aff).
  set (L := fun f => quad5 RO f (-1) 1).
  assert (L_lin : forall al be f g, L (fun x => al * f x + be * g x) = al * L f + be * L g)
    by (intros al be f g; unfold L; exact (quad5_linear al be f g (-1) 1)).
  change (quad5 RO (horner RO q) (-1) 1) with (L (horner RO q)). rewrite (L_poly L L_lin q).
  replace (poly_int p a b) with (xr * wsum moment 0 q).
  - rewrite <- Rmult_minus_distr_l, Rabs_mult.
    replace (Rabs xr) with (Rabs (b - a) / 2)
      by (unfold xr, Rdiv; rewrite Rabs_mult, (Rabs_pos_eq (/ 2)) by lra; reflexivity).
    pose proof (msum_close L moment 1e-15 q 0) as Hc.
    assert (Hc' : Rabs (msum L 0 q - wsum moment 0 q) <= 1e-15 * norm1 q).
    { apply Hc. intros j Hj. unfold L. apply gl_monomial. unfold q in Hj. rewrite comp_aff_length in Hj. lia. }
    pose proof (Rabs_pos (b - a)). nra.
  - change (wsum moment 0 q) with (wsum (fun j => (1 - (-1) ^ S j) / INR (S j)) 0 q).
    rewrite <- poly_int_from_sym. fold (poly_int q (-1) 1). unfold q. rewrite poly_int_subst.
    unfold xm, xr. f_equal; field.
Qed.
