(** Proofs for C11 (extension), floating point, part 2: componentwise backward error of the two triangular solves of
    [Model/Subst.v] on binary64, residual form:
        | b_i - (T x)_i |  <=  ((1+2^-53)^n - 1) * Sigma_j |T_ij| |x_j|          (x the COMPUTED doubles),
    for every order n, every T with nonzero (finite) diagonal, whenever the computed x is finite (no overflow anywhere)
    and no product t_ij x_j and no quotient s_i / t_ii underflows.  Row i of the forward solve even has the constant
    (1+2^-53)^(i+1) - 1, row i of the backward solve (1+2^-53)^(n-i) - 1.
    First the recurrence satisfied by the result on EVERY carrier (it exposes the intermediate numerators
    s_i = b_i - dot(..) as subterms of the model, so the side conditions can be stated on them). *)
From Coq Require Import List Arith Bool ZArith Reals Lra Lia Floats.
From Flocq Require Import Core Relative Plus_error BinarySingleNaN PrimFloat.
From Compute Require Import Base.Ops Base.ListMat Model.Reduce Model.MatMul Model.Subst Spec.Vops Spec.Factor
  Proofs.C04Red Proofs.C04Err Proofs.C04ErrF Proofs.C04ErrDot Proofs.C04ErrNP Proofs.C05 Proofs.LinAlgBase Proofs.C11_Subst
  Proofs.C11_FloatBase.
Import ListNotations.
Local Open Scope R_scope.

(** ** the recurrence, on every carrier: the slices are those of the Rust code,
    [&l[i*n..i*n+i]], [&x[..i]]   and   [&u[i*n+i+1..i*n+n]], [&x[i+1..]] *)
Lemma skipn_skipn' {A} (a c : nat) : forall l : list A, skipn a (skipn c l) = skipn (c + a) l.
Proof. induction c as [|c IH]; intros l; [reflexivity|]. destruct l as [|h l]; [destruct a; reflexivity|apply IH]. Qed.

Section Recurrence.
  Context {T : Type} (O : Ops T).
  Local Notation z := (zero O).

  Lemma forward_recurrence (l b x : list T) (n : nat) :
    forward_substitution O l b = Some x -> (n * n)%nat = length l ->
    length b = n /\ length x = n /\
    forall i, (i < n)%nat ->
      nth i x z = div O (sub O (nth i b z) (dot_raw O (firstn i (skipn (i * n) l)) (firstn i x))) (nth (i * n + i) l z).
  Proof.
    intros H Hn. unfold forward_substitution in H. rewrite <- Hn, is_square_sq in H. cbn [bind] in H.
    destruct (Nat.eqb_spec (length b) n) as [Hb|]; cbn [guard bind] in H; [|discriminate].
    inversion H; subst x; clear H.
    set (g := fun (i : nat) (x : list T) =>
                div O (sub O (nth i b z) (dot_raw O (firstn i (nth i (unflatten l n n) [])) x))
                      (nth i (nth i (unflatten l n n) []) z)).
    change (forward_rows O (unflatten l n n) b n) with (build g n).
    split; [exact Hb|]. split; [apply build_length|].
    intros i Hi. rewrite (build_nth z g n i Hi), (build_firstn g n i) by lia. unfold g at 1.
    rewrite nth_unflatten by exact Hi. rewrite nth_row_of by exact Hi.
    unfold row_of. rewrite firstn_firstn, Nat.min_l by lia. reflexivity.
  Qed.

  Lemma backward_recurrence (u b x : list T) (n : nat) :
    backward_substitution O u b = Some x -> (n * n)%nat = length u ->
    length b = n /\ length x = n /\
    forall i, (i < n)%nat ->
      nth i x z = div O (sub O (nth i b z) (dot_raw O (firstn (n - S i) (skipn (i * n + S i) u)) (skipn (S i) x)))
                        (nth (i * n + i) u z).
  Proof.
    intros H Hn. unfold backward_substitution in H. rewrite <- Hn, is_square_sq in H. cbn [bind] in H.
    destruct (Nat.eqb_spec (length b) n) as [Hb|]; cbn [guard bind] in H; [|discriminate].
    inversion H; subst x; clear H.
    set (g := fun (i : nat) (x : list T) =>
                div O (sub O (nth i b z) (dot_raw O (skipn (S i) (nth i (unflatten u n n) [])) x))
                      (nth i (nth i (unflatten u n n) []) z)).
    change (backward_rows O (unflatten u n n) b n) with (build_rev g 0 n).
    split; [exact Hb|]. split; [apply build_rev_length|].
    intros i Hi. rewrite (build_rev_nth z g 0 n i Hi). cbn [Nat.add]. unfold g at 1.
    rewrite nth_unflatten by exact Hi. rewrite nth_row_of by exact Hi.
    unfold row_of. rewrite skipn_firstn_comm, skipn_skipn'. reflexivity.
  Qed.
End Recurrence.

(** ** list / sum plumbing *)
Lemma nth_map_B2Rf (l : list pfloat) (k : nat) : nth k (map B2Rf l) 0 = B2Rf (nth k l 0%float).
Proof.
  transitivity (nth k (map B2Rf l) (B2Rf 0%float)); [f_equal; symmetry; apply B2Rf_zero|apply map_nth].
Qed.

Lemma Forall2_nth_intro {A B} (P : A -> B -> Prop) (da : A) (db : B) :
  forall l1 l2, length l1 = length l2 ->
    (forall k, (k < length l1)%nat -> P (nth k l1 da) (nth k l2 db)) -> Forall2 P l1 l2.
Proof.
  induction l1 as [|a l1 IH]; intros [|b l2] Hl H; cbn [length] in *; try discriminate; constructor.
  - apply (H 0%nat). lia.
  - apply IH; [lia|]. intros k Hk. apply (H (S k)). lia.
Qed.

Lemma Rsum_rsum (l : list R) : Rsum l = rsum (fun k => nth k l 0) (length l).
Proof. exact (lsum_rsum l). Qed.

Lemma Rdot_rsum (a b : list R) :
  length a = length b -> Rdot a b = rsum (fun k => nth k a 0 * nth k b 0) (length a).
Proof.
  intros Hl. unfold Rdot. rewrite Rsum_rsum, (C04ErrDot.map2_length Rmult a b Hl).
  apply rsum_ext. intros k Hk. apply nth_map2; lia.
Qed.

Lemma Asum_map2_rsum (a b : list R) :
  length a = length b ->
  Rsum (map Rabs (map2 Rmult a b)) = rsum (fun k => Rabs (nth k a 0) * Rabs (nth k b 0)) (length a).
Proof.
  intros Hl. rewrite Rsum_rsum, map_length, (C04ErrDot.map2_length Rmult a b Hl).
  apply rsum_ext. intros k Hk.
  transitivity (nth k (map Rabs (map2 Rmult a b)) (Rabs 0)); [f_equal; symmetry; apply Rabs_R0|].
  rewrite map_nth, (nth_map2 Rmult a b k 0 0 0) by lia. apply Rabs_mult.
Qed.

(** a sum over a triangular part, for any combination [F] of the entry and the vector component with [F 0 y = 0] *)
Lemma rsum_lower_gen (F : R -> R -> R) f g i n :
  (i < n)%nat -> (forall y, F 0 y = 0) ->
  rsum (fun k => F (if (k <=? i)%nat then f k else 0) (g k)) n = rsum (fun k => F (f k) (g k)) (S i).
Proof.
  intros Hi HF. rewrite <- (rsum_lower (fun k => F (f k) (g k)) i n Hi).
  apply rsum_ext. intros k _. destruct (k <=? i)%nat; [reflexivity|apply HF].
Qed.

Lemma rsum_upper_gen (F : R -> R -> R) f g i n :
  (i < n)%nat -> (forall y, F 0 y = 0) ->
  rsum (fun k => F (if (i <=? k)%nat then f k else 0) (g k)) n
  = F (f i) (g i) + rsum (fun m => F (f (S i + m)%nat) (g (S i + m)%nat)) (n - S i).
Proof.
  intros Hi HF.
  transitivity (rsum (fun k => if (i <=? k)%nat then F (f k) (g k) else 0) n).
  { apply rsum_ext. intros k _. destruct (i <=? k)%nat; [reflexivity|apply HF]. }
  rewrite (rsum_upper (fun k => F (f k) (g k)) i n) by lia.
  replace (n - i)%nat with (S (n - S i)) by lia. rewrite rsum_shift, Nat.add_0_r.
  f_equal. apply rsum_ext. intros m _. replace (i + S m)%nat with (S i + m)%nat by lia. reflexivity.
Qed.

Lemma Fmul0 : forall y : R, 0 * y = 0.                       Proof. intros; ring. Qed.
Lemma Fabs0 : forall y : R, Rabs 0 * Rabs y = 0.             Proof. intros; rewrite Rabs_R0; ring. Qed.

Lemma rsum_abs_nonneg (f g : nat -> R) n : 0 <= rsum (fun k => Rabs (f k) * Rabs (g k)) n.
Proof. apply rsum_nonneg. intros k _. apply Rmult_le_pos; apply Rabs_pos. Qed.

(** ** forward substitution on binary64: residual form, row by row *)
Section Forward.
  Variables (tbl : libm_table) (l b x : list pfloat) (n : nat).
  Hypothesis Hrun : forward_substitution (FO tbl) l b = Some x.
  Hypothesis Hn : (n * n)%nat = length l.
  Hypothesis Hdiag : forall i, (i < n)%nat -> B2Rf (nth (i * n + i) l 0%float) <> 0.
  Hypothesis Hfin : Forall finite x.
  Hypothesis Hprod : forall i j, (i < n)%nat -> (j < i)%nat ->
    no_underflow (B2Rf (nth (i * n + j) l 0%float) * B2Rf (nth j x 0%float)).
  Hypothesis Hquot : forall i, (i < n)%nat ->
    no_underflow (B2Rf (nth i b 0 - dot_raw (FO tbl) (firstn i (skipn (i * n) l)) (firstn i x))%float
                  / B2Rf (nth (i * n + i) l 0%float)).

  Lemma fwd_F_row (i : nat) :
    (i < n)%nat ->
    finite (nth i b 0%float) /\
    Rabs (nth i (map B2Rf b) 0 - rsum (fun k => lower_part (map B2Rf l) n i k * nth k (map B2Rf x) 0) n)
    <= E u64 (S i) * rsum (fun k => Rabs (lower_part (map B2Rf l) n i k) * Rabs (nth k (map B2Rf x) 0)) n.
  Proof.
    intros Hi. destruct (forward_recurrence (FO tbl) l b x n Hrun Hn) as (Hbl & Hxl & Hrec).
    specialize (Hrec i Hi). cbn [zero FO] in Hrec.
    set (r := firstn i (skipn (i * n) l)) in *. set (xs := firstn i x) in *.
    assert (Hlr : length r = i).
    { unfold r. rewrite firstn_length, skipn_length, <- Hn. apply Nat.min_l. nia. }
    assert (Hlxs : length xs = i) by (unfold xs; rewrite firstn_length, Hxl; lia).
    assert (Hnr : forall k, (k < i)%nat -> nth k r 0%float = nth (i * n + k) l 0%float).
    { intros k Hk. unfold r. rewrite nth_firstn_lt by exact Hk. apply nth_skipn_plus. }
    assert (Hnx : forall k, (k < i)%nat -> nth k xs 0%float = nth k x 0%float).
    { intros k Hk. unfold xs. apply nth_firstn_lt. exact Hk. }
    assert (Hfi : finite (nth i x 0%float)).
    { apply (proj1 (Forall_forall finite x) Hfin). apply nth_In. lia. }
    rewrite Hrec in Hfi.
    destruct (row_F_error tbl r xs (nth i b 0%float) (nth (i * n + i) l 0%float)) as (Hfb & _ & Herr).
    - lia.
    - apply Hdiag; exact Hi.
    - exact Hfi.
    - apply (Forall2_nth_intro _ 0%float 0%float); [lia|].
      intros k Hk. rewrite Hlr in Hk. rewrite Hnr, Hnx by exact Hk. apply Hprod; assumption.
    - apply Hquot; exact Hi.
    - split; [exact Hfb|].
      rewrite <- Hrec in Herr. rewrite <- u64_val in Herr. fold (E u64 (S (length r))) in Herr.
      rewrite Hlr in Herr.
      rewrite Rdot_rsum, Asum_map2_rsum in Herr by (rewrite !map_length; lia).
      rewrite map_length, Hlr in Herr.
      unfold lower_part.
      rewrite (rsum_lower_gen Rmult (fun k => getm (map B2Rf l) n i k) _ i n Hi Fmul0).
      rewrite (rsum_lower_gen (fun a y => Rabs a * Rabs y) (fun k => getm (map B2Rf l) n i k) _ i n Hi Fabs0).
      cbn [rsum]. unfold getm. rewrite !nth_map_B2Rf.
      rewrite (rsum_ext (fun k => nth (i * n + k) (map B2Rf l) 0 * nth k (map B2Rf x) 0)
                        (fun k => nth k (map B2Rf r) 0 * nth k (map B2Rf xs) 0)).
      2:{ intros k Hk. rewrite !nth_map_B2Rf, Hnr, Hnx by exact Hk. reflexivity. }
      rewrite (rsum_ext (fun k => Rabs (nth (i * n + k) (map B2Rf l) 0) * Rabs (nth k (map B2Rf x) 0))
                        (fun k => Rabs (nth k (map B2Rf r) 0) * Rabs (nth k (map B2Rf xs) 0))).
      2:{ intros k Hk. rewrite !nth_map_B2Rf, Hnr, Hnx by exact Hk. reflexivity. }
      rewrite <- Rabs_mult. exact Herr.
  Qed.

  Lemma fwd_F_residual (i : nat) :
    (i < n)%nat ->
    Rabs (nth i (map B2Rf b) 0 - rsum (fun k => lower_part (map B2Rf l) n i k * nth k (map B2Rf x) 0) n)
    <= ((1 + / 2 ^ 53) ^ n - 1) * rsum (fun k => Rabs (lower_part (map B2Rf l) n i k) * Rabs (nth k (map B2Rf x) 0)) n.
  Proof.
    intros Hi. destruct (fwd_F_row i Hi) as [_ H]. eapply Rle_trans; [exact H|].
    rewrite <- u64_val. apply Rmult_le_compat_r; [apply rsum_abs_nonneg|].
    apply (E_mono u64 u64_nonneg). lia.
  Qed.

  Lemma fwd_F_rhs_finite : Forall finite b.
  Proof.
    destruct (forward_recurrence (FO tbl) l b x n Hrun Hn) as (Hbl & _ & _).
    apply Forall_forall. intros f Hf. destruct (In_nth b f 0%float Hf) as (i & Hi & <-).
    apply fwd_F_row. lia.
  Qed.
End Forward.

(** ** backward substitution on binary64 *)
Section Backward.
  Variables (tbl : libm_table) (u b x : list pfloat) (n : nat).
  Hypothesis Hrun : backward_substitution (FO tbl) u b = Some x.
  Hypothesis Hn : (n * n)%nat = length u.
  Hypothesis Hdiag : forall i, (i < n)%nat -> B2Rf (nth (i * n + i) u 0%float) <> 0.
  Hypothesis Hfin : Forall finite x.
  Hypothesis Hprod : forall i j, (i < j)%nat -> (j < n)%nat ->
    no_underflow (B2Rf (nth (i * n + j) u 0%float) * B2Rf (nth j x 0%float)).
  Hypothesis Hquot : forall i, (i < n)%nat ->
    no_underflow (B2Rf (nth i b 0 - dot_raw (FO tbl) (firstn (n - S i) (skipn (i * n + S i) u)) (skipn (S i) x))%float
                  / B2Rf (nth (i * n + i) u 0%float)).

  Lemma bwd_F_row (i : nat) :
    (i < n)%nat ->
    finite (nth i b 0%float) /\
    Rabs (nth i (map B2Rf b) 0 - rsum (fun k => upper_part (map B2Rf u) n i k * nth k (map B2Rf x) 0) n)
    <= E u64 (n - i) * rsum (fun k => Rabs (upper_part (map B2Rf u) n i k) * Rabs (nth k (map B2Rf x) 0)) n.
  Proof.
    intros Hi. destruct (backward_recurrence (FO tbl) u b x n Hrun Hn) as (Hbl & Hxl & Hrec).
    specialize (Hrec i Hi). cbn [zero FO] in Hrec.
    set (r := firstn (n - S i) (skipn (i * n + S i) u)) in *. set (xs := skipn (S i) x) in *.
    assert (Hlr : length r = (n - S i)%nat).
    { unfold r. rewrite firstn_length, skipn_length, <- Hn. apply Nat.min_l. nia. }
    assert (Hlxs : length xs = (n - S i)%nat) by (unfold xs; rewrite skipn_length, Hxl; lia).
    assert (Hnr : forall k, (k < n - S i)%nat -> nth k r 0%float = nth (i * n + (S i + k)) u 0%float).
    { intros k Hk. unfold r. rewrite nth_firstn_lt by exact Hk. rewrite nth_skipn_plus. f_equal. lia. }
    assert (Hnx : forall k, nth k xs 0%float = nth (S i + k) x 0%float).
    { intros k. unfold xs. apply nth_skipn_plus. }
    assert (Hfi : finite (nth i x 0%float)).
    { apply (proj1 (Forall_forall finite x) Hfin). apply nth_In. lia. }
    rewrite Hrec in Hfi.
    destruct (row_F_error tbl r xs (nth i b 0%float) (nth (i * n + i) u 0%float)) as (Hfb & _ & Herr).
    - lia.
    - apply Hdiag; exact Hi.
    - exact Hfi.
    - apply (Forall2_nth_intro _ 0%float 0%float); [lia|].
      intros k Hk. rewrite Hlr in Hk. rewrite Hnr, Hnx by exact Hk. apply Hprod; lia.
    - apply Hquot; exact Hi.
    - split; [exact Hfb|].
      rewrite <- Hrec in Herr. rewrite <- u64_val in Herr. fold (E u64 (S (length r))) in Herr.
      rewrite Hlr in Herr. replace (S (n - S i)) with (n - i)%nat in Herr by lia.
      rewrite Rdot_rsum, Asum_map2_rsum in Herr by (rewrite !map_length; lia).
      rewrite map_length, Hlr in Herr.
      unfold upper_part.
      rewrite (rsum_upper_gen Rmult (fun k => getm (map B2Rf u) n i k) _ i n Hi Fmul0).
      rewrite (rsum_upper_gen (fun a y => Rabs a * Rabs y) (fun k => getm (map B2Rf u) n i k) _ i n Hi Fabs0).
      unfold getm. rewrite !nth_map_B2Rf.
      rewrite (rsum_ext (fun m => nth (i * n + (S i + m)) (map B2Rf u) 0 * nth (S i + m) (map B2Rf x) 0)
                        (fun k => nth k (map B2Rf r) 0 * nth k (map B2Rf xs) 0)).
      2:{ intros k Hk. rewrite !nth_map_B2Rf, Hnr, Hnx by exact Hk. reflexivity. }
      rewrite (rsum_ext (fun m => Rabs (nth (i * n + (S i + m)) (map B2Rf u) 0) * Rabs (nth (S i + m) (map B2Rf x) 0))
                        (fun k => Rabs (nth k (map B2Rf r) 0) * Rabs (nth k (map B2Rf xs) 0))).
      2:{ intros k Hk. rewrite !nth_map_B2Rf, Hnr, Hnx by exact Hk. reflexivity. }
      rewrite <- Rabs_mult.
      match goal with |- Rabs (?bb - (?d + ?s)) <= _ * (?ad + ?as') =>
        replace (d + s) with (s + d) by ring; replace (ad + as') with (as' + ad) by ring end.
      exact Herr.
  Qed.

  Lemma bwd_F_residual (i : nat) :
    (i < n)%nat ->
    Rabs (nth i (map B2Rf b) 0 - rsum (fun k => upper_part (map B2Rf u) n i k * nth k (map B2Rf x) 0) n)
    <= ((1 + / 2 ^ 53) ^ n - 1) * rsum (fun k => Rabs (upper_part (map B2Rf u) n i k) * Rabs (nth k (map B2Rf x) 0)) n.
  Proof.
    intros Hi. destruct (bwd_F_row i Hi) as [_ H]. eapply Rle_trans; [exact H|].
    rewrite <- u64_val. apply Rmult_le_compat_r; [apply rsum_abs_nonneg|].
    apply (E_mono u64 u64_nonneg). lia.
  Qed.

  Lemma bwd_F_rhs_finite : Forall finite b.
  Proof.
    destruct (backward_recurrence (FO tbl) u b x n Hrun Hn) as (Hbl & _ & _).
    apply Forall_forall. intros f Hf. destruct (In_nth b f 0%float Hf) as (i & Hi & <-).
    apply bwd_F_row. lia.
  Qed.
End Backward.
