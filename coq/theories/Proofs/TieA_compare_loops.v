(** * Tie A, fourth round, for C15 / C11: the approximate comparisons and the [Matrix] forms of the routing predicates ARE
    the source.  [Generated/compare_loops.v] is produced on every run by tools/tiea/compare_loops.py (statement-level
    translator [LoopTranslator] of tools/rsexpr.py) from src/linalg/array/vec.rs and src/linalg/array/matrix.rs.
    [rel_diff] is the same term as the model's (conversion: the model of Model/Shape.v is written with the source's
    [is_infinite]); the comparison loops ([for i in 0..self.len() { if .. { return false; } }]) are the models' [forallb],
    every read being in bounds once the lengths agree; the [Matrix] predicates of Model/Subst.v read ROWS ([unflatten]), the
    source reads the flat vector at [i * ncols + j] / [j * nrows + i]: equal under the struct invariant
    [nrows * ncols <= len(data)] (which [Matrix::new] enforces), without which the source panics.  No law of the carrier. *)
From Coq Require Import List ZArith Arith Bool Lia.
From Compute Require Import Base.Ops Base.ListMat Base.RsExpr Base.RsExprMut Base.RsExprMore Base.RsExprFour
  Model.Shape Model.MatMul Model.Subst Proofs.RsExprLemmas Proofs.C15Lists Proofs.LinAlgBase Proofs.TieA_linalg_loops
  Proofs.TieA_shape_loops Generated.compare_loops.
Import ListNotations.

Section TieA.
  Context {T : Type} (O : Ops T).
  Local Notation d := (zero O).

  (** ** vec.rs *)
  Theorem tiea_rel_diff : forall x y : T, src_rel_diff O x y = rel_diff O x y.
  Proof. reflexivity. Qed.

  (** a comparison loop over [0..len]: both vectors are read in bounds *)
  Lemma compare_loop : forall (bad : T -> T -> bool) (x y : list T), length x = length y ->
    rs_loop (fun (_ : unit) i => match rs_get x i with
                                 | Some g1 => match rs_get y i with
                                              | Some g2 => if bad g1 g2 then rs_return false else rs_next tt
                                              | None => rs_panic end
                                 | None => rs_panic end) (rs_seq (Z.of_nat 0) (length x)) tt
    = if forallb (fun i => negb (bad (nth i x d) (nth i y d))) (seq 0 (length x)) then rs_next tt else rs_return false.
  Proof.
    intros bad x y L. apply rs_loop_forallb_seq. intros k Hk.
    rewrite (rs_get_some x k d), (rs_get_some y k d) by lia. destruct (bad _ _); reflexivity.
  Qed.

  Theorem tiea_vector_close_to : forall (x y : list T) (tol : T),
    src_vector_close_to O x y tol = Some (close_to_v O x y tol).
  Proof.
    intros x y tol. unfold src_vector_close_to, close_to_v, rs_len. rewrite Zeqb_of_nat.
    destruct (Nat.eqb_spec (length x) (length y)) as [L|L]; cbn [negb]; [|reflexivity].
    fold (rs_len x). rewrite rs_range_excl_0_len. change 0%Z with (Z.of_nat 0).
    rewrite (compare_loop (fun a b => ltb O tol (src_rel_diff O a b)) x y L).
    destruct (forallb _ _); reflexivity.
  Qed.

  Theorem tiea_vector_eq : forall (x y : list T), src_vector_eq O x y = Some (eq_v O x y).
  Proof.
    intros x y. unfold src_vector_eq, eq_v, rs_len. rewrite Zeqb_of_nat.
    destruct (Nat.eqb_spec (length x) (length y)) as [L|L]; cbn [negb]; [|reflexivity].
    fold (rs_len x). rewrite rs_range_excl_0_len. change 0%Z with (Z.of_nat 0).
    rewrite (compare_loop (fun a b => ltb O (rs_f64_epsilon O) (abs O (sub O a b))) x y L).
    destruct (forallb _ _); reflexivity.
  Qed.

  (** ** matrix.rs: comparisons.  [self.shape() != other.shape()] compares the arrays [nrows, ncols] *)
  Lemma shape_eqb : forall (a b : mat T),
    rs_zlist_eqb (src_shape O (data a) (Z.of_nat (nrows a)) (Z.of_nat (ncols a)))
                 (src_shape O (data b) (Z.of_nat (nrows b)) (Z.of_nat (ncols b))) = same_shape a b.
  Proof.
    intros a b. unfold src_shape, same_shape. cbn [rs_zlist_eqb]. rewrite !Zeqb_of_nat, andb_true_r. reflexivity.
  Qed.

  Theorem tiea_matrix_close_to : forall (a b : mat T) (tol : T),
    src_matrix_close_to O (data a) (Z.of_nat (nrows a)) (Z.of_nat (ncols a)) (zmat b) tol = Some (close_to_m O a b tol).
  Proof.
    intros a b tol. unfold src_matrix_close_to, close_to_m, zmat. rewrite shape_eqb.
    destruct (same_shape a b); cbn [negb]; [|reflexivity]. rewrite tiea_vector_close_to. reflexivity.
  Qed.

  Theorem tiea_matrix_eq : forall (a b : mat T),
    src_matrix_eq O (data a) (Z.of_nat (nrows a)) (Z.of_nat (ncols a)) (zmat b) = Some (eq_m O a b).
  Proof.
    intros a b. unfold src_matrix_eq, eq_m, zmat. rewrite shape_eqb.
    destruct (same_shape a b); cbn [negb]; [|reflexivity]. rewrite tiea_vector_eq. reflexivity.
  Qed.

  (** ** matrix.rs: the predicates asserted by [Matrix::cholesky] and [MVN::new], against the ROWS models of Model/Subst.v *)
  Theorem tiea_matrix_is_symmetric : forall (m : matrix (T := T)), nr m * nc m <= length (dat m) ->
    src_matrix_is_symmetric O (dat m) (Z.of_nat (nr m)) (Z.of_nat (nc m)) = Some (matrix_is_symmetric O m).
  Proof.
    intros [r c a] Hb. cbn [nr nc dat] in *. unfold src_matrix_is_symmetric, src_matrix_is_square, matrix_is_symmetric, mrows.
    cbn [nr nc dat]. rewrite Zeqb_of_nat. destruct (Nat.eqb_spec r c) as [E|E]; cbn [andb]; [|reflexivity]. subst c.
    unfold is_symmetric_rows. change 0%Z with (Z.of_nat 0). rewrite rs_range_excl_nat, Nat.sub_0_r.
    rewrite (rs_loop_forallb_seq _ (fun i => forallb (fun j => sym_entry_ok O (ent d (unflatten a r r) i j) (ent d (unflatten a r r) j i)) (seq i (r - i)))).
    - destruct (forallb _ (seq 0 r)); reflexivity.
    - intros i Hi. rewrite rs_range_excl_nat.
      rewrite (rs_loop_forallb_seq _ (fun j => sym_entry_ok O (ent d (unflatten a r r) i j) (ent d (unflatten a r r) j i))).
      + destruct (forallb _ (seq i (r - i))); reflexivity.
      + intros j Hj. znat. rewrite (rs_get_some a (i * r + j) d) by nia. rewrite (rs_get_some a (j * r + i) d) by nia.
        rewrite !ent_unflatten by lia. unfold sym_entry_ok, eps, rs_f64_epsilon.
        destruct (ltb O _ _); reflexivity.
  Qed.

  Theorem tiea_matrix_is_positive_definite : forall (m : matrix (T := T)), nr m * nc m <= length (dat m) ->
    src_matrix_is_positive_definite O (dat m) (Z.of_nat (nr m)) (Z.of_nat (nc m)) = Some (matrix_is_positive_definite O m).
  Proof.
    intros m Hb. unfold src_matrix_is_positive_definite. rewrite (tiea_matrix_is_symmetric m Hb). cbn [bind].
    unfold matrix_is_positive_definite. destruct (matrix_is_symmetric O m) eqn:Es; cbn [andb]; [|reflexivity].
    destruct m as [r c a]. cbn [nr nc dat] in *. unfold matrix_is_symmetric in Es. cbn [nr nc dat] in Es.
    apply andb_prop in Es. destruct Es as [Es _]. apply Nat.eqb_eq in Es. subst c. unfold mrows. cbn [nr nc dat].
    unfold diag_positive_rows. change 0%Z with (Z.of_nat 0). rewrite rs_range_excl_nat, Nat.sub_0_r.
    rewrite (rs_loop_forallb_seq _ (fun i => negb (leb O (ent d (unflatten a r r) i i) d))).
    - destruct (forallb _ (seq 0 r)); reflexivity.
    - intros i Hi. znat. rewrite (rs_get_some a (i * r + i) d) by nia. rewrite ent_unflatten by lia.
      destruct (leb O _ _); reflexivity.
  Qed.
End TieA.
