(** * Tie A, fourth round, for C01 / C11: the [Matrix] entry points [Matrix::inv], [Matrix::det], [Matrix::lu_det] ARE the source.
    [Generated/det_loops.v] is produced on every run by tools/tiea/det_loops.py (statement-level translator [LoopTranslator] of
    tools/rsexpr.py) from src/linalg/array/matrix.rs.  A method takes the fields (data, nrows, ncols) of [self]; a [Matrix]
    value is the triple [zmx m = (nrows, ncols, data)].  The methods of other impls / files are parameters of the generated
    text, instantiated by their models: [Matrix::lu] by [matrix_lu] of Model/LU.v, [Solve<Matrix>::solve] by [msolve_mat] of
    Model/Solve.v (for EVERY factorisation routines), [Matrix::eye], [Vector::prod], [ipiv_parity].  The models guard every
    method with the struct invariant [well_formed] (which [Matrix::new] enforces and the source does not re-check): the ties are
    for well-formed receivers; that [Matrix::lu] returns a well-formed square matrix is proved here ([matrix_lu_wf]), so that
    [det] needs it of its argument only.  No law of the carrier. *)
From Coq Require Import List ZArith Arith Bool Lia.
From Compute Require Import Base.Ops Base.ListMat Base.RsExpr Base.RsExprMut Model.Shape Model.Reduce Model.MatMul Model.Subst Model.LU Model.Cholesky
  Model.Solve Generated.matrix_loops Generated.det_loops
  Proofs.RsExprLemmas Proofs.RsExprFlat Proofs.C15Lists Proofs.TieA_linalg_loops Proofs.TieA_linalg_chol Proofs.TieA_linalg_lu
  Proofs.TieA_matrix_loops Proofs.LinAlgBase.
Import ListNotations.

Section TieA.
  Context {T : Type} (O : Ops T).
  Local Notation z := (zero O).

  Definition zmx (m : matrix (T := T)) : Z * Z * list T := (Z.of_nat (nr m), Z.of_nat (nc m), dat m).
  Definition ofz (t : Z * Z * list T) : matrix (T := T) := let '(r, c, d) := t in {| nr := Z.to_nat r; nc := Z.to_nat c; dat := d |}.
  Lemma ofz_zmx : forall m, ofz (zmx m) = m.
  Proof. intros [r c d]. unfold ofz, zmx. cbn [nr nc dat]. now rewrite !Nat2Z.id. Qed.

  (** the routines of other impls as the generated text sees them *)
  Definition matrix_lu_z (t : Z * Z * list T) : option ((Z * Z * list T) * list Z) :=
    option_map (fun p => (zmx (fst p), map Z.of_nat (snd p))) (matrix_lu O (ofz t)).
  Definition ipiv_parity_z (piv : list Z) : option Z := ipiv_parity (map Z.to_nat piv).
  Definition matrix_eye_z (n : Z) : option (Z * Z * list T) := Some (n, n, eye O (Z.to_nat n)).

  Lemma map_to_of_nat' : forall l : list nat, map Z.to_nat (map Z.of_nat l) = l.
  Proof. intro l. rewrite map_map. rewrite <- (map_id l) at 2. apply map_ext. intro a. apply Nat2Z.id. Qed.

  Lemma wf_unfold : forall m : matrix (T := T), well_formed m = true -> 0 < nr m /\ 0 < nc m /\ nr m * nc m = length (dat m).
  Proof.
    intros m H. unfold well_formed in H. apply andb_prop in H. destruct H as [H H3]. apply andb_prop in H. destruct H as [H1 H2].
    apply Nat.ltb_lt in H1. apply Nat.ltb_lt in H2. apply Nat.eqb_eq in H3. auto.
  Qed.

  (** ** [diag] of a well-formed square matrix *)
  Lemma src_m_diag_eq : forall (dat : list T) (r c : Z), src_m_diag O dat r c = src_diag O dat r c.
  Proof. reflexivity. Qed.

  Lemma tiea_m_diag_square : forall m : matrix (T := T), well_formed m = true -> nr m = nc m ->
    src_m_diag O (dat m) (Z.of_nat (nr m)) (Z.of_nat (nc m)) = Some (matrix_diag O m).
  Proof.
    intros m Hw Hsq. destruct (wf_unfold m Hw) as (H1 & H2 & H3). destruct m as [r c d]. cbn [nr nc dat] in *. subst c.
    rewrite src_m_diag_eq, tiea_diag_m. unfold Model.Shape.diag, matrix_diag. cbn [nrows ncols data nr nc dat].
    rewrite Nat.min_id.
    replace ((r =? 0) || ((r - 1) * r + (r - 1) <? length d)) with true
      by (symmetry; apply orb_true_iff; right; apply Nat.ltb_lt; nia).
    reflexivity.
  Qed.

  (** ** [lu_det] *)
  Theorem tiea_matrix_lu_det : forall (m : matrix (T := T)) (piv : list nat), well_formed m = true ->
    src_matrix_lu_det O ipiv_parity_z (prod O) (dat m) (Z.of_nat (nr m)) (Z.of_nat (nc m)) (map Z.of_nat piv) = matrix_lu_det O m piv.
  Proof.
    intros m piv Hw. unfold src_matrix_lu_det, matrix_lu_det, src_m_is_square, ipiv_parity_z. rewrite Hw, Zeqb_of_nat. cbn [andb].
    destruct (Nat.eqb_spec (nr m) (nc m)) as [E|E]; cbn [guard bind]; [|reflexivity].
    rewrite (tiea_m_diag_square m Hw E). cbn [bind]. rewrite map_to_of_nat'. destruct (ipiv_parity piv); reflexivity.
  Qed.

  (** ** [Matrix::lu] returns a well-formed square matrix *)
  Lemma lu_rows_shape : forall (M : list (list T)) (n : nat), rows_n n M -> length M = n ->
    rows_n n (fst (lu_rows O M n)) /\ length (fst (lu_rows O M n)) = n /\ length (snd (lu_rows O M n)) = n.
  Proof.
    intros M n HM HL. unfold lu_rows.
    destruct (rs_fold_opt_rel (lu_inv n) (lu_body O (Z.of_nat n)) (lu_step O n) (seq 0 n)
               (concat M, map Z.of_nat (seq 0 n)) (M, seq 0 n)) as (t & _ & _ & _ & R3 & R4 & R5).
    - repeat split; cbn [fst snd]; auto. apply seq_length.
    - intros s s' k Hk Hs. apply in_seq in Hk. apply lu_body_src; [lia | exact Hs].
    - auto.
  Qed.

  Lemma matrix_lu_wf : forall (m l : matrix (T := T)) (piv : list nat), matrix_lu O m = Some (l, piv) ->
    well_formed l = true /\ nr l = nc l.
  Proof.
    intros m l piv H. unfold matrix_lu in H. destruct (well_formed m && (nr m =? nc m)) eqn:G; cbn [guard bind] in H; [|discriminate].
    apply andb_prop in G. destruct G as [Hw Hsq]. apply Nat.eqb_eq in Hsq. destruct (wf_unfold m Hw) as (H1 & H2 & H3).
    assert (HM : rows_n (nr m) (mrows m)).
    { unfold mrows, rows_n. rewrite Forall_forall. intros r Hr. destruct (In_nth _ _ [] Hr) as (i & Hi & <-).
      rewrite length_unflatten in Hi. rewrite nth_unflatten by exact Hi. rewrite Hsq. apply length_row_of. nia. }
    assert (HL : length (mrows m) = nr m) by apply length_unflatten.
    destruct (lu_rows_shape (mrows m) (nr m) HM HL) as (S1 & S2 & S3).
    destruct (lu_rows O (mrows m) (nr m)) as [M' piv']. cbn [fst snd] in *. injection H as <- <-.
    unfold well_formed. cbn [nr nc dat]. split; [|exact Hsq].
    apply Nat.ltb_lt in H1. apply Nat.ltb_lt in H2. rewrite H1, H2. cbn [andb]. apply Nat.eqb_eq.
    unfold flatten. rewrite (concat_length_rows M' (nr m) S1). nia.
  Qed.

  (** ** [det] *)
  Theorem tiea_matrix_det : forall (m : matrix (T := T)),
    src_matrix_det O ipiv_parity_z matrix_lu_z (prod O) (dat m) (Z.of_nat (nr m)) (Z.of_nat (nc m)) = matrix_det O m.
  Proof.
    intro m. unfold src_matrix_det, matrix_det, matrix_lu_z. fold (zmx m). rewrite ofz_zmx.
    destruct (matrix_lu O m) as [[l piv]|] eqn:E; cbn [option_map bind fst snd]; [|reflexivity].
    destruct (matrix_lu_wf m l piv E) as [Hw Hsq]. unfold zmx.
    rewrite (tiea_m_diag_square l Hw Hsq). cbn [bind]. unfold matrix_lu_det, ipiv_parity_z. rewrite Hw, Hsq, Nat.eqb_refl. cbn [andb guard bind].
    rewrite map_to_of_nat'. destruct (ipiv_parity piv); reflexivity.
  Qed.

  (** ** [inv], for every factorisation routines *)
  Section Routines.
    Context (lu : list T -> option (list T * list nat)) (lu_solve : list T -> list nat -> list T -> option (list T)).
    Definition msolve_mat_z (t s : Z * Z * list T) : option (Z * Z * list T) := option_map zmx (msolve_mat O lu lu_solve (ofz t) (ofz s)).

    Theorem tiea_matrix_inv : forall (m : matrix (T := T)), well_formed m = true ->
      src_matrix_inv O matrix_eye_z msolve_mat_z (dat m) (Z.of_nat (nr m)) (Z.of_nat (nc m)) = option_map zmx (minv O lu lu_solve m).
    Proof.
      intros m Hw. unfold src_matrix_inv, minv, src_m_is_square, matrix_eye_z, msolve_mat_z. rewrite Hw, Zeqb_of_nat. cbn [andb].
      destruct (nr m =? nc m); cbn [guard bind]; [|reflexivity].
      fold (zmx m). rewrite ofz_zmx. unfold ofz. rewrite !Nat2Z.id.
      destruct (msolve_mat O lu lu_solve m _); reflexivity.
    Qed.
  End Routines.
End TieA.
