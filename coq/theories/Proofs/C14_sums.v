(** * Finite real sums and the algebra of linear least squares (abstract, index-function form). *)
From Coq Require Import Reals List Arith Lia Lra.
From Compute Require Import Base.Ops Spec.MatMul Spec.Poly.
Import ListNotations.
Local Open Scope R_scope.

Lemma rsum_ext f g n : (forall i, (i < n)%nat -> f i = g i) -> rsum f n = rsum g n.
Proof.
  induction n as [|n IH]; intros H; cbn [rsum]; [reflexivity|].
  rewrite IH by (intros; apply H; lia). rewrite H by lia. reflexivity.
Qed.

Lemma rsum_zero n : rsum (fun _ => 0) n = 0.
Proof. induction n as [|n IH]; cbn [rsum]; [reflexivity|]. rewrite IH. ring. Qed.

Lemma rsum_plus f g n : rsum (fun i => f i + g i) n = rsum f n + rsum g n.
Proof. induction n as [|n IH]; cbn [rsum]; [ring|]. rewrite IH. ring. Qed.

Lemma rsum_minus f g n : rsum (fun i => f i - g i) n = rsum f n - rsum g n.
Proof. induction n as [|n IH]; cbn [rsum]; [ring|]. rewrite IH. ring. Qed.

Lemma rsum_scal_l a f n : rsum (fun i => a * f i) n = a * rsum f n.
Proof. induction n as [|n IH]; cbn [rsum]; [ring|]. rewrite IH. ring. Qed.

Lemma rsum_scal_r a f n : rsum (fun i => f i * a) n = rsum f n * a.
Proof. induction n as [|n IH]; cbn [rsum]; [ring|]. rewrite IH. ring. Qed.

Lemma rsum_swap (f : nat -> nat -> R) n m :
  rsum (fun i => rsum (fun j => f i j) m) n = rsum (fun j => rsum (fun i => f i j) n) m.
Proof.
  induction n as [|n IH]; cbn [rsum].
  - symmetry. apply rsum_zero.
  - rewrite IH. rewrite <- rsum_plus. reflexivity.
Qed.

Lemma rsum_delta_l f n j : (j < n)%nat ->
  rsum (fun i => (if (j =? i)%nat then 1 else 0) * f i) n = f j.
Proof.
  induction n as [|n IH]; intros Hj; [lia|]. cbn [rsum].
  destruct (Nat.eq_dec j n) as [->|Hne].
  - rewrite Nat.eqb_refl.
    rewrite (rsum_ext _ (fun _ => 0)).
    + rewrite rsum_zero. ring.
    + intros i Hi. destruct (Nat.eqb_spec n i); [lia|ring].
  - rewrite IH by lia. destruct (Nat.eqb_spec j n); [lia|ring].
Qed.

Lemma rsum_sq_nonneg f n : 0 <= rsum (fun i => (f i) ^ 2) n.
Proof.
  induction n as [|n IH]; cbn [rsum]; [lra|].
  pose proof (pow2_ge_0 (f n)). lra.
Qed.

Lemma rsum_sq_zero f n : rsum (fun i => (f i) ^ 2) n = 0 -> forall i, (i < n)%nat -> f i = 0.
Proof.
  induction n as [|n IH]; intros H i Hi; [lia|]. cbn [rsum] in H.
  pose proof (rsum_sq_nonneg f n) as H1. pose proof (pow2_ge_0 (f n)) as H2.
  destruct (Nat.eq_dec i n) as [->|Hne].
  - assert (H3 : f n ^ 2 = 0) by lra.
    replace (f n ^ 2) with (f n * f n) in H3 by ring.
    apply Rmult_integral in H3. tauto.
  - apply IH; [lra|lia].
Qed.

(** the left-to-right accumulation of the matmul specification is the real sum *)
Lemma sumk_RO f l : sumk RO f l = rsum f l.
Proof.
  unfold sumk. induction l as [|l IH]; [reflexivity|].
  rewrite seq_S, fold_left_app. cbn [fold_left Nat.add]. rewrite IH. reflexivity.
Qed.

(** ** Linear least squares through the normal equations *)
Section LeastSquares.
  Variables (n k : nat) (V : nat -> nat -> R) (y : nat -> R) (G Gi : nat -> nat -> R) (c : nat -> R).
  Definition bvec (l : nat) : R := rsum (fun i => V i l * y i) n.
  Definition pred (d : nat -> R) (i : nat) : R := rsum (fun l => V i l * d l) k.

  Hypothesis HG : forall j l, (j < k)%nat -> (l < k)%nat -> G j l = rsum (fun i => V i j * V i l) n.
  Hypothesis Hinv : forall j m, (j < k)%nat -> (m < k)%nat ->
    rsum (fun l => G j l * Gi l m) k = if (j =? m)%nat then 1 else 0.
  Hypothesis Hc : forall j, (j < k)%nat -> c j = rsum (fun l => Gi j l * bvec l) k.

  Lemma lsq_normal_equations j : (j < k)%nat -> rsum (fun l => G j l * c l) k = bvec j.
  Proof.
    intros Hj.
    rewrite (rsum_ext _ (fun l => rsum (fun m => G j l * Gi l m * bvec m) k)).
    2:{ intros l Hl. rewrite Hc by auto. rewrite <- rsum_scal_l. apply rsum_ext. intros; ring. }
    rewrite rsum_swap.
    rewrite (rsum_ext _ (fun m => (if (j =? m)%nat then 1 else 0) * bvec m)).
    2:{ intros m Hm. rewrite rsum_scal_r. rewrite Hinv by auto. reflexivity. }
    apply rsum_delta_l; auto.
  Qed.

  Lemma lsq_gram_pred d j : (j < k)%nat ->
    rsum (fun i => V i j * pred d i) n = rsum (fun l => G j l * d l) k.
  Proof.
    intros Hj. unfold pred.
    rewrite (rsum_ext _ (fun i => rsum (fun l => V i j * V i l * d l) k)).
    2:{ intros i Hi. rewrite <- rsum_scal_l. apply rsum_ext. intros; ring. }
    rewrite rsum_swap. apply rsum_ext. intros l Hl.
    rewrite rsum_scal_r. rewrite HG by auto. reflexivity.
  Qed.

  Lemma lsq_residual_orthogonal j : (j < k)%nat ->
    rsum (fun i => V i j * (y i - pred c i)) n = 0.
  Proof.
    intros Hj.
    rewrite (rsum_ext _ (fun i => V i j * y i - V i j * pred c i)) by (intros; ring).
    rewrite rsum_minus. rewrite lsq_gram_pred by auto. rewrite lsq_normal_equations by auto.
    unfold bvec. ring.
  Qed.

  Lemma lsq_cross d : rsum (fun i => (y i - pred c i) * pred d i) n = 0.
  Proof.
    unfold pred at 2.
    rewrite (rsum_ext _ (fun i => rsum (fun l => d l * (V i l * (y i - pred c i))) k)).
    2:{ intros i Hi. rewrite <- rsum_scal_l. apply rsum_ext. intros; ring. }
    rewrite rsum_swap.
    rewrite (rsum_ext _ (fun _ => 0)); [apply rsum_zero|].
    intros l Hl. rewrite rsum_scal_l. rewrite lsq_residual_orthogonal by auto. ring.
  Qed.

  Lemma pred_minus d e i : pred (fun l => d l - e l) i = pred d i - pred e i.
  Proof.
    unfold pred. rewrite <- rsum_minus. apply rsum_ext. intros; ring.
  Qed.

  (** Pythagoras: rss c' = rss c + |V(c' - c)|² *)
  Lemma lsq_pythagoras c' :
    rsum (fun i => (y i - pred c' i) ^ 2) n =
    rsum (fun i => (y i - pred c i) ^ 2) n + rsum (fun i => (pred c' i - pred c i) ^ 2) n.
  Proof.
    pose proof (lsq_cross (fun l => c' l - c l)) as Hx.
    rewrite (rsum_ext _ (fun i => ((y i - pred c i) ^ 2 + (pred c' i - pred c i) ^ 2)
                                   - 2 * ((y i - pred c i) * pred (fun l => c' l - c l) i))).
    2:{ intros i Hi. rewrite pred_minus. ring. }
    rewrite rsum_minus, rsum_plus, rsum_scal_l, Hx. ring.
  Qed.

  Lemma lsq_optimal c' :
    rsum (fun i => (y i - pred c i) ^ 2) n <= rsum (fun i => (y i - pred c' i) ^ 2) n.
  Proof.
    rewrite (lsq_pythagoras c').
    pose proof (rsum_sq_nonneg (fun i => pred c' i - pred c i) n). lra.
  Qed.
End LeastSquares.
