(** * C16 on binary64: at a knot the interpolant returns the knot's ordinate (as a number).
    The model instantiated at [FO tbl] is the term the correspondence check runs; its primitive
    operations are related to Flocq's [binary_float] by Flocq.IEEE754.PrimFloat, and the proof shows
    that no rounding occurs: the ratio is exactly 0 or 1 and 0*y' + 1*y = y. *)
From Coq Require Import ZArith Reals Floats List Lia Lra Bool Arith.
From Flocq Require Import Core Plus_error BinarySingleNaN.
From Flocq Require IEEE754.PrimFloat.
From Compute Require Import Base.Ops Base.ListMat Model.Interp Spec.InterpBinary64 Proofs.C16.
Import ListNotations.
Module FP := Flocq.IEEE754.PrimFloat.
Module PF := Coq.Floats.PrimFloat.
Notation flt := Coq.Floats.PrimFloat.float.
Local Existing Instance FP.Hprec.
Local Existing Instance FP.Hmax.
Local Open Scope R_scope.

(** finiteness ([FR], the real number a binary64 value denotes, is in Spec/InterpBinary64.v) *)
Definition fin (x : flt) : Prop := PF.is_finite x = true.

Lemma fin_B x : fin x <-> is_finite (FP.Prim2B x) = true.
Proof. unfold fin. rewrite FP.is_finite_equiv. tauto. Qed.

Lemma FR_zero : FR 0%float = 0.
Proof. change (FR PF.zero = 0). unfold FR. rewrite FP.zero_equiv, FP.Prim2B_B2Prim. reflexivity. Qed.
Lemma FR_one : FR 1%float = 1.
Proof. change (FR PF.one = 1). unfold FR. rewrite FP.one_equiv, FP.Prim2B_B2Prim. apply Bone_correct. Qed.
Lemma fin_zero : fin 0%float. Proof. reflexivity. Qed.
Lemma fin_one : fin 1%float. Proof. reflexivity. Qed.

Lemma round_FR c : round radix2 (fexp prec emax) (round_mode mode_NE) (FR c) = FR c.
Proof. apply round_generic; [apply valid_rnd_N | apply generic_format_B2R]. Qed.

Lemma lt_emax_true c : Rlt_bool (Rabs (FR c)) (bpow radix2 emax) = true.
Proof. apply Rlt_bool_true. apply abs_B2R_lt_emax. Qed.

Lemma add_exact a b c : fin a -> fin b -> FR a + FR b = FR c -> fin (a + b) /\ FR (a + b) = FR c.
Proof.
  intros Fa Fb E. apply fin_B in Fa, Fb. rewrite fin_B. unfold FR at 1. rewrite FP.add_equiv.
  generalize (Bplus_correct _ _ _ _ mode_NE _ _ Fa Fb). fold (FR a) (FR b). rewrite E, round_FR, lt_emax_true.
  intros [H1 [H2 _]]. split; assumption.
Qed.
Lemma sub_exact a b c : fin a -> fin b -> FR a - FR b = FR c -> fin (a - b) /\ FR (a - b) = FR c.
Proof.
  intros Fa Fb E. apply fin_B in Fa, Fb. rewrite fin_B. unfold FR at 1. rewrite FP.sub_equiv.
  generalize (Bminus_correct _ _ _ _ mode_NE _ _ Fa Fb). fold (FR a) (FR b). rewrite E, round_FR, lt_emax_true.
  intros [H1 [H2 _]]. split; assumption.
Qed.
Lemma mul_exact a b c : fin a -> fin b -> FR a * FR b = FR c -> fin (a * b) /\ FR (a * b) = FR c.
Proof.
  intros Fa Fb E. apply fin_B in Fa, Fb. rewrite fin_B. unfold FR at 1. rewrite FP.mul_equiv.
  generalize (Bmult_correct _ _ _ _ mode_NE (FP.Prim2B a) (FP.Prim2B b)). fold (FR a) (FR b). rewrite E, round_FR, lt_emax_true.
  rewrite Fa, Fb. intros [H1 [H2 _]]. split; assumption.
Qed.
Lemma div_exact a b c : fin a -> FR b <> 0 -> FR a / FR b = FR c -> fin (a / b) /\ FR (a / b) = FR c.
Proof.
  intros Fa Fb E. apply fin_B in Fa. rewrite fin_B. unfold FR at 1. rewrite FP.div_equiv.
  generalize (Bdiv_correct _ _ _ _ mode_NE (FP.Prim2B a) (FP.Prim2B b) Fb). fold (FR a) (FR b). rewrite E, round_FR, lt_emax_true.
  rewrite Fa. intros [H1 [H2 _]]. split; assumption.
Qed.

Lemma ltb_FR a b : fin a -> fin b -> PF.ltb a b = Rlt_bool (FR a) (FR b).
Proof. intros Fa Fb. apply fin_B in Fa, Fb. rewrite FP.ltb_equiv. apply Bltb_correct; assumption. Qed.
Lemma eqb_FR a b : fin a -> fin b -> PF.eqb a b = Req_bool (FR a) (FR b).
Proof. intros Fa Fb. apply fin_B in Fa, Fb. rewrite FP.eqb_equiv. apply Beqb_correct; assumption. Qed.

(** a finite difference of two finite floats is the rounded real difference, and it is not zero
    unless the operands are equal (gradual underflow) *)
Lemma sub_finite a b : fin a -> fin b -> fin (b - a) -> FR a < FR b -> 0 < FR (b - a).
Proof.
  intros Fa Fb Fd Hlt. apply fin_B in Fa, Fb, Fd. unfold FR at 1. revert Fd. rewrite FP.sub_equiv.
  generalize (Bminus_correct _ _ _ _ mode_NE _ _ Fb Fa). fold (FR a) (FR b).
  destruct (Rlt_bool _ _).
  - intros [H1 _] _. rewrite H1.
    assert (N : round radix2 (fexp prec emax) (round_mode mode_NE) (FR b + - FR a) <> 0).
    { apply round_plus_neq_0; try typeclasses eauto.
      - apply generic_format_B2R. - apply generic_format_opp, generic_format_B2R. - lra. }
    assert (P : 0 <= round radix2 (fexp prec emax) (round_mode mode_NE) (FR b - FR a)).
    { rewrite <- (round_0 radix2 (fexp prec emax) (round_mode mode_NE)). apply round_le; try typeclasses eauto. lra. }
    unfold Rminus in *. lra.
  - intros [H1 _] Fd. rewrite <- is_finite_SF_B2SF, H1 in Fd. discriminate Fd.
Qed.

Lemma Rlt_bool_iff a b : Rlt_bool a b = true <-> a < b.
Proof. destruct (Rlt_bool_spec a b); split; intros; auto; try discriminate; lra. Qed.

(** ** the formula at the two ends of a segment [a, b] with ordinates ya, yb *)
Lemma seg_left : forall a b ya yb : flt,
    fin a -> fin b -> fin ya -> fin yb -> FR a < FR b -> fin (b - a)%float ->
    let ratio := ((a - a) / (b - a))%float in
    let v := (ratio * yb + (1 - ratio) * ya)%float in
    fin v /\ FR v = FR ya.
Proof.
  intros a b ya yb Fa Fb Fya Fyb Hlt Fd ratio v.
  pose proof (sub_finite a b Fa Fb Fd Hlt) as Hd.
  destruct (sub_exact a a 0%float Fa Fa) as [F0 E0]; [rewrite FR_zero; lra|].
  destruct (div_exact (a - a) (b - a) 0%float F0) as [Fr Er]; [lra | rewrite E0, FR_zero; unfold Rdiv; lra |].
  fold ratio in Fr, Er. rewrite FR_zero in Er.
  destruct (mul_exact ratio yb 0%float Fr Fyb) as [F1 E1]; [rewrite Er, FR_zero; lra|].
  destruct (sub_exact 1%float ratio 1%float fin_one Fr) as [F2 E2]; [rewrite Er, FR_one; lra|].
  destruct (mul_exact (1 - ratio) ya ya F2 Fya) as [F3 E3]; [rewrite E2, FR_one; lra|].
  destruct (add_exact (ratio * yb) ((1 - ratio) * ya) ya F1 F3) as [F4 E4]; [rewrite E1, E3, FR_zero; lra|].
  split; assumption.
Qed.

Lemma seg_right : forall a b ya yb : flt,
    fin a -> fin b -> fin ya -> fin yb -> FR a < FR b -> fin (b - a)%float ->
    let ratio := ((b - a) / (b - a))%float in
    let v := (ratio * yb + (1 - ratio) * ya)%float in
    fin v /\ FR v = FR yb.
Proof.
  intros a b ya yb Fa Fb Fya Fyb Hlt Fd ratio v.
  pose proof (sub_finite a b Fa Fb Fd Hlt) as Hd.
  destruct (div_exact (b - a) (b - a) 1%float Fd) as [Fr Er]; [lra | rewrite FR_one; field; lra |].
  fold ratio in Fr, Er. rewrite FR_one in Er.
  destruct (mul_exact ratio yb yb Fr Fyb) as [F1 E1]; [rewrite Er; lra|].
  destruct (sub_exact 1%float ratio 0%float fin_one Fr) as [F2 E2]; [rewrite Er, FR_one, FR_zero; lra|].
  destruct (mul_exact (1 - ratio) ya 0%float F2 Fya) as [F3 E3]; [rewrite E2, FR_zero; lra|].
  destruct (add_exact (ratio * yb) ((1 - ratio) * ya) yb F1 F3) as [F4 E4]; [rewrite E1, E3, FR_zero; lra|].
  split; assumption.
Qed.

(** ** signs, descents and the ratio *)
Lemma Bsign_false_nonneg : forall b : binary_float prec emax, Bsign b = false -> 0 <= B2R b.
Proof.
  intros [s|s| |s m e H]; cbn [Bsign B2R]; intros E; try lra.
  subst s. apply F2R_ge_0. cbn. lia.
Qed.
Lemma Bsign_true_nonpos : forall b : binary_float prec emax, Bsign b = true -> B2R b <= 0.
Proof.
  intros [s|s| |s m e H]; cbn [Bsign B2R]; intros E; try lra.
  subst s. apply F2R_le_0. cbn. lia.
Qed.

Lemma Prim2B_zero : FP.Prim2B 0%float = B754_zero false.
Proof. change 0%float with PF.zero. rewrite FP.zero_equiv. apply FP.Prim2B_B2Prim. Qed.

Notation rnd := (round radix2 (fexp prec emax) (round_mode mode_NE)).

Lemma rnd_le : forall u v, u <= v -> rnd u <= rnd v.
Proof. intros u v H. apply round_le; try typeclasses eauto. exact H. Qed.
Lemma rnd_0 : rnd 0 = 0.
Proof. apply round_0; typeclasses eauto. Qed.
Lemma rnd_1 : rnd 1 = 1.
Proof. rewrite <- FR_one. apply round_FR. Qed.

(** [x[i+1] - x[i] < 0.] is true on binary64 whenever x[i+1] < x[i] (finite operands): the difference
    cannot round to zero (gradual underflow), and an overflowing one is -inf *)
Lemma sub_descent : forall a b, fin a -> fin b -> FR b < FR a -> PF.ltb (b - a) 0 = true.
Proof.
  intros a b Fa Fb Hlt. apply fin_B in Fa, Fb.
  rewrite FP.ltb_equiv, FP.sub_equiv, Prim2B_zero.
  generalize (Bminus_correct _ _ _ _ mode_NE _ _ Fb Fa). fold (FR a) (FR b).
  destruct (Rlt_bool _ _).
  - intros [H1 [H2 _]]. rewrite Bltb_correct by (auto; reflexivity). rewrite H1. cbn [B2R].
    apply Rlt_bool_true.
    assert (N : rnd (FR b + - FR a) <> 0).
    { apply round_plus_neq_0; try typeclasses eauto.
      - apply generic_format_B2R. - apply generic_format_opp, generic_format_B2R. - lra. }
    assert (P : rnd (FR b - FR a) <= 0) by (rewrite <- rnd_0; apply rnd_le; lra).
    unfold Rminus in *. lra.
  - intros [H1 H2]. unfold Bltb. rewrite H1.
    destruct (Bsign (FP.Prim2B b)) eqn:Sb; [reflexivity|]. exfalso.
    pose proof (Bsign_false_nonneg _ Sb). fold (FR b) in *.
    assert (Sa : Bsign (FP.Prim2B a) = true) by (destruct (Bsign (FP.Prim2B a)); [reflexivity | discriminate H2]).
    pose proof (Bsign_true_nonpos _ Sa). fold (FR a) in *. lra.
Qed.

Lemma checked_rejects_unsorted_binary64 :
  forall (tbl : libm_table) (x y tgt : list flt) (m : mode flt),
    (forall i, (i < length x)%nat -> fin (nth i x 0%float)) ->
    (exists i, (S i < length x)%nat /\ FR (nth (S i) x 0%float) < FR (nth i x 0%float)) ->
    interp_checked (FO tbl) x y tgt m = None.
Proof.
  intros tbl x y tgt m Fx [i [Hi Hd]]. apply checked_rejects_any_carrier.
  exists i. split; [exact Hi|]. cbn [ltb sub zero FO].
  apply sub_descent; [apply Fx; lia | apply Fx; lia | exact Hd].
Qed.

(** the ratio (t - a) / (b - a) of an in-segment target lies in [0, 1] on binary64 as well (monotone
    rounding), so the result is a genuine convex combination of the rounded products *)
Lemma ratio_unit_interval : forall a b t : flt,
    fin a -> fin b -> fin t -> FR a < FR b -> FR a <= FR t <= FR b -> fin (b - a)%float ->
    fin ((t - a) / (b - a))%float /\ 0 <= FR ((t - a) / (b - a))%float <= 1.
Proof.
  intros a b t Fa Fb Ft Hab Ht Fd.
  pose proof (sub_finite a b Fa Fb Fd Hab) as Hd.
  (* the denominator is the rounded difference *)
  assert (Ed : FR (b - a) = rnd (FR b - FR a)).
  { pose proof Fd as Fd'. apply fin_B in Fd'. revert Fd'. unfold FR at 1. rewrite FP.sub_equiv.
    generalize (Bminus_correct _ _ _ _ mode_NE _ _ (proj1 (fin_B b) Fb) (proj1 (fin_B a) Fa)).
    fold (FR a) (FR b). destruct (Rlt_bool _ _).
    - intros [H1 _] _. exact H1.
    - intros [H1 _] F. rewrite <- is_finite_SF_B2SF, H1 in F. discriminate F. }
  (* the numerator: finite, between 0 and the denominator *)
  assert (Hn : fin (t - a) /\ 0 <= FR (t - a) <= FR (b - a)).
  { assert (L : 0 <= rnd (FR t - FR a)) by (rewrite <- rnd_0; apply rnd_le; lra).
    assert (U : rnd (FR t - FR a) <= FR (b - a)) by (rewrite Ed; apply rnd_le; lra).
    rewrite fin_B. unfold FR at 1 2. rewrite FP.sub_equiv.
    generalize (Bminus_correct _ _ _ _ mode_NE _ _ (proj1 (fin_B t) Ft) (proj1 (fin_B a) Fa)).
    fold (FR a) (FR t). rewrite Rlt_bool_true.
    - intros [H1 [H2 _]]. rewrite H1. split; [exact H2 | split; assumption].
    - apply Rle_lt_trans with (FR (b - a)); [rewrite Rabs_pos_eq; assumption|].
      apply Rle_lt_trans with (Rabs (FR (b - a))); [apply Rle_abs | apply abs_B2R_lt_emax]. }
  destruct Hn as [Fn [Ln Un]].
  assert (Q : 0 <= FR (t - a) / FR (b - a) <= 1).
  { split.
    - unfold Rdiv. apply Rmult_le_pos; [exact Ln | left; apply Rinv_0_lt_compat; exact Hd].
    - apply (Rmult_le_reg_r (FR (b - a))); [exact Hd|]. unfold Rdiv.
      rewrite Rmult_assoc, Rinv_l by lra. lra. }
  assert (L : 0 <= rnd (FR (t - a) / FR (b - a))) by (rewrite <- rnd_0; apply rnd_le; lra).
  assert (U : rnd (FR (t - a) / FR (b - a)) <= 1) by (rewrite <- rnd_1; apply rnd_le; lra).
  rewrite fin_B. unfold FR at 1 2. rewrite FP.div_equiv.
  generalize (Bdiv_correct _ _ _ _ mode_NE (FP.Prim2B (t - a)) (FP.Prim2B (b - a))).
  fold (FR (t - a)) (FR (b - a)). intros D. specialize (D ltac:(lra)). revert D.
  rewrite Rlt_bool_true.
  - intros [H1 [H2 _]]. rewrite H1, H2. split; [apply fin_B; exact Fn | split; assumption].
  - rewrite Rabs_pos_eq by assumption. apply Rle_lt_trans with 1; [exact U|].
    rewrite <- FR_one. apply Rle_lt_trans with (Rabs (FR 1%float)); [apply Rle_abs | apply abs_B2R_lt_emax].
Qed.

(** ** the knot theorem *)
Section Knot.
  Context (tbl : libm_table) (x y : list flt) (m : mode flt).
  Local Notation n := (length x).
  Local Notation "l '[[' i ']]'" := (nth i l 0%float) (at level 9).
  Context (Hn : (2 <= n)%nat)
          (Fx : forall i, (i < n)%nat -> fin x[[i]])
          (Sx : forall i, (S i < n)%nat -> PF.ltb x[[i]] x[[S i]] = true)
          (Fy : forall i, (i < n)%nat -> fin y[[i]])
          (Fw : forall i, (S i < n)%nat -> fin (x[[S i]] - x[[i]])%float).

  Lemma fx_adjacent : forall i, (S i < n)%nat -> FR x[[i]] < FR x[[S i]].
  Proof.
    intros i Hi. apply Rlt_bool_iff. rewrite <- ltb_FR; [apply Sx; exact Hi | apply Fx; lia | apply Fx; lia].
  Qed.

  Lemma fx_increasing : forall i j, (i < j < n)%nat -> FR x[[i]] < FR x[[j]].
  Proof.
    intros i j [Hij Hj]. induction j as [|j IH]; [lia|].
    destruct (Nat.eq_dec i j) as [ -> | Hne ]; [apply fx_adjacent; exact Hj|].
    apply Rlt_trans with (FR x[[j]]); [apply IH; lia | apply fx_adjacent; exact Hj].
  Qed.

  Lemma ltb_true_idx : forall a b, (a < n)%nat -> (b < n)%nat -> PF.ltb x[[a]] x[[b]] = true -> (a < b)%nat.
  Proof.
    intros a b Ha Hb H. rewrite ltb_FR in H by (apply Fx; assumption). apply Rlt_bool_iff in H.
    destruct (lt_dec a b) as [|Hge]; [assumption|]. exfalso.
    destruct (Nat.eq_dec a b) as [ -> | Hne ]; [lra|].
    assert (FR x[[b]] < FR x[[a]]) by (apply fx_increasing; lia). lra.
  Qed.

  Lemma ltb_false_idx : forall a b, (a < n)%nat -> (b < n)%nat -> PF.ltb x[[a]] x[[b]] = false -> (b <= a)%nat.
  Proof.
    intros a b Ha Hb H. rewrite ltb_FR in H by (apply Fx; assumption).
    destruct (le_dec b a) as [|Hlt]; [assumption|]. exfalso.
    assert (FR x[[a]] < FR x[[b]]) by (apply fx_increasing; lia).
    apply Rlt_bool_iff in H0. congruence.
  Qed.

  Lemma interp_at_knot_binary64 : forall j,
      (j < n)%nat ->
      exists v, interp1 (FO tbl) x y n m x[[j]] = Some v /\ PF.eqb v y[[j]] = true.
  Proof.
    intros j Hj.
    pose proof (scan_le (FO tbl) x (n - 1) x[[j]]) as A.
    pose proof (scan_prefix (FO tbl) x (n - 1) x[[j]]) as B.
    pose proof (scan_stop (FO tbl) x (n - 1) x[[j]] ltac:(lia)) as C.
    rewrite interp1_unfold by lia.
    set (k := scan (FO tbl) x (n - 1) x[[j]]) in *.
    change (zero (FO tbl)) with 0%float in *. cbn [ltb FO] in B, C |- *.
    assert (Kup : (k <= S j)%nat).
    { destruct (le_dec k (S j)) as [|Hgt]; [assumption|]. exfalso.
      pose proof (B (S j) ltac:(lia)) as B1. apply ltb_false_idx in B1; lia. }
    assert (Klo : (k < n - 1)%nat -> (j < k)%nat).
    { intros Hk. apply ltb_true_idx; [lia | lia | apply C; exact Hk]. }
    assert (K0 : (k <> 0)%nat).
    { intros E. specialize (Klo ltac:(lia)). lia. }
    replace (k =? 0)%nat with false by (symmetry; apply Nat.eqb_neq; exact K0).
    assert (Ab : PF.ltb x[[n - 1]] x[[j]] = false).
    { destruct (PF.ltb x[[n - 1]] x[[j]]) eqn:E; [|reflexivity].
      apply ltb_true_idx in E; lia. }
    rewrite Ab. cbn [orb].
    assert (Cases : k = S j \/ (k = j /\ S j = n)) by lia.
    unfold segment_value. cbn [add sub mul div one zero FO].
    destruct Cases as [Ek|[Ek El] ].
    - (* the knot is the left end of the bracketing segment *)
      rewrite Ek. replace (S j - 1)%nat with j by lia.
      destruct (seg_left x[[j]] x[[S j]] y[[j]] y[[S j]]) as [Fv Ev];
        try (apply Fx; lia); try (apply Fy; lia); [apply fx_adjacent; lia | apply Fw; lia |].
      eexists; split; [reflexivity|].
      rewrite eqb_FR; [| exact Fv | apply Fy; lia]. apply Req_bool_true. exact Ev.
    - (* the last knot: right end of the last segment *)
      rewrite Ek. destruct j as [|j']; [lia|]. replace (S j' - 1)%nat with j' by lia.
      destruct (seg_right x[[j']] x[[S j']] y[[j']] y[[S j']]) as [Fv Ev];
        try (apply Fx; lia); try (apply Fy; lia); [apply fx_adjacent; lia | apply Fw; lia |].
      eexists; split; [reflexivity|].
      rewrite eqb_FR; [| exact Fv | apply Fy; lia]. apply Req_bool_true. exact Ev.
  Qed.

  (** *** out of range and in range, for any finite target *)
  Lemma fx_first_le_last : FR x[[0]] <= FR x[[n - 1]].
  Proof.
    destruct (Nat.eq_dec 0 (n - 1)) as [E|E]; [rewrite <- E; lra|].
    left; apply fx_increasing; lia.
  Qed.

  Lemma below_range_binary64 : forall t,
      fin t -> FR t < FR x[[0]] ->
      interp1 (FO tbl) x y n m t =
      match m with
      | MPanic => None
      | MFill l r => Some l
      | MExtrap => Some (extrap_left (FO tbl) x y t)
      end.
  Proof.
    intros t Ft Hlt. apply below_range_any_carrier; [exact Hn|].
    change (zero (FO tbl)) with 0%float. cbn [ltb FO].
    rewrite ltb_FR; [apply Rlt_bool_true; exact Hlt | exact Ft | apply Fx; lia].
  Qed.

  Lemma above_range_binary64 : forall t,
      fin t -> FR x[[n - 1]] < FR t ->
      interp1 (FO tbl) x y n m t =
      match m with
      | MPanic => None
      | MFill l r => Some r
      | MExtrap => Some (extrap_right (FO tbl) x y n t)
      end.
  Proof.
    intros t Ft Hgt. pose proof fx_first_le_last as Hfl.
    apply above_range_any_carrier; [exact Hn | intros E; pose proof Hn as Hn'; rewrite E in Hn'; cbn in Hn'; lia | |];
      change (zero (FO tbl)) with 0%float; cbn [ltb FO].
    - rewrite ltb_FR; [apply Rlt_bool_false; lra | exact Ft | apply Fx; lia].
    - rewrite ltb_FR; [apply Rlt_bool_true; exact Hgt | apply Fx; lia | exact Ft].
  Qed.

  (** in range the scan brackets the target between two adjacent knots and the result is the
      convex-combination formula evaluated in binary64 on that segment *)
  Lemma in_range_binary64 : forall t,
      fin t -> FR x[[0]] <= FR t <= FR x[[n - 1]] ->
      exists k, (S k < n)%nat /\ FR x[[k]] <= FR t <= FR x[[S k]] /\
                interp1 (FO tbl) x y n m t = Some (segment_value (FO tbl) x y (S k) t).
  Proof.
    intros t Ft [Hlo Hhi].
    pose proof (scan_le (FO tbl) x (n - 1) t) as A.
    pose proof (scan_prefix (FO tbl) x (n - 1) t) as B.
    pose proof (scan_stop (FO tbl) x (n - 1) t ltac:(lia)) as C.
    rewrite interp1_unfold by lia.
    set (k := scan (FO tbl) x (n - 1) t) in *.
    change (zero (FO tbl)) with 0%float in *. cbn [ltb FO] in B, C |- *.
    assert (K0 : (k <> 0)%nat).
    { intros E. rewrite E in C. specialize (C ltac:(lia)).
      rewrite ltb_FR in C; [| exact Ft | apply Fx; lia]. apply Rlt_bool_iff in C. lra. }
    destruct k as [|k'] eqn:Ek; [congruence|].
    exists k'. split; [lia|]. split; [split|].
    - specialize (B k' ltac:(lia)). rewrite ltb_FR in B; [| exact Ft | apply Fx; lia].
      destruct (Rlt_bool_spec (FR t) (FR x[[k']])); [discriminate B | assumption].
    - destruct (Nat.eq_dec (S k') (n - 1)) as [E|E]; [rewrite E; exact Hhi|].
      specialize (C ltac:(lia)). rewrite ltb_FR in C; [| exact Ft | apply Fx; lia].
      apply Rlt_bool_iff in C. lra.
    - replace (S k' =? 0)%nat with false by reflexivity.
      replace (PF.ltb x[[n - 1]] t) with false; [reflexivity|].
      symmetry. rewrite ltb_FR; [apply Rlt_bool_false; exact Hhi | apply Fx; lia | exact Ft].
  Qed.

  (** interpolating at the knots themselves returns the ordinates (as numbers), in every mode *)
  Lemma knots_roundtrip_binary64 :
      length y = n ->
      exists r, interp_unchecked (FO tbl) x y x m = Some r /\ length r = n /\
                forall j, (j < n)%nat -> PF.eqb (nth j r 0%float) y[[j]] = true.
  Proof.
    intros Hy. pose proof (unchecked_pointwise (FO tbl) x y x m (eq_sym Hy)) as P.
    destruct (interp_unchecked (FO tbl) x y x m) as [r|].
    - exists r. split; [reflexivity|]. pose proof (Forall2_len _ _ _ P) as L. split; [auto|].
      intros j Hj. pose proof (Forall2_nth_both _ 0%float 0%float _ _ P j Hj) as Pj. cbv beta in Pj.
      destruct (interp_at_knot_binary64 j Hj) as [v [Ev Eq] ]. rewrite Ev in Pj.
      injection Pj as <-. exact Eq.
    - exfalso. destruct P as [t [Hin Ht] ]. destruct (In_nth _ _ 0%float Hin) as [j [Hj Ej] ].
      destruct (interp_at_knot_binary64 j Hj) as [v [Ev _] ]. rewrite Ej in Ev. congruence.
  Qed.
End Knot.
