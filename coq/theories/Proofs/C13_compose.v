(** C13 composed with C01: the inner solve of [AR::fit] is C01's model of [invert_matrix]
    ([slice_invert], Model/SolveInst.v) and the hypothesis [inv_ok] of Proofs/C13_ar.v is DISCHARGED from
    C01's theorems.  What remains is a condition on the data alone: the p x p Toeplitz matrix of the
    autocorrelations r(|i-j|) is nonsingular (has a left inverse; implied by positive definiteness).
    It is exactly symmetric, so C01's [invert_nonsingular] applies whichever route (Cholesky / LU) is taken.
    For order 1 the matrix is [[1]] and the condition reduces to a nonzero variance.

    [inv_ok] as stated in Proofs/C13_ar.v quantifies over EVERY matrix, which [slice_invert RO] does not meet
    (a singular matrix yields [Some garbage] in exact arithmetic); the fit calls the inner routine on one
    matrix only, so the parametric theorems are applied to the routine restricted to that matrix
    ([only_at], Proofs/Compose_base.v), which the model cannot distinguish from the unrestricted one. *)
From Coq Require Import Reals List Arith ZArith Bool Lia Lra.
From Compute Require Import Base.Ops Base.ListMat Model.Reduce Model.MatMul Model.TimeSeries Model.SolveInst
  Spec.TimeSeries Proofs.C13_base Proofs.C13_acf Proofs.C13_ar Proofs.C13_ar1 Proofs.C13_examples.
From Compute Require Spec.Factor Spec.Solve Proofs.C05 Proofs.LinAlgBase Proofs.C11_SPD Proofs.C01 Proofs.Compose_base.
Import ListNotations.
Local Open Scope R_scope.

(** ** the two vocabularies agree *)
Lemma Rsum_as_rsum f n : Rsum (map f (seq 0 n)) = Spec.Factor.rsum f n.
Proof. symmetry. apply Proofs.C01.rsum_as_lsum. Qed.

Lemma right_inverse_bridge n A Ai : Spec.Solve.is_right_inverse A n Ai -> right_inverse n A Ai.
Proof.
  intros [Hl H]. split; [exact Hl|]. intros i j Hi Hj. rewrite Rsum_as_rsum. exact (H i j Hi Hj).
Qed.

Lemma adiff_sym i j : adiff i j = adiff j i.
Proof. unfold adiff. lia. Qed.

(** the matrix handed to the inner solve is exactly symmetric *)
Lemma fit_inv_arg_symmetric p data : Spec.Factor.symmetric (fit_inv_arg RO p data) p.
Proof.
  intros i j Hi Hj. unfold Spec.Factor.getm.
  rewrite !nth_fit_inv_arg by assumption. rewrite adiff_sym. reflexivity.
Qed.

Definition toeplitz_nonsingular (p : nat) (data : list R) : Prop :=
  Spec.Solve.nonsingular (fit_inv_arg RO p data) p.

(** ** C01's [invert_matrix] at the matrix the fit passes *)
Lemma invert_at_arg p data :
  (0 < p)%nat -> toeplitz_nonsingular p data ->
  exists Ai, slice_invert RO (fit_inv_arg RO p data) = Some Ai /\ right_inverse p (fit_inv_arg RO p data) Ai.
Proof.
  intros Hp Hns.
  destruct (Proofs.Compose_base.invert_sym_nonsingular (fit_inv_arg RO p data) p
              (eq_sym (fit_inv_arg_length p data)) Hp (fit_inv_arg_symmetric p data) Hns) as (X & HX & HR).
  exists X. split; [exact HX|apply right_inverse_bridge; exact HR].
Qed.

Definition inv_at (p : nat) (data : list R) : list R -> option (list R) :=
  Proofs.Compose_base.only_at (fit_inv_arg RO p data) (slice_invert RO).

Lemma inv_at_ok p data :
  (0 < p)%nat -> toeplitz_nonsingular p data ->
  forall n A Ai, length A = (n * n)%nat -> inv_at p data A = Some Ai -> right_inverse n A Ai.
Proof.
  intros Hp Hns n A Ai Hlen H.
  destruct (Proofs.Compose_base.only_at_some _ _ _ _ H) as [-> HAi].
  rewrite fit_inv_arg_length in Hlen. assert (n = p) by nia. subst n.
  destruct (invert_at_arg p data Hp Hns) as (X & HX & HR). rewrite HX in HAi. injection HAi as <-. exact HR.
Qed.

Lemma fit_inv_at p data : ar_new_fit RO (inv_at p data) p data = ar_new_fit RO (slice_invert RO) p data.
Proof. unfold ar_new_fit, ar_fit, inv_at. rewrite Proofs.Compose_base.only_at_same. reflexivity. Qed.

(** ** composed theorems *)

(** a returned fit solves the Yule-Walker equations; nothing is assumed about the inner solve *)
Theorem fit_solves_yule_walker_composed p data coeffs mu :
  toeplitz_nonsingular p data ->
  ar_new_fit RO (slice_invert RO) p data = Some (coeffs, mu) ->
  yule_walker (fun t => acorr data (Z.of_nat t)) p (rev coeffs) /\ mu = smean data.
Proof.
  intros Hns Hfit.
  assert (Hp : (0 < p)%nat) by (destruct p; [discriminate|lia]).
  rewrite <- fit_inv_at in Hfit.
  exact (fit_solves_yule_walker (inv_at p data) (inv_at_ok p data Hp Hns) p data coeffs mu Hfit).
Qed.

(** the Yule-Walker equations read as a linear system in C01's vocabulary *)
Definition yw_rhs (p : nat) (data : list R) : list R := map (fun i => acorr data (Z.of_nat (S i))) (seq 0 p).

Lemma yule_walker_solves p data phi :
  yule_walker (fun t => acorr data (Z.of_nat t)) p phi ->
  Spec.Solve.solves (fit_inv_arg RO p data) p phi (yw_rhs p data).
Proof.
  intros [Hl H]. split; [exact Hl|]. intros i Hi.
  unfold Spec.Factor.mvec. rewrite <- Rsum_as_rsum.
  unfold yw_rhs. rewrite Proofs.C05.nth_map_seq by exact Hi. cbn [Nat.add].
  rewrite <- (H i Hi). apply Rsum_map_ext. intros j Hj. apply in_seq in Hj.
  unfold Spec.Factor.getm. rewrite nth_fit_inv_arg by lia. reflexivity.
Qed.

(** the headline: positive order, nonsingular Toeplitz matrix  =>  [AR::new(p).fit] RETURNS, with p
    coefficients that (read backwards) are THE solution of the Yule-Walker equations, intercept = mean *)
Theorem fit_total_composed p data :
  (0 < p)%nat -> toeplitz_nonsingular p data ->
  exists coeffs, ar_new_fit RO (slice_invert RO) p data = Some (coeffs, smean data) /\ length coeffs = p /\
    yule_walker (fun t => acorr data (Z.of_nat t)) p (rev coeffs) /\
    forall phi, yule_walker (fun t => acorr data (Z.of_nat t)) p phi -> phi = rev coeffs.
Proof.
  intros Hp Hns.
  destruct (invert_at_arg p data Hp Hns) as (Ai & HAi & [HAil _]).
  destruct (fit_accepts (slice_invert RO) p data Ai Hp HAi HAil) as (c & Hc & Hcl & _).
  exists c. split; [exact Hc|]. split; [exact Hcl|].
  destruct (fit_solves_yule_walker_composed p data c (smean data) Hns Hc) as [Hyw _].
  split; [exact Hyw|].
  intros phi Hphi.
  apply (Proofs.C01.solution_unique (fit_inv_arg RO p data) p phi (rev c) (yw_rhs p data) Hns);
    apply yule_walker_solves; assumption.
Qed.

(** positive definiteness of the Toeplitz matrix suffices *)
Lemma toeplitz_pd_nonsingular p data :
  (0 < p)%nat -> Proofs.C11_SPD.positive_definite (fit_inv_arg RO p data) p -> toeplitz_nonsingular p data.
Proof.
  intros Hp Hpd. apply Proofs.Compose_base.spd_nonsingular; auto.
  - symmetry. apply fit_inv_arg_length.
  - apply fit_inv_arg_symmetric.
Qed.

(** ** order 1: the condition is a nonzero variance *)
Lemma toeplitz1_nonsingular data : acov data 0 <> 0 -> toeplitz_nonsingular 1 data.
Proof.
  intros Hv. exists [1]. intros i j Hi Hj.
  assert (i = 0%nat) by lia. assert (j = 0%nat) by lia. subst i j.
  unfold Spec.Factor.mmul. cbn [Spec.Factor.rsum]. unfold Spec.Factor.getm at 2.
  rewrite (nth_fit_inv_arg 1 data 0 0) by lia.
  unfold Spec.Factor.getm, Spec.Solve.delta, acorr. cbn [nth Nat.mul Nat.add adiff Nat.sub Z.of_nat Nat.eqb].
  field. exact Hv.
Qed.

(** order 2: a nonzero variance suffices as well, because |r(1)| < 1 (Proofs/C13_ar1.v) *)
Lemma toeplitz2_nonsingular data : acov data 0 <> 0 -> toeplitz_nonsingular 2 data.
Proof.
  intros Hv.
  set (r := acorr data 1).
  assert (Hr : Rabs r < 1) by (unfold r; rewrite <- acf_def; apply acf_lag1_strict; exact Hv).
  assert (Hd : 1 - r * r <> 0) by (apply Rabs_def2 in Hr; nra).
  assert (H0 : acorr data 0 = 1) by (unfold acorr; field; exact Hv).
  exists [1 / (1 - r * r); - r / (1 - r * r); - r / (1 - r * r); 1 / (1 - r * r)].
  assert (E : forall a b, (a < 2)%nat -> (b < 2)%nat ->
            Spec.Factor.getm (fit_inv_arg RO 2 data) 2 a b = acorr data (Z.of_nat (adiff a b)))
    by (intros; unfold Spec.Factor.getm; apply nth_fit_inv_arg; assumption).
  assert (E00 : acorr data (Z.of_nat (adiff 0 0)) = 1) by exact H0.
  assert (E11 : acorr data (Z.of_nat (adiff 1 1)) = 1) by exact H0.
  assert (E01 : acorr data (Z.of_nat (adiff 0 1)) = r) by reflexivity.
  assert (E10 : acorr data (Z.of_nat (adiff 1 0)) = r) by reflexivity.
  intros i j Hi Hj. unfold Spec.Factor.mmul. cbn [Spec.Factor.rsum].
  rewrite !E by lia.
  destruct i as [|[|i]]; [| |lia]; (destruct j as [|[|j]]; [| |lia]);
    rewrite ?E00, ?E01, ?E10, ?E11; unfold Spec.Factor.getm, Spec.Solve.delta;
    cbn [nth Nat.mul Nat.add Nat.eqb]; field; exact Hd.
Qed.

Theorem ar1_fit_forecasts_converge_composed data :
  acov data 0 <> 0 ->
  exists phi, ar_new_fit RO (slice_invert RO) 1 data = Some ([phi], smean data) /\
    phi = acorr data 1 /\ Rabs phi < 1 /\
    forall eps, 0 < eps -> exists N, forall h k f,
      (N <= k < h)%nat -> predict RO [phi] (smean data) data h = Some f -> Rabs (nth k f 0 - smean data) < eps.
Proof.
  intros Hv. pose proof (toeplitz1_nonsingular data Hv) as Hns.
  destruct (fit_total_composed 1 data ltac:(lia) Hns) as (c & Hc & _).
  pose proof Hc as Hc'. rewrite <- fit_inv_at in Hc'.
  destruct (ar1_fit_coefficient (inv_at 1 data) (inv_at_ok 1 data ltac:(lia) Hns) data c (smean data) Hv Hc') as [-> _].
  destruct (ar1_fit_forecasts_converge (inv_at 1 data) (inv_at_ok 1 data ltac:(lia) Hns) data _ (smean data) Hv Hc')
    as (_ & (phi & Hphi & Hlt) & Hconv).
  injection Hphi as <-.
  exists (acorr data 1). split; [exact Hc|]. split; [reflexivity|]. split; [exact Hlt|exact Hconv].
Qed.

(** the data condition is satisfiable on a non-trivial instance *)
Example toeplitz_nonsingular_instance : toeplitz_nonsingular 2 [0; 1; 3].
Proof. apply toeplitz2_nonsingular. exact Proofs.C13_examples.acov0_nonzero. Qed.

Example fit_composed_instance :
  exists coeffs, ar_new_fit RO (slice_invert RO) 2 [0; 1; 3] = Some (coeffs, smean [0; 1; 3]) /\ length coeffs = 2%nat.
Proof.
  destruct (fit_total_composed 2 [0; 1; 3] ltac:(lia) toeplitz_nonsingular_instance) as (c & Hc & Hl & _).
  exists c. split; assumption.
Qed.
