(** C09: Γ(n) = (n−1)! to 1e-13 for n = 58 .. 114, each by [interval] on the regenerated constants. *)
From Compute Require Import Proofs.C09_base.
Lemma lanczos_part2 : Forall lanczos_ok (seq 58 57).
Proof. cbv [seq]. lanczos_all. Qed.
