(** * Tie A for C15, constructors and slice utilities of src/linalg/utils.rs: the hand-written models of [Model/Shape.v]
    ([diag_matrix], [toeplitz], [vandermonde], [design], [linspace], [arange], [is_design]) ARE the source.
    [Generated/ctor_loops.v] is produced on every run by tools/tiea/ctor_loops.py (statement-level translator
    [LoopTranslator] of tools/rsexpr.py).  Every write [new[i * n + i] = ..], [v[(i * n + j)] = ..] and read
    [x[|i - j|]], [&x[i * ncols..(i + 1) * ncols]] is in bounds; every carrier, every input; no law of the carrier. *)
From Coq Require Import List ZArith QArith Arith Bool Lia.
From Compute Require Import Base.Ops Base.ListMat Base.RsExpr Base.RsExprMut Model.Shape
  Proofs.RsExprLemmas Proofs.C15Lists Proofs.LinAlgBase Proofs.TieA_linalg_loops Proofs.TieA_linalg_lu Generated.ctor_loops.
Import ListNotations.
Local Close Scope Q_scope.

Lemma is_matrix_some : forall len nr nc, is_matrix len nr = Some nc -> nr * nc = len /\ 0 < nr.
Proof.
  intros len nr nc H. unfold is_matrix in H. destruct nr as [|nr']; [discriminate|].
  destruct (Nat.eqb_spec (S nr' * (len / S nr')) len) as [E|E]; [|discriminate]. injection H as <-. split; [exact E|lia].
Qed.

Lemma fold_left_list_prod : forall {A B S} (f : S -> A * B -> S) (l1 : list A) (l2 : list B) (s : S),
  fold_left f (list_prod l1 l2) s = fold_left (fun s i => fold_left (fun s j => f s (i, j)) l2 s) l1 s.
Proof.
  intros A B S f l1 l2. induction l1 as [|a l1 IH]; intro s; [reflexivity|].
  cbn [list_prod fold_left]. rewrite fold_left_app, fold_left_map. apply IH.
Qed.

Lemma fold_left_app_flat_map : forall {A B} (g : A -> list B) (l : list A) (acc : list B),
  fold_left (fun acc a => acc ++ g a) l acc = acc ++ flat_map g l.
Proof. intros A B g l. induction l as [|a l IH]; intro acc; cbn [fold_left flat_map]; [now rewrite app_nil_r|]. now rewrite IH, app_assoc. Qed.

Lemma fold_left_snoc_map : forall {A B} (g : A -> B) (l : list A) (acc : list B),
  fold_left (fun acc a => acc ++ [g a]) l acc = acc ++ map g l.
Proof. intros A B g l. induction l as [|a l IH]; intro acc; cbn [fold_left map]; [now rewrite app_nil_r|]. now rewrite IH, <- app_assoc. Qed.

Section TieA.
  Context {T : Type} (O : Ops T).
  Local Notation d := (zero O).

  Lemma tiea_is_matrix_c : forall (m : list T) (nr : nat),
    (let* r := src_is_matrix O m (Z.of_nat nr) in r) = option_map Z.of_nat (is_matrix (length m) nr).
  Proof. intros m nr. exact (tiea_is_matrix O m nr). Qed.

  (** the input fits the address space: [vec![0.; n * n]] passes the allocation's capacity check *)
  Theorem tiea_diag_matrix : forall (a : list T), (Z.of_nat (length a * length a) <= 1152921504606846975)%Z ->
    src_diag_matrix O a = Some (diag_matrix O a).
  Proof.
    intros a Hcap. unfold src_diag_matrix, diag_matrix, rs_len. cbv zeta. set (n := length a) in *. znat.
    rewrite rs_vec_alloc_nat by exact Hcap. cbn [bind]. rewrite rs_range_excl_0m.
    destruct (rs_fold_opt_inv (fun x => length x = n * n)
               (fun new i => let* g2 := rs_get a i in let* l3 := rs_set new (Z.add (Z.mul i (Z.of_nat n)) i) g2 in Some l3)
               (fun x i => upd x (i * n + i) (nth i a d)) (seq 0 n) (repeat d (n * n))) as (E & _); [apply repeat_length| |now rewrite E].
    intros s k Hk Hs. apply in_seq in Hk. rewrite (rs_get_some a k d) by (fold n; lia). cbn [bind]. znat.
    rewrite rs_set_nat by nia. cbn [bind]. split; [reflexivity|now rewrite upd_length].
  Qed.

  Theorem tiea_toeplitz : forall (x : list T), (Z.of_nat (length x * length x) <= 1152921504606846975)%Z ->
    src_toeplitz O x = Some (toeplitz O x).
  Proof.
    intros x Hcap. unfold src_toeplitz, toeplitz, rs_len. cbv zeta. set (n := length x) in *. znat.
    rewrite rs_vec_alloc_nat by exact Hcap. cbn [bind]. rewrite !rs_range_excl_0m. rewrite fold_left_list_prod.
    destruct (rs_fold_opt_inv (fun v => length v = n * n)
               (fun v i => let* v := rs_fold_opt (fun v j => let* g2 := rs_get x (Z.abs (Z.sub i j)) in
                                                              let* l3 := rs_set v (Z.add (Z.mul i (Z.of_nat n)) j) g2 in Some l3)
                                                 (map Z.of_nat (seq 0 n)) v in Some v)
               (fun v i => fold_left (fun v j => upd v (i * n + j) (nth (absdiff i j) x d)) (seq 0 n) v)
               (seq 0 n) (repeat d (n * n))) as (E & _); [apply repeat_length| |now rewrite E].
    intros s i Hi Hs. apply in_seq in Hi.
    destruct (rs_fold_opt_inv (fun v => length v = n * n)
               (fun v j => let* g2 := rs_get x (Z.abs (Z.sub (Z.of_nat i) j)) in
                           let* l3 := rs_set v (Z.add (Z.mul (Z.of_nat i) (Z.of_nat n)) j) g2 in Some l3)
               (fun v j => upd v (i * n + j) (nth (absdiff i j) x d)) (seq 0 n) s Hs) as (E & HL).
    - intros v j Hj Hv. apply in_seq in Hj.
      replace (Z.abs (Z.of_nat i - Z.of_nat j)) with (Z.of_nat (absdiff i j)) by (unfold absdiff; lia).
      rewrite (rs_get_some x (absdiff i j) d) by (fold n; unfold absdiff; lia). cbn [bind]. znat.
      rewrite rs_set_nat by nia. cbn [bind]. split; [reflexivity|now rewrite upd_length].
    - rewrite E. cbn [bind]. split; [reflexivity|exact HL].
  Qed.

  Theorem tiea_vandermonde : forall (x : list T) (n : nat), src_vandermonde O x (Z.of_nat n) = vandermonde O x n.
  Proof.
    intros x n. unfold src_vandermonde, vandermonde. cbv zeta. rewrite rs_range_excl_0m.
    rewrite (fold_left_ext _ (fun vm v => vm ++ map (fun i => powi O v (Z.of_nat i)) (seq 0 n))).
    - apply (fold_left_app_flat_map _ x []).
    - intros s v. rewrite fold_left_map. apply (fold_left_snoc_map (fun i => powi O v (Z.of_nat i))).
  Qed.

  Theorem tiea_design : forall (x : list T) (rows : nat), src_design O x (Z.of_nat rows) = design O x rows.
  Proof.
    intros x rows. unfold src_design, design.
    pose proof (tiea_is_matrix_c x rows) as Hm. destruct (src_is_matrix O x (Z.of_nat rows)) as [r|]; cbn [bind] in Hm |- *.
    2:{ destruct (is_matrix (length x) rows); [discriminate|reflexivity]. }
    rewrite Hm. destruct (is_matrix (length x) rows) as [nc|] eqn:Em; [|reflexivity]. cbn [option_map bind]. cbv zeta.
    apply is_matrix_some in Em. destruct Em as (Em & _). rewrite rs_range_excl_0m.
    destruct (rs_fold_opt_inv (fun _ => True)
               (fun dd i => let* sl3 := rs_slice x (Z.mul i (Z.of_nat nc)) (Z.mul (Z.add i 1%Z) (Z.of_nat nc)) in Some ((dd ++ [one O]) ++ sl3))
               (fun dd i => dd ++ one O :: row_of x nc i) (seq 0 rows) [] I) as (E & _).
    - intros s k Hk _. apply in_seq in Hk. rewrite Zadd1_nat. znat. rewrite rs_slice_nat by nia. cbn [bind]. split; [|exact I].
      f_equal. rewrite <- app_assoc. cbn [app]. do 2 f_equal. unfold row_of. f_equal. lia.
    - rewrite E. cbn [bind]. f_equal. apply (fold_left_app_flat_map (fun i => one O :: row_of x nc i) (seq 0 rows) []).
  Qed.

  Theorem tiea_linspace : forall (a b : T) (n : nat), src_linspace O a b (Z.of_nat n) = linspace O a b n.
  Proof.
    intros a b n. unfold src_linspace, linspace. change 2%Z with (Z.of_nat 2). rewrite Zltb_of_nat. rewrite rs_range_excl_0m.
    destruct (Nat.ltb_spec n 2) as [H|H].
    - rewrite map_map. clear H.
      assert (G : forall l : list nat, map (fun _ => a) l = repeat a (length l)).
      { induction l as [|k l IH]; [reflexivity|]. cbn [map length repeat]. now rewrite IH. }
      now rewrite G, seq_length.
    - cbv zeta. rewrite map_map. change 1%Z with (Z.of_nat 1). rewrite rs_usub_nat by lia. reflexivity.
  Qed.

  Theorem tiea_arange : forall (start stop step : T), src_arange O start stop step = arange O start stop step.
  Proof.
    intros start stop step. unfold src_arange, arange, arange_count. cbv zeta.
    set (t := truncZ O (f1 O Ceil (div O (sub O stop start) step))).
    unfold rs_range_excl. rewrite Z.sub_0_r. replace (Z.to_nat (Z.max 0 t)) with (Z.to_nat t) by lia.
    rewrite rs_seq_0_nat, map_map. reflexivity.
  Qed.

  Lemma fold_flag_forallb : forall {A} (c : A -> bool) (l : list A) (b0 : bool),
    fold_left (fun b a => if c a then false else b) l b0 = b0 && forallb (fun a => negb (c a)) l.
  Proof.
    intros A c l. induction l as [|a l IH]; intro b0; cbn [fold_left forallb]; [now rewrite andb_true_r|].
    rewrite IH. destruct (c a), b0; reflexivity.
  Qed.

  Theorem tiea_is_design : forall (m : list T) (nr : nat), src_is_design O m (Z.of_nat nr) = is_design O m nr.
  Proof.
    intros m nr. unfold src_is_design, is_design. cbv zeta.
    pose proof (tiea_is_matrix_c m nr) as Hm. destruct (src_is_matrix O m (Z.of_nat nr)) as [r|]; cbn [bind] in Hm |- *.
    2:{ destruct (is_matrix (length m) nr); [discriminate|reflexivity]. }
    rewrite Hm. destruct (is_matrix (length m) nr) as [nc|] eqn:Em; [|reflexivity]. cbn [option_map bind].
    apply is_matrix_some in Em. destruct Em as (Em & Hnr). rewrite rs_range_excl_0m.
    destruct (Nat.ltb_spec 0 nc) as [Hnc|Hnc]; cbn [guard bind].
    - destruct (rs_fold_opt_inv (fun _ => True)
                 (fun fl i => let* g3 := rs_get m (Z.mul i (Z.of_nat nc)) in
                              if ltb O (rs_f64_epsilon O) (abs O (sub O g3 (one O))) then Some false else Some fl)
                 (fun fl i => if differ O (nth (i * nc) m d) (one O) then false else fl) (seq 0 nr) true I) as (E & _).
      + intros s k Hk _. apply in_seq in Hk. znat. rewrite (rs_get_some m (k * nc) d) by nia. cbn [bind]. split; [|exact I].
        unfold differ, eps, rs_f64_epsilon. destruct (ltb O _ _); reflexivity.
      + rewrite E. cbn [bind]. f_equal. apply (fold_flag_forallb (fun i => differ O (nth (i * nc) m d) (one O)) (seq 0 nr) true).
    - assert (nc = 0) by lia. subst nc. destruct nr as [|nr']; [lia|].
      destruct m as [|m0 m]; [reflexivity | cbn [length] in Em; lia].
  Qed.
End TieA.

(** ** [transpose], [diag], [is_symmetric] of utils.rs (text: [Generated/linalg_loops.v]) against the flat models of [Model/Shape.v] *)
Lemma forallb_ext_in : forall {A} (f g : A -> bool) (l : list A), (forall a, In a l -> f a = g a) -> forallb f l = forallb g l.
Proof.
  intros A f g l. induction l as [|a l IH]; intro H; [reflexivity|]. cbn [forallb]. rewrite H by (now left). f_equal. apply IH.
  intros a' Ha'. apply H. now right.
Qed.

Section Utils.
  Context {T : Type} (O : Ops T).
  Local Notation d := (zero O).

  Lemma is_symmetric_u_rows : forall (m : list T), is_symmetric_u O m = Model.Subst.is_symmetric O m.
  Proof.
    intro m. unfold is_symmetric_u, Model.Subst.is_symmetric, is_square_u, Model.Subst.is_square.
    destruct (Nat.eqb_spec (Nat.sqrt (length m) * Nat.sqrt (length m)) (length m)) as [E|E]; [|reflexivity].
    set (n := Nat.sqrt (length m)) in *. cbn [bind]. f_equal. unfold Model.Subst.is_symmetric_rows.
    apply forallb_ext_in. intros i Hi. apply in_seq in Hi. apply forallb_ext_in. intros j Hj. apply in_seq in Hj.
    rewrite !ent_unflatten by lia. reflexivity.
  Qed.

  Theorem tiea_is_symmetric_u : forall (m : list T),
    Generated.linalg_loops.src_is_symmetric O is_square_z m = is_symmetric_u O m.
  Proof. intro m. rewrite is_symmetric_u_rows. apply tiea_is_symmetric. Qed.
End Utils.
