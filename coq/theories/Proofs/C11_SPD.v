(** Proofs for C11 (extension, shared with C01): completeness of Cholesky.  For a symmetric positive
    definite matrix every pivot of the Cholesky-Banachiewicz sweep is positive (the pivot of row i is the
    value of the quadratic form at an explicit vector), so [try_cholesky] returns a factor and [cholesky]
    does not panic.  (Proof by h-c01, moved here from Proofs/C01_SPD.v.) *)
From Coq Require Import List Arith Bool Lia Reals Lra.
From Compute Require Import Base.Ops Base.ListMat Model.Reduce Model.MatMul Model.Subst Model.Cholesky
  Spec.Factor Proofs.C05 Proofs.LinAlgBase Proofs.C11_Subst Proofs.C11_Pred Proofs.C11_Chol.
Import ListNotations.
Local Open Scope R_scope.

(** ** sums *)
Lemma quad_gram (a : nat -> R) (B : nat -> nat -> R) i k :
  rsum (fun p => rsum (fun q => a p * rsum (fun m => B p m * B q m) k * a q) i) i =
  rsum (fun m => rsum (fun p => B p m * a p) i * rsum (fun p => B p m * a p) i) k.
Proof.
  rewrite (rsum_ext _ (fun p => rsum (fun m => rsum (fun q => (a p * B p m) * (B q m * a q)) i) k)).
  - rewrite rsum_swap. apply rsum_ext. intros m Hm.
    rewrite (rsum_ext _ (fun p => (a p * B p m) * rsum (fun q => B q m * a q) i))
      by (intros p Hp; rewrite rsum_scal_l; reflexivity).
    rewrite rsum_scal_r. f_equal. apply rsum_ext. intros; ring.
  - intros p Hp. rewrite rsum_swap. apply rsum_ext. intros q Hq.
    rewrite <- rsum_scal_l, <- rsum_scal_r. apply rsum_ext. intros; ring.
Qed.

Lemma lin_gram (r a : nat -> R) (B : nat -> nat -> R) i k :
  rsum (fun q => rsum (fun m => r m * B q m) k * a q) i =
  rsum (fun m => r m * rsum (fun q => B q m * a q) i) k.
Proof.
  rewrite (rsum_ext _ (fun q => rsum (fun m => r m * (B q m * a q)) k)).
  - rewrite rsum_swap. apply rsum_ext. intros m Hm. rewrite rsum_scal_l. reflexivity.
  - intros q Hq. rewrite <- rsum_scal_r. apply rsum_ext. intros; ring.
Qed.

(** an upper triangular system with nonzero diagonal has a solution *)
Lemma upper_solve i : forall (U : nat -> nat -> R) (r : nat -> R),
  (forall m, (m < i)%nat -> U m m <> 0) ->
  exists w, forall m, (m < i)%nat ->
    rsum (fun p => (if (m <=? p)%nat then U m p else 0) * w p) i = r m.
Proof.
  induction i as [|i IH]; intros U r Hd.
  - exists (fun _ => 0). intros; lia.
  - destruct (IH (fun m p => U (S m) (S p)) (fun m => r (S m))) as [w' Hw'].
    { intros m Hm. apply Hd. lia. }
    set (w0 := (r 0%nat - rsum (fun p => U 0%nat (S p) * w' p) i) / U 0%nat 0%nat).
    exists (fun p => match p with 0%nat => w0 | S p' => w' p' end).
    intros m Hm. rewrite rsum_shift. destruct m as [|m'].
    + cbn [Nat.leb]. unfold w0. pose proof (Hd 0%nat ltac:(lia)). field. auto.
    + cbn [Nat.leb]. rewrite Rmult_0_l, Rplus_0_l. apply Hw'. lia.
Qed.

(** ** positive definiteness, on entry functions *)
Definition qform (A : nat -> nat -> R) (n : nat) (x : nat -> R) : R :=
  rsum (fun p => rsum (fun q => x p * A p q * x q) n) n.
Definition pos_def_fun (A : nat -> nat -> R) (n : nat) : Prop :=
  forall x : nat -> R, (exists i, (i < n)%nat /\ x i <> 0) -> 0 < qform A n x.

Section Pivots.
Context (A L : list (list R)) (n : nat).
Local Notation E := (ent 0 L).
Local Notation a := (ent 0 A).

Lemma pivots_positive :
  chol_rec A L n ->
  (forall i j, (i < n)%nat -> (j < n)%nat -> ent 0 A i j = ent 0 A j i) ->
  pos_def_fun (ent 0 A) n ->
  forall i, (i < n)%nat -> 0 < piv A L i.
Proof.
  intros Hrec Hsym Hpd i. induction i as [i IH] using lt_wf_ind. intros Hi.
  assert (Hdiag : forall j, (j < i)%nat -> 0 < E j j).
  { intros j Hj. destruct (Hrec j ltac:(lia)) as (_ & Hd & _). rewrite Hd.
    apply sqrt_lt_R0. apply (IH j Hj). lia. }
  assert (Hzero : forall p m, (p < n)%nat -> (p < m)%nat -> E p m = 0).
  { intros p m Hp Hpm. destruct (Hrec p Hp) as (Hz & _). apply Hz; auto. }
  (* reconstruction of the rows above row i and of the off-diagonal part of row i *)
  assert (Hlow : forall p q, (p < i)%nat -> (q <= p)%nat -> rsum (fun m => E p m * E q m) i = a p q).
  { intros p q Hp Hq.
    rewrite (rsum_trunc _ (S q) i) by (try lia; intros m Hm; rewrite (Hzero q m) by lia; ring).
    destruct (Hrec p ltac:(lia)) as (_ & Hd & Ho). cbn [rsum].
    destruct (Nat.eq_dec q p) as [->|Hne].
    - rewrite Hd. rewrite sqrt_sqrt by (pose proof (IH p Hp ltac:(lia)) as Hp0; unfold piv in Hp0; lra).
      lra.
    - assert (Hqp : (q < p)%nat) by lia. specialize (Ho q Hqp). rewrite Ho.
      pose proof (Hdiag q ltac:(lia)).
      rewrite (rsum_ext (fun m => E p m * E q m) (fun m => E q m * E p m) q) by (intros; ring).
      field. lra. }
  assert (Hall : forall p q, (p < i)%nat -> (q < i)%nat -> rsum (fun m => E p m * E q m) i = a p q).
  { intros p q Hp Hq. destruct (Nat.le_gt_cases q p).
    - apply Hlow; auto.
    - rewrite (Hsym p q) by lia. rewrite <- (Hlow q p) by (auto; lia).
      apply rsum_ext. intros; ring. }
  assert (Hrow : forall q, (q < i)%nat -> rsum (fun m => E i m * E q m) i = a i q).
  { intros q Hq.
    rewrite (rsum_trunc _ (S q) i) by (try lia; intros m Hm; rewrite (Hzero q m) by lia; ring).
    destruct (Hrec i Hi) as (_ & _ & Ho). cbn [rsum]. specialize (Ho q Hq). rewrite Ho.
    pose proof (Hdiag q Hq).
    rewrite (rsum_ext (fun m => E i m * E q m) (fun m => E q m * E i m) q) by (intros; ring).
    field. lra. }
  (* w solves L'^T.w = (row i of L) *)
  destruct (upper_solve i (fun m p => E p m) (fun m => E i m)) as [w Hw].
  { intros m Hm. pose proof (Hdiag m Hm). lra. }
  assert (Hc : forall m, (m < i)%nat -> rsum (fun p => E p m * w p) i = E i m).
  { intros m Hm. rewrite <- (Hw m Hm). apply rsum_ext. intros p Hp.
    destruct (Nat.leb_spec m p); [reflexivity|]. rewrite (Hzero p m) by lia. ring. }
  (* the test vector *)
  set (x := fun p => if (p <? i)%nat then - w p else if (p =? i)%nat then 1 else 0).
  assert (Hx0 : forall p, (i < p)%nat -> x p = 0).
  { intros p Hp. unfold x. destruct (Nat.ltb_spec p i); [lia|]. destruct (Nat.eqb_spec p i); [lia|reflexivity]. }
  assert (Hxi : x i = 1).
  { unfold x. rewrite Nat.ltb_irrefl, Nat.eqb_refl. reflexivity. }
  assert (Hxw : forall p, (p < i)%nat -> x p = - w p).
  { intros p Hp. unfold x. destruct (Nat.ltb_spec p i); [reflexivity|lia]. }
  assert (Hq : qform (ent 0 A) n x = piv A L i).
  { unfold qform.
    rewrite (rsum_trunc _ (S i) n) by (try lia; intros p Hp; apply rsum_zero; intros q Hq; rewrite (Hx0 p) by lia; ring).
    rewrite (rsum_ext _ (fun p => rsum (fun q => x p * a p q * x q) (S i)))
      by (intros p Hp; apply (rsum_trunc _ (S i) n); try lia; intros q Hq; rewrite (Hx0 q) by lia; ring).
    cbn [rsum]. rewrite Hxi.
    set (W := rsum (fun p => rsum (fun q => w p * a p q * w q) i) i).
    set (V := rsum (fun q => a i q * w q) i).
    set (Sq := rsum (fun m => E i m * E i m) i).
    assert (H1 : rsum (fun p => rsum (fun q => x p * a p q * x q) i + x p * a p i * 1) i = W - V).
    { unfold W, V. rewrite <- rsum_minus. apply rsum_ext. intros p Hp.
      rewrite (Hxw p Hp). rewrite (Hsym p i) by lia.
      rewrite (rsum_ext (fun q => - w p * a p q * x q) (fun q => w p * a p q * w q))
        by (intros q Hq; rewrite (Hxw q Hq); ring).
      ring. }
    assert (H2 : rsum (fun q => 1 * a i q * x q) i = - V).
    { unfold V. assert (Hneg : forall f k, rsum (fun q => - f q) k = - rsum f k)
        by (intros f k; induction k; cbn [rsum]; lra).
      rewrite <- Hneg. apply rsum_ext. intros q Hq. rewrite (Hxw q Hq). ring. }
    assert (HV : V = Sq).
    { unfold V. rewrite (rsum_ext _ (fun q => rsum (fun m => E i m * E q m) i * w q))
        by (intros q Hq; rewrite (Hrow q Hq); reflexivity).
      rewrite (lin_gram (fun m => E i m) w (fun q m => E q m) i i).
      unfold Sq. apply rsum_ext. intros m Hm. rewrite (Hc m Hm). reflexivity. }
    assert (HW : W = Sq).
    { unfold W. rewrite (rsum_ext _ (fun p => rsum (fun q => w p * rsum (fun m => E p m * E q m) i * w q) i)).
      - rewrite (quad_gram w (fun p m => E p m) i i). unfold Sq. apply rsum_ext. intros m Hm.
        rewrite (Hc m Hm). reflexivity.
      - intros p Hp. apply rsum_ext. intros q Hq. rewrite (Hall p q Hp Hq). reflexivity. }
    rewrite H1, H2. unfold piv. fold Sq. lra. }
  rewrite <- Hq. apply Hpd. exists i. split; [exact Hi|]. rewrite Hxi. lra.
Qed.
End Pivots.

(** ** the checked sweep succeeds on a symmetric positive definite matrix *)
Lemma spd_try_chol_rows M n :
  (forall i j, (i < n)%nat -> (j < n)%nat -> ent 0 M i j = ent 0 M j i) ->
  pos_def_fun (ent 0 M) n ->
  try_chol_rows RO false M n = Some (chol_rows RO false M n).
Proof.
  intros Hsym Hpd. apply try_chol_rows_complete.
  destruct (chol_rows_spec false M n) as [_ Hrec].
  apply (pivots_positive M _ n Hrec Hsym Hpd).
Qed.

(** flat level *)
Definition positive_definite (a : list R) (n : nat) : Prop :=
  forall x : nat -> R, (exists i, (i < n)%nat /\ x i <> 0) ->
    0 < rsum (fun p => rsum (fun q => x p * getm a n p q * x q) n) n.

Theorem spd_try_cholesky a n :
  (n * n)%nat = length a -> symmetric a n -> positive_definite a n ->
  exists l, try_cholesky RO a = Some (Some l).
Proof.
  intros Hn Hsym Hpd. unfold try_cholesky. rewrite <- Hn, is_square_sq. cbn [bind].
  rewrite is_symmetric_rows_exact.
  2:{ intros i j Hi Hj. rewrite !ent_unflatten by auto. apply (Hsym i j); auto. }
  cbn [guard bind]. rewrite spd_try_chol_rows.
  - cbn [option_map]. eauto.
  - intros i j Hi Hj. rewrite !ent_unflatten by auto. apply (Hsym i j); auto.
  - intros x Hx. specialize (Hpd x Hx). unfold qform.
    rewrite (rsum_ext _ (fun p => rsum (fun q => x p * getm a n p q * x q) n)); [exact Hpd|].
    intros p Hp. apply rsum_ext. intros q Hq. rewrite ent_unflatten by auto. reflexivity.
Qed.

(** a positive definite matrix has a positive diagonal *)
Lemma positive_definite_diag a n i : positive_definite a n -> (i < n)%nat -> 0 < getm a n i i.
Proof.
  intros Hpd Hi.
  specialize (Hpd (fun p => if (p =? i)%nat then 1 else 0)).
  assert (Hx : exists i0, (i0 < n)%nat /\ (if (i0 =? i)%nat then 1 else 0) <> 0)
    by (exists i; rewrite Nat.eqb_refl; split; [auto|lra]).
  specialize (Hpd Hx).
  rewrite (rsum_single _ i n Hi) in Hpd.
  - rewrite (rsum_single _ i n Hi) in Hpd.
    + rewrite Nat.eqb_refl in Hpd. lra.
    + intros k Hk Hki. destruct (Nat.eqb_spec k i); [lia|]. ring.
  - intros k Hk Hki. apply rsum_zero. intros q Hq. destruct (Nat.eqb_spec k i); [lia|]. ring.
Qed.

Lemma spd_cholesky a n :
  (n * n)%nat = length a -> symmetric a n -> positive_definite a n ->
  exists l, cholesky RO a = Some l.
Proof.
  intros Hn Hsym Hpd. destruct (spd_try_cholesky a n Hn Hsym Hpd) as [l Hl].
  exists l. apply cholesky_checked_spec. exact Hl.
Qed.

(** ** converse: a matrix with a Cholesky factor is positive definite, so for symmetric input
    [cholesky] succeeds exactly on the positive definite matrices and rejects every other one *)
Lemma rsum_ge_term f n i :
  (forall k, (k < n)%nat -> 0 <= f k) -> (i < n)%nat -> f i <= rsum f n.
Proof.
  induction n as [|n IH]; intros Hf Hi; [lia|]. cbn [rsum].
  assert (0 <= rsum f n) by (apply rsum_nonneg; intros; apply Hf; lia).
  destruct (Nat.eq_dec i n) as [->|Hne]; [lra|].
  assert (f i <= rsum f n) by (apply IH; [intros; apply Hf; lia|lia]).
  assert (0 <= f n) by (apply Hf; lia). lra.
Qed.

Lemma last_nonzero (x : nat -> R) n :
  (exists i, (i < n)%nat /\ x i <> 0) ->
  exists i, (i < n)%nat /\ x i <> 0 /\ forall p, (i < p < n)%nat -> x p = 0.
Proof.
  induction n as [|n IH]; intros (i & Hi & Hx); [lia|].
  destruct (Req_dec (x n) 0) as [Hz|Hnz].
  - destruct (IH ltac:(exists i; split; [destruct (Nat.eq_dec i n); [subst; contradiction|lia]|auto]))
      as (i' & Hi' & Hx' & Hlast).
    exists i'. split; [lia|]. split; auto. intros p Hp. destruct (Nat.eq_dec p n) as [->|]; auto. apply Hlast. lia.
  - exists n. split; [lia|]. split; auto. intros; lia.
Qed.

Lemma gram_positive_definite (a l : list R) n :
  lower_triangular l n -> (forall i, (i < n)%nat -> 0 < getm l n i i) ->
  (forall i j, (i < n)%nat -> (j < n)%nat -> rsum (fun k => getm l n i k * getm l n j k) n = getm a n i j) ->
  positive_definite a n.
Proof.
  intros Hlow Hpos Hrec x Hx.
  rewrite (rsum_ext _ (fun p => rsum (fun q => x p * rsum (fun m => getm l n p m * getm l n q m) n * x q) n))
    by (intros p Hp; apply rsum_ext; intros q Hq; rewrite (Hrec p q Hp Hq); reflexivity).
  rewrite (quad_gram x (fun p m => getm l n p m) n n).
  destruct (last_nonzero x n Hx) as (i & Hi & Hxi & Hlast).
  set (y := fun m => rsum (fun p => getm l n p m * x p) n).
  assert (Hyi : y i = getm l n i i * x i).
  { unfold y. rewrite (rsum_single (fun p => getm l n p i * x p) i n Hi); [reflexivity|]. intros p Hp Hne.
    destruct (Nat.lt_ge_cases p i).
    - rewrite (Hlow p i) by auto. ring.
    - rewrite (Hlast p) by lia. ring. }
  apply Rlt_le_trans with (y i * y i).
  - rewrite Hyi. specialize (Hpos i Hi).
    assert (Hne : getm l n i i * x i <> 0) by (apply Rmult_integral_contrapositive_currified; lra).
    apply (Rsqr_pos_lt _ Hne).
  - apply (rsum_ge_term (fun m => y m * y m) n i); auto. intros k Hk. nra.
Qed.

Lemma cholesky_some_pd a l n :
  cholesky RO a = Some l -> (n * n)%nat = length a -> symmetric a n -> positive_definite a n.
Proof.
  intros H Hn Hsym. destruct (chol_reconstructs a l n H Hn) as (_ & Hlow & Hpos & _ & Hfull).
  apply (gram_positive_definite a l n Hlow Hpos (Hfull Hsym)).
Qed.

Lemma cholesky_rejects_not_pd a n :
  (n * n)%nat = length a -> symmetric a n -> ~ positive_definite a n -> cholesky RO a = None.
Proof.
  intros Hn Hsym Hnpd. destruct (cholesky RO a) as [l|] eqn:E; auto.
  exfalso. apply Hnpd. apply (cholesky_some_pd a l n E Hn Hsym).
Qed.

(** D1's witness [[1,2],[2,1]]: symmetric with positive diagonal, indefinite (x = (1,-1) gives -2) *)
Lemma d1_matrix_rejected : cholesky RO [1; 2; 2; 1] = None.
Proof.
  apply (cholesky_rejects_not_pd _ 2); [reflexivity| |].
  - intros [|[|i]] [|[|j]] Hi Hj; try lia; reflexivity.
  - intros Hpd. specialize (Hpd (fun p => if (p =? 0)%nat then 1 else -1)).
    assert (Hx : exists i, (i < 2)%nat /\ (if (i =? 0)%nat then 1 else -1) <> 0)
      by (exists 0%nat; split; [lia|simpl; lra]).
    specialize (Hpd Hx). unfold getm in Hpd. simpl in Hpd. lra.
Qed.
