(** * C17: softmax (shifted by its maximum) on the reals: it is the textbook softmax, and the shift makes
    every exponent non-positive with a denominator in [1, n]. *)
From Coq Require Import Reals Lra List Bool Floats.
From Compute Require Import Base.Ops Model.Transforms Spec.Transforms Proofs.C17_transforms.
Import ListNotations.
Local Open Scope R_scope.

(** ** sums *)
Lemma Rsum_nil : Rsum [] = 0. Proof. reflexivity. Qed.
Lemma Rsum_cons a l : Rsum (a :: l) = a + Rsum l. Proof. reflexivity. Qed.
Lemma fold_left_Rplus (l : list R) (a : R) : fold_left Rplus l a = a + Rsum l.
Proof.
  revert a. induction l as [|b l IH]; intros a; cbn [fold_left]; rewrite ?Rsum_nil, ?Rsum_cons.
  - lra.
  - rewrite IH. lra.
Qed.
Lemma sum_from_RO (l : list R) : sum_from RO (neg RO (zero RO)) l = Rsum l.
Proof. unfold sum_from. cbn [add neg zero RO]. rewrite fold_left_Rplus. lra. Qed.

Lemma Rsum_map_scale {A} (f : A -> R) (c : R) (l : list A) :
  Rsum (map (fun v => f v * c) l) = Rsum (map f l) * c.
Proof. induction l as [|a l IH]; cbn [map]; rewrite ?Rsum_nil, ?Rsum_cons; [lra|]. rewrite IH. lra. Qed.

Lemma Rsum_pos_ne (l : list R) : l <> [] -> (forall a, In a l -> 0 < a) -> 0 < Rsum l.
Proof.
  destruct l as [|a l]; [contradiction|]. intros _ H.
  assert (G : forall l', (forall b, In b l' -> 0 < b) -> 0 <= Rsum l').
  { induction l' as [|b l' IH]; intros Hl; rewrite ?Rsum_nil, ?Rsum_cons; [lra|]. assert (0 < b) by (apply Hl; left; reflexivity).
    assert (0 <= Rsum l') by (apply IH; intros; apply Hl; right; assumption). lra. }
  rewrite Rsum_cons.
  assert (0 < a) by (apply H; left; reflexivity).
  assert (0 <= Rsum l) by (apply G; intros; apply H; right; assumption). lra.
Qed.
Lemma Rsum_ge_member (l : list R) (a : R) : (forall b, In b l -> 0 <= b) -> In a l -> a <= Rsum l.
Proof.
  induction l as [|b l IH]; intros Hl Ha; [contradiction|].
  rewrite Rsum_cons.
  assert (Hb : 0 <= b) by (apply Hl; left; reflexivity).
  assert (Hs : 0 <= Rsum l).
  { clear -Hl. induction l as [|c l IH]; rewrite ?Rsum_nil, ?Rsum_cons; [lra|].
    assert (0 <= c) by (apply Hl; right; left; reflexivity).
    assert (0 <= Rsum l) by (apply IH; intros x [->|Hx]; apply Hl; [left|right; right]; auto). lra. }
  destruct Ha as [->|Ha]; [lra|]. assert (a <= Rsum l) by (apply IH; [intros; apply Hl; right|]; assumption). lra.
Qed.
Lemma Rsum_le_length (l : list R) : (forall b, In b l -> b <= 1) -> Rsum l <= INR (length l).
Proof.
  induction l as [|b l IH]; intros Hl.
  - cbn. lra.
  - rewrite Rsum_cons. cbn [length]. rewrite S_INR.
    assert (b <= 1) by (apply Hl; left; reflexivity).
    assert (Rsum l <= INR (length l)) by (apply IH; intros; apply Hl; right; assumption). lra.
Qed.

(** ** the running maximum *)
Lemma fmax_RO (m v : R) : fmax RO m v = Rmax m v.
Proof.
  unfold fmax. rewrite !is_nan_RO. cbn [ltb RO]. unfold Rltb, Rmax.
  destruct (Rlt_dec m v), (Rle_dec m v); try reflexivity; lra.
Qed.

Lemma fold_max_some (l : list R) (a : R) :
  exists m, fold_left (max_step RO) l (Some a) = Some m /\ a <= m /\
            (forall v, In v l -> v <= m) /\ (m = a \/ In m l).
Proof.
  revert a. induction l as [|b l IH]; intros a; cbn [fold_left].
  - exists a. repeat split; [lra|intros v []|left; reflexivity].
  - cbn [max_step]. rewrite fmax_RO. destruct (IH (Rmax a b)) as (m & E & Hle & Hall & Hin).
    exists m. split; [exact E|].
    assert (Ha := Rmax_l a b). assert (Hb := Rmax_r a b). split; [lra|]. split.
    + intros v [<-|Hv]; [lra|apply Hall, Hv].
    + destruct Hin as [->|Hin]; [|right; right; exact Hin].
      unfold Rmax. destruct (Rle_dec a b); [right; left; reflexivity|left; reflexivity].
Qed.

Lemma list_max_RO (x : list R) : x <> [] ->
  exists m, list_max RO x = Some m /\ In m x /\ forall v, In v x -> v <= m.
Proof.
  destruct x as [|a l]; [contradiction|]. intros _.
  unfold list_max. cbn [fold_left max_step]. rewrite is_nan_RO.
  destruct (fold_max_some l a) as (m & E & Hle & Hall & Hin). exists m. split; [exact E|]. split.
  - destruct Hin as [->|Hin]; [left; reflexivity|right; exact Hin].
  - intros v [<-|Hv]; [exact Hle|apply Hall, Hv].
Qed.

Lemma softmax_shift_RO (x : list R) : x <> [] ->
  In (softmax_shift RO x) x /\ forall v, In v x -> v <= softmax_shift RO x.
Proof.
  intros H. destruct (list_max_RO x H) as (m & E & Hin & Hall). unfold softmax_shift. rewrite E. split; assumption.
Qed.

(** ** the overflow-safety obligation: every argument of exp is <= 0 (and one of them is 0),
       so every exponential is in (0,1] and the denominator lies in [1, n] *)
Lemma softmax_args_nonpos (x : list R) : x <> [] ->
  Forall (fun a => a <= 0) (softmax_args RO x) /\ In 0 (softmax_args RO x).
Proof.
  intros H. destruct (softmax_shift_RO x H) as [Hin Hall]. unfold softmax_args. cbn [sub RO]. split.
  - apply Forall_forall. intros a Ha. apply in_map_iff in Ha. destruct Ha as (v & <- & Hv).
    specialize (Hall v Hv). lra.
  - apply in_map_iff. exists (softmax_shift RO x). split; [lra|exact Hin].
Qed.

Lemma softmax_exps_RO (x : list R) : softmax_exps RO x = map exp (softmax_args RO x).
Proof. reflexivity. Qed.

Lemma softmax_exps_range (x : list R) : x <> [] ->
  Forall (fun e => 0 < e <= 1) (softmax_exps RO x) /\ In 1 (softmax_exps RO x).
Proof.
  intros H. destruct (softmax_args_nonpos x H) as [Hall Hin]. rewrite softmax_exps_RO. split.
  - apply Forall_forall. intros e He. apply in_map_iff in He. destruct He as (a & <- & Ha).
    rewrite Forall_forall in Hall. specialize (Hall a Ha). split; [apply exp_pos|].
    destruct Hall as [Hlt| ->]; [left; rewrite <- exp_0; apply exp_increasing; exact Hlt|rewrite exp_0; lra].
  - apply in_map_iff. exists 0. split; [apply exp_0|exact Hin].
Qed.

Lemma softmax_denom_RO (x : list R) : softmax_denom RO x = Rsum (softmax_exps RO x).
Proof. unfold softmax_denom. apply sum_from_RO. Qed.

Lemma softmax_denom_range (x : list R) : x <> [] ->
  1 <= softmax_denom RO x <= INR (length x).
Proof.
  intros H. destruct (softmax_exps_range x H) as [Hall Hin]. rewrite Forall_forall in Hall.
  rewrite softmax_denom_RO. split.
  - apply Rsum_ge_member; [intros b Hb; specialize (Hall b Hb); lra|exact Hin].
  - replace (length x) with (length (softmax_exps RO x)) by (unfold softmax_exps, softmax_args; rewrite !map_length; reflexivity).
    apply Rsum_le_length. intros b Hb. specialize (Hall b Hb). lra.
Qed.

(** ** softmax is the textbook softmax (for any shift, in particular the maximum) *)
Lemma shifted_softmax_spec (m : R) (x : list R) :
  map (fun e => e / Rsum (map (fun v => exp (v - m)) x)) (map (fun v => exp (v - m)) x) = softmax_spec x.
Proof.
  unfold softmax_spec. rewrite map_map. destruct x as [|a l]; [reflexivity|].
  set (x := a :: l).
  assert (HS : 0 < Rsum (map exp x)).
  { apply Rsum_pos_ne; [discriminate|]. intros e He. apply in_map_iff in He. destruct He as (v & <- & _). apply exp_pos. }
  assert (E : map (fun v => exp (v - m)) x = map (fun v => exp v * exp (- m)) x).
  { apply map_ext. intros v. rewrite <- exp_plus. f_equal. }
  rewrite E, Rsum_map_scale. apply map_ext. intros v.
  unfold Rminus. rewrite exp_plus. assert (Hm := exp_pos (- m)). field. split; lra.
Qed.

Lemma softmax_RO_unfold (x : list R) :
  softmax RO x =
  let m := softmax_shift RO x in
  map (fun e => e / Rsum (map (fun v => exp (v - m)) x)) (map (fun v => exp (v - m)) x).
Proof.
  unfold softmax. rewrite softmax_denom_RO. unfold softmax_exps, softmax_args. cbn [sub div RO].
  rewrite !map_map. reflexivity.
Qed.

Lemma softmax_eq_spec (x : list R) : softmax RO x = softmax_spec x.
Proof. rewrite softmax_RO_unfold. cbv zeta. rewrite <- (shifted_softmax_spec (softmax_shift RO x) x). rewrite !map_map. reflexivity. Qed.

(** ** the properties of the statement *)
Lemma softmax_length (x : list R) : length (softmax RO x) = length x.
Proof. rewrite softmax_eq_spec. unfold softmax_spec. apply map_length. Qed.

Lemma Rsum_exp_pos (x : list R) : x <> [] -> 0 < Rsum (map exp x).
Proof.
  intros H. apply Rsum_pos_ne; [destruct x; [contradiction|discriminate]|].
  intros e He. apply in_map_iff in He. destruct He as (v & <- & _). apply exp_pos.
Qed.

Lemma softmax_positive (x : list R) : Forall (fun p => 0 < p <= 1) (softmax RO x).
Proof.
  rewrite softmax_eq_spec. unfold softmax_spec. apply Forall_forall. intros p Hp.
  apply in_map_iff in Hp. destruct Hp as (v & <- & Hv).
  assert (Hne : x <> []) by (intros ->; contradiction).
  assert (HS := Rsum_exp_pos x Hne). split; [apply Rdiv_lt_0_compat; [apply exp_pos|exact HS]|].
  assert (exp v <= Rsum (map exp x)).
  { apply Rsum_ge_member; [|apply in_map; exact Hv]. intros b Hb. apply in_map_iff in Hb. destruct Hb as (u & <- & _). left. apply exp_pos. }
  apply (Rmult_le_reg_r (Rsum (map exp x))); [exact HS|]. unfold Rdiv. rewrite Rmult_assoc, Rinv_l by lra. lra.
Qed.

Lemma softmax_nonneg (x : list R) : Forall (fun p => 0 <= p) (softmax RO x).
Proof. eapply Forall_impl; [|apply softmax_positive]. cbv beta. intros; lra. Qed.

Lemma softmax_sums_to_one (x : list R) : x <> [] -> Rsum (softmax RO x) = 1.
Proof.
  intros H. rewrite softmax_eq_spec. unfold softmax_spec, Rdiv.
  rewrite (Rsum_map_scale exp (/ Rsum (map exp x)) x). assert (HS := Rsum_exp_pos x H). field. lra.
Qed.

Lemma softmax_nth (x : list R) (i : nat) : (i < length x)%nat ->
  nth i (softmax RO x) 0 = exp (nth i x 0) / Rsum (map exp x).
Proof.
  intros Hi. rewrite softmax_eq_spec. unfold softmax_spec.
  rewrite (nth_indep _ 0 ((fun v => exp v / Rsum (map exp x)) 0)) by (rewrite map_length; exact Hi).
  apply (map_nth (fun v => exp v / Rsum (map exp x))).
Qed.

Lemma softmax_order_preserving (x : list R) (i j : nat) : (i < length x)%nat -> (j < length x)%nat ->
  (nth i x 0 <= nth j x 0 <-> nth i (softmax RO x) 0 <= nth j (softmax RO x) 0).
Proof.
  intros Hi Hj. rewrite !softmax_nth by assumption.
  assert (Hne : x <> []) by (intros ->; cbn in Hi; inversion Hi).
  assert (HS := Rsum_exp_pos x Hne).
  assert (HI : 0 < / Rsum (map exp x)) by (apply Rinv_0_lt_compat; exact HS).
  unfold Rdiv. split.
  - intros H. apply Rmult_le_compat_r; [lra|].
    destruct H as [H| ->]; [left; apply exp_increasing; exact H|right; reflexivity].
  - intros H. apply Rmult_le_reg_r in H; [|exact HI].
    destruct (Rle_dec (nth i x 0) (nth j x 0)) as [|Hn]; [assumption|]. exfalso.
    assert (exp (nth j x 0) < exp (nth i x 0)) by (apply exp_increasing; lra). lra.
Qed.

Lemma softmax_shift_invariant (x : list R) (c : R) : softmax RO (map (fun v => v + c) x) = softmax RO x.
Proof.
  rewrite !softmax_eq_spec. rewrite <- (shifted_softmax_spec (- c) x).
  unfold softmax_spec. rewrite !map_map.
  assert (E : forall v, exp (v - - c) = exp (v + c)) by (intros v; f_equal; lra).
  rewrite (map_ext _ _ E). apply map_ext. intros v. rewrite E. reflexivity.
Qed.

(** the empty vector is mapped to the empty vector (binary64, any table) *)
Lemma softmax_empty t : softmax (FO t) [] = [].
Proof. reflexivity. Qed.

(** an instance the unrepaired code could not handle ([exp 1000] overflows in binary64; it returned [NaN; NaN]) *)
Example softmax_ex : softmax RO [1000; 1000] = [1 / 2; 1 / 2] /\ 1 <= softmax_denom RO [1000; 1000] <= 2.
Proof.
  split.
  - rewrite softmax_eq_spec. unfold softmax_spec. cbn [map]. rewrite !Rsum_cons, Rsum_nil.
    assert (H := exp_pos 1000).
    assert (E : exp 1000 / (exp 1000 + (exp 1000 + 0)) = 1 / 2) by (field; lra). rewrite E. reflexivity.
  - assert (H := softmax_denom_range [1000; 1000]). cbn [length INR] in H. apply H. discriminate.
Qed.
