(** C09 (extension): consequences of the functional equation (C09_recur.v).
    Shift theorem: for EVERY real x >= 1/2 and every n with x + n <= 171.6,
        gamma x * x (x+1) ... (x+n-1)  <=  gamma (x+n) * (1 + 2e-16)^n     and
        gamma (x+n) * (1 - 2e-16)^n    <=  gamma x * x (x+1) ... (x+n-1).
    Half-integers: with ONE [interval] evaluation at 1/2 (gamma(1/2) = sqrt(pi) to 1e-15) this gives
        gamma(n + 1/2)  = (2n)! sqrt(pi) / (4^n n!)               to relative 1e-13 for every n = 0 .. 170, and
        gamma(-n - 1/2) = (-4)^(n+1) (n+1)! sqrt(pi) / (2n+2)!    (reflection branch) likewise. *)
From Compute Require Import Proofs.C09_base Proofs.C09 Proofs.C09_recur_base Proofs.C09_recur Proofs.C09_half_base.
Open Scope R_scope.

(** rising product x (x+1) ... (x+n-1) *)
Fixpoint rprod (x : R) (n : nat) : R :=
  match n with 0%nat => 1 | S k => rprod x k * (x + INR k) end.

Lemma gamma_pos_positive z : 1/2 <= z <= 1716/10 -> 0 < gamma_pos RO z.
Proof. intros Hz. destruct (lanczos_factors_in_range z Hz) as (_ & _ & H & _). exact H. Qed.

Lemma rprod_pos x n : 0 < x -> 0 < rprod x n.
Proof.
  intros Hx. induction n as [|n IH]; cbn [rprod]; [lra|].
  apply Rmult_lt_0_compat; [exact IH|]. pose proof (pos_INR n). lra.
Qed.

(** one step, two-sided *)
Lemma gamma_pos_step z : 1/2 <= z <= 1706/10 ->
  z * gamma_pos RO z <= gamma_pos RO (z + 1) * (1 + 2e-16) /\
  gamma_pos RO (z + 1) * (1 - 2e-16) <= z * gamma_pos RO z.
Proof.
  intros Hz. pose proof (rec_from_ratio z (rec_ratio_all z Hz)) as H.
  pose proof (gamma_pos_positive (z + 1) ltac:(lra)) as Hp.
  rewrite (Rabs_pos_eq (gamma_pos RO (z + 1))) in H by lra.
  pose proof (Rle_abs (gamma_pos RO (z + 1) - z * gamma_pos RO z)) as H1.
  pose proof (Rle_abs (- (gamma_pos RO (z + 1) - z * gamma_pos RO z))) as H2. rewrite Rabs_Ropp in H2.
  split; lra.
Qed.

Theorem gamma_pos_shift x : 1/2 <= x -> forall n : nat, x + INR n <= 1716/10 ->
  gamma_pos RO x * rprod x n <= gamma_pos RO (x + INR n) * (1 + 2e-16) ^ n /\
  gamma_pos RO (x + INR n) * (1 - 2e-16) ^ n <= gamma_pos RO x * rprod x n.
Proof.
  intros Hx. induction n as [|n IH]; intros Hn.
  - cbn [INR rprod pow]. rewrite Rplus_0_r. lra.
  - rewrite S_INR in Hn. assert (Hk : 0 <= INR n) by apply pos_INR.
    destruct (IH ltac:(lra)) as [IH1 IH2].
    destruct (gamma_pos_step (x + INR n) ltac:(lra)) as [S1 S2].
    rewrite S_INR. replace (x + (INR n + 1)) with (x + INR n + 1) by ring.
    set (z := x + INR n) in *. set (g0 := gamma_pos RO x) in *. set (gz := gamma_pos RO z) in *.
    set (gz1 := gamma_pos RO (z + 1)) in *.
    assert (Hz : 0 < z) by (unfold z; lra).
    assert (Hgz : 0 < gz) by (apply gamma_pos_positive; unfold z; lra).
    assert (Hgz1 : 0 < gz1) by (apply gamma_pos_positive; unfold z; lra).
    assert (Hp1 : 0 < (1 + 2e-16) ^ n) by (apply pow_lt; lra).
    assert (Hp2 : 0 < (1 - 2e-16) ^ n) by (apply pow_lt; lra).
    cbn [rprod pow]. fold z. split.
    + (* g0 R z <= gz (1+e)^n z = (z gz) (1+e)^n <= gz1 (1+e) (1+e)^n *)
      apply Rle_trans with (gz * (1 + 2e-16) ^ n * z); [rewrite <- Rmult_assoc; apply Rmult_le_compat_r; lra|].
      replace (gz * (1 + 2e-16) ^ n * z) with (z * gz * (1 + 2e-16) ^ n) by ring.
      replace (gz1 * ((1 + 2e-16) * (1 + 2e-16) ^ n)) with (gz1 * (1 + 2e-16) * (1 + 2e-16) ^ n) by ring.
      apply Rmult_le_compat_r; lra.
    + apply Rle_trans with (gz * (1 - 2e-16) ^ n * z); [|rewrite <- Rmult_assoc; apply Rmult_le_compat_r; lra].
      replace (gz * (1 - 2e-16) ^ n * z) with (z * gz * (1 - 2e-16) ^ n) by ring.
      replace (gz1 * ((1 - 2e-16) * (1 - 2e-16) ^ n)) with (gz1 * (1 - 2e-16) * (1 - 2e-16) ^ n) by ring.
      apply Rmult_le_compat_r; lra.
Qed.

Theorem gamma_shift x (n : nat) : 1/2 <= x -> x + INR n <= 1716/10 ->
  gamma RO x * rprod x n <= gamma RO (x + INR n) * (1 + 2e-16) ^ n /\
  gamma RO (x + INR n) * (1 - 2e-16) ^ n <= gamma RO x * rprod x n.
Proof.
  intros Hx Hn. pose proof (pos_INR n). rewrite !gamma_RO_ge_half by lra. apply gamma_pos_shift; assumption.
Qed.

(** ** half-integers *)
Lemma gamma_pos_half : Rabs (gamma_pos RO (1/2) - R_sqrt.sqrt PI) <= 1e-15 * R_sqrt.sqrt PI.
Proof. unfold_special. unfold Rpower. interval with (i_prec 120). Qed.

Lemma rprod_half n : rprod (1/2) n = IZR (dfo n) / IZR (2 ^ Z.of_nat n).
Proof.
  induction n as [|n IH]; [cbn; field|].
  cbn [rprod]. rewrite IH. change (dfo (S n)) with ((2 * Z.of_nat (S n) - 1) * dfo n)%Z.
  rewrite (Nat2Z.inj_succ n), Z.pow_succ_r by lia. rewrite !mult_IZR, minus_IZR, mult_IZR, succ_IZR, INR_IZR_INZ.
  assert (H2 : IZR (2 ^ Z.of_nat n) <> 0) by (apply not_0_IZR; pose proof (Z.pow_pos_nonneg 2 (Z.of_nat n)); lia).
  field. exact H2.
Qed.

Lemma half_val_rprod n : half_val n = R_sqrt.sqrt PI * rprod (1/2) n.
Proof. rewrite half_val_compact, rprod_half. unfold Rdiv. ring. Qed.

Lemma sqrtPI_pos : 0 < R_sqrt.sqrt PI.
Proof. apply sqrt_lt_R0. apply PI_RGT_0. Qed.

Lemma half_val_pos n : 0 < half_val n.
Proof. rewrite half_val_rprod. apply Rmult_lt_0_compat; [apply sqrtPI_pos|apply rprod_pos; lra]. Qed.

(** two-sided bound of the Lanczos value at n + 1/2 against the closed form, n <= 171 *)
Lemma gamma_pos_half_bounds (n : nat) : (n <= 171)%nat ->
  half_val n * (1 - 5e-14) <= gamma_pos RO (1/2 + INR n) <= half_val n * (1 + 5e-14).
Proof.
  intros Hn.
  assert (Hn' : INR n <= 171) by (replace 171 with (INR 171) by (rewrite INR_IZR_INZ; reflexivity); apply le_INR; exact Hn).
  pose proof (pos_INR n) as Hn0.
  destruct (gamma_pos_shift (1/2) ltac:(lra) n ltac:(lra)) as [H1 H2].
  pose proof gamma_pos_half as Hb. pose proof sqrtPI_pos as Hs.
  pose proof (Rle_abs (gamma_pos RO (1/2) - R_sqrt.sqrt PI)) as Hb1.
  pose proof (Rle_abs (- (gamma_pos RO (1/2) - R_sqrt.sqrt PI))) as Hb2. rewrite Rabs_Ropp in Hb2.
  rewrite half_val_rprod.
  set (g := gamma_pos RO (1/2 + INR n)) in *. set (g0 := gamma_pos RO (1/2)) in *. set (R := rprod (1/2) n) in *.
  assert (HR : 0 < R) by (apply rprod_pos; lra).
  assert (Hg : 0 < g) by (apply gamma_pos_positive; lra).
  (* monotone powers *)
  assert (Hup : (1 + 2e-16) ^ n <= (1 + 2e-16) ^ 171) by (apply Rle_pow; [lra|exact Hn]).
  set (b := / (1 - 2e-16)).
  assert (Hb0 : 1 <= b) by (unfold b; interval).
  assert (Hbn : b ^ n <= b ^ 171) by (apply Rle_pow; assumption).
  assert (Hinv : (1 - 2e-16) ^ n * b ^ n = 1).
  { rewrite <- Rpow_mult_distr. unfold b. rewrite Rinv_r by lra. apply pow1. }
  assert (Hpn : 0 < (1 - 2e-16) ^ n) by (apply pow_lt; lra).
  assert (Hbp : 0 < b ^ n) by (apply pow_lt; lra).
  assert (Hc1 : (1 + 1e-15) * b ^ 171 <= 1 + 5e-14) by (unfold b; interval with (i_prec 80)).
  assert (Hc2 : (1 - 5e-14) * (1 + 2e-16) ^ 171 <= 1 - 1e-15) by (interval with (i_prec 80)).
  assert (Hp171 : 0 < (1 + 2e-16) ^ 171) by (apply pow_lt; lra).
  assert (Hb171 : 0 < b ^ 171) by (apply pow_lt; lra).
  assert (Hp1n : 0 < (1 + 2e-16) ^ n) by (apply pow_lt; lra).
  set (P171 := (1 + 2e-16) ^ 171) in *. set (B171 := b ^ 171) in *.
  set (Pn := (1 + 2e-16) ^ n) in *. set (Qn := (1 - 2e-16) ^ n) in *. set (Bn := b ^ n) in *.
  set (S := R_sqrt.sqrt PI) in *.
  clearbody P171 B171 Pn Qn Bn g g0 R S b.
  assert (HSR : 0 < S * R) by (apply Rmult_lt_0_compat; assumption).
  split.
  - (* lower: S(1-1e-15) R <= g0 R <= g Pn <= g P171 *)
    assert (L0 : S * (1 - 1e-15) * R <= g0 * R) by (apply Rmult_le_compat_r; lra).
    assert (L1 : g * Pn <= g * P171) by (apply Rmult_le_compat_l; lra).
    assert (L2 : S * R * ((1 - 5e-14) * P171) <= S * R * (1 - 1e-15)) by (apply Rmult_le_compat_l; lra).
    apply Rmult_le_reg_r with P171; [exact Hp171|]. lra.
  - (* upper: g = g Qn Bn <= g0 R Bn <= S (1+1e-15) R B171 *)
    assert (U1 : g * Qn * Bn <= g0 * R * Bn) by (apply Rmult_le_compat_r; lra).
    assert (U1' : g * Qn * Bn = g) by (rewrite Rmult_assoc, Hinv; ring).
    assert (Hg0R : 0 < g0 * R) by (apply Rmult_lt_0_compat; lra).
    assert (U2 : g0 * R * Bn <= g0 * R * B171) by (apply Rmult_le_compat_l; lra).
    assert (U2' : g0 * R * B171 <= S * (1 + 1e-15) * R * B171).
    { apply Rmult_le_compat_r; [lra|]. apply Rmult_le_compat_r; lra. }
    assert (U3 : S * R * ((1 + 1e-15) * B171) <= S * R * (1 + 5e-14)) by (apply Rmult_le_compat_l; lra).
    lra.
Qed.

Lemma half_ok_all (n : nat) : (n <= 170)%nat -> half_ok n.
Proof.
  intros Hn. unfold half_ok.
  pose proof (gamma_pos_half_bounds n ltac:(lia)) as [H1 H2]. pose proof (half_val_pos n) as Hp.
  rewrite gamma_RO_ge_half by (pose proof (pos_INR n); rewrite <- INR_IZR_INZ; lra).
  rewrite <- INR_IZR_INZ, (Rplus_comm (INR n)).
  rewrite (Rabs_pos_eq (half_val n)) by lra. apply Rabs_le. lra.
Qed.

(** sin (pi (-n - 1/2)) = (-1)^(n+1) *)
Lemma sin_neg_half (n : nat) : sin (PI * (- INR n - 1/2)) = (-1) ^ S n.
Proof.
  induction n as [|n IH].
  - cbn [INR pow]. replace (PI * (- 0 - 1 / 2)) with (- (PI / 2)) by field. rewrite sin_neg, sin_PI2. ring.
  - rewrite S_INR. replace (PI * (- (INR n + 1) - 1 / 2)) with (- (- (PI * (- INR n - 1 / 2)) + PI)) by ring.
    rewrite sin_neg, neg_sin, sin_neg, IH. cbn [pow]. ring.
Qed.

Lemma nhalf_val_half n : nhalf_val n = PI / ((-1) ^ S n * half_val (S n)).
Proof.
  rewrite nhalf_val_compact, half_val_compact.
  assert (H2 : IZR (2 ^ Z.of_nat (S n)) <> 0) by (apply not_0_IZR; pose proof (Z.pow_pos_nonneg 2 (Z.of_nat (S n))); lia).
  assert (Hd : IZR (dfo (S n)) <> 0) by (apply not_0_IZR; pose proof (dfo_pos (S n)); lia).
  assert (Hs : R_sqrt.sqrt PI <> 0) by (pose proof sqrtPI_pos; lra).
  assert (Hm : (-1) ^ S n <> 0) by (apply pow_nonzero; lra).
  assert (Hpow : IZR ((-2) ^ Z.of_nat (S n)) = (-1) ^ S n * IZR (2 ^ Z.of_nat (S n))).
  { rewrite <- !pow_IZR. rewrite <- Rpow_mult_distr. f_equal. ring. }
  rewrite Hpow.
  assert (Hsq : PI = R_sqrt.sqrt PI * R_sqrt.sqrt PI) by (symmetry; apply sqrt_sqrt; pose proof PI_RGT_0; lra).
  rewrite Hsq at 2. 
  assert (Hmm : (-1) ^ S n * (-1) ^ S n = 1) by (rewrite <- Rpow_mult_distr; replace (-1 * -1) with 1 by ring; apply pow1).
  apply Rmult_eq_reg_r with ((-1) ^ S n); [|exact Hm].
  transitivity (IZR (2 ^ Z.of_nat (S n)) * R_sqrt.sqrt PI / IZR (dfo (S n)) * ((-1) ^ S n * (-1) ^ S n)); [field; exact Hd|].
  rewrite Hmm. field. repeat split; assumption.
Qed.

Lemma nhalf_ok_all (n : nat) : (n <= 170)%nat -> nhalf_ok n.
Proof.
  intros Hn. unfold nhalf_ok. pose proof (pos_INR n) as Hk.
  rewrite gamma_RO_lt_half by (rewrite <- INR_IZR_INZ; lra).
  rewrite <- INR_IZR_INZ, sin_neg_half, nhalf_val_half.
  replace (1 - (- INR n - 1 / 2)) with (1/2 + INR (S n)) by (rewrite S_INR; field).
  pose proof (gamma_pos_half_bounds (S n) ltac:(lia)) as [H1 H2]. pose proof (half_val_pos (S n)) as Hp.
  set (g := gamma_pos RO (1/2 + INR (S n))) in *. set (T := half_val (S n)) in *. set (s := (-1) ^ S n).
  assert (Hg : 0 < g) by nra.
  assert (Hs : Rabs s = 1).
  { unfold s. rewrite <- RPow_abs. replace (Rabs (-1)) with 1; [apply pow1|]. rewrite Rabs_left by lra. ring. }
  assert (Hs0 : s <> 0) by (unfold s; apply pow_nonzero; lra).
  replace (PI / (s * g) - PI / (s * T)) with (PI / (s * T) * ((T - g) / g)) by (field; repeat split; lra).
  rewrite Rabs_mult. apply Rmult_le_compat_l; [apply Rabs_pos|].
  unfold Rdiv. rewrite Rabs_mult, Rabs_inv, (Rabs_pos_eq g) by lra.
  apply Rmult_le_reg_r with g; [exact Hg|]. rewrite Rmult_assoc, Rinv_l, Rmult_1_r by lra.
  apply Rabs_le. lra.
Qed.

Lemma gamma_at_half_integers' :
  Forall (fun n : nat =>
            Rabs (gamma RO (IZR (Z.of_nat n) + 1/2)
                  - IZR (zfact (2 * n)) * R_sqrt.sqrt PI / IZR (4 ^ Z.of_nat n * zfact n))
            <= Rabs (IZR (zfact (2 * n)) * R_sqrt.sqrt PI / IZR (4 ^ Z.of_nat n * zfact n)) * 1e-13)
         (seq 0 171) /\
  Forall (fun n : nat =>
            Rabs (gamma RO (- IZR (Z.of_nat n) - 1/2)
                  - IZR ((-4) ^ Z.of_nat (S n) * zfact (S n)) * R_sqrt.sqrt PI / IZR (zfact (2 * S n)))
            <= Rabs (IZR ((-4) ^ Z.of_nat (S n) * zfact (S n)) * R_sqrt.sqrt PI / IZR (zfact (2 * S n))) * 1e-13)
         (seq 0 171).
Proof.
  split; apply Forall_forall; intros n Hin; apply in_seq in Hin.
  - apply (half_ok_all n). lia.
  - apply (nhalf_ok_all n). lia.
Qed.
