(** Proofs for C13, part 2: autocovariance, autocorrelation, differencing (carrier [RO], and
    evenness on every carrier).  Statements are pinned in Properties/C13.v. *)
From Coq Require Import Reals List Arith ZArith Bool Lia Lra.
From Compute Require Import Base.Ops Base.ListMat Model.Reduce Model.TimeSeries Spec.TimeSeries Proofs.C13_base.
Import ListNotations.
Local Open Scope R_scope.

(** centred series *)
Definition cen (m : R) (x : list R) : list R := map (fun v => v - m) x.
(** lag-h sum of products and sum of squares of a (centred) sequence *)
Definition lagN (a : list R) (h : nat) : R := Rsum (map2 Rmult (skipn h a) a).
Definition sqD (a : list R) : R := Rsum (map (fun v => v * v) a).

Lemma cen_length m x : length (cen m x) = length x.
Proof. apply map_length. Qed.

Lemma skipn_map {A B} (f : A -> B) n l : skipn n (map f l) = map f (skipn n l).
Proof. revert l; induction n as [|n IH]; intros [|a l]; simpl; auto. Qed.

Lemma lagsum_RO x m k : lagsum RO x m k = lagN (cen m x) (Z.abs_nat k).
Proof.
  unfold lagsum, lagN, cen, lagprods.
  assert (Hk : Z.abs k = Z.of_nat (Z.abs_nat k)) by (symmetry; apply Zabs2Nat.id_abs).
  destruct (Z.leb_spec (Z.of_nat (length x)) (Z.abs k)) as [Hle|Hlt].
  - rewrite isum_RO. rewrite skipn_all2 by (rewrite map_length; lia). reflexivity.
  - rewrite isum_RO. rewrite skipn_map, map2_map_l, map2_map_r. reflexivity.
Qed.

Lemma map2_diag {A C} (f : A -> A -> C) l : map2 f l l = map (fun a => f a a) l.
Proof. induction l as [|a l IH]; simpl; congruence. Qed.

(** the shape of the two routines on the reals *)
Lemma acovf_RO_form x k :
  acovf RO x k = 1 / INR (length x) * lagN (cen (smean x) x) (Z.abs_nat k).
Proof. unfold acovf. rewrite lagsum_RO, ts_mean_RO, ofN_RO. reflexivity. Qed.

Lemma acf_RO_form x k :
  acf RO x k = (1 / INR (length x) * lagN (cen (smean x) x) (Z.abs_nat k))
               / (sqD (cen (smean x) x) / INR (length x)).
Proof.
  unfold acf. rewrite lagsum_RO, ts_mean_RO, ofN_RO, isum_RO.
  cbn [div mul one RO]. unfold sqD, cen. rewrite map_map.
  f_equal. f_equal. apply Rsum_map_ext. intros a _. rewrite powi2_RO. reflexivity.
Qed.

(** the definitions, in the same terms *)
Lemma acov_form x k : acov x k = / INR (length x) * lagN (cen (smean x) x) (Z.abs_nat k).
Proof.
  unfold acov, lagN, cen. f_equal.
  rewrite skipn_map, map2_map_l, map2_map_r.
  rewrite (lag_map2_as_seq (fun u v => (u - smean x) * (v - smean x)) x (Z.abs_nat k) 0).
  reflexivity.
Qed.

Lemma lagN_0 a : lagN a 0 = sqD a.
Proof. unfold lagN, sqD. cbn [skipn]. rewrite map2_diag. reflexivity. Qed.

Lemma acov0_form x : acov x 0 = sqD (cen (smean x) x) / INR (length x).
Proof. rewrite acov_form. cbn [Z.abs_nat]. rewrite lagN_0. unfold Rdiv. apply Rmult_comm. Qed.

(** *** acovf and acf are the biased estimators *)
Lemma acovf_def x k : acovf RO x k = acov x k.
Proof. rewrite acovf_RO_form, acov_form. unfold Rdiv. rewrite Rmult_1_l. reflexivity. Qed.

Lemma acf_def x k : acf RO x k = acorr x k.
Proof.
  unfold acorr. rewrite acf_RO_form, acov_form, acov0_form.
  unfold Rdiv at 2. rewrite Rmult_1_l. reflexivity.
Qed.

(** *** even in the lag, on every carrier (hence bit for bit on binary64) *)
Lemma lagsum_even {T} (O : Ops T) x m k : lagsum O x m (- k) = lagsum O x m k.
Proof. unfold lagsum. rewrite !Zabs2Nat.abs_nat_spec, Z.abs_opp. reflexivity. Qed.

Lemma acovf_even {T} (O : Ops T) x k : acovf O x (- k) = acovf O x k.
Proof. unfold acovf. rewrite lagsum_even. reflexivity. Qed.

Lemma acf_even {T} (O : Ops T) x k : acf O x (- k) = acf O x k.
Proof. unfold acf. rewrite lagsum_even. reflexivity. Qed.

(** *** lag 0 *)
Lemma acf_zero_lag x : acov x 0 <> 0 -> acf RO x 0 = 1.
Proof. intros H. rewrite acf_def. unfold acorr. field. exact H. Qed.

(** *** lags at or beyond the length: the empty sum *)
Lemma lagN_beyond a h : (length a <= h)%nat -> lagN a h = 0.
Proof. intros H. unfold lagN. rewrite skipn_all2 by lia. reflexivity. Qed.

Lemma lag_beyond_length_zero x k :
  (Z.of_nat (length x) <= Z.abs k)%Z -> acovf RO x k = 0 /\ acf RO x k = 0.
Proof.
  intros H. rewrite acovf_RO_form, acf_RO_form.
  rewrite lagN_beyond by (rewrite cen_length; lia).
  split; unfold Rdiv; ring.
Qed.

(** *** |acf| <= 1, for every series and every lag (no side condition: on the reals a zero
    variance gives acf = 0 because x / 0 = 0) *)
Lemma Rinv_0' : / 0 = 0.
Proof. exact Rinv_0. Qed.

Lemma acf_bounded x k : Rabs (acf RO x k) <= 1.
Proof.
  rewrite acf_RO_form.
  set (a := cen (smean x) x). set (h := Z.abs_nat k).
  pose proof (lag_dot_le_sq a h) as Hle. fold (lagN a h) in Hle. fold (sqD a) in Hle.
  pose proof (Rabs_pos (lagN a h)) as Hpos.
  destruct (Nat.eq_dec (length x) 0) as [Hn|Hn].
  - (* empty series *)
    rewrite (lagN_beyond a h) by (subst a; rewrite cen_length; lia).
    unfold Rdiv. rewrite Rmult_0_r, Rmult_0_l, Rabs_R0. lra.
  - assert (Hnn : 0 < INR (length x)) by (apply lt_0_INR; lia).
    destruct (Req_dec (sqD a) 0) as [HD|HD].
    + (* zero variance: the numerator vanishes too *)
      assert (HN : lagN a h = 0).
      { rewrite HD in Hle. apply Rabs_eq_0 || (destruct (Req_dec (lagN a h) 0) as [E|E]; [exact E|]; apply Rabs_pos_lt in E; lra). }
      rewrite HN. unfold Rdiv. rewrite Rmult_0_r, Rmult_0_l, Rabs_R0. lra.
    + assert (HDpos : 0 < sqD a).
      { assert (0 <= sqD a) by lra. lra. }
      replace (1 / INR (length x) * lagN a h / (sqD a / INR (length x))) with (lagN a h / sqD a)
        by (field; split; lra).
      unfold Rdiv. rewrite Rabs_mult, (Rabs_right (/ sqD a)).
      * apply (Rmult_le_reg_r (sqD a)); [exact HDpos|].
        rewrite Rmult_assoc, Rinv_l by lra. lra.
      * apply Rle_ge. left. apply Rinv_0_lt_compat. exact HDpos.
Qed.

(** the same bound on the covariance scale: |acov x k| <= acov x 0 *)
Lemma acovf_bounded x k : Rabs (acovf RO x k) <= acovf RO x 0.
Proof.
  rewrite !acovf_RO_form. cbn [Z.abs_nat]. rewrite lagN_0.
  set (a := cen (smean x) x).
  pose proof (lag_dot_le_sq a (Z.abs_nat k)) as Hle. fold (lagN a (Z.abs_nat k)) in Hle. fold (sqD a) in Hle.
  assert (Hc : 0 <= 1 / INR (length x)).
  { destruct (Nat.eq_dec (length x) 0) as [Hn|Hn].
    - rewrite Hn. cbn [INR]. unfold Rdiv. rewrite Rinv_0. lra.
    - unfold Rdiv. rewrite Rmult_1_l. left. apply Rinv_0_lt_compat. apply lt_0_INR. lia. }
  rewrite Rabs_mult, (Rabs_right (1 / INR (length x))) by lra.
  apply Rmult_le_compat_l; assumption.
Qed.

(** *** adding a constant to the series changes neither acovf nor acf *)
Lemma Rsum_map_shift c x : Rsum (map (fun v => v + c) x) = Rsum x + INR (length x) * c.
Proof.
  induction x as [|a x IH]; [cbn; lra|].
  cbn [map Rsum fold_right length]. fold (Rsum (map (fun v => v + c) x)). fold (Rsum x).
  rewrite IH, S_INR. lra.
Qed.

Lemma smean_shift c x : x <> [] -> smean (map (fun v => v + c) x) = smean x + c.
Proof.
  intros Hx. unfold smean. rewrite Rsum_map_shift, map_length.
  assert (INR (length x) <> 0).
  { apply not_0_INR. destruct x; [congruence | simpl; lia]. }
  field. assumption.
Qed.

Lemma cen_shift c x : cen (smean (map (fun v => v + c) x)) (map (fun v => v + c) x) = cen (smean x) x.
Proof.
  destruct x as [|a x]; [reflexivity|].
  rewrite smean_shift by discriminate. unfold cen. rewrite map_map.
  apply map_ext. intros v. lra.
Qed.

Lemma acovf_shift_invariant c x k : acovf RO (map (fun v => v + c) x) k = acovf RO x k.
Proof. rewrite !acovf_RO_form, cen_shift, map_length. reflexivity. Qed.

Lemma acf_shift_invariant c x k : acf RO (map (fun v => v + c) x) k = acf RO x k.
Proof. rewrite !acf_RO_form, cen_shift, map_length. reflexivity. Qed.

(** *** differencing and cumulative summation *)
Lemma diff_cumsum_aux x : forall x0, map2 Rminus (tl (cumsum x0 x)) (cumsum x0 x) = x.
Proof.
  induction x as [|a x IH]; intros x0; [reflexivity|].
  cbn [cumsum tl]. specialize (IH (x0 + a)).
  destruct x as [|b x]; cbn [cumsum tl map2] in *.
  - f_equal. lra.
  - f_equal; [lra|]. exact IH.
Qed.

Lemma difference_cumsum x0 x : difference RO (cumsum x0 x) = Some x.
Proof.
  pose proof (diff_cumsum_aux x x0) as H.
  destruct x as [|a x]; cbn [cumsum difference] in *; [reflexivity|].
  cbn [tl] in H. change (sub RO) with Rminus. rewrite H. reflexivity.
Qed.

Lemma cumsum_difference_aux v : forall a, cumsum a (map2 Rminus v (a :: v)) = a :: v.
Proof.
  induction v as [|b v IH]; intros a; [reflexivity|].
  cbn [map2 cumsum]. replace (a + (b - a)) with b by lra.
  specialize (IH b). destruct v as [|c v]; cbn [map2 cumsum] in *; [reflexivity|].
  f_equal. exact IH.
Qed.

Lemma cumsum_difference v d : difference RO v = Some d -> cumsum (hd 0 v) d = v.
Proof.
  destruct v as [|a v]; cbn [difference]; [discriminate|].
  intros H. injection H as <-. cbn [hd]. change (sub RO) with Rminus. apply cumsum_difference_aux.
Qed.

Lemma difference_empty {T} (O : Ops T) : difference O [] = None.
Proof. reflexivity. Qed.

Lemma difference_length {T} (O : Ops T) v d : difference O v = Some d -> S (length d) = length v.
Proof.
  destruct v as [|a v]; cbn [difference]; [discriminate|].
  intros H. injection H as <-. rewrite map2_len. cbn [length]. lia.
Qed.
