(** C20: every Gram matrix of the RBF kernel is positive semi-definite (feature-map argument). *)
From Coq Require Import Reals List Lra Lia.
From Compute Require Import Base.Ops Model.Kernels Proofs.C20.
Import ListNotations.
Open Scope R_scope.

(** the quadratic form  Σ_i Σ_j c_i c_j k(x_i, x_j)  over a list of (point, coefficient) pairs *)
Definition qform (k : R -> R -> R) (pts : list (R * R)) : R :=
  fold_right Rplus 0
    (map (fun p => fold_right Rplus 0 (map (fun q => snd p * snd q * k (fst p) (fst q)) pts)) pts).

(** ** finite sums over lists *)
Definition lsum {A : Type} (f : A -> R) (l : list A) : R := fold_right Rplus 0 (map f l).

Lemma lsum_nil {A : Type} (f : A -> R) : lsum f [] = 0.
Proof. reflexivity. Qed.
Lemma lsum_cons {A : Type} (f : A -> R) a l : lsum f (a :: l) = f a + lsum f l.
Proof. reflexivity. Qed.

Lemma lsum_ext {A : Type} (f g : A -> R) l : (forall a, f a = g a) -> lsum f l = lsum g l.
Proof.
  intros Hfg. induction l as [|a l IH]; [reflexivity|].
  rewrite !lsum_cons, IH, Hfg. reflexivity.
Qed.
Lemma lsum_plus {A : Type} (f g : A -> R) l : lsum (fun a => f a + g a) l = lsum f l + lsum g l.
Proof.
  induction l as [|a l IH]; [rewrite !lsum_nil; ring|].
  rewrite !lsum_cons, IH. ring.
Qed.
Lemma lsum_scal_l {A : Type} c (f : A -> R) l : lsum (fun a => c * f a) l = c * lsum f l.
Proof.
  induction l as [|a l IH]; [rewrite !lsum_nil; ring|].
  rewrite !lsum_cons, IH. ring.
Qed.

Lemma qform_lsum k pts :
  qform k pts = lsum (fun p => lsum (fun q => snd p * snd q * k (fst p) (fst q)) pts) pts.
Proof. reflexivity. Qed.

(** ** convergence of finite sums of sequences *)
Lemma cv_const c : Un_cv (fun _ : nat => c) c.
Proof.
  intros eps Heps. exists 0%nat. intros n _. unfold R_dist.
  replace (c - c) with 0 by ring. rewrite Rabs_R0. exact Heps.
Qed.
Lemma cv_scal c u l : Un_cv u l -> Un_cv (fun N => c * u N) (c * l).
Proof. intros Hu. apply (CV_mult (fun _ => c) u c l); [apply cv_const|exact Hu]. Qed.

Lemma lsum_cv {A : Type} (f : nat -> A -> R) (g : A -> R) l :
  (forall a, Un_cv (fun N => f N a) (g a)) -> Un_cv (fun N => lsum (f N) l) (lsum g l).
Proof.
  intros Hf. induction l as [|a l IH].
  - exact (cv_const 0).
  - apply (CV_plus (fun N => f N a) (fun N => lsum (f N) l)); [apply Hf|exact IH].
Qed.

Lemma qform_cv (K : nat -> R -> R -> R) k pts :
  (forall x y, Un_cv (fun N => K N x y) (k x y)) ->
  Un_cv (fun N => qform (K N) pts) (qform k pts).
Proof.
  intros HK. rewrite qform_lsum.
  apply (lsum_cv (fun N p => lsum (fun q => snd p * snd q * K N (fst p) (fst q)) pts)).
  intros p.
  apply (lsum_cv (fun N q => snd p * snd q * K N (fst p) (fst q))).
  intros q. apply cv_scal. apply HK.
Qed.

(** ** algebra of the quadratic form *)
Lemma qform_ext k1 k2 pts : (forall x y, k1 x y = k2 x y) -> qform k1 pts = qform k2 pts.
Proof.
  intros H. rewrite !qform_lsum. apply lsum_ext. intros p. apply lsum_ext. intros q.
  rewrite H. reflexivity.
Qed.
Lemma qform_plus k1 k2 pts :
  qform (fun x y => k1 x y + k2 x y) pts = qform k1 pts + qform k2 pts.
Proof.
  rewrite !qform_lsum. rewrite <- lsum_plus. apply lsum_ext. intros p.
  rewrite <- lsum_plus. apply lsum_ext. intros q. ring.
Qed.
(** a rank-one kernel gives a weighted square *)
Lemma qform_rank1 w (f : R -> R) pts :
  qform (fun x y => w * f x * f y) pts =
  w * (lsum (fun p => snd p * f (fst p)) pts * lsum (fun p => snd p * f (fst p)) pts).
Proof.
  rewrite qform_lsum.
  set (L := lsum (fun p => snd p * f (fst p)) pts).
  rewrite (lsum_ext _ (fun p => (w * L) * (snd p * f (fst p)))).
  - rewrite lsum_scal_l. fold L. ring.
  - intros p.
    rewrite (lsum_ext _ (fun q => (w * snd p * f (fst p)) * (snd q * f (fst q)))).
    + rewrite lsum_scal_l. fold L. ring.
    + intros q. ring.
Qed.

Lemma qform_partial (w : nat -> R) (phi : nat -> R -> R) pts N :
  qform (fun x y => sum_f_R0 (fun n => w n * phi n x * phi n y) N) pts =
  sum_f_R0 (fun n => w n * (lsum (fun p => snd p * phi n (fst p)) pts *
                            lsum (fun p => snd p * phi n (fst p)) pts)) N.
Proof.
  induction N as [|N IH].
  - cbn [sum_f_R0]. apply qform_rank1.
  - cbn [sum_f_R0].
    rewrite (qform_plus (fun x y => sum_f_R0 (fun n => w n * phi n x * phi n y) N)
                        (fun x y => w (S N) * phi (S N) x * phi (S N) y)).
    rewrite IH, qform_rank1. reflexivity.
Qed.

Lemma sum_nonneg (a : nat -> R) N : (forall n, 0 <= a n) -> 0 <= sum_f_R0 a N.
Proof.
  intros Ha. induction N as [|N IH]; cbn [sum_f_R0]; [apply Ha|].
  apply Rplus_le_le_0_compat; [exact IH|apply Ha].
Qed.

Lemma cv_nonneg u l : (forall n, 0 <= u n) -> Un_cv u l -> 0 <= l.
Proof.
  intros Hu Hcv. destruct (Rle_or_lt 0 l) as [Hl|Hl]; [exact Hl|exfalso].
  assert (Heps : - l / 2 > 0) by lra.
  destruct (Hcv _ Heps) as [N HN].
  specialize (HN N (le_n N)). specialize (Hu N).
  unfold R_dist in HN. rewrite Rabs_right in HN; lra.
Qed.

(** ** the general feature-map lemma: a kernel that is a limit of non-negatively weighted
    sums of rank-one kernels has positive semi-definite Gram matrices *)
Theorem feature_map_psd (k : R -> R -> R) (w : nat -> R) (phi : nat -> R -> R) pts :
  (forall n, 0 <= w n) ->
  (forall x y, Un_cv (fun N => sum_f_R0 (fun n => w n * phi n x * phi n y) N) (k x y)) ->
  0 <= qform k pts.
Proof.
  intros Hw Hk.
  apply (cv_nonneg (fun N => qform (fun x y => sum_f_R0 (fun n => w n * phi n x * phi n y) N) pts)).
  - intros N. rewrite qform_partial. apply sum_nonneg. intros n.
    apply Rmult_le_pos; [apply Hw|].
    apply (Rle_0_sqr (lsum (fun p => snd p * phi n (fst p)) pts)).
  - apply (qform_cv (fun N x y => sum_f_R0 (fun n => w n * phi n x * phi n y) N)). exact Hk.
Qed.

(** ** instantiation: the RBF kernel *)
Lemma exp_series_cv z : Un_cv (fun N => sum_f_R0 (fun n => / INR (fact n) * z ^ n) N) (exp z).
Proof.
  unfold exp. destruct (exist_exp z) as [l Hl]. cbn [proj1_sig].
  intros eps Heps. destruct (Hl eps Heps) as [N HN]. exists N. exact HN.
Qed.

(** exp(−(x−y)²/(2 ls²)) = exp(−s x²/2) · exp(−s y²/2) · exp(s·x·y)  with s = 1/ls² *)
Lemma rbf_factor ls x y : ls <> 0 ->
  exp (- ((x - y) * (x - y)) / (2 * (ls * ls))) =
  exp (- (/ (ls * ls)) * (x * x) / 2) * exp (- (/ (ls * ls)) * (y * y) / 2) * exp (/ (ls * ls) * x * y).
Proof.
  intros Hls. rewrite <- !exp_plus. f_equal. field. exact Hls.
Qed.

Lemma rbf_series_cv var ls x y : ls <> 0 ->
  Un_cv (fun N => sum_f_R0 (fun n =>
           (var * (/ (ls * ls)) ^ n * / INR (fact n)) *
           (exp (- (/ (ls * ls)) * (x * x) / 2) * x ^ n) *
           (exp (- (/ (ls * ls)) * (y * y) / 2) * y ^ n)) N)
        (rbf RO var ls x y).
Proof.
  intros Hls. rewrite rbf_R, (rbf_factor ls x y Hls).
  set (s := / (ls * ls)). set (gx := exp (- s * (x * x) / 2)). set (gy := exp (- s * (y * y) / 2)).
  assert (Hcv : Un_cv (fun N => (var * gx * gy) * sum_f_R0 (fun n => / INR (fact n) * (s * x * y) ^ n) N)
                      ((var * gx * gy) * exp (s * x * y))).
  { apply cv_scal. apply exp_series_cv. }
  replace (gx * gy * exp (s * x * y) * var) with (var * gx * gy * exp (s * x * y)) by ring.
  intros eps Heps. destruct (Hcv eps Heps) as [N0 HN0]. exists N0. intros n Hn.
  specialize (HN0 n Hn).
  rewrite scal_sum in HN0.
  rewrite (sum_eq _ (fun i => / INR (fact i) * (s * x * y) ^ i * (var * gx * gy))); [exact HN0|].
  intros i _. rewrite !Rpow_mult_distr. ring.
Qed.

(** every Gram matrix of the RBF kernel is positive semi-definite *)
Theorem rbf_gram_psd : forall (var ls : R) (pts : list (R * R)),
  0 < var -> 0 < ls -> 0 <= qform (rbf RO var ls) pts.
Proof.
  intros var ls pts Hvar Hls.
  assert (Hls0 : ls <> 0) by lra.
  assert (Hs : 0 < / (ls * ls)) by (apply Rinv_0_lt_compat; nra).
  apply (feature_map_psd (rbf RO var ls)
           (fun n => var * (/ (ls * ls)) ^ n * / INR (fact n))
           (fun n x => exp (- (/ (ls * ls)) * (x * x) / 2) * x ^ n)).
  - intros n. left. apply Rmult_lt_0_compat; [apply Rmult_lt_0_compat|].
    + exact Hvar.
    + apply pow_lt. exact Hs.
    + apply Rinv_0_lt_compat. apply INR_fact_lt_0.
  - intros x y. apply rbf_series_cv. exact Hls0.
Qed.

(** the same statement on the point list / coefficient list of the matrix form *)
Corollary rbf_matrix_gram_psd : forall var ls (xs cs : list R),
  0 < var -> 0 < ls -> length xs = length cs -> 0 <= qform (rbf RO var ls) (combine xs cs).
Proof. intros var ls xs cs Hvar Hls _. apply rbf_gram_psd; assumption. Qed.

Print Assumptions rbf_gram_psd.
