(** * C18 — the generic theorems instantiated at each of the 13 machines (written by tools/c18_statements.py). *)
From Coq Require Import ZArith QArith Reals List Bool.
From Compute Require Import Base.Ops Base.DistCore Generated.dist_setters Spec.Distributions Proofs.C18_generic Proofs.C18.
Import ListNotations.

(** ** Bernoulli *)
Lemma fresh_equiv_Bernoulli :
  forall (T : Type) (O : Ops T), forall (th0 : m_param (Bernoulli_machine O)) (s0 : m_state (Bernoulli_machine O)) (h : list (m_op (Bernoulli_machine O))),
    m_new (Bernoulli_machine O) th0 = Some s0 ->
    m_new (Bernoulli_machine O) (m_params (Bernoulli_machine O) (run (Bernoulli_machine O) s0 h)) = Some (run (Bernoulli_machine O) s0 h).
Proof. exact (fun T O => fresh_equiv (Bernoulli_machine O) (Bernoulli_ok T O)). Qed.

Lemma observational_equiv_Bernoulli :
  forall (T : Type) (O : Ops T), forall (A : Type) (obs : m_state (Bernoulli_machine O) -> A) (th0 : m_param (Bernoulli_machine O)) (s0 : m_state (Bernoulli_machine O)) (h : list (m_op (Bernoulli_machine O))),
    m_new (Bernoulli_machine O) th0 = Some s0 ->
    exists twin, m_new (Bernoulli_machine O) (m_params (Bernoulli_machine O) (run (Bernoulli_machine O) s0 h)) = Some twin /\ obs (run (Bernoulli_machine O) s0 h) = obs twin.
Proof. exact (fun T O => observational_equiv (Bernoulli_machine O) (Bernoulli_ok T O)). Qed.

Lemma valid_update_succeeds_Bernoulli :
  forall (T : Type) (O : Ops T), forall (th0 : m_param (Bernoulli_machine O)) (s0 : m_state (Bernoulli_machine O)) (h : list (m_op (Bernoulli_machine O))) (o : m_op (Bernoulli_machine O)) (th : m_param (Bernoulli_machine O)) (s' : m_state (Bernoulli_machine O)),
    m_new (Bernoulli_machine O) th0 = Some s0 -> m_wf (Bernoulli_machine O) o = true ->
    m_target (Bernoulli_machine O) (run (Bernoulli_machine O) s0 h) o = Some th -> m_new (Bernoulli_machine O) th = Some s' ->
    m_step (Bernoulli_machine O) (run (Bernoulli_machine O) s0 h) o = Ok s' /\ m_params (Bernoulli_machine O) s' = th.
Proof. exact (fun T O => valid_update_succeeds (Bernoulli_machine O) (Bernoulli_ok T O)). Qed.

Lemma invalid_rejected_Bernoulli :
  forall (T : Type) (O : Ops T), forall (th0 : m_param (Bernoulli_machine O)) (s0 : m_state (Bernoulli_machine O)) (h : list (m_op (Bernoulli_machine O))) (o : m_op (Bernoulli_machine O)),
    m_new (Bernoulli_machine O) th0 = Some s0 ->
    obind (m_target (Bernoulli_machine O) (run (Bernoulli_machine O) s0 h) o) (m_new (Bernoulli_machine O)) = None ->
    exists s'', m_step (Bernoulli_machine O) (run (Bernoulli_machine O) s0 h) o = Panicked s'' /\ m_new (Bernoulli_machine O) (m_params (Bernoulli_machine O) s'') = Some s'' /\
                (m_is_update (Bernoulli_machine O) o = false -> s'' = run (Bernoulli_machine O) s0 h).
Proof. exact (fun T O => invalid_rejected (Bernoulli_machine O) (Bernoulli_ok T O)). Qed.

Lemma constructor_domain_Bernoulli :
  forall (th : m_param (Bernoulli_machine RO)), m_new (Bernoulli_machine RO) th <> None <-> Bernoulli_dom th.
Proof. exact (Bernoulli_new_R). Qed.

Lemma domain_invariant_Bernoulli :
  forall (th0 : m_param (Bernoulli_machine RO)) (s0 : m_state (Bernoulli_machine RO)) (h : list (m_op (Bernoulli_machine RO))),
    m_new (Bernoulli_machine RO) th0 = Some s0 -> Bernoulli_dom (m_params (Bernoulli_machine RO) (run (Bernoulli_machine RO) s0 h)).
Proof. exact (fun th0 s0 h H => proj1 (Bernoulli_new_R _) (domain_invariant (Bernoulli_machine RO) (Bernoulli_ok R RO) th0 s0 h H)). Qed.

Lemma accepted_iff_in_domain_Bernoulli :
  forall (th0 : m_param (Bernoulli_machine RO)) (s0 : m_state (Bernoulli_machine RO)) (h : list (m_op (Bernoulli_machine RO))) (o : m_op (Bernoulli_machine RO)) (th : m_param (Bernoulli_machine RO)),
    m_new (Bernoulli_machine RO) th0 = Some s0 -> m_wf (Bernoulli_machine RO) o = true -> m_target (Bernoulli_machine RO) (run (Bernoulli_machine RO) s0 h) o = Some th ->
    (is_ok (m_step (Bernoulli_machine RO) (run (Bernoulli_machine RO) s0 h) o) = true <-> Bernoulli_dom th).
Proof. exact (fun th0 s0 h o th H0 Hwf Ht => accepted_iff_domain (Bernoulli_machine RO) (Bernoulli_ok R RO) Bernoulli_dom Bernoulli_new_R th0 s0 h o th H0 Hwf Ht). Qed.

(** the hypotheses are satisfiable: a history on the rationals with accepted and rejected calls *)
Example example_Bernoulli :
  exists s0, m_new (Bernoulli_machine QO) (1#2)%Q = Some s0 /\
    map fst (trace (Bernoulli_machine QO) s0 [Bernoulli_op_set_p (1#4)%Q; Bernoulli_op_update [2%Q]; Bernoulli_op_update [1%Q]; Bernoulli_op_set_p (-1)%Q]) = [true; false; true; false] /\
    m_params (Bernoulli_machine QO) (run (Bernoulli_machine QO) s0 [Bernoulli_op_set_p (1#4)%Q; Bernoulli_op_update [2%Q]; Bernoulli_op_update [1%Q]; Bernoulli_op_set_p (-1)%Q]) = 1%Q /\
    m_new (Bernoulli_machine QO) (m_params (Bernoulli_machine QO) (run (Bernoulli_machine QO) s0 [Bernoulli_op_set_p (1#4)%Q; Bernoulli_op_update [2%Q]; Bernoulli_op_update [1%Q]; Bernoulli_op_set_p (-1)%Q])) = Some (run (Bernoulli_machine QO) s0 [Bernoulli_op_set_p (1#4)%Q; Bernoulli_op_update [2%Q]; Bernoulli_op_update [1%Q]; Bernoulli_op_set_p (-1)%Q]).
Proof. eexists. split; [vm_compute; reflexivity|]. repeat split; vm_compute; reflexivity. Qed.

(** ** Beta *)
Lemma fresh_equiv_Beta :
  forall (T : Type) (O : Ops T), carrier_sane O -> forall (th0 : m_param (Beta_machine O)) (s0 : m_state (Beta_machine O)) (h : list (m_op (Beta_machine O))),
    m_new (Beta_machine O) th0 = Some s0 ->
    m_new (Beta_machine O) (m_params (Beta_machine O) (run (Beta_machine O) s0 h)) = Some (run (Beta_machine O) s0 h).
Proof. exact (fun T O Hs => fresh_equiv (Beta_machine O) (Beta_ok T O Hs)). Qed.

Lemma observational_equiv_Beta :
  forall (T : Type) (O : Ops T), carrier_sane O -> forall (A : Type) (obs : m_state (Beta_machine O) -> A) (th0 : m_param (Beta_machine O)) (s0 : m_state (Beta_machine O)) (h : list (m_op (Beta_machine O))),
    m_new (Beta_machine O) th0 = Some s0 ->
    exists twin, m_new (Beta_machine O) (m_params (Beta_machine O) (run (Beta_machine O) s0 h)) = Some twin /\ obs (run (Beta_machine O) s0 h) = obs twin.
Proof. exact (fun T O Hs => observational_equiv (Beta_machine O) (Beta_ok T O Hs)). Qed.

Lemma valid_update_succeeds_Beta :
  forall (T : Type) (O : Ops T), carrier_sane O -> forall (th0 : m_param (Beta_machine O)) (s0 : m_state (Beta_machine O)) (h : list (m_op (Beta_machine O))) (o : m_op (Beta_machine O)) (th : m_param (Beta_machine O)) (s' : m_state (Beta_machine O)),
    m_new (Beta_machine O) th0 = Some s0 -> m_wf (Beta_machine O) o = true ->
    m_target (Beta_machine O) (run (Beta_machine O) s0 h) o = Some th -> m_new (Beta_machine O) th = Some s' ->
    m_step (Beta_machine O) (run (Beta_machine O) s0 h) o = Ok s' /\ m_params (Beta_machine O) s' = th.
Proof. exact (fun T O Hs => valid_update_succeeds (Beta_machine O) (Beta_ok T O Hs)). Qed.

Lemma invalid_rejected_Beta :
  forall (T : Type) (O : Ops T), carrier_sane O -> forall (th0 : m_param (Beta_machine O)) (s0 : m_state (Beta_machine O)) (h : list (m_op (Beta_machine O))) (o : m_op (Beta_machine O)),
    m_new (Beta_machine O) th0 = Some s0 ->
    obind (m_target (Beta_machine O) (run (Beta_machine O) s0 h) o) (m_new (Beta_machine O)) = None ->
    exists s'', m_step (Beta_machine O) (run (Beta_machine O) s0 h) o = Panicked s'' /\ m_new (Beta_machine O) (m_params (Beta_machine O) s'') = Some s'' /\
                (m_is_update (Beta_machine O) o = false -> s'' = run (Beta_machine O) s0 h).
Proof. exact (fun T O Hs => invalid_rejected (Beta_machine O) (Beta_ok T O Hs)). Qed.

Lemma constructor_domain_Beta :
  forall (th : m_param (Beta_machine RO)), m_new (Beta_machine RO) th <> None <-> Beta_dom th.
Proof. exact (Beta_new_R). Qed.

Lemma domain_invariant_Beta :
  forall (th0 : m_param (Beta_machine RO)) (s0 : m_state (Beta_machine RO)) (h : list (m_op (Beta_machine RO))),
    m_new (Beta_machine RO) th0 = Some s0 -> Beta_dom (m_params (Beta_machine RO) (run (Beta_machine RO) s0 h)).
Proof. exact (fun th0 s0 h H => proj1 (Beta_new_R _) (domain_invariant (Beta_machine RO) (Beta_ok R RO RO_sane) th0 s0 h H)). Qed.

Lemma accepted_iff_in_domain_Beta :
  forall (th0 : m_param (Beta_machine RO)) (s0 : m_state (Beta_machine RO)) (h : list (m_op (Beta_machine RO))) (o : m_op (Beta_machine RO)) (th : m_param (Beta_machine RO)),
    m_new (Beta_machine RO) th0 = Some s0 -> m_wf (Beta_machine RO) o = true -> m_target (Beta_machine RO) (run (Beta_machine RO) s0 h) o = Some th ->
    (is_ok (m_step (Beta_machine RO) (run (Beta_machine RO) s0 h) o) = true <-> Beta_dom th).
Proof. exact (fun th0 s0 h o th H0 Hwf Ht => accepted_iff_domain (Beta_machine RO) (Beta_ok R RO RO_sane) Beta_dom Beta_new_R th0 s0 h o th H0 Hwf Ht). Qed.

(** the hypotheses are satisfiable: a history on the rationals with accepted and rejected calls *)
Example example_Beta :
  exists s0, m_new (Beta_machine QO) (2%Q, 3%Q) = Some s0 /\
    map fst (trace (Beta_machine QO) s0 [Beta_op_set_alpha 5%Q; Beta_op_update [1%Q; (-1)%Q]; Beta_op_set_beta (1#2)%Q; Beta_op_update [7%Q; 4%Q]]) = [true; false; true; true] /\
    m_params (Beta_machine QO) (run (Beta_machine QO) s0 [Beta_op_set_alpha 5%Q; Beta_op_update [1%Q; (-1)%Q]; Beta_op_set_beta (1#2)%Q; Beta_op_update [7%Q; 4%Q]]) = (7%Q, 4%Q) /\
    m_new (Beta_machine QO) (m_params (Beta_machine QO) (run (Beta_machine QO) s0 [Beta_op_set_alpha 5%Q; Beta_op_update [1%Q; (-1)%Q]; Beta_op_set_beta (1#2)%Q; Beta_op_update [7%Q; 4%Q]])) = Some (run (Beta_machine QO) s0 [Beta_op_set_alpha 5%Q; Beta_op_update [1%Q; (-1)%Q]; Beta_op_set_beta (1#2)%Q; Beta_op_update [7%Q; 4%Q]]).
Proof. eexists. split; [vm_compute; reflexivity|]. repeat split; vm_compute; reflexivity. Qed.

(** ** Binomial *)
Lemma fresh_equiv_Binomial :
  forall (T : Type) (O : Ops T), forall (th0 : m_param (Binomial_machine O)) (s0 : m_state (Binomial_machine O)) (h : list (m_op (Binomial_machine O))),
    m_new (Binomial_machine O) th0 = Some s0 ->
    m_new (Binomial_machine O) (m_params (Binomial_machine O) (run (Binomial_machine O) s0 h)) = Some (run (Binomial_machine O) s0 h).
Proof. exact (fun T O => fresh_equiv (Binomial_machine O) (Binomial_ok T O)). Qed.

Lemma observational_equiv_Binomial :
  forall (T : Type) (O : Ops T), forall (A : Type) (obs : m_state (Binomial_machine O) -> A) (th0 : m_param (Binomial_machine O)) (s0 : m_state (Binomial_machine O)) (h : list (m_op (Binomial_machine O))),
    m_new (Binomial_machine O) th0 = Some s0 ->
    exists twin, m_new (Binomial_machine O) (m_params (Binomial_machine O) (run (Binomial_machine O) s0 h)) = Some twin /\ obs (run (Binomial_machine O) s0 h) = obs twin.
Proof. exact (fun T O => observational_equiv (Binomial_machine O) (Binomial_ok T O)). Qed.

Lemma valid_update_succeeds_Binomial :
  forall (T : Type) (O : Ops T), forall (th0 : m_param (Binomial_machine O)) (s0 : m_state (Binomial_machine O)) (h : list (m_op (Binomial_machine O))) (o : m_op (Binomial_machine O)) (th : m_param (Binomial_machine O)) (s' : m_state (Binomial_machine O)),
    m_new (Binomial_machine O) th0 = Some s0 -> m_wf (Binomial_machine O) o = true ->
    m_target (Binomial_machine O) (run (Binomial_machine O) s0 h) o = Some th -> m_new (Binomial_machine O) th = Some s' ->
    m_step (Binomial_machine O) (run (Binomial_machine O) s0 h) o = Ok s' /\ m_params (Binomial_machine O) s' = th.
Proof. exact (fun T O => valid_update_succeeds (Binomial_machine O) (Binomial_ok T O)). Qed.

Lemma invalid_rejected_Binomial :
  forall (T : Type) (O : Ops T), forall (th0 : m_param (Binomial_machine O)) (s0 : m_state (Binomial_machine O)) (h : list (m_op (Binomial_machine O))) (o : m_op (Binomial_machine O)),
    m_new (Binomial_machine O) th0 = Some s0 ->
    obind (m_target (Binomial_machine O) (run (Binomial_machine O) s0 h) o) (m_new (Binomial_machine O)) = None ->
    exists s'', m_step (Binomial_machine O) (run (Binomial_machine O) s0 h) o = Panicked s'' /\ m_new (Binomial_machine O) (m_params (Binomial_machine O) s'') = Some s'' /\
                (m_is_update (Binomial_machine O) o = false -> s'' = run (Binomial_machine O) s0 h).
Proof. exact (fun T O => invalid_rejected (Binomial_machine O) (Binomial_ok T O)). Qed.

Lemma constructor_domain_Binomial :
  forall (th : m_param (Binomial_machine RO)), m_new (Binomial_machine RO) th <> None <-> Binomial_dom th.
Proof. exact (Binomial_new_R). Qed.

Lemma domain_invariant_Binomial :
  forall (th0 : m_param (Binomial_machine RO)) (s0 : m_state (Binomial_machine RO)) (h : list (m_op (Binomial_machine RO))),
    m_new (Binomial_machine RO) th0 = Some s0 -> Binomial_dom (m_params (Binomial_machine RO) (run (Binomial_machine RO) s0 h)).
Proof. exact (fun th0 s0 h H => proj1 (Binomial_new_R _) (domain_invariant (Binomial_machine RO) (Binomial_ok R RO) th0 s0 h H)). Qed.

Lemma accepted_iff_in_domain_Binomial :
  forall (th0 : m_param (Binomial_machine RO)) (s0 : m_state (Binomial_machine RO)) (h : list (m_op (Binomial_machine RO))) (o : m_op (Binomial_machine RO)) (th : m_param (Binomial_machine RO)),
    m_new (Binomial_machine RO) th0 = Some s0 -> m_wf (Binomial_machine RO) o = true -> m_target (Binomial_machine RO) (run (Binomial_machine RO) s0 h) o = Some th ->
    (is_ok (m_step (Binomial_machine RO) (run (Binomial_machine RO) s0 h) o) = true <-> Binomial_dom th).
Proof. exact (fun th0 s0 h o th H0 Hwf Ht => accepted_iff_domain (Binomial_machine RO) (Binomial_ok R RO) Binomial_dom Binomial_new_R th0 s0 h o th H0 Hwf Ht). Qed.

(** the hypotheses are satisfiable: a history on the rationals with accepted and rejected calls *)
Example example_Binomial :
  exists s0, m_new (Binomial_machine QO) (10%Z, (1#2)%Q) = Some s0 /\
    map fst (trace (Binomial_machine QO) s0 [Binomial_op_set_n 20%Z; Binomial_op_set_p 2%Q; Binomial_op_update [5%Q; (1#4)%Q]; Binomial_op_update [3%Q]]) = [true; false; true; false] /\
    m_params (Binomial_machine QO) (run (Binomial_machine QO) s0 [Binomial_op_set_n 20%Z; Binomial_op_set_p 2%Q; Binomial_op_update [5%Q; (1#4)%Q]; Binomial_op_update [3%Q]]) = (3%Z, (1#4)%Q) /\
    m_new (Binomial_machine QO) (m_params (Binomial_machine QO) (run (Binomial_machine QO) s0 [Binomial_op_set_n 20%Z; Binomial_op_set_p 2%Q; Binomial_op_update [5%Q; (1#4)%Q]; Binomial_op_update [3%Q]])) = Some (run (Binomial_machine QO) s0 [Binomial_op_set_n 20%Z; Binomial_op_set_p 2%Q; Binomial_op_update [5%Q; (1#4)%Q]; Binomial_op_update [3%Q]]).
Proof. eexists. split; [vm_compute; reflexivity|]. repeat split; vm_compute; reflexivity. Qed.

(** ** ChiSquared *)
Lemma fresh_equiv_ChiSquared :
  forall (T : Type) (O : Ops T), forall (th0 : m_param (ChiSquared_machine O)) (s0 : m_state (ChiSquared_machine O)) (h : list (m_op (ChiSquared_machine O))),
    m_new (ChiSquared_machine O) th0 = Some s0 ->
    m_new (ChiSquared_machine O) (m_params (ChiSquared_machine O) (run (ChiSquared_machine O) s0 h)) = Some (run (ChiSquared_machine O) s0 h).
Proof. exact (fun T O => fresh_equiv (ChiSquared_machine O) (ChiSquared_ok T O)). Qed.

Lemma observational_equiv_ChiSquared :
  forall (T : Type) (O : Ops T), forall (A : Type) (obs : m_state (ChiSquared_machine O) -> A) (th0 : m_param (ChiSquared_machine O)) (s0 : m_state (ChiSquared_machine O)) (h : list (m_op (ChiSquared_machine O))),
    m_new (ChiSquared_machine O) th0 = Some s0 ->
    exists twin, m_new (ChiSquared_machine O) (m_params (ChiSquared_machine O) (run (ChiSquared_machine O) s0 h)) = Some twin /\ obs (run (ChiSquared_machine O) s0 h) = obs twin.
Proof. exact (fun T O => observational_equiv (ChiSquared_machine O) (ChiSquared_ok T O)). Qed.

Lemma valid_update_succeeds_ChiSquared :
  forall (T : Type) (O : Ops T), forall (th0 : m_param (ChiSquared_machine O)) (s0 : m_state (ChiSquared_machine O)) (h : list (m_op (ChiSquared_machine O))) (o : m_op (ChiSquared_machine O)) (th : m_param (ChiSquared_machine O)) (s' : m_state (ChiSquared_machine O)),
    m_new (ChiSquared_machine O) th0 = Some s0 -> m_wf (ChiSquared_machine O) o = true ->
    m_target (ChiSquared_machine O) (run (ChiSquared_machine O) s0 h) o = Some th -> m_new (ChiSquared_machine O) th = Some s' ->
    m_step (ChiSquared_machine O) (run (ChiSquared_machine O) s0 h) o = Ok s' /\ m_params (ChiSquared_machine O) s' = th.
Proof. exact (fun T O => valid_update_succeeds (ChiSquared_machine O) (ChiSquared_ok T O)). Qed.

Lemma invalid_rejected_ChiSquared :
  forall (T : Type) (O : Ops T), forall (th0 : m_param (ChiSquared_machine O)) (s0 : m_state (ChiSquared_machine O)) (h : list (m_op (ChiSquared_machine O))) (o : m_op (ChiSquared_machine O)),
    m_new (ChiSquared_machine O) th0 = Some s0 ->
    obind (m_target (ChiSquared_machine O) (run (ChiSquared_machine O) s0 h) o) (m_new (ChiSquared_machine O)) = None ->
    exists s'', m_step (ChiSquared_machine O) (run (ChiSquared_machine O) s0 h) o = Panicked s'' /\ m_new (ChiSquared_machine O) (m_params (ChiSquared_machine O) s'') = Some s'' /\
                (m_is_update (ChiSquared_machine O) o = false -> s'' = run (ChiSquared_machine O) s0 h).
Proof. exact (fun T O => invalid_rejected (ChiSquared_machine O) (ChiSquared_ok T O)). Qed.

Lemma constructor_domain_ChiSquared :
  forall (th : m_param (ChiSquared_machine RO)), m_new (ChiSquared_machine RO) th <> None <-> ChiSquared_dom th.
Proof. exact (ChiSquared_new_R). Qed.

Lemma domain_invariant_ChiSquared :
  forall (th0 : m_param (ChiSquared_machine RO)) (s0 : m_state (ChiSquared_machine RO)) (h : list (m_op (ChiSquared_machine RO))),
    m_new (ChiSquared_machine RO) th0 = Some s0 -> ChiSquared_dom (m_params (ChiSquared_machine RO) (run (ChiSquared_machine RO) s0 h)).
Proof. exact (fun th0 s0 h H => proj1 (ChiSquared_new_R _) (domain_invariant (ChiSquared_machine RO) (ChiSquared_ok R RO) th0 s0 h H)). Qed.

Lemma accepted_iff_in_domain_ChiSquared :
  forall (th0 : m_param (ChiSquared_machine RO)) (s0 : m_state (ChiSquared_machine RO)) (h : list (m_op (ChiSquared_machine RO))) (o : m_op (ChiSquared_machine RO)) (th : m_param (ChiSquared_machine RO)),
    m_new (ChiSquared_machine RO) th0 = Some s0 -> m_wf (ChiSquared_machine RO) o = true -> m_target (ChiSquared_machine RO) (run (ChiSquared_machine RO) s0 h) o = Some th ->
    (is_ok (m_step (ChiSquared_machine RO) (run (ChiSquared_machine RO) s0 h) o) = true <-> ChiSquared_dom th).
Proof. exact (fun th0 s0 h o th H0 Hwf Ht => accepted_iff_domain (ChiSquared_machine RO) (ChiSquared_ok R RO) ChiSquared_dom ChiSquared_new_R th0 s0 h o th H0 Hwf Ht). Qed.

(** the hypotheses are satisfiable: a history on the rationals with accepted and rejected calls *)
Example example_ChiSquared :
  exists s0, m_new (ChiSquared_machine QO) 4%Z = Some s0 /\
    map fst (trace (ChiSquared_machine QO) s0 [ChiSquared_op_set_dof 0%Z; ChiSquared_op_set_dof 9%Z; ChiSquared_op_update [(5#2)%Q]; ChiSquared_op_update [(-1)%Q]]) = [false; true; true; false] /\
    m_params (ChiSquared_machine QO) (run (ChiSquared_machine QO) s0 [ChiSquared_op_set_dof 0%Z; ChiSquared_op_set_dof 9%Z; ChiSquared_op_update [(5#2)%Q]; ChiSquared_op_update [(-1)%Q]]) = 2%Z /\
    m_new (ChiSquared_machine QO) (m_params (ChiSquared_machine QO) (run (ChiSquared_machine QO) s0 [ChiSquared_op_set_dof 0%Z; ChiSquared_op_set_dof 9%Z; ChiSquared_op_update [(5#2)%Q]; ChiSquared_op_update [(-1)%Q]])) = Some (run (ChiSquared_machine QO) s0 [ChiSquared_op_set_dof 0%Z; ChiSquared_op_set_dof 9%Z; ChiSquared_op_update [(5#2)%Q]; ChiSquared_op_update [(-1)%Q]]).
Proof. eexists. split; [vm_compute; reflexivity|]. repeat split; vm_compute; reflexivity. Qed.

(** ** DiscreteUniform *)
Lemma fresh_equiv_DiscreteUniform :
  forall (T : Type) (O : Ops T), forall (th0 : m_param (DiscreteUniform_machine O)) (s0 : m_state (DiscreteUniform_machine O)) (h : list (m_op (DiscreteUniform_machine O))),
    m_new (DiscreteUniform_machine O) th0 = Some s0 ->
    m_new (DiscreteUniform_machine O) (m_params (DiscreteUniform_machine O) (run (DiscreteUniform_machine O) s0 h)) = Some (run (DiscreteUniform_machine O) s0 h).
Proof. exact (fun T O => fresh_equiv (DiscreteUniform_machine O) (DiscreteUniform_ok T O)). Qed.

Lemma observational_equiv_DiscreteUniform :
  forall (T : Type) (O : Ops T), forall (A : Type) (obs : m_state (DiscreteUniform_machine O) -> A) (th0 : m_param (DiscreteUniform_machine O)) (s0 : m_state (DiscreteUniform_machine O)) (h : list (m_op (DiscreteUniform_machine O))),
    m_new (DiscreteUniform_machine O) th0 = Some s0 ->
    exists twin, m_new (DiscreteUniform_machine O) (m_params (DiscreteUniform_machine O) (run (DiscreteUniform_machine O) s0 h)) = Some twin /\ obs (run (DiscreteUniform_machine O) s0 h) = obs twin.
Proof. exact (fun T O => observational_equiv (DiscreteUniform_machine O) (DiscreteUniform_ok T O)). Qed.

Lemma valid_update_succeeds_DiscreteUniform :
  forall (T : Type) (O : Ops T), forall (th0 : m_param (DiscreteUniform_machine O)) (s0 : m_state (DiscreteUniform_machine O)) (h : list (m_op (DiscreteUniform_machine O))) (o : m_op (DiscreteUniform_machine O)) (th : m_param (DiscreteUniform_machine O)) (s' : m_state (DiscreteUniform_machine O)),
    m_new (DiscreteUniform_machine O) th0 = Some s0 -> m_wf (DiscreteUniform_machine O) o = true ->
    m_target (DiscreteUniform_machine O) (run (DiscreteUniform_machine O) s0 h) o = Some th -> m_new (DiscreteUniform_machine O) th = Some s' ->
    m_step (DiscreteUniform_machine O) (run (DiscreteUniform_machine O) s0 h) o = Ok s' /\ m_params (DiscreteUniform_machine O) s' = th.
Proof. exact (fun T O => valid_update_succeeds (DiscreteUniform_machine O) (DiscreteUniform_ok T O)). Qed.

Lemma invalid_rejected_DiscreteUniform :
  forall (T : Type) (O : Ops T), forall (th0 : m_param (DiscreteUniform_machine O)) (s0 : m_state (DiscreteUniform_machine O)) (h : list (m_op (DiscreteUniform_machine O))) (o : m_op (DiscreteUniform_machine O)),
    m_new (DiscreteUniform_machine O) th0 = Some s0 ->
    obind (m_target (DiscreteUniform_machine O) (run (DiscreteUniform_machine O) s0 h) o) (m_new (DiscreteUniform_machine O)) = None ->
    exists s'', m_step (DiscreteUniform_machine O) (run (DiscreteUniform_machine O) s0 h) o = Panicked s'' /\ m_new (DiscreteUniform_machine O) (m_params (DiscreteUniform_machine O) s'') = Some s'' /\
                (m_is_update (DiscreteUniform_machine O) o = false -> s'' = run (DiscreteUniform_machine O) s0 h).
Proof. exact (fun T O => invalid_rejected (DiscreteUniform_machine O) (DiscreteUniform_ok T O)). Qed.

Lemma constructor_domain_DiscreteUniform :
  forall (th : m_param (DiscreteUniform_machine RO)), m_new (DiscreteUniform_machine RO) th <> None <-> DiscreteUniform_dom th.
Proof. exact (DiscreteUniform_new_R). Qed.

Lemma domain_invariant_DiscreteUniform :
  forall (th0 : m_param (DiscreteUniform_machine RO)) (s0 : m_state (DiscreteUniform_machine RO)) (h : list (m_op (DiscreteUniform_machine RO))),
    m_new (DiscreteUniform_machine RO) th0 = Some s0 -> DiscreteUniform_dom (m_params (DiscreteUniform_machine RO) (run (DiscreteUniform_machine RO) s0 h)).
Proof. exact (fun th0 s0 h H => proj1 (DiscreteUniform_new_R _) (domain_invariant (DiscreteUniform_machine RO) (DiscreteUniform_ok R RO) th0 s0 h H)). Qed.

Lemma accepted_iff_in_domain_DiscreteUniform :
  forall (th0 : m_param (DiscreteUniform_machine RO)) (s0 : m_state (DiscreteUniform_machine RO)) (h : list (m_op (DiscreteUniform_machine RO))) (o : m_op (DiscreteUniform_machine RO)) (th : m_param (DiscreteUniform_machine RO)),
    m_new (DiscreteUniform_machine RO) th0 = Some s0 -> m_wf (DiscreteUniform_machine RO) o = true -> m_target (DiscreteUniform_machine RO) (run (DiscreteUniform_machine RO) s0 h) o = Some th ->
    (is_ok (m_step (DiscreteUniform_machine RO) (run (DiscreteUniform_machine RO) s0 h) o) = true <-> DiscreteUniform_dom th).
Proof. exact (fun th0 s0 h o th H0 Hwf Ht => accepted_iff_domain (DiscreteUniform_machine RO) (DiscreteUniform_ok R RO) DiscreteUniform_dom DiscreteUniform_new_R th0 s0 h o th H0 Hwf Ht). Qed.

(** the hypotheses are satisfiable: a history on the rationals with accepted and rejected calls *)
Example example_DiscreteUniform :
  exists s0, m_new (DiscreteUniform_machine QO) (0%Z, 1%Z) = Some s0 /\
    map fst (trace (DiscreteUniform_machine QO) s0 [DiscreteUniform_op_update [5%Q; 9%Q]; DiscreteUniform_op_set_lower 10%Z; DiscreteUniform_op_update [(-7)%Q; (-3)%Q]; DiscreteUniform_op_set_upper (-8)%Z]) = [true; false; true; false] /\
    m_params (DiscreteUniform_machine QO) (run (DiscreteUniform_machine QO) s0 [DiscreteUniform_op_update [5%Q; 9%Q]; DiscreteUniform_op_set_lower 10%Z; DiscreteUniform_op_update [(-7)%Q; (-3)%Q]; DiscreteUniform_op_set_upper (-8)%Z]) = ((-7)%Z, (-3)%Z) /\
    m_new (DiscreteUniform_machine QO) (m_params (DiscreteUniform_machine QO) (run (DiscreteUniform_machine QO) s0 [DiscreteUniform_op_update [5%Q; 9%Q]; DiscreteUniform_op_set_lower 10%Z; DiscreteUniform_op_update [(-7)%Q; (-3)%Q]; DiscreteUniform_op_set_upper (-8)%Z])) = Some (run (DiscreteUniform_machine QO) s0 [DiscreteUniform_op_update [5%Q; 9%Q]; DiscreteUniform_op_set_lower 10%Z; DiscreteUniform_op_update [(-7)%Q; (-3)%Q]; DiscreteUniform_op_set_upper (-8)%Z]).
Proof. eexists. split; [vm_compute; reflexivity|]. repeat split; vm_compute; reflexivity. Qed.

(** ** Exponential *)
Lemma fresh_equiv_Exponential :
  forall (T : Type) (O : Ops T), forall (th0 : m_param (Exponential_machine O)) (s0 : m_state (Exponential_machine O)) (h : list (m_op (Exponential_machine O))),
    m_new (Exponential_machine O) th0 = Some s0 ->
    m_new (Exponential_machine O) (m_params (Exponential_machine O) (run (Exponential_machine O) s0 h)) = Some (run (Exponential_machine O) s0 h).
Proof. exact (fun T O => fresh_equiv (Exponential_machine O) (Exponential_ok T O)). Qed.

Lemma observational_equiv_Exponential :
  forall (T : Type) (O : Ops T), forall (A : Type) (obs : m_state (Exponential_machine O) -> A) (th0 : m_param (Exponential_machine O)) (s0 : m_state (Exponential_machine O)) (h : list (m_op (Exponential_machine O))),
    m_new (Exponential_machine O) th0 = Some s0 ->
    exists twin, m_new (Exponential_machine O) (m_params (Exponential_machine O) (run (Exponential_machine O) s0 h)) = Some twin /\ obs (run (Exponential_machine O) s0 h) = obs twin.
Proof. exact (fun T O => observational_equiv (Exponential_machine O) (Exponential_ok T O)). Qed.

Lemma valid_update_succeeds_Exponential :
  forall (T : Type) (O : Ops T), forall (th0 : m_param (Exponential_machine O)) (s0 : m_state (Exponential_machine O)) (h : list (m_op (Exponential_machine O))) (o : m_op (Exponential_machine O)) (th : m_param (Exponential_machine O)) (s' : m_state (Exponential_machine O)),
    m_new (Exponential_machine O) th0 = Some s0 -> m_wf (Exponential_machine O) o = true ->
    m_target (Exponential_machine O) (run (Exponential_machine O) s0 h) o = Some th -> m_new (Exponential_machine O) th = Some s' ->
    m_step (Exponential_machine O) (run (Exponential_machine O) s0 h) o = Ok s' /\ m_params (Exponential_machine O) s' = th.
Proof. exact (fun T O => valid_update_succeeds (Exponential_machine O) (Exponential_ok T O)). Qed.

Lemma invalid_rejected_Exponential :
  forall (T : Type) (O : Ops T), forall (th0 : m_param (Exponential_machine O)) (s0 : m_state (Exponential_machine O)) (h : list (m_op (Exponential_machine O))) (o : m_op (Exponential_machine O)),
    m_new (Exponential_machine O) th0 = Some s0 ->
    obind (m_target (Exponential_machine O) (run (Exponential_machine O) s0 h) o) (m_new (Exponential_machine O)) = None ->
    exists s'', m_step (Exponential_machine O) (run (Exponential_machine O) s0 h) o = Panicked s'' /\ m_new (Exponential_machine O) (m_params (Exponential_machine O) s'') = Some s'' /\
                (m_is_update (Exponential_machine O) o = false -> s'' = run (Exponential_machine O) s0 h).
Proof. exact (fun T O => invalid_rejected (Exponential_machine O) (Exponential_ok T O)). Qed.

Lemma constructor_domain_Exponential :
  forall (th : m_param (Exponential_machine RO)), m_new (Exponential_machine RO) th <> None <-> Exponential_dom th.
Proof. exact (Exponential_new_R). Qed.

Lemma domain_invariant_Exponential :
  forall (th0 : m_param (Exponential_machine RO)) (s0 : m_state (Exponential_machine RO)) (h : list (m_op (Exponential_machine RO))),
    m_new (Exponential_machine RO) th0 = Some s0 -> Exponential_dom (m_params (Exponential_machine RO) (run (Exponential_machine RO) s0 h)).
Proof. exact (fun th0 s0 h H => proj1 (Exponential_new_R _) (domain_invariant (Exponential_machine RO) (Exponential_ok R RO) th0 s0 h H)). Qed.

Lemma accepted_iff_in_domain_Exponential :
  forall (th0 : m_param (Exponential_machine RO)) (s0 : m_state (Exponential_machine RO)) (h : list (m_op (Exponential_machine RO))) (o : m_op (Exponential_machine RO)) (th : m_param (Exponential_machine RO)),
    m_new (Exponential_machine RO) th0 = Some s0 -> m_wf (Exponential_machine RO) o = true -> m_target (Exponential_machine RO) (run (Exponential_machine RO) s0 h) o = Some th ->
    (is_ok (m_step (Exponential_machine RO) (run (Exponential_machine RO) s0 h) o) = true <-> Exponential_dom th).
Proof. exact (fun th0 s0 h o th H0 Hwf Ht => accepted_iff_domain (Exponential_machine RO) (Exponential_ok R RO) Exponential_dom Exponential_new_R th0 s0 h o th H0 Hwf Ht). Qed.

(** the hypotheses are satisfiable: a history on the rationals with accepted and rejected calls *)
Example example_Exponential :
  exists s0, m_new (Exponential_machine QO) 2%Q = Some s0 /\
    map fst (trace (Exponential_machine QO) s0 [Exponential_op_set_lambda 0%Q; Exponential_op_set_lambda 3%Q; Exponential_op_update [(1#2)%Q]; Exponential_op_update []]) = [false; true; true; false] /\
    m_params (Exponential_machine QO) (run (Exponential_machine QO) s0 [Exponential_op_set_lambda 0%Q; Exponential_op_set_lambda 3%Q; Exponential_op_update [(1#2)%Q]; Exponential_op_update []]) = (1#2)%Q /\
    m_new (Exponential_machine QO) (m_params (Exponential_machine QO) (run (Exponential_machine QO) s0 [Exponential_op_set_lambda 0%Q; Exponential_op_set_lambda 3%Q; Exponential_op_update [(1#2)%Q]; Exponential_op_update []])) = Some (run (Exponential_machine QO) s0 [Exponential_op_set_lambda 0%Q; Exponential_op_set_lambda 3%Q; Exponential_op_update [(1#2)%Q]; Exponential_op_update []]).
Proof. eexists. split; [vm_compute; reflexivity|]. repeat split; vm_compute; reflexivity. Qed.

(** ** Gamma *)
Lemma fresh_equiv_Gamma :
  forall (T : Type) (O : Ops T), forall (th0 : m_param (Gamma_machine O)) (s0 : m_state (Gamma_machine O)) (h : list (m_op (Gamma_machine O))),
    m_new (Gamma_machine O) th0 = Some s0 ->
    m_new (Gamma_machine O) (m_params (Gamma_machine O) (run (Gamma_machine O) s0 h)) = Some (run (Gamma_machine O) s0 h).
Proof. exact (fun T O => fresh_equiv (Gamma_machine O) (Gamma_ok T O)). Qed.

Lemma observational_equiv_Gamma :
  forall (T : Type) (O : Ops T), forall (A : Type) (obs : m_state (Gamma_machine O) -> A) (th0 : m_param (Gamma_machine O)) (s0 : m_state (Gamma_machine O)) (h : list (m_op (Gamma_machine O))),
    m_new (Gamma_machine O) th0 = Some s0 ->
    exists twin, m_new (Gamma_machine O) (m_params (Gamma_machine O) (run (Gamma_machine O) s0 h)) = Some twin /\ obs (run (Gamma_machine O) s0 h) = obs twin.
Proof. exact (fun T O => observational_equiv (Gamma_machine O) (Gamma_ok T O)). Qed.

Lemma valid_update_succeeds_Gamma :
  forall (T : Type) (O : Ops T), forall (th0 : m_param (Gamma_machine O)) (s0 : m_state (Gamma_machine O)) (h : list (m_op (Gamma_machine O))) (o : m_op (Gamma_machine O)) (th : m_param (Gamma_machine O)) (s' : m_state (Gamma_machine O)),
    m_new (Gamma_machine O) th0 = Some s0 -> m_wf (Gamma_machine O) o = true ->
    m_target (Gamma_machine O) (run (Gamma_machine O) s0 h) o = Some th -> m_new (Gamma_machine O) th = Some s' ->
    m_step (Gamma_machine O) (run (Gamma_machine O) s0 h) o = Ok s' /\ m_params (Gamma_machine O) s' = th.
Proof. exact (fun T O => valid_update_succeeds (Gamma_machine O) (Gamma_ok T O)). Qed.

Lemma invalid_rejected_Gamma :
  forall (T : Type) (O : Ops T), forall (th0 : m_param (Gamma_machine O)) (s0 : m_state (Gamma_machine O)) (h : list (m_op (Gamma_machine O))) (o : m_op (Gamma_machine O)),
    m_new (Gamma_machine O) th0 = Some s0 ->
    obind (m_target (Gamma_machine O) (run (Gamma_machine O) s0 h) o) (m_new (Gamma_machine O)) = None ->
    exists s'', m_step (Gamma_machine O) (run (Gamma_machine O) s0 h) o = Panicked s'' /\ m_new (Gamma_machine O) (m_params (Gamma_machine O) s'') = Some s'' /\
                (m_is_update (Gamma_machine O) o = false -> s'' = run (Gamma_machine O) s0 h).
Proof. exact (fun T O => invalid_rejected (Gamma_machine O) (Gamma_ok T O)). Qed.

Lemma constructor_domain_Gamma :
  forall (th : m_param (Gamma_machine RO)), m_new (Gamma_machine RO) th <> None <-> Gamma_dom th.
Proof. exact (Gamma_new_R). Qed.

Lemma domain_invariant_Gamma :
  forall (th0 : m_param (Gamma_machine RO)) (s0 : m_state (Gamma_machine RO)) (h : list (m_op (Gamma_machine RO))),
    m_new (Gamma_machine RO) th0 = Some s0 -> Gamma_dom (m_params (Gamma_machine RO) (run (Gamma_machine RO) s0 h)).
Proof. exact (fun th0 s0 h H => proj1 (Gamma_new_R _) (domain_invariant (Gamma_machine RO) (Gamma_ok R RO) th0 s0 h H)). Qed.

Lemma accepted_iff_in_domain_Gamma :
  forall (th0 : m_param (Gamma_machine RO)) (s0 : m_state (Gamma_machine RO)) (h : list (m_op (Gamma_machine RO))) (o : m_op (Gamma_machine RO)) (th : m_param (Gamma_machine RO)),
    m_new (Gamma_machine RO) th0 = Some s0 -> m_wf (Gamma_machine RO) o = true -> m_target (Gamma_machine RO) (run (Gamma_machine RO) s0 h) o = Some th ->
    (is_ok (m_step (Gamma_machine RO) (run (Gamma_machine RO) s0 h) o) = true <-> Gamma_dom th).
Proof. exact (fun th0 s0 h o th H0 Hwf Ht => accepted_iff_domain (Gamma_machine RO) (Gamma_ok R RO) Gamma_dom Gamma_new_R th0 s0 h o th H0 Hwf Ht). Qed.

(** the hypotheses are satisfiable: a history on the rationals with accepted and rejected calls *)
Example example_Gamma :
  exists s0, m_new (Gamma_machine QO) (2%Q, 3%Q) = Some s0 /\
    map fst (trace (Gamma_machine QO) s0 [Gamma_op_set_alpha 0%Q; Gamma_op_set_beta 5%Q; Gamma_op_update [1%Q; 1%Q]; Gamma_op_update [1%Q; (-1)%Q]]) = [false; true; true; false] /\
    m_params (Gamma_machine QO) (run (Gamma_machine QO) s0 [Gamma_op_set_alpha 0%Q; Gamma_op_set_beta 5%Q; Gamma_op_update [1%Q; 1%Q]; Gamma_op_update [1%Q; (-1)%Q]]) = (1%Q, 1%Q) /\
    m_new (Gamma_machine QO) (m_params (Gamma_machine QO) (run (Gamma_machine QO) s0 [Gamma_op_set_alpha 0%Q; Gamma_op_set_beta 5%Q; Gamma_op_update [1%Q; 1%Q]; Gamma_op_update [1%Q; (-1)%Q]])) = Some (run (Gamma_machine QO) s0 [Gamma_op_set_alpha 0%Q; Gamma_op_set_beta 5%Q; Gamma_op_update [1%Q; 1%Q]; Gamma_op_update [1%Q; (-1)%Q]]).
Proof. eexists. split; [vm_compute; reflexivity|]. repeat split; vm_compute; reflexivity. Qed.

(** ** Gumbel *)
Lemma fresh_equiv_Gumbel :
  forall (T : Type) (O : Ops T), forall (th0 : m_param (Gumbel_machine O)) (s0 : m_state (Gumbel_machine O)) (h : list (m_op (Gumbel_machine O))),
    m_new (Gumbel_machine O) th0 = Some s0 ->
    m_new (Gumbel_machine O) (m_params (Gumbel_machine O) (run (Gumbel_machine O) s0 h)) = Some (run (Gumbel_machine O) s0 h).
Proof. exact (fun T O => fresh_equiv (Gumbel_machine O) (Gumbel_ok T O)). Qed.

Lemma observational_equiv_Gumbel :
  forall (T : Type) (O : Ops T), forall (A : Type) (obs : m_state (Gumbel_machine O) -> A) (th0 : m_param (Gumbel_machine O)) (s0 : m_state (Gumbel_machine O)) (h : list (m_op (Gumbel_machine O))),
    m_new (Gumbel_machine O) th0 = Some s0 ->
    exists twin, m_new (Gumbel_machine O) (m_params (Gumbel_machine O) (run (Gumbel_machine O) s0 h)) = Some twin /\ obs (run (Gumbel_machine O) s0 h) = obs twin.
Proof. exact (fun T O => observational_equiv (Gumbel_machine O) (Gumbel_ok T O)). Qed.

Lemma valid_update_succeeds_Gumbel :
  forall (T : Type) (O : Ops T), forall (th0 : m_param (Gumbel_machine O)) (s0 : m_state (Gumbel_machine O)) (h : list (m_op (Gumbel_machine O))) (o : m_op (Gumbel_machine O)) (th : m_param (Gumbel_machine O)) (s' : m_state (Gumbel_machine O)),
    m_new (Gumbel_machine O) th0 = Some s0 -> m_wf (Gumbel_machine O) o = true ->
    m_target (Gumbel_machine O) (run (Gumbel_machine O) s0 h) o = Some th -> m_new (Gumbel_machine O) th = Some s' ->
    m_step (Gumbel_machine O) (run (Gumbel_machine O) s0 h) o = Ok s' /\ m_params (Gumbel_machine O) s' = th.
Proof. exact (fun T O => valid_update_succeeds (Gumbel_machine O) (Gumbel_ok T O)). Qed.

Lemma invalid_rejected_Gumbel :
  forall (T : Type) (O : Ops T), forall (th0 : m_param (Gumbel_machine O)) (s0 : m_state (Gumbel_machine O)) (h : list (m_op (Gumbel_machine O))) (o : m_op (Gumbel_machine O)),
    m_new (Gumbel_machine O) th0 = Some s0 ->
    obind (m_target (Gumbel_machine O) (run (Gumbel_machine O) s0 h) o) (m_new (Gumbel_machine O)) = None ->
    exists s'', m_step (Gumbel_machine O) (run (Gumbel_machine O) s0 h) o = Panicked s'' /\ m_new (Gumbel_machine O) (m_params (Gumbel_machine O) s'') = Some s'' /\
                (m_is_update (Gumbel_machine O) o = false -> s'' = run (Gumbel_machine O) s0 h).
Proof. exact (fun T O => invalid_rejected (Gumbel_machine O) (Gumbel_ok T O)). Qed.

Lemma constructor_domain_Gumbel :
  forall (th : m_param (Gumbel_machine RO)), m_new (Gumbel_machine RO) th <> None <-> Gumbel_dom th.
Proof. exact (Gumbel_new_R). Qed.

Lemma domain_invariant_Gumbel :
  forall (th0 : m_param (Gumbel_machine RO)) (s0 : m_state (Gumbel_machine RO)) (h : list (m_op (Gumbel_machine RO))),
    m_new (Gumbel_machine RO) th0 = Some s0 -> Gumbel_dom (m_params (Gumbel_machine RO) (run (Gumbel_machine RO) s0 h)).
Proof. exact (fun th0 s0 h H => proj1 (Gumbel_new_R _) (domain_invariant (Gumbel_machine RO) (Gumbel_ok R RO) th0 s0 h H)). Qed.

Lemma accepted_iff_in_domain_Gumbel :
  forall (th0 : m_param (Gumbel_machine RO)) (s0 : m_state (Gumbel_machine RO)) (h : list (m_op (Gumbel_machine RO))) (o : m_op (Gumbel_machine RO)) (th : m_param (Gumbel_machine RO)),
    m_new (Gumbel_machine RO) th0 = Some s0 -> m_wf (Gumbel_machine RO) o = true -> m_target (Gumbel_machine RO) (run (Gumbel_machine RO) s0 h) o = Some th ->
    (is_ok (m_step (Gumbel_machine RO) (run (Gumbel_machine RO) s0 h) o) = true <-> Gumbel_dom th).
Proof. exact (fun th0 s0 h o th H0 Hwf Ht => accepted_iff_domain (Gumbel_machine RO) (Gumbel_ok R RO) Gumbel_dom Gumbel_new_R th0 s0 h o th H0 Hwf Ht). Qed.

(** the hypotheses are satisfiable: a history on the rationals with accepted and rejected calls *)
Example example_Gumbel :
  exists s0, m_new (Gumbel_machine QO) (0%Q, 1%Q) = Some s0 /\
    map fst (trace (Gumbel_machine QO) s0 [Gumbel_op_set_mu (-3)%Q; Gumbel_op_set_beta 0%Q; Gumbel_op_update [2%Q; 2%Q]; Gumbel_op_update [1%Q; (-2)%Q]]) = [true; false; true; false] /\
    m_params (Gumbel_machine QO) (run (Gumbel_machine QO) s0 [Gumbel_op_set_mu (-3)%Q; Gumbel_op_set_beta 0%Q; Gumbel_op_update [2%Q; 2%Q]; Gumbel_op_update [1%Q; (-2)%Q]]) = (1%Q, 2%Q) /\
    m_new (Gumbel_machine QO) (m_params (Gumbel_machine QO) (run (Gumbel_machine QO) s0 [Gumbel_op_set_mu (-3)%Q; Gumbel_op_set_beta 0%Q; Gumbel_op_update [2%Q; 2%Q]; Gumbel_op_update [1%Q; (-2)%Q]])) = Some (run (Gumbel_machine QO) s0 [Gumbel_op_set_mu (-3)%Q; Gumbel_op_set_beta 0%Q; Gumbel_op_update [2%Q; 2%Q]; Gumbel_op_update [1%Q; (-2)%Q]]).
Proof. eexists. split; [vm_compute; reflexivity|]. repeat split; vm_compute; reflexivity. Qed.

(** ** Normal *)
Lemma fresh_equiv_Normal :
  forall (T : Type) (O : Ops T), forall (th0 : m_param (Normal_machine O)) (s0 : m_state (Normal_machine O)) (h : list (m_op (Normal_machine O))),
    m_new (Normal_machine O) th0 = Some s0 ->
    m_new (Normal_machine O) (m_params (Normal_machine O) (run (Normal_machine O) s0 h)) = Some (run (Normal_machine O) s0 h).
Proof. exact (fun T O => fresh_equiv (Normal_machine O) (Normal_ok T O)). Qed.

Lemma observational_equiv_Normal :
  forall (T : Type) (O : Ops T), forall (A : Type) (obs : m_state (Normal_machine O) -> A) (th0 : m_param (Normal_machine O)) (s0 : m_state (Normal_machine O)) (h : list (m_op (Normal_machine O))),
    m_new (Normal_machine O) th0 = Some s0 ->
    exists twin, m_new (Normal_machine O) (m_params (Normal_machine O) (run (Normal_machine O) s0 h)) = Some twin /\ obs (run (Normal_machine O) s0 h) = obs twin.
Proof. exact (fun T O => observational_equiv (Normal_machine O) (Normal_ok T O)). Qed.

Lemma valid_update_succeeds_Normal :
  forall (T : Type) (O : Ops T), forall (th0 : m_param (Normal_machine O)) (s0 : m_state (Normal_machine O)) (h : list (m_op (Normal_machine O))) (o : m_op (Normal_machine O)) (th : m_param (Normal_machine O)) (s' : m_state (Normal_machine O)),
    m_new (Normal_machine O) th0 = Some s0 -> m_wf (Normal_machine O) o = true ->
    m_target (Normal_machine O) (run (Normal_machine O) s0 h) o = Some th -> m_new (Normal_machine O) th = Some s' ->
    m_step (Normal_machine O) (run (Normal_machine O) s0 h) o = Ok s' /\ m_params (Normal_machine O) s' = th.
Proof. exact (fun T O => valid_update_succeeds (Normal_machine O) (Normal_ok T O)). Qed.

Lemma invalid_rejected_Normal :
  forall (T : Type) (O : Ops T), forall (th0 : m_param (Normal_machine O)) (s0 : m_state (Normal_machine O)) (h : list (m_op (Normal_machine O))) (o : m_op (Normal_machine O)),
    m_new (Normal_machine O) th0 = Some s0 ->
    obind (m_target (Normal_machine O) (run (Normal_machine O) s0 h) o) (m_new (Normal_machine O)) = None ->
    exists s'', m_step (Normal_machine O) (run (Normal_machine O) s0 h) o = Panicked s'' /\ m_new (Normal_machine O) (m_params (Normal_machine O) s'') = Some s'' /\
                (m_is_update (Normal_machine O) o = false -> s'' = run (Normal_machine O) s0 h).
Proof. exact (fun T O => invalid_rejected (Normal_machine O) (Normal_ok T O)). Qed.

Lemma constructor_domain_Normal :
  forall (th : m_param (Normal_machine RO)), m_new (Normal_machine RO) th <> None <-> Normal_dom th.
Proof. exact (Normal_new_R). Qed.

Lemma domain_invariant_Normal :
  forall (th0 : m_param (Normal_machine RO)) (s0 : m_state (Normal_machine RO)) (h : list (m_op (Normal_machine RO))),
    m_new (Normal_machine RO) th0 = Some s0 -> Normal_dom (m_params (Normal_machine RO) (run (Normal_machine RO) s0 h)).
Proof. exact (fun th0 s0 h H => proj1 (Normal_new_R _) (domain_invariant (Normal_machine RO) (Normal_ok R RO) th0 s0 h H)). Qed.

Lemma accepted_iff_in_domain_Normal :
  forall (th0 : m_param (Normal_machine RO)) (s0 : m_state (Normal_machine RO)) (h : list (m_op (Normal_machine RO))) (o : m_op (Normal_machine RO)) (th : m_param (Normal_machine RO)),
    m_new (Normal_machine RO) th0 = Some s0 -> m_wf (Normal_machine RO) o = true -> m_target (Normal_machine RO) (run (Normal_machine RO) s0 h) o = Some th ->
    (is_ok (m_step (Normal_machine RO) (run (Normal_machine RO) s0 h) o) = true <-> Normal_dom th).
Proof. exact (fun th0 s0 h o th H0 Hwf Ht => accepted_iff_domain (Normal_machine RO) (Normal_ok R RO) Normal_dom Normal_new_R th0 s0 h o th H0 Hwf Ht). Qed.

(** the hypotheses are satisfiable: a history on the rationals with accepted and rejected calls *)
Example example_Normal :
  exists s0, m_new (Normal_machine QO) (0%Q, 1%Q) = Some s0 /\
    map fst (trace (Normal_machine QO) s0 [Normal_op_set_sigma (-1)%Q; Normal_op_set_mu 4%Q; Normal_op_update [1%Q; 0%Q]; Normal_op_update [2%Q; (-1)%Q]]) = [false; true; true; false] /\
    m_params (Normal_machine QO) (run (Normal_machine QO) s0 [Normal_op_set_sigma (-1)%Q; Normal_op_set_mu 4%Q; Normal_op_update [1%Q; 0%Q]; Normal_op_update [2%Q; (-1)%Q]]) = (2%Q, 0%Q) /\
    m_new (Normal_machine QO) (m_params (Normal_machine QO) (run (Normal_machine QO) s0 [Normal_op_set_sigma (-1)%Q; Normal_op_set_mu 4%Q; Normal_op_update [1%Q; 0%Q]; Normal_op_update [2%Q; (-1)%Q]])) = Some (run (Normal_machine QO) s0 [Normal_op_set_sigma (-1)%Q; Normal_op_set_mu 4%Q; Normal_op_update [1%Q; 0%Q]; Normal_op_update [2%Q; (-1)%Q]]).
Proof. eexists. split; [vm_compute; reflexivity|]. repeat split; vm_compute; reflexivity. Qed.

(** ** Pareto *)
Lemma fresh_equiv_Pareto :
  forall (T : Type) (O : Ops T), forall (th0 : m_param (Pareto_machine O)) (s0 : m_state (Pareto_machine O)) (h : list (m_op (Pareto_machine O))),
    m_new (Pareto_machine O) th0 = Some s0 ->
    m_new (Pareto_machine O) (m_params (Pareto_machine O) (run (Pareto_machine O) s0 h)) = Some (run (Pareto_machine O) s0 h).
Proof. exact (fun T O => fresh_equiv (Pareto_machine O) (Pareto_ok T O)). Qed.

Lemma observational_equiv_Pareto :
  forall (T : Type) (O : Ops T), forall (A : Type) (obs : m_state (Pareto_machine O) -> A) (th0 : m_param (Pareto_machine O)) (s0 : m_state (Pareto_machine O)) (h : list (m_op (Pareto_machine O))),
    m_new (Pareto_machine O) th0 = Some s0 ->
    exists twin, m_new (Pareto_machine O) (m_params (Pareto_machine O) (run (Pareto_machine O) s0 h)) = Some twin /\ obs (run (Pareto_machine O) s0 h) = obs twin.
Proof. exact (fun T O => observational_equiv (Pareto_machine O) (Pareto_ok T O)). Qed.

Lemma valid_update_succeeds_Pareto :
  forall (T : Type) (O : Ops T), forall (th0 : m_param (Pareto_machine O)) (s0 : m_state (Pareto_machine O)) (h : list (m_op (Pareto_machine O))) (o : m_op (Pareto_machine O)) (th : m_param (Pareto_machine O)) (s' : m_state (Pareto_machine O)),
    m_new (Pareto_machine O) th0 = Some s0 -> m_wf (Pareto_machine O) o = true ->
    m_target (Pareto_machine O) (run (Pareto_machine O) s0 h) o = Some th -> m_new (Pareto_machine O) th = Some s' ->
    m_step (Pareto_machine O) (run (Pareto_machine O) s0 h) o = Ok s' /\ m_params (Pareto_machine O) s' = th.
Proof. exact (fun T O => valid_update_succeeds (Pareto_machine O) (Pareto_ok T O)). Qed.

Lemma invalid_rejected_Pareto :
  forall (T : Type) (O : Ops T), forall (th0 : m_param (Pareto_machine O)) (s0 : m_state (Pareto_machine O)) (h : list (m_op (Pareto_machine O))) (o : m_op (Pareto_machine O)),
    m_new (Pareto_machine O) th0 = Some s0 ->
    obind (m_target (Pareto_machine O) (run (Pareto_machine O) s0 h) o) (m_new (Pareto_machine O)) = None ->
    exists s'', m_step (Pareto_machine O) (run (Pareto_machine O) s0 h) o = Panicked s'' /\ m_new (Pareto_machine O) (m_params (Pareto_machine O) s'') = Some s'' /\
                (m_is_update (Pareto_machine O) o = false -> s'' = run (Pareto_machine O) s0 h).
Proof. exact (fun T O => invalid_rejected (Pareto_machine O) (Pareto_ok T O)). Qed.

Lemma constructor_domain_Pareto :
  forall (th : m_param (Pareto_machine RO)), m_new (Pareto_machine RO) th <> None <-> Pareto_dom th.
Proof. exact (Pareto_new_R). Qed.

Lemma domain_invariant_Pareto :
  forall (th0 : m_param (Pareto_machine RO)) (s0 : m_state (Pareto_machine RO)) (h : list (m_op (Pareto_machine RO))),
    m_new (Pareto_machine RO) th0 = Some s0 -> Pareto_dom (m_params (Pareto_machine RO) (run (Pareto_machine RO) s0 h)).
Proof. exact (fun th0 s0 h H => proj1 (Pareto_new_R _) (domain_invariant (Pareto_machine RO) (Pareto_ok R RO) th0 s0 h H)). Qed.

Lemma accepted_iff_in_domain_Pareto :
  forall (th0 : m_param (Pareto_machine RO)) (s0 : m_state (Pareto_machine RO)) (h : list (m_op (Pareto_machine RO))) (o : m_op (Pareto_machine RO)) (th : m_param (Pareto_machine RO)),
    m_new (Pareto_machine RO) th0 = Some s0 -> m_wf (Pareto_machine RO) o = true -> m_target (Pareto_machine RO) (run (Pareto_machine RO) s0 h) o = Some th ->
    (is_ok (m_step (Pareto_machine RO) (run (Pareto_machine RO) s0 h) o) = true <-> Pareto_dom th).
Proof. exact (fun th0 s0 h o th H0 Hwf Ht => accepted_iff_domain (Pareto_machine RO) (Pareto_ok R RO) Pareto_dom Pareto_new_R th0 s0 h o th H0 Hwf Ht). Qed.

(** the hypotheses are satisfiable: a history on the rationals with accepted and rejected calls *)
Example example_Pareto :
  exists s0, m_new (Pareto_machine QO) (1%Q, 1%Q) = Some s0 /\
    map fst (trace (Pareto_machine QO) s0 [Pareto_op_set_alpha 3%Q; Pareto_op_set_minval 0%Q; Pareto_op_update [2%Q; 2%Q; 2%Q]; Pareto_op_update [2%Q; 5%Q]]) = [true; false; false; true] /\
    m_params (Pareto_machine QO) (run (Pareto_machine QO) s0 [Pareto_op_set_alpha 3%Q; Pareto_op_set_minval 0%Q; Pareto_op_update [2%Q; 2%Q; 2%Q]; Pareto_op_update [2%Q; 5%Q]]) = (2%Q, 5%Q) /\
    m_new (Pareto_machine QO) (m_params (Pareto_machine QO) (run (Pareto_machine QO) s0 [Pareto_op_set_alpha 3%Q; Pareto_op_set_minval 0%Q; Pareto_op_update [2%Q; 2%Q; 2%Q]; Pareto_op_update [2%Q; 5%Q]])) = Some (run (Pareto_machine QO) s0 [Pareto_op_set_alpha 3%Q; Pareto_op_set_minval 0%Q; Pareto_op_update [2%Q; 2%Q; 2%Q]; Pareto_op_update [2%Q; 5%Q]]).
Proof. eexists. split; [vm_compute; reflexivity|]. repeat split; vm_compute; reflexivity. Qed.

(** ** Poisson *)
Lemma fresh_equiv_Poisson :
  forall (T : Type) (O : Ops T), forall (th0 : m_param (Poisson_machine O)) (s0 : m_state (Poisson_machine O)) (h : list (m_op (Poisson_machine O))),
    m_new (Poisson_machine O) th0 = Some s0 ->
    m_new (Poisson_machine O) (m_params (Poisson_machine O) (run (Poisson_machine O) s0 h)) = Some (run (Poisson_machine O) s0 h).
Proof. exact (fun T O => fresh_equiv (Poisson_machine O) (Poisson_ok T O)). Qed.

Lemma observational_equiv_Poisson :
  forall (T : Type) (O : Ops T), forall (A : Type) (obs : m_state (Poisson_machine O) -> A) (th0 : m_param (Poisson_machine O)) (s0 : m_state (Poisson_machine O)) (h : list (m_op (Poisson_machine O))),
    m_new (Poisson_machine O) th0 = Some s0 ->
    exists twin, m_new (Poisson_machine O) (m_params (Poisson_machine O) (run (Poisson_machine O) s0 h)) = Some twin /\ obs (run (Poisson_machine O) s0 h) = obs twin.
Proof. exact (fun T O => observational_equiv (Poisson_machine O) (Poisson_ok T O)). Qed.

Lemma valid_update_succeeds_Poisson :
  forall (T : Type) (O : Ops T), forall (th0 : m_param (Poisson_machine O)) (s0 : m_state (Poisson_machine O)) (h : list (m_op (Poisson_machine O))) (o : m_op (Poisson_machine O)) (th : m_param (Poisson_machine O)) (s' : m_state (Poisson_machine O)),
    m_new (Poisson_machine O) th0 = Some s0 -> m_wf (Poisson_machine O) o = true ->
    m_target (Poisson_machine O) (run (Poisson_machine O) s0 h) o = Some th -> m_new (Poisson_machine O) th = Some s' ->
    m_step (Poisson_machine O) (run (Poisson_machine O) s0 h) o = Ok s' /\ m_params (Poisson_machine O) s' = th.
Proof. exact (fun T O => valid_update_succeeds (Poisson_machine O) (Poisson_ok T O)). Qed.

Lemma invalid_rejected_Poisson :
  forall (T : Type) (O : Ops T), forall (th0 : m_param (Poisson_machine O)) (s0 : m_state (Poisson_machine O)) (h : list (m_op (Poisson_machine O))) (o : m_op (Poisson_machine O)),
    m_new (Poisson_machine O) th0 = Some s0 ->
    obind (m_target (Poisson_machine O) (run (Poisson_machine O) s0 h) o) (m_new (Poisson_machine O)) = None ->
    exists s'', m_step (Poisson_machine O) (run (Poisson_machine O) s0 h) o = Panicked s'' /\ m_new (Poisson_machine O) (m_params (Poisson_machine O) s'') = Some s'' /\
                (m_is_update (Poisson_machine O) o = false -> s'' = run (Poisson_machine O) s0 h).
Proof. exact (fun T O => invalid_rejected (Poisson_machine O) (Poisson_ok T O)). Qed.

Lemma constructor_domain_Poisson :
  forall (th : m_param (Poisson_machine RO)), m_new (Poisson_machine RO) th <> None <-> Poisson_dom th.
Proof. exact (Poisson_new_R). Qed.

Lemma domain_invariant_Poisson :
  forall (th0 : m_param (Poisson_machine RO)) (s0 : m_state (Poisson_machine RO)) (h : list (m_op (Poisson_machine RO))),
    m_new (Poisson_machine RO) th0 = Some s0 -> Poisson_dom (m_params (Poisson_machine RO) (run (Poisson_machine RO) s0 h)).
Proof. exact (fun th0 s0 h H => proj1 (Poisson_new_R _) (domain_invariant (Poisson_machine RO) (Poisson_ok R RO) th0 s0 h H)). Qed.

Lemma accepted_iff_in_domain_Poisson :
  forall (th0 : m_param (Poisson_machine RO)) (s0 : m_state (Poisson_machine RO)) (h : list (m_op (Poisson_machine RO))) (o : m_op (Poisson_machine RO)) (th : m_param (Poisson_machine RO)),
    m_new (Poisson_machine RO) th0 = Some s0 -> m_wf (Poisson_machine RO) o = true -> m_target (Poisson_machine RO) (run (Poisson_machine RO) s0 h) o = Some th ->
    (is_ok (m_step (Poisson_machine RO) (run (Poisson_machine RO) s0 h) o) = true <-> Poisson_dom th).
Proof. exact (fun th0 s0 h o th H0 Hwf Ht => accepted_iff_domain (Poisson_machine RO) (Poisson_ok R RO) Poisson_dom Poisson_new_R th0 s0 h o th H0 Hwf Ht). Qed.

(** the hypotheses are satisfiable: a history on the rationals with accepted and rejected calls *)
Example example_Poisson :
  exists s0, m_new (Poisson_machine QO) 4%Q = Some s0 /\
    map fst (trace (Poisson_machine QO) s0 [Poisson_op_set_lambda (-1)%Q; Poisson_op_set_lambda 12%Q; Poisson_op_update [3%Q]]) = [false; true; true] /\
    m_params (Poisson_machine QO) (run (Poisson_machine QO) s0 [Poisson_op_set_lambda (-1)%Q; Poisson_op_set_lambda 12%Q; Poisson_op_update [3%Q]]) = 3%Q /\
    m_new (Poisson_machine QO) (m_params (Poisson_machine QO) (run (Poisson_machine QO) s0 [Poisson_op_set_lambda (-1)%Q; Poisson_op_set_lambda 12%Q; Poisson_op_update [3%Q]])) = Some (run (Poisson_machine QO) s0 [Poisson_op_set_lambda (-1)%Q; Poisson_op_set_lambda 12%Q; Poisson_op_update [3%Q]]).
Proof. eexists. split; [vm_compute; reflexivity|]. repeat split; vm_compute; reflexivity. Qed.

(** ** T *)
Lemma fresh_equiv_T :
  forall (T : Type) (O : Ops T), forall (th0 : m_param (T_machine O)) (s0 : m_state (T_machine O)) (h : list (m_op (T_machine O))),
    m_new (T_machine O) th0 = Some s0 ->
    m_new (T_machine O) (m_params (T_machine O) (run (T_machine O) s0 h)) = Some (run (T_machine O) s0 h).
Proof. exact (fun T O => fresh_equiv (T_machine O) (T_ok T O)). Qed.

Lemma observational_equiv_T :
  forall (T : Type) (O : Ops T), forall (A : Type) (obs : m_state (T_machine O) -> A) (th0 : m_param (T_machine O)) (s0 : m_state (T_machine O)) (h : list (m_op (T_machine O))),
    m_new (T_machine O) th0 = Some s0 ->
    exists twin, m_new (T_machine O) (m_params (T_machine O) (run (T_machine O) s0 h)) = Some twin /\ obs (run (T_machine O) s0 h) = obs twin.
Proof. exact (fun T O => observational_equiv (T_machine O) (T_ok T O)). Qed.

Lemma valid_update_succeeds_T :
  forall (T : Type) (O : Ops T), forall (th0 : m_param (T_machine O)) (s0 : m_state (T_machine O)) (h : list (m_op (T_machine O))) (o : m_op (T_machine O)) (th : m_param (T_machine O)) (s' : m_state (T_machine O)),
    m_new (T_machine O) th0 = Some s0 -> m_wf (T_machine O) o = true ->
    m_target (T_machine O) (run (T_machine O) s0 h) o = Some th -> m_new (T_machine O) th = Some s' ->
    m_step (T_machine O) (run (T_machine O) s0 h) o = Ok s' /\ m_params (T_machine O) s' = th.
Proof. exact (fun T O => valid_update_succeeds (T_machine O) (T_ok T O)). Qed.

Lemma invalid_rejected_T :
  forall (T : Type) (O : Ops T), forall (th0 : m_param (T_machine O)) (s0 : m_state (T_machine O)) (h : list (m_op (T_machine O))) (o : m_op (T_machine O)),
    m_new (T_machine O) th0 = Some s0 ->
    obind (m_target (T_machine O) (run (T_machine O) s0 h) o) (m_new (T_machine O)) = None ->
    exists s'', m_step (T_machine O) (run (T_machine O) s0 h) o = Panicked s'' /\ m_new (T_machine O) (m_params (T_machine O) s'') = Some s'' /\
                (m_is_update (T_machine O) o = false -> s'' = run (T_machine O) s0 h).
Proof. exact (fun T O => invalid_rejected (T_machine O) (T_ok T O)). Qed.

Lemma constructor_domain_T :
  forall (th : m_param (T_machine RO)), m_new (T_machine RO) th <> None <-> T_dom th.
Proof. exact (T_new_R). Qed.

Lemma domain_invariant_T :
  forall (th0 : m_param (T_machine RO)) (s0 : m_state (T_machine RO)) (h : list (m_op (T_machine RO))),
    m_new (T_machine RO) th0 = Some s0 -> T_dom (m_params (T_machine RO) (run (T_machine RO) s0 h)).
Proof. exact (fun th0 s0 h H => proj1 (T_new_R _) (domain_invariant (T_machine RO) (T_ok R RO) th0 s0 h H)). Qed.

Lemma accepted_iff_in_domain_T :
  forall (th0 : m_param (T_machine RO)) (s0 : m_state (T_machine RO)) (h : list (m_op (T_machine RO))) (o : m_op (T_machine RO)) (th : m_param (T_machine RO)),
    m_new (T_machine RO) th0 = Some s0 -> m_wf (T_machine RO) o = true -> m_target (T_machine RO) (run (T_machine RO) s0 h) o = Some th ->
    (is_ok (m_step (T_machine RO) (run (T_machine RO) s0 h) o) = true <-> T_dom th).
Proof. exact (fun th0 s0 h o th H0 Hwf Ht => accepted_iff_domain (T_machine RO) (T_ok R RO) T_dom T_new_R th0 s0 h o th H0 Hwf Ht). Qed.

(** the hypotheses are satisfiable: a history on the rationals with accepted and rejected calls *)
Example example_T :
  exists s0, m_new (T_machine QO) 1%Q = Some s0 /\
    map fst (trace (T_machine QO) s0 [T_op_set_dof 0%Q; T_op_set_dof 5%Q; T_op_update [(5#2)%Q]]) = [false; true; true] /\
    m_params (T_machine QO) (run (T_machine QO) s0 [T_op_set_dof 0%Q; T_op_set_dof 5%Q; T_op_update [(5#2)%Q]]) = (5#2)%Q /\
    m_new (T_machine QO) (m_params (T_machine QO) (run (T_machine QO) s0 [T_op_set_dof 0%Q; T_op_set_dof 5%Q; T_op_update [(5#2)%Q]])) = Some (run (T_machine QO) s0 [T_op_set_dof 0%Q; T_op_set_dof 5%Q; T_op_update [(5#2)%Q]]).
Proof. eexists. split; [vm_compute; reflexivity|]. repeat split; vm_compute; reflexivity. Qed.

(** ** Uniform *)
Lemma fresh_equiv_Uniform :
  forall (T : Type) (O : Ops T), forall (th0 : m_param (Uniform_machine O)) (s0 : m_state (Uniform_machine O)) (h : list (m_op (Uniform_machine O))),
    m_new (Uniform_machine O) th0 = Some s0 ->
    m_new (Uniform_machine O) (m_params (Uniform_machine O) (run (Uniform_machine O) s0 h)) = Some (run (Uniform_machine O) s0 h).
Proof. exact (fun T O => fresh_equiv (Uniform_machine O) (Uniform_ok T O)). Qed.

Lemma observational_equiv_Uniform :
  forall (T : Type) (O : Ops T), forall (A : Type) (obs : m_state (Uniform_machine O) -> A) (th0 : m_param (Uniform_machine O)) (s0 : m_state (Uniform_machine O)) (h : list (m_op (Uniform_machine O))),
    m_new (Uniform_machine O) th0 = Some s0 ->
    exists twin, m_new (Uniform_machine O) (m_params (Uniform_machine O) (run (Uniform_machine O) s0 h)) = Some twin /\ obs (run (Uniform_machine O) s0 h) = obs twin.
Proof. exact (fun T O => observational_equiv (Uniform_machine O) (Uniform_ok T O)). Qed.

Lemma valid_update_succeeds_Uniform :
  forall (T : Type) (O : Ops T), forall (th0 : m_param (Uniform_machine O)) (s0 : m_state (Uniform_machine O)) (h : list (m_op (Uniform_machine O))) (o : m_op (Uniform_machine O)) (th : m_param (Uniform_machine O)) (s' : m_state (Uniform_machine O)),
    m_new (Uniform_machine O) th0 = Some s0 -> m_wf (Uniform_machine O) o = true ->
    m_target (Uniform_machine O) (run (Uniform_machine O) s0 h) o = Some th -> m_new (Uniform_machine O) th = Some s' ->
    m_step (Uniform_machine O) (run (Uniform_machine O) s0 h) o = Ok s' /\ m_params (Uniform_machine O) s' = th.
Proof. exact (fun T O => valid_update_succeeds (Uniform_machine O) (Uniform_ok T O)). Qed.

Lemma invalid_rejected_Uniform :
  forall (T : Type) (O : Ops T), forall (th0 : m_param (Uniform_machine O)) (s0 : m_state (Uniform_machine O)) (h : list (m_op (Uniform_machine O))) (o : m_op (Uniform_machine O)),
    m_new (Uniform_machine O) th0 = Some s0 ->
    obind (m_target (Uniform_machine O) (run (Uniform_machine O) s0 h) o) (m_new (Uniform_machine O)) = None ->
    exists s'', m_step (Uniform_machine O) (run (Uniform_machine O) s0 h) o = Panicked s'' /\ m_new (Uniform_machine O) (m_params (Uniform_machine O) s'') = Some s'' /\
                (m_is_update (Uniform_machine O) o = false -> s'' = run (Uniform_machine O) s0 h).
Proof. exact (fun T O => invalid_rejected (Uniform_machine O) (Uniform_ok T O)). Qed.

Lemma constructor_domain_Uniform :
  forall (th : m_param (Uniform_machine RO)), m_new (Uniform_machine RO) th <> None <-> Uniform_dom th.
Proof. exact (Uniform_new_R). Qed.

Lemma domain_invariant_Uniform :
  forall (th0 : m_param (Uniform_machine RO)) (s0 : m_state (Uniform_machine RO)) (h : list (m_op (Uniform_machine RO))),
    m_new (Uniform_machine RO) th0 = Some s0 -> Uniform_dom (m_params (Uniform_machine RO) (run (Uniform_machine RO) s0 h)).
Proof. exact (fun th0 s0 h H => proj1 (Uniform_new_R _) (domain_invariant (Uniform_machine RO) (Uniform_ok R RO) th0 s0 h H)). Qed.

Lemma accepted_iff_in_domain_Uniform :
  forall (th0 : m_param (Uniform_machine RO)) (s0 : m_state (Uniform_machine RO)) (h : list (m_op (Uniform_machine RO))) (o : m_op (Uniform_machine RO)) (th : m_param (Uniform_machine RO)),
    m_new (Uniform_machine RO) th0 = Some s0 -> m_wf (Uniform_machine RO) o = true -> m_target (Uniform_machine RO) (run (Uniform_machine RO) s0 h) o = Some th ->
    (is_ok (m_step (Uniform_machine RO) (run (Uniform_machine RO) s0 h) o) = true <-> Uniform_dom th).
Proof. exact (fun th0 s0 h o th H0 Hwf Ht => accepted_iff_domain (Uniform_machine RO) (Uniform_ok R RO) Uniform_dom Uniform_new_R th0 s0 h o th H0 Hwf Ht). Qed.

(** the hypotheses are satisfiable: a history on the rationals with accepted and rejected calls *)
Example example_Uniform :
  exists s0, m_new (Uniform_machine QO) (0%Q, 1%Q) = Some s0 /\
    map fst (trace (Uniform_machine QO) s0 [Uniform_op_update [2%Q; 3%Q]; Uniform_op_set_lower 4%Q; Uniform_op_update [(-5)%Q; (-4)%Q]; Uniform_op_set_upper (-6)%Q]) = [true; false; true; false] /\
    m_params (Uniform_machine QO) (run (Uniform_machine QO) s0 [Uniform_op_update [2%Q; 3%Q]; Uniform_op_set_lower 4%Q; Uniform_op_update [(-5)%Q; (-4)%Q]; Uniform_op_set_upper (-6)%Q]) = ((-5)%Q, (-4)%Q) /\
    m_new (Uniform_machine QO) (m_params (Uniform_machine QO) (run (Uniform_machine QO) s0 [Uniform_op_update [2%Q; 3%Q]; Uniform_op_set_lower 4%Q; Uniform_op_update [(-5)%Q; (-4)%Q]; Uniform_op_set_upper (-6)%Q])) = Some (run (Uniform_machine QO) s0 [Uniform_op_update [2%Q; 3%Q]; Uniform_op_set_lower 4%Q; Uniform_op_update [(-5)%Q; (-4)%Q]; Uniform_op_set_upper (-6)%Q]).
Proof. eexists. split; [vm_compute; reflexivity|]. repeat split; vm_compute; reflexivity. Qed.

Lemma all_machines_ok :
  forall (T : Type) (O : Ops T), carrier_sane O -> Forall (fun m => machine_ok m) (machines O).
Proof.
  intros T O Hs. unfold machines. repeat (apply Forall_cons); try apply Forall_nil.
  - exact (Bernoulli_ok T O).
  - exact (Beta_ok T O Hs).
  - exact (Binomial_ok T O).
  - exact (ChiSquared_ok T O).
  - exact (DiscreteUniform_ok T O).
  - exact (Exponential_ok T O).
  - exact (Gamma_ok T O).
  - exact (Gumbel_ok T O).
  - exact (Normal_ok T O).
  - exact (Pareto_ok T O).
  - exact (Poisson_ok T O).
  - exact (T_ok T O).
  - exact (Uniform_ok T O).
Qed.
