(** * C15 — every step of the flat-array state machine refines the reference step. *)
From Coq Require Import List Arith ZArith Bool Lia.
From Compute Require Import Base.Ops Base.ListMat Model.Shape Spec.Shape Proofs.C15Lists Proofs.C15.
Import ListNotations.

Lemma is_matrix_inv : forall len nr nc, 0 < nr -> len = nr * nc -> is_matrix len nr = Some nc.
Proof.
  intros len nr nc H ->. unfold is_matrix. destruct nr as [|n]; [lia|].
  replace (S n * nc / S n) with nc by (rewrite Nat.mul_comm, Nat.div_mul; lia).
  now rewrite Nat.eqb_refl.
Qed.

Lemma length_flat_map_const : forall {A B} (f : A -> list B) l k,
  (forall x, In x l -> length (f x) = k) -> length (flat_map f l) = length l * k.
Proof.
  intros A B f l k. induction l as [|x l IH]; intros H; simpl; auto.
  rewrite app_length, IH, H; auto with datatypes.
Qed.

Lemma unflatten_concat' : forall {A} (m : list (list A)) n k,
  length m = n -> Forall (fun r => length r = k) m -> unflatten (concat m) n k = m.
Proof. intros A m n k <-. apply unflatten_concat. Qed.

Lemma unflatten_flat_map : forall {A} (f : nat -> list A) n k,
  (forall i, i < n -> length (f i) = k) -> unflatten (flat_map f (seq 0 n)) n k = map f (seq 0 n).
Proof.
  intros A f n k H. rewrite flat_map_concat_map. apply unflatten_concat'.
  - now rewrite map_length, seq_length.
  - apply Forall_forall. intros r Hr. apply in_map_iff in Hr. destruct Hr as [i [<- Hi]].
    apply in_seq in Hi. apply H. lia.
Qed.

Lemma nth_map_seq : forall {A} (f : nat -> A) n j d, j < n -> nth j (map f (seq 0 n)) d = f j.
Proof.
  intros A f n j d H. rewrite (nth_indep _ d (f 0)) by now rewrite map_length, seq_length.
  rewrite map_nth. now rewrite seq_nth.
Qed.

Lemma row_of_as_map : forall {A} (d : A) (a : list A) nc i, (i + 1) * nc <= length a ->
  row_of a nc i = map (fun j => nth (i * nc + j) a d) (seq 0 nc).
Proof.
  intros A d a nc i H. apply (nth_ext _ _ d d).
  - rewrite length_row_of by auto. now rewrite map_length, seq_length.
  - intros j Hj. rewrite length_row_of in Hj by auto. rewrite nth_map_seq by auto. now apply nth_row_of.
Qed.

Lemma unflatten_repeat : forall {A} (a : list A) nr nc n, length a = nr * nc ->
  unflatten (concat (repeat a n)) (nr * n) nc = concat (repeat (unflatten a nr nc) n).
Proof.
  intros A a nr nc n L. induction n as [|n IH].
  - rewrite Nat.mul_0_r. reflexivity.
  - replace (nr * S n) with (nr + nr * n) by lia. simpl. rewrite unflatten_app by auto. now rewrite IH.
Qed.

Lemma nth_map' : forall {A B} (h : A -> B) l i da db, i < length l -> nth i (map h l) db = h (nth i l da).
Proof. intros. rewrite (nth_indep _ db (h da)) by now rewrite map_length. apply map_nth. Qed.

Section Step.
  Context {T : Type} (O : Ops T).
  Local Notation d := (zero O).
  Local Notation rows := (@rows_of_mat T).
  Local Notation mat := (mat T).

  Definition refines (m : mat) (o : op) : Prop :=
    match step O m o with
    | Some (m', out) => Inv m' /\ ref_step d (rows m) o = Some (rows m', out)
    | None => ref_step d (rows m) o = None
    end.

  Lemma transpose_refines : forall m : mat, Inv m ->
    exists a', transpose_flat O (data m) (nrows m) = Some a' /\ length a' = ncols m * nrows m /\
               unflatten a' (ncols m) (nrows m) = ref_transpose d (rows m).
  Proof.
    intros m I. pose proof I as (L & Hr & Hc). unfold transpose_flat.
    rewrite (is_matrix_inv _ _ (ncols m)) by auto. cbn [bind].
    eexists. split; [reflexivity|]. split.
    - rewrite (length_flat_map_const _ _ (nrows m)).
      + now rewrite seq_length.
      + intros. now rewrite map_length, seq_length.
    - rewrite unflatten_flat_map by (intros; now rewrite map_length, seq_length).
      unfold ref_transpose, transpose_rows. rewrite rows_nc by auto.
      apply map_ext_in. intros j Hj. apply in_seq in Hj. unfold col_of, rows_of_mat, unflatten.
      rewrite map_map. apply map_ext_in. intros i Hi. apply in_seq in Hi.
      symmetry. apply nth_row_of. lia.
  Qed.

  Lemma refines_t : forall m, Inv m -> refines m OT.
  Proof.
    intros m I. destruct (transpose_refines m I) as (a' & E & L & R). pose proof I as (_ & Hr & Hc).
    unfold refines. cbn [step ref_step]. unfold t. rewrite E. cbn [bind].
    rewrite new_exact by auto. cbn [upd_state option_map].
    split; [unfold Inv; cbn [nrows ncols data]; auto|]. unfold rows_of_mat at 2. cbn [nrows ncols data]. now rewrite R.
  Qed.

  Lemma refines_t_mut : forall m, Inv m -> refines m OTMut.
  Proof.
    intros m I. destruct (transpose_refines m I) as (a' & E & L & R). pose proof I as (_ & Hr & Hc).
    unfold refines. cbn [step ref_step]. unfold t_mut. rewrite E. cbn [bind upd_state option_map].
    split; [unfold Inv; cbn [nrows ncols data]; auto|]. unfold rows_of_mat at 2. cbn [nrows ncols data]. now rewrite R.
  Qed.
  (** reshaping: the flat data is untouched, the reference re-cuts the concatenated rows *)
  Lemma refines_want : forall (m : mat) r c (o : op),
    Inv m ->
    step O m o = upd_state (option_map (fun p => mkMat (fst p) (snd p) (data m)) (want_shape (size m) r c)) ->
    ref_step d (rows m) o = (let* B := ref_new (concat (rows m)) r c in Some (B, [])) ->
    refines m o.
  Proof.
    intros m r c o I Es Er. unfold refines. rewrite Es, Er. rewrite rows_concat by auto.
    pose proof I as (L & Hr & Hc). unfold ref_new. unfold size. rewrite L.
    destruct (want_shape (length (data m)) r c) as [[r' c']|] eqn:W; cbn [option_map upd_state bind fst snd]; [|reflexivity].
    split; [|reflexivity]. apply (want_result (data m) r c); auto. rewrite <- L. nia.
  Qed.

  Lemma refines_reshape_mut : forall m r c, Inv m -> refines m (OReshapeMut r c).
  Proof. intros. apply (refines_want m r c); auto. cbn [step]. now rewrite reshape_mut_want. Qed.

  Lemma refines_reshape : forall m r c, Inv m -> refines m (OReshape r c).
  Proof. intros. apply (refines_want m r c); auto. cbn [step]. now rewrite reshape_want. Qed.

  Lemma refines_to_vec_reshape : forall m r c, Inv m -> refines m (OToVecReshape r c).
  Proof.
    intros m r c I. apply (refines_want m r c); auto. cbn [step]. rewrite new_want.
    destruct I as (L & _). unfold size. now rewrite L.
  Qed.

  Lemma refines_to_vec_to_matrix : forall m, Inv m -> refines m OToVecToMatrix.
  Proof.
    intros m I. pose proof I as (L & Hr & Hc). unfold refines. cbn [step ref_step].
    change 1%Z with (Z.of_nat 1). rewrite new_exact by nia. cbn [upd_state option_map].
    split; [unfold Inv; cbn [nrows ncols data]; nia|].
    rewrite rows_concat by auto. unfold rows_of_mat at 1. cbn [nrows ncols data].
    rewrite unflatten_S, unflatten_0, firstn_all. reflexivity.
  Qed.

  (** observations *)
  Lemma refines_row : forall m i (o : op), Inv m ->
    step O m o = observe m (row_slice m i) ->
    ref_step d (rows m) o = (let* _ := guard (i <? rnr (rows m)) in Some (rows m, nth i (rows m) [])) ->
    refines m o.
  Proof.
    intros m i o I Es Er. pose proof I as (L & Hr & Hc). unfold refines. rewrite Es, Er, rows_nr.
    unfold row_slice, guard, bind. destruct (Nat.ltb_spec i (nrows m)) as [Hi|Hi]; [|reflexivity].
    destruct (Nat.leb_spec ((i + 1) * ncols m) (length (data m))); [|nia].
    cbn [observe option_map]. split; auto. unfold rows_of_mat. now rewrite nth_unflatten.
  Qed.

  Lemma refines_get_row : forall m i, Inv m -> refines m (OGetRow i).
  Proof. intros. now apply (refines_row m i). Qed.
  Lemma refines_row_slice : forall m i, Inv m -> refines m (ORowSlice i).
  Proof. intros. now apply (refines_row m i). Qed.

  Lemma in_bounds_inv : forall m : mat, Inv m -> in_bounds m = true.
  Proof. intros m (L & _). unfold in_bounds, size. apply Nat.leb_le. lia. Qed.

  Lemma refines_get_col : forall m j, Inv m -> refines m (OGetCol j).
  Proof.
    intros m j I. unfold refines. cbn [step ref_step]. rewrite rows_nc by auto.
    unfold get_col, guard, bind. rewrite in_bounds_inv by auto.
    destruct (Nat.ltb_spec j (ncols m)); [|reflexivity]. cbn [observe option_map]. split; auto.
    unfold rows_of_mat, unflatten. now rewrite map_map.
  Qed.

  Lemma refines_diag : forall m, Inv m -> refines m ODiag.
  Proof.
    intros m I. pose proof I as (L & Hr & Hc). unfold refines. cbn [step ref_step].
    rewrite rows_nc, rows_nr by auto. unfold diag, guard, bind.
    set (n := Nat.min (nrows m) (ncols m)).
    assert (G : ((n =? 0) || ((n - 1) * ncols m + (n - 1) <? length (data m))) = true).
    { apply orb_true_iff. right. apply Nat.ltb_lt. rewrite <- L. apply flat_lt; lia. }
    rewrite G. cbn [observe option_map]. split; auto. do 2 f_equal.
    apply map_ext_in. intros i Hi. apply in_seq in Hi. unfold rows_of_mat. rewrite ent_unflatten by lia. reflexivity.
  Qed.

  Lemma refines_idx : forall m i j, Inv m -> refines m (OIdx i j).
  Proof.
    intros m i j I. pose proof I as (L & Hr & Hc). unfold refines. cbn [step ref_step].
    rewrite rows_nc, rows_nr by auto. unfold idx, guard, bind.
    destruct (Nat.ltb_spec i (nrows m)), (Nat.ltb_spec j (ncols m)); cbn [andb]; try reflexivity.
    destruct (Nat.ltb_spec (i * ncols m + j) (length (data m))); [|pose proof (flat_lt (nrows m) (ncols m) i j); lia].
    cbn [observe option_map]. split; auto. unfold rows_of_mat. now rewrite ent_unflatten.
  Qed.

  Lemma refines_flat_idx : forall m k, Inv m -> refines m (OFlatIdx k).
  Proof.
    intros m k I. pose proof I as (L & Hr & Hc). unfold refines. cbn [step ref_step].
    rewrite rows_nc, rows_nr by auto. unfold flat_idx, guard, bind, size. rewrite <- L.
    destruct (Nat.ltb_spec k (nrows m * ncols m)) as [Hk|Hk]; cbn [andb]; [|reflexivity].
    cbn [observe option_map]. split; auto. unfold rows_of_mat.
    assert (k / ncols m < nrows m) by (apply Nat.div_lt_upper_bound; nia).
    assert (k mod ncols m < ncols m) by (apply Nat.mod_upper_bound; lia).
    rewrite ent_unflatten by auto.
    replace (k / ncols m * ncols m + k mod ncols m) with k; [reflexivity|].
    rewrite (Nat.div_mod k (ncols m)) at 1 by lia. lia.
  Qed.
  (** in-place updates: same shape, entries compared one by one *)
  Lemma same_shape_update : forall (m : mat) a' R,
    Inv m -> length a' = length (data m) -> length R = nrows m -> Forall (fun r => length r = ncols m) R ->
    (forall i j, i < nrows m -> j < ncols m -> nth (i * ncols m + j) a' d = ent d R i j) ->
    Inv (mkMat (nrows m) (ncols m) a') /\ rows (mkMat (nrows m) (ncols m) a') = R.
  Proof.
    intros m a' R (L & Hr & Hc) La LR FR E. split.
    - unfold Inv. cbn [nrows ncols data]. repeat split; auto. congruence.
    - unfold rows_of_mat. cbn [nrows ncols data]. apply (unflatten_ext d); auto. congruence.
  Qed.

  Lemma refines_idx_set : forall m i j v, Inv m -> refines m (OIdxSet i j v).
  Proof.
    intros m i j v I. pose proof I as (L & Hr & Hc). unfold refines. cbn [step ref_step].
    rewrite rows_nc, rows_nr by auto. unfold idx_set, guard, bind.
    destruct (Nat.ltb_spec i (nrows m)) as [Hi|Hi], (Nat.ltb_spec j (ncols m)) as [Hj|Hj]; cbn [andb]; try reflexivity.
    pose proof (flat_lt (nrows m) (ncols m) i j Hi Hj) as B.
    destruct (Nat.ltb_spec (i * ncols m + j) (length (data m))); [|lia].
    cbn [upd_state option_map].
    destruct (same_shape_update m (upd (data m) (i * ncols m + j) v)
                (upd (rows m) i (upd (nth i (rows m) []) j v))) as [I' R']; auto.
    - apply length_upd.
    - rewrite length_upd. apply rows_nr.
    - apply Forall_upd; [now apply rows_rect|]. rewrite length_upd.
      unfold rows_of_mat. rewrite nth_unflatten by auto. apply length_row_of. nia.
    - intros i' j' Hi' Hj'. rewrite nth_upd. rewrite ent_upd_row by (unfold rows_of_mat; rewrite length_unflatten; auto).
      unfold rows_of_mat. rewrite nth_unflatten by auto.
      destruct (Nat.eqb_spec i' i) as [->|Ne].
      + rewrite nth_upd. rewrite length_row_of by nia. rewrite nth_row_of by auto.
        destruct (Nat.eqb_spec j' j) as [->|Nj].
        * rewrite Nat.eqb_refl. destruct (Nat.ltb_spec (i * ncols m + j) (length (data m))); [|lia].
          destruct (Nat.ltb_spec j (ncols m)); [|lia]. reflexivity.
        * destruct (Nat.eqb_spec (i * ncols m + j') (i * ncols m + j)); [lia|]. reflexivity.
      + destruct (Nat.eqb_spec (i' * ncols m + j') (i * ncols m + j)) as [E|E].
        * apply flat_index_inj in E; auto. lia.
        * cbn [andb]. now rewrite ent_unflatten.
    - split; auto. now rewrite R'.
  Qed.

  Lemma refines_flat_set : forall m k v, Inv m -> refines m (OFlatSet k v).
  Proof.
    intros m k v I. pose proof I as (L & Hr & Hc).
    pose proof (refines_idx_set m (k / ncols m) (k mod ncols m) v I) as H.
    unfold refines in *. cbn [step ref_step] in *. rewrite rows_nc, rows_nr in * by auto.
    unfold flat_idx_replace, idx_set, guard, bind, size in *. rewrite <- L in *.
    assert (Ek : k / ncols m * ncols m + k mod ncols m = k).
    { rewrite (Nat.div_mod k (ncols m)) at 3 by lia. lia. }
    rewrite Ek in H.
    assert (Hm : k mod ncols m < ncols m) by (apply Nat.mod_upper_bound; lia).
    destruct (Nat.ltb_spec k (nrows m * ncols m)) as [Hk|Hk]; cbn [andb] in *.
    - assert (Hq : k / ncols m < nrows m) by (apply Nat.div_lt_upper_bound; nia).
      destruct (Nat.ltb_spec (k / ncols m) (nrows m)); [|lia].
      destruct (Nat.ltb_spec (k mod ncols m) (ncols m)); [|lia]. cbn [andb] in H. exact H.
    - reflexivity.
  Qed.

  Lemma refines_apply_row : forall m i f, Inv m -> refines m (OApplyRow i f).
  Proof.
    intros m i f I. pose proof I as (L & Hr & Hc). unfold refines. cbn [step ref_step].
    rewrite rows_nr. unfold apply_along_row, guard, bind.
    destruct (Nat.ltb_spec i (nrows m)) as [Hi|Hi]; [|reflexivity].
    destruct (Nat.leb_spec ((i + 1) * ncols m) (length (data m))); [|nia].
    cbn [upd_state option_map].
    match goal with |- Inv (mkMat _ _ ?a) /\ _ =>
      destruct (same_shape_update m a (upd (rows m) i (map f (nth i (rows m) [])))) as [I' R']; auto end.
    - apply length_mapi.
    - rewrite length_upd. apply rows_nr.
    - apply Forall_upd; [now apply rows_rect|]. rewrite map_length.
      unfold rows_of_mat. rewrite nth_unflatten by auto. apply length_row_of. nia.
    - intros i' j' Hi' Hj'. pose proof (flat_lt _ _ _ _ Hi' Hj').
      rewrite (nth_mapi _ _ _ d) by lia. rewrite ent_upd_row by (unfold rows_of_mat; rewrite length_unflatten; auto).
      unfold rows_of_mat. rewrite nth_unflatten by auto.
      destruct (Nat.eqb_spec i' i) as [->|Ne].
      + destruct (Nat.leb_spec (i * ncols m) (i * ncols m + j')); [|lia].
        destruct (Nat.ltb_spec (i * ncols m + j') ((i + 1) * ncols m)); [|nia]. cbn [andb].
        rewrite (nth_indep (map f _) d (f d)) by (rewrite map_length, length_row_of; nia).
        rewrite map_nth. now rewrite nth_row_of.
      + assert (((i * ncols m <=? i' * ncols m + j') && (i' * ncols m + j' <? (i + 1) * ncols m)) = false) as ->.
        { apply andb_false_iff. destruct (Nat.lt_ge_cases i' i); [left; apply Nat.leb_gt; nia | right; apply Nat.ltb_ge; nia]. }
        now rewrite ent_unflatten.
    - split; auto. now rewrite R'.
  Qed.

  Lemma refines_apply_col : forall m j f, Inv m -> refines m (OApplyCol j f).
  Proof.
    intros m j f I. pose proof I as (L & Hr & Hc). unfold refines. cbn [step ref_step].
    rewrite rows_nc by auto. unfold apply_along_col, guard, bind.
    destruct (Nat.ltb_spec 0 (ncols m)); [|lia].
    assert (M0 : length (data m) mod ncols m = 0) by (rewrite <- L; apply Nat.mod_mul; lia).
    rewrite M0. cbn [Nat.eqb orb]. rewrite andb_true_r.
    destruct (Nat.eqb_spec (length (data m)) 0); [nia|]. cbn [orb].
    destruct (Nat.ltb_spec j (ncols m)) as [Hj|Hj]; [|reflexivity].
    cbn [upd_state option_map].
    match goal with |- Inv (mkMat _ _ ?a) /\ _ =>
      destruct (same_shape_update m a (map (fun row => upd row j (f (nth j row d))) (rows m))) as [I' R']; auto end.
    - apply length_mapi.
    - rewrite map_length. apply rows_nr.
    - apply Forall_forall. intros r Hin. apply in_map_iff in Hin. destruct Hin as [r0 [<- Hin]].
      rewrite length_upd. pose proof (rows_rect m I) as F. rewrite Forall_forall in F. now apply F.
    - intros i' j' Hi' Hj'. pose proof (flat_lt _ _ _ _ Hi' Hj').
      rewrite (nth_mapi _ _ _ d) by lia. rewrite flat_mod by auto.
      unfold ent. rewrite (nth_map' _ _ _ []) by (unfold rows_of_mat; rewrite length_unflatten; auto).
      unfold rows_of_mat. rewrite nth_unflatten by auto.
      rewrite nth_upd, length_row_of by nia. rewrite !nth_row_of by auto.
      destruct (Nat.eqb_spec j' j) as [->|]; cbn [andb].
      + destruct (Nat.ltb_spec j (ncols m)); [|lia]. reflexivity.
      + reflexivity.
    - split; auto. now rewrite R'.
  Qed.
  (** concatenation and repetition *)
  Lemma want_weak : forall (a : list T) r c r' c',
    want_shape (length a) r c = Some (r', c') -> r' * c' = length a.
  Proof. intros. now apply want_shape_mul in H. Qed.

  Lemma refines_hcat : forall m od r c, Inv m -> refines m (OHcat od r c).
  Proof.
    intros m od r c I. pose proof I as (L & Hr & Hc). unfold refines. cbn [step ref_step].
    rewrite new_want. unfold ref_new.
    destruct (want_shape (length od) r c) as [[r' c']|] eqn:W; cbn [option_map bind fst snd]; [|reflexivity].
    pose proof (want_weak _ _ _ _ _ W) as Lo.
    unfold hcat, guard, bind. cbn [nrows ncols data]. rewrite length_unflatten.
    fold (rnr (rows m)). rewrite rows_nr.
    destruct (Nat.eqb_spec (nrows m) r') as [<-|Ne]; [|reflexivity].
    rewrite in_bounds_inv by auto.
    assert (in_bounds (mkMat (nrows m) c' od) = true) as -> by (unfold in_bounds, size; cbn [nrows ncols data]; apply Nat.leb_le; lia).
    cbn [andb].
    set (piece := fun i => map (fun j => nth (i * ncols m + j) (data m) d) (seq 0 (ncols m))
                           ++ map (fun j => nth (i * c' + j) od d) (seq 0 c')).
    assert (LP : forall i, length (piece i) = ncols m + c').
    { intros. unfold piece. now rewrite app_length, !map_length, !seq_length. }
    rewrite new_exact; [|rewrite (length_flat_map_const _ _ (ncols m + c')), seq_length by (intros; apply LP); reflexivity|auto|lia].
    cbn [upd_state option_map]. split.
    - unfold Inv. cbn [nrows ncols data]. repeat split; auto; [|lia].
      rewrite (length_flat_map_const _ _ (ncols m + c')), seq_length by (intros; apply LP). reflexivity.
    - unfold rows_of_mat. cbn [nrows ncols data].
      rewrite unflatten_flat_map by (intros; apply LP).
      unfold unflatten. rewrite map2_map_seq. do 2 f_equal.
      apply map_ext_in. intros i Hi. apply in_seq in Hi. unfold piece.
      rewrite <- (row_of_as_map d (data m)) by nia. rewrite <- (row_of_as_map d od) by nia. reflexivity.
  Qed.

  Lemma refines_vcat : forall m od r c, Inv m -> refines m (OVcat od r c).
  Proof.
    intros m od r c I. pose proof I as (L & Hr & Hc). unfold refines. cbn [step ref_step].
    rewrite new_want.
    destruct (want_shape (length od) r c) as [[r' c']|] eqn:W; cbn [option_map bind fst snd]; [|reflexivity].
    pose proof (want_weak _ _ _ _ _ W) as Lo.
    unfold vcat, guard, bind. cbn [nrows ncols data]. rewrite rows_nc by auto.
    destruct (Nat.eqb_spec (ncols m) c') as [<-|Ne]; [|reflexivity].
    rewrite <- Nat2Z.inj_add || idtac.
    rewrite new_exact; [|rewrite app_length; nia|lia|auto].
    cbn [upd_state option_map]. split.
    - unfold Inv. cbn [nrows ncols data]. rewrite app_length. repeat split; auto; [nia|lia].
    - unfold rows_of_mat at 2. cbn [nrows ncols data]. rewrite unflatten_app by auto. reflexivity.
  Qed.

  Lemma refines_hrepeat : forall m n, Inv m -> refines m (OHrepeat n).
  Proof.
    intros m n I. pose proof I as (L & Hr & Hc). unfold refines. cbn [step ref_step].
    unfold hrepeat, guard, bind. rewrite in_bounds_inv, orb_true_r by auto.
    destruct n as [|n].
    - rewrite new_zero by lia. reflexivity.
    - set (piece := fun i => concat (repeat (row_of (data m) (ncols m) i) (S n))).
      assert (LP : forall i, i < nrows m -> length (piece i) = ncols m * S n).
      { intros. unfold piece. rewrite concat_repeat_length, length_row_of by nia. reflexivity. }
      assert (LF : length (flat_map piece (seq 0 (nrows m))) = nrows m * (ncols m * S n)).
      { rewrite (length_flat_map_const _ _ (ncols m * S n)), seq_length; auto.
        intros x Hx. apply in_seq in Hx. apply LP. lia. }
      rewrite new_exact by (auto; lia). cbn [upd_state option_map Nat.ltb Nat.leb]. split.
      + unfold Inv. cbn [nrows ncols data]. repeat split; auto. lia.
      + unfold rows_of_mat at 2. cbn [nrows ncols data]. rewrite unflatten_flat_map by auto.
        unfold rows_of_mat, unflatten. rewrite map_map. reflexivity.
  Qed.

  Lemma refines_vrepeat : forall m n, Inv m -> refines m (OVrepeat n).
  Proof.
    intros m n I. pose proof I as (L & Hr & Hc). unfold refines. cbn [step ref_step].
    unfold vrepeat, guard, bind.
    destruct n as [|n].
    - rewrite new_zero by lia. reflexivity.
    - rewrite new_exact; [|rewrite concat_repeat_length; nia|nia|auto].
      cbn [upd_state option_map Nat.ltb Nat.leb]. split.
      + unfold Inv. cbn [nrows ncols data]. rewrite concat_repeat_length. repeat split; auto; nia.
      + unfold rows_of_mat at 2. cbn [nrows ncols data]. rewrite unflatten_repeat by auto. reflexivity.
  Qed.
  (** layout conversions: the write loops of [row_to_col_major] / [col_to_row_major] compute the transpose *)
  Lemma fold_left_ext : forall {A B} (f g : A -> B -> A) l a, (forall x p, f x p = g x p) -> fold_left f l a = fold_left g l a.
  Proof. intros A B f g l. induction l as [|p l IH]; intros a H; simpl; auto. rewrite H. now apply IH. Qed.

  Lemma fold_upd_is : forall {I} (pos : I -> nat) (val : I -> T) (g : nat -> T) ps (a : list T),
    (forall p, In p ps -> val p = g (pos p)) ->
    (forall k, k < length a -> exists p, In p ps /\ pos p = k) ->
    fold_left (fun x p => upd x (pos p) (val p)) ps a = map g (seq 0 (length a)).
  Proof.
    intros I pos val g ps a Hv Hc. apply (nth_ext _ _ d d).
    - now rewrite length_fold_upd, map_length, seq_length.
    - intros k Hk. rewrite length_fold_upd in Hk. rewrite (nth_fold_upd pos val g) by auto.
      rewrite nth_map_seq by auto.
      assert (existsb (fun p => pos p =? k) ps = true) as ->.
      { apply existsb_exists. destruct (Hc k Hk) as (p & Hp & E). exists p. split; auto. now apply Nat.eqb_eq. }
      apply Nat.ltb_lt in Hk. now rewrite Hk.
  Qed.

  Lemma nth_flat_map_const : forall (f : nat -> list T) n c j i,
    (forall x, x < n -> length (f x) = c) -> j < n -> i < c ->
    nth (j * c + i) (flat_map f (seq 0 n)) d = nth i (f j) d.
  Proof.
    intros f n c j i H Hj Hi. rewrite <- (ent_unflatten d _ n c) by auto.
    rewrite unflatten_flat_map by auto. unfold ent. now rewrite (nth_map_seq f n j []).
  Qed.

  Definition tr_entry (a : list T) (nr nc k : nat) : T := nth (k mod nr * nc + k / nr) a d.

  Lemma transpose_as_map : forall (m : mat), Inv m ->
    transpose_flat O (data m) (nrows m) = Some (map (tr_entry (data m) (nrows m) (ncols m)) (seq 0 (length (data m)))).
  Proof.
    intros m I. pose proof I as (L & Hr & Hc). unfold transpose_flat.
    rewrite (is_matrix_inv _ _ (ncols m)) by auto. cbn [bind]. f_equal.
    set (f := fun j => map (fun i => nth (i * ncols m + j) (data m) d) (seq 0 (nrows m))).
    assert (LP : forall x, x < ncols m -> length (f x) = nrows m) by (intros; unfold f; now rewrite map_length, seq_length).
    apply (nth_ext _ _ d d).
    - rewrite (length_flat_map_const _ _ (nrows m)), map_length, !seq_length; [lia|]. intros x Hx. apply in_seq in Hx. apply LP. lia.
    - intros k Hk. rewrite (length_flat_map_const _ _ (nrows m)), seq_length in Hk by (intros x Hx; apply in_seq in Hx; apply LP; lia).
      assert (Hq : k / nrows m < ncols m) by (apply Nat.div_lt_upper_bound; nia).
      assert (Hm : k mod nrows m < nrows m) by (apply Nat.mod_upper_bound; lia).
      rewrite nth_map_seq by nia.
      replace k with (k / nrows m * nrows m + k mod nrows m) at 1 by (rewrite (Nat.div_mod k (nrows m)) at 3 by lia; lia).
      rewrite nth_flat_map_const by auto. unfold f. rewrite nth_map_seq by auto. reflexivity.
  Qed.

  Lemma r2c_eq : forall m : mat, Inv m -> row_to_col_major O (data m) (nrows m) = transpose_flat O (data m) (nrows m).
  Proof.
    intros m I. pose proof I as (L & Hr & Hc). rewrite transpose_as_map by auto. unfold row_to_col_major.
    rewrite (is_matrix_inv _ _ (ncols m)) by auto. cbn [bind]. f_equal.
    rewrite (fold_left_ext _ (fun x (p : nat * nat) => upd x (snd p * nrows m + fst p) (nth (fst p * ncols m + snd p) (data m) d)))
      by (intros x [i j]; reflexivity).
    apply (fold_upd_is (fun p : nat * nat => snd p * nrows m + fst p) (fun p => nth (fst p * ncols m + snd p) (data m) d)).
    - intros [i j] Hp. apply in_prod_iff in Hp. destruct Hp as [Hi Hj]. apply in_seq in Hi, Hj. cbn [fst snd].
      unfold tr_entry. rewrite flat_mod, flat_div by lia. reflexivity.
    - intros k Hk. exists (k mod nrows m, k / nrows m). split.
      + apply in_prod_iff. split; apply in_seq; split; try lia.
        * cbn. apply Nat.mod_upper_bound. lia.
        * cbn. apply Nat.div_lt_upper_bound; nia.
      + cbn [fst snd]. rewrite (Nat.div_mod k (nrows m)) at 3 by lia. lia.
  Qed.

  Lemma c2r_eq : forall m : mat, Inv m -> col_to_row_major O (data m) (ncols m) = transpose_flat O (data m) (nrows m).
  Proof.
    intros m I. pose proof I as (L & Hr & Hc). rewrite transpose_as_map by auto. unfold col_to_row_major.
    rewrite (is_matrix_inv _ _ (nrows m)) by (auto; lia). cbn [bind]. f_equal.
    rewrite (fold_left_ext _ (fun x (p : nat * nat) => upd x (fst p * nrows m + snd p) (nth (snd p * ncols m + fst p) (data m) d)))
      by (intros x [i j]; reflexivity).
    apply (fold_upd_is (fun p : nat * nat => fst p * nrows m + snd p) (fun p => nth (snd p * ncols m + fst p) (data m) d)).
    - intros [i j] Hp. apply in_prod_iff in Hp. destruct Hp as [Hi Hj]. apply in_seq in Hi, Hj. cbn [fst snd].
      unfold tr_entry. rewrite flat_mod, flat_div by lia. reflexivity.
    - intros k Hk. exists (k / nrows m, k mod nrows m). split.
      + apply in_prod_iff. split; apply in_seq; split; try lia.
        * cbn. apply Nat.div_lt_upper_bound; nia.
        * cbn. apply Nat.mod_upper_bound. lia.
      + cbn [fst snd]. rewrite (Nat.div_mod k (nrows m)) at 3 by lia. lia.
  Qed.

  Lemma refines_row_to_col : forall m, Inv m -> refines m ORowToCol.
  Proof.
    intros m I. pose proof (refines_t m I) as H. unfold refines in *. cbn [step ref_step] in *.
    rewrite r2c_eq by auto. exact H.
  Qed.

  Lemma refines_col_to_row : forall m, Inv m -> refines m OColToRow.
  Proof.
    intros m I. pose proof (refines_t m I) as H. unfold refines in *. cbn [step ref_step] in *.
    rewrite c2r_eq by auto. exact H.
  Qed.

  (** ** the single step and the whole run *)
  Theorem step_refines : forall (m : mat) (o : op), Inv m -> refines m o.
  Proof.
    intros m o I. destruct o.
    - now apply refines_t. - now apply refines_t_mut. - now apply refines_reshape. - now apply refines_reshape_mut.
    - now apply refines_hcat. - now apply refines_vcat. - now apply refines_hrepeat. - now apply refines_vrepeat.
    - now apply refines_get_row. - now apply refines_get_col. - now apply refines_apply_row. - now apply refines_apply_col.
    - now apply refines_flat_idx. - now apply refines_flat_set. - now apply refines_idx. - now apply refines_idx_set.
    - now apply refines_row_slice. - now apply refines_diag. - now apply refines_to_vec_reshape.
    - now apply refines_to_vec_to_matrix. - now apply refines_row_to_col. - now apply refines_col_to_row.
  Qed.

  Theorem run_refines : forall (ops : list op) (m : mat), Inv m ->
    match run O m ops with
    | Some (m', outs) => Inv m' /\ ref_run d (rows m) ops = Some (rows m', outs)
    | None => ref_run d (rows m) ops = None
    end.
  Proof.
    induction ops as [|o ops IH]; intros m I.
    - cbn. auto.
    - cbn [run ref_run]. pose proof (step_refines m o I) as S. unfold refines in S.
      destruct (step O m o) as [[m1 out]|]; cbn [bind].
      + destruct S as [I1 ->]. cbn [bind]. specialize (IH m1 I1).
        destruct (run O m1 ops) as [[m2 outs]|]; cbn [bind].
        * destruct IH as [I2 ->]. cbn [bind]. auto.
        * rewrite IH. reflexivity.
      + rewrite S. reflexivity.
  Qed.
End Step.
