(** * C16 — proofs: linear interpolation reproduces knots and honours the out-of-range mode. *)
From Coq Require Import List Arith Bool Reals Lia Lra Psatz.
From Compute Require Import Base.Ops Base.ListMat Model.Interp Spec.Interp.
Import ListNotations.

(** ** The scan, on any carrier: no law of the comparison is used *)
Section Generic.
  Context {T : Type} (O : Ops T).

  Lemma scan_le : forall xs m t, scan O xs m t <= m.
  Proof.
    intros xs m; revert xs; induction m as [|m IH]; intros [|xj xs] t; cbn [scan]; try lia.
    destruct (ltb O t xj); [lia|]. specialize (IH xs t); lia.
  Qed.

  (** every abscissa before the stopping index failed the test [x[j] > t] *)
  Lemma scan_prefix : forall xs m t i,
      i < scan O xs m t -> ltb O t (nth i xs (zero O)) = false.
  Proof.
    intros xs m; revert xs; induction m as [|m IH]; intros [|xj xs] t i; cbn [scan]; try lia.
    destruct (ltb O t xj) eqn:E; [lia|]. intros Hi.
    destruct i as [|i]; cbn [nth]; [exact E|]. apply IH; lia.
  Qed.

  (** if the scan stopped before its bound, it stopped on an abscissa that passed the test *)
  Lemma scan_stop : forall xs m t,
      m <= length xs -> scan O xs m t < m ->
      ltb O t (nth (scan O xs m t) xs (zero O)) = true.
  Proof.
    intros xs m; revert xs; induction m as [|m IH]; intros [|xj xs] t; cbn [scan length]; try lia.
    intros Hm. destruct (ltb O t xj) eqn:E; cbn [nth]; [auto|].
    intros Hk. apply IH; lia.
  Qed.

  Lemma mapM_some : forall {A B} (f : A -> option B) l r,
      mapM f l = Some r -> Forall2 (fun a b => f a = Some b) l r.
  Proof.
    intros A B f l; induction l as [|a l IH]; intros r; cbn [mapM].
    - intros H; injection H as <-; constructor.
    - destruct (f a) as [b|] eqn:Ea; cbn [bind]; [|discriminate].
      destruct (mapM f l) as [r'|] eqn:Er; cbn [bind]; [|discriminate].
      intros H; injection H as <-. constructor; auto.
  Qed.

  Lemma mapM_none : forall {A B} (f : A -> option B) l,
      mapM f l = None -> exists a, In a l /\ f a = None.
  Proof.
    intros A B f l; induction l as [|a l IH]; cbn [mapM]; [discriminate|].
    destruct (f a) as [b|] eqn:Ea; cbn [bind].
    - destruct (mapM f l) as [r'|] eqn:Er; cbn [bind]; [discriminate|].
      intros _. destruct (IH eq_refl) as [a' [Hin Hf]]. exists a'; split; [right|]; auto.
    - intros _. exists a; split; [left|]; auto.
  Qed.

  Lemma mapM_all_some : forall {A B} (f : A -> option B) l,
      (forall a, In a l -> f a <> None) -> exists r, mapM f l = Some r.
  Proof.
    intros A B f l H. destruct (mapM f l) as [r|] eqn:E; [eauto|].
    destruct (mapM_none _ _ E) as [a [Hin Hf]]. exfalso; eapply H; eauto.
  Qed.

  Lemma mapM_of_Forall2 : forall {A B} (f : A -> option B) l r,
      Forall2 (fun a b => f a = Some b) l r -> mapM f l = Some r.
  Proof.
    intros A B f l r H; induction H as [|a b l r Hab _ IH]; cbn [mapM]; [reflexivity|].
    rewrite Hab; cbn [bind]. rewrite IH; reflexivity.
  Qed.

  Lemma Forall2_of_nth : forall {A B} (P : A -> B -> Prop) (da : A) (db : B) l r,
      length l = length r -> (forall j, j < length l -> P (nth j l da) (nth j r db)) -> Forall2 P l r.
  Proof.
    intros A B P da db l; induction l as [|a l IH]; intros [|b r] Hlen H; cbn [length] in *;
      try discriminate; constructor.
    - apply (H 0); lia.
    - apply IH; [lia|]. intros j Hj. apply (H (S j)); lia.
  Qed.

  Lemma Forall2_nth_both : forall {A B} (P : A -> B -> Prop) (da : A) (db : B) l r,
      Forall2 P l r -> forall j, j < length l -> P (nth j l da) (nth j r db).
  Proof.
    intros A B P da db l r H; induction H as [|a b l r Hab _ IH]; intros j Hj; cbn [length] in Hj; [lia|].
    destruct j as [|j]; cbn [nth]; [exact Hab | apply IH; lia].
  Qed.

  Lemma interp1_unfold : forall x y n m t,
      1 <= n ->
      interp1 O x y n m t =
      if (scan O x (n - 1) t =? 0) || ltb O (nth (n - 1) x (zero O)) t then
        match m with
        | MPanic => None
        | MFill l r => Some (if scan O x (n - 1) t =? 0 then l else r)
        | MExtrap =>
            if scan O x (n - 1) t =? 0 then (if 2 <=? n then Some (extrap_left O x y t) else None)
            else Some (extrap_right O x y n t)
        end
      else Some (segment_value O x y (scan O x (n - 1) t) t).
  Proof. intros x y [|n] m t H; [lia | reflexivity]. Qed.

  (** the mode dispatch on any carrier (so bit for bit on binary64, NaN and infinities included):
      only the two comparisons [x[0] > t] and [t > x[n-1]] decide *)
  Lemma below_range_any_carrier : forall x y n m t,
      2 <= n -> ltb O t (nth 0 x (zero O)) = true ->
      interp1 O x y n m t =
      match m with
      | MPanic => None
      | MFill l r => Some l
      | MExtrap => Some (extrap_left O x y t)
      end.
  Proof.
    intros x y n m t Hn Hlt. rewrite interp1_unfold by lia.
    assert (E : scan O x (n - 1) t = 0).
    { destruct n as [|[|n]]; try lia. cbn [Nat.sub]. destruct x as [|x0 xs]; [reflexivity|].
      cbn [nth] in Hlt. cbn [scan]. rewrite Hlt. reflexivity. }
    rewrite E. cbn [Nat.eqb orb]. destruct m; auto.
    replace (2 <=? n) with true by (symmetry; apply Nat.leb_le; lia). reflexivity.
  Qed.

  Lemma above_range_any_carrier : forall x y n m t,
      2 <= n -> x <> [] -> ltb O t (nth 0 x (zero O)) = false ->
      ltb O (nth (n - 1) x (zero O)) t = true ->
      interp1 O x y n m t =
      match m with
      | MPanic => None
      | MFill l r => Some r
      | MExtrap => Some (extrap_right O x y n t)
      end.
  Proof.
    intros x y n m t Hn Hx Hlo Hhi. rewrite interp1_unfold by lia.
    assert (E : exists k, scan O x (n - 1) t = S k).
    { destruct n as [|[|n]]; try lia. cbn [Nat.sub]. destruct x as [|x0 xs]; [congruence|].
      cbn [nth] in Hlo. cbn [scan]. rewrite Hlo. eauto. }
    destruct E as [k E]. rewrite E, Hhi. cbn [Nat.eqb orb]. destruct m; reflexivity.
  Qed.

  (** the sortedness loop of the checked variant, on any carrier: one adjacent pair with
      [x[i+1] - x[i] < 0] is enough to panic *)
  Lemma ascending_false_any_carrier : forall x,
      (exists i, S i < length x /\
                 ltb O (sub O (nth (S i) x (zero O)) (nth i x (zero O))) (zero O) = true) ->
      ascending O x = false.
  Proof.
    intros x [i [Hi Hd]]. revert x Hi Hd.
    induction i as [|i IH]; intros [|a [|b tl]] Hi Hd; cbn [length] in Hi; try lia.
    - cbn [nth] in Hd. change (ascending O (a :: b :: tl)) with
        (negb (ltb O (sub O b a) (zero O)) && ascending O (b :: tl)). rewrite Hd. reflexivity.
    - change (ascending O (a :: b :: tl)) with
        (negb (ltb O (sub O b a) (zero O)) && ascending O (b :: tl)).
      rewrite (IH (b :: tl)); [apply andb_false_r | cbn [length]; lia | exact Hd].
  Qed.

  Lemma checked_rejects_any_carrier : forall x y tgt m,
      (exists i, S i < length x /\
                 ltb O (sub O (nth (S i) x (zero O)) (nth i x (zero O))) (zero O) = true) ->
      interp_checked O x y tgt m = None.
  Proof.
    intros x y tgt m H. unfold interp_checked. rewrite (ascending_false_any_carrier x H).
    destruct (length x =? length y); auto. destruct x; auto.
  Qed.

  (** both variants start with [assert_eq!(x.len(), y.len())] *)
  Lemma rejects_length_mismatch : forall (x y tgt : list T) (m : mode T),
      length x <> length y ->
      interp_unchecked O x y tgt m = None /\ interp_checked O x y tgt m = None.
  Proof.
    intros x y tgt m H. unfold interp_unchecked, interp_checked.
    apply Nat.eqb_neq in H. rewrite H. auto.
  Qed.

  (** the unchecked routine is the per-target function mapped over the targets; it panics exactly
      when some target does *)
  Lemma unchecked_pointwise : forall (x y tgt : list T) (m : mode T),
      length x = length y ->
      match interp_unchecked O x y tgt m with
      | Some r => Forall2 (fun t v => interp1 O x y (length x) m t = Some v) tgt r
      | None => exists t, In t tgt /\ interp1 O x y (length x) m t = None
      end.
  Proof.
    intros x y tgt m H. unfold interp_unchecked. apply Nat.eqb_eq in H. rewrite H.
    destruct (mapM _ tgt) as [r|] eqn:E; [apply mapM_some|apply mapM_none]; exact E.
  Qed.
End Generic.

(** ** On the reals *)
Local Open Scope R_scope.

Lemma Rltb_true : forall a b, Rltb a b = true <-> a < b.
Proof. intros a b; unfold Rltb; destruct (Rlt_dec a b); split; intros; auto; discriminate. Qed.
Lemma Rltb_false : forall a b, Rltb a b = false <-> b <= a.
Proof.
  intros a b; unfold Rltb; destruct (Rlt_dec a b); split; intros; auto; try discriminate; lra.
Qed.

Lemma increasing_le : forall x i j,
    increasing x -> (i <= j < length x)%nat -> nth i x 0 <= nth j x 0.
Proof.
  intros x i j H Hij. destruct (Nat.eq_dec i j) as [->|]; [lra|].
  left; apply H; lia.
Qed.

Lemma increasing_inv_lt : forall x i j,
    increasing x -> (i < length x)%nat -> (j < length x)%nat -> nth i x 0 < nth j x 0 -> (i < j)%nat.
Proof.
  intros x i j H Hi Hj Hlt. destruct (lt_dec i j); [auto|].
  assert (nth j x 0 <= nth i x 0) by (apply increasing_le; auto; lia). lra.
Qed.

(** *** what the scan returns on strictly increasing abscissae *)
Lemma scan_zero_iff : forall x t,
    (2 <= length x)%nat ->
    (scan RO x (length x - 1) t = 0%nat <-> t < nth 0 x 0).
Proof.
  intros x t Hn. split.
  - intros E. pose proof (scan_stop RO x (length x - 1) t ltac:(lia)) as S.
    rewrite E in S. apply Rltb_true. apply S. lia.
  - intros Hlt. destruct (scan RO x (length x - 1) t) as [|k] eqn:E; [auto|].
    pose proof (scan_prefix RO x (length x - 1) t 0 ltac:(lia)) as P.
    apply Rltb_false in P. change (zero RO) with 0 in P. lra.
Qed.

Lemma scan_bracket : forall x t k,
    (2 <= length x)%nat ->
    scan RO x (length x - 1) t = S k ->
    (S k <= length x - 1)%nat /\ nth k x 0 <= t /\ ((S k < length x - 1)%nat -> t < nth (S k) x 0).
Proof.
  intros x t k Hn E. pose proof (scan_le RO x (length x - 1) t) as L. rewrite E in L.
  split; [auto|]. split.
  - pose proof (scan_prefix RO x (length x - 1) t k ltac:(lia)) as P.
    apply Rltb_false in P. exact P.
  - intros Hk. pose proof (scan_stop RO x (length x - 1) t ltac:(lia) ltac:(lia)) as S.
    rewrite E in S. apply Rltb_true in S. exact S.
Qed.

(** *** the formula *)
Lemma segment_value_line : forall x y k t,
    nth k x 0 <> nth (S k) x 0 ->
    segment_value RO x y (S k) t = line (nth k x 0) (nth k y 0) (nth (S k) x 0) (nth (S k) y 0) t.
Proof.
  intros x y k t Hne. unfold segment_value, line.
  replace (S k - 1)%nat with k by lia.
  cbn [add sub mul div one zero RO]. field. lra.
Qed.

Lemma line_left : forall x0 y0 x1 y1, line x0 y0 x1 y1 x0 = y0.
Proof. intros; unfold line. unfold Rdiv. replace (x0 - x0) with 0 by ring. ring. Qed.
Lemma line_right : forall x0 y0 x1 y1, x0 <> x1 -> line x0 y0 x1 y1 x1 = y1.
Proof. intros; unfold line. field. lra. Qed.

Lemma line_between : forall x0 y0 x1 y1 t,
    x0 < x1 -> x0 <= t <= x1 -> between y0 y1 (line x0 y0 x1 y1 t).
Proof.
  intros x0 y0 x1 y1 t Hx Ht. unfold line, between.
  set (r := (t - x0) / (x1 - x0)).
  assert (0 <= r).
  { unfold r, Rdiv. apply Rmult_le_pos; [lra | left; apply Rinv_0_lt_compat; lra]. }
  assert (r <= 1).
  { apply (Rmult_le_reg_r (x1 - x0)); [lra|]. unfold r, Rdiv.
    rewrite Rmult_assoc, Rinv_l by lra. lra. }
  unfold Rmin, Rmax; destruct (Rle_dec y0 y1); split; nra.
Qed.

Lemma extrap_left_line : forall x y t,
    nth 0 x 0 <> nth 1 x 0 ->
    extrap_left RO x y t = line (nth 0 x 0) (nth 0 y 0) (nth 1 x 0) (nth 1 y 0) t.
Proof.
  intros x y t Hne. unfold extrap_left, line. cbn [add sub mul div neg one zero RO]. field. lra.
Qed.

Lemma extrap_right_line : forall x y n t,
    nth (n - 2) x 0 <> nth (n - 1) x 0 ->
    extrap_right RO x y n t =
    line (nth (n - 2) x 0) (nth (n - 2) y 0) (nth (n - 1) x 0) (nth (n - 1) y 0) t.
Proof.
  intros x y n t Hne. unfold extrap_right, line. cbn [add sub mul div neg one zero RO]. field. lra.
Qed.

(** two segments that both contain t give the same chord value (they coincide or share the knot t) *)
Lemma line_unique : forall x y j k t,
    increasing x -> (S j < length x)%nat -> (S k < length x)%nat ->
    nth j x 0 <= t <= nth (S j) x 0 -> nth k x 0 <= t <= nth (S k) x 0 ->
    line (nth k x 0) (nth k y 0) (nth (S k) x 0) (nth (S k) y 0) t =
    line (nth j x 0) (nth j y 0) (nth (S j) x 0) (nth (S j) y 0) t.
Proof.
  intros x y j k t Hinc Hj Hk Htj Htk.
  assert (Hjj : nth j x 0 < nth (S j) x 0) by (apply Hinc; lia).
  assert (Hkk : nth k x 0 < nth (S k) x 0) by (apply Hinc; lia).
  destruct (lt_eq_lt_dec k j) as [[Hlt| ->]|Hgt]; [| reflexivity |].
  - (* S k <= j: t = x_(S k) = x_j *)
    assert (nth (S k) x 0 <= nth j x 0) by (apply increasing_le; auto; lia).
    assert (Et : t = nth j x 0) by lra.
    assert (Ek : nth (S k) x 0 = nth j x 0) by lra.
    assert (S k = j).
    { destruct (Nat.eq_dec (S k) j); [auto|].
      assert (nth (S k) x 0 < nth j x 0) by (apply Hinc; lia). lra. }
    subst j. rewrite Et at 2. rewrite line_left. rewrite Et. rewrite line_right by lra. reflexivity.
  - (* S j <= k: t = x_(S j) = x_k *)
    assert (nth (S j) x 0 <= nth k x 0) by (apply increasing_le; auto; lia).
    assert (Et : t = nth k x 0) by lra.
    assert (Ek : nth (S j) x 0 = nth k x 0) by lra.
    assert (S j = k).
    { destruct (Nat.eq_dec (S j) k); [auto|].
      assert (nth (S j) x 0 < nth k x 0) by (apply Hinc; lia). lra. }
    subst k. rewrite Et at 1. rewrite line_left. rewrite Et. rewrite line_right by lra. reflexivity.
Qed.

(** *** in range: the scan brackets the target and the formula is the chord *)
Lemma interp1_in_range : forall x y m t,
    increasing x -> (2 <= length x)%nat ->
    nth 0 x 0 <= t <= nth (length x - 1) x 0 ->
    exists k, (S k < length x)%nat /\ nth k x 0 <= t <= nth (S k) x 0 /\
              interp1 RO x y (length x) m t =
              Some (line (nth k x 0) (nth k y 0) (nth (S k) x 0) (nth (S k) y 0) t).
Proof.
  intros x y m t Hinc Hn [Hlo Hhi].
  destruct (scan RO x (length x - 1) t) as [|k] eqn:E.
  { apply scan_zero_iff in E; auto. lra. }
  destruct (scan_bracket x t k Hn E) as [Hk [Hkl Hkr]].
  exists k. split; [lia|]. split.
  { split; [auto|]. destruct (Nat.eq_dec (S k) (length x - 1)) as [->|]; [auto|]. left; apply Hkr; lia. }
  rewrite interp1_unfold by lia. rewrite E.
  cbn [Nat.eqb orb ltb RO].
  replace (Rltb (nth (length x - 1) x (zero RO)) t) with false
    by (symmetry; apply Rltb_false; exact Hhi).
  f_equal. apply segment_value_line.
  assert (nth k x 0 < nth (S k) x 0) by (apply Hinc; lia). lra.
Qed.

Lemma interp_inside : forall x y m j t,
    increasing x -> (2 <= length x)%nat -> (S j < length x)%nat ->
    nth j x 0 <= t <= nth (S j) x 0 ->
    interp1 RO x y (length x) m t =
      Some (line (nth j x 0) (nth j y 0) (nth (S j) x 0) (nth (S j) y 0) t) /\
    between (nth j y 0) (nth (S j) y 0)
            (line (nth j x 0) (nth j y 0) (nth (S j) x 0) (nth (S j) y 0) t).
Proof.
  intros x y m j t Hinc Hn Hj Ht. split.
  - assert (nth 0 x 0 <= nth j x 0) by (apply increasing_le; auto; lia).
    assert (nth (S j) x 0 <= nth (length x - 1) x 0) by (apply increasing_le; auto; lia).
    destruct (interp1_in_range x y m t Hinc Hn ltac:(lra)) as [k [Hk [Htk Ev]]].
    rewrite Ev. f_equal. apply line_unique; auto.
  - apply line_between; [apply Hinc; lia | exact Ht].
Qed.

Lemma interp_at_knot : forall x y m j,
    increasing x -> (2 <= length x)%nat -> (j < length x)%nat ->
    interp1 RO x y (length x) m (nth j x 0) = Some (nth j y 0).
Proof.
  intros x y m j Hinc Hn Hj.
  destruct (Nat.eq_dec (S j) (length x)) as [Elast|Hne].
  - (* last knot: right end of segment j-1 *)
    destruct j as [|j']; [lia|].
    assert (nth j' x 0 < nth (S j') x 0) by (apply Hinc; lia).
    destruct (interp_inside x y m j' (nth (S j') x 0) Hinc Hn ltac:(lia) ltac:(lra)) as [Ev _].
    rewrite Ev. f_equal. apply line_right. lra.
  - assert (nth j x 0 < nth (S j) x 0) by (apply Hinc; lia).
    destruct (interp_inside x y m j (nth j x 0) Hinc Hn ltac:(lia) ltac:(lra)) as [Ev _].
    rewrite Ev. f_equal. apply line_left.
Qed.

(** *** below the range *)
Lemma interp1_below : forall x y m t,
    (2 <= length x)%nat -> t < nth 0 x 0 ->
    interp1 RO x y (length x) m t =
    match m with
    | MPanic => None
    | MFill l r => Some l
    | MExtrap => Some (extrap_left RO x y t)
    end.
Proof.
  intros x y m t Hn Hlt. pose proof (proj2 (scan_zero_iff x t Hn) Hlt) as E.
  rewrite interp1_unfold by lia. rewrite E.
  cbn [Nat.eqb orb]. destruct m; auto.
  replace (2 <=? length x)%nat with true by (symmetry; apply Nat.leb_le; lia). reflexivity.
Qed.

Lemma below_range_panic : forall x y t,
    (2 <= length x)%nat -> t < nth 0 x 0 -> interp1 RO x y (length x) MPanic t = None.
Proof. intros; rewrite interp1_below; auto. Qed.

Lemma below_range_fill : forall x y l r t,
    (2 <= length x)%nat -> t < nth 0 x 0 -> interp1 RO x y (length x) (MFill l r) t = Some l.
Proof. intros; rewrite interp1_below; auto. Qed.

Lemma below_range_extrapolate : forall x y t,
    increasing x -> (2 <= length x)%nat -> t < nth 0 x 0 ->
    interp1 RO x y (length x) MExtrap t =
    Some (line (nth 0 x 0) (nth 0 y 0) (nth 1 x 0) (nth 1 y 0) t).
Proof.
  intros x y t Hinc Hn Hlt. rewrite interp1_below; auto. f_equal. apply extrap_left_line.
  assert (nth 0 x 0 < nth 1 x 0) by (apply Hinc; lia). lra.
Qed.

(** *** above the range *)
Lemma interp1_above : forall x y m t,
    increasing x -> (2 <= length x)%nat -> nth (length x - 1) x 0 < t ->
    interp1 RO x y (length x) m t =
    match m with
    | MPanic => None
    | MFill l r => Some r
    | MExtrap => Some (extrap_right RO x y (length x) t)
    end.
Proof.
  intros x y m t Hinc Hn Hgt.
  assert (nth 0 x 0 <= nth (length x - 1) x 0) by (apply increasing_le; auto; lia).
  destruct (scan RO x (length x - 1) t) as [|k] eqn:E.
  { apply scan_zero_iff in E; auto. lra. }
  rewrite interp1_unfold by lia. rewrite E.
  cbn [Nat.eqb orb ltb RO].
  replace (Rltb (nth (length x - 1) x (zero RO)) t) with true
    by (symmetry; apply Rltb_true; exact Hgt).
  destruct m; reflexivity.
Qed.

Lemma above_range_panic : forall x y t,
    increasing x -> (2 <= length x)%nat -> nth (length x - 1) x 0 < t ->
    interp1 RO x y (length x) MPanic t = None.
Proof. intros; rewrite interp1_above; auto. Qed.

Lemma above_range_fill : forall x y l r t,
    increasing x -> (2 <= length x)%nat -> nth (length x - 1) x 0 < t ->
    interp1 RO x y (length x) (MFill l r) t = Some r.
Proof. intros; rewrite interp1_above; auto. Qed.

Lemma above_range_extrapolate : forall x y t,
    increasing x -> (2 <= length x)%nat -> nth (length x - 1) x 0 < t ->
    interp1 RO x y (length x) MExtrap t =
    Some (line (nth (length x - 2) x 0) (nth (length x - 2) y 0)
               (nth (length x - 1) x 0) (nth (length x - 1) y 0) t).
Proof.
  intros x y t Hinc Hn Hgt. rewrite interp1_above; auto. f_equal. apply extrap_right_line.
  assert (nth (length x - 2) x 0 < nth (length x - 1) x 0) by (apply Hinc; lia). lra.
Qed.

(** *** the per-target function meets the specification at every target *)
Lemma interp1_meets_spec : forall x y m t,
    increasing x -> (2 <= length x)%nat ->
    interp_spec x y m t (interp1 RO x y (length x) m t).
Proof.
  intros x y m t Hinc Hn.
  destruct (Rlt_le_dec t (nth 0 x 0)) as [Hlo|Hlo].
  { destruct m as [|l r|].
    - rewrite below_range_panic; auto. apply IS_below_panic; auto.
    - rewrite below_range_fill; auto. eapply IS_below_fill; eauto.
    - rewrite below_range_extrapolate; auto. apply IS_below_extrap; auto. }
  destruct (Rlt_le_dec (nth (length x - 1) x 0) t) as [Hhi|Hhi].
  { destruct m as [|l r|].
    - rewrite above_range_panic; auto. apply IS_above_panic; auto.
    - rewrite above_range_fill; auto. eapply IS_above_fill; eauto.
    - rewrite above_range_extrapolate; auto. apply IS_above_extrap; auto. }
  destruct (interp1_in_range x y m t Hinc Hn ltac:(lra)) as [k [Hk [Htk Ev]]].
  rewrite Ev. apply IS_inside; auto.
Qed.

(** the specification determines the result: at most one outcome per target *)
Lemma interp_spec_functional : forall x y m t r1 r2,
    increasing x -> (2 <= length x)%nat ->
    interp_spec x y m t r1 -> interp_spec x y m t r2 -> r1 = r2.
Proof.
  intros x y m t r1 r2 Hinc Hn H1 H2.
  assert (B : forall j, (S j < length x)%nat -> nth j x 0 <= t <= nth (S j) x 0 ->
                        nth 0 x 0 <= t <= nth (length x - 1) x 0).
  { intros j Hj Ht.
    assert (nth 0 x 0 <= nth j x 0) by (apply increasing_le; auto; lia).
    assert (nth (S j) x 0 <= nth (length x - 1) x 0) by (apply increasing_le; auto; lia). lra. }
  assert (nth 0 x 0 <= nth (length x - 1) x 0) by (apply increasing_le; auto; lia).
  destruct H1 as [j Hj Htj| | | | | | ]; destruct H2 as [k Hk Htk| | | | | | ];
    try (pose proof (B _ Hj Htj)); try (pose proof (B _ Hk Htk));
    try lra; try congruence.
  f_equal. apply line_unique; auto.
Qed.

(** *** the checked variant *)
Lemma ascending_cons2 : forall {T} (O : Ops T) a b tl,
    ascending O (a :: b :: tl) = negb (ltb O (sub O b a) (zero O)) && ascending O (b :: tl).
Proof. reflexivity. Qed.

Lemma ascending_descent : forall x,
    has_descent x -> ascending RO x = false.
Proof.
  intros x [i [Hi Hd]]. revert x Hi Hd.
  induction i as [|i IH]; intros [|a [|b tl]] Hi Hd; cbn [length] in Hi; try lia.
  - cbn [nth] in Hd. rewrite ascending_cons2. cbn [ltb sub zero RO].
    replace (Rltb (b - a) 0) with true by (symmetry; apply Rltb_true; lra). reflexivity.
  - rewrite ascending_cons2. rewrite (IH (b :: tl)); [apply andb_false_r| cbn [length]; lia | exact Hd].
Qed.

Lemma ascending_nondecreasing : forall x,
    (forall i, (S i < length x)%nat -> nth i x 0 <= nth (S i) x 0) -> ascending RO x = true.
Proof.
  induction x as [|a [|b tl] IH]; intros H; auto.
  rewrite ascending_cons2. cbn [ltb sub zero RO].
  pose proof (H 0%nat ltac:(cbn [length]; lia)) as H0. cbn [nth] in H0.
  replace (Rltb (b - a) 0) with false by (symmetry; apply Rltb_false; lra).
  cbn [negb andb]. apply IH. intros i Hi. apply (H (S i)). cbn [length] in *; lia.
Qed.

Lemma checked_rejects_unsorted : forall x y tgt m,
    has_descent x -> interp_checked RO x y tgt m = None.
Proof.
  intros x y tgt m H. unfold interp_checked. rewrite (ascending_descent x H).
  destruct (length x =? length y)%nat; auto. destruct x; auto.
Qed.

Lemma checked_accepts_sorted : forall x y tgt m,
    increasing x -> (1 <= length x)%nat ->
    interp_checked RO x y tgt m = interp_unchecked RO x y tgt m.
Proof.
  intros x y tgt m Hinc Hn. unfold interp_checked.
  rewrite ascending_nondecreasing by (intros i Hi; left; apply Hinc; lia).
  unfold interp_unchecked. destruct (length x =? length y)%nat; auto.
  destruct x; [cbn [length] in Hn; lia | auto].
Qed.

(** *** the whole call *)
Lemma Forall2_len : forall {A B} (P : A -> B -> Prop) l r, Forall2 P l r -> length l = length r.
Proof. intros A B P l r H; induction H; cbn [length]; auto. Qed.

Lemma unchecked_meets_spec : forall x y tgt m,
    increasing x -> (2 <= length x)%nat -> length y = length x ->
    match interp_unchecked RO x y tgt m with
    | Some r => Forall2 (fun t v => interp_spec x y m t (Some v)) tgt r
    | None => exists t, In t tgt /\ interp_spec x y m t None
    end.
Proof.
  intros x y tgt m Hinc Hn Hy.
  pose proof (unchecked_pointwise RO x y tgt m (eq_sym Hy)) as P.
  destruct (interp_unchecked RO x y tgt m) as [r|].
  - induction P as [|t v tgt' r' Hv _ IH]; constructor; auto.
    rewrite <- Hv. apply interp1_meets_spec; auto.
  - destruct P as [t [Hin Ht]]. exists t; split; auto.
    rewrite <- Ht. apply interp1_meets_spec; auto.
Qed.

(** the call returns (one value per target) unless the mode is Panic and a target is out of range *)
Lemma unchecked_returns : forall x y tgt m,
    increasing x -> (2 <= length x)%nat -> length y = length x ->
    (m = MPanic -> forall t, In t tgt -> nth 0 x 0 <= t <= nth (length x - 1) x 0) ->
    exists r, interp_unchecked RO x y tgt m = Some r /\ length r = length tgt.
Proof.
  intros x y tgt m Hinc Hn Hy Hm.
  pose proof (unchecked_meets_spec x y tgt m Hinc Hn Hy) as P.
  destruct (interp_unchecked RO x y tgt m) as [r|].
  - exists r; split; auto. symmetry; eapply Forall2_len; eauto.
  - exfalso. destruct P as [t [Hin Ht]].
    assert (nth 0 x 0 <= nth (length x - 1) x 0) by (apply increasing_le; auto; lia).
    inversion Ht; subst; try discriminate.
    + pose proof (Hm eq_refl t Hin). lra.
    + pose proof (Hm eq_refl t Hin). lra.
Qed.

Lemma unchecked_panics : forall x y tgt t,
    increasing x -> (2 <= length x)%nat ->
    In t tgt -> (t < nth 0 x 0 \/ nth (length x - 1) x 0 < t) ->
    interp_unchecked RO x y tgt MPanic = None.
Proof.
  intros x y tgt t Hinc Hn Hin Hout. unfold interp_unchecked.
  destruct (length x =? length y)%nat; auto.
  assert (E : interp1 RO x y (length x) MPanic t = None).
  { destruct Hout; [apply below_range_panic | apply above_range_panic]; auto. }
  induction tgt as [|a tgt IH]; [destruct Hin|].
  cbn [mapM]. destruct Hin as [->|Hin].
  - rewrite E. reflexivity.
  - destruct (interp1 RO x y (length x) MPanic a); cbn [bind]; auto.
    rewrite IH; auto.
Qed.

(** interpolating at the knots themselves returns the ordinates, in every mode *)
Lemma knots_roundtrip : forall x y m,
    increasing x -> (2 <= length x)%nat -> length y = length x ->
    interp_unchecked RO x y x m = Some y.
Proof.
  intros x y m Hinc Hn Hy. unfold interp_unchecked.
  replace (length x =? length y)%nat with true by (symmetry; apply Nat.eqb_eq; auto).
  apply mapM_of_Forall2. apply (Forall2_of_nth _ 0 0); [auto|].
  intros j Hj. apply interp_at_knot; auto.
Qed.
