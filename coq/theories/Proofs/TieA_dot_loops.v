(** * Tie A for C05: the models of the [Dot] trait ARE the source.
    [Generated/dot_loops.v] is produced on every run by tools/tiea/dot_loops.py (statement-level translator
    [LoopTranslator] of tools/rsexpr.py) from the macro bodies of src/linalg/array/dot.rs and the small methods they call
    ([Matrix::data], [Matrix::to_vec], [Matrix::t_mut], [Vector::to_matrix], [Vector::data]).  A [Matrix] value of the
    generated text is the triple [(nrows, ncols, data)] with the dimensions in [Z]; the model's is the record [matrix] with
    the dimensions in [nat].  The abstract parameters ([Matrix::new], [matmul], [transpose], [dot], the inner method
    [$innerop] of the promotion wrappers) are instantiated by the models.  No law of the carrier is used. *)
From Coq Require Import List ZArith Arith Bool Lia.
From Compute Require Import Base.Ops Base.ListMat Base.RsExpr Base.RsExprMut Model.Reduce Model.MatMul
  Proofs.RsExprLemmas Generated.dot_loops.
Import ListNotations.

Section DotTie.
  Context {T : Type} (O : Ops T).

  (** a model [matrix] as the generated text sees it, and back *)
  Definition zmat (m : matrix (T := T)) : Z * Z * list T := (Z.of_nat (nr m), Z.of_nat (nc m), dat m).
  Definition unz (t : Z * Z * list T) : matrix (T := T) :=
    let '(r, c, d) := t in {| nr := Z.to_nat r; nc := Z.to_nat c; dat := d |}.
  Definition zfields (m : matrix (T := T)) : list T * Z * Z := (dat m, Z.of_nat (nr m), Z.of_nat (nc m)).
  Lemma unz_zmat : forall m, unz (zmat m) = m.
  Proof. intros [r c d]. unfold unz, zmat. cbn [nr nc dat]. now rewrite !Nat2Z.id. Qed.

  (** the abstract parameters, instantiated by the models *)
  Definition new_z (d : list T) (r c : Z) : option (Z * Z * list T) := option_map zmat (matrix_new d (Z.to_nat r) (Z.to_nat c)).
  Definition matmul_z (a b : list T) (ra rb : Z) (ta tb : bool) : option (list T) := matmul O a b (Z.to_nat ra) (Z.to_nat rb) ta tb.
  Definition transpose_z (a : list T) (r : Z) : option (list T) := transpose O a (Z.to_nat r).
  Definition inner_z (k : dotk) (s o : Z * Z * list T) : option (Z * Z * list T) := option_map zmat (mat_mat_dot O k (unz s) (unz o)).

  Theorem tiea_matrix_data : forall (m : matrix (T := T)), src_data O (dat m) (Z.of_nat (nr m)) (Z.of_nat (nc m)) = dat m.
  Proof. reflexivity. Qed.
  Theorem tiea_matrix_to_vec : forall (m : matrix (T := T)), src_to_vec O (dat m) (Z.of_nat (nr m)) (Z.of_nat (nc m)) = dat m.
  Proof. reflexivity. Qed.
  Theorem tiea_vector_data : forall (v : list T), src_vector_data O v = v.
  Proof. reflexivity. Qed.

  Theorem tiea_to_matrix : forall (v : list T), src_to_matrix O new_z v = option_map zmat (to_matrix v).
  Proof.
    intro v. unfold src_to_matrix, to_matrix, new_z, rs_len. cbv zeta. rewrite Nat2Z.id. change (Z.to_nat 1) with 1.
    destruct (matrix_new v 1 (length v)); reflexivity.
  Qed.

  Theorem tiea_t_mut : forall (m : matrix (T := T)),
    src_t_mut O transpose_z (dat m) (Z.of_nat (nr m)) (Z.of_nat (nc m)) = option_map zfields (t_mut O m).
  Proof.
    intro m. unfold src_t_mut, t_mut, transpose_z. rewrite Nat2Z.id. destruct (transpose O (dat m) (nr m)); reflexivity.
  Qed.

  (** Matrix . Matrix: the four methods of [impl_mat_mat_dot] *)
  Ltac mm := intros s o; unfold mat_mat_dot, matmul_z, new_z, zmat; cbn [nr nc dat]; cbv zeta; unfold src_data;
    rewrite Zeqb_of_nat; match goal with |- context [Nat.eqb ?a ?b] => destruct (Nat.eqb a b) end; cbn [guard bind]; [|reflexivity];
    rewrite !Nat2Z.id; match goal with |- context [matmul O ?a ?b ?c ?d ?e ?f] => destruct (matmul O a b c d e f) end; cbn [bind]; [|reflexivity];
    match goal with |- context [matrix_new ?a ?b ?c] => destruct (matrix_new a b c) end; reflexivity.
  Theorem tiea_mat_mat_dot : forall (s o : matrix (T := T)),
    src_mat_mat_dot O new_z matmul_z (dat s) (Z.of_nat (nr s)) (Z.of_nat (nc s)) (zmat o) = option_map zmat (mat_mat_dot O DotNN s o).
  Proof. unfold src_mat_mat_dot. mm. Qed.
  Theorem tiea_mat_mat_t_dot : forall (s o : matrix (T := T)),
    src_mat_mat_t_dot O new_z matmul_z (dat s) (Z.of_nat (nr s)) (Z.of_nat (nc s)) (zmat o) = option_map zmat (mat_mat_dot O DotTN s o).
  Proof. unfold src_mat_mat_t_dot. mm. Qed.
  Theorem tiea_mat_mat_dot_t : forall (s o : matrix (T := T)),
    src_mat_mat_dot_t O new_z matmul_z (dat s) (Z.of_nat (nr s)) (Z.of_nat (nc s)) (zmat o) = option_map zmat (mat_mat_dot O DotNT s o).
  Proof. unfold src_mat_mat_dot_t. mm. Qed.
  Theorem tiea_mat_mat_t_dot_t : forall (s o : matrix (T := T)),
    src_mat_mat_t_dot_t O new_z matmul_z (dat s) (Z.of_nat (nr s)) (Z.of_nat (nc s)) (zmat o) = option_map zmat (mat_mat_dot O DotTT s o).
  Proof. unfold src_mat_mat_t_dot_t. mm. Qed.

  (** Matrix . Vector ([impl_dot_append_one]): the vector becomes a 1 x n matrix, is transposed in place into a column, the
      inner method ([dot] for [dot] / [dot_t], [t_dot] for [t_dot] / [t_dot_t]: the macro invocations of [impl_mat_vec_dot])
      is applied and the data of the result returned *)
  Definition append_inner (k : dotk) : dotk := match k with DotNN | DotNT => DotNN | DotTN | DotTT => DotTN end.
  Theorem tiea_mat_vec_dot : forall (k : dotk) (s : matrix (T := T)) (v : list T),
    src_dot_append_one O new_z transpose_z (inner_z (append_inner k)) (dat s) (Z.of_nat (nr s)) (Z.of_nat (nc s)) v = mat_vec_dot O k s v.
  Proof.
    intros k s v. unfold src_dot_append_one, mat_vec_dot. rewrite tiea_to_matrix.
    destruct (to_matrix v) as [o|]; cbn [option_map bind]; [|reflexivity].
    unfold zmat at 1. rewrite tiea_t_mut. destruct (t_mut O o) as [o'|]; cbn [option_map bind]; [|reflexivity].
    unfold zfields. unfold inner_z. change (Z.of_nat (nr o'), Z.of_nat (nc o'), dat o') with (zmat o').
    change (Z.of_nat (nr s), Z.of_nat (nc s), dat s) with (zmat s). rewrite !unz_zmat.
    fold (append_inner k). destruct (mat_mat_dot O (append_inner k) s o') as [r|]; reflexivity.
  Qed.

  (** Vector . Matrix ([impl_dot_prepend_one]): the vector becomes a 1 x n matrix (a row); inner method [dot] for [dot] /
      [t_dot], [dot_t] for [dot_t] / [t_dot_t] *)
  Definition prepend_inner (k : dotk) : dotk := match k with DotNN | DotTN => DotNN | DotNT | DotTT => DotNT end.
  Theorem tiea_vec_mat_dot : forall (k : dotk) (v : list T) (o : matrix (T := T)),
    src_dot_prepend_one O new_z (inner_z (prepend_inner k)) v (zmat o) = vec_mat_dot O k v o.
  Proof.
    intros k v o. unfold src_dot_prepend_one, vec_mat_dot. unfold zmat at 1. rewrite tiea_to_matrix.
    destruct (to_matrix v) as [s|]; cbn [option_map bind]; [|reflexivity].
    unfold inner_z. change (Z.of_nat (nr o), Z.of_nat (nc o), dat o) with (zmat o). rewrite !unz_zmat.
    fold (prepend_inner k). destruct (mat_mat_dot O (prepend_inner k) s o) as [r|]; reflexivity.
  Qed.

  (** Vector . Vector: all four methods are [dot(&self.data(), &other.data())] *)
  Theorem tiea_vec_vec_dot : forall (k : dotk) (v w : list T), src_dot_vec_vec O (dot O) v w = vec_vec_dot O k v w.
  Proof. intros k v w. unfold src_dot_vec_vec, vec_vec_dot, src_vector_data. destruct (dot O v w); reflexivity. Qed.
End DotTie.
