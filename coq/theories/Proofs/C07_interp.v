(** Proofs for C07, part 10: for strictly increasing abscissae the sampled rule is the Riemann integral of the
    piecewise-linear interpolant over [x_first, x_last] (Chasles over the panels). *)
From Coq Require Import Reals List ZArith QArith Lra Lia Bool.
From Coquelicot Require Import Coquelicot.
From Compute Require Import Base.Ops Base.ListMat Model.Quad Spec.Quad Proofs.C07_base Proofs.C07_samples.
Import ListNotations.
Open Scope R_scope.

Lemma last_default_irrelevant (x1 : R) xs d d' : last (x1 :: xs) d = last (x1 :: xs) d'.
Proof.
  revert x1. induction xs as [|x2 xs IH]; intros x1; [reflexivity|].
  change (last (x1 :: x2 :: xs) d) with (last (x2 :: xs) d).
  change (last (x1 :: x2 :: xs) d') with (last (x2 :: xs) d'). apply IH.
Qed.
Lemma increasing_last_ge x0 xs : increasing (x0 :: xs) -> x0 <= last (x0 :: xs) x0.
Proof.
  revert x0. induction xs as [|x1 xs IH]; intros x0 Hi; [cbn; lra|].
  destruct Hi as [H01 Hi]. specialize (IH x1 Hi).
  change (last (x0 :: x1 :: xs) x0) with (last (x1 :: xs) x0).
  rewrite (last_default_irrelevant x1 xs x0 x1). lra.
Qed.

Lemma interp_is_RInt x0 xs : forall y,
  increasing (x0 :: xs) -> length y = length (x0 :: xs) ->
  is_RInt (interp (x0 :: xs) y) x0 (last (x0 :: xs) x0) (chord_sum (x0 :: xs) y).
Proof.
  revert x0. induction xs as [|x1 xs IH]; intros x0 y Hi Hl.
  - destruct y as [|y0 [|y1 y]]; cbn [length] in Hl; try discriminate.
    cbn [last chord_sum]. apply (@is_RInt_point R_NormedModule).
  - destruct y as [|y0 [|y1 y]]; cbn [length] in Hl; try discriminate.
    destruct Hi as [H01 Hi].
    change (last (x0 :: x1 :: xs) x0) with (last (x1 :: xs) x0).
    rewrite (last_default_irrelevant x1 xs x0 x1).
    pose proof (increasing_last_ge x1 xs Hi) as HL.
    cbn [chord_sum].
    apply (is_RInt_Chasles (interp (x0 :: x1 :: xs) (y0 :: y1 :: y)) x0 x1 (last (x1 :: xs) x1)
                           ((y1 + y0) / 2 * (x1 - x0)) (chord_sum (x1 :: xs) (y1 :: y))).
    + apply (is_RInt_ext (chord x0 y0 x1 y1)); [|apply chord_is_RInt; lra].
      intros t Ht. rewrite Rmin_left, Rmax_right in Ht by lra.
      cbn [interp]. destruct (Rle_dec t x1) as [_|N]; [reflexivity|lra].
    + apply (is_RInt_ext (interp (x1 :: xs) (y1 :: y))); [|apply IH; [exact Hi|cbn [length] in *; lia]].
      intros t Ht. rewrite Rmin_left, Rmax_right in Ht by lra.
      cbn [interp]. destruct (Rle_dec t x1) as [L|_]; [lra|reflexivity].
Qed.

(** the sampled rule = ∫ of the interpolant over [x_first, x_last] *)
Lemma trapezoid_is_RInt_interp x0 xs y :
  increasing (x0 :: xs) -> length y = length (x0 :: xs) ->
  exists v, trapezoid RO y (Some (x0 :: xs)) None = Some v /\
            is_RInt (interp (x0 :: xs) y) x0 (last (x0 :: xs) x0) v.
Proof.
  intros Hi Hl. exists (chord_sum (x0 :: xs) y). split.
  - apply trapezoid_x_accept. exact Hl.
  - apply interp_is_RInt; assumption.
Qed.
(** the interpolant passes through the samples *)
Lemma interp_at_knots x0 x1 xs y0 y1 ys :
  x0 < x1 -> interp (x0 :: x1 :: xs) (y0 :: y1 :: ys) x0 = y0 /\ interp (x0 :: x1 :: xs) (y0 :: y1 :: ys) x1 = y1.
Proof.
  intros H. cbn [interp]. destruct (Rle_dec x0 x1) as [_|N]; [|lra]. destruct (Rle_dec x1 x1) as [_|N]; [|lra].
  unfold chord. split; field; lra.
Qed.
