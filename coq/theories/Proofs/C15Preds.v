(** * C15 — structural predicates answer according to their definition, for every shape. *)
From Coq Require Import List Arith ZArith Bool Lia Reals Lra QArith.
From Compute Require Import Base.Ops Base.ListMat Model.Shape Spec.Shape Proofs.C15Lists Proofs.C15 Proofs.C15Step Proofs.C15Real.
Import ListNotations.
Local Close Scope Q_scope.

Section Preds.
  Context {T : Type} (O : Ops T).
  Local Notation d := (zero O).
  Local Notation mat := (mat T).
  Definition entry (m : mat) (i j : nat) : T := nth (i * ncols m + j) (data m) d.

  Theorem is_square_def : forall m : mat, is_square m = true <-> nrows m = ncols m.
  Proof. intros. unfold is_square. apply Nat.eqb_eq. Qed.

  (** upper triangular: every entry strictly below the diagonal equals zero (any shape, tall ones included) *)
  Theorem is_upper_triangular_def : forall m : mat,
    is_upper_triangular O m = true <->
    forall i j, i < nrows m -> j < ncols m -> j < i -> eqb O (entry m i j) d = true.
  Proof.
    intros m. unfold is_upper_triangular, entry. rewrite forallb_forall. split.
    - intros H i j Hi Hj Hji. specialize (H i ltac:(apply in_seq; lia)). rewrite forallb_forall in H.
      specialize (H j ltac:(apply in_seq; lia)). now rewrite nth_row_of in H.
    - intros H i Hi. apply in_seq in Hi. rewrite forallb_forall. intros j Hj. apply in_seq in Hj.
      rewrite nth_row_of by lia. apply H; lia.
  Qed.

  Theorem is_lower_triangular_def : forall m : mat,
    is_lower_triangular O m = true <->
    forall i j, i < nrows m -> j < ncols m -> i < j -> eqb O (entry m i j) d = true.
  Proof.
    intros m. unfold is_lower_triangular, entry. rewrite forallb_forall. split.
    - intros H i j Hi Hj Hij. specialize (H i ltac:(apply in_seq; lia)). rewrite forallb_forall in H.
      specialize (H j ltac:(apply in_seq; lia)). now rewrite nth_row_of in H.
    - intros H i Hi. apply in_seq in Hi. rewrite forallb_forall. intros j Hj. apply in_seq in Hj.
      rewrite nth_row_of by lia. apply H; lia.
  Qed.

  Theorem is_symmetric_def : forall m : mat,
    is_symmetric O m = true <->
    nrows m = ncols m /\ forall i j, i < nrows m -> j < ncols m -> i <= j -> sym_differ O (entry m i j) (entry m j i) = false.
  Proof.
    intros m. unfold is_symmetric, is_square, entry. destruct (Nat.eqb_spec (nrows m) (ncols m)) as [E|E].
    - rewrite forallb_forall. split.
      + intros H. split; auto. intros i j Hi Hj Hij. specialize (H i ltac:(apply in_seq; lia)). rewrite forallb_forall in H.
        specialize (H j ltac:(apply in_seq; lia)). apply negb_true_iff in H. now rewrite E in H.
      + intros [_ H] i Hi. apply in_seq in Hi. rewrite forallb_forall. intros j Hj. apply in_seq in Hj.
        apply negb_true_iff. replace (j * nrows m + i) with (j * ncols m + i) by (rewrite E; reflexivity). apply H; lia.
    - split; [discriminate|]. intros [C _]. contradiction.
  Qed.

  (** slice utilities *)
  Theorem is_square_u_def : forall len n, is_square_u len = Some n <-> n * n = len.
  Proof.
    intros len n. unfold is_square_u. pose proof (Nat.sqrt_spec len ltac:(lia)) as [L U].
    destruct (Nat.eqb_spec (Nat.sqrt len * Nat.sqrt len) len) as [E|E]; split; intros H.
    - now inversion H; subst.
    - f_equal. subst len. apply Nat.sqrt_square.
    - discriminate.
    - exfalso. apply E. subst len. now rewrite Nat.sqrt_square.
  Qed.

  Theorem is_design_def : forall (a : list T) nr nc, 0 < nr -> 0 < nc -> length a = nr * nc ->
    exists b, is_design O a nr = Some b /\
      (b = true <-> forall i, i < nr -> differ O (nth (i * nc) a d) (one O) = false).
  Proof.
    intros a nr nc Hr Hc L. unfold is_design. rewrite (is_matrix_inv _ _ nc) by auto. cbn [bind guard].
    destruct (Nat.ltb_spec 0 nc) as [Hlt|Hlt]; [|lia]. cbn [bind]. eexists. split; [reflexivity|].
    rewrite forallb_forall. split.
    - intros H i Hi. apply negb_true_iff. apply H. apply in_seq. lia.
    - intros H i Hi. apply in_seq in Hi. apply negb_true_iff. apply H. lia.
  Qed.

  Theorem diag_u_def : forall (a : list T) n, length a = n * n ->
    diag_u O a = Some (map (fun i => nth (i * n + i) a d) (seq 0 n)).
  Proof.
    intros a n L. unfold diag_u. assert (E : is_square_u (length a) = Some n) by now apply is_square_u_def.
    now rewrite E.
  Qed.
End Preds.

(** on the reals: symmetric = square with |a_ij - a_ji| <= 2^-52 * max(|a_ij|, |a_ji|) for ALL i, j *)
Local Open Scope R_scope.
Theorem is_symmetric_R : forall m : mat R,
  is_symmetric RO m = true <->
  nrows m = ncols m /\ forall i j, (i < nrows m)%nat -> (j < ncols m)%nat ->
     Rabs (entry RO m i j - entry RO m j i) <= eps_R * Rmax (Rabs (entry RO m i j)) (Rabs (entry RO m j i)).
Proof.
  intros m. rewrite is_symmetric_def. split; intros [E H]; split; auto.
  - intros i j Hi Hj. destruct (Nat.le_gt_cases i j).
    + apply sym_differ_RO. apply H; auto.
    + rewrite Rabs_minus_sym, Rmax_comm. apply sym_differ_RO. apply H; lia.
  - intros i j Hi Hj Hij. apply sym_differ_RO. apply H; auto.
Qed.

Theorem triangular_R : forall m : mat R,
  (is_upper_triangular RO m = true <-> forall i j, (i < nrows m)%nat -> (j < ncols m)%nat -> (j < i)%nat -> entry RO m i j = 0) /\
  (is_lower_triangular RO m = true <-> forall i j, (i < nrows m)%nat -> (j < ncols m)%nat -> (i < j)%nat -> entry RO m i j = 0).
Proof.
  intros m. rewrite is_upper_triangular_def, is_lower_triangular_def.
  assert (Q : forall x : R, eqb RO x (zero RO) = true <-> x = 0).
  { intros x. cbn [eqb RO zero]. unfold Reqb. destruct (Req_EM_T x 0); split; auto; discriminate. }
  split; split; intros H i j Hi Hj Hij; apply Q; apply H; auto.
Qed.

Example tall_upper : is_upper_triangular QO (mkMat 3 1 [5; 0; 0]%Q) = true /\ is_upper_triangular QO (mkMat 3 1 [5; 0; 1]%Q) = false.
Proof. split; reflexivity. Qed.
