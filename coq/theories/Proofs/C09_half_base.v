(** C09 (extension): the Lanczos [gamma] at the half-integers, where the true value is known in closed form:
        Gamma(n + 1/2)  = (2n)! sqrt(pi) / (4^n n!)                       (n >= 0, direct branch)
        Gamma(-n - 1/2) = (-4)^(n+1) (n+1)! sqrt(pi) / (2n+2)!            (n >= 0, reflection branch).
    This file holds the statements and the bridge to the closed forms in lowest terms, (2n-1)!!/2^n and
    (-2)^(n+1)/(2n+1)!! (a theorem for every n); the proofs are in C09_shift.v (from the functional equation of
    C09_recur.v and one [interval] evaluation at 1/2). *)
From Compute Require Import Proofs.C09_base.
Open Scope R_scope.

(** the statements, in the textbook form *)
Definition half_val (n : nat) : R :=
  IZR (zfact (2 * n)) * R_sqrt.sqrt PI / IZR (4 ^ Z.of_nat n * zfact n).
Definition half_ok (n : nat) : Prop :=
  Rabs (gamma RO (IZR (Z.of_nat n) + 1/2) - half_val n) <= Rabs (half_val n) * 1e-13.
Definition nhalf_val (n : nat) : R :=
  IZR ((-4) ^ Z.of_nat (S n) * zfact (S n)) * R_sqrt.sqrt PI / IZR (zfact (2 * S n)).
Definition nhalf_ok (n : nat) : Prop :=
  Rabs (gamma RO (- IZR (Z.of_nat n) - 1/2) - nhalf_val n) <= Rabs (nhalf_val n) * 1e-13.

(** odd double factorial (2n-1)!! *)
Fixpoint dfo (n : nat) : Z := match n with 0%nat => 1%Z | S k => ((2 * Z.of_nat n - 1) * dfo k)%Z end.

Lemma zfact_pos n : (0 < zfact n)%Z.
Proof. induction n as [|n IH]; [reflexivity|]. cbn [zfact]. apply Z.mul_pos_pos; [lia|exact IH]. Qed.
Lemma dfo_pos n : (0 < dfo n)%Z.
Proof. induction n as [|n IH]; [reflexivity|]. cbn [dfo]. apply Z.mul_pos_pos; [lia|exact IH]. Qed.

Lemma zfact_double n : zfact (2 * n) = (2 ^ Z.of_nat n * zfact n * dfo n)%Z.
Proof.
  induction n as [|n IH]; [reflexivity|].
  replace (2 * S n)%nat with (S (S (2 * n))) by lia.
  change (zfact (S (S (2 * n)))) with (Z.of_nat (S (S (2 * n))) * (Z.of_nat (S (2 * n)) * zfact (2 * n)))%Z.
  change (zfact (S n)) with (Z.of_nat (S n) * zfact n)%Z.
  change (dfo (S n)) with ((2 * Z.of_nat (S n) - 1) * dfo n)%Z.
  rewrite IH, (Nat2Z.inj_succ n), Z.pow_succ_r by lia.
  replace (Z.of_nat (S (S (2 * n)))) with (2 * Z.of_nat n + 2)%Z by lia.
  replace (Z.of_nat (S (2 * n))) with (2 * Z.of_nat n + 1)%Z by lia.
  ring.
Qed.

Lemma half_val_compact n : half_val n = IZR (dfo n) * R_sqrt.sqrt PI / IZR (2 ^ Z.of_nat n).
Proof.
  unfold half_val. rewrite zfact_double.
  replace (4 ^ Z.of_nat n)%Z with (2 ^ Z.of_nat n * 2 ^ Z.of_nat n)%Z
    by (rewrite <- Z.pow_mul_l; reflexivity).
  rewrite !mult_IZR.
  assert (H2 : IZR (2 ^ Z.of_nat n) <> 0) by (apply not_0_IZR; pose proof (Z.pow_pos_nonneg 2 (Z.of_nat n)); lia).
  assert (Hf : IZR (zfact n) <> 0) by (apply not_0_IZR; pose proof (zfact_pos n); lia).
  field. split; assumption.
Qed.

Lemma nhalf_val_compact n : nhalf_val n = IZR ((-2) ^ Z.of_nat (S n)) * R_sqrt.sqrt PI / IZR (dfo (S n)).
Proof.
  unfold nhalf_val. rewrite zfact_double.
  replace ((-4) ^ Z.of_nat (S n))%Z with ((-2) ^ Z.of_nat (S n) * 2 ^ Z.of_nat (S n))%Z
    by (rewrite <- Z.pow_mul_l; reflexivity).
  rewrite !mult_IZR.
  assert (H2 : IZR (2 ^ Z.of_nat (S n)) <> 0) by (apply not_0_IZR; pose proof (Z.pow_pos_nonneg 2 (Z.of_nat (S n))); lia).
  assert (Hf : IZR (zfact (S n)) <> 0) by (apply not_0_IZR; pose proof (zfact_pos (S n)); lia).
  assert (Hd : IZR (dfo (S n)) <> 0) by (apply not_0_IZR; pose proof (dfo_pos (S n)); lia).
  field. repeat split; assumption.
Qed.
