(** Proofs for C05 (extension): rounding error of every entry of [matmul] / [matmul_blocked] on binary64 WITHOUT the
    "no product underflows" hypothesis.  A binary64 product that does not overflow satisfies
    |fl(r) - r| <= 2^-53 |r| + 2^-1075 for every exact product r ([rnd64_gen], Flocq's [error_N_FLT]); additions need no
    absolute term.  Hence for every conformable pair of arrays of doubles, every transpose-flag combination, every entry
    (i,j) whose computed value is finite
        | c_ij - Sigma_k a_ik b_kj |  <=  ((1 + 2^-53)^(l+1) - 1) * Sigma_k |a_ik b_kj|  +  l * 2^-1075 * (1 + 2^-53)^l ,
    and the same for [matmul_blocked] with every block size >= 1, for every array that [is_product] / [is_matvec] /
    [is_vecmat] (every method of the [Dot] trait). *)
From Coq Require Import List Arith Bool ZArith Reals Lra Lia Floats.
From Flocq Require Import Core Relative Plus_error BinarySingleNaN PrimFloat.
From Compute Require Import Base.Ops Base.ListMat Model.Reduce Model.MatMul Spec.Vops Spec.MatMul.
From Compute Require Import Proofs.C04Red Proofs.C04Err Proofs.C04ErrF Proofs.C04ErrDot Proofs.C04ErrEx Proofs.C04ErrGen
  Proofs.C05 Proofs.C05_dot Proofs.C05Err.
Import ListNotations.
Local Open Scope R_scope.

(** ** binary64: the plain fold of rounded products, no underflow hypothesis *)
Theorem sumk_F_error_general (tbl : libm_table) (f g : nat -> pfloat) (l : nat) :
  finite (sumk (FO tbl) (fun k => mul (FO tbl) (f k) (g k)) l) ->
  Rabs (B2Rf (sumk (FO tbl) (fun k => mul (FO tbl) (f k) (g k)) l)
        - sumk RO (fun k => B2Rf (f k) * B2Rf (g k)) l)
  <= ((1 + / 2 ^ 53) ^ S l - 1) * sumk RO (fun k => Rabs (B2Rf (f k) * B2Rf (g k))) l
     + INR l * / 2 ^ 1075 * (1 + / 2 ^ 53) ^ l.
Proof.
  intros Hfin. rewrite !sumk_R. rewrite sumk_fold in *.
  set (ks := seq 0 l) in *.
  assert (Hlen : length ks = l) by apply seq_length.
  clearbody ks.
  set (p' := map (fun k => mul (FO tbl) (f k) (g k)) ks) in *.
  set (c := map (fun k => B2Rf (f k) * B2Rf (g k)) ks).
  assert (Hadd : forall a b : pfloat, finite (add (FO tbl) a b) ->
                   finite a /\ finite b /\ B2Rf (add (FO tbl) a b) = add (RndO rnd64) (B2Rf a) (B2Rf b)).
  { intros a b Hab. cbn [add FO RndO] in *. apply fadd_finite. exact Hab. }
  assert (Hall : Forall finite p').
  { apply (fold_all (FO tbl) finite) with (s := zero (FO tbl)); [|exact Hfin].
    intros a b Hab. destruct (Hadd a b Hab) as (Ha & Hb & _). auto. }
  destruct (fold_sim (FO tbl) (RndO rnd64) B2Rf finite Hadd p' _ Hfin) as [_ He].
  rewrite He. change (B2Rf (zero (FO tbl))) with (B2Rf 0%float). rewrite B2Rf_zero.
  replace (map (fun k : nat => Rabs (B2Rf (f k) * B2Rf (g k))) ks) with (map Rabs c)
    by (unfold c; rewrite map_map; reflexivity).
  assert (Hlc : length c = l) by (unfold c; rewrite map_length; exact Hlen).
  rewrite <- Hlc, <- u64_val, <- eta64_val.
  apply (plain_sum_error_perturbed_abs u64 u64_nonneg eta64 F64 rnd64 F64_0 rnd64_model).
  - apply Forall_forall. intros r Hr. apply in_map_iff in Hr. destruct Hr as (x & <- & _). apply F64_B2Rf.
  - unfold c, p'. clear He Hfin Hlc c. subst p'. clear Hlen.
    induction ks as [|k ks IH]; cbn [map]; [constructor|].
    inversion Hall as [|? ? Hk Hall']; subst. constructor.
    + cbn [mul FO] in *. destruct (fmul_finite (f k) (g k) Hk) as (_ & _ & ->). apply rnd64_gen.
    + apply IH. exact Hall'.
Qed.

(** ** every entry of [matmul_blocked] / [matmul] on binary64 *)
Local Open Scope nat_scope.

Theorem matmul_blocked_entry_error_general (tbl : libm_table) (a b : list pfloat) (ra rb : nat) (ta tb : bool) (bs : nat)
        (ca cb m l n : nat) (c : list pfloat) :
  1 <= bs ->
  dims (length a) (length b) ra rb ta tb = Some (ca, cb, m, l, n) ->
  matmul_blocked (FO tbl) a b ra rb ta tb bs = Some c ->
  forall i j, i < m -> j < n ->
    finite (nth (i * n + j) c (zero (FO tbl))) ->
    (Rabs (B2Rf (nth (i * n + j) c (zero (FO tbl)))
           - sumk RO (fun k => B2Rf (opA (FO tbl) a ca ta i k) * B2Rf (opB (FO tbl) b cb tb k j)) l)
     <= ((1 + / 2 ^ 53) ^ S l - 1)
        * sumk RO (fun k => Rabs (B2Rf (opA (FO tbl) a ca ta i k) * B2Rf (opB (FO tbl) b cb tb k j))) l
        + INR l * / 2 ^ 1075 * (1 + / 2 ^ 53) ^ l)%R.
Proof.
  intros Hbs Hd Hc i j Hi Hj Hfin.
  pose proof (matmul_blocked_spec (FO tbl) a b ra rb ta tb bs Hbs) as H. rewrite Hd in H.
  destruct H as (c' & Hc' & _ & Hent). rewrite Hc in Hc'. injection Hc' as <-.
  rewrite (Hent i j Hi Hj) in *.
  apply sumk_F_error_general. exact Hfin.
Qed.

Theorem matmul_entry_error_general (tbl : libm_table) (a b : list pfloat) (ra rb : nat) (ta tb : bool)
        (ca cb m l n : nat) (c : list pfloat) :
  dims (length a) (length b) ra rb ta tb = Some (ca, cb, m, l, n) ->
  matmul (FO tbl) a b ra rb ta tb = Some c ->
  forall i j, i < m -> j < n ->
    finite (nth (i * n + j) c (zero (FO tbl))) ->
    (Rabs (B2Rf (nth (i * n + j) c (zero (FO tbl)))
           - sumk RO (fun k => B2Rf (opA (FO tbl) a ca ta i k) * B2Rf (opB (FO tbl) b cb tb k j)) l)
     <= ((1 + / 2 ^ 53) ^ S l - 1)
        * sumk RO (fun k => Rabs (B2Rf (opA (FO tbl) a ca ta i k) * B2Rf (opB (FO tbl) b cb tb k j))) l
        + INR l * / 2 ^ 1075 * (1 + / 2 ^ 53) ^ l)%R.
Proof.
  intros Hd Hc. apply (matmul_blocked_entry_error_general tbl a b ra rb ta tb 1); [lia|exact Hd|].
  rewrite (matmul_blocked_eq (FO tbl)); [exact Hc|lia|]. intros _. apply mul_comm_binary64.
Qed.

Theorem is_product_entry_error_general (tbl : libm_table) (swap : bool) (a b : list pfloat) (ca cb : nat) (ta tb : bool)
        (m l n : nat) (c : list pfloat) :
  is_product (FO tbl) swap a b ca cb ta tb m l n c ->
  forall i j, i < m -> j < n ->
    finite (nth (i * n + j) c (zero (FO tbl))) ->
    (Rabs (B2Rf (nth (i * n + j) c (zero (FO tbl)))
           - sumk RO (fun k => B2Rf (opA (FO tbl) a ca ta i k) * B2Rf (opB (FO tbl) b cb tb k j)) l)
     <= ((1 + / 2 ^ 53) ^ S l - 1)
        * sumk RO (fun k => Rabs (B2Rf (opA (FO tbl) a ca ta i k) * B2Rf (opB (FO tbl) b cb tb k j))) l
        + INR l * / 2 ^ 1075 * (1 + / 2 ^ 53) ^ l)%R.
Proof.
  intros Hp i j Hi Hj Hfin.
  assert (Hp' : is_product (FO tbl) false a b ca cb ta tb m l n c).
  { destruct swap; [|exact Hp]. apply (is_product_swap (FO tbl)); [apply mul_comm_binary64|exact Hp]. }
  destruct Hp' as [_ Hent]. rewrite (Hent i j Hi Hj) in *.
  apply sumk_F_error_general. exact Hfin.
Qed.

Theorem is_matvec_entry_error_general (tbl : libm_table) (a : list pfloat) (ca : nat) (ta : bool) (v : list pfloat)
        (m l : nat) (c : list pfloat) :
  is_matvec (FO tbl) a ca ta v m l c ->
  forall i, i < m ->
    finite (nth i c (zero (FO tbl))) ->
    (Rabs (B2Rf (nth i c (zero (FO tbl)))
           - sumk RO (fun k => B2Rf (opA (FO tbl) a ca ta i k) * B2Rf (nth k v (zero (FO tbl)))) l)
     <= ((1 + / 2 ^ 53) ^ S l - 1)
        * sumk RO (fun k => Rabs (B2Rf (opA (FO tbl) a ca ta i k) * B2Rf (nth k v (zero (FO tbl))))) l
        + INR l * / 2 ^ 1075 * (1 + / 2 ^ 53) ^ l)%R.
Proof.
  intros [_ Hent] i Hi Hfin. rewrite (Hent i Hi) in *.
  apply (sumk_F_error_general tbl (fun k => opA (FO tbl) a ca ta i k) (fun k => nth k v (zero (FO tbl)))). exact Hfin.
Qed.

Theorem is_vecmat_entry_error_general (tbl : libm_table) (v : list pfloat) (b : list pfloat) (cb : nat) (tb : bool)
        (l n : nat) (c : list pfloat) :
  is_vecmat (FO tbl) v b cb tb l n c ->
  forall j, j < n ->
    finite (nth j c (zero (FO tbl))) ->
    (Rabs (B2Rf (nth j c (zero (FO tbl)))
           - sumk RO (fun k => B2Rf (nth k v (zero (FO tbl))) * B2Rf (opB (FO tbl) b cb tb k j)) l)
     <= ((1 + / 2 ^ 53) ^ S l - 1)
        * sumk RO (fun k => Rabs (B2Rf (nth k v (zero (FO tbl))) * B2Rf (opB (FO tbl) b cb tb k j))) l
        + INR l * / 2 ^ 1075 * (1 + / 2 ^ 53) ^ l)%R.
Proof.
  intros [_ Hent] j Hj Hfin. rewrite (Hent j Hj) in *.
  apply (sumk_F_error_general tbl (fun k => nth k v (zero (FO tbl))) (fun k => opB (FO tbl) b cb tb k j)). exact Hfin.
Qed.

(** an instance the special case excludes: a 1x2 by 2x1 product one of whose products (2^-600 * 2^-500) underflows *)
Lemma matmul_general_example :
  let a := [0x1p-600; 3]%float in
  let b := [0x1p-500; 0.5]%float in
  dims (length a) (length b) 1 2 false false = Some (2, 1, 1, 2, 1) /\
  (exists c, matmul FO0 a b 1 2 false false = Some c /\ matmul_blocked FO0 a b 1 2 false false 2 = Some c /\
             finite (nth (0 * 1 + 0) c (zero FO0))) /\
  ~ (forall k, k < 2 ->
     (B2Rf (opA FO0 a 2 false 0 k) * B2Rf (opB FO0 b 1 false k 0) = 0 \/
      / 2 ^ 1022 <= Rabs (B2Rf (opA FO0 a 2 false 0 k) * B2Rf (opB FO0 b 1 false k 0)))%R).
Proof.
  cbv zeta. split; [reflexivity|]. split.
  - eexists. split; [vm_compute; reflexivity|]. split; vm_compute; reflexivity.
  - intros H. specialize (H 0 ltac:(lia)). cbn [opA opB nth Nat.mul Nat.add] in H.
    exact (underflowing_pair H).
Qed.
