(** Proofs for C01, part 3: every entry point returns THE solution, in exact arithmetic, with the
    factorisation routines of property C11 plugged in.  Statements are pinned in Properties/C01.v. *)
From Coq Require Import List Arith Bool Lia Reals Lra Permutation.
From Compute Require Import Base.Ops Base.ListMat Model.Reduce Model.MatMul Model.Subst Model.Cholesky Model.LU
  Model.Solve Model.SolveInst Spec.Factor Spec.Solve Proofs.C05 Proofs.LinAlgBase Proofs.C11_Subst Proofs.C11_Chol
  Proofs.C11_LU Proofs.C11_Solve Proofs.C01_Layout Proofs.C01_Chol Proofs.C01_Pred.
Import ListNotations.
Local Open Scope R_scope.

(** the LU factor the code computes has no zero on its diagonal (what [lu_solve] divides by) *)
Definition lu_pivots_nonzero (a : list R) (n : nat) : Prop :=
  forall m piv, lu RO a = Some (m, piv) -> forall i, (i < n)%nat -> getm m n i i <> 0.

(** a per-right-hand-side solver that returns the solution for every right-hand side *)
Definition solver_ok (a : list R) (n : nat) (f : list R -> option (list R)) : Prop :=
  forall b, length b = n -> exists x, f b = Some x /\ solves a n x b.

(** ** sums over a permutation *)
Lemma lsum_perm l l' : Permutation l l' -> lsum l = lsum l'.
Proof. induction 1; unfold lsum in *; cbn [fold_right] in *; lra. Qed.

Lemma rsum_as_lsum f n : rsum f n = lsum (map f (seq 0 n)).
Proof.
  rewrite lsum_rsum, map_length, seq_length. apply rsum_ext. intros k Hk.
  rewrite nth_map_seq by auto. reflexivity.
Qed.

Lemma rsum_perm f p n : is_perm p n -> rsum (fun s => f (nth s p 0%nat)) n = rsum f n.
Proof.
  intros Hp. rewrite (rsum_as_lsum f n). rewrite <- (lsum_perm (map f p)) by (apply Permutation_map; exact Hp).
  rewrite lsum_rsum, map_length, (is_perm_length _ _ Hp). apply rsum_ext. intros k Hk.
  rewrite (nth_indep _ 0 (f 0%nat)) by (rewrite map_length, (is_perm_length _ _ Hp); auto).
  rewrite map_nth. reflexivity.
Qed.

(** ** an upper triangular matrix with a left inverse has no zero on its diagonal *)
Lemma upper_left_inverse_diag (D U : nat -> nat -> R) n :
  (forall k c, (c < k)%nat -> U k c = 0) ->
  (forall i c, (i < n)%nat -> (c < n)%nat -> rsum (fun k => D i k * U k c) n = delta i c) ->
  forall j, (j < n)%nat -> U j j <> 0.
Proof.
  intros Hup Hinv.
  assert (P : forall j, (j <= n)%nat ->
            forall c, (c < j)%nat -> U c c <> 0 /\ forall i, (c < i < n)%nat -> D i c = 0).
  { induction j as [|j IH]; intros Hj c Hc; [lia|].
    specialize (IH ltac:(lia)).
    destruct (Nat.eq_dec c j) as [->|Hne]; [|apply IH; lia].
    assert (Hsingle : forall i, (j <= i < n)%nat -> rsum (fun k => D i k * U k j) n = D i j * U j j).
    { intros i Hi. apply (rsum_single (fun k => D i k * U k j) j n); [lia|].
      intros k Hk Hkj. destruct (Nat.lt_ge_cases k j) as [Hlt|Hge].
      - destruct (IH k Hlt) as [_ Hz]. rewrite (Hz i) by lia. ring.
      - rewrite (Hup k j) by lia. ring. }
    assert (Hjj : D j j * U j j = 1).
    { rewrite <- Hsingle by lia. rewrite Hinv by lia. unfold delta. rewrite Nat.eqb_refl. reflexivity. }
    assert (Hu : U j j <> 0) by (intros E; rewrite E in Hjj; lra).
    split; [exact Hu|]. intros i Hi.
    assert (H0 : D i j * U j j = 0).
    { rewrite <- Hsingle by lia. rewrite Hinv by lia. unfold delta.
      destruct (Nat.eqb_spec i j); [lia|reflexivity]. }
    apply Rmult_integral in H0. destruct H0; [auto|contradiction]. }
  intros j Hj. apply (P (S j) ltac:(lia) j). lia.
Qed.

(** for a nonsingular matrix the LU factor has nonzero pivots: the hypothesis the solvers need is
    implied by the property's own "A is nonsingular" *)
Lemma nonsingular_pivots_nonzero a n :
  (n * n)%nat = length a -> nonsingular a n -> lu_pivots_nonzero a n.
Proof.
  intros Hn [c Hc] m piv Hlu.
  destruct (lu_reconstructs a m piv n Hlu Hn) as (Hml & Hp & Hrec & _).
  set (D := fun i k => rsum (fun s => getm c n i (nth s piv 0%nat) * Lof m n s k) n).
  assert (HD : forall i cc, (i < n)%nat -> (cc < n)%nat ->
            rsum (fun k => D i k * Uof m n k cc) n = delta i cc).
  { intros i cc Hi Hcc. unfold D.
    rewrite (rsum_ext _ (fun k => rsum (fun s => getm c n i (nth s piv 0%nat) * Lof m n s k * Uof m n k cc) n))
      by (intros k Hk; rewrite <- rsum_scal_r; reflexivity).
    rewrite rsum_swap.
    rewrite (rsum_ext _ (fun s => (fun r => getm c n i r * getm a n r cc) (nth s piv 0%nat))).
    - rewrite (rsum_perm (fun r => getm c n i r * getm a n r cc) piv n Hp). apply (Hc i cc); auto.
    - intros s Hs. cbv beta. rewrite <- (Hrec s cc Hs Hcc). rewrite <- rsum_scal_l.
      apply rsum_ext. intros; ring. }
  intros i Hi.
  pose proof (upper_left_inverse_diag D (fun k cc => Uof m n k cc) n) as H.
  cbv beta in H. replace (getm m n i i) with (Uof m n i i) by (unfold Uof; rewrite Nat.leb_refl; reflexivity).
  apply H; auto.
  intros k cc Hlt. unfold Uof. destruct (Nat.leb_spec k cc); [lia|reflexivity].
Qed.

(** ** uniqueness: a matrix with a left inverse has at most one solution *)
Lemma solution_unique a n x y b :
  nonsingular a n -> solves a n x b -> solves a n y b -> x = y.
Proof.
  intros [c Hc] [Hxl Hx] [Hyl Hy].
  assert (Hrep : forall v, length v = n -> (forall i, (i < n)%nat -> mvec a n v i = nth i b 0) ->
            forall i, (i < n)%nat -> nth i v 0 = rsum (fun k => getm c n i k * nth k b 0) n).
  { intros v Hvl Hv i Hi.
    transitivity (rsum (fun j => delta i j * nth j v 0) n).
    - symmetry. rewrite (rsum_single _ i n Hi).
      + unfold delta. rewrite Nat.eqb_refl. ring.
      + intros k Hk Hki. unfold delta. destruct (Nat.eqb_spec i k); [lia|ring].
    - rewrite (rsum_ext _ (fun j => rsum (fun k => getm c n i k * (getm a n k j * nth j v 0)) n)).
      + rewrite rsum_swap. apply rsum_ext. intros k Hk. rewrite rsum_scal_l. f_equal. apply Hv; auto.
      + intros j Hj. rewrite <- (Hc i j Hi Hj). unfold mmul. rewrite <- rsum_scal_r.
        apply rsum_ext. intros; ring. }
  apply (list_eq_nth 0 _ _ n); auto.
  intros i Hi. rewrite (Hrep x Hxl Hx i Hi), (Hrep y Hyl Hy i Hi). reflexivity.
Qed.

(** ** the two routes *)
Theorem solve_lu_correct a b n :
  (n * n)%nat = length a -> length b = n -> lu_pivots_nonzero a n ->
  exists x, solve_via_lu RO a b = Some x /\ solves a n x b.
Proof.
  intros Hn Hb Hpiv. unfold solve_via_lu.
  pose proof (lu_shape a) as Hs. rewrite <- Hn, is_square_sq in Hs. destruct Hs as (m & piv & Hlu & _).
  rewrite Hlu. cbn [bind].
  destruct (lu_solve_correct a m piv b n Hlu Hn Hb (Hpiv m piv Hlu)) as (x & Hx & Hxl & Hax).
  exists x. split; [exact Hx|]. split; auto.
Qed.

Theorem solve_chol_correct a b l n :
  (n * n)%nat = length a -> (0 < n)%nat -> length b = n -> symmetric a n ->
  try_cholesky RO a = Some (Some l) ->
  exists x, cholesky_solve RO l b = Some x /\ solves a n x b.
Proof.
  intros Hn Hpos Hb Hsym Hc.
  destruct (try_cholesky_reconstructs a l n Hc Hn Hsym) as (Hl & Hlow & Hd & Hrec).
  apply (cholesky_solve_correct a l b n); auto.
Qed.

(** ** the routing returns a correct per-column solver *)
Lemma is_positive_definite_sq a n :
  (n * n)%nat = length a ->
  is_positive_definite RO a = Some (is_symmetric_rows RO (unflatten a n n) n && diag_positive_rows RO (unflatten a n n) n).
Proof. intros Hn. unfold is_positive_definite. rewrite <- Hn, is_square_sq. reflexivity. Qed.

Lemma lu_route_ok a n :
  (n * n)%nat = length a -> lu_pivots_nonzero a n ->
  exists f, (let* (m, piv) := lu RO a in Some (lu_solve RO m piv)) = Some f /\ solver_ok a n f.
Proof.
  intros Hn Hpiv.
  pose proof (lu_shape a) as Hs. rewrite <- Hn, is_square_sq in Hs. destruct Hs as (m & piv & Hlu & _).
  rewrite Hlu. cbn [bind]. eexists. split; [reflexivity|].
  intros b Hb. destruct (lu_solve_correct a m piv b n Hlu Hn Hb (Hpiv m piv Hlu)) as (x & Hx & Hxl & Hax).
  exists x. split; [exact Hx|]. split; auto.
Qed.

Theorem factor_ok a n :
  (n * n)%nat = length a -> (0 < n)%nat ->
  (is_positive_definite RO a = Some true -> symmetric a n) -> lu_pivots_nonzero a n ->
  exists f, slice_factor RO a = Some f /\ solver_ok a n f.
Proof.
  intros Hn Hpos Hsym Hpiv. unfold slice_factor.
  pose proof (is_positive_definite_sq a n Hn) as Hpd.
  destruct (is_symmetric_rows RO (unflatten a n n) n && diag_positive_rows RO (unflatten a n n) n) eqn:E.
  - pose proof (try_cholesky_shape RO a) as Hsh. rewrite <- Hn, is_square_sq in Hsh.
    apply andb_true_iff in E. destruct E as [Es _]. rewrite Es in Hsh. destruct Hsh as [r Hr].
    destruct r as [l|].
    + rewrite (factor_pd_chol RO _ _ _ _ a l Hpd Hr). eexists. split; [reflexivity|].
      intros b Hb. apply (solve_chol_correct a b l n); auto.
    + rewrite (factor_pd_fallback RO _ _ _ _ a Hpd Hr). apply lu_route_ok; auto.
  - rewrite (factor_not_pd RO _ _ _ _ a Hpd). apply lu_route_ok; auto.
Qed.

(** ** the slice entry points *)
Theorem solve_correct a b n :
  (n * n)%nat = length a -> (0 < n)%nat -> length b = n ->
  (is_positive_definite RO a = Some true -> symmetric a n) -> lu_pivots_nonzero a n ->
  exists x, slice_solve RO a b = Some x /\ solves a n x b.
Proof.
  intros Hn Hpos Hb Hsym Hpiv.
  destruct (factor_ok a n Hn Hpos Hsym Hpiv) as (f & Hf & Hok).
  unfold slice_solve, solve. rewrite Hb, <- Hn, Nat.eqb_refl. cbn [guard bind].
  fold (slice_factor RO a). rewrite Hf. cbn [bind]. apply Hok; auto.
Qed.

Lemma columns_solved a n k f (B X : list R) :
  solver_ok a n f -> length X = (n * k)%nat ->
  (forall j, (j < k)%nat -> f (colk 0 B n k j) = Some (colk 0 X n k j)) ->
  solves_sys a n k X B.
Proof.
  intros Hok HXl Hcols. split; [exact HXl|]. intros j Hj.
  destruct (Hok (colk 0 B n k j) (colk_length _ _ _ _ _)) as (x & Hx & Hsol).
  rewrite (Hcols j Hj) in Hx. inversion Hx; subst x. exact Hsol.
Qed.

Theorem solve_sys_correct a b n k :
  (n * n)%nat = length a -> (0 < n)%nat -> length b = (n * k)%nat ->
  (is_positive_definite RO a = Some true -> symmetric a n) -> lu_pivots_nonzero a n ->
  exists X, slice_solve_sys RO a b = Some X /\ solves_sys a n k X b.
Proof.
  intros Hn Hpos Hb Hsym Hpiv.
  destruct (factor_ok a n Hn Hpos Hsym Hpiv) as (f & Hf & Hok).
  assert (Hs : is_square (length a) = Some n) by (rewrite <- Hn; apply is_square_sq).
  destruct (solve_sys_layout RO _ _ _ _ a b n k f Hs Hpos Hb Hf) as (X & HX & HXl & Hcols).
  { intros j Hj. destruct (Hok (colk 0 b n k j) (colk_length _ _ _ _ _)) as (x & Hx & Hxl & _). eauto. }
  exists X. split; [exact HX|]. apply (columns_solved a n k f b X); auto.
Qed.

(** a system solved against the identity is a right inverse *)
Lemma solves_eye_inverse a n X :
  solves_sys a n n X (eye RO n) -> is_right_inverse a n X.
Proof.
  intros [HXl Hcols]. split; [exact HXl|]. intros i j Hi Hj.
  destruct (Hcols j Hj) as [_ Hs]. specialize (Hs i Hi).
  rewrite nth_colk in Hs by auto.
  pose proof (nth_eye RO n i j Hi Hj) as He. cbn [one zero RO] in He. rewrite He in Hs.
  unfold mmul, delta. unfold mvec in Hs. rewrite <- Hs.
  apply rsum_ext. intros k Hk. rewrite nth_colk by auto. reflexivity.
Qed.

Theorem invert_correct a n :
  (n * n)%nat = length a -> (0 < n)%nat ->
  (is_positive_definite RO a = Some true -> symmetric a n) -> lu_pivots_nonzero a n ->
  exists X, slice_invert RO a = Some X /\ is_right_inverse a n X.
Proof.
  intros Hn Hpos Hsym Hpiv.
  destruct (solve_sys_correct a (eye RO n) n n Hn Hpos (eye_length RO n) Hsym Hpiv) as (X & HX & Hsol).
  exists X. split; [|apply solves_eye_inverse; exact Hsol].
  unfold slice_invert, invert_matrix. rewrite <- Hn, is_square_sq. cbn [bind]. exact HX.
Qed.

(** ** the [Matrix] entry points (always LU) *)
Theorem matrix_solve_vec_correct (m : matrix (T:=R)) b n :
  well_formed m = true -> nr m = n -> nc m = n -> length b = n -> lu_pivots_nonzero (dat m) n ->
  exists x, mat_solve_vec RO m b = Some x /\ solves (dat m) n x b.
Proof.
  intros Hw Hr Hc Hb Hpiv.
  assert (Hn : (n * n)%nat = length (dat m)).
  { unfold well_formed in Hw. rewrite Hr, Hc in Hw. apply andb_true_iff in Hw. destruct Hw as [_ Hw].
    apply Nat.eqb_eq in Hw. exact Hw. }
  pose proof (lu_shape (dat m)) as Hs. rewrite <- Hn, is_square_sq in Hs. destruct Hs as (l & piv & Hlu & _).
  unfold mat_solve_vec. rewrite (msolve_vec_unfold (lu RO) (lu_solve RO) m b n l piv Hw Hr Hc Hb Hlu).
  destruct (lu_solve_correct (dat m) l piv b n Hlu Hn Hb (Hpiv l piv Hlu)) as (x & Hx & Hxl & Hax).
  exists x. split; [exact Hx|]. split; auto.
Qed.

Lemma lu_solver_ok a n l piv :
  (n * n)%nat = length a -> lu RO a = Some (l, piv) -> lu_pivots_nonzero a n -> solver_ok a n (lu_solve RO l piv).
Proof.
  intros Hn Hlu Hpiv b Hb.
  destruct (lu_solve_correct a l piv b n Hlu Hn Hb (Hpiv l piv Hlu)) as (x & Hx & Hxl & Hax).
  exists x. split; [exact Hx|]. split; auto.
Qed.

Lemma wf_square_len (m : matrix (T:=R)) n :
  well_formed m = true -> nr m = n -> nc m = n -> (n * n)%nat = length (dat m) /\ (0 < n)%nat.
Proof.
  intros Hw Hr Hc. unfold well_formed in Hw. rewrite Hr, Hc in Hw.
  apply andb_true_iff in Hw. destruct Hw as [Hw1 Hw2]. apply andb_true_iff in Hw1. destruct Hw1 as [Hw1 _].
  apply Nat.eqb_eq in Hw2. apply Nat.ltb_lt in Hw1. auto.
Qed.

Theorem matrix_solve_mat_correct (m s : matrix (T:=R)) n k :
  well_formed m = true -> nr m = n -> nc m = n ->
  well_formed s = true -> nr s = n -> nc s = k -> lu_pivots_nonzero (dat m) n ->
  exists r, mat_solve_mat RO m s = Some r /\ nr r = n /\ nc r = k /\ solves_sys (dat m) n k (dat r) (dat s).
Proof.
  intros Hw Hr Hc Hws Hrs Hcs Hpiv.
  destruct (wf_square_len m n Hw Hr Hc) as [Hn Hpos].
  pose proof (lu_shape (dat m)) as Hs. rewrite <- Hn, is_square_sq in Hs. destruct Hs as (l & piv & Hlu & _).
  pose proof (lu_solver_ok (dat m) n l piv Hn Hlu Hpiv) as Hok.
  destruct (msolve_mat_layout RO (lu RO) (lu_solve RO) m s n k l piv Hw Hr Hc Hws Hrs Hcs Hlu) as (r & Hres & Hnr & Hnc & Hrl & Hcols).
  { intros j Hj. destruct (Hok (colk 0 (dat s) n k j) (colk_length _ _ _ _ _)) as (x & Hx & Hxl & _). eauto. }
  exists r. split; [exact Hres|]. split; [exact Hnr|]. split; [exact Hnc|].
  apply (columns_solved (dat m) n k (lu_solve RO l piv) (dat s) (dat r) Hok Hrl Hcols).
Qed.

Theorem matrix_inv_correct (m : matrix (T:=R)) n :
  well_formed m = true -> nr m = n -> nc m = n -> lu_pivots_nonzero (dat m) n ->
  exists r, mat_inv RO m = Some r /\ nr r = n /\ nc r = n /\ is_right_inverse (dat m) n (dat r).
Proof.
  intros Hw Hr Hc Hpiv.
  destruct (wf_square_len m n Hw Hr Hc) as [Hn Hpos].
  pose proof (lu_shape (dat m)) as Hs. rewrite <- Hn, is_square_sq in Hs. destruct Hs as (l & piv & Hlu & _).
  pose proof (lu_solver_ok (dat m) n l piv Hn Hlu Hpiv) as Hok.
  destruct (minv_layout RO (lu RO) (lu_solve RO) m n l piv Hw Hr Hc Hlu) as (r & Hres & Hnr & Hnc & Hrl & Hcols).
  { intros j Hj. destruct (Hok (colk 0 (eye RO n) n n j) (colk_length _ _ _ _ _)) as (x & Hx & Hxl & _). eauto. }
  exists r. split; [exact Hres|]. split; [exact Hnr|]. split; [exact Hnc|].
  apply solves_eye_inverse. apply (columns_solved (dat m) n n (lu_solve RO l piv) (eye RO n) (dat r) Hok Hrl Hcols).
Qed.

(** ** the answer does not depend on the route *)
Theorem routing_irrelevant a b n x :
  (n * n)%nat = length a -> (0 < n)%nat -> length b = n -> symmetric a n -> nonsingular a n ->
  solve_via_chol RO a b = Some x -> solve_via_lu RO a b = Some x.
Proof.
  intros Hn Hpos Hb Hsym Hns Hc.
  destruct (solve_lu_correct a b n Hn Hb (nonsingular_pivots_nonzero a n Hn Hns)) as (y & Hy & Hsy).
  rewrite Hy. f_equal. apply (solution_unique a n y x b Hns Hsy).
  unfold solve_via_chol in Hc. destruct (try_cholesky RO a) as [[l|]|] eqn:E; cbn [bind] in Hc; try discriminate.
  destruct (solve_chol_correct a b l n Hn Hpos Hb Hsym E) as (x' & Hx' & Hsx').
  rewrite Hx' in Hc. inversion Hc; subst x'. exact Hsx'.
Qed.

(** whatever route [solve] takes, it returns the unique solution, which is also what the always-LU
    [Matrix::solve] returns *)
Theorem solve_agrees_with_matrix_solve a b n (m : matrix (T:=R)) :
  (n * n)%nat = length a -> (0 < n)%nat -> length b = n ->
  (is_positive_definite RO a = Some true -> symmetric a n) -> nonsingular a n ->
  m = {| nr := n; nc := n; dat := a |} ->
  exists x, slice_solve RO a b = Some x /\ mat_solve_vec RO m b = Some x /\ solves a n x b.
Proof.
  intros Hn Hpos Hb Hsym Hns ->.
  pose proof (nonsingular_pivots_nonzero a n Hn Hns) as Hpiv.
  destruct (solve_correct a b n Hn Hpos Hb Hsym Hpiv) as (x & Hx & Hsx).
  assert (Hw : well_formed {| nr := n; nc := n; dat := a |} = true).
  { unfold well_formed. cbn [nr nc dat]. rewrite Hn, Nat.eqb_refl. destruct (Nat.ltb_spec 0 n); [reflexivity|lia]. }
  destruct (matrix_solve_vec_correct {| nr := n; nc := n; dat := a |} b n Hw eq_refl eq_refl Hb Hpiv) as (y & Hy & Hsy).
  cbn [dat] in Hsy. exists x. split; [exact Hx|]. split; [|exact Hsx].
  rewrite Hy. f_equal. apply (solution_unique a n y x b Hns Hsy Hsx).
Qed.

(** ** the property's own formulation: A nonsingular (and either exactly symmetric or asymmetric beyond
    the tolerance of [is_symmetric], so that the Cholesky route is taken for symmetric input only) *)
Theorem solve_nonsingular a b n :
  (n * n)%nat = length a -> (0 < n)%nat -> length b = n ->
  decisively_symmetric_or_not a n -> nonsingular a n ->
  exists x, slice_solve RO a b = Some x /\ solves a n x b /\ forall y, solves a n y b -> y = x.
Proof.
  intros Hn Hpos Hb Hdec Hns.
  destruct (solve_correct a b n Hn Hpos Hb (decisive_routing a n Hn Hdec) (nonsingular_pivots_nonzero a n Hn Hns))
    as (x & Hx & Hsx).
  exists x. split; [exact Hx|]. split; [exact Hsx|].
  intros y Hy. apply (solution_unique a n y x b Hns Hy Hsx).
Qed.

Theorem solve_sys_nonsingular a b n k :
  (n * n)%nat = length a -> (0 < n)%nat -> length b = (n * k)%nat ->
  decisively_symmetric_or_not a n -> nonsingular a n ->
  exists X, slice_solve_sys RO a b = Some X /\ solves_sys a n k X b.
Proof.
  intros Hn Hpos Hb Hdec Hns.
  apply solve_sys_correct; auto using decisive_routing, nonsingular_pivots_nonzero.
Qed.

Theorem invert_nonsingular a n :
  (n * n)%nat = length a -> (0 < n)%nat ->
  decisively_symmetric_or_not a n -> nonsingular a n ->
  exists X, slice_invert RO a = Some X /\ is_right_inverse a n X.
Proof.
  intros Hn Hpos Hdec Hns.
  apply invert_correct; auto using decisive_routing, nonsingular_pivots_nonzero.
Qed.

Theorem matrix_solve_vec_nonsingular (m : matrix (T:=R)) b n :
  well_formed m = true -> nr m = n -> nc m = n -> length b = n -> nonsingular (dat m) n ->
  exists x, mat_solve_vec RO m b = Some x /\ solves (dat m) n x b.
Proof.
  intros Hw Hr Hc Hb Hns. destruct (wf_square_len m n Hw Hr Hc) as [Hn _].
  apply matrix_solve_vec_correct; auto using nonsingular_pivots_nonzero.
Qed.

Theorem matrix_solve_mat_nonsingular (m s : matrix (T:=R)) n k :
  well_formed m = true -> nr m = n -> nc m = n ->
  well_formed s = true -> nr s = n -> nc s = k -> nonsingular (dat m) n ->
  exists r, mat_solve_mat RO m s = Some r /\ nr r = n /\ nc r = k /\ solves_sys (dat m) n k (dat r) (dat s).
Proof.
  intros Hw Hr Hc Hws Hrs Hcs Hns. destruct (wf_square_len m n Hw Hr Hc) as [Hn _].
  apply matrix_solve_mat_correct; auto using nonsingular_pivots_nonzero.
Qed.

Theorem matrix_inv_nonsingular (m : matrix (T:=R)) n :
  well_formed m = true -> nr m = n -> nc m = n -> nonsingular (dat m) n ->
  exists r, mat_inv RO m = Some r /\ nr r = n /\ nc r = n /\ is_right_inverse (dat m) n (dat r).
Proof.
  intros Hw Hr Hc Hns. destruct (wf_square_len m n Hw Hr Hc) as [Hn _].
  apply matrix_inv_correct; auto using nonsingular_pivots_nonzero.
Qed.

(** ** satisfiable hypotheses: a symmetric positive definite and a non-symmetric instance *)
Example ex_spd : list R := [2; 1; 1; 3].
Example ex_gen : list R := [1; 2; 3; 4].

Lemma ex_spd_symmetric : symmetric ex_spd 2.
Proof.
  intros i j Hi Hj. destruct i as [|[|i]], j as [|[|j]]; try lia; reflexivity.
Qed.

Lemma ex_spd_nonsingular : nonsingular ex_spd 2.
Proof.
  exists [3/5; -1/5; -1/5; 2/5]. intros i j Hi Hj.
  destruct i as [|[|i]], j as [|[|j]]; try lia;
    unfold mmul, getm, delta, ex_spd; cbn [rsum nth Nat.mul Nat.add Nat.eqb]; lra.
Qed.

Lemma ex_gen_nonsingular : nonsingular ex_gen 2.
Proof.
  exists [-2; 1; 3/2; -1/2]. intros i j Hi Hj.
  destruct i as [|[|i]], j as [|[|j]]; try lia;
    unfold mmul, getm, delta, ex_gen; cbn [rsum nth Nat.mul Nat.add Nat.eqb]; lra.
Qed.

Lemma eps_small : eps RO < 1 / 8.
Proof.
  unfold eps. cbn [ofQ RO]. unfold Q2R. cbn [QArith_base.Qnum QArith_base.Qden]. lra.
Qed.

Lemma ex_gen_decisive : decisively_symmetric_or_not ex_gen 2.
Proof.
  right. exists 0%nat, 1%nat. split; [lia|]. split; [lia|].
  unfold getm, ex_gen, sym_tol. cbn [nth Nat.mul Nat.add].
  replace (2 - 3) with (- (1)) by lra. rewrite Rabs_Ropp, Rabs_R1.
  rewrite (Rabs_pos_eq 2), (Rabs_pos_eq 3) by lra. rewrite Rmax_right by lra.
  pose proof eps_small. pose proof eps_pos. nra.
Qed.

Example ex_spd_solved :
  exists x, slice_solve RO ex_spd [1; 0] = Some x /\ solves ex_spd 2 x [1; 0] /\ forall y, solves ex_spd 2 y [1; 0] -> y = x.
Proof.
  apply (solve_nonsingular ex_spd [1; 0] 2);
    [reflexivity | lia | reflexivity | left; exact ex_spd_symmetric | exact ex_spd_nonsingular].
Qed.

Example ex_gen_inverted : exists X, slice_invert RO ex_gen = Some X /\ is_right_inverse ex_gen 2 X.
Proof.
  apply (invert_nonsingular ex_gen 2);
    [reflexivity | lia | exact ex_gen_decisive | exact ex_gen_nonsingular].
Qed.

(** ** route independence for several right-hand sides and for the inverse: the routed slice solvers and
    the always-LU [Matrix] solvers return the same arrays *)
Lemma solves_sys_unique a n k X Y B :
  nonsingular a n -> solves_sys a n k X B -> solves_sys a n k Y B -> X = Y.
Proof.
  intros Hns [HXl HX] [HYl HY].
  apply (list_eq_nth 0 _ _ (n * k)); auto.
  intros p Hp.
  assert (Hk : (0 < k)%nat) by (destruct k; [lia|lia]).
  assert (Hpk : p = ((p / k) * k + p mod k)%nat) by (rewrite (Nat.mul_comm (p / k) k); apply Nat.div_mod; lia).
  assert (Hi : (p / k < n)%nat) by (apply Nat.div_lt_upper_bound; lia).
  assert (Hj : (p mod k < k)%nat) by (apply Nat.mod_upper_bound; lia).
  rewrite Hpk. rewrite <- !(nth_colk 0 _ n k (p mod k) (p / k) Hi).
  rewrite (solution_unique a n _ _ _ Hns (HX _ Hj) (HY _ Hj)). reflexivity.
Qed.

Lemma wf_mk n k (d : list R) : (0 < n)%nat -> (0 < k)%nat -> length d = (n * k)%nat ->
  well_formed {| nr := n; nc := k; dat := d |} = true.
Proof.
  intros Hn Hk Hd. unfold well_formed. cbn [nr nc dat]. rewrite Hd, Nat.eqb_refl.
  destruct (Nat.ltb_spec 0 n); [|lia]. destruct (Nat.ltb_spec 0 k); [reflexivity|lia].
Qed.

Theorem solve_sys_agrees_with_matrix_solve a b n k :
  (n * n)%nat = length a -> (0 < n)%nat -> (0 < k)%nat -> length b = (n * k)%nat ->
  (is_positive_definite RO a = Some true -> symmetric a n) -> nonsingular a n ->
  exists X, slice_solve_sys RO a b = Some X /\
            mat_solve_mat RO {| nr := n; nc := n; dat := a |} {| nr := n; nc := k; dat := b |}
              = Some {| nr := n; nc := k; dat := X |} /\
            solves_sys a n k X b.
Proof.
  intros Hn Hpos Hk Hb Hsym Hns.
  pose proof (nonsingular_pivots_nonzero a n Hn Hns) as Hpiv.
  destruct (solve_sys_correct a b n k Hn Hpos Hb Hsym Hpiv) as (X & HX & HsX).
  destruct (matrix_solve_mat_correct {| nr := n; nc := n; dat := a |} {| nr := n; nc := k; dat := b |} n k
              (wf_mk n n a Hpos Hpos (eq_sym Hn)) eq_refl eq_refl (wf_mk n k b Hpos Hk Hb) eq_refl eq_refl Hpiv)
    as (r & Hr & Hnr & Hnc & Hsr).
  cbn [dat] in Hsr. exists X. split; [exact HX|]. split; [|exact HsX].
  rewrite Hr. f_equal. destruct r as [rn rc rd]. cbn [nr nc dat] in *. subst rn rc. f_equal.
  apply (solves_sys_unique a n k rd X b Hns Hsr HsX).
Qed.

(** a right inverse of a matrix with a left inverse is unique *)
Lemma right_inverse_is_solves_eye a n X : is_right_inverse a n X -> solves_sys a n n X (eye RO n).
Proof.
  intros [HXl HX]. split; [exact HXl|]. intros j Hj. split; [apply colk_length|].
  intros i Hi. rewrite nth_colk by auto.
  pose proof (nth_eye RO n i j Hi Hj) as He. cbn [one zero RO] in He. rewrite He.
  specialize (HX i j Hi Hj). unfold mmul, delta in HX. unfold mvec. rewrite <- HX.
  apply rsum_ext. intros k Hk. rewrite nth_colk by auto. reflexivity.
Qed.

Theorem invert_agrees_with_matrix_inv a n :
  (n * n)%nat = length a -> (0 < n)%nat ->
  (is_positive_definite RO a = Some true -> symmetric a n) -> nonsingular a n ->
  exists X, slice_invert RO a = Some X /\
            mat_inv RO {| nr := n; nc := n; dat := a |} = Some {| nr := n; nc := n; dat := X |} /\
            is_right_inverse a n X.
Proof.
  intros Hn Hpos Hsym Hns.
  pose proof (nonsingular_pivots_nonzero a n Hn Hns) as Hpiv.
  destruct (invert_correct a n Hn Hpos Hsym Hpiv) as (X & HX & HiX).
  destruct (matrix_inv_correct {| nr := n; nc := n; dat := a |} n
              (wf_mk n n a Hpos Hpos (eq_sym Hn)) eq_refl eq_refl Hpiv) as (r & Hr & Hnr & Hnc & Hir).
  cbn [dat] in Hir. exists X. split; [exact HX|]. split; [|exact HiX].
  rewrite Hr. f_equal. destruct r as [rn rc rd]. cbn [nr nc dat] in *. subst rn rc. f_equal.
  apply (solves_sys_unique a n n rd X (eye RO n) Hns);
    apply right_inverse_is_solves_eye; assumption.
Qed.
