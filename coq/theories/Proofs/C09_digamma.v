(** C09 (extension): the asymptotic branch of [digamma] satisfies the recurrence psi(x+1) = psi(x) + 1/x to 1e-10 for
    EVERY real x >= 6 (no upper limit), hence [digamma] satisfies it for every x > 0, and differences over integer
    steps are the harmonic sums: psi(x+k) - psi(x) = Sigma_{j<k} 1/(x+j) within k*1e-10, in particular
    psi(n) - psi(m) = H_(n-1) - H_(m-1) within (n-m)*1e-10.
    The bound on the whole asymptotic branch is in C09_digamma_u.v. *)
From Compute Require Import Proofs.C09_base Proofs.C09_digamma_u Proofs.C09.
Open Scope R_scope.

(** ... hence for [digamma] at every positive argument *)
Lemma digamma_recurrence_all fuel x a b :
  0 < x -> digamma RO (S fuel) x = Some a -> digamma RO (S fuel) (x + 1) = Some b ->
  Rabs (b - a - 1 / x) <= 1e-10.
Proof.
  intros Hx Ha Hb. destruct (Rlt_dec x 6) as [Hlt|Hge].
  - rewrite (digamma_recurrence_low fuel x a b Hlt Ha Hb).
    replace (a + 1 / x - a - 1 / x) with 0 by lra. rewrite Rabs_R0. lra.
  - rewrite digamma_ge6 in Ha, Hb by lra. injection Ha as <-. injection Hb as <-.
    apply digamma_asym_recurrence_all. lra.
Qed.

(** a larger argument needs no more fuel *)
Lemma digamma_defined_mono fuel : forall x y v, x <= y -> digamma RO fuel x = Some v -> exists w, digamma RO fuel y = Some w.
Proof.
  induction fuel as [|fuel IH]; intros x y v Hxy H; [discriminate|].
  rewrite digamma_S in H. rewrite digamma_S.
  cbn [ltb RO ofZ] in *. unfold Rltb in *.
  destruct (Rlt_dec y 6) as [Hy|Hy]; [|eauto].
  destruct (Rlt_dec x 6) as [Hx|Hx]; [|lra].
  destruct (digamma RO fuel (x + 1)) as [d|] eqn:E; [|discriminate].
  destruct (IH (x + 1) (y + 1) d) as [w Hw]; [lra|exact E|].
  rewrite Hw. eauto.
Qed.

(** sum_{j<k} f j *)
Fixpoint rsum_upto (f : nat -> R) (k : nat) : R :=
  match k with 0%nat => 0 | S k' => rsum_upto f k' + f k' end.
(** harmonic numbers H_n = 1 + 1/2 + ... + 1/n *)
Definition harmonic (n : nat) : R := rsum_upto (fun j => 1 / INR (S j)) n.

(** differences over [k] unit steps are harmonic-type sums, within k * 1e-10 *)
Lemma digamma_steps fuel x : 0 < x -> forall (k : nat) a b,
  digamma RO (S fuel) x = Some a -> digamma RO (S fuel) (x + INR k) = Some b ->
  Rabs (b - a - rsum_upto (fun j => 1 / (x + INR j)) k) <= INR k * 1e-10.
Proof.
  intros Hx. induction k as [|k IH]; intros a b Ha Hb.
  - cbn [INR rsum_upto] in *. rewrite Rplus_0_r in Hb. rewrite Ha in Hb. injection Hb as <-.
    replace (a - a - 0) with 0 by ring. rewrite Rabs_R0. lra.
  - assert (Hk : 0 <= INR k) by apply pos_INR.
    destruct (digamma_defined_mono (S fuel) x (x + INR k) a ltac:(lra) Ha) as [c Hc].
    specialize (IH a c Ha Hc).
    rewrite S_INR in Hb |- *. replace (x + (INR k + 1)) with (x + INR k + 1) in Hb by ring.
    pose proof (digamma_recurrence_all fuel (x + INR k) c b ltac:(lra) Hc Hb) as Hr.
    cbn [rsum_upto].
    replace (b - a - (rsum_upto (fun j => 1 / (x + INR j)) k + 1 / (x + INR k)))
      with ((c - a - rsum_upto (fun j => 1 / (x + INR j)) k) + (b - c - 1 / (x + INR k))) by ring.
    eapply Rle_trans; [apply Rabs_triang|]. lra.
Qed.

Lemma harmonic_diff (m : nat) : forall k : nat, (1 <= m)%nat ->
  rsum_upto (fun j => 1 / (INR m + INR j)) k = harmonic (m + k - 1) - harmonic (m - 1).
Proof.
  intros k Hm. induction k as [|k IH].
  - rewrite Nat.add_0_r. cbn [rsum_upto]. ring.
  - cbn [rsum_upto]. rewrite IH.
    replace (m + S k - 1)%nat with (S (m + k - 1)) by lia.
    unfold harmonic at 3. cbn [rsum_upto]. fold (harmonic (m + k - 1)).
    replace (S (m + k - 1)) with (m + k)%nat by lia. rewrite plus_INR. ring.
Qed.

(** psi(n) - psi(m) = H_(n-1) - H_(m-1) within (n-m) * 1e-10, for all integers 1 <= m <= n *)
Lemma digamma_integer_differences fuel (m n : nat) a b :
  (1 <= m <= n)%nat ->
  digamma RO (S fuel) (INR m) = Some a -> digamma RO (S fuel) (INR n) = Some b ->
  Rabs (b - a - (harmonic (n - 1) - harmonic (m - 1))) <= INR (n - m) * 1e-10.
Proof.
  intros Hmn Ha Hb.
  assert (Hm : 0 < INR m) by (apply lt_0_INR; lia).
  replace n with (m + (n - m))%nat in Hb by lia. rewrite plus_INR in Hb.
  pose proof (digamma_steps fuel (INR m) Hm (n - m) a b Ha Hb) as H.
  rewrite harmonic_diff in H by lia.
  replace (m + (n - m) - 1)%nat with (n - 1)%nat in H by lia. exact H.
Qed.
