(** * Tie A for C04: the hand-written models [Model/Reduce.v] ([sum], [dot], [norm], [prod]) and [Model/Vops.v]
    ([logsumexp], [logmeanexp]) ARE the source.  [Generated/reduce_loops.v] is produced on every run by
    tools/tiea/reduce_loops.py (statement-level translator [LoopTranslator] of tools/rsexpr.py) from src/linalg/utils.rs.
    The source's unrolled reductions are index-driven: [chunks = (n - n % 8) / 8] passes of a loop that asserts
    [n > idx + 7] and reads eight checked entries, then a remainder loop; the models recurse on the list eight
    elements at a time with fuel.  The lemmas show, for EVERY carrier, operations record and slice, that the assertion
    never fails, every read is in bounds, and the two compute the same value in the same order (induction on the number
    of chunks; no law of the carrier). *)
From Coq Require Import List ZArith Arith Bool Lia.
From Compute Require Import Base.Ops Base.ListMat Base.RsExpr Model.Reduce Model.Vops Generated.reduce_loops
  Proofs.RsExprLemmas.
Import ListNotations.

Section TieA.
  Context {T : Type} (O : Ops T).
  Local Notation "x ⊕ y" := (add O x y) (at level 50, left associativity).
  Local Notation "x ⊗ y" := (mul O x y) (at level 40, left associativity).

  Lemma div8_cons8 : forall {A} (a0 a1 a2 a3 a4 a5 a6 a7 : A) (l : list A),
    length (a0 :: a1 :: a2 :: a3 :: a4 :: a5 :: a6 :: a7 :: l) / 8 = S (length l / 8).
  Proof.
    intros. cbn [length]. replace (S (S (S (S (S (S (S (S (length l))))))))) with (1 * 8 + length l) by lia.
    rewrite Nat.div_add_l by lia. reflexivity.
  Qed.

  (** ** sum *)
  Section Sum.
    Variable x : list T.
    (** any loop body that adds the eight entries of chunk [c] *)
    Variable F : T -> Z -> option T.
    Hypothesis F_spec : forall (s : T) (c : nat) (x0 x1 x2 x3 x4 x5 x6 x7 : T) (r : list T),
      skipn (8 * c) x = x0 :: x1 :: x2 :: x3 :: x4 :: x5 :: x6 :: x7 :: r ->
      F s (Z.of_nat c) = Some (s ⊕ (x0 ⊕ x1 ⊕ x2 ⊕ x3 ⊕ x4 ⊕ x5 ⊕ x6 ⊕ x7)).
    Lemma sum_chunks : forall (m c : nat) (s : T) (fuel : nat),
      m = length (skipn (8 * c) x) / 8 -> m < fuel ->
      (let* s' := rs_fold_opt F (rs_seq (Z.of_nat c) m) s in Some (fold_left (add O) (skipn (8 * (c + m)) x) s'))
      = Some (sum8 O fuel s (skipn (8 * c) x)).
    Proof.
      induction m as [|m IH]; intros c s fuel Hm Hf; (destruct fuel as [|fuel]; [lia|]).
      - cbn [rs_seq rs_fold_opt bind]. rewrite Nat.add_0_r. f_equal.
        destruct (skipn (8 * c) x) as [|x0 [|x1 [|x2 [|x3 [|x4 [|x5 [|x6 [|x7 r]]]]]]]]; try reflexivity.
        rewrite div8_cons8 in Hm. discriminate.
      - destruct (skipn (8 * c) x) as [|x0 [|x1 [|x2 [|x3 [|x4 [|x5 [|x6 [|x7 r]]]]]]]] eqn:Er;
          try (cbn in Hm; discriminate).
        rewrite div8_cons8 in Hm. injection Hm as Hm.
        cbn [rs_seq rs_fold_opt]. rewrite (F_spec s c _ _ _ _ _ _ _ _ _ Er).
        replace (Z.of_nat c + 1)%Z with (Z.of_nat (S c)) by lia.
        assert (Er' : skipn (8 * S c) x = r).
        { replace (8 * S c) with (8 * c + 8) by lia. rewrite <- skipn_add, Er. reflexivity. }
        replace (c + S m) with (S c + m) by lia.
        assert (Hm' : m = length (skipn (8 * S c) x) / 8) by (rewrite Er'; exact Hm).
        assert (Hf' : m < fuel) by lia.
        rewrite (IH (S c) _ fuel Hm' Hf'). rewrite Er'. reflexivity.
    Qed.
  End Sum.

  Lemma tiea_sum : forall x : list T, src_sum O x = Some (sum O x).
  Proof.
    intro x. unfold src_sum, sum, rs_len. cbv zeta. rewrite chunks_nat.
    change 0%Z with (Z.of_nat 0). rewrite rs_range_excl_nat, Nat.sub_0_r.
    match goal with |- context [rs_fold_opt ?f _ _] => set (F := f) end.
    assert (F_spec : forall (s : T) (c : nat) (x0 x1 x2 x3 x4 x5 x6 x7 : T) (r : list T),
      skipn (8 * c) x = x0 :: x1 :: x2 :: x3 :: x4 :: x5 :: x6 :: x7 :: r ->
      F s (Z.of_nat c) = Some (s ⊕ (x0 ⊕ x1 ⊕ x2 ⊕ x3 ⊕ x4 ⊕ x5 ⊕ x6 ⊕ x7))).
    { intros s c x0 x1 x2 x3 x4 x5 x6 x7 r Er. unfold F.
      assert (Hl : 8 * c + 8 <= length x).
      { assert (E := f_equal (@length T) Er). rewrite skipn_length in E. cbn [length] in E. lia. }
      replace (Z.of_nat c * 8 + 7 <? Z.of_nat (length x))%Z with true by (symmetry; apply Z.ltb_lt; lia).
      replace (Z.of_nat c * 8)%Z with (Z.of_nat (8 * c + 0)) by lia.
      replace (Z.of_nat (8 * c + 0) + 1)%Z with (Z.of_nat (8 * c + 1)) by lia.
      replace (Z.of_nat (8 * c + 0) + 2)%Z with (Z.of_nat (8 * c + 2)) by lia.
      replace (Z.of_nat (8 * c + 0) + 3)%Z with (Z.of_nat (8 * c + 3)) by lia.
      replace (Z.of_nat (8 * c + 0) + 4)%Z with (Z.of_nat (8 * c + 4)) by lia.
      replace (Z.of_nat (8 * c + 0) + 5)%Z with (Z.of_nat (8 * c + 5)) by lia.
      replace (Z.of_nat (8 * c + 0) + 6)%Z with (Z.of_nat (8 * c + 6)) by lia.
      replace (Z.of_nat (8 * c + 0) + 7)%Z with (Z.of_nat (8 * c + 7)) by lia.
      rewrite !rs_get_nat, <- !nth_error_skipn_add, Er. reflexivity. }
    pose proof (sum_chunks x F F_spec (length x / 8) 0 (zero O) (S (length x))) as H.
    cbn [Nat.mul skipn Nat.add] in H.
    assert (Hlt : length x / 8 < S (length x)).
    { apply Nat.lt_succ_r. apply Nat.div_le_upper_bound; lia. }
    specialize (H eq_refl Hlt).
    unfold rs_skip, rs_take. rewrite Nat2Z.id, firstn_all.
    replace (Z.to_nat (Z.of_nat (length x / 8) * 8)) with (8 * (length x / 8)) by lia.
    destruct (rs_fold_opt F (rs_seq (Z.of_nat 0) (length x / 8)) (zero O)) as [s'|]; cbn [bind] in *; [|discriminate].
    exact H.
  Qed.

  (** ** dot *)
  Section Dot.
    Variables x y : list T.
    Hypothesis Exy : length x = length y.
    Variable F : T -> Z -> option T.
    Hypothesis F_spec : forall (s : T) (c : nat) (x0 x1 x2 x3 x4 x5 x6 x7 : T) (rx : list T) (y0 y1 y2 y3 y4 y5 y6 y7 : T) (ry : list T),
      skipn (8 * c) x = x0 :: x1 :: x2 :: x3 :: x4 :: x5 :: x6 :: x7 :: rx ->
      skipn (8 * c) y = y0 :: y1 :: y2 :: y3 :: y4 :: y5 :: y6 :: y7 :: ry ->
      F s (Z.of_nat c) = Some (s ⊕ (x0 ⊗ y0 ⊕ x1 ⊗ y1 ⊕ x2 ⊗ y2 ⊕ x3 ⊗ y3 ⊕ x4 ⊗ y4 ⊕ x5 ⊗ y5 ⊕ x6 ⊗ y6 ⊕ x7 ⊗ y7)).
    Lemma dot_chunks : forall (m c : nat) (s : T) (fuel : nat),
      m = length (skipn (8 * c) x) / 8 -> m < fuel ->
      (let* s' := rs_fold_opt F (rs_seq (Z.of_nat c) m) s in
       Some (fold_left (add O) (map2 (mul O) (skipn (8 * (c + m)) x) (skipn (8 * (c + m)) y)) s'))
      = Some (dot8 O fuel s (skipn (8 * c) x) (skipn (8 * c) y)).
    Proof.
      induction m as [|m IH]; intros c s fuel Hm Hf; (destruct fuel as [|fuel]; [lia|]).
      - cbn [rs_seq rs_fold_opt bind]. rewrite Nat.add_0_r. f_equal.
        destruct (skipn (8 * c) x) as [|x0 [|x1 [|x2 [|x3 [|x4 [|x5 [|x6 [|x7 rx]]]]]]]]; try reflexivity.
        rewrite div8_cons8 in Hm. discriminate.
      - assert (El : length (skipn (8 * c) y) = length (skipn (8 * c) x)) by (rewrite !skipn_length; lia).
        destruct (skipn (8 * c) x) as [|x0 [|x1 [|x2 [|x3 [|x4 [|x5 [|x6 [|x7 rx]]]]]]]] eqn:Erx;
          try (cbn in Hm; discriminate).
        destruct (skipn (8 * c) y) as [|y0 [|y1 [|y2 [|y3 [|y4 [|y5 [|y6 [|y7 ry]]]]]]]] eqn:Ery;
          try (cbn in El; discriminate).
        rewrite div8_cons8 in Hm. injection Hm as Hm.
        cbn [rs_seq rs_fold_opt]. rewrite (F_spec s c _ _ _ _ _ _ _ _ _ _ _ _ _ _ _ _ _ _ Erx Ery).
        replace (Z.of_nat c + 1)%Z with (Z.of_nat (S c)) by lia.
        assert (Erx' : skipn (8 * S c) x = rx).
        { replace (8 * S c) with (8 * c + 8) by lia. rewrite <- skipn_add, Erx. reflexivity. }
        assert (Ery' : skipn (8 * S c) y = ry).
        { replace (8 * S c) with (8 * c + 8) by lia. rewrite <- skipn_add, Ery. reflexivity. }
        replace (c + S m) with (S c + m) by lia.
        assert (Hm' : m = length (skipn (8 * S c) x) / 8) by (rewrite Erx'; exact Hm).
        assert (Hf' : m < fuel) by lia.
        rewrite (IH (S c) _ fuel Hm' Hf'). rewrite Erx', Ery'. reflexivity.
    Qed.
  End Dot.

  (** the remainder loop [for j in chunks * 8..n { s += x[j] * y[j] }] *)
  Lemma dot_rem_src : forall (x y : list T) (k : nat) (s : T), length x = length y ->
    rs_fold_opt (fun s j => let* g17 := rs_get x j in let* g18 := rs_get y j in let s := add O s (mul O g17 g18) in Some s)
                (rs_range_excl (Z.of_nat k) (Z.of_nat (length x))) s
    = Some (fold_left (add O) (map2 (mul O) (skipn k x) (skipn k y)) s).
  Proof.
    intros x y k s E. rewrite rs_range_excl_nat.
    rewrite (rs_fold_opt_seq _ (fun s j => s ⊕ (nth j (skipn k x) (zero O) ⊗ nth j (skipn k y) (zero O)))).
    - f_equal. replace (length x - k) with (length (skipn k x)) by (now rewrite skipn_length).
      rewrite (fold_left_combine_nth_seq (fun s a b => s ⊕ (a ⊗ b)) (skipn k x) (skipn k y) (zero O) (zero O))
        by (rewrite !skipn_length; lia).
      now rewrite fold_left_map2.
    - intros s' j Hj. rewrite (rs_get_off x k j (zero O)) by lia. rewrite (rs_get_off y k j (zero O)) by lia.
      cbn [bind]. now rewrite !nth_skipn_add.
  Qed.

  Lemma tiea_dot : forall x y : list T, src_dot O x y = dot O x y.
  Proof.
    intros x y. unfold src_dot, dot, dot_raw, rs_len. rewrite Zeqb_of_nat.
    destruct (length x =? length y) eqn:E; [|reflexivity]. apply Nat.eqb_eq in E.
    cbv zeta. rewrite chunks_nat.
    change 0%Z with (Z.of_nat 0). rewrite rs_range_excl_nat, Nat.sub_0_r.
    match goal with |- context [rs_fold_opt ?f (rs_seq _ _) _] => set (F := f) end.
    assert (F_spec : forall (s : T) (c : nat) (x0 x1 x2 x3 x4 x5 x6 x7 : T) (rx : list T) (y0 y1 y2 y3 y4 y5 y6 y7 : T) (ry : list T),
      skipn (8 * c) x = x0 :: x1 :: x2 :: x3 :: x4 :: x5 :: x6 :: x7 :: rx ->
      skipn (8 * c) y = y0 :: y1 :: y2 :: y3 :: y4 :: y5 :: y6 :: y7 :: ry ->
      F s (Z.of_nat c) = Some (s ⊕ (x0 ⊗ y0 ⊕ x1 ⊗ y1 ⊕ x2 ⊗ y2 ⊕ x3 ⊗ y3 ⊕ x4 ⊗ y4 ⊕ x5 ⊗ y5 ⊕ x6 ⊗ y6 ⊕ x7 ⊗ y7))).
    { intros s c x0 x1 x2 x3 x4 x5 x6 x7 rx y0 y1 y2 y3 y4 y5 y6 y7 ry Erx Ery. unfold F.
      assert (Hl : 8 * c + 8 <= length x).
      { assert (E' := f_equal (@length T) Erx). rewrite skipn_length in E'. cbn [length] in E'. lia. }
      replace (Z.of_nat c * 8 + 7 <? Z.of_nat (length x))%Z with true by (symmetry; apply Z.ltb_lt; lia).
      replace (Z.of_nat c * 8)%Z with (Z.of_nat (8 * c + 0)) by lia.
      replace (Z.of_nat (8 * c + 0) + 1)%Z with (Z.of_nat (8 * c + 1)) by lia.
      replace (Z.of_nat (8 * c + 0) + 2)%Z with (Z.of_nat (8 * c + 2)) by lia.
      replace (Z.of_nat (8 * c + 0) + 3)%Z with (Z.of_nat (8 * c + 3)) by lia.
      replace (Z.of_nat (8 * c + 0) + 4)%Z with (Z.of_nat (8 * c + 4)) by lia.
      replace (Z.of_nat (8 * c + 0) + 5)%Z with (Z.of_nat (8 * c + 5)) by lia.
      replace (Z.of_nat (8 * c + 0) + 6)%Z with (Z.of_nat (8 * c + 6)) by lia.
      replace (Z.of_nat (8 * c + 0) + 7)%Z with (Z.of_nat (8 * c + 7)) by lia.
      rewrite !rs_get_nat, <- !nth_error_skipn_add, Erx, Ery. reflexivity. }
    pose proof (dot_chunks x y E F F_spec (length x / 8) 0 (zero O) (S (length x))) as H.
    cbn [Nat.mul skipn Nat.add] in H.
    assert (Hlt : length x / 8 < S (length x)).
    { apply Nat.lt_succ_r. apply Nat.div_le_upper_bound; lia. }
    specialize (H eq_refl Hlt).
    replace (Z.of_nat (length x / 8) * 8)%Z with (Z.of_nat (8 * (length x / 8))) by lia.
    destruct (rs_fold_opt F (rs_seq (Z.of_nat 0) (length x / 8)) (zero O)) as [s'|]; cbn [bind] in *; [|discriminate].
    rewrite dot_rem_src by exact E. cbn [bind]. exact H.
  Qed.
  Lemma tiea_norm : forall x : list T, src_norm O x = Some (norm O x).
  Proof.
    intro x. unfold src_norm, norm. rewrite tiea_dot. unfold dot. rewrite Nat.eqb_refl. reflexivity.
  Qed.

  Lemma tiea_prod : forall x : list T, src_prod O x = prod O x.
  Proof. reflexivity. Qed.
  Lemma tiea_logsumexp : forall x : list T, src_logsumexp O (vmax O) x = logsumexp O x.
  Proof. reflexivity. Qed.
  Lemma tiea_logmeanexp : forall x : list T, src_logmeanexp O (vmax O) x = logmeanexp O x.
  Proof. reflexivity. Qed.
End TieA.
