(** Proofs for C11 / C01 (extension), floating point: the hypotheses of the binary64 Cholesky backward-error theorems
    are satisfiable: the SPD matrix [[3,1,1],[1,3,1],[1,1,3]], whose factor has no representable entry
    (l_00 = sqrt 3, l_10 = 1/sqrt 3, ...), factored and solved inside Coq on binary64. *)
From Coq Require Import List Arith Bool ZArith Reals Lra Lia Floats.
From Flocq Require Import Core BinarySingleNaN PrimFloat.
From Compute Require Import Base.Ops Base.ListMat Model.Reduce Model.MatMul Model.Subst Model.Cholesky Model.LU Model.Solve Model.SolveInst
  Spec.Vops Spec.Factor
  Proofs.C04Red Proofs.C04Err Proofs.C04ErrF Proofs.C04ErrDot Proofs.C04ErrNP Proofs.C04ErrEx
  Proofs.C11_FloatBase Proofs.C11_FloatSubst Proofs.C11_FloatPert Proofs.C11_FloatEx Proofs.C11_FloatChol Proofs.C11_FloatLU Proofs.C11_FloatLUSolve.
Import ListNotations.
Local Open Scope R_scope.

Ltac sym3 := intros i j Hi Hj; cases3 i; cases3 j; reflexivity.

Lemma cholesky_example :
  let a := [3; 1; 1;  1; 3; 1;  1; 1; 3]%float in
  exists l,
    cholesky FO0 a = Some l /\ (3 * 3)%nat = length a /\
    Forall finite l /\
    (forall i j k, (i < 3)%nat -> (j <= i)%nat -> (k < j)%nat ->
       B2Rf (nth (j * 3 + k) l 0%float) * B2Rf (nth (i * 3 + k) l 0%float) = 0 \/
       / 2 ^ 1022 <= Rabs (B2Rf (nth (j * 3 + k) l 0%float) * B2Rf (nth (i * 3 + k) l 0%float))) /\
    (forall i j, (i < 3)%nat -> (j < i)%nat ->
       let s := (nth (i * 3 + j) a 0 - dot_raw FO0 (firstn j (skipn (j * 3) l)) (firstn j (skipn (i * 3) l)))%float in
       B2Rf s / B2Rf (nth (j * 3 + j) l 0%float) = 0 \/ / 2 ^ 1022 <= Rabs (B2Rf s / B2Rf (nth (j * 3 + j) l 0%float))) /\
    symmetric (map B2Rf a) 3 /\
    (* the computed factor is not the exact one: l_00^2 <> 3 *)
    B2Rf (nth 0 l 0%float) * B2Rf (nth 0 l 0%float) <> 3.
Proof.
  cbv zeta. eexists. split; [vm_compute; reflexivity|]. split; [reflexivity|].
  split; [repeat constructor|].
  split; [intros i j k Hi Hj Hk; cases3 i; cases3 j; cases3 k; fcompute; nuq_tac|].
  split; [intros i j Hi Hj; cases3 i; cases3 j; fcompute; nuq_tac|].
  split; [sym3|].
  fcompute. b2rf_compute. lra.
Qed.

Lemma matrix_cholesky_example :
  let m := {| nr := 3; nc := 3; dat := [3; 1; 1;  1; 3; 1;  1; 1; 3]%float |} in
  exists r,
    matrix_cholesky FO0 m = Some r /\
    let n := nr m in let a := dat m in let l := dat r in
    Forall finite l /\
    (forall i j k, (i < n)%nat -> (j <= i)%nat -> (k < j)%nat ->
       B2Rf (nth (j * n + k) l 0%float) * B2Rf (nth (i * n + k) l 0%float) = 0 \/
       / 2 ^ 1022 <= Rabs (B2Rf (nth (j * n + k) l 0%float) * B2Rf (nth (i * n + k) l 0%float))) /\
    (forall i j, (i < n)%nat -> (j < i)%nat ->
       let s := (nth (i * n + j) a 0
                 - dot_raw FO0 (firstn n (skipn (j * n) l)) (pad FO0 n (firstn j (skipn (i * n) l))))%float in
       B2Rf s / B2Rf (nth (j * n + j) l 0%float) = 0 \/ / 2 ^ 1022 <= Rabs (B2Rf s / B2Rf (nth (j * n + j) l 0%float))) /\
    symmetric (map B2Rf a) n.
Proof.
  cbv zeta. eexists. split; [vm_compute; reflexivity|]. cbn [nr nc dat].
  split; [repeat constructor|].
  split; [intros i j k Hi Hj Hk; cases3 i; cases3 j; cases3 k; fcompute; nuq_tac|].
  split; [intros i j Hi Hj; cases3 i; cases3 j; fcompute; nuq_tac|].
  sym3.
Qed.

Lemma solve_cholesky_branch_example :
  let a := [3; 1; 1;  1; 3; 1;  1; 1; 3]%float in let b := [1; 1; 1]%float in
  exists l y lt x,
    slice_solve FO0 a b = Some x /\ is_positive_definite FO0 a = Some true /\
    try_cholesky FO0 a = Some (Some l) /\ length b = 3%nat /\
    forward_substitution FO0 l b = Some y /\ transpose FO0 l 3 = Some lt /\
    Forall finite l /\ Forall finite y /\ Forall finite x /\
    (forall i j k, (i < 3)%nat -> (j <= i)%nat -> (k < j)%nat ->
       B2Rf (nth (j * 3 + k) l 0%float) * B2Rf (nth (i * 3 + k) l 0%float) = 0 \/
       / 2 ^ 1022 <= Rabs (B2Rf (nth (j * 3 + k) l 0%float) * B2Rf (nth (i * 3 + k) l 0%float))) /\
    (forall i j, (i < 3)%nat -> (j < i)%nat ->
       let s := (nth (i * 3 + j) a 0 - dot_raw FO0 (firstn j (skipn (j * 3) l)) (firstn j (skipn (i * 3) l)))%float in
       B2Rf s / B2Rf (nth (j * 3 + j) l 0%float) = 0 \/ / 2 ^ 1022 <= Rabs (B2Rf s / B2Rf (nth (j * 3 + j) l 0%float))) /\
    (forall i j, (i < 3)%nat -> (j < i)%nat ->
       B2Rf (nth (i * 3 + j) l 0%float) * B2Rf (nth j y 0%float) = 0 \/
       / 2 ^ 1022 <= Rabs (B2Rf (nth (i * 3 + j) l 0%float) * B2Rf (nth j y 0%float))) /\
    (forall i, (i < 3)%nat ->
       let s := (nth i b 0 - dot_raw FO0 (firstn i (skipn (i * 3) l)) (firstn i y))%float in
       B2Rf s / B2Rf (nth (i * 3 + i) l 0%float) = 0 \/ / 2 ^ 1022 <= Rabs (B2Rf s / B2Rf (nth (i * 3 + i) l 0%float))) /\
    (forall i j, (i < j)%nat -> (j < 3)%nat ->
       B2Rf (nth (j * 3 + i) l 0%float) * B2Rf (nth j x 0%float) = 0 \/
       / 2 ^ 1022 <= Rabs (B2Rf (nth (j * 3 + i) l 0%float) * B2Rf (nth j x 0%float))) /\
    (forall i, (i < 3)%nat ->
       let s := (nth i y 0 - dot_raw FO0 (firstn (3 - S i) (skipn (i * 3 + S i) lt)) (skipn (S i) x))%float in
       B2Rf s / B2Rf (nth (i * 3 + i) l 0%float) = 0 \/ / 2 ^ 1022 <= Rabs (B2Rf s / B2Rf (nth (i * 3 + i) l 0%float))) /\
    symmetric (map B2Rf a) 3.
Proof.
  cbv zeta. eexists. eexists. eexists. eexists.
  split; [vm_compute; reflexivity|]. split; [vm_compute; reflexivity|]. split; [vm_compute; reflexivity|].
  split; [reflexivity|]. split; [vm_compute; reflexivity|]. split; [vm_compute; reflexivity|].
  split; [repeat constructor|]. split; [repeat constructor|]. split; [repeat constructor|].
  split; [intros i j k Hi Hj Hk; cases3 i; cases3 j; cases3 k; fcompute; nuq_tac|].
  split; [intros i j Hi Hj; cases3 i; cases3 j; fcompute; nuq_tac|].
  split; [intros i j Hi Hj; cases3 i; cases3 j; fcompute; nuq_tac|].
  split; [intros i Hi; cases3 i; fcompute; nuq_tac|].
  split; [intros i j Hi Hj; cases3 j; cases3 i; fcompute; nuq_tac|].
  split; [intros i Hi; cases3 i; fcompute; nuq_tac|].
  sym3.
Qed.

(** LU without a row exchange: the same matrix (the pivot of every column is already on the diagonal); l_10 = 1/3 *)
Lemma lu_no_swap_example :
  let a := [3; 1; 1;  1; 3; 1;  1; 1; 3]%float in
  exists m,
    lu FO0 a = Some (m, seq 0 3) /\ (3 * 3)%nat = length a /\
    Forall finite m /\
    (forall j, (j < 3)%nat -> B2Rf (nth (j * 3 + j) m 0%float) <> 0) /\
    (forall i j k, (i < 3)%nat -> (j < 3)%nat -> (k < Nat.min i j)%nat ->
       B2Rf (nth (i * 3 + k) m 0%float) * B2Rf (nth (k * 3 + j) m 0%float) = 0 \/
       / 2 ^ 1022 <= Rabs (B2Rf (nth (i * 3 + k) m 0%float) * B2Rf (nth (k * 3 + j) m 0%float))) /\
    (forall i j, (i < 3)%nat -> (j < i)%nat ->
       let s := (nth (i * 3 + j) a 0
                 - lu_acc FO0 (fun k => nth (i * 3 + k) m 0) (fun k => nth (k * 3 + j) m 0) j)%float in
       B2Rf s / B2Rf (nth (j * 3 + j) m 0%float) = 0 \/ / 2 ^ 1022 <= Rabs (B2Rf s / B2Rf (nth (j * 3 + j) m 0%float))) /\
    3 * B2Rf (nth 3 m 0%float) <> 1.
Proof.
  cbv zeta. eexists. split; [vm_compute; reflexivity|]. split; [reflexivity|].
  split; [repeat constructor|].
  split; [intros j Hj; cases3 j; fcompute; b2rf_compute; lra|].
  split; [intros i j k Hi Hj Hk; cases3 i; cases3 j; cbn in Hk; cases3 k; fcompute; nuq_tac|].
  split; [intros i j Hi Hj; cases3 i; cases3 j; fcompute; nuq_tac|].
  fcompute. b2rf_compute. lra.
Qed.

(** LU WITH a row exchange: rows 0 and 1 of [[1,3,1],[3,1,1],[1,1,3]] are exchanged at step 0 (pivot vector [1;0;2]) *)
Lemma lu_pivoted_example :
  let a := [1; 3; 1;  3; 1; 1;  1; 1; 3]%float in
  exists m piv,
    lu FO0 a = Some (m, piv) /\ (3 * 3)%nat = length a /\ piv = [1; 0; 2]%nat /\
    Forall finite m /\
    (forall j, (j < 3)%nat -> B2Rf (nth (j * 3 + j) m 0%float) <> 0) /\
    (forall i j k, (i < 3)%nat -> (j < 3)%nat -> (k < Nat.min i j)%nat ->
       B2Rf (nth (i * 3 + k) m 0%float) * B2Rf (nth (k * 3 + j) m 0%float) = 0 \/
       / 2 ^ 1022 <= Rabs (B2Rf (nth (i * 3 + k) m 0%float) * B2Rf (nth (k * 3 + j) m 0%float))) /\
    (forall i j, (i < 3)%nat -> (j < i)%nat ->
       let s := (nth (nth i piv 0%nat * 3 + j) a 0
                 - lu_acc FO0 (fun k => nth (i * 3 + k) m 0) (fun k => nth (k * 3 + j) m 0) j)%float in
       B2Rf s / B2Rf (nth (j * 3 + j) m 0%float) = 0 \/ / 2 ^ 1022 <= Rabs (B2Rf s / B2Rf (nth (j * 3 + j) m 0%float))) /\
    3 * B2Rf (nth 3 m 0%float) <> 1.
Proof.
  cbv zeta. eexists. eexists. split; [vm_compute; reflexivity|]. split; [reflexivity|]. split; [reflexivity|].
  split; [repeat constructor|].
  split; [intros j Hj; cases3 j; fcompute; b2rf_compute; lra|].
  split; [intros i j k Hi Hj Hk; cases3 i; cases3 j; cbn in Hk; cases3 k; fcompute; nuq_tac|].
  split; [intros i j Hi Hj; cases3 i; cases3 j; fcompute; nuq_tac|].
  fcompute. b2rf_compute. lra.
Qed.

(** the LU branch of [solve] end to end: [[1,3,1],[3,1,1],[1,1,3]] is symmetric with a positive diagonal (the routing
    predicate accepts it) but indefinite: the fallible Cholesky sweep meets the pivot 1 - 9 < 0 and [solve] falls back to
    LU (the D1 repair); rows 0 and 1 are exchanged *)
Lemma solve_lu_branch_example :
  let a := [1; 3; 1;  3; 1; 1;  1; 1; 3]%float in let b := [1; 1; 1]%float in
  exists m piv y x,
    slice_solve FO0 a b = Some x /\
    (is_positive_definite FO0 a = Some true /\ try_cholesky FO0 a = Some None) /\
    lu FO0 a = Some (m, piv) /\ length b = 3%nat /\
    y = fwd_elim FO0 (unflatten m 3 3) 3 (map (fun p => nth p b 0%float) piv) /\
    Forall finite m /\ Forall finite y /\ Forall finite x /\
    (forall j, (j < 3)%nat -> B2Rf (nth (j * 3 + j) m 0%float) <> 0) /\
    (forall i j k, (i < 3)%nat -> (j < 3)%nat -> (k < Nat.min i j)%nat ->
       B2Rf (nth (i * 3 + k) m 0%float) * B2Rf (nth (k * 3 + j) m 0%float) = 0 \/
       / 2 ^ 1022 <= Rabs (B2Rf (nth (i * 3 + k) m 0%float) * B2Rf (nth (k * 3 + j) m 0%float))) /\
    (forall i j, (i < 3)%nat -> (j < i)%nat ->
       let s := (nth (nth i piv 0%nat * 3 + j) a 0
                 - fold_left (fun acc k => acc + nth (i * 3 + k) m 0 * nth (k * 3 + j) m 0) (seq 0 j) 0)%float in
       B2Rf s / B2Rf (nth (j * 3 + j) m 0%float) = 0 \/ / 2 ^ 1022 <= Rabs (B2Rf s / B2Rf (nth (j * 3 + j) m 0%float))) /\
    (forall i k, (i < 3)%nat -> (k < i)%nat ->
       B2Rf (nth k y 0%float) * B2Rf (nth (i * 3 + k) m 0%float) = 0 \/
       / 2 ^ 1022 <= Rabs (B2Rf (nth k y 0%float) * B2Rf (nth (i * 3 + k) m 0%float))) /\
    (forall i k, (i < k)%nat -> (k < 3)%nat ->
       B2Rf (nth k x 0%float) * B2Rf (nth (i * 3 + k) m 0%float) = 0 \/
       / 2 ^ 1022 <= Rabs (B2Rf (nth k x 0%float) * B2Rf (nth (i * 3 + k) m 0%float))) /\
    (forall i, (i < 3)%nat ->
       let s := fold_left (fun s k => (s - nth k x 0 * nth (i * 3 + k) m 0)%float) (rev (seq (S i) (3 - S i))) (nth i y 0%float) in
       B2Rf s / B2Rf (nth (i * 3 + i) m 0%float) = 0 \/ / 2 ^ 1022 <= Rabs (B2Rf s / B2Rf (nth (i * 3 + i) m 0%float))).
Proof.
  cbv zeta. eexists. eexists. eexists. eexists.
  split; [vm_compute; reflexivity|]. split; [split; vm_compute; reflexivity|]. split; [vm_compute; reflexivity|].
  split; [reflexivity|]. split; [vm_compute; reflexivity|].
  split; [repeat constructor|]. split; [repeat constructor|]. split; [repeat constructor|].
  split; [intros j Hj; cases3 j; fcompute; b2rf_compute; lra|].
  split; [intros i j k Hi Hj Hk; cases3 i; cases3 j; cbn in Hk; cases3 k; fcompute; nuq_tac|].
  split; [intros i j Hi Hj; cases3 i; cases3 j; fcompute; nuq_tac|].
  split; [intros i k Hi Hk; cases3 i; cases3 k; fcompute; nuq_tac|].
  split; [intros i k Hi Hk; cases3 k; cases3 i; fcompute; nuq_tac|].
  intros i Hi; cases3 i; fcompute; nuq_tac.
Qed.

(** [lu_solve] on the factors of [[1,3,1],[3,1,1],[1,1,3]] (pivot vector [1;0;2]) and b = (1,1,1) *)
Lemma lu_solve_example :
  let a := [1; 3; 1;  3; 1; 1;  1; 1; 3]%float in let b := [1; 1; 1]%float in
  exists m piv y x,
    lu FO0 a = Some (m, piv) /\ lu_solve FO0 m piv b = Some x /\ length b = 3%nat /\ length piv = 3%nat /\
    y = fwd_elim FO0 (unflatten m 3 3) 3 (map (fun p => nth p b 0%float) piv) /\
    Forall finite y /\ Forall finite x /\
    (forall i, (i < 3)%nat -> B2Rf (nth (i * 3 + i) m 0%float) <> 0) /\
    (forall i k, (i < 3)%nat -> (k < i)%nat ->
       B2Rf (nth k y 0%float) * B2Rf (nth (i * 3 + k) m 0%float) = 0 \/
       / 2 ^ 1022 <= Rabs (B2Rf (nth k y 0%float) * B2Rf (nth (i * 3 + k) m 0%float))) /\
    (forall i k, (i < k)%nat -> (k < 3)%nat ->
       B2Rf (nth k x 0%float) * B2Rf (nth (i * 3 + k) m 0%float) = 0 \/
       / 2 ^ 1022 <= Rabs (B2Rf (nth k x 0%float) * B2Rf (nth (i * 3 + k) m 0%float))) /\
    (forall i, (i < 3)%nat ->
       let s := fold_left (fun s k => (s - nth k x 0 * nth (i * 3 + k) m 0)%float) (rev (seq (S i) (3 - S i))) (nth i y 0%float) in
       B2Rf s / B2Rf (nth (i * 3 + i) m 0%float) = 0 \/ / 2 ^ 1022 <= Rabs (B2Rf s / B2Rf (nth (i * 3 + i) m 0%float))).
Proof.
  cbv zeta. eexists. eexists. eexists. eexists.
  split; [vm_compute; reflexivity|]. split; [vm_compute; reflexivity|]. split; [reflexivity|]. split; [reflexivity|].
  split; [vm_compute; reflexivity|].
  split; [repeat constructor|]. split; [repeat constructor|].
  split; [intros j Hj; cases3 j; fcompute; b2rf_compute; lra|].
  split; [intros i k Hi Hk; cases3 i; cases3 k; fcompute; nuq_tac|].
  split; [intros i k Hi Hk; cases3 k; cases3 i; fcompute; nuq_tac|].
  intros i Hi; cases3 i; fcompute; nuq_tac.
Qed.
