(** Proofs for C11 (extension), floating point, part 6: the residual form of the componentwise backward error of the two
    triangular solves on binary64 WITHOUT the "no product underflows" and "no quotient underflows" hypotheses.

    A correctly rounded binary64 result r' = fl(r) that does not overflow satisfies, for EVERY real r,
        | r' - r |  <=  u |r'| + eta ,    u = 2^-53, eta = 2^-1075
    (relative to the rounded value in the normal range, at most half the subnormal spacing below it); additions and
    subtractions need no absolute term.  Row i of a triangular solve, x_i = fl( fl( b_i - dot(t_i, x) ) / t_ii ) with a
    dot product of m terms, then satisfies
        | b_i - ( Sigma_k t_ik x_k + t_ii x_i ) |
          <=  ((1+u)^(m+1) - 1) * ( Sigma_k |t_ik x_k| + |t_ii x_i| )  +  eta * ( m (1+u)^m + (1+u) |t_ii| ) :
    each underflowing product contributes at most eta (amplified by the later additions), the quotient at most
    eta, scaled by the diagonal entry. *)
From Coq Require Import List Arith Bool ZArith Reals Lra Lia Floats.
From Flocq Require Import Core Relative Plus_error BinarySingleNaN PrimFloat.
From Compute Require Import Base.Ops Base.ListMat Model.Reduce Model.MatMul Model.Subst Model.Cholesky Spec.Vops Spec.Factor
  Proofs.C04Red Proofs.C04Err Proofs.C04ErrF Proofs.C04ErrDot Proofs.C04ErrNP Proofs.C04ErrGen Proofs.C05 Proofs.LinAlgBase
  Proofs.C11_Subst Proofs.C11_FloatBase Proofs.C11_FloatSubst.
Import ListNotations.
Local Open Scope R_scope.
Local Existing Instance Flocq.IEEE754.PrimFloat.Hprec.
Local Existing Instance Flocq.IEEE754.PrimFloat.Hmax.

(** ** one rounding, error relative to the ROUNDED value plus the absolute term, every real argument *)
Lemma rnd64_gen_round (r : R) : Rabs (rnd64 r - r) <= u64 * Rabs (rnd64 r) + eta64.
Proof.
  destruct (Rle_dec tiny (Rabs r)) as [Hn|Hs].
  - pose proof (rnd64_rel_round r (or_intror Hn)). pose proof eta64_nonneg. lra.
  - assert (Hu : ulp radix2 (FLT_exp (-1074) 53) r = bpow radix2 (-1074)).
    { apply ulp_FLT_small; [reflexivity|]. apply Rlt_le_trans with tiny; [lra|].
      unfold tiny. apply bpow_le. lia. }
    pose proof (error_le_half_ulp radix2 (FLT_exp (-1074) 53) (fun z => negb (Z.even z)) r) as He.
    rewrite Hu in He. fold eta64 in He.
    change (round radix2 (FLT_exp (-1074) 53) (Znearest (fun z => negb (Z.even z))) r) with (rnd64 r) in He.
    pose proof u64_nonneg. pose proof (Rabs_pos (rnd64 r)). nra.
Qed.

(** ** real arithmetic: the two roundings after the dot product, with absolute terms *)
Lemma row_step_err_abs (u e b d' t s' x' c A a eta : R) :
  0 <= u -> (1 + u) ^ 2 - 1 <= e -> 0 <= A -> 0 <= eta ->
  Rabs (s' - (b - d')) <= u * Rabs s' ->
  Rabs (x' - s' / t) <= u * Rabs x' + eta -> t <> 0 ->
  Rabs (d' - c) <= e * A + a ->
  Rabs (b - (c + t * x')) <= e * (A + Rabs (t * x')) + (a + (1 + u) * Rabs t * eta).
Proof.
  intros Hu He HA Heta Hs Hx Ht Hd.
  set (y := t * x').
  assert (H1 : Rabs (y - s') <= u * Rabs y + Rabs t * eta).
  { replace (y - s') with (t * (x' - s' / t)) by (unfold y; field; exact Ht).
    unfold y. rewrite !Rabs_mult.
    replace (u * (Rabs t * Rabs x') + Rabs t * eta) with (Rabs t * (u * Rabs x' + eta)) by ring.
    apply Rmult_le_compat_l; [apply Rabs_pos|exact Hx]. }
  assert (H2 : Rabs s' <= Rabs y + Rabs (y - s')).
  { replace s' with (y - (y - s')) at 1 by ring. unfold Rminus at 1.
    eapply Rle_trans; [apply Rabs_triang|]. rewrite Rabs_Ropp. lra. }
  assert (H3 : u * Rabs s' <= u * ((1 + u) * Rabs y + Rabs t * eta)) by (apply Rmult_le_compat_l; lra).
  replace (b - (c + y)) with ((- (s' - (b - d')) + - (y - s')) + (d' - c)) by ring.
  eapply Rle_trans; [apply Rabs_triang|].
  eapply Rle_trans; [apply Rplus_le_compat_r, Rabs_triang|]. rewrite !Rabs_Ropp.
  pose proof (Rabs_pos y) as Hy.
  assert (H4 : ((1 + u) ^ 2 - 1) * Rabs y <= e * Rabs y) by (apply Rmult_le_compat_r; assumption).
  simpl in H4. nra.
Qed.

Lemma row_step_first_abs (u b t x' eta : R) :
  Rabs (x' - b / t) <= u * Rabs x' + eta -> t <> 0 -> Rabs (b - t * x') <= u * Rabs (t * x') + Rabs t * eta.
Proof.
  intros Hx Ht. replace (b - t * x') with (- (t * (x' - b / t))) by (field; exact Ht).
  rewrite Rabs_Ropp, !Rabs_mult.
  replace (u * (Rabs t * Rabs x') + Rabs t * eta) with (Rabs t * (u * Rabs x' + eta)) by ring.
  apply Rmult_le_compat_l; [apply Rabs_pos|exact Hx].
Qed.

(** ** one row on binary64, no underflow hypothesis *)
Theorem row_F_error_general (tbl : libm_table) (r xs : list pfloat) (bi t : pfloat) :
  length r = length xs ->
  B2Rf t <> 0 ->
  finite (div (FO tbl) (sub (FO tbl) bi (dot_raw (FO tbl) r xs)) t) ->
  finite bi /\ finite (dot_raw (FO tbl) r xs) /\
  Rabs (B2Rf bi - (Rdot (map B2Rf r) (map B2Rf xs)
                   + B2Rf t * B2Rf (div (FO tbl) (sub (FO tbl) bi (dot_raw (FO tbl) r xs)) t)))
  <= E u64 (S (length r))
     * (Rsum (map Rabs (map2 Rmult (map B2Rf r) (map B2Rf xs)))
        + Rabs (B2Rf t * B2Rf (div (FO tbl) (sub (FO tbl) bi (dot_raw (FO tbl) r xs)) t)))
     + (INR (length r) * eta64 * (1 + u64) ^ length r + (1 + u64) * Rabs (B2Rf t) * eta64).
Proof.
  intros Hl Ht Hfin.
  set (d := dot_raw (FO tbl) r xs) in *. cbn [div sub FO] in *.
  destruct (fdiv_finite _ _ Ht Hfin) as (Hfs & Hx).
  destruct (fsub_finite _ _ Hfs) as (Hfb & Hfd & Hs).
  split; [exact Hfb|]. split; [exact Hfd|].
  pose proof (rnd64_gen_round (B2Rf (bi - d)%float / B2Rf t)) as Hxe. rewrite <- Hx in Hxe.
  destruct r as [|r0 r'].
  - destruct xs as [|? ?]; [|discriminate Hl].
    assert (Hd0 : B2Rf d = 0) by (unfold d; rewrite dot_raw_nil_l; apply B2Rf_zero).
    assert (Hsb : B2Rf (bi - d)%float = B2Rf bi).
    { rewrite Hs, Hd0, Rminus_0_r. apply rnd64_F64, F64_B2Rf. }
    rewrite Hsb in Hxe.
    cbn [map map2 length]. unfold Rdot. cbn [map2]. unfold Rsum. cbn [map fold_right INR pow].
    rewrite !Rplus_0_l. unfold E. rewrite pow_1. replace (1 + u64 - 1) with u64 by ring.
    pose proof (row_step_first_abs u64 _ _ _ eta64 Hxe Ht) as H.
    pose proof u64_nonneg. pose proof eta64_nonneg. pose proof (Rabs_pos (B2Rf t)).
    assert (0 <= u64 * Rabs (B2Rf t) * eta64) by (apply Rmult_le_pos; [apply Rmult_le_pos|]; assumption).
    lra.
  - pose proof (dot_F_error_general_raw tbl (r0 :: r') xs Hl Hfd) as Hd. fold d in Hd.
    rewrite <- u64_val, <- eta64_val in Hd. fold (E u64 (S (length (r0 :: r')))) in Hd.
    pose proof (rnd64_sub_round (B2Rf bi) (B2Rf d) (F64_B2Rf _) (F64_B2Rf _)) as Hse. rewrite <- Hs in Hse.
    apply (row_step_err_abs u64 _ (B2Rf bi) (B2Rf d) (B2Rf t) (B2Rf (bi - d)%float)); try assumption.
    + apply u64_nonneg.
    + apply (E_mono u64 u64_nonneg 2). cbn [length]. lia.
    + apply Asum_nonneg.
    + apply eta64_nonneg.
Qed.

Lemma pow_1pu_mono (k k' : nat) : (k <= k')%nat -> INR k * (1 + u64) ^ k <= INR k' * (1 + u64) ^ k'.
Proof.
  intros H. pose proof u64_nonneg.
  apply Rmult_le_compat; [apply pos_INR|apply pow_le; lra|apply le_INR; exact H|apply Rle_pow; [lra|exact H]].
Qed.

(** ** forward substitution on binary64: residual form, row by row, no underflow hypothesis *)
Section ForwardGen.
  Variables (tbl : libm_table) (l b x : list pfloat) (n : nat).
  Hypothesis Hrun : forward_substitution (FO tbl) l b = Some x.
  Hypothesis Hn : (n * n)%nat = length l.
  Hypothesis Hdiag : forall i, (i < n)%nat -> B2Rf (nth (i * n + i) l 0%float) <> 0.
  Hypothesis Hfin : Forall finite x.

  Lemma fwd_F_row_general (i : nat) :
    (i < n)%nat ->
    finite (nth i b 0%float) /\
    Rabs (nth i (map B2Rf b) 0 - rsum (fun k => lower_part (map B2Rf l) n i k * nth k (map B2Rf x) 0) n)
    <= E u64 (S i) * rsum (fun k => Rabs (lower_part (map B2Rf l) n i k) * Rabs (nth k (map B2Rf x) 0)) n
       + (INR i * eta64 * (1 + u64) ^ i + (1 + u64) * Rabs (B2Rf (nth (i * n + i) l 0%float)) * eta64).
  Proof.
    intros Hi. destruct (forward_recurrence (FO tbl) l b x n Hrun Hn) as (Hbl & Hxl & Hrec).
    specialize (Hrec i Hi). cbn [zero FO] in Hrec.
    set (r := firstn i (skipn (i * n) l)) in *. set (xs := firstn i x) in *.
    assert (Hlr : length r = i).
    { unfold r. rewrite firstn_length, skipn_length, <- Hn. apply Nat.min_l. nia. }
    assert (Hlxs : length xs = i) by (unfold xs; rewrite firstn_length, Hxl; lia).
    assert (Hnr : forall k, (k < i)%nat -> nth k r 0%float = nth (i * n + k) l 0%float).
    { intros k Hk. unfold r. rewrite nth_firstn_lt by exact Hk. apply nth_skipn_plus. }
    assert (Hnx : forall k, (k < i)%nat -> nth k xs 0%float = nth k x 0%float).
    { intros k Hk. unfold xs. apply nth_firstn_lt. exact Hk. }
    assert (Hfi : finite (nth i x 0%float)).
    { apply (proj1 (Forall_forall finite x) Hfin). apply nth_In. lia. }
    rewrite Hrec in Hfi.
    destruct (row_F_error_general tbl r xs (nth i b 0%float) (nth (i * n + i) l 0%float)) as (Hfb & _ & Herr).
    - lia.
    - apply Hdiag; exact Hi.
    - exact Hfi.
    - split; [exact Hfb|].
      rewrite <- Hrec in Herr.
      rewrite Hlr in Herr.
      rewrite Rdot_rsum, Asum_map2_rsum in Herr by (rewrite !map_length; lia).
      rewrite map_length, Hlr in Herr.
      unfold lower_part.
      rewrite (rsum_lower_gen Rmult (fun k => getm (map B2Rf l) n i k) _ i n Hi Fmul0).
      rewrite (rsum_lower_gen (fun a y => Rabs a * Rabs y) (fun k => getm (map B2Rf l) n i k) _ i n Hi Fabs0).
      cbn [rsum]. unfold getm. rewrite !nth_map_B2Rf.
      rewrite (rsum_ext (fun k => nth (i * n + k) (map B2Rf l) 0 * nth k (map B2Rf x) 0)
                        (fun k => nth k (map B2Rf r) 0 * nth k (map B2Rf xs) 0)).
      2:{ intros k Hk. rewrite !nth_map_B2Rf, Hnr, Hnx by exact Hk. reflexivity. }
      rewrite (rsum_ext (fun k => Rabs (nth (i * n + k) (map B2Rf l) 0) * Rabs (nth k (map B2Rf x) 0))
                        (fun k => Rabs (nth k (map B2Rf r) 0) * Rabs (nth k (map B2Rf xs) 0))).
      2:{ intros k Hk. rewrite !nth_map_B2Rf, Hnr, Hnx by exact Hk. reflexivity. }
      rewrite <- Rabs_mult. exact Herr.
  Qed.

  Lemma fwd_F_residual_general (i : nat) :
    (i < n)%nat ->
    Rabs (nth i (map B2Rf b) 0 - rsum (fun k => lower_part (map B2Rf l) n i k * nth k (map B2Rf x) 0) n)
    <= ((1 + / 2 ^ 53) ^ n - 1) * rsum (fun k => Rabs (lower_part (map B2Rf l) n i k) * Rabs (nth k (map B2Rf x) 0)) n
       + / 2 ^ 1075 * (INR n * (1 + / 2 ^ 53) ^ n + (1 + / 2 ^ 53) * Rabs (B2Rf (nth (i * n + i) l 0%float))).
  Proof.
    intros Hi. destruct (fwd_F_row_general i Hi) as [_ H]. eapply Rle_trans; [exact H|].
    rewrite <- u64_val, <- eta64_val. apply Rplus_le_compat.
    - apply Rmult_le_compat_r; [apply rsum_abs_nonneg|]. apply (E_mono u64 u64_nonneg). lia.
    - pose proof (pow_1pu_mono i n ltac:(lia)). pose proof eta64_nonneg. nra.
  Qed.

  Lemma fwd_F_rowwise_general (i : nat) :
    (i < n)%nat ->
    Rabs (nth i (map B2Rf b) 0 - rsum (fun k => lower_part (map B2Rf l) n i k * nth k (map B2Rf x) 0) n)
    <= ((1 + / 2 ^ 53) ^ S i - 1) * rsum (fun k => Rabs (lower_part (map B2Rf l) n i k) * Rabs (nth k (map B2Rf x) 0)) n
       + / 2 ^ 1075 * (INR i * (1 + / 2 ^ 53) ^ i + (1 + / 2 ^ 53) * Rabs (B2Rf (nth (i * n + i) l 0%float))).
  Proof.
    intros Hi. destruct (fwd_F_row_general i Hi) as [_ H]. eapply Rle_trans; [exact H|].
    rewrite <- u64_val, <- eta64_val. apply Req_le. unfold E. ring.
  Qed.

  Lemma fwd_F_rhs_finite_general : Forall finite b.
  Proof.
    destruct (forward_recurrence (FO tbl) l b x n Hrun Hn) as (Hbl & _ & _).
    apply Forall_forall. intros f Hf. destruct (In_nth b f 0%float Hf) as (i & Hi & <-).
    apply fwd_F_row_general. lia.
  Qed.
End ForwardGen.

(** ** backward substitution on binary64, no underflow hypothesis *)
Section BackwardGen.
  Variables (tbl : libm_table) (u b x : list pfloat) (n : nat).
  Hypothesis Hrun : backward_substitution (FO tbl) u b = Some x.
  Hypothesis Hn : (n * n)%nat = length u.
  Hypothesis Hdiag : forall i, (i < n)%nat -> B2Rf (nth (i * n + i) u 0%float) <> 0.
  Hypothesis Hfin : Forall finite x.

  Lemma bwd_F_row_general (i : nat) :
    (i < n)%nat ->
    finite (nth i b 0%float) /\
    Rabs (nth i (map B2Rf b) 0 - rsum (fun k => upper_part (map B2Rf u) n i k * nth k (map B2Rf x) 0) n)
    <= E u64 (n - i) * rsum (fun k => Rabs (upper_part (map B2Rf u) n i k) * Rabs (nth k (map B2Rf x) 0)) n
       + (INR (n - S i) * eta64 * (1 + u64) ^ (n - S i) + (1 + u64) * Rabs (B2Rf (nth (i * n + i) u 0%float)) * eta64).
  Proof.
    intros Hi. destruct (backward_recurrence (FO tbl) u b x n Hrun Hn) as (Hbl & Hxl & Hrec).
    specialize (Hrec i Hi). cbn [zero FO] in Hrec.
    set (r := firstn (n - S i) (skipn (i * n + S i) u)) in *. set (xs := skipn (S i) x) in *.
    assert (Hlr : length r = (n - S i)%nat).
    { unfold r. rewrite firstn_length, skipn_length, <- Hn. apply Nat.min_l. nia. }
    assert (Hlxs : length xs = (n - S i)%nat) by (unfold xs; rewrite skipn_length, Hxl; lia).
    assert (Hnr : forall k, (k < n - S i)%nat -> nth k r 0%float = nth (i * n + (S i + k)) u 0%float).
    { intros k Hk. unfold r. rewrite nth_firstn_lt by exact Hk. rewrite nth_skipn_plus. f_equal. lia. }
    assert (Hnx : forall k, nth k xs 0%float = nth (S i + k) x 0%float).
    { intros k. unfold xs. apply nth_skipn_plus. }
    assert (Hfi : finite (nth i x 0%float)).
    { apply (proj1 (Forall_forall finite x) Hfin). apply nth_In. lia. }
    rewrite Hrec in Hfi.
    destruct (row_F_error_general tbl r xs (nth i b 0%float) (nth (i * n + i) u 0%float)) as (Hfb & _ & Herr).
    - lia.
    - apply Hdiag; exact Hi.
    - exact Hfi.
    - split; [exact Hfb|].
      rewrite <- Hrec in Herr.
      rewrite Hlr in Herr. replace (S (n - S i)) with (n - i)%nat in Herr by lia.
      rewrite Rdot_rsum, Asum_map2_rsum in Herr by (rewrite !map_length; lia).
      rewrite map_length, Hlr in Herr.
      unfold upper_part.
      rewrite (rsum_upper_gen Rmult (fun k => getm (map B2Rf u) n i k) _ i n Hi Fmul0).
      rewrite (rsum_upper_gen (fun a y => Rabs a * Rabs y) (fun k => getm (map B2Rf u) n i k) _ i n Hi Fabs0).
      unfold getm. rewrite !nth_map_B2Rf.
      rewrite (rsum_ext (fun m => nth (i * n + (S i + m)) (map B2Rf u) 0 * nth (S i + m) (map B2Rf x) 0)
                        (fun k => nth k (map B2Rf r) 0 * nth k (map B2Rf xs) 0)).
      2:{ intros k Hk. rewrite !nth_map_B2Rf, Hnr, Hnx by exact Hk. reflexivity. }
      rewrite (rsum_ext (fun m => Rabs (nth (i * n + (S i + m)) (map B2Rf u) 0) * Rabs (nth (S i + m) (map B2Rf x) 0))
                        (fun k => Rabs (nth k (map B2Rf r) 0) * Rabs (nth k (map B2Rf xs) 0))).
      2:{ intros k Hk. rewrite !nth_map_B2Rf, Hnr, Hnx by exact Hk. reflexivity. }
      rewrite <- Rabs_mult.
      match goal with |- Rabs (?bb - (?d + ?s)) <= _ * (?ad + ?as') + _ =>
        replace (d + s) with (s + d) by ring; replace (ad + as') with (as' + ad) by ring end.
      exact Herr.
  Qed.

  Lemma bwd_F_residual_general (i : nat) :
    (i < n)%nat ->
    Rabs (nth i (map B2Rf b) 0 - rsum (fun k => upper_part (map B2Rf u) n i k * nth k (map B2Rf x) 0) n)
    <= ((1 + / 2 ^ 53) ^ n - 1) * rsum (fun k => Rabs (upper_part (map B2Rf u) n i k) * Rabs (nth k (map B2Rf x) 0)) n
       + / 2 ^ 1075 * (INR n * (1 + / 2 ^ 53) ^ n + (1 + / 2 ^ 53) * Rabs (B2Rf (nth (i * n + i) u 0%float))).
  Proof.
    intros Hi. destruct (bwd_F_row_general i Hi) as [_ H]. eapply Rle_trans; [exact H|].
    rewrite <- u64_val, <- eta64_val. apply Rplus_le_compat.
    - apply Rmult_le_compat_r; [apply rsum_abs_nonneg|]. apply (E_mono u64 u64_nonneg). lia.
    - pose proof (pow_1pu_mono (n - S i) n ltac:(lia)). pose proof eta64_nonneg. nra.
  Qed.

  Lemma bwd_F_rowwise_general (i : nat) :
    (i < n)%nat ->
    Rabs (nth i (map B2Rf b) 0 - rsum (fun k => upper_part (map B2Rf u) n i k * nth k (map B2Rf x) 0) n)
    <= ((1 + / 2 ^ 53) ^ (n - i) - 1) * rsum (fun k => Rabs (upper_part (map B2Rf u) n i k) * Rabs (nth k (map B2Rf x) 0)) n
       + / 2 ^ 1075 * (INR (n - S i) * (1 + / 2 ^ 53) ^ (n - S i) + (1 + / 2 ^ 53) * Rabs (B2Rf (nth (i * n + i) u 0%float))).
  Proof.
    intros Hi. destruct (bwd_F_row_general i Hi) as [_ H]. eapply Rle_trans; [exact H|].
    rewrite <- u64_val, <- eta64_val. apply Req_le. unfold E. ring.
  Qed.

  Lemma bwd_F_rhs_finite_general : Forall finite b.
  Proof.
    destruct (backward_recurrence (FO tbl) u b x n Hrun Hn) as (Hbl & _ & _).
    apply Forall_forall. intros f Hf. destruct (In_nth b f 0%float Hf) as (i & Hi & <-).
    apply bwd_F_row_general. lia.
  Qed.
End BackwardGen.

(** ** [cholesky_solve] = forward solve with L, transpose, backward solve with L^T: the two residuals, no underflow
    hypothesis ([y] the computed intermediate vector, [lt] the transposed array) *)
Lemma cholesky_solve_residuals_general (tbl : libm_table) (l b y lt x : list pfloat) (n : nat) :
  cholesky_solve (FO tbl) l b = Some x -> (n * n)%nat = length l ->
  forward_substitution (FO tbl) l b = Some y -> transpose (FO tbl) l n = Some lt ->
  (forall i, (i < n)%nat -> B2Rf (nth (i * n + i) l 0%float) <> 0) ->
  Forall finite y -> Forall finite x ->
  let T := map B2Rf l in let B := map B2Rf b in let Y := map B2Rf y in let X := map B2Rf x in
  let gamma := (1 + / 2 ^ 53) ^ n - 1 in
  (forall i, (i < n)%nat ->
     Rabs (nth i B 0 - rsum (fun k => lower_part T n i k * nth k Y 0) n)
     <= gamma * rsum (fun k => Rabs (lower_part T n i k) * Rabs (nth k Y 0)) n
        + / 2 ^ 1075 * (INR n * (1 + / 2 ^ 53) ^ n + (1 + / 2 ^ 53) * Rabs (B2Rf (nth (i * n + i) l 0%float)))) /\
  (forall i, (i < n)%nat ->
     Rabs (nth i Y 0 - rsum (fun k => lower_part T n k i * nth k X 0) n)
     <= gamma * rsum (fun k => Rabs (lower_part T n k i) * Rabs (nth k X 0)) n
        + / 2 ^ 1075 * (INR n * (1 + / 2 ^ 53) ^ n + (1 + / 2 ^ 53) * Rabs (B2Rf (nth (i * n + i) l 0%float)))).
Proof.
  intros Hrun Hn Hfw Htr Hdiag Hfy Hfx T B Y X gamma.
  assert (Hn0 : (0 < n)%nat).
  { destruct n; [|lia]. unfold transpose in Htr. destruct (length l); discriminate Htr. }
  destruct (transpose_spec (FO tbl) l n n Hn0 (eq_sym Hn)) as (t & Ht & Htl & Hte).
  rewrite Htr in Ht. injection Ht as <-. cbn [zero FO] in Hte.
  unfold cholesky_solve in Hrun. rewrite <- Hn, is_square_sq in Hrun. cbn [bind] in Hrun.
  destruct (forward_recurrence (FO tbl) l b y n Hfw Hn) as (Hbl & Hyl & _).
  rewrite Hbl, Nat.eqb_refl in Hrun. cbn [guard bind] in Hrun. rewrite Hfw in Hrun. cbn [bind] in Hrun.
  rewrite Htr in Hrun. cbn [bind] in Hrun.
  split.
  - intros i Hi. apply (fwd_F_residual_general tbl l b y n Hfw Hn Hdiag Hfy i Hi).
  - intros i Hi.
    assert (Hdiag' : forall i, (i < n)%nat -> B2Rf (nth (i * n + i) lt 0%float) <> 0).
    { intros k Hk. rewrite (Hte k k Hk Hk). apply Hdiag; exact Hk. }
    pose proof (bwd_F_residual_general tbl lt y x n Hrun (eq_sym Htl) Hdiag' Hfx i Hi) as H.
    assert (Hup : forall k, (k < n)%nat -> upper_part (map B2Rf lt) n i k = lower_part T n k i).
    { intros k Hk. unfold upper_part, lower_part, getm, T. rewrite !nth_map_B2Rf, (Hte i k Hi Hk). reflexivity. }
    rewrite (Hte i i Hi Hi) in H.
    rewrite (rsum_ext (fun k => upper_part (map B2Rf lt) n i k * nth k (map B2Rf x) 0)
                      (fun k => lower_part T n k i * nth k X 0)) in H
      by (intros k Hk; rewrite (Hup k Hk); reflexivity).
    rewrite (rsum_ext (fun k => Rabs (upper_part (map B2Rf lt) n i k) * Rabs (nth k (map B2Rf x) 0))
                      (fun k => Rabs (lower_part T n k i) * Rabs (nth k X 0))) in H
      by (intros k Hk; rewrite (Hup k Hk); reflexivity).
    exact H.
Qed.

(** an instance the theorems with the no-underflow hypotheses exclude: x_0 = 2^-500 and in row 1 the product
    2^-600 * 2^-500 underflows *)
Lemma forward_general_example :
  let l := [1; 0;  0x1p-600; 3]%float in let b := [0x1p-500; 1]%float in
  exists x,
    forward_substitution FO0 l b = Some x /\ (2 * 2)%nat = length l /\
    (forall i, (i < 2)%nat -> B2Rf (nth (i * 2 + i) l 0%float) <> 0) /\
    Forall finite x /\
    ~ (B2Rf (nth (1 * 2 + 0) l 0%float) * B2Rf (nth 0 x 0%float) = 0 \/
       / 2 ^ 1022 <= Rabs (B2Rf (nth (1 * 2 + 0) l 0%float) * B2Rf (nth 0 x 0%float))).
Proof.
  cbv zeta. eexists. split; [vm_compute; reflexivity|]. split; [reflexivity|]. split; [|split].
  - intros i Hi. destruct i as [|[|i]]; [| |lia]; cbn [nth Nat.mul Nat.add]; b2rf_compute; lra.
  - repeat constructor; vm_compute; reflexivity.
  - cbn [nth Nat.mul Nat.add]. exact underflowing_pair.
Qed.
