(** Proofs for C13, part 5: order 1 completely.  The lag-1 autocorrelation of a series with
    nonzero variance is STRICTLY below 1 in magnitude (equality case of 2ab <= a^2 + b^2 along
    the chain), hence every AR(1) fit is stationary and its forecasts converge to the series
    mean — no stationarity hypothesis. *)
From Coq Require Import Reals List Arith ZArith Bool Lia Lra.
From Compute Require Import Base.Ops Base.ListMat Model.TimeSeries Spec.TimeSeries
  Proofs.C13_base Proofs.C13_acf Proofs.C13_ar.
Import ListNotations.
Local Open Scope R_scope.

Lemma lagN1_cons2 u v a : lagN (u :: v :: a) 1 = v * u + lagN (v :: a) 1.
Proof. unfold lagN. cbn [skipn map2 Rsum fold_right]. reflexivity. Qed.

Lemma sqD_cons u a : sqD (u :: a) = u * u + sqD a.
Proof. reflexivity. Qed.

(** 2D - 2sN = a_0^2 + [ Σ (a_j - s a_{j+1})^2 + a_last^2 ]  for s = +-1; the bracket E is >= 0,
    and E = 0 with a_0 = 0 forces the whole sequence to vanish *)
Lemma lag1_chain s : s * s = 1 -> forall a,
  0 <= 2 * sqD a - 2 * s * lagN a 1 - hd 0 a * hd 0 a /\
  (2 * sqD a - 2 * s * lagN a 1 - hd 0 a * hd 0 a = 0 -> hd 0 a = 0 -> sqD a = 0).
Proof.
  intros Hs. induction a as [|u a IH].
  - unfold sqD, lagN. cbn. split; intros; lra.
  - destruct a as [|v a].
    + unfold sqD, lagN. cbn. split; [nra|]. intros _ ->. lra.
    + rewrite lagN1_cons2, (sqD_cons u). cbn [hd] in *.
      destruct IH as [IH0 IHz].
      set (E' := 2 * sqD (v :: a) - 2 * s * lagN (v :: a) 1 - v * v) in *.
      assert (Hid : 2 * (u * u + sqD (v :: a)) - 2 * s * (v * u + lagN (v :: a) 1) - u * u
                    = (u - s * v) * (u - s * v) + E').
      { unfold E'. replace ((u - s * v) * (u - s * v)) with (u * u - 2 * s * u * v + (s * s) * v * v) by ring.
        rewrite Hs. ring. }
      rewrite Hid. pose proof (Rle_0_sqr (u - s * v)) as Hsq. unfold Rsqr in Hsq.
      split; [lra|].
      intros Hz Hu. subst u.
      assert (HE : E' = 0) by lra.
      assert (Hsv : (0 - s * v) * (0 - s * v) = 0) by lra.
      assert (Hv : v = 0).
      { assert (H1 : (s * s) * (v * v) = 0) by (rewrite <- Hsv; ring).
        rewrite Hs in H1. assert (v * v = 0) by lra. nra. }
      rewrite (IHz HE Hv). lra.
Qed.

Lemma lag1_strict a : sqD a <> 0 -> Rabs (lagN a 1) < sqD a.
Proof.
  intros HD.
  destruct (lag1_chain 1 ltac:(lra) a) as [Hp0 Hpz].
  destruct (lag1_chain (-1) ltac:(lra) a) as [Hm0 Hmz].
  pose proof (Rle_0_sqr (hd 0 a)) as Hh. unfold Rsqr in Hh.
  destruct (Rlt_le_dec (Rabs (lagN a 1)) (sqD a)) as [Hlt|Hge]; [exact Hlt|exfalso].
  unfold Rabs in Hge. destruct (Rcase_abs (lagN a 1)) as [Hneg|Hpos].
  - (* N < 0, -N >= D: use s = -1 *)
    assert (H1 : hd 0 a * hd 0 a = 0) by lra.
    assert (H2 : hd 0 a = 0) by nra.
    apply HD. apply Hmz; lra.
  - assert (H1 : hd 0 a * hd 0 a = 0) by lra.
    assert (H2 : hd 0 a = 0) by nra.
    apply HD. apply Hpz; lra.
Qed.

Lemma acf_lag1_strict x : acov x 0 <> 0 -> Rabs (acf RO x 1) < 1.
Proof.
  intros Hv. rewrite acov0_form in Hv.
  set (a := cen (smean x) x) in *.
  assert (Hn : INR (length x) <> 0).
  { intros E. apply Hv. rewrite E. unfold Rdiv. rewrite Rinv_0. ring. }
  assert (HD : sqD a <> 0).
  { intros E. apply Hv. rewrite E. unfold Rdiv. ring. }
  rewrite acf_RO_form. fold a. change (Z.abs_nat 1) with 1%nat.
  replace (1 / INR (length x) * lagN a 1 / (sqD a / INR (length x))) with (lagN a 1 / sqD a)
    by (field; split; assumption).
  pose proof (lag1_strict a HD) as Hs.
  assert (HDpos : 0 < sqD a) by (pose proof (Rabs_pos (lagN a 1)); lra).
  unfold Rdiv. rewrite Rabs_mult, (Rabs_right (/ sqD a)) by (apply Rle_ge; left; apply Rinv_0_lt_compat; exact HDpos).
  apply (Rmult_lt_reg_r (sqD a)); [exact HDpos|].
  rewrite Rmult_assoc, Rinv_l by lra. lra.
Qed.

(** every AR(1) fit of a series with nonzero variance is stationary, and its forecasts converge
    to the series mean *)
Lemma ar1_fit_forecasts_converge (inv : list R -> option (list R)) :
  (forall n A Ai, length A = (n * n)%nat -> inv A = Some Ai -> right_inverse n A Ai) ->
  forall data coeffs mu,
    acov data 0 <> 0 ->
    ar_new_fit RO inv 1 data = Some (coeffs, mu) ->
    mu = smean data /\
    (exists phi, coeffs = [phi] /\ Rabs phi < 1) /\
    forall eps, 0 < eps -> exists N, forall h k f,
      (N <= k < h)%nat -> predict RO coeffs mu data h = Some f -> Rabs (nth k f 0 - mu) < eps.
Proof.
  intros inv_ok data coeffs mu Hv Hfit.
  destruct (ar1_fit_coefficient inv inv_ok data coeffs mu Hv Hfit) as [-> _].
  destruct (fit_solves_yule_walker inv inv_ok 1 data _ mu Hfit) as [_ Hmu].
  assert (Hphi : Rabs (acorr data 1) < 1) by (rewrite <- acf_def; apply acf_lag1_strict; exact Hv).
  assert (Hd : data <> []).
  { intros ->. apply Hv. unfold acov. cbn. rewrite Rinv_0. ring. }
  split; [exact Hmu|]. split; [exists (acorr data 1); split; [reflexivity | exact Hphi]|].
  apply ar1_forecast_converges; assumption.
Qed.
