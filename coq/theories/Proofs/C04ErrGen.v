(** Proofs for C04, part 10 (extension): the binary64 rounding-error bounds of [dot], [norm], [prod] WITHOUT the
    "no product underflows" hypothesis.

    A binary64 multiplication that does not overflow satisfies, for EVERY exact product r (normal, subnormal or zero),
        | fl(r) - r |  <=  2^-53 * |r|  +  2^-1075                              (Flocq: [error_N_FLT])
    (2^-1075 is half the spacing 2^-1074 of the subnormal numbers); additions need no absolute term (a sum of two
    doubles that falls in the subnormal range is exact: [FLT_plus_error_N_ex], already used for [sum]).  Hence, with
    u = 2^-53 and eta = 2^-1075, for every pair of slices of doubles of equal length n whose computed dot is finite
        | dot x y - Sigma x_i y_i |  <=  ((1+u)^(n+1) - 1) * Sigma |x_i y_i|  +  n * eta * (1+u)^n ,
    for [norm] = sqrt (dot x x)
        | norm x - ||x|| |  <=  ((1+u)^(n+2) - 1) * ||x||  +  (1+u) * sqrt (n * eta * (1+u)^n) ,
    and for [prod] (left fold from 1; the absolute error eta committed at step k is multiplied by the later factors)
        | prod x - Pi x_i |  <=  ((1+u)^n - 1) * |Pi x_i|  +  (1+u)^n * eta * Sigma_{k=1..n} | Pi_{j>k} x_j | . *)
From Coq Require Import List Arith Bool ZArith Reals Lra Lia Floats.
From Flocq Require Import Core Relative Plus_error BinarySingleNaN PrimFloat.
From Compute Require Import Base.Ops Base.ListMat Model.Reduce Spec.Vops Proofs.C04Red Proofs.C04Err Proofs.C04ErrF
  Proofs.C04ErrDot Proofs.C04ErrNP Proofs.C04ErrEx.
Import ListNotations.
Local Open Scope R_scope.
Local Existing Instance Flocq.IEEE754.PrimFloat.Hprec.
Local Existing Instance Flocq.IEEE754.PrimFloat.Hmax.

(** ** standard model with an absolute term: terms that carry one relative error [u] AND one absolute error [eta] *)
Section PerturbedAbs.
  Variable u : R.
  Hypothesis Hu : 0 <= u.
  Variable eta : R.
  Hypothesis Heta : 0 <= eta.
  Variable F : R -> Prop.
  Variable rnd : R -> R.
  Hypothesis F0 : F 0.
  Hypothesis Hrnd : forall a b, F a -> F b ->
    F (rnd (a + b)) /\ Rabs (rnd (a + b) - (a + b)) <= u * Rabs (a + b).

  Lemma perturbed_terms_abs (c c' : list R) :
    Forall2 (fun a a' => Rabs (a' - a) <= u * Rabs a + eta) c c' ->
    length c' = length c /\
    Rabs (Rsum c' - Rsum c) <= u * Asum c + INR (length c) * eta /\
    Asum c' <= (1 + u) * Asum c + INR (length c) * eta.
  Proof.
    induction 1 as [|a a' c c' Ha _ IH].
    - unfold Asum. cbn. rewrite Rminus_0_r, Rabs_R0. repeat split; lra.
    - destruct IH as (Hl & Hs & Ha'). rewrite !Rsum_cons, !Asum_cons.
      change (length (a :: c)) with (S (length c)). rewrite S_INR. cbn [length]. split; [lia|]. split.
      + replace (a' + Rsum c' - (a + Rsum c)) with ((a' - a) + (Rsum c' - Rsum c)) by ring.
        eapply Rle_trans; [apply Rabs_triang|]. lra.
      + assert (Rabs a' <= Rabs a + Rabs (a' - a)).
        { replace a' with (a + (a' - a)) at 1 by ring. apply Rabs_triang. }
        lra.
  Qed.

  (** from ANY summation scheme [S] that obeys the worst-case bound of [n] terms *)
  Lemma scheme_error_perturbed_abs (S : list R -> R) (c c' : list R) :
    Rabs (S c' - Rsum c') <= ((1 + u) ^ length c' - 1) * Asum c' ->
    Forall2 (fun a a' => Rabs (a' - a) <= u * Rabs a + eta) c c' ->
    Rabs (S c' - Rsum c)
    <= ((1 + u) ^ Datatypes.S (length c) - 1) * Asum c + INR (length c) * eta * (1 + u) ^ length c.
  Proof.
    intros He Hp. destruct (perturbed_terms_abs c c' Hp) as (Hl & Hs & Ha).
    rewrite Hl in He.
    set (e := (1 + u) ^ length c - 1) in *.
    assert (He0 : 0 <= e) by (apply (E_nonneg u Hu)).
    replace ((1 + u) ^ Datatypes.S (length c) - 1) with ((1 + u) * e + u) by (unfold e; simpl; ring).
    replace ((1 + u) ^ length c) with (e + 1) by (unfold e; ring).
    replace (S c' - Rsum c) with ((S c' - Rsum c') + (Rsum c' - Rsum c)) by ring.
    eapply Rle_trans; [apply Rabs_triang|].
    assert (e * Asum c' <= e * ((1 + u) * Asum c + INR (length c) * eta)) by (apply Rmult_le_compat_l; assumption).
    lra.
  Qed.

  Theorem sum_error_perturbed_abs (c c' : list R) :
    Forall F c' -> Forall2 (fun a a' => Rabs (a' - a) <= u * Rabs a + eta) c c' ->
    Rabs (Reduce.sum (RndO rnd) c' - Rsum c)
    <= ((1 + u) ^ S (length c) - 1) * Rsum (map Rabs c) + INR (length c) * eta * (1 + u) ^ length c.
  Proof.
    intros Fc Hp. apply (scheme_error_perturbed_abs (Reduce.sum (RndO rnd))); [|exact Hp].
    apply (sum_error u Hu F rnd F0 Hrnd c' Fc).
  Qed.

  Theorem plain_sum_error_perturbed_abs (c c' : list R) :
    Forall F c' -> Forall2 (fun a a' => Rabs (a' - a) <= u * Rabs a + eta) c c' ->
    Rabs (fold_left (add (RndO rnd)) c' 0 - Rsum c)
    <= ((1 + u) ^ S (length c) - 1) * Rsum (map Rabs c) + INR (length c) * eta * (1 + u) ^ length c.
  Proof.
    intros Fc Hp. apply (scheme_error_perturbed_abs (fun l => fold_left (add (RndO rnd)) l 0)); [|exact Hp].
    destruct (fold_err u Hu F rnd Hrnd c' 0 0 0 0 F0 Fc) as [_ Hf].
    { rewrite Rabs_R0. lra. }
    { replace (0 - 0) with 0 by ring. rewrite Rabs_R0. lra. }
    rewrite !Rplus_0_l in Hf. cbn [Nat.add] in Hf. exact Hf.
  Qed.
End PerturbedAbs.

(** ** binary64: one rounding, every real argument *)
Definition eta64 : R := / 2 * bpow radix2 (-1074).

Lemma eta64_val : eta64 = / 2 ^ 1075.
Proof.
  unfold eta64. change (/ 2) with (bpow radix2 (-1)). rewrite <- bpow_plus.
  change (-1 + -1074)%Z with (-1075)%Z. change (bpow radix2 (-1075)) with (/ IZR (Z.pow_pos 2 1075)).
  f_equal. rewrite (pow_IZR 2 1075). f_equal.
Qed.

Lemma eta64_nonneg : 0 <= eta64.
Proof. unfold eta64. pose proof (bpow_ge_0 radix2 (-1074)). lra. Qed.

Lemma rnd64_gen (r : R) : Rabs (rnd64 r - r) <= u64 * Rabs r + eta64.
Proof.
  destruct (error_N_FLT radix2 (-1074) 53 ltac:(reflexivity) (fun z => negb (Z.even z)) r)
    as (eps & et & Heps & Het & _ & Hr).
  unfold rnd64. change ZnearestE with (Znearest (fun z => negb (Z.even z))). rewrite Hr.
  replace (r * (1 + eps) + et - r) with (r * eps + et) by ring.
  eapply Rle_trans; [apply Rabs_triang|]. rewrite Rabs_mult.
  assert (Rabs r * Rabs eps <= Rabs r * u64).
  { apply Rmult_le_compat_l; [apply Rabs_pos|]. exact Heps. }
  unfold eta64. lra.
Qed.

(** every product of a finite unrolled dot is finite, and is the rounded exact product *)
Lemma products_rounded (tbl : libm_table) : forall (x y : list pfloat),
  Forall finite (map2 (mul (FO tbl)) x y) ->
  Forall2 (fun a a' => Rabs (a' - a) <= u64 * Rabs a + eta64)
          (map2 Rmult (map B2Rf x) (map B2Rf y)) (map B2Rf (map2 (mul (FO tbl)) x y)).
Proof.
  induction x as [|a x IH]; intros [|b y] Hall; cbn [map2 map] in *; try constructor.
  - inversion Hall as [|? ? Hab _]; subst. cbn [mul FO] in *.
    destruct (fmul_finite a b Hab) as (_ & _ & ->). apply rnd64_gen.
  - apply IH. inversion Hall; assumption.
Qed.

Theorem dot_F_error_general_raw (tbl : libm_table) (x y : list pfloat) :
  length x = length y ->
  finite (dot_raw (FO tbl) x y) ->
  Rabs (B2Rf (dot_raw (FO tbl) x y) - Rdot (map B2Rf x) (map B2Rf y))
  <= ((1 + / 2 ^ 53) ^ S (length x) - 1) * Rsum (map Rabs (map2 Rmult (map B2Rf x) (map B2Rf y)))
     + INR (length x) * / 2 ^ 1075 * (1 + / 2 ^ 53) ^ length x.
Proof.
  intros Hl Hfin. rewrite dot_raw_sum in * by exact Hl.
  set (p' := map2 (mul (FO tbl)) x y) in *.
  set (c := map2 Rmult (map B2Rf x) (map B2Rf y)).
  assert (Hall : Forall finite p').
  { apply (sum_all (FO tbl) finite); [|exact Hfin]. intros a b Hab. cbn [add FO] in Hab.
    destruct (fadd_finite a b Hab) as (Ha & Hb & _). auto. }
  rewrite sum_F_sim by exact Hfin. unfold Rdot. fold c.
  assert (Hlc : length c = length x) by (unfold c; rewrite map2_length; rewrite !map_length; auto).
  rewrite <- Hlc, <- u64_val, <- eta64_val.
  apply (sum_error_perturbed_abs u64 u64_nonneg eta64 F64 rnd64 F64_0 rnd64_model).
  - apply Forall_forall. intros r Hr. apply in_map_iff in Hr. destruct Hr as (f & <- & _). apply F64_B2Rf.
  - apply products_rounded. exact Hall.
Qed.

Theorem dot_F_error_general (tbl : libm_table) (x y : list pfloat) (d : pfloat) :
  Reduce.dot (FO tbl) x y = Some d ->
  finite d ->
  Rabs (B2Rf d - Rdot (map B2Rf x) (map B2Rf y))
  <= ((1 + / 2 ^ 53) ^ S (length x) - 1) * Rsum (map Rabs (map2 Rmult (map B2Rf x) (map B2Rf y)))
     + INR (length x) * / 2 ^ 1075 * (1 + / 2 ^ 53) ^ length x.
Proof.
  unfold Reduce.dot. destruct (Nat.eqb_spec (length x) (length y)) as [Hl|Hl]; [|discriminate].
  intros Hd Hf. injection Hd as <-. apply dot_F_error_general_raw; [exact Hl|exact Hf].
Qed.

(** finiteness of the result forces every element finite (so "lists of finite doubles" is not a hypothesis) *)
Lemma dot_finite_operands (tbl : libm_table) (x y : list pfloat) (d : pfloat) :
  Reduce.dot (FO tbl) x y = Some d -> finite d -> Forall finite x /\ Forall finite y.
Proof.
  unfold Reduce.dot. destruct (Nat.eqb_spec (length x) (length y)) as [Hl|Hl]; [|discriminate].
  intros Hd Hf. injection Hd as <-. rewrite dot_raw_sum in Hf by exact Hl.
  assert (Hall : Forall finite (map2 (mul (FO tbl)) x y)).
  { apply (sum_all (FO tbl) finite); [|exact Hf]. intros a b Hab. cbn [add FO] in Hab.
    destruct (fadd_finite a b Hab) as (Ha & Hb & _). auto. }
  clear Hf. revert y Hl Hall. induction x as [|a x IH]; intros [|b y] Hl Hall; cbn in *; try discriminate; [auto|].
  inversion Hall as [|? ? Hab Hall']; subst. cbn [mul FO] in Hab.
  destruct (fmul_finite a b Hab) as (Ha & Hb & _).
  destruct (IH y ltac:(lia) Hall') as [Hx Hy]. split; constructor; assumption.
Qed.

(** ** norm *)

(** a perturbation [e * d + a] (relative AND absolute) of [d >= 0] perturbs the square root by at most
    [e * sqrt d + sqrt a]; one more relative rounding on top *)
Lemma sqrt_perturbed_abs (d d' e a u r : R) :
  0 <= d -> 0 <= e -> 0 <= a -> 0 <= u -> Rabs (d' - d) <= e * d + a ->
  Rabs (r - R_sqrt.sqrt d') <= u * R_sqrt.sqrt d' ->
  Rabs (r - R_sqrt.sqrt d) <= ((1 + e) * (1 + u) - 1) * R_sqrt.sqrt d + (1 + u) * R_sqrt.sqrt a.
Proof.
  intros Hd He Ha Hu Hdd Hr.
  set (s := R_sqrt.sqrt d) in *. set (s' := R_sqrt.sqrt d') in *. set (t := R_sqrt.sqrt a) in *.
  assert (Hs : 0 <= s) by apply sqrt_pos. assert (Hs' : 0 <= s') by apply sqrt_pos.
  assert (Ht : 0 <= t) by apply sqrt_pos.
  assert (Hsq : s * s = d) by (apply sqrt_sqrt; exact Hd).
  assert (Htq : t * t = a) by (apply sqrt_sqrt; exact Ha).
  assert (Hss : Rabs (s' - s) <= e * s + t).
  { apply Rabs_le. split.
    - (* s' >= (1-e) s - t *)
      destruct (Rle_dec ((1 - e) * s - t) 0) as [Hn|Hp]; [lra|].
      assert (Hpos : 0 < (1 - e) * s - t) by lra.
      assert (Hd' : ((1 - e) * s - t) * ((1 - e) * s - t) <= d').
      { assert (d - (e * d + a) <= d') by (pose proof (Rabs_le_inv _ _ Hdd); lra).
        rewrite <- Hsq, <- Htq in H.
        assert (H1e : 0 < 1 - e) by nra.
        assert (t * t <= (1 - e) * s * t) by nra.
        assert (0 <= (1 - e) * e * (s * s)) by (apply Rmult_le_pos; [apply Rmult_le_pos; lra|nra]).
        nra. }
      assert (Hd'0 : 0 <= d') by nra.
      assert (Hsq' : s' * s' = d') by (apply sqrt_sqrt; exact Hd'0).
      destruct (Rle_dec ((1 - e) * s - t) s') as [Hle|Hgt]; [lra|exfalso].
      assert (s' * s' < ((1 - e) * s - t) * ((1 - e) * s - t)) by nra. lra.
    - (* s' <= (1+e) s + t *)
      destruct (Rle_dec d' 0) as [Hn|Hp].
      + assert (s' = 0) by (apply sqrt_neg_0; exact Hn). nra.
      + assert (Hsq' : s' * s' = d') by (apply sqrt_sqrt; lra).
        assert (d' <= d + (e * d + a)) by (pose proof (Rabs_le_inv _ _ Hdd); lra).
        rewrite <- Hsq, <- Htq in H.
        destruct (Rle_dec s' ((1 + e) * s + t)) as [Hle|Hgt]; [lra|exfalso].
        assert (Hq0 : 0 <= (1 + e) * s + t) by nra.
        assert (Hq1 : 0 < s' - ((1 + e) * s + t)) by lra.
        assert (Hq2 : 0 < s' + ((1 + e) * s + t)) by lra.
        pose proof (Rmult_lt_0_compat _ _ Hq1 Hq2) as Hq3.
        assert (0 <= (e + e * e) * (s * s)) by (apply Rmult_le_pos; nra).
        assert (0 <= (1 + e) * (s * t)) by (apply Rmult_le_pos; nra).
        nra. }
  assert (Hs'le : s' <= s + e * s + t).
  { pose proof (Rle_abs (s' - s)). lra. }
  replace (r - s) with ((r - s') + (s' - s)) by ring.
  eapply Rle_trans; [apply Rabs_triang|].
  assert (u * s' <= u * (s + e * s + t)) by (apply Rmult_le_compat_l; assumption).
  replace (((1 + e) * (1 + u) - 1) * s + (1 + u) * t) with (u * (s + e * s + t) + (e * s + t)) by ring. lra.
Qed.

Theorem norm_F_error_general (tbl : libm_table) (x : list pfloat) :
  finite (Reduce.norm (FO tbl) x) ->
  Rabs (B2Rf (Reduce.norm (FO tbl) x) - R_sqrt.sqrt (Rsum (map (fun a => a * a) (map B2Rf x))))
  <= ((1 + / 2 ^ 53) ^ S (S (length x)) - 1) * R_sqrt.sqrt (Rsum (map (fun a => a * a) (map B2Rf x)))
     + (1 + / 2 ^ 53) * R_sqrt.sqrt (INR (length x) * / 2 ^ 1075 * (1 + / 2 ^ 53) ^ length x).
Proof.
  intros Hf. rewrite <- Rdot_self. unfold Reduce.norm in *. cbn [sqrt FO] in *.
  destruct (fsqrt_finite _ Hf) as (Hfd & ->).
  pose proof (dot_F_error_general_raw tbl x x eq_refl Hfd) as Hd.
  rewrite Rsum_abs_squares in Hd.
  set (d := Rdot (map B2Rf x) (map B2Rf x)) in *. set (d' := B2Rf (dot_raw (FO tbl) x x)) in *.
  rewrite <- u64_val in *.
  set (e := (1 + u64) ^ S (length x) - 1) in *.
  set (a := INR (length x) * / 2 ^ 1075 * (1 + u64) ^ length x) in *.
  replace ((1 + u64) ^ S (S (length x)) - 1) with ((1 + e) * (1 + u64) - 1) by (unfold e; simpl; ring).
  apply (sqrt_perturbed_abs d d' e a u64).
  - apply Rdot_self_nonneg.
  - unfold e. apply (E_nonneg u64 u64_nonneg).
  - unfold a. rewrite <- eta64_val. pose proof (pos_INR (length x)). pose proof eta64_nonneg.
    assert (0 <= (1 + u64) ^ length x) by (apply pow_le; pose proof u64_nonneg; lra).
    apply Rmult_le_pos; [apply Rmult_le_pos|]; assumption.
  - apply u64_nonneg.
  - exact Hd.
  - pose proof (rnd64_rel _ (sqrt_no_underflow _ Hfd)) as Hr. fold d' in Hr.
    rewrite (Rabs_pos_eq (R_sqrt.sqrt d')) in Hr by apply sqrt_pos. exact Hr.
Qed.

(** ** prod *)

(** the sum, over the steps k = 1..n of the chain, of the magnitude of the product of the LATER factors: the
    absolute error committed at step k is multiplied by them *)
Fixpoint later_products (l : list R) : R :=
  match l with
  | [] => 0
  | a :: l' => Rabs (Rprod l') + later_products l'
  end.

Lemma later_products_nonneg l : 0 <= later_products l.
Proof. induction l as [|a l IH]; cbn [later_products]; [lra|]. pose proof (Rabs_pos (Rprod l)). lra. Qed.

Section ProdModelAbs.
  Variable u : R.
  Hypothesis Hu : 0 <= u.
  Variable eta : R.
  Hypothesis Heta : 0 <= eta.
  Variable rnd : R -> R.
  Hypothesis Hrnd : forall r, Rabs (rnd r - r) <= u * Rabs r + eta.

  Lemma fold_mul_err_abs (l : list R) : forall (acc acc' B : R) (k : nat),
    0 <= B ->
    Rabs (acc' - acc) <= E u k * Rabs acc + B ->
    Rabs (fold_left (rmul rnd) l acc' - acc * Rprod l)
    <= E u (k + length l) * Rabs (acc * Rprod l)
       + (1 + u) ^ length l * (B * Rabs (Rprod l) + eta * later_products l).
  Proof.
    induction l as [|a l IH]; intros acc acc' B k HB Ha.
    - cbn [fold_left length Rprod fold_right later_products pow]. rewrite Nat.add_0_r, Rmult_1_r, Rabs_R1. lra.
    - cbn [fold_left length later_products].
      replace (k + S (length l))%nat with (S k + length l)%nat by lia.
      change (Rprod (a :: l)) with (a * Rprod l). rewrite <- Rmult_assoc.
      pose proof (E_nonneg u Hu k) as Ek.
      set (B' := (1 + u) * Rabs a * B + eta).
      assert (HB' : 0 <= B').
      { unfold B'. pose proof (Rabs_pos a). assert (0 <= (1 + u) * Rabs a * B) by (apply Rmult_le_pos; [apply Rmult_le_pos; lra|lra]). lra. }
      assert (Hstep : Rabs (rmul rnd acc' a - acc * a) <= E u (S k) * Rabs (acc * a) + B').
      { unfold rmul. rewrite E_S.
        assert (H1 : Rabs (acc' * a - acc * a) <= E u k * Rabs (acc * a) + B * Rabs a).
        { replace (acc' * a - acc * a) with ((acc' - acc) * a) by ring. rewrite !Rabs_mult.
          pose proof (Rabs_pos a). nra. }
        assert (H2 : Rabs (acc' * a) <= Rabs (acc * a) + (E u k * Rabs (acc * a) + B * Rabs a)).
        { replace (acc' * a) with (acc * a + (acc' * a - acc * a)) at 1 by ring.
          eapply Rle_trans; [apply Rabs_triang|]. lra. }
        replace (rnd (acc' * a) - acc * a) with ((rnd (acc' * a) - acc' * a) + (acc' * a - acc * a)) by ring.
        eapply Rle_trans; [apply Rabs_triang|].
        pose proof (Hrnd (acc' * a)) as Hr.
        assert (u * Rabs (acc' * a) <= u * (Rabs (acc * a) + (E u k * Rabs (acc * a) + B * Rabs a)))
          by (apply Rmult_le_compat_l; assumption).
        unfold B'. pose proof (Rabs_pos (acc * a)). nra. }
      eapply Rle_trans; [apply (IH (acc * a) (rmul rnd acc' a) B' (S k) HB' Hstep)|].
      apply Rplus_le_compat_l.
      assert (Hp : 0 <= (1 + u) ^ length l) by (apply pow_le; lra).
      cbn [pow]. rewrite (Rabs_mult a (Rprod l)).
      pose proof (Rabs_pos (Rprod l)) as HP. pose proof (later_products_nonneg l) as HL. pose proof (Rabs_pos a) as Haa.
      unfold B'.
      assert (Hq : 0 <= eta * (Rabs (Rprod l) + later_products l)) by (apply Rmult_le_pos; lra).
      assert (Hbp : 0 <= B * (Rabs a * Rabs (Rprod l))) by (apply Rmult_le_pos; [lra|apply Rmult_le_pos; lra]).
      replace (((1 + u) * Rabs a * B + eta) * Rabs (Rprod l) + eta * later_products l)
        with ((1 + u) * (B * (Rabs a * Rabs (Rprod l))) + eta * (Rabs (Rprod l) + later_products l)) by ring.
      replace ((1 + u) * (1 + u) ^ length l * (B * (Rabs a * Rabs (Rprod l)) + eta * (Rabs (Rprod l) + later_products l)))
        with ((1 + u) ^ length l * ((1 + u) * (B * (Rabs a * Rabs (Rprod l))) + (1 + u) * (eta * (Rabs (Rprod l) + later_products l)))) by ring.
      apply Rmult_le_compat_l; [exact Hp|]. nra.
  Qed.
End ProdModelAbs.

Lemma fold_mul_sim_gen (tbl : libm_table) (l : list pfloat) : forall s,
  finite (fold_left (mul (FO tbl)) l s) ->
  B2Rf (fold_left (mul (FO tbl)) l s) = fold_left (rmul rnd64) (map B2Rf l) (B2Rf s).
Proof.
  induction l as [|a l IH]; intros s Hf; cbn [fold_left map] in *; [auto|].
  rewrite (IH _ Hf).
  assert (Hfs : finite (mul (FO tbl) s a)).
  { clear - Hf. revert Hf. generalize (mul (FO tbl) s a). induction l as [|b l IHl]; intros p Hp; cbn [fold_left] in Hp; [exact Hp|].
    apply IHl in Hp. cbn [mul FO] in Hp. destruct (fmul_finite _ _ Hp) as (H & _). exact H. }
  cbn [mul FO] in *. destruct (fmul_finite _ _ Hfs) as (_ & _ & Hm).
  rewrite Hm. reflexivity.
Qed.

Theorem prod_F_error_general (tbl : libm_table) (x : list pfloat) :
  finite (Reduce.prod (FO tbl) x) ->
  Rabs (B2Rf (Reduce.prod (FO tbl) x) - Rprod (map B2Rf x))
  <= ((1 + / 2 ^ 53) ^ length x - 1) * Rabs (Rprod (map B2Rf x))
     + (1 + / 2 ^ 53) ^ length x * / 2 ^ 1075 * later_products (map B2Rf x).
Proof.
  intros Hf. unfold Reduce.prod in *. cbn [one FO] in *.
  rewrite (fold_mul_sim_gen tbl x _ Hf). rewrite B2Rf_one.
  rewrite <- u64_val, <- eta64_val, <- (map_length B2Rf x).
  pose proof (fold_mul_err_abs u64 u64_nonneg eta64 eta64_nonneg rnd64 rnd64_gen (map B2Rf x) 1 1 0 0 (Rle_refl 0)) as H.
  rewrite Rmult_1_l, Nat.add_0_l, Rmult_0_l, Rplus_0_l in H.
  eapply Rle_trans; [apply H|].
  - unfold E. replace (1 - 1) with 0 by ring. rewrite Rabs_R0. simpl. lra.
  - apply Req_le. unfold E. ring.
Qed.

(** ** the old theorems are the special case: when no product underflows the absolute term is not needed (they are
    proved separately in part 7/9); conversely the general bound holds on inputs the special case excludes *)
Lemma underflowing_pair :
  ~ (B2Rf 0x1p-600%float * B2Rf 0x1p-500%float = 0 \/ / 2 ^ 1022 <= Rabs (B2Rf 0x1p-600%float * B2Rf 0x1p-500%float)).
Proof.
  intros Hab.
  assert (Hv : B2Rf 0x1p-600%float * B2Rf 0x1p-500%float = / IZR (2 ^ 1100)).
  { b2rf_compute. let v := eval vm_compute in (2 ^ 1100)%Z in change (2 ^ 1100)%Z with v. field. }
  rewrite Hv in Hab. rewrite Proofs.C04ErrEx.tiny_lit in Hab.
  assert (H0 : (0 < 2 ^ 1022)%Z) by reflexivity. assert (H1 : (2 ^ 1022 < 2 ^ 1100)%Z) by reflexivity.
  apply IZR_lt in H0. apply IZR_lt in H1.
  assert (Hp : 0 < / IZR (2 ^ 1100)) by (apply Rinv_0_lt_compat; lra).
  destruct Hab as [Hab|Hab]; [lra|].
  rewrite Rabs_pos_eq in Hab by lra.
  assert (/ IZR (2 ^ 1100) < / IZR (2 ^ 1022)) by (apply Rinv_lt_contravar; [apply Rmult_lt_0_compat; lra|exact H1]).
  lra.
Qed.

Lemma general_example :
  let x := [0x1p-600; 3; 0x1p-1074]%float in
  let y := [0x1p-500; 0.5; 0x1p-1]%float in
  (exists d, Reduce.dot FO0 x y = Some d /\ finite d) /\
  ~ Forall2 (fun a b => B2Rf a * B2Rf b = 0 \/ / 2 ^ 1022 <= Rabs (B2Rf a * B2Rf b)) x y /\
  finite (Reduce.norm FO0 x) /\ finite (Reduce.prod FO0 x).
Proof.
  cbv zeta. split; [eexists; split; [reflexivity|vm_compute; reflexivity]|].
  split; [|split; vm_compute; reflexivity].
  intros H. inversion H as [|? ? ? ? Hab _]; subst. exact (underflowing_pair Hab).
Qed.
