(** * C17 on BINARY64: logistic and logit, conditional on named hypotheses about the recorded libm table
    (see Proofs/C17_float.v for the conventions).  [logistic x = 1 / (1 + exp(-x))], [logit p = ln (p / (1 - p))]. *)
From Coq Require Import Reals Floats List Lra Lia Bool ZArith.
From Flocq Require Import Core Sterbenz BinarySingleNaN.
From Flocq Require PrimFloat.
From Compute Require Import Base.Ops Model.Transforms.
From Compute Require Import Proofs.C17_softmax_f64 Proofs.C17_float.
Import ListNotations.
Local Open Scope R_scope.

(** ** more binary64 facts *)
Lemma one_cases : exists mm ee HH, FP.Prim2B 1%float = B754_finite false mm ee HH.
Proof.
  change 1%float with Coq.Floats.PrimFloat.one. rewrite FP.one_equiv, FP.Prim2B_B2Prim.
  generalize (is_finite_strict_Bone prec emax FP.Hprec FP.Hmax) (Bsign_Bone prec emax FP.Hprec FP.Hmax).
  destruct (Bone (prec:=prec) (emax:=emax)) as [s|s| |s mm ee HH]; try discriminate. cbn [Bsign]. intros _ ->. eauto.
Qed.

(** a double comparing [>= 0]: finite and non-negative, or +inf *)
Definition nnx (e : f64) : Prop := (fin e /\ 0 <= val e) \/ FP.Prim2B e = B754_infinity false.

Lemma leb0_nnx (e : f64) : PrimFloat.leb 0 e = true -> nnx e.
Proof.
  intros H. destruct (is_finite (FP.Prim2B e)) eqn:F.
  - left. split; [exact F|]. apply (leb_fin_true _ _ fin_zero F) in H. rewrite val_zero in H. exact H.
  - rewrite FP.leb_equiv, Prim2B_zero in H.
    destruct (FP.Prim2B e) as [s|s| |s mm ee HH] eqn:E; try discriminate F; try discriminate H.
    destruct s; [discriminate H|]. right. exact E.
Qed.

Lemma val_pos_sign (b : binary_float prec emax) : is_finite b = true -> 0 < B2R b -> Bsign b = false.
Proof. intros F P. pose proof (sign_val b F) as H. destruct (Bsign b); [lra|reflexivity]. Qed.

(** [1 + e] for [e >= 0]: the rounded sum, or +inf (when [e] is +inf or the sum overflows) *)
Lemma add1_cases (e : f64) : nnx e ->
  (fin e /\ fin (1 + e)%float /\ val (1 + e)%float = rnd (1 + val e) /\ rnd (1 + val e) < bpow radix2 emax) \/
  (FP.Prim2B (1 + e)%float = B754_infinity false /\ (fin e -> bpow radix2 emax <= rnd (1 + val e))).
Proof.
  intros [[Fe He]|Ie].
  - pose proof (Bplus_correct prec emax FP.Hprec FP.Hmax mode_NE _ _ fin_one Fe) as H.
    fold (val 1%float) (val e) in H. rewrite val_one in H.
    assert (Hr : 1 <= rnd (1 + val e)) by (rewrite <- rnd_1 at 1; apply rnd_le; lra).
    rewrite Rabs_pos_eq in H by lra.
    destruct (Rlt_bool_spec (rnd (1 + val e)) (bpow radix2 emax)) as [E|E].
    + left. destruct H as (HR & HF & _). unfold fin, val. rewrite FP.add_equiv.
      split; [exact Fe|]. split; [exact HF|]. split; [exact HR|exact E].
    + right. split; [|intros _; exact E]. destruct H as (HS & _). rewrite FP.add_equiv.
      destruct one_cases as (mm & ee & HH & E1). rewrite E1 in HS |- *. cbn [Bsign] in HS.
      destruct (Bplus mode_NE (B754_finite false mm ee HH) (FP.Prim2B e)) as [s|s| |s m2 e2 H2]; cbn in HS; try discriminate HS.
      injection HS as ->. reflexivity.
  - right. split; [|intros F; unfold fin in F; rewrite Ie in F; discriminate F].
    rewrite FP.add_equiv, Ie. destruct one_cases as (mm & ee & HH & ->). reflexivity.
Qed.

(** [1 / d] for [d >= 1] finite, and for [d = +inf] *)
Lemma recip_fin (d : f64) : fin d -> 1 <= val d ->
  fin (1 / d)%float /\ val (1 / d)%float = rnd (1 / val d) /\ 0 <= val (1 / d)%float <= 1.
Proof.
  intros Fd Hd. destruct (div_unit 1%float d fin_one Fd) as (F & V & R); [rewrite val_one; lra|exact Hd|].
  rewrite val_one in V. auto.
Qed.
Lemma recip_inf (d : f64) : FP.Prim2B d = B754_infinity false -> fin (1 / d)%float /\ val (1 / d)%float = 0.
Proof.
  intros Id. unfold fin, val. rewrite FP.div_equiv, Id. destruct one_cases as (mm & ee & HH & ->). split; reflexivity.
Qed.

(** [1 / (1 + e)] for [e >= 0] *)
Lemma recip1p_cases (e : f64) : nnx e ->
  let r := (1 / (1 + e))%float in
  fin r /\ 0 <= val r <= 1 /\
  ((fin e /\ rnd (1 + val e) < bpow radix2 emax /\ val r = rnd (1 / rnd (1 + val e))) \/
   (val r = 0 /\ (fin e -> bpow radix2 emax <= rnd (1 + val e)))).
Proof.
  intros He r. destruct (add1_cases e He) as [(Fe & Fd & Vd & Bd)|(Id & Hov)].
  - assert (H1 : 1 <= val (1 + e)%float).
    { rewrite Vd. rewrite <- rnd_1 at 1. apply rnd_le. destruct He as [[_ He]|Ie]; [lra|].
      unfold fin in Fe. rewrite Ie in Fe. discriminate Fe. }
    destruct (recip_fin _ Fd H1) as (Fr & Vr & Rr). split; [exact Fr|]. split; [exact Rr|].
    left. split; [exact Fe|]. split; [exact Bd|]. unfold r. rewrite Vr, Vd. reflexivity.
  - destruct (recip_inf _ Id) as (Fr & Vr). split; [exact Fr|]. unfold r. rewrite Vr. split; [lra|].
    right. split; [reflexivity|exact Hov].
Qed.

(** ** logistic *)
Lemma logistic_FO t x : logistic (FO t) x = (1 / (1 + texp t (- x)))%float.
Proof. reflexivity. Qed.

(** range: for EVERY double x (NaN and infinities included) at which the table's exp(-x) is not NaN and not negative *)
Lemma logistic_range_f64 t (x : f64) :
  exp_tbl_nonneg t [(- x)%float] -> fin (logistic (FO t) x) /\ 0 <= val (logistic (FO t) x) <= 1.
Proof.
  intros Hnn. rewrite logistic_FO.
  destruct (recip1p_cases (texp t (- x)) (leb0_nnx _ (Hnn _ (or_introl eq_refl)))) as (F & R & _). split; assumption.
Qed.

Lemma leb_opp (x y : f64) : PrimFloat.leb x y = true -> PrimFloat.leb (- y) (- x) = true.
Proof.
  rewrite !FP.leb_equiv, !FP.opp_equiv. set (bx := FP.Prim2B x). set (by_ := FP.Prim2B y). intros H.
  destruct (is_finite bx) eqn:Fx; destruct (is_finite by_) eqn:Fy.
  - rewrite Bleb_correct in H by assumption. rewrite Bleb_correct by (rewrite is_finite_Bopp; assumption).
    rewrite !B2R_Bopp. destruct (Rle_bool_spec (B2R bx) (B2R by_)) as [L|L]; [|discriminate H].
    apply Rle_bool_true. lra.
  - destruct bx as [s|s| |s mm ee HH]; try discriminate Fx; destruct by_ as [s'|s'| |s' m' e' H']; try discriminate Fy;
      try discriminate H; destruct s'; try discriminate H; reflexivity.
  - destruct by_ as [s|s| |s mm ee HH]; try discriminate Fy; destruct bx as [s'|s'| |s' m' e' H']; try discriminate Fx;
      try discriminate H; destruct s'; try discriminate H; reflexivity.
  - destruct bx as [s|s| |s mm ee HH]; try discriminate Fx; destruct by_ as [s'|s'| |s' m' e' H']; try discriminate Fy;
      try discriminate H; destruct s, s'; try discriminate H; reflexivity.
Qed.

(** monotone: needs the table's exp non-negative and non-decreasing on the two arguments -x, -y *)
Lemma logistic_monotone_f64 t (x y : f64) :
  PrimFloat.leb x y = true ->
  exp_tbl_nonneg t [(- x)%float; (- y)%float] -> exp_tbl_monotone t [(- x)%float; (- y)%float] ->
  val (logistic (FO t) x) <= val (logistic (FO t) y).
Proof.
  intros Hxy Hnn Hmono. rewrite !logistic_FO.
  assert (Hle : PrimFloat.leb (texp t (- y)) (texp t (- x)) = true).
  { apply Hmono; [right; left; reflexivity|left; reflexivity|apply leb_opp, Hxy]. }
  pose proof (leb0_nnx _ (Hnn (- x)%float (or_introl eq_refl))) as Nx.
  pose proof (leb0_nnx _ (Hnn (- y)%float (or_intror (or_introl eq_refl)))) as Ny.
  set (ex := texp t (- x)) in *. set (ey := texp t (- y)) in *.
  destruct (recip1p_cases ex Nx) as (Frx & Rrx & [(Fex & Bx & Vx)|(Vx & _)]);
    destruct (recip1p_cases ey Ny) as (Fry & Rry & Cy); cbn zeta in *.
  2: { rewrite Vx. lra. }
  assert (Fey : fin ey).
  { destruct Ny as [[F _]|Iy]; [exact F|exfalso]. rewrite FP.leb_equiv, Iy in Hle. unfold fin in Fex.
    destruct (FP.Prim2B ex) as [s|s| |s mm ee HH]; try discriminate Fex; discriminate Hle. }
  pose proof (leb_fin_true _ _ Fey Fex Hle) as Hv.
  assert (Hy0 : 0 <= val ey) by (destruct Ny as [[_ P]|Iy]; [exact P|unfold fin in Fey; rewrite Iy in Fey; discriminate Fey]).
  assert (Hr : rnd (1 + val ey) <= rnd (1 + val ex)) by (apply rnd_le; lra).
  assert (H1 : 1 <= rnd (1 + val ey)) by (rewrite <- rnd_1 at 1; apply rnd_le; lra).
  destruct Cy as [(_ & By & Vy)|(_ & Hov)].
  - rewrite Vx, Vy. apply rnd_le. unfold Rdiv. rewrite !Rmult_1_l. apply Rinv_le_contravar; lra.
  - specialize (Hov Fey). lra.
Qed.

(** logistic at a zero argument is exactly one half, given exp(-x) = 1 there *)
Lemma val_nonzero_fin (e : f64) : val e <> 0 -> fin e.
Proof. unfold val, fin. destruct (FP.Prim2B e); cbn; intros H; try reflexivity; exfalso; apply H; reflexivity. Qed.

Lemma eqb0_zero (x : f64) : PrimFloat.eqb x 0 = true -> exists s, FP.Prim2B x = B754_zero s.
Proof.
  rewrite FP.eqb_equiv, Prim2B_zero. destruct (FP.Prim2B x) as [s|s| |s mm ee HH]; intros H; try discriminate H.
  - exists s. reflexivity.
  - destruct s; discriminate H.
  - destruct s; discriminate H.
Qed.
Lemma eqb0_opp (x : f64) : PrimFloat.eqb x 0 = true -> PrimFloat.eqb (- x) 0 = true.
Proof.
  intros H. destruct (eqb0_zero x H) as [s Hs]. rewrite FP.eqb_equiv, FP.opp_equiv, Hs, Prim2B_zero.
  destruct s; reflexivity.
Qed.

Lemma rnd_2 : rnd 2 = 2.
Proof. apply (rnd_int 2). lia. Qed.
Lemma rnd_half : rnd (/ 2) = / 2.
Proof.
  apply round_generic; [apply valid_rnd_round_mode|]. change (/ 2) with (bpow radix2 (-1)).
  apply generic_format_bpow. vm_compute. discriminate.
Qed.

Lemma logistic_at_zero_f64 t (x : f64) :
  PrimFloat.eqb x 0 = true -> exp_tbl_one_at_zero t [(- x)%float] ->
  fin (logistic (FO t) x) /\ val (logistic (FO t) x) = / 2.
Proof.
  intros Hx Hone. rewrite logistic_FO.
  pose proof (Hone _ (or_introl eq_refl) (eqb0_opp x Hx)) as V1. set (e := texp t (- x)) in *.
  assert (Fe : fin e) by (apply val_nonzero_fin; lra).
  assert (Ne : nnx e) by (left; split; [exact Fe|lra]).
  pose proof bpow_emax_gt_1 as HB.
  assert (HB2 : 2 < bpow radix2 emax).
  { change 2 with (bpow radix2 1). apply bpow_lt. unfold emax. lia. }
  destruct (recip1p_cases e Ne) as (Fr & _ & [(_ & _ & Vr)|(_ & Hov)]); cbn zeta in *.
  - split; [exact Fr|]. rewrite Vr, V1. replace (1 + 1) with 2 by ring. rewrite rnd_2.
    replace (1 / 2) with (/ 2) by (unfold Rdiv; ring). apply rnd_half.
  - exfalso. specialize (Hov Fe). rewrite V1 in Hov. replace (1 + 1) with 2 in Hov by ring. rewrite rnd_2 in Hov. lra.
Qed.

(** the hypotheses are satisfiable: the table glibc produces at x = 0.5 and x = 2 (exp(-0.5), exp(-2)), and at x = 0 *)
Definition logistic_ex_tbl : libm_table :=
  {| tbl1 := [(Exp, (-0.5)%float, 0x1.368b2fc6f960ap-1%float); (Exp, (-2)%float, 0x1.152aaa3bf81ccp-3%float);
              (Exp, (-0)%float, 1%float)]; tbl2 := [] |}.
Example logistic_f64_hyps_ex :
  PrimFloat.leb 0.5 2 = true /\
  exp_tbl_nonneg logistic_ex_tbl [(- 0.5)%float; (- 2)%float] /\
  exp_tbl_monotone logistic_ex_tbl [(- 0.5)%float; (- 2)%float] /\
  exp_tbl_one_at_zero logistic_ex_tbl [(- 0)%float] /\
  logistic (FO logistic_ex_tbl) 0%float = 0.5%float.
Proof.
  split; [vm_compute; reflexivity|]. split; [|split; [|split]].
  - intros a [<-|[<-|[]]]; vm_compute; reflexivity.
  - intros a b [<-|[<-|[]]] [<-|[<-|[]]] H; vm_compute in H |- *; try reflexivity; discriminate H.
  - intros a [<-|[]] _. change (texp logistic_ex_tbl (- 0)%float) with 1%float. exact val_one.
  - vm_compute. reflexivity.
Qed.

(** ** logit *)
Definition logit_arg (p : f64) : f64 := (p / (1 - p))%float.

Lemma logit_FO t p :
  logit (FO t) p = if PrimFloat.leb 0 p && PrimFloat.leb p 1 then Some (tln t (logit_arg p)) else None.
Proof. reflexivity. Qed.

(** an accepted argument is a finite double in [0, 1] *)
Lemma unit_fin (p : f64) : PrimFloat.leb 0 p = true -> PrimFloat.leb p 1 = true -> fin p /\ 0 <= val p <= 1.
Proof.
  intros H0 H1. assert (Fp : fin p).
  { destruct (leb0_nnx p H0) as [[F _]|Ip]; [exact F|exfalso].
    rewrite FP.leb_equiv, Ip in H1. destruct one_cases as (mm & ee & HH & E1). rewrite E1 in H1. discriminate H1. }
  apply unit_by_leb; assumption.
Qed.

(** logit(1/2) is the table's ln 1, so a zero when ln 1 = 0 *)
Lemma logit_half_f64 t : logit (FO t) 0.5%float = Some (tln t 1%float).
Proof. reflexivity. Qed.

(** [1 - p] for [0 <= p <= 1] *)
Lemma one_minus (p : f64) : fin p -> 0 <= val p <= 1 ->
  fin (1 - p)%float /\ val (1 - p)%float = rnd (1 - val p) /\ 0 <= val (1 - p)%float <= 1.
Proof.
  intros Fp Hp.
  pose proof (Bminus_correct prec emax FP.Hprec FP.Hmax mode_NE _ _ fin_one Fp) as H.
  fold (val 1%float) (val p) in H. rewrite val_one in H.
  assert (Hr : 0 <= rnd (1 - val p) <= 1) by (split; [rewrite <- rnd_0|rewrite <- rnd_1 at 2]; apply rnd_le; lra).
  rewrite Rlt_bool_true in H by (rewrite Rabs_pos_eq by lra; pose proof bpow_emax_gt_1; lra).
  destruct H as (HR & HF & _). unfold fin, val. rewrite FP.sub_equiv, HR, HF. auto.
Qed.

Lemma leb_zero_irrel (l z : f64) :
  PrimFloat.leb l z = true -> PrimFloat.eqb z 0 = true -> PrimFloat.leb l 0 = true.
Proof.
  intros H Hz. destruct (eqb0_zero z Hz) as [s Hs]. rewrite FP.leb_equiv, Hs in H. rewrite FP.leb_equiv, Prim2B_zero.
  destruct (FP.Prim2B l) as [sl|sl| |sl mm ee HH]; destruct s; try discriminate H; try exact H; destruct sl; try discriminate H; reflexivity.
Qed.
Lemma zero_leb_irrel (l z : f64) :
  PrimFloat.leb z l = true -> PrimFloat.eqb z 0 = true -> PrimFloat.leb 0 l = true.
Proof.
  intros H Hz. destruct (eqb0_zero z Hz) as [s Hs]. rewrite FP.leb_equiv, Hs in H. rewrite FP.leb_equiv, Prim2B_zero.
  destruct (FP.Prim2B l) as [sl|sl| |sl mm ee HH]; destruct s; try discriminate H; try exact H; destruct sl; try discriminate H; reflexivity.
Qed.

(** lower half: [0 <= p <= 1/2] gives odds [p / (1 - p) <= 1] on binary64 *)
Lemma logit_arg_le_1 (p : f64) : fin p -> 0 <= val p <= / 2 ->
  fin (logit_arg p) /\ 0 <= val (logit_arg p) <= 1.
Proof.
  intros Fp Hp. destruct (one_minus p Fp ltac:(lra)) as (Fd & Vd & Rd).
  assert (Hd : / 2 <= val (1 - p)%float) by (rewrite Vd; rewrite <- rnd_half at 1; apply rnd_le; lra).
  pose proof (Bdiv_correct prec emax FP.Hprec FP.Hmax mode_NE (FP.Prim2B p) (FP.Prim2B (1 - p)%float) ltac:(fold (val (1 - p)%float); lra)) as H.
  fold (val p) (val (1 - p)%float) in H.
  assert (Hq : 0 <= val p / val (1 - p)%float <= 1).
  { split.
    - apply Rmult_le_pos; [lra|]. apply Rlt_le, Rinv_0_lt_compat. lra.
    - apply (Rmult_le_reg_r (val (1 - p)%float)); [lra|]. unfold Rdiv. rewrite Rmult_assoc, Rinv_l by lra. lra. }
  assert (Hr : 0 <= rnd (val p / val (1 - p)%float) <= 1)
    by (split; [rewrite <- rnd_0|rewrite <- rnd_1]; apply rnd_le; lra).
  rewrite Rlt_bool_true in H by (rewrite Rabs_pos_eq by lra; pose proof bpow_emax_gt_1; lra).
  destruct H as (HR & HF & _). unfold logit_arg, fin, val. rewrite FP.div_equiv, HR, HF. split; [exact Fp|exact Hr].
Qed.

(** upper half: [1/2 <= p < 1] gives odds [>= 1] (possibly +inf) *)
Lemma logit_arg_ge_1 (p : f64) : fin p -> / 2 <= val p < 1 -> PrimFloat.leb 1 (logit_arg p) = true.
Proof.
  intros Fp Hp. destruct (one_minus p Fp ltac:(lra)) as (Fd & Vd & Rd).
  assert (Hex : rnd (1 - val p) = 1 - val p).
  { apply round_generic; [apply valid_rnd_round_mode|].
    apply sterbenz; [apply (fexp_correct prec emax FP.Hprec)|apply FLT_exp_monotone| | |].
    - rewrite <- val_one. apply generic_format_B2R.
    - apply generic_format_B2R.
    - fold (val p). lra. }
  rewrite Hex in Vd.
  assert (Hd : 0 < val (1 - p)%float <= val p) by lra.
  pose proof (Bdiv_correct prec emax FP.Hprec FP.Hmax mode_NE (FP.Prim2B p) (FP.Prim2B (1 - p)%float) ltac:(fold (val (1 - p)%float); lra)) as H.
  fold (val p) (val (1 - p)%float) in H.
  assert (Hq : 1 <= val p / val (1 - p)%float).
  { apply (Rmult_le_reg_r (val (1 - p)%float)); [lra|]. unfold Rdiv. rewrite Rmult_assoc, Rinv_l by lra. lra. }
  assert (Hr : 1 <= rnd (val p / val (1 - p)%float)) by (rewrite <- rnd_1 at 1; apply rnd_le; lra).
  unfold logit_arg. rewrite FP.leb_equiv, FP.div_equiv.
  destruct (Rlt_bool_spec (Rabs (rnd (val p / val (1 - p)%float))) (bpow radix2 emax)) as [E|E].
  - destruct H as (HR & HF & _). rewrite Bleb_correct; [|exact fin_one|rewrite HF; exact Fp].
    rewrite HR. fold (val 1%float). rewrite val_one. apply Rle_bool_true. exact Hr.
  - rewrite (val_pos_sign _ Fp ltac:(fold (val p); lra)), (val_pos_sign _ Fd ltac:(fold (val (1 - p)%float); lra)) in H.
    cbn in H. destruct one_cases as (mm & ee & HH & ->).
    destruct (Bdiv mode_NE (FP.Prim2B p) (FP.Prim2B (1 - p)%float)) as [s|s| |s m2 e2 H2]; cbn in H; try discriminate H.
    injection H as ->. reflexivity.
Qed.

(** sign of logit: with ln of the table non-decreasing on the two arguments {odds, 1} and ln 1 a zero,
    logit p <= 0 for p <= 1/2 and logit p >= 0 for 1/2 <= p < 1 *)
Lemma logit_sign_f64 t (p l : f64) :
  logit (FO t) p = Some l ->
  ln_tbl_monotone t [logit_arg p; 1%float] -> ln_tbl_zero_at_one t ->
  l = tln t (logit_arg p) /\
  (val p <= / 2 -> PrimFloat.leb l 0 = true) /\ (/ 2 <= val p < 1 -> PrimFloat.leb 0 l = true).
Proof.
  rewrite logit_FO. destruct (PrimFloat.leb 0 p) eqn:H0; [|discriminate].
  destruct (PrimFloat.leb p 1) eqn:H1; [|discriminate]. cbn [andb]. intros [= <-] Hmono Hz.
  destruct (unit_fin p H0 H1) as [Fp Rp]. split; [reflexivity|]. split.
  - intros Hp. destruct (logit_arg_le_1 p Fp ltac:(lra)) as [Fq Rq].
    apply (leb_zero_irrel _ (tln t 1%float)); [|exact Hz].
    apply Hmono; [left; reflexivity|right; left; reflexivity|].
    rewrite (leb_fin _ _ Fq fin_one), val_one. apply Rle_bool_true. lra.
  - intros Hp. apply (zero_leb_irrel _ (tln t 1%float)); [|exact Hz].
    apply Hmono; [right; left; reflexivity|left; reflexivity|]. apply logit_arg_ge_1; assumption.
Qed.

(** the hypotheses are satisfiable: p = 0.25 (odds 1/3, ln = -1.0986...) *)
Definition logit_ex_tbl : libm_table :=
  {| tbl1 := [(Ln, 0x1.5555555555555p-2%float, (-0x1.193ea7aad030bp+0)%float); (Ln, 1%float, 0%float)]; tbl2 := [] |}.
Example logit_f64_hyps_ex :
  logit_arg 0.25%float = 0x1.5555555555555p-2%float /\
  logit (FO logit_ex_tbl) 0.25%float = Some (-0x1.193ea7aad030bp+0)%float /\
  ln_tbl_monotone logit_ex_tbl [logit_arg 0.25%float; 1%float] /\ ln_tbl_zero_at_one logit_ex_tbl /\
  logit (FO logit_ex_tbl) 0.5%float = Some 0%float.
Proof.
  split; [vm_compute; reflexivity|]. split; [vm_compute; reflexivity|]. split; [|split].
  - intros a b [<-|[<-|[]]] [<-|[<-|[]]] H; vm_compute in H |- *; try reflexivity; discriminate H.
  - vm_compute. reflexivity.
  - vm_compute. reflexivity.
Qed.

(** ** Box-Cox (repaired code: [ln y * (exp_m1(u) / u)] with [u = lambda * ln y], and [ln y] when [lambda == 0 || u == 0]):
    the dispatch on lambda is exact, and the transform of 1 is the table's ln 1 *)
Lemma boxcox_lambda_zero_f64 t (x l : f64) :
  PrimFloat.ltb 0 x = true -> PrimFloat.eqb l 0 = true -> boxcox (FO t) x l = Some (tln t x).
Proof. intros Hx Hl. unfold boxcox, boxcox_body. cbn [ltb eqb zero FO]. cbv zeta. rewrite Hx, Hl. reflexivity. Qed.
Lemma boxcox_shifted_lambda_zero_f64 t (x l a : f64) :
  PrimFloat.ltb 0 (x + a) = true -> PrimFloat.eqb l 0 = true -> boxcox_shifted (FO t) x l a = Some (tln t (x + a)%float).
Proof. intros Hx Hl. unfold boxcox_shifted, boxcox_body. cbn [ltb eqb add zero FO]. cbv zeta. rewrite Hx, Hl. reflexivity. Qed.

Lemma zero_eqb0 (z : f64) s : FP.Prim2B z = B754_zero s -> PrimFloat.eqb z 0 = true.
Proof. intros H. rewrite FP.eqb_equiv, H, Prim2B_zero. destruct s; reflexivity. Qed.

(** boxcox(1, lambda) for every finite lambda: the product lambda * ln 1 is a zero as soon as ln 1 is, so the code returns
    ln 1 itself (a zero) without calling expm1 *)
Lemma boxcox_at_one_f64 t (l : f64) :
  fin l -> ln_tbl_zero_at_one t ->
  boxcox (FO t) 1%float l = Some (tln t 1%float) /\ PrimFloat.eqb (tln t 1%float) 0 = true.
Proof.
  intros Fl Hz. split; [|exact Hz]. unfold boxcox, boxcox_body. cbn [ltb eqb zero one mul div FO]. cbv zeta.
  assert (H01 : PrimFloat.ltb 0 1 = true) by (vm_compute; reflexivity). rewrite H01.
  destruct (eqb0_zero _ Hz) as [s Hs]. unfold ln_, tln in *.
  assert (Hmz : PrimFloat.eqb (l * f1 (FO t) Ln 1%float) 0 = true).
  { unfold fin in Fl. destruct (FP.Prim2B l) as [sl|sl| |sl ml el Hl'] eqn:El; try discriminate Fl.
    - apply (zero_eqb0 _ (xorb sl s)). rewrite FP.mul_equiv, El, Hs. reflexivity.
    - apply (zero_eqb0 _ (xorb sl s)). rewrite FP.mul_equiv, El, Hs. reflexivity. }
  rewrite Hmz, orb_true_r. reflexivity.
Qed.

Definition boxcox_ex_tbl : libm_table := {| tbl1 := [(Ln, 1%float, 0%float)]; tbl2 := [] |}.
Example boxcox_f64_hyps_ex :
  fin 2.5%float /\ ln_tbl_zero_at_one boxcox_ex_tbl /\ boxcox (FO boxcox_ex_tbl) 1%float 2.5%float = Some 0%float.
Proof. split; [vm_compute; reflexivity|]. split; vm_compute; reflexivity. Qed.
