(** Proofs about the REGENERATED shape classifier [Generated/broadcast_classifier.v] (Tie A).
    The scripts do not mention the shape of the decision tree: they unfold two units of fuel, split on every
    [Nat.eqb] test that occurs, and finish by [lia]; they survive any regeneration that keeps the theorem true. *)
From Coq Require Import Arith Bool Lia.
From Compute Require Import Generated.broadcast_classifier Spec.Broadcast Spec.BroadcastClassifier.

Ltac split_eqb :=
  repeat match goal with
         | |- context [Nat.eqb ?a ?b] => destruct (Nat.eqb_spec a b)
         | H : context [Nat.eqb ?a ?b] |- _ => destruct (Nat.eqb_spec a b)
         end.

Ltac classify :=
  unfold calc_broadcast_shape; cbn [calc_broadcast_shape_fuel]; split_eqb; cbn.

(** every result is one of the nine valid leaves, with the stated shape facts, or [(Invalid, Invalid)] *)
Lemma classifier_sound r1 c1 r2 c2 b :
  calc_broadcast_shape r1 c1 r2 c2 = Some b ->
  b = (BInvalid, BInvalid) \/ leaf_ok r1 c1 r2 c2 b.
Proof.
  classify; intros H; try discriminate H; injection H as <-; cbn;
    first [ left; reflexivity | right; repeat split; lia ].
Qed.

Lemma leaf_ok_compatible r1 c1 r2 c2 b : leaf_ok r1 c1 r2 c2 b -> np_compatible r1 c1 r2 c2.
Proof.
  unfold np_compatible, dim_compatible.
  destruct b as [[h1| v1| | |] [h2| v2| | |]]; cbn; intros H; try contradiction; lia.
Qed.

(** compatible shapes are classified into a valid leaf ... *)
Lemma classifier_complete r1 c1 r2 c2 :
  np_compatible r1 c1 r2 c2 ->
  exists b, calc_broadcast_shape r1 c1 r2 c2 = Some b /\ leaf_ok r1 c1 r2 c2 b.
Proof.
  unfold np_compatible, dim_compatible; intros H.
  classify; try (exfalso; lia); eexists; (split; [reflexivity|]); cbn; repeat split; lia.
Qed.

(** ... and incompatible shapes fail an [assert!] or are classified [(Invalid, Invalid)] *)
Lemma classifier_rejects r1 c1 r2 c2 :
  ~ np_compatible r1 c1 r2 c2 ->
  calc_broadcast_shape r1 c1 r2 c2 = None \/ calc_broadcast_shape r1 c1 r2 c2 = Some (BInvalid, BInvalid).
Proof.
  unfold np_compatible, dim_compatible; intros H.
  classify; first [ left; reflexivity | right; reflexivity | exfalso; apply H; lia ].
Qed.

Lemma classifier_total r1 c1 r2 c2 :
  np_compatible r1 c1 r2 c2 <->
  exists b, calc_broadcast_shape r1 c1 r2 c2 = Some b /\ b <> (BInvalid, BInvalid).
Proof.
  split.
  - intros H. destruct (classifier_complete _ _ _ _ H) as [b [Hb Hl]]. exists b; split; [exact Hb|].
    intros ->. exact Hl.
  - intros [b [Hb Hn]]. destruct (classifier_sound _ _ _ _ _ Hb) as [->|Hl]; [congruence|].
    eapply leaf_ok_compatible; eassumption.
Qed.

(** the recursive operand swap recurses at most once: more fuel than 2 never changes the result, so [None]
    from [calc_broadcast_shape] is always a failed [assert!], never exhausted fuel *)
Lemma classifier_fuel_stable k r1 c1 r2 c2 :
  calc_broadcast_shape_fuel (S (S k)) r1 c1 r2 c2 = calc_broadcast_shape r1 c1 r2 c2.
Proof.
  classify; reflexivity.
Qed.
