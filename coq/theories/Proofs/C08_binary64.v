(** * C08, binary64: [PrimFloat.ltb] is a strict weak order on the non-NaN floats (infinities and signed
    zeros included), so the ordered-carrier theorems on min / max / argmin / argmax hold for the very term
    that runs against the implementation. Uses Flocq's IEEE-754 semantics of the primitive floats. *)
From Coq Require Import List Arith ZArith Reals Lra Lia Bool Floats.
From Flocq Require Import Core.Raux Core.Zaux IEEE754.BinarySingleNaN IEEE754.PrimFloat.
From Compute Require Import Base.Ops Base.ListMat Model.Reduce Model.Stats Proofs.C08_order.
Import ListNotations.
Local Open Scope R_scope.

(** a real key that orders the non-NaN binary64 values like [Bltb]: infinities sit at +-2^1024 *)
Definition key (x : binary_float prec emax) : R :=
  match x with
  | B754_infinity false => bpow radix2 emax
  | B754_infinity true => - bpow radix2 emax
  | B754_nan => 0
  | _ => B2R x
  end.

Lemma key_finite_bound : forall x : binary_float prec emax, is_finite x = true ->
  - bpow radix2 emax < key x < bpow radix2 emax.
Proof.
  intros x Hx. pose proof (abs_B2R_lt_emax prec emax x) as H. apply Rabs_def2 in H.
  destruct x as [s|s| |s m e B]; try discriminate; cbn [key]; lra.
Qed.

Lemma Bltb_key : forall x y : binary_float prec emax, x <> B754_nan -> y <> B754_nan ->
  Bltb x y = Rlt_bool (key x) (key y).
Proof.
  intros x y Hx Hy.
  assert (P : 0 < bpow radix2 emax) by apply bpow_gt_0.
  destruct (is_finite x) eqn:Fx; destruct (is_finite y) eqn:Fy.
  - rewrite Bltb_correct by assumption.
    destruct x as [s|s| |s m e B]; destruct y as [s'|s'| |s' m' e' B']; try discriminate; reflexivity.
  - pose proof (key_finite_bound x Fx) as Bx.
    destruct y as [s'|[|]| |s' m' e' B']; try discriminate; try congruence.
    + (* y = -inf *) destruct x as [s|s| |s m e B]; try discriminate; cbn [key] in *;
        (rewrite Rlt_bool_false by lra); reflexivity.
    + (* y = +inf *) destruct x as [s|s| |s m e B]; try discriminate; cbn [key] in *;
        (rewrite Rlt_bool_true by lra); try reflexivity; destruct s; reflexivity.
  - pose proof (key_finite_bound y Fy) as By'.
    destruct x as [s|[|]| |s m e B]; try discriminate; try congruence.
    + destruct y as [s'|s'| |s' m' e' B']; try discriminate; cbn [key] in *;
        (rewrite Rlt_bool_true by lra); try reflexivity; destruct s'; reflexivity.
    + destruct y as [s'|s'| |s' m' e' B']; try discriminate; cbn [key] in *;
        (rewrite Rlt_bool_false by lra); try reflexivity; destruct s'; reflexivity.
  - destruct x as [s|[|]| |s m e B]; try discriminate; try congruence;
    destruct y as [s'|[|]| |s' m' e' B']; try discriminate; try congruence; cbn [key];
      first [ rewrite Rlt_bool_true by lra; reflexivity | rewrite Rlt_bool_false by lra; reflexivity ].
Qed.

(** non-NaN primitive floats *)
Definition fok (x : PrimFloat.float) : Prop := PrimFloat.eqb x x = true.
Definition fkey (x : PrimFloat.float) : R := key (Prim2B x).

Lemma fok_not_nan : forall x, fok x -> Prim2B x <> B754_nan.
Proof.
  intros x Hx E. unfold fok in Hx. rewrite eqb_equiv, E in Hx. discriminate.
Qed.

Lemma ltb_fkey : forall x y, fok x -> fok y -> PrimFloat.ltb x y = Rlt_bool (fkey x) (fkey y).
Proof. intros x y Hx Hy. rewrite ltb_equiv. apply Bltb_key; apply fok_not_nan; assumption. Qed.

Lemma float_lt_irrefl : forall x, fok x -> PrimFloat.ltb x x = false.
Proof. intros x Hx. rewrite ltb_fkey by assumption. apply Rlt_bool_false. lra. Qed.
Lemma float_lt_trans : forall x y z, fok x -> fok y -> fok z ->
  PrimFloat.ltb x y = true -> PrimFloat.ltb y z = true -> PrimFloat.ltb x z = true.
Proof.
  intros x y z Hx Hy Hz. rewrite !ltb_fkey by assumption.
  do 2 (case Rlt_bool_spec; [|discriminate]; intros ? _). apply Rlt_bool_true. lra.
Qed.
Lemma float_le_trans : forall x y z, fok x -> fok y -> fok z ->
  PrimFloat.ltb x y = false -> PrimFloat.ltb y z = false -> PrimFloat.ltb x z = false.
Proof.
  intros x y z Hx Hy Hz. rewrite !ltb_fkey by assumption.
  do 2 (case Rlt_bool_spec; [discriminate|]; intros ? _). apply Rlt_bool_false. lra.
Qed.

(** ** the extremum theorems on binary64 (any libm table: only comparisons are used) *)
Theorem min_is_min_binary64 : forall tbl (l : list PrimFloat.float), l <> [] -> Forall fok l ->
  fok (min (FO tbl) l) /\ In (min (FO tbl) l) l /\ forall x, In x l -> PrimFloat.ltb x (min (FO tbl) l) = false.
Proof.
  intros tbl l. apply (min_is_min_gen (FO tbl) fok); auto.
  - exact float_lt_irrefl. - exact float_lt_trans. - exact float_le_trans.
Qed.
Theorem max_is_max_binary64 : forall tbl (l : list PrimFloat.float), l <> [] -> Forall fok l ->
  fok (max (FO tbl) l) /\ In (max (FO tbl) l) l /\ forall x, In x l -> PrimFloat.ltb (max (FO tbl) l) x = false.
Proof.
  intros tbl l. apply (max_is_max_gen (FO tbl) fok); auto.
  - exact float_lt_irrefl. - exact float_lt_trans. - exact float_le_trans.
Qed.
Theorem argmin_first_binary64 : forall tbl (d : PrimFloat.float) (l : list PrimFloat.float), l <> [] -> Forall fok l ->
  PrimFloat.ltb 0x1.fffffffffffffp+1023 (hd d l) = false ->
  (argmin (FO tbl) l < length l)%nat /\
  (forall j, (j < length l)%nat -> PrimFloat.ltb (nth j l d) (nth (argmin (FO tbl) l) l d) = false) /\
  (forall j, (j < argmin (FO tbl) l)%nat -> PrimFloat.ltb (nth (argmin (FO tbl) l) l d) (nth j l d) = true).
Proof.
  intros tbl d l Hne Hl Hhd. apply (argmin_first_gen (FO tbl) fok); auto.
  - exact float_lt_irrefl. - exact float_lt_trans. - exact float_le_trans.
  - reflexivity.
Qed.
Theorem argmax_first_binary64 : forall tbl (d : PrimFloat.float) (l : list PrimFloat.float), l <> [] -> Forall fok l ->
  PrimFloat.ltb (hd d l) (-0x1.fffffffffffffp+1023) = false ->
  (argmax (FO tbl) l < length l)%nat /\
  (forall j, (j < length l)%nat -> PrimFloat.ltb (nth (argmax (FO tbl) l) l d) (nth j l d) = false) /\
  (forall j, (j < argmax (FO tbl) l)%nat -> PrimFloat.ltb (nth j l d) (nth (argmax (FO tbl) l) l d) = true).
Proof.
  intros tbl d l Hne Hl Hhd. apply (argmax_first_gen (FO tbl) fok); auto.
  - exact float_lt_irrefl. - exact float_lt_trans. - exact float_le_trans.
  - reflexivity.
Qed.
