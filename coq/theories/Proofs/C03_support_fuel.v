(** Proofs for C03, part 10: FUEL MONOTONICITY of every looping sampler, on every carrier (binary64 included) and for
    every random source.  A run that does not end with [Fuel] (it returned a value, or it panicked) is reproduced
    unchanged — same value, same final generator state — by every larger fuel.  Hence "out of fuel" is the ONLY way the
    fuelled model differs from the unbounded loop of the Rust code: fuel never changes a value, it only cuts runs short.
    (Termination with probability one is a statement about measures and is not stated.) *)
From Coq Require Import List ZArith NArith QArith Lia Bool.
From Compute Require Import Base.Ops Base.ListMat Base.Rng Model.MatMul Model.Samplers.
Import ListNotations.

Lemma res_bind_mono {A B : Type} (r r' : res A) (k k' : A -> res B) :
  (r <> Fuel -> r' = r) -> (forall a, r = Ok a -> k a <> Fuel -> k' a = k a) ->
  res_bind r k <> Fuel -> res_bind r' k' = res_bind r k.
Proof.
  intros H1 H2 Hne. destruct r as [a| |]; cbn [res_bind] in *.
  - rewrite H1 by discriminate. cbn [res_bind]. apply H2; [reflexivity|exact Hne].
  - rewrite H1 by discriminate. reflexivity.
  - contradiction.
Qed.

(** case analysis on everything the two runs share (conditions and draws that do not depend on the fuel) *)
Ltac split_shared :=
  repeat match goal with
         | |- context [match ?x with (_, _) => _ end] => destruct x
         | |- context [if ?c then _ else _] => destruct c
         end.

Section Mono.
  Context {T : Type} (O : Ops T) {S : Type} (src : source S T).

  Lemma positive_unit_mono f : forall f' s, (f <= f')%nat ->
    positive_unit O src f s <> Fuel -> positive_unit O src f' s = positive_unit O src f s.
  Proof.
    induction f as [|f IH]; intros f' s Hle; [cbn; contradiction|]. destruct f' as [|f']; [lia|].
    cbn [positive_unit]. split_shared; [reflexivity|]. apply IH. lia.
  Qed.
  Lemma positive_f64_mono f : forall f' s, (f <= f')%nat ->
    positive_f64 O src f s <> Fuel -> positive_f64 O src f' s = positive_f64 O src f s.
  Proof.
    induction f as [|f IH]; intros f' s Hle; [cbn; contradiction|]. destruct f' as [|f']; [lia|].
    cbn [positive_f64]. split_shared; [reflexivity|]. apply IH. lia.
  Qed.
  Lemma exponential_sample_mono f f' lambda s : (f <= f')%nat ->
    exponential_sample O src f lambda s <> Fuel -> exponential_sample O src f' lambda s = exponential_sample O src f lambda s.
  Proof. intros Hle. unfold exponential_sample. apply res_bind_mono; [apply positive_unit_mono; exact Hle|reflexivity]. Qed.
  Lemma gumbel_sample_mono f f' mu beta s : (f <= f')%nat ->
    gumbel_sample O src f mu beta s <> Fuel -> gumbel_sample O src f' mu beta s = gumbel_sample O src f mu beta s.
  Proof. intros Hle. unfold gumbel_sample. apply res_bind_mono; [apply positive_unit_mono; exact Hle|reflexivity]. Qed.
  Lemma pareto_sample_mono f f' alpha m s : (f <= f')%nat ->
    pareto_sample O src f alpha m s <> Fuel -> pareto_sample O src f' alpha m s = pareto_sample O src f alpha m s.
  Proof. intros Hle. unfold pareto_sample. apply res_bind_mono; [apply positive_f64_mono; exact Hle|reflexivity]. Qed.

  (** ** Normal (ziggurat) *)
  Lemma normal_sample_mono f : forall f' mu sigma s, (f <= f')%nat ->
    normal_sample O src f mu sigma s <> Fuel -> normal_sample O src f' mu sigma s = normal_sample O src f mu sigma s.
  Proof.
    induction f as [|f IH]; intros f' mu sigma s Hle; [cbn; contradiction|]. destruct f' as [|f']; [lia|].
    cbn [normal_sample]. split_shared; try reflexivity; apply IH; lia.
  Qed.

  (** ** Gamma (two nested loops: both budgets may grow) *)
  Lemma gamma_xv_mono f : forall f' nf nf' d s, (f <= f')%nat -> (nf <= nf')%nat ->
    gamma_xv O src f nf d s <> Fuel -> gamma_xv O src f' nf' d s = gamma_xv O src f nf d s.
  Proof.
    induction f as [|f IH]; intros f' nf nf' d s Hle Hn; [cbn; contradiction|]. destruct f' as [|f']; [lia|].
    cbn [gamma_xv]. apply res_bind_mono; [apply normal_sample_mono; exact Hn|].
    intros [x s1] _. split_shared; [reflexivity|]. apply IH; [lia|exact Hn].
  Qed.
  Lemma gamma_loop_mono f : forall f' i i' d beta boost s, (f <= f')%nat -> (i <= i')%nat ->
    gamma_loop O src f i d beta boost s <> Fuel -> gamma_loop O src f' i' d beta boost s = gamma_loop O src f i d beta boost s.
  Proof.
    induction f as [|f IH]; intros f' i i' d beta boost s Hle Hi; [cbn; contradiction|]. destruct f' as [|f']; [lia|].
    cbn [gamma_loop]. apply res_bind_mono; [apply gamma_xv_mono; exact Hi|].
    intros [[x v] s1] _. split_shared; try reflexivity. apply IH; [lia|exact Hi].
  Qed.
  Lemma gamma_sample_mono f f' alpha beta s : (f <= f')%nat ->
    gamma_sample O src f alpha beta s <> Fuel -> gamma_sample O src f' alpha beta s = gamma_sample O src f alpha beta s.
  Proof. intros Hle. unfold gamma_sample. split_shared; apply gamma_loop_mono; exact Hle. Qed.
  Lemma beta_sample_mono f f' a b s : (f <= f')%nat ->
    beta_sample O src f a b s <> Fuel -> beta_sample O src f' a b s = beta_sample O src f a b s.
  Proof.
    intros Hle. unfold beta_sample. apply res_bind_mono; [apply gamma_sample_mono; exact Hle|].
    intros [x s1] _. apply res_bind_mono; [apply gamma_sample_mono; exact Hle|reflexivity].
  Qed.
  Lemma chi_squared_sample_mono f f' dof s : (f <= f')%nat ->
    chi_squared_sample O src f dof s <> Fuel -> chi_squared_sample O src f' dof s = chi_squared_sample O src f dof s.
  Proof. intros Hle. unfold chi_squared_sample. apply gamma_sample_mono; exact Hle. Qed.
  Lemma t_sample_mono f f' dof s : (f <= f')%nat ->
    t_sample O src f dof s <> Fuel -> t_sample O src f' dof s = t_sample O src f dof s.
  Proof.
    intros Hle. unfold t_sample. apply res_bind_mono; [apply normal_sample_mono; exact Hle|].
    intros [z s1] _. destruct (leb O (div O dof (two O)) (zero O)); [reflexivity|].
    apply res_bind_mono; [apply gamma_sample_mono; exact Hle|reflexivity].
  Qed.

  (** ** Poisson *)
  Lemma poisson_mult_loop_mono f : forall f' limit count product s, (f <= f')%nat ->
    poisson_mult_loop O src f limit count product s <> Fuel ->
    poisson_mult_loop O src f' limit count product s = poisson_mult_loop O src f limit count product s.
  Proof.
    induction f as [|f IH]; intros f' limit count product s Hle.
    - cbn [poisson_mult_loop]. destruct f'; cbn [poisson_mult_loop]; destruct (ltb O limit product); try contradiction; reflexivity.
    - destruct f' as [|f']; [lia|]. cbn [poisson_mult_loop]. split_shared; try reflexivity. apply IH; lia.
  Qed.
  Lemma poisson_mult_mono f f' lambda s : (f <= f')%nat ->
    poisson_mult O src f lambda s <> Fuel -> poisson_mult O src f' lambda s = poisson_mult O src f lambda s.
  Proof. intros Hle. unfold poisson_mult. split_shared. apply poisson_mult_loop_mono; exact Hle. Qed.
  Lemma ptrs_loop_mono f : forall f' lam loglam b a invalpha vr s, (f <= f')%nat ->
    ptrs_loop O src f lam loglam b a invalpha vr s <> Fuel ->
    ptrs_loop O src f' lam loglam b a invalpha vr s = ptrs_loop O src f lam loglam b a invalpha vr s.
  Proof.
    induction f as [|f IH]; intros f' lam loglam b a invalpha vr s Hle; [cbn; contradiction|]. destruct f' as [|f']; [lia|].
    cbn [ptrs_loop]. split_shared; try reflexivity; apply IH; lia.
  Qed.
  Lemma poisson_ptrs_mono f f' lam s : (f <= f')%nat ->
    poisson_ptrs O src f lam s <> Fuel -> poisson_ptrs O src f' lam s = poisson_ptrs O src f lam s.
  Proof. intros Hle. unfold poisson_ptrs. apply ptrs_loop_mono; exact Hle. Qed.
  Lemma poisson_sample_mono f f' lambda s : (f <= f')%nat ->
    poisson_sample O src f lambda s <> Fuel -> poisson_sample O src f' lambda s = poisson_sample O src f lambda s.
  Proof.
    intros Hle. unfold poisson_sample. destruct (ltb O lambda (ofZ O 10)); [apply poisson_mult_mono|apply poisson_ptrs_mono]; exact Hle.
  Qed.

  (** ** Binomial *)
  Lemma binv_loop_mono f : forall f' r0 a sq bound r u x s, (f <= f')%nat ->
    binv_loop O src f r0 a sq bound r u x s <> Fuel ->
    binv_loop O src f' r0 a sq bound r u x s = binv_loop O src f r0 a sq bound r u x s.
  Proof.
    induction f as [|f IH]; intros f' r0 a sq bound r u x s Hle.
    - cbn [binv_loop]. destruct f'; cbn [binv_loop]; destruct (ltb O r u); try contradiction; reflexivity.
    - destruct f' as [|f']; [lia|]. cbn [binv_loop]. split_shared; try reflexivity; apply IH; lia.
  Qed.
  Lemma binomial_inversion_mono f f' n p s : (f <= f')%nat ->
    binomial_inversion O src f n p s <> Fuel -> binomial_inversion O src f' n p s = binomial_inversion O src f n p s.
  Proof. intros Hle. unfold binomial_inversion. split_shared. apply binv_loop_mono; exact Hle. Qed.

  (** step 5.1: a ratio computed within the budget is computed identically within a larger one *)
  Lemma btpe_ratio_mono f : forall f' mulp a sq stop i g, (f <= f')%nat ->
    btpe_ratio O f mulp a sq stop i g <> None -> btpe_ratio O f' mulp a sq stop i g = btpe_ratio O f mulp a sq stop i g.
  Proof.
    induction f as [|f IH]; intros f' mulp a sq stop i g Hle; [cbn; contradiction|]. destruct f' as [|f']; [lia|].
    cbn [btpe_ratio]. split_shared; try reflexivity; apply IH; lia.
  Qed.
  Lemma btpe_step5_mono f f' n p k y v : (f <= f')%nat ->
    btpe_step5 O f n p k y v <> BFuel -> btpe_step5 O f' n p k y v = btpe_step5 O f n p k y v.
  Proof.
    intros Hle. unfold btpe_step5. cbv zeta.
    destruct (negb _); [|reflexivity].
    destruct (ltb O (c_m k) y).
    - intros Hne. rewrite (btpe_ratio_mono f f') by (try exact Hle; intros E; rewrite E in Hne; apply Hne; reflexivity). reflexivity.
    - destruct (ltb O y (c_m k)); [|reflexivity].
      intros Hne. rewrite (btpe_ratio_mono f f') by (try exact Hle; intros E; rewrite E in Hne; apply Hne; reflexivity). reflexivity.
  Qed.
  Lemma btpe_loop_mono f : forall f' i i' n p k s, (f <= f')%nat -> (i <= i')%nat ->
    btpe_loop O src f i n p k s <> Fuel -> btpe_loop O src f' i' n p k s = btpe_loop O src f i n p k s.
  Proof.
    induction f as [|f IH]; intros f' i i' n p k s Hle Hi; [cbn; contradiction|]. destruct f' as [|f']; [lia|].
    cbn [btpe_loop].
    destruct (uniform_sample O src (zero O) (c_p4 k) s) as [u s1]. destruct (uniform_sample O src (zero O) (one O) s1) as [v s2].
    destruct (not_gt O u (c_p1 k)); [reflexivity|].
    match goal with |- match ?st with _ => _ end <> _ -> match ?st' with _ => _ end = _ =>
      assert (Hst : st <> BFuel -> st' = st) end.
    { split_shared; try reflexivity; apply btpe_step5_mono; exact Hi. }
    match goal with |- match ?st with _ => _ end <> _ -> _ => destruct st eqn:Est end.
    - intros _. rewrite Hst by discriminate. reflexivity.
    - intros Hne. rewrite Hst by discriminate. apply IH; [lia|exact Hi|exact Hne].
    - intros Hne. exfalso. apply Hne. reflexivity.
  Qed.
  Lemma binomial_btpe_mono f f' n p s : (f <= f')%nat ->
    binomial_btpe O src f n p s <> Fuel -> binomial_btpe O src f' n p s = binomial_btpe O src f n p s.
  Proof.
    intros Hle. unfold binomial_btpe. cbv zeta. destruct (ltb O _ (zero O)); [reflexivity|].
    apply res_bind_mono; [apply btpe_loop_mono; exact Hle|reflexivity].
  Qed.
  Lemma binomial_sample_mono f f' n p s : (f <= f')%nat ->
    binomial_sample O src f n p s <> Fuel -> binomial_sample O src f' n p s = binomial_sample O src f n p s.
  Proof.
    intros Hle. unfold binomial_sample. cbv zeta. destruct (_ || _); [reflexivity|]. destruct (leb O _ (epsilon O)); [reflexivity|].
    apply res_bind_mono; [|reflexivity].
    destruct (leb O _ (ofZ O 30)); [apply binomial_inversion_mono|apply binomial_btpe_mono]; exact Hle.
  Qed.

  (** ** every distribution, and the bulk helpers *)
  Lemma sample_mono f f' d s : (f <= f')%nat ->
    sample O src f d s <> Fuel -> sample O src f' d s = sample O src f d s.
  Proof.
    intros Hle. destruct d; cbn [sample]; try reflexivity.
    - apply normal_sample_mono; exact Hle.
    - apply exponential_sample_mono; exact Hle.
    - apply gumbel_sample_mono; exact Hle.
    - apply pareto_sample_mono; exact Hle.
    - apply gamma_sample_mono; exact Hle.
    - apply beta_sample_mono; exact Hle.
    - apply chi_squared_sample_mono; exact Hle.
    - apply t_sample_mono; exact Hle.
    - apply poisson_sample_mono; exact Hle.
    - apply binomial_sample_mono; exact Hle.
  Qed.
  Lemma draws_mono {A : Type} (draw draw' : S -> res (A * S)) :
    (forall s, draw s <> Fuel -> draw' s = draw s) ->
    forall n s, draws draw n s <> Fuel -> draws draw' n s = draws draw n s.
  Proof.
    intros Hd. induction n as [|n IH]; intros s; [reflexivity|]. cbn [draws].
    apply res_bind_mono; [apply Hd|]. intros [x s1] _.
    apply res_bind_mono; [apply IH|reflexivity].
  Qed.
  Lemma sample_n_mono f f' d n s : (f <= f')%nat ->
    sample_n O src f d n s <> Fuel -> sample_n O src f' d n s = sample_n O src f d n s.
  Proof. intros Hle. unfold sample_n. apply draws_mono. intros s0. apply sample_mono; exact Hle. Qed.
  Lemma sample_matrix_mono f f' d r c s : (f <= f')%nat ->
    sample_matrix O src f d r c s <> Fuel -> sample_matrix O src f' d r c s = sample_matrix O src f d r c s.
  Proof. intros Hle. unfold sample_matrix. apply res_bind_mono; [apply sample_n_mono; exact Hle|reflexivity]. Qed.
  Lemma mvn_sample_mono f f' mu L s : (f <= f')%nat ->
    mvn_sample O src f mu L s <> Fuel -> mvn_sample O src f' mu L s = mvn_sample O src f mu L s.
  Proof. intros Hle. unfold mvn_sample. cbv zeta. apply res_bind_mono; [apply sample_n_mono; exact Hle|reflexivity]. Qed.
  Lemma mvn_sample_n_mono f f' mu L n s : (f <= f')%nat ->
    mvn_sample_n O src f mu L n s <> Fuel -> mvn_sample_n O src f' mu L n s = mvn_sample_n O src f mu L n s.
  Proof.
    intros Hle. unfold mvn_sample_n. apply res_bind_mono; [|reflexivity].
    apply draws_mono. intros s0. apply mvn_sample_mono; exact Hle.
  Qed.

  (** the form used most: a run that RETURNED returns the same value and state with every larger fuel *)
  Lemma sample_mono_ok f f' d s r : (f <= f')%nat -> sample O src f d s = Ok r -> sample O src f' d s = Ok r.
  Proof. intros Hle H. rewrite <- H. apply sample_mono; [exact Hle|]. rewrite H. discriminate. Qed.
  Lemma sample_n_mono_ok f f' d n s r : (f <= f')%nat -> sample_n O src f d n s = Ok r -> sample_n O src f' d n s = Ok r.
  Proof. intros Hle H. rewrite <- H. apply sample_n_mono; [exact Hle|]. rewrite H. discriminate. Qed.
End Mono.

(** ** consequences: two runs that both end without [Fuel] agree, whatever their budgets; and the end-to-end MVN samplers *)
From Compute Require Import Model.MVN Model.MVNNew Model.MVNSample.
Section Mono2.
  Context {T : Type} (O : Ops T) {S : Type} (src : source S T).

  Lemma sample_fuel_irrelevant f f' d s :
    sample O src f d s <> Fuel -> sample O src f' d s <> Fuel -> sample O src f d s = sample O src f' d s.
  Proof.
    intros H H'. destruct (Nat.le_ge_cases f f') as [Hle|Hle].
    - symmetry. apply sample_mono; assumption.
    - apply sample_mono; assumption.
  Qed.
  Lemma sample_n_fuel_irrelevant f f' d n s :
    sample_n O src f d n s <> Fuel -> sample_n O src f' d n s <> Fuel -> sample_n O src f d n s = sample_n O src f' d n s.
  Proof.
    intros H H'. destruct (Nat.le_ge_cases f f') as [Hle|Hle].
    - symmetry. apply sample_n_mono; assumption.
    - apply sample_n_mono; assumption.
  Qed.
  Lemma mvn_sample_full_mono f f' mean c s : (f <= f')%nat ->
    mvn_sample_full O src f mean c s <> Fuel -> mvn_sample_full O src f' mean c s = mvn_sample_full O src f mean c s.
  Proof.
    intros Hle. unfold mvn_sample_full, mvn_obj_sample. destruct (mvn_new O mean c); [|reflexivity]. apply mvn_sample_mono; exact Hle.
  Qed.
  Lemma mvn_sample_n_full_mono f f' mean c n s : (f <= f')%nat ->
    mvn_sample_n_full O src f mean c n s <> Fuel -> mvn_sample_n_full O src f' mean c n s = mvn_sample_n_full O src f mean c n s.
  Proof.
    intros Hle. unfold mvn_sample_n_full, mvn_obj_sample_n. destruct (mvn_new O mean c); [|reflexivity]. apply mvn_sample_n_mono; exact Hle.
  Qed.
  (** with no budget at all every looping sampler is out of fuel: the budget is what bounds the loops, nothing else *)
  Lemma normal_sample_zero_fuel mu sigma s : normal_sample O src 0 mu sigma s = Fuel.
  Proof. reflexivity. Qed.
End Mono2.

(** out-of-fuel is downward closed: a budget that does not suffice makes every smaller budget insufficient too *)
Lemma sample_out_of_fuel_downward {T : Type} (O : Ops T) {S : Type} (src : source S T) f f' d s :
  (f <= f')%nat -> sample O src f' d s = Fuel -> sample O src f d s = Fuel.
Proof.
  intros Hle H. destruct (sample O src f d s) as [r| |] eqn:E; [| |reflexivity].
  - rewrite (sample_mono O src f f' d s Hle) in H by (rewrite E; discriminate). rewrite E in H. discriminate.
  - rewrite (sample_mono O src f f' d s Hle) in H by (rewrite E; discriminate). rewrite E in H. discriminate.
Qed.
