(** * Tie A for C15: the dimension logic of the hand-written model [Model/Shape.v] IS the source
    ([Matrix::size], [Matrix::reshape_mut], [Matrix::reshape]).  [Generated/shape_loops.v] is produced on every run by
    tools/tiea/shape_loops.py (statement-level translator [LoopTranslator] of tools/rsexpr.py) from
    src/linalg/array/matrix.rs.  The source's [i32] / [usize] values are [Z], the model's dimensions [nat]: the statements
    inject.  Boolean case splits and [nat]/[Z] division facts only; nothing about the carrier. *)
From Coq Require Import List ZArith Arith Bool Lia.
From Compute Require Import Base.Ops Base.ListMat Base.RsExpr Model.Shape Generated.shape_loops Proofs.RsExprLemmas.
Import ListNotations.

Definition zpair (p : nat * nat) : Z * Z := (Z.of_nat (fst p), Z.of_nat (snd p)).
Definition zmat {T : Type} (m : mat T) : Z * Z * list T := (Z.of_nat (nrows m), Z.of_nat (ncols m), data m).

Section TieA.
  Context {T : Type} (O : Ops T).

  Lemma tiea_size : forall nr nc : nat, src_size O (Z.of_nat nr) (Z.of_nat nc) = Z.of_nat (nr * nc).
  Proof. intros. unfold src_size. lia. Qed.

  Lemma irem_pos : forall (sz : nat) (c : Z), (0 < c)%Z ->
    rs_irem (Z.of_nat sz) c = Some (Z.of_nat (sz mod Z.to_nat c)).
  Proof.
    intros sz c Hc. unfold rs_irem. destruct (Z.eqb_spec c 0) as [E|E]; [lia|]. f_equal.
    rewrite Z.rem_mod_nonneg by lia. rewrite Nat2Z.inj_mod, Z2Nat.id by lia. reflexivity.
  Qed.
  Lemma idiv_pos : forall (sz : nat) (c : Z), (0 < c)%Z ->
    rs_idiv (Z.of_nat sz) c = Some (Z.of_nat (sz / Z.to_nat c)).
  Proof.
    intros sz c Hc. unfold rs_idiv. destruct (Z.eqb_spec c 0) as [E|E]; [lia|]. f_equal.
    rewrite Z.quot_div_nonneg by lia. rewrite Nat2Z.inj_div, Z2Nat.id by lia. reflexivity.
  Qed.
  Lemma Zeqb_nat0 : forall n : nat, Z.eqb (Z.of_nat n) 0 = Nat.eqb n 0.
  Proof. intro n. change 0%Z with (Z.of_nat 0). apply Zeqb_of_nat. Qed.

  Lemma tiea_reshape_mut : forall (nr nc : nat) (r c : Z),
    src_reshape_mut O (Z.of_nat nr) (Z.of_nat nc) r c = option_map zpair (reshape_dims (nr * nc) r c).
  Proof.
    intros nr nc r c. unfold src_reshape_mut, reshape_dims. cbv zeta. rewrite tiea_size.
    destruct (Z.ltb_spec 0 r) as [Hr|Hr]; destruct (Z.ltb_spec 0 c) as [Hc|Hc]; cbn [andb].
    - destruct (r * c =? Z.of_nat (nr * nc))%Z; cbn [guard bind option_map]; [|reflexivity].
      unfold zpair. cbn [fst snd]. now rewrite !Z2Nat.id by lia.
    - destruct (Z.ltb_spec r 0) as [Hr0|Hr0]; [lia|].
      destruct (Z.ltb_spec c 0) as [Hc0|Hc0]; [|destruct (Z.eqb_spec r 0); [lia|reflexivity]].
      change (Z.opp 1) with (-1)%Z. destruct (c =? -1)%Z; cbn [andb guard bind option_map]; [|reflexivity].
      rewrite (irem_pos _ r Hr). cbn [bind]. rewrite Zeqb_nat0.
      destruct (_ =? 0)%nat; cbn [guard bind option_map]; [|reflexivity].
      rewrite (idiv_pos _ r Hr). cbn [bind]. unfold zpair. cbn [fst snd]. now rewrite Z2Nat.id by lia.
    - destruct (Z.ltb_spec r 0) as [Hr0|Hr0].
      + change (Z.opp 1) with (-1)%Z. destruct (r =? -1)%Z; cbn [andb guard bind option_map]; [|reflexivity].
        rewrite (irem_pos _ c Hc). cbn [bind]. rewrite Zeqb_nat0.
        destruct (_ =? 0)%nat; cbn [guard bind option_map]; [|reflexivity].
        rewrite (idiv_pos _ c Hc). cbn [bind]. unfold zpair. cbn [fst snd]. now rewrite Z2Nat.id by lia.
      + destruct (Z.ltb_spec c 0) as [Hc0|Hc0]; [lia|].
        destruct (Z.eqb_spec c 0); [lia|]. rewrite andb_false_r. reflexivity.
    - destruct (Z.ltb_spec r 0) as [Hr0|Hr0].
      + change (Z.opp 1) with (-1)%Z. rewrite andb_false_r. reflexivity.
      + destruct (Z.ltb_spec c 0) as [Hc0|Hc0].
        * change (Z.opp 1) with (-1)%Z. rewrite andb_false_r. reflexivity.
        * (* the request 0 x 0: accepted exactly when there are no elements *)
          destruct (Z.eqb_spec r 0); [|lia]. destruct (Z.eqb_spec c 0); [|lia]. cbn [andb].
          rewrite Zeqb_nat0. destruct (_ =? 0)%nat; reflexivity.
  Qed.

  (** [Matrix::new] as the source's [reshape] sees it: the model's [new], a matrix value being (nrows, ncols, data) *)
  Definition new_z (a : list T) (r c : Z) : option (Z * Z * list T) := option_map zmat (new a r c).

  Lemma idiv_pos_Z : forall (sz c : Z), (0 < c)%Z -> rs_idiv sz c = Some (Z.quot sz c).
  Proof. intros sz c Hc. unfold rs_idiv. destruct (Z.eqb_spec c 0) as [E|E]; [lia|reflexivity]. Qed.

  Lemma tiea_reshape : forall (nr nc : nat) (d : list T) (r c : Z),
    src_reshape O new_z d (Z.of_nat nr) (Z.of_nat nc) r c = option_map zmat (reshape (mkMat nr nc d) r c).
  Proof.
    intros nr nc d r c. unfold src_reshape, reshape, size. cbn [nrows ncols data]. cbv zeta. rewrite tiea_size.
    destruct (Z.ltb_spec 0 r) as [Hr|Hr]; destruct (Z.ltb_spec 0 c) as [Hc|Hc]; cbn [andb].
    - destruct (r * c =? Z.of_nat (nr * nc))%Z; cbn [guard bind]; [|reflexivity].
      unfold new_z. destruct (new d r c); reflexivity.
    - destruct (Z.ltb_spec r 0) as [Hr0|Hr0]; [lia|].
      destruct (Z.ltb_spec c 0) as [Hc0|Hc0]; [|destruct (Z.eqb_spec r 0); [lia|reflexivity]].
      change (Z.opp 1) with (-1)%Z. destruct (c =? -1)%Z; cbn [andb guard bind]; [|reflexivity].
      rewrite (idiv_pos_Z _ r Hr). cbn [bind]. unfold new_z. destruct (new d r _); reflexivity.
    - destruct (Z.ltb_spec r 0) as [Hr0|Hr0].
      + change (Z.opp 1) with (-1)%Z. destruct (r =? -1)%Z; cbn [andb guard bind]; [|reflexivity].
        rewrite (idiv_pos_Z _ c Hc). cbn [bind]. unfold new_z. destruct (new d _ c); reflexivity.
      + destruct (Z.ltb_spec c 0) as [Hc0|Hc0]; [lia|].
        destruct (Z.eqb_spec c 0); [lia|]. rewrite andb_false_r. reflexivity.
    - destruct (Z.ltb_spec r 0) as [Hr0|Hr0].
      + change (Z.opp 1) with (-1)%Z. rewrite andb_false_r. reflexivity.
      + destruct (Z.ltb_spec c 0) as [Hc0|Hc0].
        * change (Z.opp 1) with (-1)%Z. rewrite andb_false_r. reflexivity.
        * (* the request 0 x 0 is handed to [Matrix::new], which decides *)
          destruct (Z.eqb_spec r 0); [|lia]. destruct (Z.eqb_spec c 0); [|lia]. cbn [andb bind].
          unfold new_z. destruct (new d 0 0); reflexivity.
  Qed.
End TieA.
