(** * Rng: executable model of the `alea` crate (version 0.2.2), the random source of `compute`.

    `alea` keeps ONE thread-local 64-bit state (a wyrand generator).  Every function below takes the
    state and returns the new state, so "same seed => same stream" is literally function application.
    All machine integers are modelled in [N] (u64, reduced mod 2^64) or [Z] (i64, two's complement,
    wrapping arithmetic = what the release profile of the harness executes; the debug-profile
    overflow panics are NOT modelled).

    Rust source followed (alea-0.2.2/src/lib.rs):
      u64:            state += 0xa0761d6478bd642f (wrapping); t = (s as u128) * ((s ^ 0xe7037ed1a0b428db) as u128);
                      ((t >> 64) as u64) ^ (t as u64)
      f64:            ((u64() >> 11) as f64) * (1.0 / (1u64 << 53) as f64)
      u64_less_than:  Lemire's multiply-shift with rejection (loops on the stream => fuel)
      i64_less_than:  u64_less_than(max as u64) as i64
      u64_in_range / i64_in_range: assert!(max > min); min + less_than(max + 1 - min)
      f64_less_than / f64_in_range: assert!(max > 0.) / assert!(max > min); products of f64()
      set_seed / get_seed: write / read the state.
    Functions of `alea` the crate never calls (u32, f32, bool, wyhash functions) are not modelled.

    No proofs in this file (see Proofs/C19Rng.v). *)
From Coq Require Import NArith ZArith List Bool.
From Compute Require Import Base.Ops.
Import ListNotations.

(** three-valued result: a value, a panic, or "the fuel ran out" (divergence not excluded) *)
Inductive res (A : Type) := Ok (a : A) | Fail | Fuel.
Arguments Ok {A} _. Arguments Fail {A}. Arguments Fuel {A}.

Definition res_bind {A B} (r : res A) (f : A -> res B) : res B :=
  match r with Ok a => f a | Fail => Fail | Fuel => Fuel end.
(** forgetful view used by the resampling models: no value = [None] *)
Definition res_opt {A} (r : res A) : option A :=
  match r with Ok a => Some a | _ => None end.

Local Open Scope N_scope.

Definition W64 : N := 18446744073709551616.           (* 2^64 *)
Definition W63 : N := 9223372036854775808.            (* 2^63 *)
Definition WY_INC : N := 11562461410679940143.         (* 0xa0761d6478bd642f *)
Definition WY_XOR : N := 16646288086500911323.         (* 0xe7037ed1a0b428db *)

Definition wrap (x : N) : N := x mod W64.
Definition wadd (a b : N) : N := wrap (a + b).
Definition wsub (a b : N) : N := wrap (a + (W64 - wrap b)).
Definition wmul (a b : N) : N := wrap (a * b).
Definition wneg (a : N) : N := wrap (W64 - wrap a).
Definition mul_high (a b : N) : N := (a * b) / W64.

(** the generator state is a u64 *)
Definition rng := N.
Definition set_seed (seed : N) : rng := wrap seed.
Definition get_seed (s : rng) : N := s.

(** [alea::u64()]: (value, new state) *)
Definition u64 (s : rng) : N * rng :=
  let s' := wadd s WY_INC in
  let t := s' * N.lxor s' WY_XOR in
  (N.lxor (t / W64) (t mod W64), s').

(** [k] successive [u64()] *)
Fixpoint u64s (k : nat) (s : rng) : list N * rng :=
  match k with
  | O => ([], s)
  | S k' => let (r, s1) := u64 s in let (l, s2) := u64s k' s1 in (r :: l, s2)
  end.

(** [alea::u64_less_than(max)]; the [while lo < t] loop re-draws, [fuel] bounds the number of re-draws *)
Fixpoint lemire_loop (fuel : nat) (max t hi lo : N) (s : rng) : res (N * rng) :=
  if lo <? t then
    match fuel with
    | O => Fuel
    | S fuel' => let (r, s') := u64 s in lemire_loop fuel' max t (mul_high r max) (wmul r max) s'
    end
  else Ok (hi, s).
Definition u64_less_than (fuel : nat) (max : N) (s : rng) : res (N * rng) :=
  let (r, s') := u64 s in
  let hi := mul_high r max in
  let lo := wmul r max in
  if lo <? max then lemire_loop fuel max (wneg max mod max) hi lo s'   (* max = 0 cannot reach here *)
  else Ok (hi, s').

(** [assert!(max > min); min + u64_less_than(max + 1 - min)] *)
Definition u64_in_range (fuel : nat) (min max : N) (s : rng) : res (N * rng) :=
  if min <? max then
    res_bind (u64_less_than fuel (wsub (wadd max 1) min) s) (fun p => Ok (wadd min (fst p), snd p))
  else Fail.

Local Close Scope N_scope.
Local Open Scope Z_scope.

(** i64 <-> u64 casts *)
Definition to_u64 (z : Z) : N := Z.to_N (z mod 18446744073709551616).
Definition to_i64 (n : N) : Z :=
  let z := Z.of_N (wrap n) in if z <? 9223372036854775808 then z else z - 18446744073709551616.
(** wrapping i64 arithmetic *)
Definition iwrap (z : Z) : Z := to_i64 (to_u64 z).

(** [alea::i64_less_than(max) = u64_less_than(max as u64) as i64] *)
Definition i64_less_than (fuel : nat) (max : Z) (s : rng) : res (Z * rng) :=
  res_bind (u64_less_than fuel (to_u64 max) s) (fun p => Ok (to_i64 (fst p), snd p)).

(** [alea::i64_in_range(min, max)]: [assert!(max > min); min + i64_less_than(max + 1 - min)] *)
Definition i64_in_range (fuel : nat) (min max : Z) (s : rng) : res (Z * rng) :=
  if min <? max then
    res_bind (i64_less_than fuel (iwrap (iwrap (max + 1) - min)) s) (fun p => Ok (iwrap (min + fst p), snd p))
  else Fail.

Local Close Scope Z_scope.

(** floating-point draws, generic in the carrier *)
Section Floats.
  Context {T : Type} (O : Ops T).

  (** [CF64 = 1.0 / ((1u64 << 53) as f64)] *)
  Definition cf64 : T := div O (one O) (ofZ O 9007199254740992%Z).
  (** [alea::f64()]: 53 random bits scaled into [0,1) *)
  Definition f64 (s : rng) : T * rng :=
    let (r, s') := u64 s in (mul O (ofZ O (Z.of_N (N.shiftr r 11))) cf64, s').
  Fixpoint f64s (k : nat) (s : rng) : list T * rng :=
    match k with
    | 0%nat => ([], s)
    | S k' => let (r, s1) := f64 s in let (l, s2) := f64s k' s1 in (r :: l, s2)
    end.
  (** [assert!(max > 0.); f64() * max]  (NaN fails the assertion) *)
  Definition f64_less_than (max : T) (s : rng) : res (T * rng) :=
    if ltb O (zero O) max then let (u, s') := f64 s in Ok (mul O u max, s') else Fail.
  (** [assert!(max > min); min + f64_less_than(max - min)] *)
  Definition f64_in_range (min max : T) (s : rng) : res (T * rng) :=
    if ltb O min max then
      res_bind (f64_less_than (sub O max min) s) (fun p => Ok (add O min (fst p), snd p))
    else Fail.

  (** [i64 as f64]: [ofZ] is exact below 2^53 and rounds to nearest-even above on binary64;
      -2^63 is split so that the magnitude fits the 63-bit primitive integers behind [ofZ] on [FO] *)
  Definition of_i64 (z : Z) : T :=
    if (z =? -9223372036854775808)%Z then neg O (mul O (ofZ O 4611686018427387904%Z) (ofZ O 2%Z)) else ofZ O z.
End Floats.
