(** * RsExprFour: combinators added for the fourth round of Tie A ([LoopTranslator] of tools/rsexpr.py): the float
    classification [x.is_infinite()].  Same conventions as [Base/RsExpr.v].  No proofs in this file. *)
From Coq Require Import ZArith List Bool.
From Compute Require Import Base.Ops Base.ListMat Base.RsExpr.
Import ListNotations.

(** [x.is_infinite()] as core writes it: [(self == f64::INFINITY) | (self == f64::NEG_INFINITY)] (a NaN is not infinite) *)
Definition rs_is_infinite {T : Type} (O : Ops T) (x : T) : bool :=
  orb (eqb O x (rs_f64_infinity O)) (eqb O x (rs_f64_neg_infinity O)).
