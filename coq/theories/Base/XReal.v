(** * XReal: the reals extended with one NaN ([None]), as a carrier for models that use NaN as a value
    (the NaN-seeded folds of [statistics::min]/[max]).  Arithmetic is lifted strictly (NaN-propagating),
    comparisons involving NaN are false, [ofLit] maps the NaN literal to [None].  Definitions only. *)
From Coq Require Import ZArith QArith Reals List Floats Bool.
From Compute Require Import Base.Ops.
Local Close Scope Q_scope.

Definition XR := option R.
Definition xlift2 (f : R -> R -> R) (a b : XR) : XR :=
  match a, b with Some x, Some y => Some (f x y) | _, _ => None end.
Definition xcmp (f : R -> R -> bool) (a b : XR) : bool :=
  match a, b with Some x, Some y => f x y | _, _ => false end.
Definition float_is_nan (f : float) : bool := negb (PrimFloat.eqb f f).

Definition XO : Ops XR := {|
  zero := Some 0%R; one := Some 1%R;
  add := xlift2 Rplus; sub := xlift2 Rminus; mul := xlift2 Rmult; div := xlift2 Rdiv;
  neg := option_map Ropp; abs := option_map Rabs; sqrt := option_map R_sqrt.sqrt;
  ltb := xcmp Rltb; leb := xcmp Rleb; eqb := xcmp Reqb;
  ofZ := fun z => Some (IZR z); ofQ := fun q => Some (Q2R q);
  truncZ := fun a => match a with Some x => RtruncZ x | None => 0%Z end;
  ofLit := fun l => if float_is_nan (snd l) then None else Some (Q2R (fst l));
  f1 := fun f => option_map (Rf1 f); f2 := fun f => xlift2 (Rf2 f); pi := Some PI |}.
