(** * Tape: executable model of the [reverse] crate (reverse-mode autodiff on a Wengert tape).

    An objective "program" is an expression AST ([expr]); [eval] computes its value while pushing
    one node [(w1, w2, d1, d2)] per overloaded operator application, exactly as [reverse]'s
    [impl Add/Sub/Mul/Div for Var], [Var::powi], [Var::exp], ... do (operands left to right, then the
    operator's own node(s)); [sweep] is [Var::grad]: [derivs[loc] = 1] and, for every node from the
    newest to the oldest, [derivs[d1] += w1 * derivs[idx]; derivs[d2] += w2 * derivs[idx]].
    Generic over [Ops T]; no proofs in this file. *)
From Coq Require Import List Arith ZArith Bool.
From Compute Require Import Base.Ops Base.ListMat.
Import ListNotations.

(** constants of a program: a literal or a cell [data[i][j]] of the objective's data argument *)
Inductive cst (T : Type) := CLit (x : T) | CDat (i j : nat).
Arguments CLit {T} _. Arguments CDat {T} _ _.

(** unary methods of [Var] that the programs use *)
Inductive ufn := UExp | USin | UCos | ULn | USqrt | URecip | UTanh.

Inductive expr (T : Type) :=
| EPar (i : nat)                     (* params[i] *)
| EVar (k : nat)                     (* k-th enclosing [let] (0 = innermost) *)
| ELet (a b : expr T)                (* let v = a; b   (sharing: [v] is Copy) *)
| EAdd (a b : expr T)                (* Var + Var *)
| EAddC (a : expr T) (c : cst T)     (* Var + f64  (and f64 + Var, which is [rhs + self]) *)
| ESub (a b : expr T)                (* Var - Var  = a + (b * -1.) *)
| ESubC (a : expr T) (c : cst T)     (* Var - f64  = a + (-c) *)
| ECSub (c : cst T) (a : expr T)     (* f64 - Var *)
| EMul (a b : expr T)                (* Var * Var *)
| EMulC (a : expr T) (c : cst T)     (* Var * f64  (and f64 * Var) *)
| EDiv (a b : expr T)                (* Var / Var  = a * b.recip() *)
| EDivC (a : expr T) (c : cst T)     (* Var / f64  = a * (1/c) *)
| ECDiv (c : cst T) (a : expr T)     (* f64 / Var *)
| ENeg (a : expr T)                  (* -Var = a * -1. *)
| EPowi (a : expr T) (n : Z)         (* Var::powi *)
| EFn (f : ufn) (a : expr T).
Arguments EPar {T} _. Arguments EVar {T} _. Arguments ELet {T} _ _. Arguments EAdd {T} _ _.
Arguments EAddC {T} _ _. Arguments ESub {T} _ _. Arguments ESubC {T} _ _. Arguments ECSub {T} _ _.
Arguments EMul {T} _ _. Arguments EMulC {T} _ _. Arguments EDiv {T} _ _. Arguments EDivC {T} _ _.
Arguments ECDiv {T} _ _. Arguments ENeg {T} _. Arguments EPowi {T} _ _. Arguments EFn {T} _ _.

Section Tape.
  Context {T : Type} (O : Ops T).
  Local Notation c0 := (zero O). Local Notation c1 := (one O).
  Local Notation "x + y" := (add O x y). Local Notation "x - y" := (sub O x y).
  Local Notation "x * y" := (mul O x y). Local Notation "x / y" := (div O x y).
  Local Notation "- x" := (neg O x).

  Record node := mkNode { nw1 : T; nw2 : T; nd1 : nat; nd2 : nat }.
  (** nodes newest first (the order of the reverse sweep) and their number *)
  Record tape := mkTape { nodes : list node; tlen : nat }.
  Definition empty_tape : tape := mkTape [] 0.
  (** a differentiable variable: value and location *)
  Definition var := (T * nat)%type.

  (** [Tape::add_node] *)
  Definition push (tp : tape) (d1 d2 : nat) (w1 w2 : T) : nat * tape :=
    (tlen tp, mkTape (mkNode w1 w2 d1 d2 :: nodes tp) (S (tlen tp))).
  (** [Tape::add_var] *)
  Definition add_var (tp : tape) (x : T) : var * tape :=
    let (l, tp') := push tp (tlen tp) (tlen tp) c0 c0 in ((x, l), tp').
  Fixpoint add_vars (tp : tape) (xs : list T) : list var * tape :=
    match xs with
    | [] => ([], tp)
    | x :: xs' => let (v, tp1) := add_var tp x in
                  let (vs, tp2) := add_vars tp1 xs' in (v :: vs, tp2)
    end.

  (** one-operand node (both dependencies are the operand, second weight 0.) *)
  Definition un (tp : tape) (a : var) (val w : T) : var * tape :=
    let (l, tp') := push tp (snd a) (snd a) w c0 in ((val, l), tp').

  Definition cval (data : list (list T)) (c : cst T) : option T :=
    match c with
    | CLit x => Some x
    | CDat i j => let* row := nth_error data i in nth_error row j
    end.

  Definition m1 : T := - c1.
  Definition v_mulc (tp : tape) (a : var) (c : T) := un tp a (fst a * c) c.
  Definition v_addc (tp : tape) (a : var) (c : T) := un tp a (fst a + c) c1.
  Definition v_add (tp : tape) (a b : var) : var * tape :=
    let (l, tp') := push tp (snd a) (snd b) c1 c1 in ((fst a + fst b, l), tp').
  Definition v_mul (tp : tape) (a b : var) : var * tape :=
    let (l, tp') := push tp (snd a) (snd b) (fst b) (fst a) in ((fst a * fst b, l), tp').
  Definition v_recip (tp : tape) (a : var) := un tp a (c1 / fst a) (m1 / powi O (fst a) 2).

  Definition v_fn (tp : tape) (f : ufn) (a : var) : var * tape :=
    let x := fst a in
    match f with
    | UExp => un tp a (f1 O Exp x) (f1 O Exp x)
    | USin => un tp a (f1 O Sin x) (f1 O Cos x)
    | UCos => un tp a (f1 O Cos x) (- (f1 O Sin x))
    | ULn => un tp a (f1 O Ln x) (c1 / x)
    | USqrt => un tp a (sqrt O x) (c1 / (two O * sqrt O x))
    | URecip => v_recip tp a
    | UTanh => un tp a (f1 O Tanh x) (c1 / powi O (f1 O Cosh x) 2)
    end.

  Fixpoint eval (e : expr T) (ps env : list var) (data : list (list T)) (tp : tape)
    : option (var * tape) :=
    match e with
    | EPar i => let* v := nth_error ps i in Some (v, tp)
    | EVar k => let* v := nth_error env k in Some (v, tp)
    | ELet a b => let* (va, tp1) := eval a ps env data tp in eval b ps (va :: env) data tp1
    | EAdd a b =>
        let* (va, tp1) := eval a ps env data tp in
        let* (vb, tp2) := eval b ps env data tp1 in Some (v_add tp2 va vb)
    | EAddC a c =>
        let* (va, tp1) := eval a ps env data tp in
        let* x := cval data c in Some (v_addc tp1 va x)
    | ESub a b =>
        let* (va, tp1) := eval a ps env data tp in
        let* (vb, tp2) := eval b ps env data tp1 in
        let (nb, tp3) := v_mulc tp2 vb m1 in Some (v_add tp3 va nb)
    | ESubC a c =>
        let* (va, tp1) := eval a ps env data tp in
        let* x := cval data c in Some (v_addc tp1 va (- x))
    | ECSub c a =>
        let* x := cval data c in
        let* (va, tp1) := eval a ps env data tp in
        let (l, tp2) := push tp1 (snd va) (snd va) c0 m1 in Some ((x - fst va, l), tp2)
    | EMul a b =>
        let* (va, tp1) := eval a ps env data tp in
        let* (vb, tp2) := eval b ps env data tp1 in Some (v_mul tp2 va vb)
    | EMulC a c =>
        let* (va, tp1) := eval a ps env data tp in
        let* x := cval data c in Some (v_mulc tp1 va x)
    | EDiv a b =>
        let* (va, tp1) := eval a ps env data tp in
        let* (vb, tp2) := eval b ps env data tp1 in
        let (rb, tp3) := v_recip tp2 vb in Some (v_mul tp3 va rb)
    | EDivC a c =>
        let* (va, tp1) := eval a ps env data tp in
        let* x := cval data c in Some (v_mulc tp1 va (c1 / x))
    | ECDiv c a =>
        let* x := cval data c in
        let* (va, tp1) := eval a ps env data tp in
        let (l, tp2) := push tp1 (snd va) (snd va) c0 (m1 / fst va) in Some ((x / fst va, l), tp2)
    | ENeg a =>
        let* (va, tp1) := eval a ps env data tp in Some (v_mulc tp1 va m1)
    | EPowi a n =>
        let* (va, tp1) := eval a ps env data tp in
        Some (un tp1 va (powi O (fst va) n) (ofZ O n * powi O (fst va) (Z.pred n)))
    | EFn f a =>
        let* (va, tp1) := eval a ps env data tp in Some (v_fn tp1 f va)
    end.

  (** ** [Var::grad]: the reverse sweep.
      [nds] and [drv] are newest first and aligned ([drv] holds [derivs[idx], derivs[idx-1], ..]);
      a node only ever updates positions [<= idx], so the value popped at [idx] (after its own two
      self-updates when it is a leaf) is final.  [acc] collects the finished entries, oldest first. *)
  Fixpoint bump (l : list T) (k : nat) (x : T) : list T :=
    match l, k with
    | [], _ => []
    | y :: l', 0 => (y + x) :: l'
    | y :: l', S k' => y :: bump l' k' x
    end.
  (** [derivs[d] += w * derivs[idx]] on the split representation [(g = derivs[idx], rest)] *)
  Definition upd1 (idx d : nat) (w : T) (g : T) (rest : list T) : T * list T :=
    if d =? idx then (g + w * g, rest)
    else if d <? idx then (g, bump rest (Nat.sub (Nat.sub idx 1) d) (w * g))
    else (g, rest).
  Fixpoint sweep (nds : list node) (drv acc : list T) : list T :=
    match nds, drv with
    | nd :: nds', g :: drv' =>
        let idx := length nds' in
        let (g1, r1) := upd1 idx (nd1 nd) (nw1 nd) g drv' in
        let (g2, r2) := upd1 idx (nd2 nd) (nw2 nd) g1 r1 in
        sweep nds' r2 (g2 :: acc)
    | _, _ => acc
    end.
  (** [vec![0.; n]] with [derivs[loc] = 1.], newest first *)
  Definition seed (n loc : nat) : list T :=
    map (fun i => if i =? loc then c1 else c0) (rev (seq 0 n)).
  Definition grad (tp : tape) (v : var) : list T := sweep (nodes tp) (seed (tlen tp) (snd v)) [].
  (** [.wrt(&vars)] *)
  Definition wrt (derivs : list T) (vs : list var) : list T := map (fun v => nth (snd v) derivs c0) vs.

  (** ** The gradient functions the optimisers use *)
  (** Adam / plain SGD: fresh tape, the parameters are leaves, [f(&params, data).grad().wrt(&params)] *)
  Definition tape_grad (e : expr T) (data : list (list T)) (xs : list T) : option (list T) :=
    let (ps, tp) := add_vars empty_tape xs in
    let* (r, tp') := eval e ps [] data tp in
    Some (wrt (grad tp' r) ps).
  (** Nesterov SGD: the look-ahead points are non-leaf nodes [p - momentum*u] (weights 1., 0.) on top
      of the leaves; only their values [fs] matter for the result *)
  Definition tape_grad_la (e : expr T) (data : list (list T)) (fs : list T) : option (list T) :=
    let (ps, tp) := add_vars empty_tape fs in
    let '(fps, tp1) := fold_left (fun (st : list var * tape) (pv : var) =>
                          let (l, t') := push (snd st) (snd pv) (snd pv) c1 c0 in
                          (fst st ++ [(fst pv, l)], t')) ps ([], tp) in
    let* (r, tp') := eval e fps [] data tp1 in
    Some (wrt (grad tp' r) fps).
  (** value only *)
  Definition tape_val (e : expr T) (data : list (list T)) (xs : list T) : option T :=
    let (ps, tp) := add_vars empty_tape xs in
    let* (r, _) := eval e ps [] data tp in Some (fst r).
End Tape.
Arguments nw1 {T} _. Arguments nw2 {T} _. Arguments nd1 {T} _. Arguments nd2 {T} _.
Arguments nodes {T} _. Arguments tlen {T} _.
