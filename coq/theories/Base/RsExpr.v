(** * RsExpr: the few list/integer helpers the expression translator [tools/rsexpr.py] renders Rust iterator
    expressions into.  No proofs in this file. *)
From Coq Require Import ZArith List.
From Compute Require Import Base.Ops.
Import ListNotations.

(** [lo, lo+1, ..., lo+len-1] *)
Fixpoint rs_seq (lo : Z) (len : nat) : list Z :=
  match len with 0%nat => [] | S len' => lo :: rs_seq (lo + 1)%Z len' end.

(** the inclusive integer range [(a ..= b)] (empty when [b < a]) *)
Definition rs_range (a b : Z) : list Z := rs_seq a (Z.to_nat (b - a + 1)%Z).

(** [Iterator::sum::<f64>()]: a left fold that starts from -0.0 *)
Definition rs_iter_sum {T : Type} (O : Ops T) (l : list T) : T := fold_left (add O) l (neg O (zero O)).

(** [for (idx, val) in l.iter().enumerate() { acc = f acc idx val }]: left fold with the running index *)
Fixpoint rs_fold_enum_from {A B : Type} (f : B -> nat -> A -> B) (idx : nat) (l : list A) (acc : B) : B :=
  match l with
  | [] => acc
  | a :: l' => rs_fold_enum_from f (S idx) l' (f acc idx a)
  end.
Definition rs_fold_enum {A B : Type} (f : B -> nat -> A -> B) (l : list A) (acc : B) : B :=
  rs_fold_enum_from f 0 l acc.
