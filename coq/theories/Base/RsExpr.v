(** * RsExpr: the few list/integer helpers the expression translator [tools/rsexpr.py] renders Rust iterator
    expressions into.  No proofs in this file. *)
From Coq Require Import ZArith QArith List Bool Floats.
From Compute Require Import Base.Ops Base.ListMat.
Import ListNotations.
Local Close Scope Q_scope.

(** [lo, lo+1, ..., lo+len-1] *)
Fixpoint rs_seq (lo : Z) (len : nat) : list Z :=
  match len with 0%nat => [] | S len' => lo :: rs_seq (lo + 1)%Z len' end.

(** the inclusive integer range [(a ..= b)] (empty when [b < a]) *)
Definition rs_range (a b : Z) : list Z := rs_seq a (Z.to_nat (b - a + 1)%Z).

(** [Iterator::sum::<f64>()]: a left fold that starts from -0.0 *)
Definition rs_iter_sum {T : Type} (O : Ops T) (l : list T) : T := fold_left (add O) l (neg O (zero O)).

(** [for (idx, val) in l.iter().enumerate() { acc = f acc idx val }]: left fold with the running index *)
Fixpoint rs_fold_enum_from {A B : Type} (f : B -> nat -> A -> B) (idx : nat) (l : list A) (acc : B) : B :=
  match l with
  | [] => acc
  | a :: l' => rs_fold_enum_from f (S idx) l' (f acc idx a)
  end.
Definition rs_fold_enum {A B : Type} (f : B -> nat -> A -> B) (l : list A) (acc : B) : B :=
  rs_fold_enum_from f 0 l acc.

(** ** Loops, slices and iterator chains (statement-level translator, [LoopTranslator] of tools/rsexpr.py).
    Slices and vectors are lists, indices and lengths live in [Z], a panic is [None]. *)

(** the half-open range [a .. b] (empty when [b <= a]) *)
Definition rs_range_excl (a b : Z) : list Z := rs_seq a (Z.to_nat (b - a)%Z).

(** [x.len()] *)
Definition rs_len {A : Type} (l : list A) : Z := Z.of_nat (length l).

(** unsigned subtraction as the release build computes it: wraps modulo 2^64 (a debug build panics instead) *)
Definition rs_usub (a b : Z) : Z := if (b <=? a)%Z then (a - b)%Z else (a - b + 18446744073709551616)%Z.
(** integer [/] and [%]: truncating; a zero divisor panics *)
Definition rs_idiv (a b : Z) : option Z := if (b =? 0)%Z then None else Some (Z.quot a b).
Definition rs_irem (a b : Z) : option Z := if (b =? 0)%Z then None else Some (Z.rem a b).

(** [x[i]]: out of bounds panics *)
Definition rs_get {A : Type} (l : list A) (i : Z) : option A :=
  if (i <? 0)%Z then None else nth_error l (Z.to_nat i).
(** [x[i] = v] *)
Definition rs_set {A : Type} (l : list A) (i : Z) (v : A) : option (list A) :=
  if (i <? 0)%Z then None else if (Z.to_nat i <? length l)%nat then Some (upd l (Z.to_nat i) v) else None.
(** [&x[a..b]], [&x[a..]], [&x[..b]]: panics unless [a <= b <= len] *)
Definition rs_slice {A : Type} (l : list A) (a b : Z) : option (list A) :=
  if ((0 <=? a) && (a <=? b) && (b <=? rs_len l))%Z
  then Some (firstn (Z.to_nat (b - a)) (skipn (Z.to_nat a) l)) else None.
Definition rs_slice_from {A : Type} (l : list A) (a : Z) : option (list A) := rs_slice l a (rs_len l).
Definition rs_slice_to {A : Type} (l : list A) (b : Z) : option (list A) := rs_slice l 0%Z b.

(** [vec![c; n]] *)
Definition rs_vec_rep {A : Type} (c : A) (n : Z) : list A := repeat c (Z.to_nat n).
(** ... as the allocation checks it: more than [isize::MAX] bytes of 8-byte elements is the panic "capacity overflow" *)
Definition rs_vec_alloc {A : Type} (c : A) (n : Z) : option (list A) :=
  if (n <=? 1152921504606846975)%Z then Some (repeat c (Z.to_nat n)) else None.
(** [.iter().enumerate()] *)
Definition rs_enumerate {A : Type} (l : list A) : list (Z * A) := combine (rs_seq 0%Z (length l)) l.
(** [.take(n)], [.skip(n)] *)
Definition rs_take {A : Type} (l : list A) (n : Z) : list A := firstn (Z.to_nat n) l.
Definition rs_skip {A : Type} (l : list A) (n : Z) : list A := skipn (Z.to_nat n) l.

(** a loop whose body can panic: left fold in the option monad *)
Fixpoint rs_fold_opt {A S : Type} (f : S -> A -> option S) (l : list A) (s : S) : option S :=
  match l with
  | [] => Some s
  | a :: l' => match f s a with Some s' => rs_fold_opt f l' s' | None => None end
  end.
(** [.map(|x| e)] with a closure that can panic *)
Fixpoint rs_map_opt {A B : Type} (f : A -> option B) (l : list A) : option (list B) :=
  match l with
  | [] => Some []
  | a :: l' => match f a with
               | Some b => match rs_map_opt f l' with Some bs => Some (b :: bs) | None => None end
               | None => None
               end
  end.

(** a loop with [break] / [return]: what one pass through the body does *)
Inductive rs_flow (S R : Type) : Type :=
| rs_next (s : S)        (* end of the body / [continue] *)
| rs_break (s : S)
| rs_return (r : R)
| rs_panic.
Arguments rs_next {S R} s. Arguments rs_break {S R} s. Arguments rs_return {S R} r. Arguments rs_panic {S R}.
Fixpoint rs_loop {A S R : Type} (f : S -> A -> rs_flow S R) (l : list A) (s : S) : rs_flow S R :=
  match l with
  | [] => rs_next s
  | a :: l' => match f s a with rs_next s' => rs_loop f l' s' | other => other end
  end.

(** [Iterator::product::<f64>()]: a left fold from 1.0 *)
Definition rs_iter_product {T : Type} (O : Ops T) (l : list T) : T := fold_left (mul O) l (one O).

(** the constants [f64::NAN], [f64::MAX], [f64::MIN], [f64::INFINITY], [f64::NEG_INFINITY] *)
Definition rs_f64_max_q : Q := inject_Z (9007199254740991 * 2 ^ 971).
Definition rs_f64_nan {T : Type} (O : Ops T) : T := ofLit O (0%Q, PrimFloat.nan).
Definition rs_f64_max {T : Type} (O : Ops T) : T := ofLit O (rs_f64_max_q, 0x1.fffffffffffffp+1023%float).
Definition rs_f64_min {T : Type} (O : Ops T) : T := ofLit O (Qopp rs_f64_max_q, (-0x1.fffffffffffffp+1023)%float).
Definition rs_f64_infinity {T : Type} (O : Ops T) : T := div O (one O) (zero O).
Definition rs_f64_neg_infinity {T : Type} (O : Ops T) : T := neg O (div O (one O) (zero O)).
