(** * DistCore: what a "parameter state machine" of a distribution is (definitions only).

    A Rust method on [&mut self] that panics leaves the object behind in the state it had reached at the
    panic (the harness observes it after [catch_unwind]); so a step returns [Ok s] or [Panicked s], the
    latter carrying that state.  A constructor that panics leaves nothing: [option].
    [machine T] packages one distribution: its state record (fields incl. cached sub-samplers), the calls
    that can mutate it, the constructor, and -- as the SPECIFICATION side -- for every call the parameter
    vector it asks for ([m_target]).  Everything here and in Generated/dist_setters.v is generic in the
    carrier [T] and its operations: no algebraic law is used anywhere. *)
From Coq Require Import ZArith List Bool.
From Compute Require Import Base.Ops.
Import ListNotations.

Inductive result (S : Type) := Ok (s : S) | Panicked (s : S).
Arguments Ok {S} _. Arguments Panicked {S} _.

Definition state_of {S} (r : result S) : S := match r with Ok s => s | Panicked s => s end.
Definition is_ok {S} (r : result S) : bool := match r with Ok _ => true | Panicked _ => false end.

(** sequencing of two calls on the same object: a panic stops the chain, the object stays as it is *)
Definition rbind {S} (r : result S) (k : S -> result S) : result S :=
  match r with Ok s => k s | Panicked s => Panicked s end.

(** [params[i]] (index panic when the slice is too short) *)
Definition with_param {T S} (params : list T) (i : nat) (self : S) (k : T -> result S) : result S :=
  match nth_error params i with Some v => k v | None => Panicked self end.
(** a constructor call inside a method: its panic unwinds through the method *)
Definition with_new {A S} (o : option A) (self : S) (k : A -> result S) : result S :=
  match o with Some a => k a | None => Panicked self end.

Definition obind {A B} (o : option A) (f : A -> option B) : option B :=
  match o with Some a => f a | None => None end.

Section Casts.
  Context {T : Type} (O : Ops T).
  Definition two32 : T := ofZ O (2 ^ 32).
  Definition two63 : T := mul O two32 (ofZ O (2 ^ 31)).
  (** [x as u64] / [x as usize] (64-bit target) of a float: truncation, saturating to [0, 2^64-1], NaN -> 0.
      [truncZ] saturates like [as i64]; above 2^63 the subtraction [x - 2^63] is exact on binary64. *)
  Definition cast_u64 (x : T) : Z :=
    if leb O two63 x then (2 ^ 63 + truncZ O (sub O x two63))%Z else Z.max 0 (truncZ O x).
  (** [x as i64] *)
  Definition cast_i64 (x : T) : Z := truncZ O x.
  (** [n as f64] for an unsigned 64-bit [n]: one rounding (hi*2^32 and lo are exact) *)
  Definition of_u64 (n : Z) : T :=
    add O (mul O (ofZ O (n / 2 ^ 32)) two32) (ofZ O (n mod 2 ^ 32)).
End Casts.

Record machine (T : Type) := {
  m_state : Type;                       (* the struct: parameters and cached sub-samplers *)
  m_op : Type;                          (* the calls taking [&mut self]: setters and [update] *)
  m_param : Type;                       (* the constructor's argument tuple *)
  m_new : m_param -> option m_state;    (* [D::new]; [None] = panic *)
  m_step : m_state -> m_op -> result m_state;
  m_params : m_state -> m_param;        (* the parameter fields of the object *)
  (* specification side, derived from names and signatures only (never from a method body): *)
  m_target : m_state -> m_op -> option m_param;   (* the parameter vector the call asks for; [None]: slice too short *)
  m_wf : m_op -> bool;                  (* [update] is given exactly as many numbers as the constructor has arguments *)
  m_is_update : m_op -> bool;
  (* boundary with the harness: *)
  m_decode_param : list Z -> list T -> option m_param;
  m_decode_op : nat -> list Z -> list T -> option m_op;
  m_flat : m_state -> list Z * list T   (* all fields, depth first, in declaration order (= the order of {:?}) *)
}.
Arguments m_state {T} _. Arguments m_op {T} _. Arguments m_param {T} _. Arguments m_new {T} _ _.
Arguments m_step {T} _ _ _. Arguments m_params {T} _ _. Arguments m_target {T} _ _ _. Arguments m_wf {T} _ _.
Arguments m_is_update {T} _ _. Arguments m_decode_param {T} _ _ _. Arguments m_decode_op {T} _ _ _ _.
Arguments m_flat {T} _ _.

Definition flat_app {T} (a b : list Z * list T) : list Z * list T := (fst a ++ fst b, snd a ++ snd b).

Section Run.
  Context {T : Type} (m : machine T).
  (** the object is exactly what the constructor builds from the object's own parameters *)
  Definition coherent (s : m_state m) : Prop := m_new m (m_params m s) = Some s.
  (** a history of calls, panics caught: the object carries on from the state the panic left *)
  Fixpoint run (s : m_state m) (h : list (m_op m)) : m_state m :=
    match h with [] => s | o :: h' => run (state_of (m_step m s o)) h' end.
  (** the same, recording after every call whether it returned and the state of the object *)
  Fixpoint trace (s : m_state m) (h : list (m_op m)) : list (bool * m_state m) :=
    match h with
    | [] => []
    | o :: h' => let r := m_step m s o in (is_ok r, state_of r) :: trace (state_of r) h'
    end.
End Run.
