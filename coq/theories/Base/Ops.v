(** * Ops: one operations record, several carriers.

    Every numeric model of the development is a Gallina term written once over
    [Ops T].  The same term is instantiated at
    - [R]      ([RO])      : the theorems (exact arithmetic);
    - [float]  ([FO tbl])  : bit-exact correspondence with the Rust code; the libm
                             calls are answered from a table [tbl] recorded by the
                             harness (interposed libm), so the model never needs an
                             executable exp/ln;
    - [Q]      ([QO])      : proofs by computation over finite index sets.
    No proofs in this file. *)
From Coq Require Import ZArith QArith Reals List Floats Bool.
From Coq Require Import Qreduction Qabs.
Import ListNotations.

(** libm entry points the crate reaches (unary / binary). *)
Inductive fn1 :=
| Exp | Ln | Sin | Cos | Tan | Asin | Acos | Atan | Sinh | Cosh | Tanh
| Asinh | Acosh | Atanh | Log2 | Log10 | Ln1p | Expm1 | Exp2 | Cbrt
| Floor | Ceil | Round | Trunc.
Inductive fn2 := Pow | Atan2 | Hypot | Fmod.

Definition fn1_eqb (a b : fn1) : bool :=
  match a, b with
  | Exp, Exp | Ln, Ln | Sin, Sin | Cos, Cos | Tan, Tan | Asin, Asin | Acos, Acos
  | Atan, Atan | Sinh, Sinh | Cosh, Cosh | Tanh, Tanh | Asinh, Asinh | Acosh, Acosh
  | Atanh, Atanh | Log2, Log2 | Log10, Log10 | Ln1p, Ln1p | Expm1, Expm1 | Exp2, Exp2
  | Cbrt, Cbrt | Floor, Floor | Ceil, Ceil | Round, Round | Trunc, Trunc => true
  | _, _ => false
  end.
Definition fn2_eqb (a b : fn2) : bool :=
  match a, b with
  | Pow, Pow | Atan2, Atan2 | Hypot, Hypot | Fmod, Fmod => true
  | _, _ => false
  end.

Record Ops (T : Type) := mkOps {
  zero : T; one : T;
  add : T -> T -> T; sub : T -> T -> T; mul : T -> T -> T; div : T -> T -> T;
  neg : T -> T; abs : T -> T; sqrt : T -> T;
  ltb : T -> T -> bool; leb : T -> T -> bool; eqb : T -> T -> bool;
  ofZ : Z -> T;            (* integer -> T  (usize as f64; exact below 2^53) *)
  ofQ : Q -> T;            (* short decimal literal p/q, p and q exactly representable *)
  truncZ : T -> Z;         (* `x as i64`-style truncation toward zero *)
  ofLit : Q * float -> T;  (* long decimal literal: (exact value, its binary64 rounding); see [lit_ok] *)
  f1 : fn1 -> T -> T;      (* libm, unary *)
  f2 : fn2 -> T -> T -> T; (* libm, binary *)
  pi : T
}.
Arguments zero {T} _. Arguments one {T} _.
Arguments add {T} _ _ _. Arguments sub {T} _ _ _. Arguments mul {T} _ _ _. Arguments div {T} _ _ _.
Arguments neg {T} _ _. Arguments abs {T} _ _. Arguments sqrt {T} _ _.
Arguments ltb {T} _ _ _. Arguments leb {T} _ _ _. Arguments eqb {T} _ _ _.
Arguments ofZ {T} _ _. Arguments ofQ {T} _ _. Arguments truncZ {T} _ _. Arguments ofLit {T} _ _.
Arguments f1 {T} _ _ _. Arguments f2 {T} _ _ _ _. Arguments pi {T} _.

(** ** Derived generic operations *)
Section Derived.
  Context {T : Type} (O : Ops T).

  Definition two := add O (one O) (one O).
  Definition ofN (n : nat) : T := ofZ O (Z.of_nat n).
  Definition is_nan (x : T) : bool := negb (eqb O x x).
  Definition gtb (x y : T) := ltb O y x.
  Definition geb (x y : T) := leb O y x.

  (** [f64::min] / [f64::max] (minNum / maxNum: a NaN operand is dropped). *)
  Definition fmin (x y : T) : T :=
    if is_nan x then y else if is_nan y then x else if ltb O y x then y else x.
  Definition fmax (x y : T) : T :=
    if is_nan x then y else if is_nan y then x else if ltb O x y then y else x.

  (** [f64::powi]: compiler-rt's __powidf2 (square and multiply, reciprocal at the end). *)
  Fixpoint powi_pos (fuel : nat) (a r : T) (b : positive) : T :=
    match fuel with
    | 0%nat => r
    | S fuel' =>
        match b with
        | xH => mul O r a
        | xO b' => powi_pos fuel' (mul O a a) r b'
        | xI b' => powi_pos fuel' (mul O a a) (mul O r a) b'
        end
    end.
  Definition powi (x : T) (n : Z) : T :=
    match n with
    | Z0 => one O
    | Zpos p => powi_pos 64 x (one O) p
    | Zneg p => div O (one O) (powi_pos 64 x (one O) p)
    end.

  Definition sq (x : T) := mul O x x.
  Definition exp_ (x : T) := f1 O Exp x.
  Definition ln_ (x : T) := f1 O Ln x.
  Definition powf (x y : T) := f2 O Pow x y.

  (** left-to-right sum from [zero] (what [s = 0.; for .. { s += x }] computes) *)
  Definition sum_from (s0 : T) (l : list T) : T := fold_left (add O) l s0.
End Derived.

(** ** Carrier R *)
Local Open Scope R_scope.
Definition Rltb (x y : R) : bool := if Rlt_dec x y then true else false.
Definition Rleb (x y : R) : bool := if Rle_dec x y then true else false.
Definition Reqb (x y : R) : bool := if Req_EM_T x y then true else false.
Definition RtruncZ (x : R) : Z :=
  if Rle_dec 0 x then Int_part x else (- Int_part (- x))%Z.
Definition Rf1 (f : fn1) (x : R) : R :=
  match f with
  | Exp => exp x | Ln => ln x | Sin => sin x | Cos => cos x | Tan => tan x
  | Atan => atan x | Sinh => sinh x | Cosh => cosh x | Tanh => tanh x
  | Log2 => ln x / ln 2 | Log10 => ln x / ln 10 | Ln1p => ln (1 + x)
  | Expm1 => exp x - 1 | Exp2 => Rpower 2 x
  | Floor => IZR (Int_part x) | Ceil => - IZR (Int_part (- x))
  | Trunc => IZR (RtruncZ x)
  | Asin | Acos | Asinh | Acosh | Atanh | Cbrt | Round => 0 (* not used by any R theorem *)
  end.
Definition Rf2 (f : fn2) (x y : R) : R :=
  match f with
  | Pow => Rpower x y
  | Hypot => R_sqrt.sqrt (x * x + y * y)
  | Atan2 | Fmod => 0
  end.
Definition RO : Ops R := {|
  zero := 0; one := 1; add := Rplus; sub := Rminus; mul := Rmult; div := Rdiv;
  neg := Ropp; abs := Rabs; sqrt := R_sqrt.sqrt;
  ltb := Rltb; leb := Rleb; eqb := Reqb;
  ofZ := IZR; ofQ := Q2R; truncZ := RtruncZ; ofLit := fun l => Q2R (fst l); f1 := Rf1; f2 := Rf2; pi := PI |}.
Local Close Scope R_scope.

(** ** Carrier Q (no irrational functions: those return 0 and are never used on Q) *)
Definition Qltb (x y : Q) : bool := match Qcompare x y with Lt => true | _ => false end.
Definition Qleb (x y : Q) : bool := match Qcompare x y with Gt => false | _ => true end.
Definition Qeqb (x y : Q) : bool := match Qcompare x y with Eq => true | _ => false end.
Definition QtruncZ (x : Q) : Z := Z.quot (Qnum x) (Zpos (Qden x)).
Definition QO : Ops Q := {|
  zero := 0%Q; one := 1%Q;
  add := fun x y => Qred (Qplus x y); sub := fun x y => Qred (Qminus x y);
  mul := fun x y => Qred (Qmult x y); div := fun x y => Qred (Qdiv x y);
  neg := Qopp; abs := Qabs; sqrt := fun _ => 0%Q;
  ltb := Qltb; leb := Qleb; eqb := Qeqb;
  ofZ := inject_Z; ofQ := fun q => Qred q; truncZ := QtruncZ; ofLit := fun l => Qred (fst l);
  f1 := fun _ _ => 0%Q; f2 := fun _ _ _ => 0%Q; pi := 0%Q |}.

(** ** Carrier float (binary64), libm answered from a recorded table *)
Local Open Scope float_scope.

(** bit-level equality up to NaN payload: NaN = NaN, +0 <> -0 *)
Definition fbits_eqb (x y : float) : bool :=
  if PrimFloat.eqb x x then
    if PrimFloat.eqb x y then
      if PrimFloat.eqb x 0 then PrimFloat.eqb (1 / x) (1 / y) else true
    else false
  else negb (PrimFloat.eqb y y).

Record libm_table := {
  tbl1 : list (fn1 * float * float);
  tbl2 : list (fn2 * float * float * float) }.
Definition empty_tbl : libm_table := {| tbl1 := []; tbl2 := [] |}.

Fixpoint lookup1 (t : list (fn1 * float * float)) (f : fn1) (x : float) : float :=
  match t with
  | [] => nan
  | (g, a, r) :: t' => if fn1_eqb f g && fbits_eqb a x then r else lookup1 t' f x
  end.
Fixpoint lookup2 (t : list (fn2 * float * float * float)) (f : fn2) (x y : float) : float :=
  match t with
  | [] => nan
  | (g, a, b, r) :: t' =>
      if fn2_eqb f g && fbits_eqb a x && fbits_eqb b y then r else lookup2 t' f x y
  end.

(** Z -> float, exact for |z| < 2^53 (and correctly rounded products of two such otherwise
    are not needed: every integer the models convert is far below 2^53). *)
Definition float_ofZ (z : Z) : float :=
  match z with
  | Z0 => 0
  | Zpos p => PrimFloat.of_uint63 (Uint63.of_Z (Zpos p))
  | Zneg p => - PrimFloat.of_uint63 (Uint63.of_Z (Zpos p))
  end.
Definition float_ofQ (q : Q) : float := float_ofZ (Qnum q) / float_ofZ (Zpos (Qden q)).

(** float -> Z by truncation, saturating like Rust's `as i64`; NaN -> 0 *)
Definition float_truncZ (x : float) : Z :=
  match Prim2SF x with
  | S754_zero _ | S754_nan => 0%Z
  | S754_infinity s => if s then (- 2 ^ 63)%Z else (2 ^ 63 - 1)%Z
  | S754_finite s m e =>
      let mag := match e with
                 | Z0 => Zpos m
                 | Zpos k => (Zpos m * 2 ^ Zpos k)%Z
                 | Zneg k => (Zpos m / 2 ^ Zpos k)%Z
                 end in
      let v := if s then (- mag)%Z else mag in
      Z.max (- 2 ^ 63) (Z.min (2 ^ 63 - 1) v)
  end.

Definition float_pi : float := 0x1.921fb54442d18p+1.

(** [lit_ok (q, f)]: the finite float [f = ±m·2^e] is within half a unit in the last place of [q]
    (so [f] is a nearest binary64 of the decimal literal [q], as Rust's parser returns; at a binade
    boundary the test accepts the slightly wider upper half-gap — documented over-acceptance). *)
Definition lit_ok (l : Q * float) : bool :=
  let (q, f) := l in
  match Prim2SF f with
  | S754_zero _ => Qeqb q 0
  | S754_finite s m e =>
      let v : Q := (if s then Qopp else fun x => x) (inject_Z (Zpos m) * (Qpower 2 e))%Q in
      Qleb (Qabs (q - v)) (Qpower 2 (e - 1))
  | _ => false
  end.

Definition FO (t : libm_table) : Ops float := {|
  zero := 0; one := 1;
  add := PrimFloat.add; sub := PrimFloat.sub; mul := PrimFloat.mul; div := PrimFloat.div;
  neg := PrimFloat.opp; abs := PrimFloat.abs; sqrt := PrimFloat.sqrt;
  ltb := PrimFloat.ltb; leb := PrimFloat.leb; eqb := PrimFloat.eqb;
  ofZ := float_ofZ; ofQ := float_ofQ; truncZ := float_truncZ; ofLit := snd;
  f1 := lookup1 (tbl1 t); f2 := lookup2 (tbl2 t); pi := float_pi |}.
Definition FO0 : Ops float := FO empty_tbl.
Local Close Scope float_scope.

(** ** Outcomes of a run (implementation or model) *)
Inductive outcome (A : Type) := Val (a : A) | Panic.
Arguments Val {A} _. Arguments Panic {A}.

Definition opt_out {A} (o : option A) : outcome A :=
  match o with Some a => Val a | None => Panic end.

Fixpoint list_eqb {A} (e : A -> A -> bool) (l1 l2 : list A) : bool :=
  match l1, l2 with
  | [], [] => true
  | a :: l1', b :: l2' => e a b && list_eqb e l1' l2'
  | _, _ => false
  end.
Definition out_eqb {A} (e : A -> A -> bool) (o1 o2 : outcome A) : bool :=
  match o1, o2 with
  | Val a, Val b => e a b
  | Panic, Panic => true
  | _, _ => false
  end.
Definition fl_eqb := list_eqb fbits_eqb.
Definition fout_eqb := out_eqb fl_eqb.

(** indices (as N) of the cases on which [chk] is false *)
Definition failing {C} (chk : C -> bool) (cases : list C) : list N :=
  let fix go (i : N) (l : list C) : list N :=
    match l with
    | [] => []
    | c :: l' => if chk c then go (N.succ i) l' else i :: go (N.succ i) l'
    end in go 0%N cases.
