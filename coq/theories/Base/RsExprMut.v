(** * RsExprMut: more combinators for the statement-level translator ([LoopTranslator] of tools/rsexpr.py): in-place
    mutation of a [Vec] beyond [v[i] = e] ([v.swap(a, b)], [unsafe { v.set_len(n) }]), [f64::EPSILON], and the
    data-driven [while] loop.  Same conventions as [Base/RsExpr.v]: slices and vectors are lists, indices and lengths
    live in [Z], a panic is [None].  No proofs in this file. *)
From Coq Require Import ZArith QArith List Bool.
From Compute Require Import Base.Ops Base.ListMat Base.RsExpr.
Import ListNotations.
Local Close Scope Q_scope.

(** [v.swap(a, b)]: panics unless both positions exist *)
Definition rs_swap {A : Type} (l : list A) (a b : Z) : option (list A) :=
  let* x := rs_get l a in
  let* y := rs_get l b in
  Some (upd (upd l (Z.to_nat a) y) (Z.to_nat b) x).

(** [unsafe { v.set_len(n) }] on a vector whose capacity is at least [n]: the first [min n len] cells are kept, cell [i]
    of the newly exposed part holds [u i] — whatever the allocation held, an arbitrary function of the position *)
Definition rs_set_len {A : Type} (l : list A) (n : Z) (u : Z -> A) : list A :=
  firstn (Z.to_nat n) l ++ map u (rs_seq (rs_len l) (Z.to_nat n - length l)).

(** [f64::EPSILON] = 2^-52 *)
Definition rs_f64_epsilon {T : Type} (O : Ops T) : T := ofQ O (1 # 4503599627370496).

(** [while c { body }] where [c] depends on the data: [step s] is [None] for a panic, [Some (inl s')] after one more pass
    through the body, [Some (inr s')] when the condition is false (the loop is over).  A Gallina function is total, so the
    loop is unrolled at most [fuel] times; running out of fuel is [None] as well (the ties state for which fuel this cannot
    happen). *)
Fixpoint rs_while {S : Type} (fuel : nat) (step : S -> option (S + S)) (s : S) : option S :=
  match fuel with
  | 0%nat => None
  | Datatypes.S fuel' =>
      match step s with
      | None => None
      | Some (inr s') => Some s'
      | Some (inl s') => rs_while fuel' step s'
      end
  end.

(** [v.repeat(n)]: [n] copies of the slice one after the other *)
Definition rs_repeat {A : Type} (l : list A) (n : Z) : list A := concat (repeat l (Z.to_nat n)).
