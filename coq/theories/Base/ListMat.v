(** * ListMat: list utilities shared by the models (definitions only). *)
From Coq Require Import List Arith Bool.
Import ListNotations.

Section Defs.
  Context {A : Type}.

  Fixpoint map2 {B C} (f : A -> B -> C) (l1 : list A) (l2 : list B) : list C :=
    match l1, l2 with
    | a :: l1', b :: l2' => f a b :: map2 f l1' l2'
    | _, _ => []
    end.

  Fixpoint mapi_from {B} (i : nat) (f : nat -> A -> B) (l : list A) : list B :=
    match l with
    | [] => []
    | a :: l' => f i a :: mapi_from (S i) f l'
    end.
  Definition mapi {B} (f : nat -> A -> B) (l : list A) : list B := mapi_from 0 f l.

  (** [l] with position [i] replaced by [v] (unchanged when out of range) *)
  Fixpoint upd (l : list A) (i : nat) (v : A) : list A :=
    match l, i with
    | [], _ => []
    | _ :: l', 0 => v :: l'
    | a :: l', S i' => a :: upd l' i' v
    end.

  (** swap positions [i] and [j] *)
  Definition swap (d : A) (l : list A) (i j : nat) : list A :=
    upd (upd l i (nth j l d)) j (nth i l d).

  (** row-major flat <-> rows *)
  Definition row_of (a : list A) (nc i : nat) : list A := firstn nc (skipn (i * nc) a).
  Definition unflatten (a : list A) (nr nc : nat) : list (list A) :=
    map (row_of a nc) (seq 0 nr).
  Definition flatten (m : list (list A)) : list A := concat m.

  (** entry (i,j) with default *)
  Definition ent (d : A) (m : list (list A)) (i j : nat) : A := nth j (nth i m []) d.

  Definition col_of (d : A) (m : list (list A)) (j : nat) : list A :=
    map (fun r => nth j r d) m.
  (** transpose of a matrix with [nc] columns *)
  Definition transpose_rows (d : A) (m : list (list A)) (nc : nat) : list (list A) :=
    map (col_of d m) (seq 0 nc).
End Defs.

(** [m.len() / nrows] with the division-by-zero panic, then the product test of [is_matrix] *)
Definition is_matrix (len nrows : nat) : option nat :=
  match nrows with
  | 0 => None
  | _ => let nc := len / nrows in if nrows * nc =? len then Some nc else None
  end.

Definition bind {A B} (o : option A) (f : A -> option B) : option B :=
  match o with Some a => f a | None => None end.
Notation "'let*' p ':=' e 'in' k" := (bind e (fun p => k))
  (at level 200, p pattern, e at level 100, k at level 200, right associativity).
Definition guard (b : bool) : option unit := if b then Some tt else None.
