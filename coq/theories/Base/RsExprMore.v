(** * RsExprMore: a few more combinators for the statement-level translator ([LoopTranslator] of tools/rsexpr.py), third
    round: the wrapping cast [x as i64] of an unsigned integer, [slice.split_at(i)], [slice.split_first()].  Same conventions
    as [Base/RsExpr.v]: slices and vectors are lists, integers live in [Z], a panic is [None].  No proofs in this file. *)
From Coq Require Import ZArith List Bool.
From Compute Require Import Base.Ops Base.ListMat Base.RsExpr.
Import ListNotations.

(** [x as i64] for an unsigned [x] below 2^64: the two's-complement reinterpretation *)
Definition rs_as_i64 (x : Z) : Z := if (x <? 9223372036854775808)%Z then x else (x - 18446744073709551616)%Z.

(** [x.split_at(i)]: [(&x[..i], &x[i..])], panics unless [i <= len] *)
Definition rs_split_at {A : Type} (l : list A) (i : Z) : option (list A * list A) :=
  if ((0 <=? i) && (i <=? rs_len l))%Z then Some (firstn (Z.to_nat i) l, skipn (Z.to_nat i) l) else None.

(** [x.split_first()]: [None] for the empty slice *)
Definition rs_split_first {A : Type} (l : list A) : option (A * list A) :=
  match l with [] => None | a :: r => Some (a, r) end.

(** equality of two arrays of integers ([m1.shape() == m2.shape()]) *)
Fixpoint rs_zlist_eqb (a b : list Z) : bool :=
  match a, b with
  | [], [] => true
  | x :: a', y :: b' => Z.eqb x y && rs_zlist_eqb a' b'
  | _, _ => false
  end.

(** writing a window back: the cells [lo, lo + len w) of [l] replaced by [w] (the window was read from there) *)
Definition rs_put_slice {A : Type} (l : list A) (lo : Z) (w : list A) : list A :=
  firstn (Z.to_nat lo) l ++ w ++ skipn (Z.to_nat lo + length w) l.

(** [xs.iter_mut().zip(ys).for_each(|(x, y)| *x = f x y)]: [zip] stops at the shorter list, the remaining cells of [xs] keep
    their value *)
Fixpoint rs_zip_assign {A B : Type} (f : A -> B -> A) (xs : list A) (ys : list B) : list A :=
  match xs, ys with
  | x :: xs', y :: ys' => f x y :: rs_zip_assign f xs' ys'
  | _, _ => xs
  end.
