(** * Model of the MATRIX FORM of the kernels of [predict/gps/kernels.rs] as the composition of the verified
    component models, in the order the Rust code calls them.

    [impl_kernel_vec_for_rbf!] / [impl_kernel_vec_for_rq!] ($t1 = Matrix, Vector, &Matrix, &Vector), after the repair
    "matrix-form kernels take the difference of the points before squaring it" (the original expanded the square as
    [x.powi(2).reshape(-1, 1) + y.powi(2).reshape(1, -1) - 2. * x.dot_t(y)], which cancels for nearby points far
    from the origin):
<<
      let (x, y) = (x.reshape(-1, 1), y.reshape(1, -1));
      assert!(x.size() > 0 && y.size() > 0, "point sets must not be empty");
      (-(x - y).powi(2) / (2. * self.length_scale.powi(2))).exp() * self.var
      (1. + (x - y).powi(2) / (2. * self.alpha * self.length_scale.powi(2))).powf(-self.alpha) * self.var
>>
    Each method call is the model function of the property that owns it:
    - [Vector::reshape] = [Matrix::new(self.clone(), r, c)] and [Matrix::reshape]      : [Model/Shape.v] (C15) [new], [reshape];
    - [Matrix::size]                                                                    : [Model/Shape.v] (C15) [size];
    - [Matrix - Matrix] (an n x 1 column minus a 1 x m row)                             : [Model/Vops.v] [mat_binop] (C04), which is [broadcast] of
      [Model/Broadcast.v] (C12) on unequal shapes;
    - [Matrix::powi], [-Matrix], [Matrix::exp], [Matrix::powf]                          : [Model/Vops.v] (C04) [mat_powi], [mat_neg], [mat_map], [mat_powf];
    - [Matrix / f64], [f64 + Matrix], [Matrix * f64]                                    : [Model/Vops.v] (C04) [run_mat_row] on the impl row
      the REGENERATED wiring table holds for (trait, Self, Other) ([find_row]).
    ([dot_t] of C05 is no longer called.)
    The component models each have their own record for the Rust struct [Matrix {nrows, ncols, data}]; the
    conversions below only re-package the three fields.  [None] is a panic.  No proofs in this file. *)
From Coq Require Import List Arith ZArith Bool.
From Compute Require Import Base.Ops Base.ListMat.
From Compute Require Import Model.Shape Model.Broadcast Model.Vops.
Import ListNotations.

Section Plumbing.
  Context {T : Type} (O : Ops T).

  Local Notation smat := (Shape.mat T).
  Local Notation bmat := (Broadcast.mat T).

  (** the same struct, seen by the two component models *)
  Definition s2b (m : smat) : bmat := Broadcast.mkmat (Shape.nrows m) (Shape.ncols m) (Shape.data m).

  (** the four argument types of the matrix-form impls *)
  Inductive karg :=
  | KVector (v : list T) | KRefVector (v : list T)
  | KMatrix (m : smat) | KRefMatrix (m : smat).

  (** [x.reshape(-1, 1)]: [Vector::reshape(&self, ..)] is [Matrix::new(self.clone(), -1, 1)], [Matrix::reshape(&self, ..)] the
      copying reshape; both take [&self], so the owned and the borrowed forms run the same code *)
  Definition to_column (a : karg) : option smat :=
    match a with
    | KVector v | KRefVector v => Shape.new v (-1) 1
    | KMatrix m | KRefMatrix m => Shape.reshape m (-1) 1
    end.

  (** [f64 op Matrix] and [Matrix op f64] through the regenerated impl table *)
  Definition f64_op_matrix (tr : vtrait) (s : T) (m : bmat) : option bmat :=
    let* r := Vops.find_row tr TyF64 TyMatrix in
    Vops.run_mat_row O r (Vops.MSc s) (Vops.MMat m).
  Definition matrix_op_f64 (tr : vtrait) (m : bmat) (s : T) : option bmat :=
    let* r := Vops.find_row tr TyMatrix TyF64 in
    Vops.run_mat_row O r (Vops.MMat m) (Vops.MSc s).

  (** [y.reshape(1, -1)]: the second argument becomes a row *)
  Definition to_row (a : karg) : option smat :=
    match a with
    | KVector v | KRefVector v => Shape.new v 1 (-1)
    | KMatrix m | KRefMatrix m => Shape.reshape m 1 (-1)
    end.

  (** [assert!(x.size() > 0 && y.size() > 0)], then [(x - y).powi(2)] for the column [x] and the row [y]: the broadcast
      difference (entry (i, j) = x_i - y_j), squared element-wise by the [powi] kernel *)
  Definition sqdiff_plumbing (x y : smat) : option bmat :=
    let* _ := guard ((0 <? Shape.size x) && (0 <? Shape.size y)) in
    let* d := Vops.mat_binop O VSub (s2b x) (s2b y) in
    Vops.mat_powi O d 2.

  (** [RBFKernel::forward(x, y) -> Matrix] *)
  Definition rbf_forward_plumbing (var ls : T) (ax ay : karg) : option bmat :=
    let* x := to_column ax in
    let* y := to_row ay in
    let* d := sqdiff_plumbing x y in
    let* nd := Vops.mat_neg O d in
    let* q := matrix_op_f64 TDiv nd (mul O (two O) (powi O ls 2)) in
    let* e := Vops.mat_map O Vops.UExp q in
    matrix_op_f64 TMul e var.

  (** [RationalQuadraticKernel::forward(x, y) -> Matrix] *)
  Definition rq_forward_plumbing (var alpha ls : T) (ax ay : karg) : option bmat :=
    let* x := to_column ax in
    let* y := to_row ay in
    let* d := sqdiff_plumbing x y in
    let* q := matrix_op_f64 TDiv d (mul O (mul O (two O) alpha) (powi O ls 2)) in
    let* p := f64_op_matrix TAdd (one O) q in
    let* w := Vops.mat_powf O p (neg O alpha) in
    matrix_op_f64 TMul w var.
End Plumbing.
Arguments karg T : clear implicits.
