(** * Model of the linear-system entry points (property C01), after the repairs of D1 and of the
    absolute symmetry tolerance:
    - [linalg/utils.rs]: [row_to_col_major], [col_to_row_major], [diag_matrix], [solve], [solve_sys],
      [invert_matrix] (the routing predicates [is_symmetric] (relative tolerance) and [is_positive_definite]
      are in [Model/Subst.v], the fallible sweep [try_cholesky] and the repaired [cholesky] in
      [Model/Cholesky.v]: one definition each, shared with property C11);
    - [linalg/array/matrix.rs]: [Solve<Vector>::solve], [Solve<Matrix>::solve], [Matrix::inv], [Matrix::eye].

    The solvers are written in a [Section] PARAMETRIC in the four factorisation routines they call
    ([try_chol], [chol_solve], [lu], [lu_solve]: flat row-major arrays, [None] = panic), so that the routing,
    the row/column-major conversions and the assembly are modelled (and proved) independently of how the
    factorisations are modelled.  [Model/SolveInst.v] instantiates the section with the models of
    property C11 ([Model/LU.v], [Model/Cholesky.v], [Model/Subst.v]).
    Representation: as in [Model/Subst.v].  No proofs in this file. *)
From Coq Require Import List Arith ZArith QArith Bool.
From Compute Require Import Base.Ops Base.ListMat Model.Reduce Model.MatMul Model.Subst Model.Cholesky.
Import ListNotations.

(** ** The solvers, parametric in the factorisation routines *)
Section Solve.
  Context {T : Type} (O : Ops T).
  Context (try_chol : list T -> option (option (list T)))
          (chol_solve : list T -> list T -> option (list T))
          (lu : list T -> option (list T * list nat))
          (lu_solve : list T -> list nat -> list T -> option (list T)).
  Local Notation z := (zero O).

  (** [row_to_col_major(a, nrows)]: [ncols = is_matrix(a, nrows).unwrap(); x[j*nrows+i] = a[i*ncols+j]]:
      the flat transpose of the [nrows x ncols] array (pure data movement: every position is written) *)
  Definition row_to_col_major (a : list T) (nrows : nat) : option (list T) := transpose O a nrows.
  (** [col_to_row_major(a, nrows)]: [ncols = is_matrix(a, nrows).unwrap(); x[i*ncols+j] = a[j*nrows+i]]:
      [a] holds [ncols] columns of length [nrows]; the result is the flat transpose of that
      [ncols x nrows] array (empty when [ncols = 0]) *)
  Definition col_to_row_major (a : list T) (nrows : nat) : option (list T) :=
    let* nc := is_matrix (length a) nrows in
    if nc =? 0 then Some [] else transpose O a nc.

  (** [diag_matrix(d)]: [vec![0.; n*n]] with [new[i*n+i] = d[i]] *)
  Definition diag_matrix (d : list T) : list T :=
    let n := length d in flatten (mapi (fun i x => upd (repeat z n) i x) d).
  Definition eye (n : nat) : list T := diag_matrix (repeat (one O) n).

  (** the routing shared by [solve] and [solve_sys]:
      [let chol = if is_positive_definite(a) { try_cholesky(a) } else { None };
       if let Some(l) = chol { cholesky_solve(&l, .) } else { let (lu, piv) = lu(a); lu_solve(&lu, &piv, .) }]
      returned as the per-right-hand-side solver *)
  Definition factor (a : list T) : option (list T -> option (list T)) :=
    let* pd := is_positive_definite O a in
    let* c := if pd then try_chol a else Some None in
    match c with
    | Some l => Some (chol_solve l)
    | None => let* (m, piv) := lu a in Some (lu_solve m piv)
    end.

  (** [solve(a, b)]: [n = b.len(); assert!(a.len() == n*n)] *)
  Definition solve (a b : list T) : option (list T) :=
    let* _ := guard (length a =? length b * length b) in
    let* f := factor a in
    f b.

  (** one solve per column [b[i*n..(i+1)*n]] of the column-major right-hand side, each followed by
      [assert_eq!(sol.len(), n)]; the solutions are concatenated (column-major) *)
  Definition solve_columns (f : list T -> option (list T)) (bc : list T) (n nsys : nat) : option (list T) :=
    fold_left (fun acc i =>
                 let* s := acc in
                 let* x := f (row_of bc n i) in
                 let* _ := guard (length x =? n) in
                 Some (s ++ x)) (seq 0 nsys) (Some []).

  (** [solve_sys(a, b)]: [n = is_square(a).unwrap(); nsys = is_matrix(b, n).unwrap();
      b = row_to_col_major(b, n); ... ; col_to_row_major(&solutions, n)] *)
  Definition solve_sys (a b : list T) : option (list T) :=
    let* n := is_square (length a) in
    let* nsys := is_matrix (length b) n in
    let* bc := row_to_col_major b n in
    let* f := factor a in
    let* sols := solve_columns f bc n nsys in
    col_to_row_major sols n.

  (** [invert_matrix(m)]: [n = is_square(m).unwrap(); solve_sys(m, &diag_matrix(&vec![1.; n]))] *)
  Definition invert_matrix (m : list T) : option (list T) :=
    let* n := is_square (length m) in
    solve_sys m (eye n).

  (** ** [Matrix] entry points (always LU).  [Matrix::lu] / [Solve::lu_solve] repeat the slice
      algorithms on [self.data]; a [Matrix] value satisfies [well_formed]. *)
  (** [Solve<Vector>::solve]: [self.lu()] ([assert!(self.is_square())]), then [lu.lu_solve(&piv, system)]
      ([assert_eq!(self.nrows, system.len())]) *)
  Definition msolve_vec (m : matrix (T:=T)) (b : list T) : option (list T) :=
    let* _ := guard (well_formed m && (nr m =? nc m)) in
    let* (l, piv) := lu (dat m) in
    let* _ := guard (nr m =? length b) in
    lu_solve l piv b.

  (** [Solve<Matrix>::solve]: [self.lu()], then one [lu_solve] per column [get_col_as_vector(i)] of
      [system], the solutions pushed one after the other, [Matrix::new(solutions, ncols, nrows).t()] *)
  Definition msolve_mat (m s : matrix (T:=T)) : option (matrix (T:=T)) :=
    let* _ := guard (well_formed m && (nr m =? nc m)) in
    let* _ := guard (well_formed s) in
    let* (l, piv) := lu (dat m) in
    let* _ := guard (nr m =? nr s) in
    let S := mrows s in
    let* cols := fold_left (fun acc j =>
                   let* sol := acc in
                   let* x := lu_solve l piv (col_of z S j) in Some (sol ++ x))
                 (seq 0 (nc s)) (Some []) in
    let* r := matrix_new cols (nc s) (nr s) in
    t_mut O r.

  (** [Matrix::inv]: [assert!(self.is_square()); self.solve(&Matrix::eye(self.nrows))] *)
  Definition minv (m : matrix (T:=T)) : option (matrix (T:=T)) :=
    let* _ := guard (well_formed m && (nr m =? nc m)) in
    msolve_mat m {| nr := nr m; nc := nr m; dat := eye (nr m) |}.
End Solve.
