(** * Model of [distributions/*.rs]: pdf / pmf / ln_pdf / cdf / mean / var of the 13 univariate laws
    (repaired code: D3-D9 and the two log-space evaluations), following the Rust operation order.
    Parametric in [Gam], [Bet] ([functions::gamma], [functions::beta]: models in Model/Special.v, property C09)
    and [Erf] ([functions::erf]).  Constructors' guards are [valid] (a panic is [None]).  No proofs here. *)
From Coq Require Import List ZArith QArith Floats Bool.
From Compute Require Import Base.Ops.
Import ListNotations.

(** a law with its parameters (integers are the Rust [u64]/[usize]/[i64] fields) *)
Inductive dist (T : Type) :=
| DBernoulli (p : T)
| DBeta (alpha beta : T)
| DBinomial (n : Z) (p : T)
| DChiSquared (dof : Z)
| DDiscreteUniform (lower upper : Z)
| DExponential (lambda : T)
| DGamma (alpha beta : T)
| DGumbel (mu beta : T)
| DNormal (mu sigma : T)
| DPareto (alpha minval : T)
| DPoisson (lambda : T)
| DT (dof : T)
| DUniform (lower upper : T).
Arguments DBernoulli {T}. Arguments DBeta {T}. Arguments DBinomial {T}. Arguments DChiSquared {T}.
Arguments DDiscreteUniform {T}. Arguments DExponential {T}. Arguments DGamma {T}. Arguments DGumbel {T}.
Arguments DNormal {T}. Arguments DPareto {T}. Arguments DPoisson {T}. Arguments DT {T}. Arguments DUniform {T}.

(** a reported moment: a number, [f64::INFINITY], or [f64::NAN] (undefined) *)
Inductive moment (T : Type) := Fin (x : T) | PInf | Undef.
Arguments Fin {T}. Arguments PInf {T}. Arguments Undef {T}.

(** [EULER_MASCHERONI] of gumbel.rs: the exact decimal text and the binary64 the Rust parser produces
    ([lit_ok euler_lit = true] is checked in Proofs/C02.v) *)
Definition euler_lit : Q * float :=
  ((577215664901532860606512090082402431042159335939923598805767234884867726777664670936947063291746749
    # 1000000000000000000000000000000000000000000000000000000000000000000000000000000000000000000000000000)%Q,
   0x1.2788cfc6fb619p-1%float).

(** [lo, lo+1, ..., lo+len-1] *)
Fixpoint Zseq (lo : Z) (len : nat) : list Z :=
  match len with 0%nat => [] | S len' => lo :: Zseq (lo + 1)%Z len' end.

Section Dists.
  Context {T : Type} (O : Ops T) (Gam : T -> T) (Bet : T -> T -> T) (Erf : T -> T).
  Declare Scope dists_scope.
  Local Notation "x + y" := (add O x y) : dists_scope. Local Notation "x - y" := (sub O x y) : dists_scope.
  Local Notation "x * y" := (mul O x y) : dists_scope. Local Notation "x / y" := (div O x y) : dists_scope.
  Local Notation "- x" := (neg O x) : dists_scope.
  Local Notation "x <? y" := (ltb O x y) : dists_scope. Local Notation "x <=? y" := (leb O x y) : dists_scope.
  Local Notation "0" := (zero O) : dists_scope. Local Notation "1" := (one O) : dists_scope.
  Local Notation "2" := (two O) : dists_scope.
  Local Open Scope dists_scope.
  Local Notation half := (ofQ O (1 # 2)%Q).
  Local Notation exp := (f1 O Exp). Local Notation ln := (f1 O Ln).
  Local Notation pow := (f2 O Pow).

  (** [(0. ..=1.).contains(&x)] *)
  Definition in_unit (x : T) : bool := (0 <=? x) && (x <=? 1).

  (** the guards of the constructors ([new]): [false] = panic *)
  Definition valid (d : dist T) : bool :=
    match d with
    | DBernoulli p => in_unit p
    | DBeta a b => negb ((a <=? 0) || (b <=? 0))
    | DBinomial n p => (0 <=? n)%Z && in_unit p
    | DChiSquared k => (0 <? k)%Z
    | DDiscreteUniform lo hi => negb (hi <? lo)%Z
    | DExponential l => negb (l <=? 0)
    | DGamma a b => negb ((a <=? 0) || (b <=? 0))
    | DGumbel _ b => negb (b <=? 0)
    | DNormal _ s => negb (s <? 0)
    | DPareto a m => negb ((a <=? 0) || (m <=? 0))
    | DPoisson l => negb (l <=? 0)
    | DT nu => 0 <? nu
    | DUniform lo hi => negb (hi <? lo)
    end.

  (** [iter.sum::<f64>()]: a left fold that starts from -0.0 *)
  Definition iter_sum (l : list T) : T := sum_from O (- 0) l.

  (** ** continuous laws: [pdf] *)
  Definition pdf_beta (a b x : T) : T :=
    if negb (in_unit x) then 0
    else pow x (a - 1) * pow (1 - x) (b - 1) / Bet a b.
  (** [2_f64.powf(half_k)] is compiled to [exp2(half_k)] *)
  (** [f64::INFINITY], as a quotient (1/0 = +inf on binary64) *)
  Definition pinf : T := 1 / 0.
  (** the factors that depend on [x] are combined in log space (x^(k/2-1) overflows far in the upper tail long
      before the density does); at [x = 0] the limit from the right, at [+inf] 0 *)
  Definition pdf_chisq (k : Z) (x : T) : T :=
    if ((k =? 1)%Z && (x <=? 0)) || (x <? 0) then 0
    else let h := ofZ O k / 2 in
         let norm := f1 O Exp2 h * Gam h in
         if eqb O x 0 then (if (k =? 2)%Z then 1 / norm else 0)
         else if eqb O x pinf then 0
         else exp ((h - 1) * ln x - x / 2) / norm.
  Definition pdf_exponential (l x : T) : T :=
    if x <? 0 then 0 else l * exp (- l * x).
  Definition pdf_gamma (a b x : T) : T :=
    if (x <=? 0) || eqb O x pinf then 0
    else exp (a * ln b + (a - 1) * ln x - b * x) / Gam a.
  Definition pdf_gumbel (mu b x : T) : T :=
    let z := (x - mu) / b in 1 / b * exp (- (z + exp (- z))).
  Definition pdf_normal (mu s x : T) : T :=
    1 / (s * sqrt O (2 * pi O)) * exp (- half * powi O ((x - mu) / s) 2).
  Definition pdf_pareto (a m x : T) : T :=
    if x <? m then 0 else a * pow m a / pow x (a + 1).
  Definition pdf_t (nu x : T) : T :=
    Gam ((nu + 1) / 2) / (sqrt O (nu * pi O) * Gam (nu / 2))
    * pow (1 + powi O x 2 / nu) (- (nu + 1) / 2).
  Definition pdf_uniform (lo hi x : T) : T :=
    if (x <? lo) || (hi <? x) then 0 else 1 / (hi - lo).

  (** [Normal::ln_pdf] (overrides the default) and [Normal::cdf] *)
  Definition ln_pdf_normal (mu s x : T) : T :=
    - half * powi O ((x - mu) / s) 2 - ln (s * sqrt O (2 * pi O)).
  Definition cdf_normal (mu s x : T) : T :=
    half * (1 + Erf ((x - mu) / (s * sqrt O 2))).

  (** ** discrete laws: [pmf] at an [i64] count *)
  Definition pmf_bernoulli (p : T) (k : Z) : T :=
    if (k =? 0)%Z then 1 - p else if (k =? 1)%Z then p else 0.
  (** log-space evaluation; [ln_coeff] sums [ln((n - i + 1) / i)] for [i = 1 ..= min(k, n - k)] *)
  Definition ln_coeff (n k : Z) : T :=
    iter_sum (map (fun i => ln (ofZ O (n - i + 1)%Z / ofZ O i)) (Zseq 1 (Z.to_nat (Z.min k (n - k)%Z)))).
  Definition pmf_binomial (n : Z) (p : T) (k : Z) : T :=
    if (k <? 0)%Z || (n <? k)%Z then 0
    else if eqb O p 0 then (if (k =? 0)%Z then 1 else 0)
    else if eqb O p 1 then (if (k =? n)%Z then 1 else 0)
    else exp (ln_coeff n k + ofZ O k * ln p + ofZ O (n - k)%Z * f1 O Ln1p (- p)).
  Definition pmf_duniform (lo hi k : Z) : T :=
    if (k <? lo)%Z || (hi <? k)%Z then 0 else 1 / ofZ O (hi - lo + 1)%Z.
  (** log-space evaluation; [ln_k_factorial] sums [ln i] for [i = 2 ..= k] *)
  Definition ln_factorial (k : Z) : T :=
    iter_sum (map (fun i => ln (ofZ O i)) (Zseq 2 (Z.to_nat (k - 1)%Z))).
  Definition pmf_poisson (l : T) (k : Z) : T :=
    if (k <? 0)%Z then 0
    else exp (ofZ O k * ln l - l - ln_factorial k).

  (** ** dispatch (what the correspondence runs) *)
  Definition pdf (d : dist T) (x : T) : option T :=
    if valid d then
      match d with
      | DBeta a b => Some (pdf_beta a b x)
      | DChiSquared k => Some (pdf_chisq k x)
      | DExponential l => Some (pdf_exponential l x)
      | DGamma a b => Some (pdf_gamma a b x)
      | DGumbel mu b => Some (pdf_gumbel mu b x)
      | DNormal mu s => Some (pdf_normal mu s x)
      | DPareto a m => Some (pdf_pareto a m x)
      | DT nu => Some (pdf_t nu x)
      | DUniform lo hi => Some (pdf_uniform lo hi x)
      | _ => None
      end
    else None.
  (** [Continuous::ln_pdf]: the default [self.pdf(x).ln()], overridden by Normal *)
  Definition ln_pdf (d : dist T) (x : T) : option T :=
    match d with
    | DNormal mu s => if valid d then Some (ln_pdf_normal mu s x) else None
    | _ => option_map ln (pdf d x)
    end.
  Definition cdf (d : dist T) (x : T) : option T :=
    match d with
    | DNormal mu s => if valid d then Some (cdf_normal mu s x) else None
    | _ => None
    end.
  Definition pmf (d : dist T) (k : Z) : option T :=
    if valid d then
      match d with
      | DBernoulli p => Some (pmf_bernoulli p k)
      | DBinomial n p => Some (pmf_binomial n p k)
      | DDiscreteUniform lo hi => Some (pmf_duniform lo hi k)
      | DPoisson l => Some (pmf_poisson l k)
      | _ => None
      end
    else None.

  (** ** reported moments *)
  Definition pisq6 : T := pi O * pi O / ofZ O 6.
  Definition mean_of (d : dist T) : moment T :=
    match d with
    | DBernoulli p => Fin p
    | DBeta a b => Fin (a / (a + b))
    | DBinomial n p => Fin (ofZ O n * p)
    | DChiSquared k => Fin (ofZ O k)
    | DDiscreteUniform lo hi => Fin (ofZ O (lo + hi)%Z / 2)
    | DExponential l => Fin (1 / l)
    | DGamma a b => Fin (a / b)
    | DGumbel mu b => Fin (mu + b * ofLit O euler_lit)
    | DNormal mu _ => Fin mu
    | DPareto a m => if a <=? 1 then PInf else Fin (a * m / (a - 1))
    | DPoisson l => Fin l
    | DT nu => if 1 <? nu then Fin 0 else Undef
    | DUniform lo hi => Fin ((lo + hi) / 2)
    end.
  Definition var_of (d : dist T) : moment T :=
    match d with
    | DBernoulli p => Fin (p * (1 - p))
    | DBeta a b => Fin (a * b / (powi O (a + b) 2 * (a + b + 1)))
    | DBinomial n p => Fin (ofZ O n * p * (1 - p))
    | DChiSquared k => Fin (ofZ O k * 2)
    | DDiscreteUniform lo hi => Fin ((powi O (ofZ O (hi - lo + 1)%Z) 2 - 1) / ofZ O 12)
    | DExponential l => Fin (1 / powi O l 2)
    | DGamma a b => Fin (a / powi O b 2)
    | DGumbel _ b => Fin (pisq6 * powi O b 2)
    | DNormal _ s => Fin (powi O s 2)
    | DPareto a m => if a <=? 2 then PInf else Fin (powi O m 2 * a / (powi O (a - 1) 2 * (a - 2)))
    | DPoisson l => Fin l
    | DT nu => if 2 <? nu then Fin (nu / (nu - 2))
               else if (1 <? nu) && (nu <=? 2) then PInf else Undef
    | DUniform lo hi => Fin (powi O (hi - lo) 2 / ofZ O 12)
    end.
  Definition mean (d : dist T) : option (moment T) := if valid d then Some (mean_of d) else None.
  Definition var (d : dist T) : option (moment T) := if valid d then Some (var_of d) else None.
End Dists.
