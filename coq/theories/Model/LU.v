(** * Model of [linalg/decomposition/lu.rs] ([lu], [lu_solve]), of [Matrix::lu], [Matrix::det],
    [Matrix::lu_det], [Matrix::diag], [Solve::lu_solve], [Solve::solve] ([linalg/array/matrix.rs]) and of
    [ipiv_parity] ([linalg/utils.rs], after the D2 repair: [while], not [if]).

    Column-oriented LU with partial pivoting.  Column [j] is computed OUT OF PLACE: the new column
    [v] is built top to bottom, entry [i] reading row [i] of the matrix (columns [< j], untouched by
    this pass) and the entries [v_k], [k < min i j], already produced — the same operands in the same
    order as the in-place Rust loop, hence the same bits.  Pivots are a permutation VECTOR
    ([pivots.swap(p, j)] on [0..n]), as [list nat].
    Representation: see [Model/Subst.v].  No proofs in this file. *)
From Coq Require Import List Arith ZArith Bool.
From Compute Require Import Base.Ops Base.ListMat Model.Reduce Model.MatMul Model.Subst.
Import ListNotations.

(** ** [ipiv_parity] (no arithmetic on [T]) *)

(** [while perm[i] != i { let j = perm[i]; assert!(perm[j] != perm[i]); perm.swap(i, j); par += 1 }]
    [None]: index out of bounds, the assertion, or (never, see [C11_ipiv_parity_total]) fuel. *)
Fixpoint fix_position (fuel : nat) (perm : list nat) (i par : nat) : option (list nat * nat) :=
  match fuel with
  | 0 => None
  | S fuel' =>
      let j := nth i perm 0 in
      if j =? i then Some (perm, par)
      else if length perm <=? j then None
      else if nth j perm 0 =? j then None
      else fix_position fuel' (swap 0 perm i j) i (S par)
  end.

Definition parity_loop (ipiv : list nat) : option (list nat * nat) :=
  fold_left (fun st i => let* (perm, par) := st in fix_position (S (length ipiv)) perm i par)
            (seq 0 (length ipiv)) (Some (ipiv, 0)).

(** [(-1_i32).pow(par)] *)
Definition ipiv_parity (ipiv : list nat) : option Z :=
  let* (_, par) := parity_loop ipiv in Some (if Nat.even par then 1%Z else (-1)%Z).

Section LU.
  Context {T : Type} (O : Ops T).
  Local Notation z := (zero O).

  (** [let mut s = 0.; for k in 0..min(i,j) { s += lu[i*n+k] * lu[k*n+j] }; lu[i*n+j] -= s]
      with [lu[k*n+j] = v_k] for [k < i] *)
  Definition col_entry (M : list (list T)) (j i : nat) (v : list T) : T :=
    let r := nth i M [] in
    sub O (nth j r z)
          (fold_left (fun s k => add O s (mul O (nth k r z) (nth k v z))) (seq 0 (Nat.min i j)) z).
  Definition col_update (M : list (list T)) (j n : nat) : list T :=
    fold_left (fun v i => v ++ [col_entry M j i v]) (seq 0 n) [].
  Definition set_col (M : list (list T)) (j : nat) (v : list T) : list (list T) :=
    map2 (fun r x => upd r j x) M v.

  (** [let mut p = j; for i in j+1..n { if lu[i*n+j].abs() > lu[p*n+j].abs() { p = i } }] *)
  Definition find_pivot (v : list T) (j n : nat) : nat :=
    fold_left (fun p i => if ltb O (abs O (nth p v z)) (abs O (nth i v z)) then i else p)
              (seq (S j) (n - S j)) j.

  (** [if lu[j*n+j] != 0. { for i in j+1..n { lu[i*n+j] /= lu[j*n+j] } }] *)
  Definition scale_col (M : list (list T)) (j : nat) : list (list T) :=
    let d := ent z M j j in
    if eqb O d z then M
    else mapi (fun i r => if j <? i then upd r j (div O (nth j r z) d) else r) M.

  Definition lu_step (n : nat) (st : list (list T) * list nat) (j : nat) : list (list T) * list nat :=
    let (M, piv) := st in
    let v := col_update M j n in
    let M1 := set_col M j v in
    let p := find_pivot v j n in
    let (M2, piv2) := if p =? j then (M1, piv) else (swap [] M1 p j, swap 0 piv p j) in
    (scale_col M2 j, piv2).

  Definition lu_rows (M : list (list T)) (n : nat) : list (list T) * list nat :=
    fold_left (lu_step n) (seq 0 n) (M, seq 0 n).

  Definition lu (a : list T) : option (list T * list nat) :=
    let* n := is_square (length a) in
    let (M, piv) := lu_rows (unflatten a n n) n in
    Some (flatten M, piv).

  (** forward elimination with the unit lower triangle:
      [for k in 0..n { for i in k+1..n { x[i] -= x[k] * lu[i*n+k] } }] *)
  Definition fwd_elim (M : list (list T)) (n : nat) (x : list T) : list T :=
    fold_left (fun x k =>
      let xk := nth k x z in
      mapi (fun i xi => if k <? i then sub O xi (mul O xk (ent z M i k)) else xi) x) (seq 0 n) x.
  (** back substitution with the upper triangle:
      [for k in (0..n).rev() { x[k] /= lu[k*n+k]; for i in 0..k { x[i] -= x[k] * lu[i*n+k] } }] *)
  Definition back_elim (M : list (list T)) (n : nat) (x : list T) : list T :=
    fold_left (fun x k =>
      let xk := div O (nth k x z) (ent z M k k) in
      mapi (fun i xi => if i <? k then sub O xi (mul O xk (ent z M i k))
                        else if i =? k then xk else xi) x) (rev (seq 0 n)) x.

  (** [lu_solve(lu, pivots, b)]: [n = b.len()], [assert!(lu.len() == n*n)], [x = vec![0.; n]],
      [for i in 0..pivots.len() { x[i] = b[pivots[i] as usize] }] (index panics), the two sweeps *)
  Definition lu_solve (lu : list T) (piv : list nat) (b : list T) : option (list T) :=
    let n := length b in
    let* _ := guard (length lu =? n * n) in
    let* _ := guard (length piv <=? n) in
    let* _ := guard (forallb (fun p => p <? n) piv) in
    let M := unflatten lu n n in
    let x0 := map (fun p => nth p b z) piv ++ repeat z (n - length piv) in
    Some (back_elim M n (fwd_elim M n x0)).

  (** ** [Matrix] methods *)
  Definition matrix_lu (m : matrix (T:=T)) : option (matrix (T:=T) * list nat) :=
    let* _ := guard (well_formed m && (nr m =? nc m)) in
    let (M, piv) := lu_rows (mrows m) (nr m) in
    Some ({| nr := nr m; nc := nc m; dat := flatten M |}, piv).

  (** [Matrix::diag]: [n = min(nrows, ncols)], [data[i*n+i]] *)
  Definition matrix_diag (m : matrix (T:=T)) : list T :=
    let n := Nat.min (nr m) (nc m) in map (fun i => nth (i * n + i) (dat m) z) (seq 0 n).

  (** [self.diag().prod() * ipiv_parity(piv) as f64] *)
  Definition matrix_lu_det (m : matrix (T:=T)) (piv : list nat) : option T :=
    let* _ := guard (well_formed m && (nr m =? nc m)) in
    let* s := ipiv_parity piv in
    Some (mul O (prod O (matrix_diag m)) (ofZ O s)).
  Definition matrix_det (m : matrix (T:=T)) : option T :=
    let* (l, piv) := matrix_lu m in matrix_lu_det l piv.

  (** [Solve<Vector>::lu_solve]: [assert!(self.is_square())], [assert_eq!(self.nrows, system.len())] *)
  Definition matrix_lu_solve (m : matrix (T:=T)) (piv : list nat) (b : list T) : option (list T) :=
    let* _ := guard (well_formed m && (nr m =? nc m)) in
    let* _ := guard (nr m =? length b) in
    lu_solve (dat m) piv b.
  (** [Solve<Vector>::solve]: always LU *)
  Definition matrix_solve (m : matrix (T:=T)) (b : list T) : option (list T) :=
    let* (l, piv) := matrix_lu m in matrix_lu_solve l piv b.

  (** [Solve<Matrix>::lu_solve] / [solve]: one solve per column of [system], laid out as rows of an
      [ncols x nrows] matrix which is then transposed *)
  Definition matrix_lu_solve_mat (m : matrix (T:=T)) (piv : list nat) (s : matrix (T:=T))
    : option (matrix (T:=T)) :=
    let S := mrows s in
    let* cols := fold_left (fun acc j =>
                   let* sol := acc in
                   let* x := matrix_lu_solve m piv (col_of z S j) in Some (sol ++ x))
                 (seq 0 (nc s)) (Some []) in
    let* r := matrix_new cols (nc s) (nr s) in
    t_mut O r.
  Definition matrix_solve_mat (m s : matrix (T:=T)) : option (matrix (T:=T)) :=
    let* (l, piv) := matrix_lu m in matrix_lu_solve_mat l piv s.
End LU.
