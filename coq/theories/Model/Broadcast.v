(** * Model of the broadcasting arithmetic ([linalg/array/broadcast.rs]) and of the 48 operator impls
    that reach it ([linalg/array/matrix.rs]: [impl_mat_ops!(mat_mat_op, mat_vec_op, vec_mat_op)]).

    - The shape classifier [calc_broadcast_shape] is NOT written here: it is regenerated from the Rust
      source on every run ([Generated/broadcast_classifier.v], Tie A).  [broadcast] dispatches on its result.
    - The ten [match] arms of the [broadcast_op!] macro are hand-written below as list programs with the
      dataflow of the Rust loops (which matrix is cloned, which loop bound is used, which operand is on
      which side of [$op], what [zip] does with lists of different length, every index that can panic).
    - The macro parameter [$op] is an arbitrary binary operation [op : T -> T -> T]; nothing is assumed of it.
    - Which operation / which argument order each of the 48 [impl]s uses is read from the generated wiring
      table ([Generated/broadcast_wiring.v], Tie A): [run_impl].
    A matrix is the Rust struct [{ nrows; ncols; data }]; the struct invariant [nrows * ncols = data.len()]
    ([wf_mat]) is a hypothesis of the theorems (every constructor of the crate establishes it).
    No proofs in this file. *)
From Coq Require Import String.
From Coq Require Import List Arith Bool.
From Compute Require Import Base.Ops Base.ListMat.
From Compute Require Export Generated.broadcast_classifier Generated.broadcast_wiring.
Import ListNotations.

Section Broadcast.
  Context {T : Type}.

  Record mat := mkmat { nr : nat; nc : nat; dat : list T }.

  (** [Matrix::new(data, r as i32, c as i32)] with r, c >= 0: [reshape_mut] accepts exactly
      [r > 0 && c > 0 && r * c == len] and (repaired code) the 0 x 0 request on empty data,
      [r == 0 && c == 0 && len == 0]; every other request with a zero dimension is refused *)
  Definition new_ok (len r c : nat) : bool :=
    ((0 <? r) && (0 <? c) && (r * c =? len)) || ((r =? 0) && (c =? 0) && (len =? 0)).
  Definition matrix_new (d : list T) (r c : nat) : option mat :=
    let* _ := guard (new_ok (length d) r c) in
    Some (mkmat r c d).

  (** the rows [m[0], m[1], ...] (slices [i*ncols .. (i+1)*ncols] of the data) *)
  Definition rows (m : mat) : list (list T) := unflatten (dat m) (nr m) (nc m).

  (** [m[i][j]]: [assert!(i < nrows)], then slice indexing *)
  Definition at2 (R : list (list T)) (i j : nat) : option T :=
    let* r := nth_error R i in nth_error r j.

  Fixpoint mapM {A B} (f : A -> option B) (l : list A) : option (list B) :=
    match l with
    | [] => Some []
    | a :: l' => let* b := f a in let* bs := mapM f l' in Some (b :: bs)
    end.

  (** [for i in is { s = body(s, i)? }] *)
  Fixpoint for_opt {S} (is : list nat) (body : S -> nat -> option S) (s : S) : option S :=
    match is with
    | [] => Some s
    | i :: is' => let* s' := body s i in for_opt is' body s'
    end.

  (** [new.apply_along_row(i, f)]: [self[i].iter_mut().for_each(|x| *x = f(x))]; the closure may index *)
  Definition apply_along_row (new : list (list T)) (i : nat) (f : T -> option T) : option (list (list T)) :=
    let* r := nth_error new i in
    let* r' := mapM f r in
    Some (upd new i r').

  (** [xs.iter_mut().zip(ys).for_each(|(x, y)| *x = f(x, y))]: [zip] stops at the shorter list, the
      remaining positions of [xs] keep their value *)
  Fixpoint zip_assign (f : T -> T -> T) (xs ys : list T) : list T :=
    match xs, ys with
    | x :: xs', y :: ys' => f x y :: zip_assign f xs' ys'
    | _, _ => xs
    end.

  (** [new[i].iter_mut().zip(&m[0]).for_each(..)] *)
  Definition zip_row (new : list (list T)) (i : nat) (R : list (list T)) (f : T -> T -> T)
    : option (list (list T)) :=
    let* r := nth_error new i in
    let* y := nth_error R 0 in
    Some (upd new i (zip_assign f r y)).

  Section Op.
    Variable op : T -> T -> T.

    (** [$matmatfn(m1, m2)] = [matmatadd] etc.: shape assert, the vv kernel (asserts equal lengths), [Matrix::new] *)
    Definition matmat (m1 m2 : mat) : option mat :=
      let* _ := guard ((nr m1 =? nr m2) && (nc m1 =? nc m2)) in
      let* _ := guard (length (dat m1) =? length (dat m2)) in
      matrix_new (map2 op (dat m1) (dat m2)) (nr m1) (nc m1).

    (** [f64 $op &Matrix] (sv kernel) and [&Matrix $op f64] (vs kernel) *)
    Definition scalar_mat (s : T) (m : mat) : option mat :=
      matrix_new (map (fun x => op s x) (dat m)) (nr m) (nc m).
    Definition mat_scalar (m : mat) (s : T) : option mat :=
      matrix_new (map (fun x => op x s) (dat m)) (nr m) (nc m).

    (** one expansion of [broadcast_op!($op, $fnname, $matmatfn)] *)
    Definition broadcast (m1 m2 : mat) : option mat :=
      let R1 := rows m1 in
      let R2 := rows m2 in
      let* b := calc_broadcast_shape (nr m1) (nc m1) (nr m2) (nc m2) in
      match b with
      | (BNone, BNone) =>
          let* _ := guard ((nr m1 =? nr m2) && (nc m1 =? nc m2)) in
          matmat m1 m2
      | (BHstack hstack, BNone) =>
          let* _ := guard (hstack =? nc m2) in
          (* new = m2.clone(); for i in 0..m1.nrows { new.apply_along_row(i, |x| m1[i][0] $op x) } *)
          let* new := for_opt (seq 0 (nr m1))
                        (fun new i => apply_along_row new i
                                        (fun x => let* a := at2 R1 i 0 in Some (op a x))) R2 in
          Some (mkmat (nr m2) (nc m2) (flatten new))
      | (BVstack vstack, BNone) =>
          let* _ := guard (vstack =? nr m2) in
          (* new = m2.clone(); for i in 0..new.nrows { new[i].zip(&m1[0]): *x = y $op *x } *)
          let* new := for_opt (seq 0 (nr m2))
                        (fun new i => zip_row new i R1 (fun x y => op y x)) R2 in
          Some (mkmat (nr m2) (nc m2) (flatten new))
      | (BNone, BHstack hstack) =>
          let* _ := guard (hstack =? nc m1) in
          (* new = m1.clone(); for i in 0..m2.nrows { new.apply_along_row(i, |x| x $op m2[i][0]) } *)
          let* new := for_opt (seq 0 (nr m2))
                        (fun new i => apply_along_row new i
                                        (fun x => let* a := at2 R2 i 0 in Some (op x a))) R1 in
          Some (mkmat (nr m1) (nc m1) (flatten new))
      | (BNone, BVstack vstack) =>
          let* _ := guard (vstack =? nr m1) in
          (* new = m1.clone(); for i in 0..new.nrows { new[i].zip(&m2[0]): *x = *x $op y } *)
          let* new := for_opt (seq 0 (nr m1))
                        (fun new i => zip_row new i R2 (fun x y => op x y)) R1 in
          Some (mkmat (nr m1) (nc m1) (flatten new))
      | (BHstack hstack, BVstack vstack) =>
          let* _ := guard ((nc m2 =? hstack) && (nr m1 =? vstack) && (nr m2 =? 1) && (nc m1 =? 1)) in
          (* new = Matrix::zeros(m1.nrows, m2.ncols) = Matrix::new(zeros(r * c), r, c); new[i][j] = m1[i][0] $op m2[0][j] *)
          let* _ := guard (new_ok (nr m1 * nc m2) (nr m1) (nc m2)) in
          let* new := mapM (fun i => mapM (fun j => let* a := at2 R1 i 0 in
                                                    let* b := at2 R2 0 j in Some (op a b))
                                          (seq 0 (nc m2))) (seq 0 (nr m1)) in
          Some (mkmat (nr m1) (nc m2) (flatten new))
      | (BVstack vstack, BHstack hstack) =>
          let* _ := guard ((nc m1 =? hstack) && (nr m2 =? vstack) && (nr m1 =? 1) && (nc m2 =? 1)) in
          (* new = Matrix::zeros(m2.nrows, m1.ncols); new[i][j] = m1[0][j] $op m2[i][0] *)
          let* _ := guard (new_ok (nr m2 * nc m1) (nr m2) (nc m1)) in
          let* new := mapM (fun i => mapM (fun j => let* a := at2 R1 0 j in
                                                    let* b := at2 R2 i 0 in Some (op a b))
                                          (seq 0 (nc m1))) (seq 0 (nr m2)) in
          Some (mkmat (nr m2) (nc m1) (flatten new))
      | (BIsScalar, _) =>
          let* _ := guard ((nr m1 =? 1) && (nc m1 =? 1)) in
          let* s := at2 R1 0 0 in
          scalar_mat s m2
      | (_, BIsScalar) =>
          let* _ := guard ((nr m2 =? 1) && (nc m2 =? 1)) in
          let* s := at2 R2 0 0 in
          mat_scalar m1 s
      | _ => None   (* panic!("invalid broadcast shape") *)
      end.
  End Op.

  (** ** The operator impls *)
  (** [Vector::to_matrix]: [Matrix::new(self, 1, n as i32)]; panics for the empty vector (the request 1 x 0) *)
  Definition vec_to_matrix (v : list T) : option mat := matrix_new v 1 (length v).

  (** hand-wired reading of the three impl families (what the wiring table is proved to say) *)
  Definition mat_op_mat (op : T -> T -> T) (m1 m2 : mat) : option mat := broadcast op m1 m2.
  Definition mat_op_vec (op : T -> T -> T) (m : mat) (v : list T) : option mat :=
    let* mv := vec_to_matrix v in broadcast op m mv.
  Definition vec_op_mat (op : T -> T -> T) (v : list T) (m : mat) : option mat :=
    let* mv := vec_to_matrix v in broadcast op mv m.

  (** an operand value of an operator impl *)
  Inductive value := VMat (m : mat) | VVec (v : list T).

  Definition tok_op (O : Ops T) (t : optok) : T -> T -> T :=
    match t with OpAdd => add O | OpSub => sub O | OpMul => mul O | OpDiv => div O end.

  (** the operator token of a [broadcast_*] function, from the generated [broadcast_op!] rows *)
  Definition callee_tok (name : string) : option optok :=
    option_map (fun r => fst (fst r)) (find (fun r => String.eqb (snd (fst r)) name) broadcast_ops).

  (** [&self], [&other], [&self.to_owned().to_matrix()], ...; [to_owned] is a clone *)
  Definition eval_arg (a : argx) (self other : value) : option mat :=
    match (match a_base a with ArgSelf => self | ArgOther => other end), a_to_matrix a with
    | VMat m, false => Some m
    | VVec v, true => vec_to_matrix v
    | _, _ => None
    end.

  (** the body [callee(arg1, arg2)] of one generated impl row *)
  Definition run_impl (O : Ops T) (row : impl_row) (self other : value) : option mat :=
    let* t := callee_tok (i_callee row) in
    let* a1 := eval_arg (i_arg1 row) self other in
    let* a2 := eval_arg (i_arg2 row) self other in
    broadcast (tok_op O t) a1 a2.

  (** the struct invariant of [Matrix] with positive dimensions (what every constructor of the crate establishes,
      [Matrix::empty()] / the 0 x 0 request of the repaired [Matrix::new] apart) *)
  Definition wf_mat (m : mat) : Prop := 0 < nr m /\ 0 < nc m /\ length (dat m) = nr m * nc m.
  (** the empty matrix [Matrix::empty()] *)
  Definition empty_mat : mat := mkmat 0 0 [].
  (** positive shape, or the empty matrix *)
  Definition wf_mat0 (m : mat) : Prop := wf_mat m \/ m = empty_mat.
End Broadcast.
Arguments mat T : clear implicits.
Arguments value T : clear implicits.

(** ** Looking up an impl, and the consistency of the wiring tables (computable, no carrier involved) *)
Definition optrait_eqb (a b : optrait) : bool :=
  match a, b with TrAdd, TrAdd | TrSub, TrSub | TrMul, TrMul | TrDiv, TrDiv => true | _, _ => false end.
Definition optok_eqb (a b : optok) : bool :=
  match a, b with OpAdd, OpAdd | OpSub, OpSub | OpMul, OpMul | OpDiv, OpDiv => true | _, _ => false end.
Definition opty_eqb (a b : opty) : bool :=
  match a, b with
  | TyMatrix, TyMatrix | TyRefMatrix, TyRefMatrix | TyVector, TyVector | TyRefVector, TyRefVector => true
  | _, _ => false
  end.
Definition operand_eqb (a b : operand) : bool :=
  match a, b with Elem1, Elem1 | Elem2, Elem2 | Scalar, Scalar => true | _, _ => false end.

Definition find_impl (tr : optrait) (s o : opty) : option impl_row :=
  find (fun r => optrait_eqb (i_trait r) tr && opty_eqb (i_self r) s && opty_eqb (i_other r) o) impl_rows.

Definition trait_tok (t : optrait) : optok :=
  match t with TrAdd => OpAdd | TrSub => OpSub | TrMul => OpMul | TrDiv => OpDiv end.
Definition trait_method (t : optrait) : string :=
  match t with TrAdd => "add" | TrSub => "sub" | TrMul => "mul" | TrDiv => "div" end%string.
Definition is_vec_ty (t : opty) := match t with TyVector | TyRefVector => true | _ => false end.
Definition is_ref_ty (t : opty) := match t with TyRefMatrix | TyRefVector => true | _ => false end.

Definition all_traits := [TrAdd; TrSub; TrMul; TrDiv].
(** the 12 (Self, Other) type pairs of Matrix o Matrix, Matrix o Vector, Vector o Matrix *)
Definition all_type_pairs : list (opty * opty) :=
  [(TyMatrix, TyMatrix); (TyMatrix, TyRefMatrix); (TyRefMatrix, TyMatrix); (TyRefMatrix, TyRefMatrix);
   (TyMatrix, TyVector); (TyMatrix, TyRefVector); (TyRefMatrix, TyVector); (TyRefMatrix, TyRefVector);
   (TyVector, TyMatrix); (TyVector, TyRefMatrix); (TyRefVector, TyMatrix); (TyRefVector, TyRefMatrix)].

Definition lookup_tok (tbl : list (string * optok)) (name : string) : option optok :=
  option_map snd (find (fun r => String.eqb (fst r) name) tbl).
Definition opt_tok_is (o : option optok) (t : optok) : bool :=
  match o with Some t' => optok_eqb t' t | None => false end.

(** one impl row is wired correctly: the callee is the broadcast function of the trait's operator, the method
    name is the trait's, the first argument is [self] and the second [other] (operand order preserved), and an
    operand is promoted by [to_matrix] exactly when it is a Vector ([to_owned] only on [&Vector]) *)
Definition impl_row_ok (r : impl_row) : bool :=
  opt_tok_is (callee_tok (i_callee r)) (trait_tok (i_trait r))
  && String.eqb (i_method r) (trait_method (i_trait r))
  && match a_base (i_arg1 r), a_base (i_arg2 r) with ArgSelf, ArgOther => true | _, _ => false end
  && Bool.eqb (a_to_matrix (i_arg1 r)) (is_vec_ty (i_self r))
  && Bool.eqb (a_to_matrix (i_arg2 r)) (is_vec_ty (i_other r))
  && Bool.eqb (a_to_owned (i_arg1 r)) (is_vec_ty (i_self r) && is_ref_ty (i_self r))
  && Bool.eqb (a_to_owned (i_arg2 r)) (is_vec_ty (i_other r) && is_ref_ty (i_other r)).

(** a broadcast function's equal-shape kernel and the scalar impls its two scalar arms reach use the same token *)
Definition broadcast_row_ok (r : optok * string * string) : bool :=
  let '(t, _, mm) := r in
  match find (fun x => String.eqb (fst x) mm) matmat_fns with
  | Some (_, inner) => opt_tok_is (lookup_tok vv_kernels inner) t
  | None => false
  end
  && existsb (fun s => let '(tr, meth, vs, sv) := s in
                       optok_eqb (trait_tok tr) t && String.eqb meth (trait_method tr)
                       && opt_tok_is (lookup_tok vs_kernels vs) t
                       && opt_tok_is (lookup_tok sv_kernels sv) t) scalar_ops.

Definition kernel_forms_ok : bool :=
  match kernel_forms with
  | [(m1, a1, b1); (m2, a2, b2); (m3, a3, b3)] =>
      String.eqb m1 "makefn_vops_binary" && operand_eqb a1 Elem1 && operand_eqb b1 Elem2
      && String.eqb m2 "makefn_vsops" && operand_eqb a2 Elem1 && operand_eqb b2 Scalar
      && String.eqb m3 "makefn_svops" && operand_eqb a3 Scalar && operand_eqb b3 Elem1
  | _ => false
  end.

Definition wiring_consistent : bool :=
  (length impl_rows =? 48)
  && forallb impl_row_ok impl_rows
  (* every (trait, Self, Other) combination has exactly one impl *)
  && forallb (fun tr => forallb (fun so =>
        length (filter (fun r => optrait_eqb (i_trait r) tr && opty_eqb (i_self r) (fst so)
                                 && opty_eqb (i_other r) (snd so)) impl_rows) =? 1) all_type_pairs) all_traits
  (* one broadcast function per operator token, each consistently wired *)
  && (length broadcast_ops =? 4)
  && forallb (fun t => length (filter (fun r => optok_eqb (fst (fst r)) t) broadcast_ops) =? 1)
             [OpAdd; OpSub; OpMul; OpDiv]
  && forallb broadcast_row_ok broadcast_ops
  && kernel_forms_ok.

(** ** Operands of an operator impl (used by the statements about the 48 impls) *)
Section Operands.
  Context {T : Type}.

  (** the operand has the kind (Matrix / Vector) its Rust type says *)
  Definition value_has_type (t : opty) (v : value T) : bool :=
    match v with VMat _ => negb (is_vec_ty t) | VVec _ => is_vec_ty t end.

  (** the matrix an operand stands for: itself, or the 1 x n promotion of a Vector ([None]: empty Vector) *)
  Definition promote (v : value T) : option (mat T) :=
    match v with VMat m => Some m | VVec l => vec_to_matrix l end.

  (** what an operand denotes: a well-formed matrix, or the 1 x n promotion of a non-empty Vector *)
  Definition denotes (v : value T) (m : mat T) : Prop :=
    match v with
    | VMat m' => m' = m /\ wf_mat m
    | VVec l => l <> [] /\ m = mkmat 1 (length l) l
    end.
End Operands.
