(** * Model of the element-wise kernels ([linalg/array/vops.rs]), of the operator / map layer that reaches
    them ([linalg/array/vec.rs], [linalg/array/matrix.rs]) and of the reductions of [linalg/utils.rs]
    that [Model/Reduce.v] does not already hold ([max], [logsumexp], [logmeanexp], [inf_norm]).

    Every kernel macro of vops.rs has the same shape: [chunks = (n - n % 8) / 8]; a loop over the chunks that
    writes eight consecutive positions; a remainder loop [chunks*8 .. n].  The model keeps that shape: a
    fuelled recursion that peels eight elements at a time and, when fewer than eight are left, handles the
    rest one by one.  The chunk body and the remainder body are SEPARATE parameters ([f] / [g]) because the
    [powi] kernel really uses different expressions in the two loops ([x*x] in the chunks when [arg == 2],
    [x.powi(arg)] in the remainder).
    The macro parameter [$op] is an arbitrary function; nothing is assumed of it.
    No proofs in this file. *)
From Coq Require Import String.
From Coq Require Import List Arith Bool ZArith.
From Compute Require Import Base.Ops Base.ListMat Model.Reduce Model.Broadcast.
From Compute Require Export Generated.vops_wiring.
Import ListNotations.

Section Kernels.
  Context {T : Type}.

  (** [makefn_vops_unary!] / [makefn_vsops!] / [makefn_svops!] / [..._with_arg_*!] / [makefn_vsops_mut!]:
      chunk body [f], remainder body [g] *)
  Fixpoint unary8 (fuel : nat) (f g : T -> T) (v : list T) : list T :=
    match fuel with
    | 0 => []
    | S fuel' =>
        match v with
        | x0 :: x1 :: x2 :: x3 :: x4 :: x5 :: x6 :: x7 :: v' =>
            f x0 :: f x1 :: f x2 :: f x3 :: f x4 :: f x5 :: f x6 :: f x7 :: unary8 fuel' f g v'
        | _ => map g v
        end
    end.
  Definition kernel1 (f g : T -> T) (v : list T) : list T := unary8 (S (length v)) f g v.

  (** [makefn_vops_binary!] / [makefn_vops_binary_mut!] after the length assert *)
  Fixpoint binary8 (fuel : nat) (op : T -> T -> T) (v1 v2 : list T) : list T :=
    match fuel with
    | 0 => []
    | S fuel' =>
        match v1, v2 with
        | x0 :: x1 :: x2 :: x3 :: x4 :: x5 :: x6 :: x7 :: v1',
          y0 :: y1 :: y2 :: y3 :: y4 :: y5 :: y6 :: y7 :: v2' =>
            op x0 y0 :: op x1 y1 :: op x2 y2 :: op x3 y3 :: op x4 y4 :: op x5 y5 :: op x6 y6 :: op x7 y7
            :: binary8 fuel' op v1' v2'
        | _, _ => map2 op v1 v2
        end
    end.

  (** [vadd], [vsub], [vmul], [vdiv]: [assert_eq!(v1.len(), v2.len())], fresh output *)
  Definition vbin (op : T -> T -> T) (v1 v2 : list T) : option (list T) :=
    let* _ := guard (length v1 =? length v2) in
    Some (binary8 (S (length v1)) op v1 v2).
  (** [vadd_mut] ...: same loops, written into [v1]; the value returned is the new content of [v1]
      ([v2] is a shared borrow: it cannot change) *)
  Definition vbin_mut (op : T -> T -> T) (v1 v2 : list T) : option (list T) :=
    let* _ := guard (length v1 =? length v2) in
    Some (binary8 (S (length v1)) op v1 v2).

  (** [vsadd] ...: [v1[k] $op scalar];  [svadd] ...: [scalar $op v1[k]];  [vsadd_mut] ...: [v1[k] $op= scalar] *)
  Definition vs (op : T -> T -> T) (v : list T) (s : T) : list T :=
    kernel1 (fun x => op x s) (fun x => op x s) v.
  Definition sv (op : T -> T -> T) (s : T) (v : list T) : list T :=
    kernel1 (fun x => op s x) (fun x => op s x) v.
  Definition vs_mut (op : T -> T -> T) (v : list T) (s : T) : list T :=
    kernel1 (fun x => op x s) (fun x => op x s) v.

  (** [makefn_vops_unary!(name, method)] *)
  Definition vunary (f : T -> T) (v : list T) : list T := kernel1 f f v.
End Kernels.

(** ** The 29 unary maps and the two maps with an argument *)
Inductive umap :=
| ULn | ULn1p | ULog10 | ULog2 | UExp | UExp2 | UExpm1 | USin | UCos | UTan | USinh | UCosh | UTanh
| UAsin | UAcos | UAtan | UAsinh | UAcosh | UAtanh | USqrt | UCbrt | UAbs | UFloor | UCeil
| UToRadians | UToDegrees | URecip | URound | USignum.

Definition all_umaps : list umap :=
  [ULn; ULn1p; ULog10; ULog2; UExp; UExp2; UExpm1; USin; UCos; UTan; USinh; UCosh; UTanh;
   UAsin; UAcos; UAtan; UAsinh; UAcosh; UAtanh; USqrt; UCbrt; UAbs; UFloor; UCeil;
   UToRadians; UToDegrees; URecip; URound; USignum].

(** the [f64] method name of a map (the second argument of [makefn_vops_unary!]) *)
Definition umap_method (u : umap) : string :=
  match u with
  | ULn => "ln" | ULn1p => "ln_1p" | ULog10 => "log10" | ULog2 => "log2" | UExp => "exp" | UExp2 => "exp2"
  | UExpm1 => "exp_m1" | USin => "sin" | UCos => "cos" | UTan => "tan" | USinh => "sinh" | UCosh => "cosh"
  | UTanh => "tanh" | UAsin => "asin" | UAcos => "acos" | UAtan => "atan" | UAsinh => "asinh"
  | UAcosh => "acosh" | UAtanh => "atanh" | USqrt => "sqrt" | UCbrt => "cbrt" | UAbs => "abs"
  | UFloor => "floor" | UCeil => "ceil" | UToRadians => "to_radians" | UToDegrees => "to_degrees"
  | URecip => "recip" | URound => "round" | USignum => "signum"
  end%string.

Section Scalar.
  Context {T : Type} (O : Ops T).

  (** [f64::signum]: NaN for NaN, otherwise [1.0.copysign(x)] (so [signum(-0.0) = -1.0]) *)
  Definition signum (x : T) : T :=
    if is_nan O x then x
    else if ltb O x (zero O) then neg O (one O)
    else if ltb O (zero O) x then one O
    else if ltb O (div O (one O) x) (zero O) then neg O (one O) else one O.

  (** the scalar [f64] method behind each map: libm entry points go through [f1] (the recorded table on
      binary64), the others are IEEE operations.  [to_degrees] multiplies by [180/pi], [to_radians] by [pi/180]. *)
  Definition umap_fn (u : umap) : T -> T :=
    match u with
    | ULn => f1 O Ln | ULn1p => f1 O Ln1p | ULog10 => f1 O Log10 | ULog2 => f1 O Log2
    | UExp => f1 O Exp | UExp2 => f1 O Exp2 | UExpm1 => f1 O Expm1
    | USin => f1 O Sin | UCos => f1 O Cos | UTan => f1 O Tan
    | USinh => f1 O Sinh | UCosh => f1 O Cosh | UTanh => f1 O Tanh
    | UAsin => f1 O Asin | UAcos => f1 O Acos | UAtan => f1 O Atan
    | UAsinh => f1 O Asinh | UAcosh => f1 O Acosh | UAtanh => f1 O Atanh
    | USqrt => sqrt O | UCbrt => f1 O Cbrt | UAbs => abs O
    | UFloor => f1 O Floor | UCeil => f1 O Ceil
    | UToRadians => fun x => mul O x (div O (pi O) (ofZ O 180))
    | UToDegrees => fun x => mul O x (div O (ofZ O 180) (pi O))
    | URecip => fun x => div O (one O) x
    | URound => f1 O Round
    | USignum => signum
    end.

  Definition vmap (u : umap) (v : list T) : list T := vunary (umap_fn u) v.

  (** [vpowi]: the chunk loop multiplies when [arg == 2] / [arg == 3]; the remainder loop always calls [powi] *)
  Definition vpowi (v : list T) (n : Z) : list T :=
    if (n =? 2)%Z then kernel1 (fun x => mul O x x) (fun x => powi O x n) v
    else if (n =? 3)%Z then kernel1 (fun x => mul O (mul O x x) x) (fun x => powi O x n) v
    else kernel1 (fun x => powi O x n) (fun x => powi O x n) v.
  Definition vpowf (v : list T) (a : T) : list T := vunary (fun x => powf O x a) v.

  (** [impl Neg for Vector]: [self.v.into_iter().map(|x| -x).collect()] (no kernel) *)
  Definition vneg (v : list T) : list T := map (neg O) v.
End Scalar.

(** ** The operator layer, read from the regenerated wiring table (Tie A) *)
Section Operators.
  Context {T : Type} (O : Ops T).

  Definition tok_fn (t : vtok) : T -> T -> T :=
    match t with VAdd => add O | VSub => sub O | VMul => mul O | VDiv => div O end.

  (** an operand as a kernel sees it: a slice or a scalar *)
  Inductive opnd := OVec (l : list T) | OSc (s : T).

  (** a kernel of vops.rs, by name: family and operator token come from the generated kernel table *)
  Definition find_kernel (name : string) : option (kfamily * vtok) :=
    option_map snd (find (fun r => String.eqb (fst r) name) kernel_rows).

  (** call the named kernel with two arguments in the order of the call; the family fixes the signature
      ([(v1, v2)], [(v1, scalar)], [(scalar, v1)]): an argument of the wrong kind does not type-check *)
  Definition run_kernel (name : string) (a1 a2 : opnd) : option (list T) :=
    let* ft := find_kernel name in
    let op := tok_fn (snd ft) in
    match fst ft, a1, a2 with
    | KBinary, OVec a, OVec b => vbin op a b
    | KBinaryMut, OVec a, OVec b => vbin_mut op a b
    | KVs, OVec a, OSc s => Some (vs op a s)
    | KSv, OSc s, OVec a => Some (sv op s a)
    | KVsMut, OVec a, OSc s => Some (vs_mut op a s)
    | _, _, _ => None
    end.

  (** the kernel call of one impl row: [kernel(arg1, arg2)] with each argument [self] or [other].
      For the op-assign rows the value is the new content of [self]. *)
  Definition run_row (r : op_row) (self other : opnd) : option (list T) :=
    let arg a := match a with SelfArg => self | OtherArg => other end in
    run_kernel (o_kernel r) (arg (o_arg1 r)) (arg (o_arg2 r)).

  (** [Vector::ln] ...: the kernel named in the [impl_unaryops_vector!] row, whose [makefn_vops_unary!] row names
      the scalar method *)
  Definition method_umap (m : string) : option umap :=
    find (fun u => String.eqb (umap_method u) m) all_umaps.
  Definition run_vecmap (method : string) (v : list T) : option (list T) :=
    let* row := find (fun r => String.eqb (snd r) method) vec_unary_impls in
    let* krow := find (fun r => String.eqb (fst r) (fst row)) unary_kernels in
    let* u := method_umap (snd krow) in
    Some (vmap O u v).

  (** *** Matrix forms.  [Matrix::new(data, nrows as i32, ncols as i32)] re-checks the shape. *)
  Definition mat_of (m : mat T) (d : list T) : option (mat T) := matrix_new d (nr m) (nc m).

  Inductive mopnd := MMat (m : mat T) | MSc (s : T).
  Definition data_of (x : mopnd) : opnd := match x with MMat m => OVec (dat m) | MSc s => OSc s end.

  (** a Matrix impl row: the kernel on the [.data] of the Matrix operands, then what the body does with it *)
  Definition run_mat_row (r : op_row) (self other : mopnd) : option (mat T) :=
    match o_wrap r, self, other with
    | WMatrixSelf, MMat m, _ => let* d := run_row r (data_of self) (data_of other) in mat_of m d
    | WMatrixOther, _, MMat m => let* d := run_row r (data_of self) (data_of other) in mat_of m d
    | WUnit, MMat m, _ =>
        let* d := run_row r (data_of self) (data_of other) in Some (mkmat (nr m) (nc m) d)
    | WUnitShapeAssert, MMat m, MMat m2 =>
        let* _ := guard ((nr m =? nr m2) && (nc m =? nc m2)) in
        let* d := run_row r (data_of self) (data_of other) in Some (mkmat (nr m) (nc m) d)
    | _, _, _ => None
    end.

  (** [Matrix op Matrix]: [broadcast_*]; on equal shapes the classifier answers (BNone, BNone) and
      [matmat*] runs the binary kernel on the two data vectors (other shape pairs: C12) *)
  Definition mat_binop (t : vtok) (m1 m2 : mat T) : option (mat T) :=
    let* b := calc_broadcast_shape (nr m1) (nc m1) (nr m2) (nc m2) in
    match b with
    | (BNone, BNone) =>
        let* _ := guard ((nr m1 =? nr m2) && (nc m1 =? nc m2)) in
        let* d := vbin (tok_fn t) (dat m1) (dat m2) in
        mat_of m1 d
    | _ => broadcast (tok_fn t) m1 m2
    end.

  (** [Matrix::ln] ... : [Self::new(self.data.ln(), nrows, ncols)];  [-Matrix] : [Matrix::new(-self.data, ..)] *)
  Definition mat_map (u : umap) (m : mat T) : option (mat T) := mat_of m (vmap O u (dat m)).
  Definition mat_powi (m : mat T) (n : Z) : option (mat T) := mat_of m (vpowi O (dat m) n).
  Definition mat_powf (m : mat T) (a : T) : option (mat T) := mat_of m (vpowf O (dat m) a).
  Definition mat_neg (m : mat T) : option (mat T) := mat_of m (vneg O (dat m)).
End Operators.
Arguments opnd T : clear implicits.
Arguments mopnd T : clear implicits.

(** looking up an impl row by (trait, Self type, Other type) *)
Definition vtrait_eqb (a b : vtrait) : bool :=
  match a, b with
  | TAdd, TAdd | TSub, TSub | TMul, TMul | TDiv, TDiv | TAddAssign, TAddAssign | TSubAssign, TSubAssign
  | TMulAssign, TMulAssign | TDivAssign, TDivAssign => true
  | _, _ => false
  end.
Definition vty_eqb (a b : vty) : bool :=
  match a, b with
  | TyVector, TyVector | TyRefVector, TyRefVector | TyMatrix, TyMatrix | TyRefMatrix, TyRefMatrix | TyF64, TyF64 => true
  | _, _ => false
  end.
Definition find_row (tr : vtrait) (s o : vty) : option op_row :=
  find (fun r => vtrait_eqb (o_trait r) tr && vty_eqb (o_self r) s && vty_eqb (o_other r) o) op_rows.

(** ** Reductions *)
Section Reductions.
  Context {T : Type} (O : Ops T).

  (** the value of [f64::NAN] on this carrier ([0/0]: NaN on binary64) *)
  Definition nan_ : T := div O (zero O) (zero O).

  (** [statistics::max]: [data.iter().fold(f64::NAN, |acc, i| f64::max(acc, *i))].  [f64::max] drops a NaN
      operand, so the fold from the NaN seed over [x :: xs] is the fold over [xs] from [x]; the model is
      written in that form so that it also means something on carriers without a NaN (the reals).
      ([max_seeded] is the literal fold; Proofs/C04.v shows the two agree whenever the seed is a NaN.) *)
  Definition max_seeded (seed : T) (x : list T) : T := fold_left (fmax O) x seed.
  Definition vmax (x : list T) : T :=
    match x with
    | [] => nan_
    | x0 :: xs => fold_left (fmax O) xs x0
    end.

  (** [x.iter().map(|v| (v - xmax).exp()).sum::<f64>()]: [Sum for f64] folds from [-0.0] *)
  Definition shifted_exp_sum (xmax : T) (x : list T) : T :=
    fold_left (add O) (map (fun v => f1 O Exp (sub O v xmax)) x) (neg O (zero O)).
  Definition logsumexp (x : list T) : T :=
    let xmax := vmax x in add O (f1 O Ln (shifted_exp_sum xmax x)) xmax.
  Definition logmeanexp (x : list T) : T :=
    let xmax := vmax x in
    add O (f1 O Ln (div O (shifted_exp_sum xmax x) (ofN O (length x)))) xmax.

  (** free function [inf_norm(x, nrows)]: [is_matrix(x, nrows).unwrap()], per row [s = 0.; s += |x[i*ncols+j]|],
      then [max] of the row sums *)
  Definition inf_norm (x : list T) (nrows : nat) : option T :=
    let* ncols := is_matrix (length x) nrows in
    Some (vmax (map (fun i => fold_left (add O) (map (abs O) (row_of x ncols i)) (zero O)) (seq 0 nrows))).

  (** [Matrix::inf_norm]: [self.abs().sum_rows().max()]; [sum_rows] applies the unrolled [sum] to a copy of each row *)
  Definition mat_inf_norm (m : mat T) : option T :=
    let* a := mat_map O UAbs m in
    Some (vmax (map (fun i => Reduce.sum O (row_of (dat a) (nc a) i)) (seq 0 (nr a)))).
End Reductions.
