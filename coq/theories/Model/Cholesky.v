(** * Model of [linalg/decomposition/cholesky.rs] ([try_cholesky], [cholesky], [cholesky_solve]) and of
    [Matrix::cholesky], [Solve<Vector>::cholesky_solve], [Solve<Matrix>::cholesky_solve]
    ([linalg/array/matrix.rs]).  Cholesky–Banachiewicz, row by row, AFTER the repair of D1: on the
    diagonal [let d = a[i*n+i] - s; if !(d > 0.) { return None }] (slice form) resp.
    [assert!(d > 0.)] (Matrix form), so a pivot that is zero, negative or NaN never reaches [sqrt].

    [chol_entry] / [chol_row] / [chol_rows] are the PLAIN sweep (no test of the pivot); the checked sweep
    [try_chol_rows] is defined on top of [chol_entry] and returns exactly the plain sweep's factor when it
    succeeds ([Proofs/C11_Chol.v]: [try_chol_rows_some]).  The two forms differ only in the dot product:
    the slice form multiplies the first [j] entries of rows [j] and [i] ([full = false]), the [Matrix]
    form the whole rows, whose tails are still zero ([full = true]).
    Representation: see [Model/Subst.v].  No proofs in this file. *)
From Coq Require Import List Arith ZArith Bool.
From Compute Require Import Base.Ops Base.ListMat Model.Reduce Model.MatMul Model.Subst.
Import ListNotations.

Section Cholesky.
  Context {T : Type} (O : Ops T).
  Local Notation z := (zero O).

  (** a row prefix completed with zeros to length [n] (the not yet written part of [l]) *)
  Definition pad (n : nat) (r : list T) : list T := r ++ repeat z (n - length r).

  (** entry (i,j), [j <= i], from the finished rows [L] (rows 0..i-1) and the prefix [r] of row [i]
      (entries 0..j-1):
      [let s = dot(&l[j*n..j*n+j], &l[i*n..i*n+j]);
       if i == j { (a[i*n+i] - s).sqrt() } else { (a[i*n+j] - s) / l[j*n+j] }] *)
  Definition chol_entry (full : bool) (A L : list (list T)) (n i : nat) (r : list T) (j : nat) : T :=
    let lj := if j =? i then r else nth j L [] in
    let s := if full then dot_raw O (pad n lj) (pad n r) else dot_raw O (firstn j lj) r in
    if j =? i then sqrt O (sub O (ent z A i i) s)
    else div O (sub O (ent z A i j) s) (nth j lj z).

  Definition chol_row (full : bool) (A L : list (list T)) (n i : nat) : list T :=
    pad n (fold_left (fun r j => r ++ [chol_entry full A L n i r j]) (seq 0 (S i)) []).

  Definition chol_rows (full : bool) (A : list (list T)) (n : nat) : list (list T) :=
    fold_left (fun L i => L ++ [chol_row full A L n i]) (seq 0 n) [].

  (** ** the checked sweep *)

  (** the pivot of row [i]: [let d = a[i*n+i] - s], [s] the dot product of the part [r] of row [i]
      already computed (entries 0..i-1) with itself (the argument of [sqrt] in [chol_entry] at [j = i]) *)
  Definition chol_pivot (full : bool) (A : list (list T)) (n i : nat) (r : list T) : T :=
    sub O (ent z A i i)
          (if full then dot_raw O (pad n r) (pad n r) else dot_raw O (firstn i r) r).

  (** one entry of row [i]: off the diagonal that of [chol_entry]; on the diagonal
      [if !(d > 0.) { return None }; l[i*n+i] = d.sqrt()] *)
  Definition try_chol_step (full : bool) (A L : list (list T)) (n i : nat) (acc : option (list T)) (j : nat)
    : option (list T) :=
    let* r := acc in
    if j =? i then
      let d := chol_pivot full A n i r in
      if ltb O z d then Some (r ++ [sqrt O d]) else None
    else Some (r ++ [chol_entry full A L n i r j]).
  Definition try_chol_row (full : bool) (A L : list (list T)) (n i : nat) : option (list T) :=
    let* r := fold_left (try_chol_step full A L n i) (seq 0 (S i)) (Some []) in
    Some (pad n r).
  Definition try_chol_rows_step (full : bool) (A : list (list T)) (n : nat) (acc : option (list (list T))) (i : nat)
    : option (list (list T)) :=
    let* L := acc in let* row := try_chol_row full A L n i in Some (L ++ [row]).
  Definition try_chol_rows (full : bool) (A : list (list T)) (n : nat) : option (list (list T)) :=
    fold_left (try_chol_rows_step full A n) (seq 0 n) (Some []).

  (** [try_cholesky(a)]: outer [None] = panic ([assert!(is_symmetric(a))], [is_square(a).unwrap()]),
      [Some None] = a pivot is not positive ([return None]) *)
  Definition try_cholesky (a : list T) : option (option (list T)) :=
    let* n := is_square (length a) in
    let M := unflatten a n n in
    let* _ := guard (is_symmetric_rows O M n) in
    Some (option_map flatten (try_chol_rows false M n)).
  (** [cholesky(a) = try_cholesky(a).expect("matrix is not positive definite")] *)
  Definition cholesky (a : list T) : option (list T) :=
    let* r := try_cholesky a in r.

  (** [cholesky_solve(l, b)]: forward substitution, [transpose(l, n)] (panics for [n = 0]: division
      by zero in [is_matrix]), backward substitution *)
  Definition cholesky_solve (l b : list T) : option (list T) :=
    let* n := is_square (length l) in
    let* _ := guard (length b =? n) in
    let* y := forward_substitution O l b in
    let* lt := transpose O l n in
    backward_substitution O lt y.

  (** [Matrix::cholesky]: [assert!(self.is_positive_definite())] (symmetric within the relative
      tolerance and no diagonal entry [<= 0]); full-row dot products; [assert!(d > 0.)] on every pivot *)
  Definition matrix_cholesky (m : matrix (T:=T)) : option (matrix (T:=T)) :=
    let* _ := guard (well_formed m) in
    let* _ := guard (matrix_is_positive_definite O m) in
    let* L := try_chol_rows true (mrows m) (nc m) in
    Some {| nr := nr m; nc := nc m; dat := flatten L |}.

  (** [Solve<Vector>::cholesky_solve] *)
  Definition matrix_cholesky_solve (m : matrix (T:=T)) (b : list T) : option (list T) :=
    let* _ := guard (well_formed m && (nr m =? nc m)) in
    let* _ := guard (is_lower_triangular_rows O (mrows m) (nr m) (nc m)) in
    let* _ := guard (nr m =? length b) in
    let* y := matrix_forward_substitution O m b in
    let* mt := t_mut O m in
    matrix_backward_substitution O mt y.

  (** [Solve<Matrix>::cholesky_solve]: one solve per column of [system], results laid out as rows of
      an [ncols x nrows] matrix which is then transposed *)
  Definition matrix_cholesky_solve_mat (m s : matrix (T:=T)) : option (matrix (T:=T)) :=
    let S := mrows s in
    let* cols := fold_left (fun acc j =>
                   let* sol := acc in
                   let* x := matrix_cholesky_solve m (col_of z S j) in Some (sol ++ x))
                 (seq 0 (nc s)) (Some []) in
    let* r := matrix_new cols (nc s) (nr s) in
    t_mut O r.
End Cholesky.
