(** * Model of [linalg/decomposition/cholesky.rs] ([cholesky], [cholesky_solve]) and of
    [Matrix::cholesky], [Solve<Vector>::cholesky_solve], [Solve<Matrix>::cholesky_solve]
    ([linalg/array/matrix.rs]).  Cholesky–Banachiewicz, row by row.

    The code is modelled AS IT IS: there is no test of the pivot, so on binary64 a non-positive pivot
    gives [sqrt(negative) = NaN] (candidate defect D1, which belongs to property C01).  The two forms
    differ only in the dot product: the slice form multiplies the first [j] entries of rows [j] and [i]
    ([full = false]), the [Matrix] form the whole rows, whose tails are still zero ([full = true]).
    Representation: see [Model/Subst.v].  No proofs in this file. *)
From Coq Require Import List Arith ZArith Bool.
From Compute Require Import Base.Ops Base.ListMat Model.Reduce Model.MatMul Model.Subst.
Import ListNotations.

Section Cholesky.
  Context {T : Type} (O : Ops T).
  Local Notation z := (zero O).

  (** a row prefix completed with zeros to length [n] (the not yet written part of [l]) *)
  Definition pad (n : nat) (r : list T) : list T := r ++ repeat z (n - length r).

  (** entry (i,j), [j <= i], from the finished rows [L] (rows 0..i-1) and the prefix [r] of row [i]
      (entries 0..j-1):
      [let s = dot(&l[j*n..j*n+j], &l[i*n..i*n+j]);
       if i == j { (a[i*n+i] - s).sqrt() } else { (a[i*n+j] - s) / l[j*n+j] }] *)
  Definition chol_entry (full : bool) (A L : list (list T)) (n i : nat) (r : list T) (j : nat) : T :=
    let lj := if j =? i then r else nth j L [] in
    let s := if full then dot_raw O (pad n lj) (pad n r) else dot_raw O (firstn j lj) r in
    if j =? i then sqrt O (sub O (ent z A i i) s)
    else div O (sub O (ent z A i j) s) (nth j lj z).

  Definition chol_row (full : bool) (A L : list (list T)) (n i : nat) : list T :=
    pad n (fold_left (fun r j => r ++ [chol_entry full A L n i r j]) (seq 0 (S i)) []).

  Definition chol_rows (full : bool) (A : list (list T)) (n : nat) : list (list T) :=
    fold_left (fun L i => L ++ [chol_row full A L n i]) (seq 0 n) [].

  (** [cholesky(a)]: [assert!(is_symmetric(a))], then the sweep *)
  Definition cholesky (a : list T) : option (list T) :=
    let* n := is_square (length a) in
    let* _ := guard (is_symmetric_rows O (unflatten a n n) n) in
    Some (flatten (chol_rows false (unflatten a n n) n)).

  (** [cholesky_solve(l, b)]: forward substitution, [transpose(l, n)] (panics for [n = 0]: division
      by zero in [is_matrix]), backward substitution *)
  Definition cholesky_solve (l b : list T) : option (list T) :=
    let* n := is_square (length l) in
    let* _ := guard (length b =? n) in
    let* y := forward_substitution O l b in
    let* lt := transpose O l n in
    backward_substitution O lt y.

  (** [Matrix::cholesky]: [assert!(self.is_positive_definite())] (symmetric within EPSILON and no
      diagonal entry [<= 0]); full-row dot products *)
  Definition matrix_cholesky (m : matrix (T:=T)) : option (matrix (T:=T)) :=
    let* _ := guard (well_formed m) in
    let* _ := guard (matrix_is_positive_definite O m) in
    Some {| nr := nr m; nc := nc m; dat := flatten (chol_rows true (mrows m) (nc m)) |}.

  (** [Solve<Vector>::cholesky_solve] *)
  Definition matrix_cholesky_solve (m : matrix (T:=T)) (b : list T) : option (list T) :=
    let* _ := guard (well_formed m && (nr m =? nc m)) in
    let* _ := guard (is_lower_triangular_rows O (mrows m) (nr m) (nc m)) in
    let* _ := guard (nr m =? length b) in
    let* y := matrix_forward_substitution O m b in
    let* mt := t_mut O m in
    matrix_backward_substitution O mt y.

  (** [Solve<Matrix>::cholesky_solve]: one solve per column of [system], results laid out as rows of
      an [ncols x nrows] matrix which is then transposed *)
  Definition matrix_cholesky_solve_mat (m s : matrix (T:=T)) : option (matrix (T:=T)) :=
    let S := mrows s in
    let* cols := fold_left (fun acc j =>
                   let* sol := acc in
                   let* x := matrix_cholesky_solve m (col_of z S j) in Some (sol ++ x))
                 (seq 0 (nc s)) (Some []) in
    let* r := matrix_new cols (nc s) (nr s) in
    t_mut O r.
End Cholesky.
