(** * Model of [functions/statistical.rs]: [logistic], [logit], [boxcox], [boxcox_shifted], [softmax]
    (the repaired code: softmax shifted by its maximum, boxcox_shifted guarded by [x + alpha > 0],
    Box-Cox power branch evaluated as [ln x * (exp_m1(u) / u)] with [u = lambda * ln x], [ln x] itself when
    [lambda == 0 || u == 0]).  [erf] is in Model/Special.v (C09).
    No proofs in this file. *)
From Coq Require Import List.
From Compute Require Import Base.Ops.
Import ListNotations.

Section Transforms.
  Context {T : Type} (O : Ops T).
  Local Notation "x + y" := (add O x y). Local Notation "x - y" := (sub O x y).
  Local Notation "x * y" := (mul O x y). Local Notation "x / y" := (div O x y).
  Local Notation "0" := (zero O). Local Notation "1" := (one O).

  (** [1. / (1. + (-x).exp())] *)
  Definition logistic (x : T) : T := 1 / (1 + exp_ O (neg O x)).

  (** [if !(0. ..=1.).contains(&p) { panic!() }  (p / (1. - p)).ln()] *)
  Definition logit (p : T) : option T :=
    if andb (leb O 0 p) (leb O p 1) then Some (ln_ O (p / (1 - p))) else None.

  (** the two branches shared by [boxcox] and [boxcox_shifted], on the (shifted) argument [y] *)
  (** [let ln_y = y.ln(); let u = lambda * ln_y;
       if lambda == 0. || u == 0. { ln_y } else { ln_y * (u.exp_m1() / u) }] *)
  Definition boxcox_body (y lambda : T) : T :=
    let ln_y := ln_ O y in
    let u := lambda * ln_y in
    if orb (eqb O lambda 0) (eqb O u 0) then ln_y else ln_y * (f1 O Expm1 u / u).

  (** [assert!(x > 0.)] *)
  Definition boxcox (x lambda : T) : option T :=
    if ltb O 0 x then Some (boxcox_body x lambda) else None.

  (** [assert!(x + alpha > 0.)] *)
  Definition boxcox_shifted (x lambda alpha : T) : option T :=
    if ltb O 0 (x + alpha) then Some (boxcox_body (x + alpha) lambda) else None.

  (** [x.iter().cloned().fold(f64::NEG_INFINITY, f64::max)].  The seed -inf is represented by [None]
      ("nothing seen yet"): maxNum(-inf, v) = v for every non-NaN v (also v = -inf), and a NaN is dropped.
      On reals the running maximum is therefore the true maximum, with no junk value standing for -inf. *)
  Definition max_step (acc : option T) (v : T) : option T :=
    match acc with
    | None => if is_nan O v then None else Some v
    | Some m => Some (fmax O m v)
    end.
  Definition list_max (x : list T) : option T := fold_left max_step x None.
  (** -inf on binary64; never used on a non-empty list of reals *)
  Definition neg_inf : T := neg O (1 / 0).
  Definition softmax_shift (x : list T) : T :=
    match list_max x with Some m => m | None => neg_inf end.

  (** arguments of [exp], the exponentials, and the denominator ([Iterator::sum] folds from -0.0) *)
  Definition softmax_args (x : list T) : list T := let m := softmax_shift x in map (fun v => v - m) x.
  Definition softmax_exps (x : list T) : list T := map (exp_ O) (softmax_args x).
  Definition softmax_denom (x : list T) : T := sum_from O (neg O 0) (softmax_exps x).

  (** [let max = ..; let exps: Vec<f64> = x.iter().map(|i| (i - max).exp()).collect();
       let sum_exp: f64 = exps.iter().sum();  exps.iter().map(|e| e / sum_exp).collect()] *)
  Definition softmax (x : list T) : list T :=
    let s := softmax_denom x in map (fun e => e / s) (softmax_exps x).
End Transforms.
