(** * Model of [PolynomialRegressor] ([predict/polynomial.rs]) and of [vandermonde]
    ([linalg/utils.rs]).  [matmul] / [xtx] are the models of Model/MatMul.v.

    The inner linear solve ([invert_matrix], i.e. [solve_sys] -> Cholesky / LU) is NOT modelled here:
    the model is parametric in [inv : list T -> option (list T)] (flat row-major matrix in, its
    inverse out, [None] = the call panics), exactly as libm is treated elsewhere.  The
    correspondence instantiates [inv] by the (argument bits, result bits) pair recorded from the
    crate's own public [invert_matrix]; the theorems take its correctness as a hypothesis.
    No proofs in this file. *)
From Coq Require Import List Arith ZArith Bool.
From Compute Require Import Base.Ops Base.ListMat Model.Reduce Model.MatMul.
Import ListNotations.

Section Poly.
  Context {T : Type} (O : Ops T).

  (** [for v in x { for i in 0..n { vm.push(v.powi(i as i32)) } }] : row-major, [x.len()] rows, [n] columns *)
  Definition vandermonde (x : list T) (n : nat) : list T :=
    flat_map (fun v => map (fun i => powi O v (Z.of_nat i)) (seq 0 n)) x.

  (** [coef.iter().rev().fold(0., |acc, coeff| acc * val + coeff)] *)
  Definition horner (coef : list T) (v : T) : T :=
    fold_left (fun acc c => add O (mul O acc v) c) (rev coef) (zero O).
  Definition predict (coef x : list T) : list T := map (horner coef) x.

  Section Fit.
    Context (inv : list T -> option (list T)).

    (** the argument [fit] passes to [invert_matrix] (None: a panic happens before the call):
        [assert_eq!(x.len(), y.len()); xv = vandermonde(x, k); xtx = xtx(&xv, x.len())] *)
    Definition fit_gram (k : nat) (x y : list T) : option (list T) :=
      let* _ := guard (length x =? length y) in
      xtx O (vandermonde x k) (length x).

    (** [fit] with [k = self.coef.len()]; the result replaces [self.coef] *)
    Definition fit (k : nat) (x y : list T) : option (list T) :=
      let* g := fit_gram k x y in
      let* gi := inv g in
      let* xty := matmul O (vandermonde x k) y (length x) (length y) true false in
      matmul O gi xty k k false false.

    (** ** The regressor as a state machine over its public surface.
        State = the [coef] field (public); [new(deg)] starts from [deg + 1] zeros. *)
    Inductive op :=
    | OFit (x y : list T)          (* [fit(&x, &y)]            output: the new coefficients *)
    | OPredict (x : list T)        (* [predict(&x)]            output: the predictions      *)
    | OSetCoef (c : list T).       (* [r.coef = c] (pub field) output: none                 *)

    Definition new (deg : nat) : list T := repeat (zero O) (deg + 1).

    Definition step (coef : list T) (o : op) : option (list T * list T) :=
      match o with
      | OFit x y => let* c := fit (length coef) x y in Some (c, c)
      | OPredict x => Some (coef, predict coef x)
      | OSetCoef c => Some (c, [])
      end.

    (** run a program; the outputs are concatenated; the first panic aborts the run *)
    Fixpoint run (coef : list T) (ops : list op) : option (list T * list T) :=
      match ops with
      | [] => Some (coef, [])
      | o :: ops' =>
          let* (coef', out) := step coef o in
          let* (coef'', outs) := run coef' ops' in
          Some (coef'', out ++ outs)
      end.
  End Fit.
End Poly.
Arguments OFit {T} _ _. Arguments OPredict {T} _. Arguments OSetCoef {T} _.
