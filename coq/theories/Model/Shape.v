(** * Model of the structural part of [Matrix] / [Vector] ([linalg/array/matrix.rs], [vec.rs]), of the
    slice utilities and constructors of [linalg/utils.rs], and of [linalg/rotations.rs].

    The concrete state is what the Rust struct holds: [nrows], [ncols] and the flat row-major [data].
    Every method follows the flat [i * ncols + j] indexing of the (repaired) code; [None] is a panic.
    Dimensions given as [i32] are [Z] (overflow of [i32]/[usize] is not modelled).  No proofs here. *)
From Coq Require Import List Arith ZArith Bool QArith.
From Compute Require Import Base.Ops Base.ListMat.
Import ListNotations.
Local Close Scope Q_scope.

Record mat (T : Type) := mkMat { nrows : nat; ncols : nat; data : list T }.
Arguments mkMat {T} _ _ _. Arguments nrows {T} _. Arguments ncols {T} _. Arguments data {T} _.

Section Shape.
  Context {T : Type} (O : Ops T).
  Local Notation d := (zero O).
  Local Notation mat := (mat T).

  Definition size (m : mat) : nat := nrows m * ncols m.

  (** ** [reshape_mut]: the dimension logic (with the divisibility asserts of the repaired code, and the request
      0 x 0, accepted exactly when there are no elements: the empty matrix of [Matrix::empty()]) *)
  Definition reshape_dims (sz : nat) (r c : Z) : option (nat * nat) :=
    if ((0 <? r) && (0 <? c))%Z then
      let* _ := guard (r * c =? Z.of_nat sz)%Z in Some (Z.to_nat r, Z.to_nat c)
    else if (r <? 0)%Z then
      let* _ := guard ((r =? -1) && (0 <? c))%Z in
      let* _ := guard (sz mod Z.to_nat c =? 0) in
      Some (sz / Z.to_nat c, Z.to_nat c)
    else if (c <? 0)%Z then
      let* _ := guard ((c =? -1) && (0 <? r))%Z in
      let* _ := guard (sz mod Z.to_nat r =? 0) in
      Some (Z.to_nat r, sz / Z.to_nat r)
    else if ((r =? 0) && (c =? 0))%Z then
      let* _ := guard (sz =? 0) in Some (0, 0)
    else None.

  Definition reshape_mut (m : mat) (r c : Z) : option mat :=
    let* (r', c') := reshape_dims (size m) r c in
    Some (mkMat r' c' (data m)).

  (** [Matrix::new(data, nrows, ncols)]: a 1 x len matrix, reshaped in place *)
  Definition new (a : list T) (r c : Z) : option mat :=
    reshape_mut (mkMat 1 (length a) a) r c.

  (** the copying [reshape]: dimensions inferred in [i32] arithmetic, then [Matrix::new] *)
  Definition reshape (m : mat) (r c : Z) : option mat :=
    let sz := Z.of_nat (size m) in
    let* (r', c') :=
      if ((0 <? r) && (0 <? c))%Z then
        let* _ := guard (r * c =? sz)%Z in Some (r, c)
      else if (r <? 0)%Z then
        let* _ := guard ((r =? -1) && (0 <? c))%Z in Some (Z.quot sz c, c)
      else if (c <? 0)%Z then
        let* _ := guard ((c =? -1) && (0 <? r))%Z in Some (r, Z.quot sz r)
      else if ((r =? 0) && (c =? 0))%Z then Some (0, 0)%Z   (* [Matrix::new] checks that there are no elements *)
      else None in
    new (data m) r' c'.

  (** ** transposition and layout conversion on slices ([utils.rs]) *)
  (** [for j in 0..ncols { for i in 0..nrows { at.push(a[i * ncols + j]) } }] *)
  Definition transpose_flat (a : list T) (nr : nat) : option (list T) :=
    let* nc := is_matrix (length a) nr in
    Some (flat_map (fun j => map (fun i => nth (i * nc + j) a d) (seq 0 nr)) (seq 0 nc)).

  (** [x = a.to_vec(); for i in 0..nrows { for j in 0..ncols { x[j * nrows + i] = a[i * ncols + j] } }] *)
  Definition row_to_col_major (a : list T) (nr : nat) : option (list T) :=
    let* nc := is_matrix (length a) nr in
    Some (fold_left (fun x (p : nat * nat) => let (i, j) := p in upd x (j * nr + i) (nth (i * nc + j) a d))
                    (list_prod (seq 0 nr) (seq 0 nc)) a).

  (** [x[i * ncols + j] = a[j * nrows + i]] *)
  Definition col_to_row_major (a : list T) (nr : nat) : option (list T) :=
    let* nc := is_matrix (length a) nr in
    Some (fold_left (fun x (p : nat * nat) => let (i, j) := p in upd x (i * nc + j) (nth (j * nr + i) a d))
                    (list_prod (seq 0 nr) (seq 0 nc)) a).

  (** ** the structural methods of [Matrix] *)
  Definition t (m : mat) : option mat :=
    let* a := transpose_flat (data m) (nrows m) in
    new a (Z.of_nat (ncols m)) (Z.of_nat (nrows m)).

  Definition t_mut (m : mat) : option mat :=
    let* a := transpose_flat (data m) (nrows m) in
    Some (mkMat (ncols m) (nrows m) a).

  (** all the flat indices [i * ncols + j], [i < nrows], [j < ncols] are inside [data] *)
  Definition in_bounds (m : mat) : bool := size m <=? length (data m).

  Definition hcat (m o : mat) : option mat :=
    let* _ := guard (nrows m =? nrows o) in
    let* _ := guard (in_bounds m && in_bounds o) in
    new (flat_map (fun i => map (fun j => nth (i * ncols m + j) (data m) d) (seq 0 (ncols m))
                            ++ map (fun j => nth (i * ncols o + j) (data o) d) (seq 0 (ncols o)))
                  (seq 0 (nrows m)))
        (Z.of_nat (nrows m)) (Z.of_nat (ncols m + ncols o)).

  Definition vcat (m o : mat) : option mat :=
    let* _ := guard (ncols m =? ncols o) in
    new (data m ++ data o) (Z.of_nat (nrows m + nrows o)) (Z.of_nat (ncols m)).

  Definition hrepeat (m : mat) (n : nat) : option mat :=
    let* _ := guard ((n =? 0) || in_bounds m) in
    new (flat_map (fun i => concat (repeat (row_of (data m) (ncols m) i) n)) (seq 0 (nrows m)))
        (Z.of_nat (nrows m)) (Z.of_nat (ncols m * n)).

  Definition vrepeat (m : mat) (n : nat) : option mat :=
    new (concat (repeat (data m) n)) (Z.of_nat (nrows m * n)) (Z.of_nat (ncols m)).

  (** [&self[i]]: [assert!(i < nrows)], then the slice [i * ncols .. (i + 1) * ncols] *)
  Definition row_slice (m : mat) (i : nat) : option (list T) :=
    let* _ := guard (i <? nrows m) in
    let* _ := guard ((i + 1) * ncols m <=? length (data m)) in
    Some (row_of (data m) (ncols m) i).

  Definition get_col (m : mat) (j : nat) : option (list T) :=
    let* _ := guard (j <? ncols m) in
    let* _ := guard (in_bounds m) in
    Some (map (fun i => nth j (row_of (data m) (ncols m) i) d) (seq 0 (nrows m))).

  Definition apply_along_row (m : mat) (i : nat) (f : T -> T) : option mat :=
    let* _ := guard (i <? nrows m) in
    let* _ := guard ((i + 1) * ncols m <=? length (data m)) in
    Some (mkMat (nrows m) (ncols m)
                (mapi (fun k x => if (i * ncols m <=? k) && (k <? (i + 1) * ncols m) then f x else x) (data m))).

  (** [for row in self.data.chunks_mut(ncols) { row[col] = f(row[col]) }] *)
  Definition apply_along_col (m : mat) (j : nat) (f : T -> T) : option mat :=
    let len := length (data m) in
    let* _ := guard (0 <? ncols m) in
    let* _ := guard ((len =? 0) || ((j <? ncols m) && ((len mod ncols m =? 0) || (j <? len mod ncols m)))) in
    Some (mkMat (nrows m) (ncols m) (mapi (fun k x => if k mod ncols m =? j then f x else x) (data m))).

  Definition flat_idx (m : mat) (k : nat) : option T :=
    let* _ := guard ((k <? size m) && (k <? length (data m))) in Some (nth k (data m) d).
  Definition flat_idx_replace (m : mat) (k : nat) (v : T) : option mat :=
    let* _ := guard ((k <? size m) && (k <? length (data m))) in
    Some (mkMat (nrows m) (ncols m) (upd (data m) k v)).

  Definition idx (m : mat) (i j : nat) : option T :=
    let* _ := guard ((i <? nrows m) && (j <? ncols m)) in
    let* _ := guard (i * ncols m + j <? length (data m)) in
    Some (nth (i * ncols m + j) (data m) d).
  Definition idx_set (m : mat) (i j : nat) (v : T) : option mat :=
    let* _ := guard ((i <? nrows m) && (j <? ncols m)) in
    let* _ := guard (i * ncols m + j <? length (data m)) in
    Some (mkMat (nrows m) (ncols m) (upd (data m) (i * ncols m + j) v)).

  (** [diag] (repaired: stride [ncols]) *)
  Definition diag (m : mat) : option (list T) :=
    let n := Nat.min (nrows m) (ncols m) in
    let* _ := guard ((n =? 0) || ((n - 1) * ncols m + (n - 1) <? length (data m))) in
    Some (map (fun i => nth (i * ncols m + i) (data m) d) (seq 0 n)).

  (** ** the state machine *)
  Inductive op :=
  | OT | OTMut | OReshape (r c : Z) | OReshapeMut (r c : Z)
  | OHcat (od : list T) (r c : Z) | OVcat (od : list T) (r c : Z)
  | OHrepeat (n : nat) | OVrepeat (n : nat)
  | OGetRow (i : nat) | OGetCol (j : nat)
  | OApplyRow (i : nat) (f : T -> T) | OApplyCol (j : nat) (f : T -> T)
  | OFlatIdx (k : nat) | OFlatSet (k : nat) (v : T)
  | OIdx (i j : nat) | OIdxSet (i j : nat) (v : T) | ORowSlice (i : nat) | ODiag
  | OToVecReshape (r c : Z) | OToVecToMatrix | ORowToCol | OColToRow.

  Definition upd_state (o : option mat) : option (mat * list T) := option_map (fun s => (s, [])) o.
  Definition observe (m : mat) (o : option (list T)) : option (mat * list T) := option_map (fun l => (m, l)) o.

  Definition step (m : mat) (o : op) : option (mat * list T) :=
    match o with
    | OT => upd_state (t m)
    | OTMut => upd_state (t_mut m)
    | OReshape r c => upd_state (reshape m r c)
    | OReshapeMut r c => upd_state (reshape_mut m r c)
    | OHcat od r c => upd_state (let* o := new od r c in hcat m o)
    | OVcat od r c => upd_state (let* o := new od r c in vcat m o)
    | OHrepeat n => upd_state (hrepeat m n)
    | OVrepeat n => upd_state (vrepeat m n)
    | OGetRow i | ORowSlice i => observe m (row_slice m i)
    | OGetCol j => observe m (get_col m j)
    | OApplyRow i f => upd_state (apply_along_row m i f)
    | OApplyCol j f => upd_state (apply_along_col m j f)
    | OFlatIdx k => observe m (option_map (fun x => [x]) (flat_idx m k))
    | OFlatSet k v => upd_state (flat_idx_replace m k v)
    | OIdx i j => observe m (option_map (fun x => [x]) (idx m i j))
    | OIdxSet i j v => upd_state (idx_set m i j v)
    | ODiag => observe m (diag m)
    | OToVecReshape r c => upd_state (new (data m) r c)
    | OToVecToMatrix => upd_state (new (data m) 1 (Z.of_nat (length (data m))))
    | ORowToCol => upd_state (let* a := row_to_col_major (data m) (nrows m) in
                              new a (Z.of_nat (ncols m)) (Z.of_nat (nrows m)))
    | OColToRow => upd_state (let* a := col_to_row_major (data m) (ncols m) in
                              new a (Z.of_nat (ncols m)) (Z.of_nat (nrows m)))
    end.

  Fixpoint run (m : mat) (ops : list op) : option (mat * list (list T)) :=
    match ops with
    | [] => Some (m, [])
    | o :: ops' =>
        let* (m1, out) := step m o in
        let* (m2, outs) := run m1 ops' in
        Some (m2, out :: outs)
    end.

  (** ** constructors *)
  Definition zeros (r c : nat) : option mat := new (repeat d (r * c)) (Z.of_nat r) (Z.of_nat c).
  Definition ones (r c : nat) : option mat := new (repeat (one O) (r * c)) (Z.of_nat r) (Z.of_nat c).

  (** [let mut m = zeros(n, n); for i in 0..n { m.data[i * n + i] = 1. }] *)
  Definition eye (n : nat) : option mat :=
    let* m := zeros n n in
    Some (mkMat (nrows m) (ncols m) (fold_left (fun x i => upd x (i * n + i) (one O)) (seq 0 n) (data m))).

  Definition diag_matrix (a : list T) : list T :=
    let n := length a in
    fold_left (fun x i => upd x (i * n + i) (nth i a d)) (seq 0 n) (repeat d (n * n)).

  Definition absdiff (i j : nat) : nat := (i - j) + (j - i).
  (** [v[i * n + j] = x[|i - j|]] *)
  Definition toeplitz (x : list T) : list T :=
    let n := length x in
    fold_left (fun v (p : nat * nat) => let (i, j) := p in upd v (i * n + j) (nth (absdiff i j) x d))
              (list_prod (seq 0 n) (seq 0 n)) (repeat d (n * n)).

  Definition vandermonde (x : list T) (n : nat) : list T :=
    flat_map (fun v => map (fun i => powi O v (Z.of_nat i)) (seq 0 n)) x.

  (** [design] (repaired): each row of the row-major [x] preceded by a one *)
  Definition design (x : list T) (rows : nat) : option (list T) :=
    let* nc := is_matrix (length x) rows in
    Some (flat_map (fun i => one O :: row_of x nc i) (seq 0 rows)).

  (** [linspace] (repaired): fewer than two points need no spacing *)
  Definition linspace (a b : T) (n : nat) : list T :=
    if n <? 2 then repeat a n
    else let w := div O (sub O b a) (ofN O (n - 1)) in
         map (fun i => add O a (mul O (ofN O i) w)) (seq 0 n).

  (** [arange] (repaired): [ceil((stop - start) / step)] points *)
  Definition arange_count (start stop step : T) : nat :=
    Z.to_nat (truncZ O (f1 O Ceil (div O (sub O stop start) step))).
  Definition arange (start stop step : T) : list T :=
    map (fun i => add O start (mul O (ofN O i) step)) (seq 0 (arange_count start stop step)).

  (** rotations: [axis] 0 = X, 1 = Y, otherwise Z *)
  Definition rot_data (cw : bool) (axis : nat) (angle : T) : list T :=
    let c := f1 O Cos angle in
    let s := f1 O Sin angle in
    let (p, q) := if cw then (s, neg O s) else (neg O s, s) in   (* p above the diagonal for X and Z *)
    let z := d in let u := one O in
    match axis with
    | 0 => [u; z; z; z; c; p; z; q; c]
    | 1 => [c; z; q; z; u; z; p; z; c]
    | _ => [c; p; z; q; c; z; z; z; u]
    end.
  Definition rotation (cw : bool) (axis : nat) (angle : T) : option mat := new (rot_data cw axis angle) 3 3.

  (** ** predicates *)
  Definition eps : T := ofQ O (Qmake 1 4503599627370496).   (* f64::EPSILON = 2^-52 *)
  Definition is_square (m : mat) : bool := nrows m =? ncols m.

  (** [(a - b).abs() > EPSILON] *)
  Definition differ (a b : T) : bool := ltb O eps (abs O (sub O a b)).

  (** mirrored entries of [is_symmetric] (repaired: relative to the larger magnitude; [f64::max] drops a NaN operand):
      [(x - y).abs() > EPSILON * x.abs().max(y.abs())] *)
  Definition sym_differ (a b : T) : bool := ltb O (mul O eps (fmax O (abs O a) (abs O b))) (abs O (sub O a b)).

  Definition is_symmetric (m : mat) : bool :=
    if is_square m then
      forallb (fun i => forallb (fun j => negb (sym_differ (nth (i * ncols m + j) (data m) d) (nth (j * nrows m + i) (data m) d)))
                                (seq i (ncols m - i)))
              (seq 0 (nrows m))
    else false.

  (** [self[i][j] != 0.] must fail for every inspected entry *)
  Definition is_upper_triangular (m : mat) : bool :=
    forallb (fun i => forallb (fun j => eqb O (nth j (row_of (data m) (ncols m) i) d) d) (seq 0 (Nat.min i (ncols m))))
            (seq 0 (nrows m)).
  Definition is_lower_triangular (m : mat) : bool :=
    forallb (fun i => forallb (fun j => eqb O (nth j (row_of (data m) (ncols m) i) d) d) (seq (i + 1) (ncols m - (i + 1))))
            (seq 0 (nrows m)).

  (** slice utilities.  [is_square] goes through an [f32] square root in the code; here the integer
      square root (equal for every length below 2^24, see REPORT) *)
  Definition is_square_u (len : nat) : option nat :=
    let n := Nat.sqrt len in if n * n =? len then Some n else None.
  Definition is_design (m : list T) (nr : nat) : option bool :=
    let* nc := is_matrix (length m) nr in
    let* _ := guard (0 <? nc) in
    Some (forallb (fun i => negb (differ (nth (i * nc) m d) (one O))) (seq 0 nr)).
  Definition is_symmetric_u (m : list T) : option bool :=
    let* n := is_square_u (length m) in
    Some (forallb (fun i => forallb (fun j => negb (sym_differ (nth (i * n + j) m d) (nth (j * n + i) m d))) (seq i (n - i)))
                  (seq 0 n)).
  Definition diag_u (a : list T) : option (list T) :=
    let* n := is_square_u (length a) in
    Some (map (fun i => nth (i * n + i) a d) (seq 0 n)).

  (** comparisons.  [rel_diff] is the repaired, sign-aware one of [vec.rs]; an infinite difference ([diff.is_infinite()],
      which core writes [(self == f64::INFINITY) | (self == f64::NEG_INFINITY)], the infinities being [1 / 0] and its
      negation) is returned as it is -- for [inf] and [-inf] the quotient would be [inf / inf = NaN], which no tolerance
      test rejects.  (Written exactly as the source since the fourth round of Tie A: Generated/compare_loops.v.) *)
  Definition is_infinite (x : T) : bool :=
    orb (eqb O x (div O (one O) (zero O))) (eqb O x (neg O (div O (one O) (zero O)))).
  Definition rel_diff (x y : T) : T :=
    if eqb O x d then abs O y
    else if eqb O y d then abs O x
    else let diff := abs O (sub O x y) in
         if is_infinite diff then diff
         else div O diff (fmin O (abs O x) (abs O y)).
  Definition close_to_v (x y : list T) (tol : T) : bool :=
    if negb (length x =? length y) then false
    else forallb (fun i => negb (ltb O tol (rel_diff (nth i x d) (nth i y d)))) (seq 0 (length x)).
  Definition eq_v (x y : list T) : bool :=
    if negb (length x =? length y) then false
    else forallb (fun i => negb (differ (nth i x d) (nth i y d))) (seq 0 (length x)).
  Definition same_shape (a b : mat) : bool := (nrows a =? nrows b) && (ncols a =? ncols b).
  Definition close_to_m (a b : mat) (tol : T) : bool :=
    if same_shape a b then close_to_v (data a) (data b) tol else false.
  Definition eq_m (a b : mat) : bool :=
    if same_shape a b then eq_v (data a) (data b) else false.
End Shape.
