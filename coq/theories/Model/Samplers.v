(** * Model of every [sample] of [src/distributions/*.rs] (repaired code), of the bulk helpers of
    [distributions/mod.rs], of [MVN::sample] and of [ln_gamma] ([functions/gamma.rs]).

    Every sampler is a function of an ABSTRACT random source [src] (a state type [S] with [next_u64], [next_f64],
    [next_range]) threaded through the computation, with [fuel] bounding each data-dependent loop:
    [Ok (value, new state)], [Fail] where the Rust code panics, [Fuel] when a loop budget runs out.
    The correspondence instantiates the source with the executable model of `alea` ([Base/Rng.v]); the theorems
    hold for every source.  Operation order follows the Rust text (comparison is bitwise).  No proofs here. *)
From Coq Require Import List NArith ZArith QArith Floats Bool.
From Compute Require Import Base.Ops Base.ListMat Base.Rng Model.Special Model.MatMul.
From Compute Require Import Generated.special_consts Generated.ziggurat_tables Generated.sampler_consts.
Import ListNotations.

(** the random source: [alea::u64()], [alea::f64()], [alea::i64_in_range(min, max)] *)
Record source (S T : Type) := mkSource {
  next_u64 : S -> N * S;
  next_f64 : S -> T * S;
  next_range : Z -> Z -> S -> res (Z * S) }.
Arguments next_u64 {S T} _ _. Arguments next_f64 {S T} _ _. Arguments next_range {S T} _ _ _ _.

Notation "'let+' p ':=' e 'in' k" := (res_bind e (fun p => k))
  (at level 200, p pattern, e at level 100, k at level 200, right associativity).

(** the distributions, as data *)
Inductive dist (T : Type) :=
| DNormal (mu sigma : T) | DUniform (lo hi : T) | DExponential (lambda : T) | DGumbel (mu beta : T)
| DPareto (alpha minval : T) | DGamma (alpha beta : T) | DBeta (alpha beta : T) | DChiSquared (dof : N) | DT (dof : T)
| DPoisson (lambda : T) | DBinomial (n : N) (p : T) | DDiscreteUniform (lo hi : Z) | DBernoulli (p : T).
Arguments DNormal {T} _ _. Arguments DUniform {T} _ _. Arguments DExponential {T} _. Arguments DGumbel {T} _ _.
Arguments DPareto {T} _ _. Arguments DGamma {T} _ _. Arguments DBeta {T} _ _. Arguments DChiSquared {T} _.
Arguments DT {T} _. Arguments DPoisson {T} _. Arguments DBinomial {T} _ _. Arguments DDiscreteUniform {T} _ _.
Arguments DBernoulli {T} _.

Section Samplers.
  Context {T : Type} (O : Ops T) {S : Type} (src : source S T).
  Local Notation "x + y" := (add O x y). Local Notation "x - y" := (sub O x y).
  Local Notation "x * y" := (mul O x y). Local Notation "x / y" := (div O x y).
  Local Notation "- x" := (neg O x).
  Local Notation z0 := (zero O). Local Notation "1" := (one O). Local Notation "2" := (two O).
  Local Notation "x <? y" := (ltb O x y). Local Notation "x <=? y" := (leb O x y).
  Local Notation "x >? y" := (ltb O y x). Local Notation "x >=? y" := (leb O y x).
  Local Notation lit := (ofLit O).
  Local Notation dec p q := (ofQ O (p # q)%Q).
  Local Notation half := (ofQ O (1 # 2)%Q).
  Local Notation int z := (ofZ O z%Z).
  Local Notation ln x := (f1 O Ln x). Local Notation exp x := (f1 O Exp x). Local Notation floor x := (f1 O Floor x).
  Local Notation f64 := (next_f64 src). Local Notation u64 := (next_u64 src).

  (** [f64::EPSILON] = 2^-52 *)
  Definition epsilon : T := ofQ O (1 # 4503599627370496)%Q.

  (** ** [functions/gamma.rs]: [ln_gamma] *)
  Definition ln_gamma_pos (z : T) : T :=
    let x := lanczos_sum O z 0%nat lanczos_coeffs (lit lanczos_c0) in
    let t := (z - 1) + lit lanczos_G - half in
    lit ln_sqrt_2pi + ((z - 1) + half) * ln t - t + ln x.
  Definition ln_gamma (z : T) : T :=
    if z <? half then ln (pi O / abs O (f1 O Sin (pi O * z))) - ln_gamma_pos (1 - z) else ln_gamma_pos z.

  (** ** Uniform: [(upper - lower) * alea::f64() + lower] *)
  Definition uniform_sample (lo hi : T) (s : S) : T * S :=
    let (u, s') := f64 s in ((hi - lo) * u + lo, s').

  (** [loop { let u = <Uniform(0,1)>.sample(); if u > 0. { break u } }] (Exponential, Gumbel) *)
  Fixpoint positive_unit (fuel : nat) (s : S) : res (T * S) :=
    match fuel with
    | 0%nat => Fuel
    | Datatypes.S fuel' => let (u, s') := uniform_sample z0 1 s in if u >? z0 then Ok (u, s') else positive_unit fuel' s'
    end.
  (** the same loop directly on [alea::f64()] (Pareto) *)
  Fixpoint positive_f64 (fuel : nat) (s : S) : res (T * S) :=
    match fuel with
    | 0%nat => Fuel
    | Datatypes.S fuel' => let (u, s') := f64 s in if u >? z0 then Ok (u, s') else positive_f64 fuel' s'
    end.

  Definition exponential_sample (fuel : nat) (lambda : T) (s : S) : res (T * S) :=
    let+ (u, s') := positive_unit fuel s in Ok (- ln u / lambda, s').
  Definition gumbel_sample (fuel : nat) (mu beta : T) (s : S) : res (T * S) :=
    let+ (u, s') := positive_unit fuel s in Ok (mu - beta * ln (- ln u), s').
  Definition pareto_sample (fuel : nat) (alpha minval : T) (s : S) : res (T * S) :=
    let+ (u, s') := positive_f64 fuel s in Ok (minval / powf O u (1 / alpha), s').

  (** ** Bernoulli *)
  Definition bernoulli_sample (p : T) (s : S) : T * S :=
    if eqb O p 1 then (1, s) else if eqb O p z0 then (z0, s)
    else let (u, s') := f64 s in (if p >? u then 1 else z0, s').

  (** ** DiscreteUniform: [(lower + alea::i64_less_than(upper - lower + 1)) as f64] = the source's range draw *)
  Definition discrete_uniform_sample (lo hi : Z) (s : S) : res (T * S) :=
    let+ (k, s') := next_range src lo hi s in Ok (of_i64 O k, s').

  (** ** Normal: 128-layer ziggurat, tables from Generated/ziggurat_tables.v *)
  Definition zK (i : nat) : N := nth i zig_K 0%N.
  Definition zW (i : nat) : T := lit (nth i zig_W (0%Q, 0%float)).
  Definition zY (i : nat) : T := lit (nth i zig_Y (0%Q, 0%float)).
  Definition zR : T := lit zig_R.

  Fixpoint normal_sample (fuel : nat) (mu sigma : T) (s : S) : res (T * S) :=
    match fuel with
    | 0%nat => Fuel
    | Datatypes.S fuel' =>
        let (u, s1) := u64 s in
        let i := N.to_nat (N.land u 127) in
        let j := N.land (N.shiftr u 8) 16777215 in
        let sg := if N.testbit u 7 then 1 else neg O 1 in
        let jf := int (Z.of_N j) in
        if (j <? zK i)%N then Ok (sg * (jf * zW i) * sigma + mu, s1)
        else
          let '(x, y, s3) :=
            if (i <? 127)%nat then
              let x := jf * zW i in
              let (u2, s2) := f64 s1 in
              (x, zY (Datatypes.S i) + (zY i - zY (Datatypes.S i)) * u2, s2)
            else
              let (u1, s2) := f64 s1 in
              let x := zR - f1 O Ln1p (- u1) / zR in
              let (u2, s3) := f64 s2 in
              (x, exp (- zR * (x - half * zR)) * u2, s3) in
          if y <? exp (- half * x * x) then Ok (sg * x * sigma + mu, s3)
          else normal_sample fuel' mu sigma s3
    end.

  (** ** Gamma: Marsaglia-Tsang, with the boost for shape < 1 *)
  (** inner loop: a normal variate [x] with [v = (1 + x/sqrt(9d))^3 > 0] *)
  Fixpoint gamma_xv (fuel nfuel : nat) (d : T) (s : S) : res (T * T * S) :=
    match fuel with
    | 0%nat => Fuel
    | Datatypes.S fuel' =>
        let+ (x, s1) := normal_sample nfuel z0 1 s in
        let v := powi O (1 + x / sqrt O (int 9 * d)) 3 in
        if v >? z0 then Ok (x, v, s1) else gamma_xv fuel' nfuel d s1
    end.
  Fixpoint gamma_loop (fuel ifuel : nat) (d beta boost : T) (s : S) : res (T * S) :=
    match fuel with
    | 0%nat => Fuel
    | Datatypes.S fuel' =>
        let+ (x, v, s1) := gamma_xv ifuel ifuel d s in
        let (u, s2) := uniform_sample z0 1 s1 in
        if u <? 1 - dec 331 10000 * powi O x 4 then Ok (boost * (d * v / beta), s2)
        else if ln u <? half * powi O x 2 + d * (1 - v + ln v) then Ok (boost * (d * v / beta), s2)
        else gamma_loop fuel' ifuel d beta boost s2
    end.
  Definition gamma_sample (fuel : nat) (alpha beta : T) (s : S) : res (T * S) :=
    let '(shape, boost, s0) :=
      if alpha <? 1 then
        let (u, s') := uniform_sample z0 1 s in (alpha + 1, powf O u (1 / alpha), s')
      else (alpha, 1, s) in
    gamma_loop fuel fuel (shape - 1 / int 3) beta boost s0.

  Definition beta_sample (fuel : nat) (a b : T) (s : S) : res (T * S) :=
    let+ (x, s1) := gamma_sample fuel a 1 s in
    let+ (y, s2) := gamma_sample fuel b 1 s1 in
    Ok (x / (x + y), s2).
  Definition chi_squared_sample (fuel : nat) (dof : N) (s : S) : res (T * S) :=
    gamma_sample fuel (int (Z.of_N dof) / 2) half s.
  (** [Gamma::new(dof / 2., 1.)] panics when [dof / 2.] is not positive *)
  Definition t_sample (fuel : nat) (dof : T) (s : S) : res (T * S) :=
    let+ (z, s1) := normal_sample fuel z0 1 s in
    if (dof / 2 <=? z0) then Fail else
    let+ (g, s2) := gamma_sample fuel (dof / 2) 1 s1 in
    Ok (sqrt O (dof / 2) * z / sqrt O g, s2).

  (** ** Poisson *)
  Fixpoint poisson_mult_loop (fuel : nat) (limit count product : T) (s : S) : res (T * S) :=
    if product >? limit then
      match fuel with
      | 0%nat => Fuel
      | Datatypes.S fuel' => let (u, s') := f64 s in poisson_mult_loop fuel' limit (count + 1) (product * u) s'
      end
    else Ok (count, s).
  Definition poisson_mult (fuel : nat) (lambda : T) (s : S) : res (T * S) :=
    let (u, s') := f64 s in poisson_mult_loop fuel (exp (- lambda)) z0 u s'.

  Fixpoint ptrs_loop (fuel : nat) (lam loglam b a invalpha vr : T) (s : S) : res (T * S) :=
    match fuel with
    | 0%nat => Fuel
    | Datatypes.S fuel' =>
        let (u0, s1) := f64 s in
        let U := u0 - half in
        let (V, s2) := f64 s1 in
        let us := half - abs O U in
        let k := floor ((2 * a / us + b) * U + lam + dec 43 100) in
        if (us >=? dec 7 100) && (V <=? vr) then Ok (k, s2)
        else if (k <? z0) || ((us <? dec 13 1000) && (V >? us)) then ptrs_loop fuel' lam loglam b a invalpha vr s2
        else if (ln V + ln invalpha - ln (a / (us * us) + b)) <=? (- lam + k * loglam - ln_gamma (k + 1))
             then Ok (k, s2)
        else ptrs_loop fuel' lam loglam b a invalpha vr s2
    end.
  Definition poisson_ptrs (fuel : nat) (lam : T) (s : S) : res (T * S) :=
    let slam := sqrt O lam in
    let loglam := ln lam in
    let b := dec 931 1000 + dec 253 100 * slam in
    let a := - dec 59 1000 + dec 2483 100000 * b in
    let invalpha := dec 11239 10000 + dec 11328 10000 / (b - dec 34 10) in
    let vr := dec 9277 10000 - dec 36224 10000 / (b - 2) in
    ptrs_loop fuel lam loglam b a invalpha vr s.
  Definition poisson_sample (fuel : nat) (lambda : T) (s : S) : res (T * S) :=
    if lambda <? int 10 then poisson_mult fuel lambda s else poisson_ptrs fuel lambda s.

  (** ** Binomial *)
  (** inversion (BINV) with the restart bound; [x] is a [u64] *)
  Fixpoint binv_loop (fuel : nat) (r0 a sq bound r u : T) (x : N) (s : S) : res (N * S) :=
    if u >? r then
      match fuel with
      | 0%nat => Fuel
      | Datatypes.S fuel' =>
          if int (Z.of_N x) >=? bound then
            let (u', s') := f64 s in binv_loop fuel' r0 a sq bound r0 u' 0%N s'
          else
            let x' := N.succ x in
            binv_loop fuel' r0 a sq bound (r * (a / int (Z.of_N x') - sq)) (u - r) x' s
      end
    else Ok (x, s).
  Definition binomial_inversion (fuel : nat) (n : N) (p : T) (s : S) : res (N * S) :=
    let sq := p / (1 - p) in
    let a := int (Z.of_N n + 1) * sq in
    let r0 := exp (int (Z.of_N n) * f1 O Ln1p (- p)) in
    let nf := int (Z.of_N n) in
    let bound := fmin O nf (nf * p + int 10 * sqrt O (nf * p * (1 - p) + 1)) in
    let (u, s') := f64 s in
    binv_loop fuel r0 a sq bound r0 u 0%N s'.

  (** step 5.1 of BTPE: [loop { i += 1.; f = f op (a / i - s); if (i - stop).abs() < EPSILON { break } }] *)
  Fixpoint btpe_ratio (fuel : nat) (mulp : bool) (a sq stop i f : T) : option T :=
    match fuel with
    | 0%nat => None
    | Datatypes.S fuel' =>
        let i' := i + 1 in
        let g := a / i' - sq in
        let f' := if mulp then f * g else f / g in
        if abs O (i' - stop) <? epsilon then Some f' else btpe_ratio fuel' mulp a sq stop i' f'
    end.

  Record btpe_consts := {
    c_nf : T; c_r : T; c_q : T; c_nrq : T; c_fm : T; c_m : T; c_p1 : T; c_xm : T; c_xl : T; c_xr : T; c_c : T;
    c_ll : T; c_lr : T; c_p2 : T; c_p3 : T; c_p4 : T }.

  Definition btpe_setup (n : N) (p : T) : btpe_consts :=
    let nf := int (Z.of_N n) in
    let r := if p <=? half then p else 1 - p in
    let q := 1 - r in
    let nrq := nf * r * q in
    let fm := nf * r + r in
    let m := floor fm in
    let p1 := floor (dec 2195 1000 * sqrt O nrq - dec 46 10 * q) + half in
    let xm := m + half in
    let xl := xm - p1 in
    let xr := xm + p1 in
    let lambda := fun x => x * (1 + x / 2) in
    let c := dec 134 1000 + dec 205 10 / (dec 153 10 + m) in
    let ll := lambda ((fm - xl) / (fm - xl * r)) in
    let lr := lambda ((xr - fm) / (xr * q)) in
    let p2 := p1 * (1 + 2 * c) in
    let p3 := p2 + c / ll in
    let p4 := p3 + c / lr in
    {| c_nf := nf; c_r := r; c_q := q; c_nrq := nrq; c_fm := fm; c_m := m; c_p1 := p1; c_xm := xm; c_xl := xl;
       c_xr := xr; c_c := c; c_ll := ll; c_lr := lr; c_p2 := p2; c_p3 := p3; c_p4 := p4 |}.

  Definition btpe_st (x : T) : T :=
    (int 13860 - (int 462 - (int 132 - (int 99 - int 140 / (x * x)) / (x * x)) / (x * x)) / (x * x)) / x / int 166320.

  (** outcome of one pass through steps 1-5: accept [y], reject (go to step 1), or out of fuel in step 5.1 *)
  Inductive btpe_step := BAccept (y : T) | BReject | BFuel.

  Definition btpe_step5 (fuel : nat) (n : N) (p : T) (k : btpe_consts) (y v : T) : btpe_step :=
    let m := c_m k in let nrq := c_nrq k in let nf := c_nf k in
    let kk := abs O (y - m) in
    if negb ((kk >? int 20) && (kk <? half * nrq - 1)) then
      let sq := p / c_q k in
      let a := sq * (int (Z.of_N n) + 1) in
      let f := if m <? y then btpe_ratio fuel true a sq y m 1
               else if m >? y then btpe_ratio fuel false a sq m y 1 else Some 1 in
      match f with
      | None => BFuel
      | Some f => if v >? f then BReject else BAccept y
      end
    else
      let rho := (kk / nrq) * ((kk * (kk / int 3 + dec 625 1000) + 1 / int 6) / nrq + half) in
      let t := - kk * kk / (2 * nrq) in
      let biga := ln v in
      if biga <? t - rho then BAccept y
      else if biga >? t + rho then BReject
      else
        let x1 := y + 1 in let f1_ := m + 1 in let z := nf + 1 - m in let w := nf - y + 1 in
        if biga >? c_xm k * ln (f1_ / x1) + (nf - m + half) * ln (z / w) + (y - m) * ln (w * c_r k / (x1 * c_q k))
                   + btpe_st f1_ + btpe_st z + btpe_st x1 + btpe_st w
        then BReject else BAccept y.

  Definition not_gt (u p : T) : bool := negb (u >? p).   (* partial_cmp is None, Equal or Less *)

  Fixpoint btpe_loop (fuel ifuel : nat) (n : N) (p : T) (k : btpe_consts) (s : S) : res (T * S) :=
    match fuel with
    | 0%nat => Fuel
    | Datatypes.S fuel' =>
        let (u, s1) := uniform_sample z0 (c_p4 k) s in
        let (v, s2) := uniform_sample z0 1 s1 in
        if not_gt u (c_p1 k) then Ok (floor (c_xm k - c_p1 k * v + u), s2)
        else
          let st :=
            if not_gt u (c_p2 k) then
              let x := c_xl k + (u - c_p1 k) / c_c k in
              let v' := v * c_c k + 1 - abs O (c_m k - x + half) / c_p1 k in
              if v' >? 1 then BReject else btpe_step5 ifuel n p k (floor x) v'
            else if not_gt u (c_p3 k) then
              let y := floor (c_xl k + ln v / c_ll k) in
              if y <? z0 then BReject else btpe_step5 ifuel n p k y (v * ((u - c_p2 k) * c_ll k))
            else
              let y := floor (c_xr k - ln v / c_lr k) in
              if y >? c_nf k then BReject else btpe_step5 ifuel n p k y (v * ((u - c_p3 k) * c_lr k)) in
          match st with
          | BAccept y => Ok (y, s2)
          | BReject => btpe_loop fuel' ifuel n p k s2
          | BFuel => Fuel
          end
    end.
  (** [Uniform::new(0., p4)] panics when [0 > p4]; step 6; [y as u64] *)
  Definition binomial_btpe (fuel : nat) (n : N) (p : T) (s : S) : res (N * S) :=
    let k := btpe_setup n p in
    if c_p4 k <? z0 then Fail else
    let+ (y, s') := btpe_loop fuel fuel n p k s in
    let y := if p >? half then c_nf k - y else y in
    Ok (Z.to_N (truncZ O y), s').

  (** u64 subtraction wraps in the release profile the harness is built with *)
  Definition u64_sub (a b : N) : N := ((a + 18446744073709551616 - b) mod 18446744073709551616)%N.
  Definition binomial_sample (fuel : nat) (n : N) (p : T) (s : S) : res (T * S) :=
    if (n =? 0)%N || eqb O p z0 then Ok (z0, s)
    else if abs O (p - 1) <=? epsilon then Ok (int (Z.of_N n), s)
    else
      let switch := p >? half in
      let p' := if switch then 1 - p else p in
      let+ (x, s') := if p' * int (Z.of_N n) <=? int 30 then binomial_inversion fuel n p' s else binomial_btpe fuel n p' s in
      Ok (int (Z.of_N (if switch then u64_sub n x else x)), s').

  (** ** constructors' guards ([new] panics) followed by one draw *)
  Definition in_unit (p : T) : bool := (z0 <=? p) && (p <=? 1).
  Definition valid (d : dist T) : bool :=
    match d with
    | DNormal _ sigma => negb (sigma <? z0)
    | DUniform lo hi => negb (lo >? hi)
    | DExponential l => negb (l <=? z0)
    | DGumbel _ b => negb (b <=? z0)
    | DPareto a m => negb ((a <=? z0) || (m <=? z0))
    | DGamma a b => negb ((a <=? z0) || (b <=? z0))
    | DBeta a b => negb ((a <=? z0) || (b <=? z0))
    | DChiSquared k => (0 <? k)%N
    | DT nu => nu >? z0
    | DPoisson l => negb (l <=? z0)
    | DBinomial _ p => in_unit p
    | DDiscreteUniform lo hi => negb (hi <? lo)%Z
    | DBernoulli p => in_unit p
    end.

  Definition sample (fuel : nat) (d : dist T) (s : S) : res (T * S) :=
    match d with
    | DNormal mu sigma => normal_sample fuel mu sigma s
    | DUniform lo hi => Ok (uniform_sample lo hi s)
    | DExponential l => exponential_sample fuel l s
    | DGumbel mu b => gumbel_sample fuel mu b s
    | DPareto a m => pareto_sample fuel a m s
    | DGamma a b => gamma_sample fuel a b s
    | DBeta a b => beta_sample fuel a b s
    | DChiSquared k => chi_squared_sample fuel k s
    | DT nu => t_sample fuel nu s
    | DPoisson l => poisson_sample fuel l s
    | DBinomial n p => binomial_sample fuel n p s
    | DDiscreteUniform lo hi => discrete_uniform_sample lo hi s
    | DBernoulli p => Ok (bernoulli_sample p s)
    end.

  (** ** bulk helpers of [distributions/mod.rs], generic in the single-draw function *)
  Section Bulk.
    Context {A : Type} (draw : S -> res (A * S)).
    (** [(0..n).map(|_| self.sample()).collect()] *)
    Fixpoint draws (n : nat) (s : S) : res (list A * S) :=
      match n with
      | 0%nat => Ok ([], s)
      | Datatypes.S n' => let+ (x, s1) := draw s in let+ (l, s2) := draws n' s1 in Ok (x :: l, s2)
      end.
  End Bulk.

  Definition sample_n (fuel : nat) (d : dist T) (n : nat) (s : S) : res (list T * S) := draws (sample fuel d) n s.
  (** [Matrix::new] as repaired for the C04 finding empty-matrix:value-form-panics: the request 0 x 0 on empty data is
      accepted (the empty matrix), every other request as [MatMul.matrix_new] decides (a zero dimension is refused) *)
  Definition matrix_new0 (d : list T) (r c : nat) : option (matrix (T:=T)) :=
    if ((r =? 0) && (c =? 0) && (length d =? 0))%nat then Some {| nr := 0; nc := 0; dat := d |} else matrix_new d r c.
  (** [Matrix::new(self.sample_n(nrows * ncols), nrows as i32, ncols as i32)] *)
  Definition sample_matrix (fuel : nat) (d : dist T) (nrows ncols : nat) (s : S) : res (matrix (T:=T) * S) :=
    let+ (l, s') := sample_n fuel d (nrows * ncols) s in
    match matrix_new0 l nrows ncols with Some m => Ok (m, s') | None => Fail end.

  (** ** MVN: [&self.mean + self.decomposed_covariance_matrix.dot(Normal::default().sample_n(dim))] *)
  Definition vec_add (a b : list T) : option (list T) :=
    if (length a =? length b)%nat then Some (map2 (add O) a b) else None.
  Definition mvn_sample (fuel : nat) (mu L : list T) (s : S) : res (list T * S) :=
    let dim := length mu in
    let+ (z, s') := sample_n fuel (DNormal z0 1) dim s in
    match (let* lz := mat_vec_dot O DotNN {| nr := dim; nc := dim; dat := L |} z in vec_add mu lz) with
    | Some v => Ok (v, s')
    | None => Fail
    end.
  (** [DistributionND::sample_n]: [n] draws appended, then [Matrix::new(data, n as i32, dim as i32)] *)
  Definition mvn_sample_n (fuel : nat) (mu L : list T) (n : nat) (s : S) : res (matrix (T:=T) * S) :=
    let+ (rows, s') := draws (mvn_sample fuel mu L) n s in
    match matrix_new (concat rows) n (length mu) with Some m => Ok (m, s') | None => Fail end.
End Samplers.

(** the source given by the executable model of `alea` (state = the u64 generator state) *)
(** the range draw of [DiscreteUniform::sample] as repaired for D11: [lower + alea::i64_less_than(upper - lower + 1)]
    (wrapping i64 arithmetic).  Unlike [alea::i64_in_range] it has no [assert!(max > min)]: the degenerate law
    [lower = upper] consumes one word and returns [lower] (coverage audit: the equal-bounds cases pin this). *)
Definition alea_range (fuel : nat) (lo hi : Z) (s : rng) : res (Z * rng) :=
  res_bind (Rng.i64_less_than fuel (Rng.iwrap (Rng.iwrap (hi - lo) + 1)) s) (fun p => Ok (Rng.iwrap (lo + fst p), snd p)).
Definition alea_source {T : Type} (O : Ops T) (range_fuel : nat) : source rng T :=
  {| next_u64 := Rng.u64; next_f64 := Rng.f64 O; next_range := alea_range range_fuel |}.
