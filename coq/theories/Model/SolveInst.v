(** * The C01 entry points with the factorisation routines instantiated by the models of property C11
    ([Model/LU.v], [Model/Cholesky.v]) and the fallible Cholesky sweep of [Model/Solve.v].
    These are the terms that run bit for bit against the implementation and about which the theorems of
    [Properties/C01.v] speak.  No proofs in this file. *)
From Coq Require Import List Arith ZArith Bool.
From Compute Require Import Base.Ops Base.ListMat Model.Reduce Model.MatMul Model.Subst Model.Cholesky Model.LU Model.Solve.
Import ListNotations.

Section Inst.
  Context {T : Type} (O : Ops T).
  Definition slice_factor := factor O (try_cholesky O) (cholesky_solve O) (lu O) (lu_solve O).
  Definition slice_solve := solve O (try_cholesky O) (cholesky_solve O) (lu O) (lu_solve O).
  Definition slice_solve_sys := solve_sys O (try_cholesky O) (cholesky_solve O) (lu O) (lu_solve O).
  Definition slice_invert := invert_matrix O (try_cholesky O) (cholesky_solve O) (lu O) (lu_solve O).
  Definition mat_solve_vec := msolve_vec (lu O) (lu_solve O).
  Definition mat_solve_mat := msolve_mat O (lu O) (lu_solve O).
  Definition mat_inv := minv O (lu O) (lu_solve O).
  (** the two routes taken separately (for [routing_irrelevant]) *)
  Definition solve_via_chol (a b : list T) : option (list T) :=
    let* c := try_cholesky O a in
    match c with Some l => cholesky_solve O l b | None => None end.
  Definition solve_via_lu (a b : list T) : option (list T) :=
    let* (m, piv) := lu O a in lu_solve O m piv b.
End Inst.
