(** * Model of the unrolled reductions of [linalg/utils.rs] ([sum], [dot], [norm], [prod]). *)
From Coq Require Import List Arith ZArith.
From Compute Require Import Base.Ops Base.ListMat.
Import ListNotations.

Section Reduce.
  Context {T : Type} (O : Ops T).
  Local Notation "x + y" := (add O x y). Local Notation "x * y" := (mul O x y).

  (** [sum]: 8-way unrolled; each chunk is summed left to right, then added to [s]. *)
  Fixpoint sum8 (fuel : nat) (s : T) (x : list T) : T :=
    match fuel with
    | 0 => s
    | S fuel' =>
        match x with
        | x0 :: x1 :: x2 :: x3 :: x4 :: x5 :: x6 :: x7 :: x' =>
            sum8 fuel' (s + (x0 + x1 + x2 + x3 + x4 + x5 + x6 + x7)) x'
        | _ => fold_left (add O) x s
        end
    end.
  Definition sum (x : list T) : T := sum8 (S (length x)) (zero O) x.

  (** [dot]: same shape on the element-wise products *)
  Fixpoint dot8 (fuel : nat) (s : T) (x y : list T) : T :=
    match fuel with
    | 0 => s
    | S fuel' =>
        match x, y with
        | x0 :: x1 :: x2 :: x3 :: x4 :: x5 :: x6 :: x7 :: x',
          y0 :: y1 :: y2 :: y3 :: y4 :: y5 :: y6 :: y7 :: y' =>
            dot8 fuel' (s + (x0 * y0 + x1 * y1 + x2 * y2 + x3 * y3
                             + x4 * y4 + x5 * y5 + x6 * y6 + x7 * y7)) x' y'
        | _, _ => fold_left (add O) (map2 (mul O) x y) s
        end
    end.
  (** assumes equal lengths (the callers check) *)
  Definition dot_raw (x y : list T) : T := dot8 (S (length x)) (zero O) x y.
  Definition dot (x y : list T) : option T :=
    if length x =? length y then Some (dot_raw x y) else None.

  Definition norm (x : list T) : T := sqrt O (dot_raw x x).
  (** [iter().product()]: left fold from 1 *)
  Definition prod (x : list T) : T := fold_left (mul O) x (one O).
End Reduce.
