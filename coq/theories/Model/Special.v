(** * Model of [functions/gamma.rs] ([gamma], [beta], [digamma]) and [erf] of [functions/statistical.rs].
    Constants come from Generated/special_consts.v (Tie A). *)
From Coq Require Import List ZArith QArith Floats.
From Compute Require Import Base.Ops Generated.special_consts.
Import ListNotations.

Section Special.
  Context {T : Type} (O : Ops T).
  Local Notation "x + y" := (add O x y). Local Notation "x - y" := (sub O x y).
  Local Notation "x * y" := (mul O x y). Local Notation "x / y" := (div O x y).
  Local Notation "1" := (one O). Local Notation "2" := (two O).
  Local Notation half := (ofQ O (1 # 2)).
  Local Notation lit := (ofLit O).

  (** [for (idx, val) in coeffs { x += val / ((z - 1.) + idx as f64 + 1.) }] *)
  Fixpoint lanczos_sum (z : T) (idx : nat) (cs : list (Q * float)) (x : T) : T :=
    match cs with
    | [] => x
    | c :: cs' => lanczos_sum z (S idx) cs' (x + lit c / ((z - 1) + ofN O idx + 1))
    end.

  (** the [else] branch of [gamma] (z >= 0.5), with the power split in two *)
  Definition gamma_pos (z : T) : T :=
    let x := lanczos_sum z 0 lanczos_coeffs (lit lanczos_c0) in
    let t := (z - 1) + lit lanczos_G - half in
    let p := f2 O Pow t (((z - 1) + half) / 2) in
    sqrt O (2 * pi O) * p * f1 O Exp (neg O t) * p * x.

  Definition gamma (z : T) : T :=
    if ltb O z half then pi O / (f1 O Sin (pi O * z) * gamma_pos (1 - z)) else gamma_pos z.

  Definition beta (a b : T) : T := gamma a * gamma b / gamma (a + b).

  (** asymptotic series of digamma for x >= 6, terms from the generated table:
      [x.ln() - 1./(2.*x) ± num./(den.*x.powi(k)) ...], left to right *)
  Definition digamma_term (x : T) (acc : T) (t : bool * Z * Z * Z) : T :=
    let '(negative, num, den, k) := t in
    let v := ofZ O num / (ofZ O den * powi O x k) in
    if negative then acc - v else acc + v.
  Definition digamma_asym (x : T) : T :=
    fold_left (digamma_term x) digamma_terms (f1 O Ln x - 1 / (2 * x)).

  (** [if x < 6. { digamma(x + 1.) - 1. / x } else { series }]; [None] when the fuel runs out *)
  Fixpoint digamma (fuel : nat) (x : T) : option T :=
    match fuel with
    | 0%nat => None
    | S fuel' =>
        if ltb O x (ofZ O 6) then
          match digamma fuel' (x + 1) with Some d => Some (d - 1 / x) | None => None end
        else Some (digamma_asym x)
    end.

  (** Abramowitz-Stegun 7.1.26 with Horner's rule, for x >= 0 *)
  Definition erf_nonneg (x : T) : T :=
    let t := 1 / (1 + lit erf_p * x) in
    1 - (((((lit erf_a5 * t + lit erf_a4) * t) + lit erf_a3) * t + lit erf_a2) * t + lit erf_a1)
        * t * f1 O Exp (neg O x * x).
  Definition erf (x : T) : T :=
    if leb O (zero O) x then erf_nonneg x else neg O (erf_nonneg (neg O x)).
End Special.
