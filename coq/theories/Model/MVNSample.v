(** * Model of [MVN::sample] and [DistributionND::sample_n] END TO END: on the object built by [MVN::new]
    ([Model/MVNNew.v]: the Cholesky factor is computed by C11's model of [Matrix::cholesky], nothing is recorded),
    [sample] is [&self.mean + self.decomposed_covariance_matrix.dot(Normal::default().sample_n(self.mean.len()))]
    ([Model/Samplers.v: mvn_sample], applied to the cached mean and the data of the cached factor: by construction the
    factor has [mean.len()] rows and columns, [Proofs/C03_compose.v: mvn_new_chol_shape], every carrier).
    [None] of the constructor = panic = [Fail].  No proofs in this file. *)
From Coq Require Import List ZArith Bool Arith.
From Compute Require Import Base.Ops Base.ListMat Base.Rng Model.MatMul Model.Samplers Model.MVN Model.MVNNew.
Import ListNotations.

Section MVNSample.
  Context {T S : Type} (O : Ops T) (src : source S T).

  Definition mvn_obj_sample (fuel : nat) (d : mvn T) (s : S) : res (list T * S) :=
    mvn_sample O src fuel (mvn_mean d) (dat (mvn_chol d)) s.
  Definition mvn_obj_sample_n (fuel : nat) (d : mvn T) (n : nat) (s : S) : res (matrix (T:=T) * S) :=
    mvn_sample_n O src fuel (mvn_mean d) (dat (mvn_chol d)) n s.

  (** [MVN::new(mean, cov).sample()] and [.sample_n(n)] *)
  Definition mvn_sample_full (fuel : nat) (mean : list T) (c : matrix (T:=T)) (s : S) : res (list T * S) :=
    match mvn_new O mean c with Some d => mvn_obj_sample fuel d s | None => Fail end.
  Definition mvn_sample_n_full (fuel : nat) (mean : list T) (c : matrix (T:=T)) (n : nat) (s : S)
    : res (matrix (T:=T) * S) :=
    match mvn_new O mean c with Some d => mvn_obj_sample_n fuel d n s | None => Fail end.
End MVNSample.
