(** * Model of src/validation/resample.rs (bootstrap, jackknife, shuffle, shuffle_two) and of
    DiscreteUniform sampling (src/distributions/discreteuniform.rs, after the D11 repair).

    The resampling functions are written over an ABSTRACT index source: a state type [St] and
    [draw : St -> option (nat * St)], standing for `randomizer.sample() as usize` of the one
    `DiscreteUniform::new(0, n-1)` the call creates ([None] = the call does not return: panic, or a
    sampler that never accepts).  The elements are an arbitrary type [T]: the code only moves them.
    [None] = panic.  The concrete index source (wyrand + Lemire from Base/Rng.v) is [du_draw] below.
    No proofs in this file. *)
From Coq Require Import List Arith Bool ZArith NArith.
From Compute Require Import Base.Ops Base.ListMat Base.Rng.
Import ListNotations.

Fixpoint mapM {A B} (f : A -> option B) (l : list A) : option (list B) :=
  match l with
  | [] => Some []
  | a :: l' => let* b := f a in let* r := mapM f l' in Some (b :: r)
  end.

Section Resample.
  Context {T St : Type}.
  Variable draw : St -> option (nat * St).

  (** [k] successive draws: `sample_n(k)` followed by `as usize` on each *)
  Fixpoint draws (k : nat) (s : St) : option (list nat * St) :=
    match k with
    | 0 => Some ([], s)
    | S k' => let* (i, s1) := draw s in let* (l, s2) := draws k' s1 in Some (i :: l, s2)
    end.

  (** `idxs.into_iter().map(|i| data[i as usize]).collect()`: an index out of bounds panics *)
  Definition gather (data : list T) (idxs : list nat) : option (list T) :=
    mapM (nth_error data) idxs.

  (** `for _ in 0..n_bootstrap { idxs = sample_n(len); push(gather) }` *)
  Fixpoint bootstrap_loop (data : list T) (k : nat) (s : St) : option (list (list T) * St) :=
    match k with
    | 0 => Some ([], s)
    | S k' =>
        let* (idxs, s1) := draws (length data) s in
        let* r := gather data idxs in
        let* (rest, s2) := bootstrap_loop data k' s1 in
        Some (r :: rest, s2)
    end.
  (** `DiscreteUniform::new(0, len - 1)` panics for empty data (upper = -1 < lower) *)
  Definition bootstrap (data : list T) (n_bootstrap : nat) (s : St) : option (list (list T) * St) :=
    let* _ := guard (negb (length data =? 0)) in
    bootstrap_loop data n_bootstrap s.

  (** `back.split_first().unwrap()` *)
  Definition split_first (l : list T) : option (T * list T) :=
    match l with [] => None | x :: r => Some (x, r) end.
  (** `for i in 0..n { (front, back) = split_at(i); (_, rest) = back.split_first().unwrap(); front ++ rest }` *)
  Definition jackknife (data : list T) : option (list (list T)) :=
    mapM (fun i => let front := firstn i data in
                   let back := skipn i data in
                   let* (_, rest) := split_first back in
                   Some (front ++ rest))
         (seq 0 (length data)).

  (** `slice.swap(a, b)`: panics when an index is out of bounds *)
  Definition swap_opt {A} (l : list A) (a b : nat) : option (list A) :=
    match nth_error l a, nth_error l b with
    | Some x, Some y => Some (upd (upd l a y) b x)
    | _, _ => None
    end.

  (** `for _ in 0..len*2 { (a, b) = (sample(), sample()); shuf.swap(a, b) }` *)
  Fixpoint shuffle_loop {A} (k : nat) (l : list A) (s : St) : option (list A * St) :=
    match k with
    | 0 => Some (l, s)
    | S k' =>
        let* (a, s1) := draw s in
        let* (b, s2) := draw s1 in
        let* l' := swap_opt l a b in
        shuffle_loop k' l' s2
    end.
  (** `DiscreteUniform::new(0, len as i64 - 1)` panics for empty data *)
  Definition shuffle (data : list T) (s : St) : option (list T * St) :=
    let* _ := guard (negb (length data =? 0)) in
    shuffle_loop (length data * 2) data s.

  Fixpoint shuffle_two_loop (k : nat) (l1 l2 : list T) (s : St) : option (list T * list T * St) :=
    match k with
    | 0 => Some (l1, l2, s)
    | S k' =>
        let* (a, s1) := draw s in
        let* (b, s2) := draw s1 in
        let* l1' := swap_opt l1 a b in
        let* l2' := swap_opt l2 a b in
        shuffle_two_loop k' l1' l2' s2
    end.
  (** `assert_eq!(arr1.len(), arr2.len())`, then as [shuffle] with both arrays swapped in lock-step *)
  Definition shuffle_two (arr1 arr2 : list T) (s : St) : option (list T * list T * St) :=
    let* _ := guard (length arr1 =? length arr2) in
    let* _ := guard (negb (length arr1 =? 0)) in
    shuffle_two_loop (length arr1 * 2) arr1 arr2 s.
End Resample.

(** ** DiscreteUniform: constructor and (repaired) sampler on the `alea` model *)

(** `DiscreteUniform::new(lower, upper)`: panics if `lower > upper` *)
Definition du_new (lower upper : Z) : option (Z * Z) :=
  if (upper <? lower)%Z then None else Some (lower, upper).

(** `sample()` before the conversion to f64 (repaired code):
    `self.lower + alea::i64_less_than(self.upper - self.lower + 1)`, wrapping i64 arithmetic *)
Definition du_sample_i64 (fuel : nat) (d : Z * Z) (s : rng) : res (Z * rng) :=
  let (lower, upper) := d in
  res_bind (i64_less_than fuel (iwrap (iwrap (upper - lower) + 1)) s)
           (fun p => Ok (iwrap (lower + fst p), snd p)).

(** the ORIGINAL `sample()`: `alea::i64_in_range(self.lower, self.upper)` (kept for the D11 theorem) *)
Definition du_sample_i64_original (fuel : nat) (d : Z * Z) (s : rng) : res (Z * rng) :=
  let (lower, upper) := d in i64_in_range fuel lower upper s.

Section DU.
  Context {T : Type} (O : Ops T).
  (** `sample() -> f64` *)
  Definition du_sample (fuel : nat) (d : Z * Z) (s : rng) : res (T * rng) :=
    res_bind (du_sample_i64 fuel d s) (fun p => Ok (of_i64 O (fst p), snd p)).
  (** `sample_n(k)` *)
  Fixpoint du_sample_n (fuel : nat) (d : Z * Z) (k : nat) (s : rng) : res (list T * rng) :=
    match k with
    | 0 => Ok ([], s)
    | S k' => res_bind (du_sample fuel d s) (fun p =>
              res_bind (du_sample_n fuel d k' (snd p)) (fun q => Ok (fst p :: fst q, snd q)))
    end.
  (** `x as usize` for an f64 (saturating; only values below 2^63 matter: larger ones are out of
      bounds for any slice either way) *)
  Definition as_usize (x : T) : nat := Z.to_nat (truncZ O x).
  (** the index source of the resampling functions: `randomizer.sample() as usize` *)
  Definition du_draw (fuel : nat) (d : Z * Z) (s : rng) : option (nat * rng) :=
    res_opt (res_bind (du_sample fuel d s) (fun p => Ok (as_usize (fst p), snd p))).
End DU.

(** the same index source without the round trip through the float carrier (exact for |z| < 2^53) *)
Definition du_draw_Z (fuel : nat) (d : Z * Z) (s : rng) : option (nat * rng) :=
  res_opt (res_bind (du_sample_i64 fuel d s) (fun p => Ok (Z.to_nat (fst p), snd p))).

(** ** the public functions on the concrete generator (what the correspondence runs) *)
Section Concrete.
  Context {T : Type} (O : Ops T) (fuel : nat).
  Definition randomizer (n : nat) : Z * Z := (0%Z, (Z.of_nat n - 1)%Z).
  Definition bootstrap_rng (data : list T) (nb : nat) (s : rng) :=
    bootstrap (du_draw O fuel (randomizer (length data))) data nb s.
  Definition shuffle_rng (data : list T) (s : rng) :=
    shuffle (du_draw O fuel (randomizer (length data))) data s.
  Definition shuffle_two_rng (a b : list T) (s : rng) :=
    shuffle_two (du_draw O fuel (randomizer (length a))) a b s.
End Concrete.
