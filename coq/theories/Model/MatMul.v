(** * Model of [matmul], [matmul_blocked], [transpose], [xtx] ([linalg/utils.rs]) and of the
    [Dot] trait ([linalg/array/dot.rs]).  Uses only [zero], [add], [mul]. *)
From Coq Require Import List Arith ZArith Bool.
From Compute Require Import Base.Ops Base.ListMat Model.Reduce.
Import ListNotations.

Section MatMul.
  Context {T : Type} (O : Ops T).
  Local Notation z := (zero O).

  (** [transpose(a, nrows)]: [for j in 0..ncols { for i in 0..nrows { push a[i*ncols+j] } }] *)
  Definition transpose (a : list T) (nrows : nat) : option (list T) :=
    let* nc := is_matrix (length a) nrows in
    Some (flatten (transpose_rows z (unflatten a nrows nc) nc)).

  (** [for j in 0..n { c[j] += t * b[j] }] *)
  Definition axpy_row (t : T) (brow crow : list T) : list T :=
    map2 (fun c b => add O c (mul O t b)) crow brow.
  (** [for k in ks { let t = a[k]; for j in 0..n { c[j] += t * b[k][j] } }] *)
  Definition row_times (arow : list T) (B : list (list T)) (ks : list nat) (crow : list T) : list T :=
    fold_left (fun c k => axpy_row (nth k arow z) (nth k B []) c) ks crow.
  (** the i-k-j loop nest *)
  Definition mm_rows (A B : list (list T)) (l n : nat) : list (list T) :=
    map (fun arow => row_times arow B (seq 0 l) (repeat z n)) A.

  (** [for j in lo..hi { c[j] += t * b[j] }] *)
  Definition axpy_range (t : T) (brow crow : list T) (lo hi : nat) : list T :=
    mapi (fun j c => if (lo <=? j) && (j <? hi) then add O c (mul O t (nth j brow z)) else c) crow.
  Definition kblock (l bs kk : nat) : list nat := seq (kk * bs) (Nat.min (kk * bs + bs) l - kk * bs).
  (** the jj-kk-i-k-j nest of [matmul_blocked] *)
  Definition mm_blocked_rows (A B : list (list T)) (l n bs : nat) : list (list T) :=
    fold_left (fun C jj =>
      fold_left (fun C kk =>
        map2 (fun arow crow =>
                fold_left (fun c k => axpy_range (nth k arow z) (nth k B []) c
                                        (jj * bs) (Nat.min (jj * bs + bs) n))
                          (kblock l bs kk) crow) A C)
        (seq 0 (l / bs + 1)) C)
      (seq 0 (n / bs + 1)) (map (fun _ => repeat z n) A).

  (** operands after the optional transposes, as rows, with (m, l, n, rows of op(B)) *)
  Definition operands (a b : list T) (rows_a rows_b : nat) (ta tb : bool)
    : option (list (list T) * list (list T) * nat * nat) :=
    let* cols_a := is_matrix (length a) rows_a in
    let* cols_b := is_matrix (length b) rows_b in
    let A := unflatten a rows_a cols_a in
    let B := unflatten b rows_b cols_b in
    let l := if ta then rows_a else cols_a in
    let n := if tb then rows_b else cols_b in
    let* _ := guard (l =? (if tb then cols_b else rows_b)) in
    Some (if ta then transpose_rows z A cols_a else A,
          if tb then transpose_rows z B cols_b else B, l, n).

  Definition matmul_nt (a b : list T) (rows_a rows_b : nat) (ta tb : bool) : option (list T) :=
    let* (A, B, l, n) := operands a b rows_a rows_b ta tb in
    Some (flatten (mm_rows A B l n)).

  Definition matmul (a b : list T) (rows_a rows_b : nat) (ta tb : bool) : option (list T) :=
    if ta && tb then
      (* A^T.B^T = (B.A)^T ; the [is_matrix] unwraps of both operands come first *)
    let* _ := is_matrix (length a) rows_a in
    let* _ := is_matrix (length b) rows_b in
    let* c := matmul_nt b a rows_b rows_a false false in
      transpose c rows_b
    else matmul_nt a b rows_a rows_b ta tb.

  Definition matmul_blocked (a b : list T) (rows_a rows_b : nat) (ta tb : bool) (bs : nat)
    : option (list T) :=
    let* (A, B, l, n) := operands a b rows_a rows_b ta tb in
    let* _ := guard (negb (bs =? 0)) in          (* [n / bsize]: division by zero panics *)
    Some (flatten (mm_blocked_rows A B l n bs)).

  Definition xtx (x : list T) (k : nat) : option (list T) := matmul x x k k true false.

  (** ** The [Dot] trait *)
  Record matrix := { nr : nat; nc : nat; dat : list T }.
  (** [Matrix::new(data, r as i32, c as i32)] for non-negative [r], [c]:
      [reshape_mut] accepts only [r > 0 && c > 0 && r*c == len]. *)
  Definition matrix_new (d : list T) (r c : nat) : option matrix :=
    let* _ := guard ((0 <? r) && (0 <? c) && (r * c =? length d)) in
    Some {| nr := r; nc := c; dat := d |}.
  Definition to_matrix (v : list T) : option matrix := matrix_new v 1 (length v).
  Definition t_mut (m : matrix) : option matrix :=
    let* d := transpose (dat m) (nr m) in Some {| nr := nc m; nc := nr m; dat := d |}.

  Inductive dotk := DotNN | DotNT | DotTN | DotTT.
  Definition mat_mat_dot (k : dotk) (s o : matrix) : option matrix :=
    match k with
    | DotNN => let* _ := guard (nc s =? nr o) in
    let* d := matmul (dat s) (dat o) (nr s) (nr o) false false in matrix_new d (nr s) (nc o)
    | DotTN => let* _ := guard (nr s =? nr o) in
    let* d := matmul (dat s) (dat o) (nr s) (nr o) true false in matrix_new d (nc s) (nc o)
    | DotNT => let* _ := guard (nc s =? nc o) in
    let* d := matmul (dat s) (dat o) (nr s) (nr o) false true in matrix_new d (nr s) (nr o)
    | DotTT => let* _ := guard (nr s =? nc o) in
    let* d := matmul (dat s) (dat o) (nr s) (nr o) true true in matrix_new d (nc s) (nr o)
    end.
  (** Matrix . Vector: the vector becomes a column; a transpose flag on it is ignored *)
  Definition mat_vec_dot (k : dotk) (s : matrix) (v : list T) : option (list T) :=
    let* o := to_matrix v in let* o := t_mut o in
    let* r := mat_mat_dot (match k with DotNN | DotNT => DotNN | DotTN | DotTT => DotTN end) s o in
    Some (dat r).
  (** Vector . Matrix: the vector becomes a row *)
  Definition vec_mat_dot (k : dotk) (v : list T) (o : matrix) : option (list T) :=
    let* s := to_matrix v in
    let* r := mat_mat_dot (match k with DotNN | DotTN => DotNN | DotNT | DotTT => DotNT end) s o in
    Some (dat r).
  Definition vec_vec_dot (k : dotk) (v w : list T) : option T := dot O v w.
End MatMul.
Arguments nr {T} _. Arguments nc {T} _. Arguments dat {T} _.
