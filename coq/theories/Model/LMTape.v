(** * Model of how [optimize/lm.rs] obtains residuals and Jacobian rows from the [reverse] tape.

    Generic over [Ops T] (instantiated at [FO tbl] by the correspondence check [Corr/C10.v] and at [RO]
    by the theorems of [Proofs/C10_lm_tape.v]).  [e] is the model function [f(params, [[x]])] as a
    program of [Base/Tape.v]; the data are the abscissae [xs] and the observations [ys].

    - [lm_resid]: [y_i - f(params, x_i).val()] for every point (value only).
    - [lm_jac0]: the start of [optimize]: the parameters are leaves of ONE tape shared by all the points;
      per point the code evaluates [f], pushes the node of [y - val] and sweeps from [val]
      ([val.grad().wrt(&params)]).
    - [lm_jac1]: an accepted step: leaves, the [x + d] nodes (the new parameters are NON-leaf nodes), the
      trial evaluations of every point, then per point [f(&new_params)] and the sweep
      ([res.grad().wrt(&new_params)]).
    No proofs in this file. *)
From Coq Require Import List Arith ZArith Bool.
From Compute Require Import Base.Ops Base.ListMat Base.Tape.
Import ListNotations.

Section LMTape.
  Context {T : Type} (O : Ops T).
  Variable e : expr T.

  Section Resid.
    Variable ps : list T.
    Fixpoint lm_resid_go (pts : list (T * T)) : option (list T) :=
      match pts with
      | [] => Some []
      | (x, y) :: pts' =>
          let* v := tape_val O e [[x]] ps in
          let* r := lm_resid_go pts' in Some (sub O y v :: r)
      end.
  End Resid.
  Definition lm_resid (xs ys : list T) (ps : list T) : option (list T) :=
    lm_resid_go ps (combine xs ys).

  Section Rows.
    (** the parameter nodes: leaves ([lm_jac0]) or the [x + d] nodes ([lm_jac1]) *)
    Variable pv : list (var (T:=T)).
    Fixpoint lm_jac0_go (pts : list T) (tp : tape (T:=T)) : option (list (list T)) :=
      match pts with
      | [] => Some []
      | x :: pts' =>
          let* (v, tp1) := eval O e pv [] [[x]] tp in
          let (_, tp2) := push tp1 (snd v) (snd v) (zero O) (m1 O) in
          let row := wrt O (grad O tp2 v) pv in
          let* rows := lm_jac0_go pts' tp2 in Some (row :: rows)
      end.
    Fixpoint lm_trial (pts : list T) (tp : tape (T:=T)) : option (tape (T:=T)) :=
      match pts with
      | [] => Some tp
      | x :: pts' => let* (_, tp') := eval O e pv [] [[x]] tp in lm_trial pts' tp'
      end.
    Fixpoint lm_jac1_go (pts : list T) (tp : tape (T:=T)) : option (list (list T)) :=
      match pts with
      | [] => Some []
      | x :: pts' =>
          let* (v, tp') := eval O e pv [] [[x]] tp in
          let row := wrt O (grad O tp' v) pv in
          let* rows := lm_jac1_go pts' tp' in Some (row :: rows)
      end.
  End Rows.
  Definition lm_jac0 (xs : list T) (ps : list T) : option (list (list T)) :=
    let (pv, tp0) := add_vars O empty_tape ps in lm_jac0_go pv xs tp0.

  Definition lm_jac1 (xs : list T) (ps' : list T) : option (list (list T)) :=
    let (pv, tp0) := add_vars O empty_tape ps' in
    let '(nv, tp1) := fold_left (fun (st : list var * tape) (pv : var) =>
                          let (l, t') := push (snd st) (snd pv) (snd pv) (one O) (zero O) in
                          (fst st ++ [(fst pv, l)], t')) pv ([], tp0) in
    let* tp2 := lm_trial nv xs tp1 in lm_jac1_go nv xs tp2.
End LMTape.
