(** * Model of [predict/glms/glm.rs] and of the deviance tables of [predict/glms/families.rs]
    (the repaired code: ridge term [alpha * coef[i]], intercept unpenalised in gradient and
    information; Gaussian deviance = residual sum of squares; penalised deviance = deviance +
    [alpha * |coef[1..]|^2]; with prior weights the deviance of a fit is [sum_i w_i d(y_i, mu_i)],
    the unit deviance [d] being [ExponentialFamily::deviance] of the single observation
    ([GLM::weighted_deviance], [GLM::weighted_penalized_deviance]); unit weights take the family's
    deviance of the whole sample, evaluated as before).

    The element-wise family tables ([variance1], [inv_link1], [d_inv_link1], [has_dispersion]) are
    regenerated from the source (Generated/glm_families.v, Tie A).

    The inner linear routines are PARAMETERS of the model, like libm:
    [solve A b] stands for [compute::linalg::solve(&A, &b)] and [inv A] for
    [compute::linalg::invert_matrix(&A)] (flat row-major; [None] = panic).  The correspondence
    answers them from the recorded calls of the crate's own functions; the theorems take their
    defining equations as hypotheses (to be discharged by C01).

    Loops that accumulate into independent cells ([dbeta[i_p] -= ..] inside the [i_n] loop) are
    written per cell: every cell sees the same sequence of operations as in the Rust loop nest. *)
From Coq Require Import List Arith ZArith QArith Bool.
From Compute Require Import Base.Ops Base.ListMat Model.Reduce Model.MatMul Generated.glm_families.
Import ListNotations.
Local Close Scope Q_scope.

Section GLM.
  Context {T : Type} (O : Ops T).
  Context (solve : list T -> list T -> option (list T)) (inv : list T -> option (list T)).
  Local Notation z := (zero O).
  Local Notation o1 := (one O).

  (** [f64::EPSILON] = 2^-52 *)
  Definition f64_eps : T := ofQ O (1 # 4503599627370496)%Q.

  (** element-wise binary kernels ([vadd], [vsub], ...): [assert_eq!(v1.len(), v2.len())] *)
  Definition vbin (f : T -> T -> T) (a b : list T) : option (list T) :=
    if length a =? length b then Some (map2 f a b) else None.

  (** ** family tables on slices *)
  Definition variance (f : family) (mu : list T) : list T := map (variance1 O f) mu.
  Definition inv_link (f : family) (eta : list T) : list T := map (inv_link1 O f) eta.
  (** Gaussian: [Vector::ones(eta.len())]; every other arm reads [mu] only *)
  Definition d_inv_link (f : family) (eta mu : list T) : list T :=
    match f with
    | Gaussian => repeat o1 (length eta)
    | _ => map (d_inv_link1 O f z) mu
    end.

  (** [Iterator::sum::<f64>()] folds from -0.0 *)
  Definition isum (l : list T) : T := fold_left (add O) l (neg O z).
  Definition ylogy (y : T) : T := if eqb O y z then z else mul O y (ln_ O y).

  Definition dev_bernoulli (y m : T) : T :=
    add O (mul O y (ln_ O m)) (mul O (sub O o1 y) (ln_ O (sub O o1 m))).
  Definition dev_poisson (y m : T) : T :=
    add O (sub O (sub O m y) (mul O y (ln_ O m))) (ylogy y).
  Definition dev_gamma (y m : T) : T :=
    sub O (div O (sub O y m) m) (ln_ O (div O y m)).

  Definition deviance (f : family) (y mu : list T) : option T :=
    if length y =? length mu then
      Some match f with
           | Gaussian => let r := map2 (sub O) y mu in dot_raw O r r
           | Bernoulli => mul O (isum (map2 dev_bernoulli y mu)) (ofZ O (-2))
           | QuasiPoisson | Poisson => mul O (two O) (isum (map2 dev_poisson y mu))
           | Gamma | Exponential => mul O (two O) (isum (map2 dev_gamma y mu))
           end
    else None.

  (** [deviance + alpha * dot(&coef[1..], &coef[1..])]; [&coef[1..]] panics on an empty slice *)
  Definition penalized_deviance (f : family) (y mu : list T) (alpha : T) (coef : list T) : option T :=
    let* d := deviance f y mu in
    match coef with
    | [] => None
    | _ :: c => Some (add O d (mul O alpha (dot_raw O c c)))
    end.

  (** ** deviance of a fit with prior weights ([GLM::weighted_deviance])
      the unit deviance as the code obtains it: [self.family.deviance(&y[i..i + 1], &mu[i..i + 1])],
      the family's deviance of ONE observation (two slices of length 1: the length assertion holds) *)
  Definition unit_dev (f : family) (yi mi : T) : T :=
    match deviance f [yi] [mi] with Some d => d | None => z end.
  (** [weights.iter().all(|&w| w == 1.)] *)
  Definition unit_weights (w : list T) : bool := forallb (fun wi => eqb O wi o1) w.
  (** unit weights: [self.family.deviance(y, mu)], the same call as without weights;
      otherwise [(0..y.len()).map(|i| weights[i] * unit deviance of observation i).sum()]
      ([weights[i]], [&mu[i..i + 1]] panic when out of bounds) *)
  Definition weighted_deviance (f : family) (y mu w : list T) : option T :=
    if unit_weights w then deviance f y mu
    else if (length y <=? length mu) && (length y <=? length w) then
      Some (isum (map (fun i => mul O (nth i w z) (unit_dev f (nth i y z) (nth i mu z))) (seq 0 (length y))))
    else None.
  (** [weighted_deviance + alpha * dot(&coef[1..], &coef[1..])]; [&coef[1..]] panics on an empty slice *)
  Definition weighted_penalized_deviance (f : family) (y mu w : list T) (alpha : T) (coef : list T) : option T :=
    let* d := weighted_deviance f y mu w in
    match coef with
    | [] => None
    | _ :: c => Some (add O d (mul O alpha (dot_raw O c c)))
    end.

  (** ** gradient and information *)
  (** [is_design(m, nrows)]: [is_matrix(..).unwrap()], then every [m[i*ncols]] within EPSILON of 1
      (a NaN entry passes the test [|m - 1| > EPSILON]) *)
  Definition is_design (m : list T) (nrows : nat) : option bool :=
    let* nc := is_matrix (length m) nrows in
    let* _ := guard (negb (nc =? 0)) in           (* m[0] out of bounds *)
    Some (forallb (fun i => negb (ltb O f64_eps (abs O (sub O (nth (i * nc) m z) o1)))) (seq 0 nrows)).

  (** [weights * (y - mu) * (dmu / var)] *)
  Definition working_residuals (y mu dmu var w : list T) : option (list T) :=
    let* r := vbin (sub O) y mu in
    let* wr := vbin (mul O) w r in
    let* q := vbin (div O) dmu var in
    vbin (mul O) wr q.

  (** [dbeta[i_p] -= x[i_n*p + i_p] * working_residuals[i_n]], [i_n] ascending, from 0 *)
  Definition dbeta_cell (x wr : list T) (n p j : nat) : T :=
    fold_left (fun d i => sub O d (mul O (nth (i * p + j) x z) (nth i wr z))) (seq 0 n) z.

  Definition compute_dbeta (x y mu dmu var w : list T) : option (list T) :=
    let n := length y in
    let* p := is_matrix (length x) n in
    let* wr := working_residuals y mu dmu var w in
    Some (map (dbeta_cell x wr n p) (seq 0 p)).

  (** [(weights * dmu) * (dmu / var)]: the quotient first, as in the working residuals (repaired code:
      [dmu * dmu] overflowed for a log-link mean above ~1e154 and the infinite information matrix turned
      the Newton step into 0, which the stopping rule took for convergence at the starting value) *)
  Definition working_weights (dmu var w : list T) : option (list T) :=
    let* wd := vbin (mul O) w dmu in
    let* q := vbin (div O) dmu var in
    vbin (mul O) wd q.

  (** [weighted_x[i_n*p + i_p] *= working_weights[i_n]] *)
  Definition weighted_x (x ww : list T) (p : nat) : list T :=
    mapi (fun k v => mul O v (nth (k / p) ww z)) x.

  Definition compute_ddbeta (x dmu var w : list T) : option (list T) :=
    let n := length dmu in
    let* p := is_matrix (length x) n in
    let* ww := working_weights dmu var w in
    matmul O x (weighted_x x ww p) n n true false.

  (** [for i in 1..coef.len() { dbeta[i] += alpha * coef[i] }] *)
  Definition apply_dbeta_penalty (alpha : T) (dbeta coef : list T) : list T :=
    mapi (fun i d => if 1 <=? i then add O d (mul O alpha (nth i coef z)) else d) dbeta.
  (** [for i in 1..p { ddbeta[i*p + i] += alpha }] *)
  Definition apply_ddbeta_penalty (alpha : T) (ddbeta : list T) (p : nat) : list T :=
    mapi (fun k v => if (1 <=? k / p) && (k / p =? k mod p) then add O v alpha else v) ddbeta.

  (** [has_converged]: [false] when the previous loss is infinite (initially: no previous loss) *)
  Definition is_inf (x : T) : bool := eqb O x x && negb (eqb O (sub O x x) (sub O x x)).
  Definition has_converged (loss : T) (prev : option T) (tol : T) : bool :=
    match prev with
    | None => false
    | Some lp => if is_inf lp then false else ltb O (div O (abs O (sub O loss lp)) lp) tol
    end.

  (** ** the scoring loop *)
  Section Fit.
    Context (f : family) (alpha tol : T) (x y : list T) (n p : nat) (w : list T) (off : option (list T)).

    (** eta -> mu, dmu, var at the current coefficients *)
    Definition linear_predictor (coef : list T) : option (list T) :=
      let* eta := matmul O x coef n p false false in
      match off with
      | None => Some eta
      | Some o => vbin (add O) eta o
      end.

    Record quantities := { q_mu : list T; q_dmu : list T; q_var : list T }.
    Definition at_coef (coef : list T) : option quantities :=
      let* eta := linear_predictor coef in
      let mu := inv_link f eta in
      Some {| q_mu := mu; q_dmu := d_inv_link f eta mu; q_var := variance f mu |}.

    (** penalised gradient and information handed to [solve] *)
    Definition newton_system (coef : list T) (q : quantities) : option (list T * list T) :=
      let* db := compute_dbeta x y (q_mu q) (q_dmu q) (q_var q) w in
      let* dd := compute_ddbeta x (q_dmu q) (q_var q) w in
      if ltb O z alpha then Some (apply_ddbeta_penalty alpha dd p, apply_dbeta_penalty alpha db coef)
      else Some (dd, db).

    (** one pass of the loop body: new coefficients, new penalised deviance, convergence flag *)
    Definition step (coef : list T) (pdev : option T) : option (list T * T * bool * quantities) :=
      let* q := at_coef coef in
      let* (a, b) := newton_system coef q in
      let* s := solve a b in
      let* coef' := vbin (sub O) coef s in
      let* pd := weighted_penalized_deviance f y (q_mu q) w alpha coef' in
      Some (coef', pd, has_converged pd pdev tol, q).

    (** [fuel] = iterations still allowed after this one ([max_iter - 1] at the start; the body runs at
        least once).  Result: (converged at the last executed iteration, coefficients, last quantities) *)
    Fixpoint fit_loop (fuel : nat) (coef : list T) (pdev : option T) : option (bool * list T * quantities) :=
      let* (coef', pd, conv, q) := step coef pdev in
      match fuel with
      | 0 => Some (conv, coef', q)
      | S fuel' => if conv then Some (true, coef', q) else fit_loop fuel' coef' (Some pd)
      end.
  End Fit.

  Record fitted := {
    f_ok : bool;               (* [Ok(())] / [Err("reached maximum number of iterations ...")] *)
    f_coef : list T; f_dev : T; f_info : list T; f_n : Z; f_p : nat }.

  (** [fit(x, y, max_iter)] for [start = None]; [start = Some (coef_k, pdev_k)] resumes the loop from an
      observed state (step-mode correspondence) *)
  Definition fit_from (f : family) (alpha tol : T) (w off : option (list T)) (x y : list T)
             (max_iter : nat) (start : option (list T * T)) : option fitted :=
    let n := length y in
    let* p := is_matrix (length x) n in
    let* d := is_design x n in
    let* _ := guard d in
    let* wts := match w with
                | Some w => let* _ := guard (length w =? n) in Some w
                | None => Some (repeat o1 n)
                end in
    let '(coef0, pdev0) := match start with
                           | None => (div O (sum O y) (ofN O n) :: repeat z (p - 1), None)
                           | Some (c, d) => (c, Some d)
                           end in
    let* (conv, coef, q) := fit_loop f alpha tol x y n p wts off (max_iter - 1) coef0 pdev0 in
    let* dev := weighted_deviance f y (q_mu q) wts in
    let* info := compute_ddbeta x (q_dmu q) (q_var q) wts in
    Some {| f_ok := conv; f_coef := coef; f_dev := dev; f_info := info;
            f_n := Z.max 0 (truncZ O (f1 O Round (sum O wts))); f_p := p |}.

  Definition fit f alpha tol w off x y max_iter := fit_from f alpha tol w off x y max_iter None.

  (** ** accessors *)
  Definition aic (ft : fitted) : T := add O (f_dev ft) (mul O (two O) (ofN O (f_p ft))).
  Definition bic (ft : fitted) : T :=
    add O (f_dev ft) (mul O (ofN O (f_p ft)) (ln_ O (ofZ O (f_n ft)))).
  (** [(n - p) as f64] on [usize]: a debug build panics when [n < p] *)
  Definition dispersion (f : family) (ft : fitted) : option T :=
    if has_dispersion f then
      if (f_n ft <? Z.of_nat (f_p ft))%Z then None
      else Some (div O (f_dev ft) (ofZ O (f_n ft - Z.of_nat (f_p ft))))
    else Some o1.
  Definition coef_covariance_matrix (f : family) (ft : fitted) : option (list T) :=
    let* disp := dispersion f ft in
    let* iv := inv (f_info ft) in
    Some (map (mul O disp) iv).
  (** [diag]: [is_square] then [a[i*n + i]] *)
  Definition diag (a : list T) : option (list T) :=
    let n := Nat.sqrt (length a) in
    if n * n =? length a then Some (map (fun i => nth (i * n + i) a z) (seq 0 n)) else None.
  Definition coef_standard_error (f : family) (ft : fitted) : option (list T) :=
    let* c := coef_covariance_matrix f ft in
    let* d := diag c in
    Some (map (sqrt O) d).
  Definition predict (f : family) (off : option (list T)) (ft : fitted) (xnew : list T) : option (list T) :=
    let* n := is_matrix (length xnew) (f_p ft) in
    let* d := is_design xnew n in
    let* _ := guard d in
    let* r := matmul O xnew (f_coef ft) n (f_p ft) false false in
    match off with
    | Some o => let* e := vbin (add O) r o in Some (inv_link f e)
    | None => Some (inv_link f r)
    end.
End GLM.

Arguments q_mu {T} _. Arguments q_dmu {T} _. Arguments q_var {T} _.
Arguments f_ok {T} _. Arguments f_coef {T} _. Arguments f_dev {T} _. Arguments f_info {T} _.
Arguments f_n {T} _. Arguments f_p {T} _.
