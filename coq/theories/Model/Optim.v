(** * Model of [optimize/adam.rs], [optimize/sgd.rs], [optimize/lm.rs] (after the D22 repair).

    The optimisers are written over an abstract gradient function (Section variable): the Rust code
    obtains it from the [reverse] tape ([Base/Tape.v] is its executable model, plugged in by
    [Corr/C10.v]); the theorems hold for every gradient function.  Fuel = [maxsteps].
    No proofs in this file. *)
From Coq Require Import List Arith ZArith QArith Bool.
From Compute Require Import Base.Ops Base.ListMat Model.Reduce Model.MatMul.
Import ListNotations.
Local Close Scope Q_scope.

Section Optim.
  Context {T : Type} (O : Ops T).
  Local Notation c0 := (zero O). Local Notation c1 := (one O).
  Local Notation "x + y" := (add O x y). Local Notation "x * y" := (mul O x y).
  Local Notation "x / y" := (div O x y). Local Notation "- x" := (neg O x).
  Local Notation "x '-.' y" := (sub O x y) (at level 50, left associativity).

  (** [f64::NAN], [f64::EPSILON] = 2^-52 *)
  Definition nan_ : T := c0 / c0.
  Definition feps : T := ofQ O (1 # 4503599627370496)%Q.
  (** [statistics::max]: [fold(NAN, f64::max)] *)
  Definition vmax (l : list T) : T := fold_left (fmax O) l nan_.

  (** [approx_eq::rel_diff] (what the code used before the repair; kept for [C10_rel_diff_sign_blind]) *)
  Definition rel_diff (x y : T) : T :=
    if eqb O x c0 then abs O y else if eqb O y c0 then abs O x
    else let ax := abs O x in let ay := abs O y in
         abs O (ax -. ay) / fold_left (fmin O) [ax; ay] nan_.
  (** [optimize::rel_change] (the repair): signed difference over the smaller magnitude *)
  Definition rel_change (x y : T) : T :=
    if eqb O x c0 then abs O y else if eqb O y c0 then abs O x
    else abs O (x -. y) / fmin O (abs O x) (abs O y).
  (** [max(&(0..n).map(|i| rel_change(params[i], prev[i]))) < f64::EPSILON] *)
  Definition converged (new old : list T) : bool := ltb O (vmax (map2 rel_change new old)) feps.

  (** ** Adam *)
  Record adam_hp := { a_step : T; a_b1 : T; a_b2 : T; a_eps : T }.
  Section Adam.
    Variable grad : list T -> list T.
    Variable h : adam_hp.
    (** the [for p in 0..param_len] loop body; [Var - f64] is [val + (-rhs)] *)
    Definition adam_coord (t : nat) (p m v g : T) : T * T * T :=
      let m' := a_b1 h * m + (c1 -. a_b1 h) * g in
      let v' := a_b2 h * v + (c1 -. a_b2 h) * g * g in
      let mhat := m' / (c1 -. powi O (a_b1 h) (Z.of_nat t)) in
      let vhat := v' / (c1 -. powi O (a_b2 h) (Z.of_nat t)) in
      (p + - (a_step h * mhat / (sqrt O vhat + a_eps h)), m', v').
    Fixpoint adam_coords (t : nat) (ps ms vs gs : list T) : list T * list T * list T :=
      match ps, ms, vs, gs with
      | p :: ps', m :: ms', v :: vs', g :: gs' =>
          let '(p1, m1, v1) := adam_coord t p m v g in
          let '(pr, mr, vr) := adam_coords t ps' ms' vs' gs' in
          (p1 :: pr, m1 :: mr, v1 :: vr)
      | _, _, _, _ => ([], [], [])
      end.
    (** [while t < maxsteps && !converged { t += 1; ... }] *)
    Fixpoint adam_loop (fuel t : nat) (ps ms vs : list T) : list T :=
      match fuel with
      | 0 => ps
      | S fuel' =>
          let t' := S t in
          let '(ps', ms', vs') := adam_coords t' ps ms vs (grad ps) in
          if converged ps' ps then ps' else adam_loop fuel' t' ps' ms' vs'
      end.
    Definition adam (maxsteps : nat) (ps : list T) : list T :=
      adam_loop maxsteps 0 ps (repeat c0 (length ps)) (repeat c0 (length ps)).
  End Adam.

  (** ** SGD with (Nesterov) momentum *)
  Record sgd_hp := { s_step : T; s_mom : T; s_nesterov : bool }.
  Section SGD.
    (** [grad] is evaluated at the parameters (plain / momentum) or at the look-ahead point (Nesterov) *)
    Variable grad : list T -> list T.
    Variable h : sgd_hp.
    Definition lookahead (ps us : list T) : list T := map2 (fun p u => p + - (s_mom h * u)) ps us.
    Definition sgd_point (ps us : list T) : list T := if s_nesterov h then lookahead ps us else ps.
    Fixpoint sgd_coords (ps us gs : list T) : list T * list T :=
      match ps, us, gs with
      | p :: ps', u :: us', g :: gs' =>
          let u1 := s_mom h * u + s_step h * g in
          let '(pr, ur) := sgd_coords ps' us' gs' in
          ((p + - u1) :: pr, u1 :: ur)
      | _, _, _ => ([], [])
      end.
    Fixpoint sgd_loop (fuel : nat) (ps us : list T) : list T :=
      match fuel with
      | 0 => ps
      | S fuel' =>
          let '(ps', us') := sgd_coords ps us (grad (sgd_point ps us)) in
          if converged ps' ps then ps' else sgd_loop fuel' ps' us'
      end.
    Definition sgd (maxsteps : nat) (ps : list T) : list T :=
      sgd_loop maxsteps ps (repeat c0 (length ps)).
  End SGD.

  (** ** Levenberg-Marquardt *)
  Record lm_hp := { l_eps1 : T; l_eps2 : T; l_tau : T }.
  Record lm_state := { lm_ps : list T; lm_res : list T; lm_jtj : matrix (T:=T); lm_jtr : list T;
                       lm_mu : T; lm_nu : T; lm_stop : bool }.
  Section LM.
    (** residual vector [y_i - f(p, x_i)]; Jacobian rows of [f] at the start point ([jac0]) and at an
        accepted point ([jac1]: same mathematical object, the tape differs); the linear solves
        [damped.solve(jtr)] and [jtj.inv()] (LU in the crate; abstract here) *)
    Variable resid : list T -> option (list T).
    Variable jac0 jac1 : list T -> option (list (list T)).
    Variable solve : matrix (T:=T) -> list T -> option (list T).
    Variable inv : matrix (T:=T) -> option (list T).
    Variable h : lm_hp.

    Definition half : T := ofQ O (1 # 2)%Q.
    Definition third : T := c1 / ofZ O 3.
    (** [jtr.inf_norm()] of the 1 x p matrix: the single row's sum of absolute values *)
    Definition inf_norm_row (v : list T) : T := vmax [sum O (map (abs O) v)].
    (** [for i in 0..p { damped[[i,i]] += mu * jtj[[i,i]] }] *)
    Definition damp (m : matrix (T:=T)) (mu : T) : matrix (T:=T) :=
      let p := nc m in
      {| nr := nr m; nc := nc m;
         dat := mapi (fun k x => if (k / p =? k mod p)%nat then x + mu * x else x) (dat m) |}.
    (** [Matrix::new(rows.flatten(), n, p)], [J^T J], [J^T r] *)
    Definition normal_eqs (J : list (list T)) (p : nat) (r : list T)
      : option (matrix (T:=T) * list T) :=
      let* Jm := matrix_new (flatten J) (length J) p in
      let* jtj := mat_mat_dot O DotTN Jm Jm in
      let* jtr := mat_vec_dot O DotTN Jm r in
      let* _ := to_matrix jtr in
      Some (jtj, jtr).

    Definition lm_init (ps : list T) : option lm_state :=
      let* r := resid ps in
      let* J := jac0 ps in
      let* (jtj, jtr) := normal_eqs J (length ps) r in
      Some {| lm_ps := ps; lm_res := r; lm_jtj := jtj; lm_jtr := jtr;
              lm_mu := l_tau h; lm_nu := two O;
              lm_stop := leb O (inf_norm_row jtr) (l_eps1 h) |}.

    Definition lm_step (st : lm_state) : option lm_state :=
      let ps := lm_ps st in let mu := lm_mu st in let jtr := lm_jtr st in
      let* delta := solve (damp (lm_jtj st) mu) jtr in
      if leb O (norm O delta) (l_eps2 h * (norm O ps + l_eps2 h)) then
        Some {| lm_ps := ps; lm_res := lm_res st; lm_jtj := lm_jtj st; lm_jtr := jtr;
                lm_mu := mu; lm_nu := lm_nu st; lm_stop := true |}
      else
        let ps' := map2 (add O) ps delta in
        let* r' := resid ps' in
        let rn := dot_raw O (lm_res st) (lm_res st) in
        let rn' := dot_raw O r' r' in
        let* pred := dot O delta (map2 (add O) (map (mul O mu) delta) jtr) in
        let rho := (rn -. rn') / (half * pred) in
        if ltb O c0 rho then
          let* J := jac1 ps' in
          let* (jtj', jtr') := normal_eqs J (length ps) r' in
          let stop := leb O (inf_norm_row jtr') (l_eps1 h) in
          Some {| lm_ps := ps'; lm_res := r'; lm_jtj := jtj'; lm_jtr := jtr';
                  lm_mu := if stop then mu
                           else mu * fmax O third (c1 -. powi O (two O * rho -. c1) 3);
                  lm_nu := if stop then lm_nu st else two O; lm_stop := stop |}
        else
          Some {| lm_ps := ps; lm_res := lm_res st; lm_jtj := lm_jtj st; lm_jtr := jtr;
                  lm_mu := mu * lm_nu st; lm_nu := lm_nu st * two O; lm_stop := false |}.

    (** [loop { step += 1; if step > maxsteps || stop { break } ... }] *)
    Fixpoint lm_loop (fuel : nat) (st : lm_state) : option lm_state :=
      match fuel with
      | 0 => Some st
      | S fuel' => if lm_stop st then Some st
                   else let* st' := lm_step st in lm_loop fuel' st'
      end.

    (** [(params, res.t_dot(&res) / (n - p) as f64 * jtj.inv())]; [n - p] on [usize]: the model panics
        on underflow (debug-build semantics; see REPORT, finding lm-fewer-points-than-parameters) *)
    Definition lm_finish (st : lm_state) : option (list T * list T) :=
      let n := length (lm_res st) in let p := length (lm_ps st) in
      let* _ := guard (p <=? n)%nat in
      let* _ := guard (nr (lm_jtj st) =? nc (lm_jtj st))%nat in
      let* ji := inv (lm_jtj st) in
      let s := dot_raw O (lm_res st) (lm_res st) / ofZ O (Z.of_nat (n - p)) in
      Some (lm_ps st, map (mul O s) ji).

    Definition lm (maxsteps : nat) (ps : list T) : option (list T * list T) :=
      let* st0 := lm_init ps in
      let* st := lm_loop maxsteps st0 in
      lm_finish st.
  End LM.
End Optim.
Arguments a_step {T} _. Arguments a_b1 {T} _. Arguments a_b2 {T} _. Arguments a_eps {T} _.
Arguments s_step {T} _. Arguments s_mom {T} _. Arguments s_nesterov {T} _.
Arguments l_eps1 {T} _. Arguments l_eps2 {T} _. Arguments l_tau {T} _.
Arguments lm_ps {T} _. Arguments lm_res {T} _. Arguments lm_jtj {T} _. Arguments lm_jtr {T} _.
Arguments lm_mu {T} _. Arguments lm_nu {T} _. Arguments lm_stop {T} _.
