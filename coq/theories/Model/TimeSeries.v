(** * Model of [timeseries/functions.rs] ([acovf], [acf], [difference]) and of
    [timeseries/autoregressive.rs] ([AR::new], [AR::fit], [AR::predict_one], [AR::predict]),
    after the repairs d8ec35c (forecasts run on the mean-centred history) and 40ccb87
    (short histories meet the most recent lags).

    The inner linear solve of [AR::fit] ([invert_matrix]) is a PARAMETER [inv] of the model
    (flat row-major matrix in, inverse out, [None] = panic), treated like a libm call: the
    correspondence instantiates it by the recorded (argument, result) pair of the real call, the
    theorems take its correctness as a Section hypothesis.  No proofs in this file. *)
From Coq Require Import List Arith ZArith Bool.
From Compute Require Import Base.Ops Base.ListMat Model.Reduce Model.MatMul.
Import ListNotations.

Section TimeSeries.
  Context {T : Type} (O : Ops T).
  Local Notation z := (zero O).

  (** [statistics::mean]: the 8-way unrolled [sum] divided by [len as f64] *)
  Definition ts_mean (x : list T) : T := div O (sum O x) (ofN O (length x)).

  (** [Iterator::sum::<f64>()] folds left to right from -0.0 *)
  Definition isum (l : list T) : T := fold_left (add O) l (neg O z).

  (** the terms [(ts[i] - m) * (ts[i - k] - m)] for [i in k..n], in order: position [j] pairs
      [ts[k + j]] with [ts[j]] *)
  Definition lagprods (x : list T) (m : T) (k : nat) : list T :=
    map2 (fun a b => mul O (sub O a m) (sub O b m)) (skipn k x) x.

  (** [(k.abs() as usize..n)]: empty when [|k| >= n] (the guard also keeps huge lags from being
      turned into unary numbers) *)
  Definition lagsum (x : list T) (m : T) (k : Z) : T :=
    if (Z.of_nat (length x) <=? Z.abs k)%Z then isum [] else isum (lagprods x m (Z.abs_nat k)).

  (** [1. / n as f64 * (..).sum::<f64>()] *)
  Definition acovf (x : list T) (k : Z) : T :=
    mul O (div O (one O) (ofN O (length x))) (lagsum x (ts_mean x) k).

  Definition acf (x : list T) (k : Z) : T :=
    let m := ts_mean x in
    let numerator := mul O (div O (one O) (ofN O (length x))) (lagsum x m k) in
    let denominator := div O (isum (map (fun a => powi O (sub O a m) 2) x)) (ofN O (length x)) in
    div O numerator denominator.

  (** [(0..v.len() - 1).map(|i| v[i + 1] - v[i])]; the empty vector panics ([0 - 1] on [usize]) *)
  Definition difference (v : list T) : option (list T) :=
    match v with
    | [] => None
    | _ :: v' => Some (map2 (sub O) v' v)
    end.

  (** [toeplitz(x)]: [v[i*n + j] = x[|i - j|]] *)
  Definition absdiff (i j : nat) : nat := (i - j) + (j - i).
  Definition toeplitz (x : list T) : list T :=
    let n := length x in
    flat_map (fun i => map (fun j => nth (absdiff i j) x z) (seq 0 n)) (seq 0 n).

  Section Fit.
    (** the crate's [invert_matrix] (C01), not modelled here *)
    Context (inv : list T -> option (list T)).

    Definition adjusted (data : list T) : list T :=
      let mu := ts_mean data in map (fun v => sub O v mu) data.
    (** [(0..=p).map(|t| acf(&adjusted, t as i32))] *)
    Definition autocorrs (p : nat) (data : list T) : list T :=
      map (fun t => acf (adjusted data) (Z.of_nat t)) (seq 0 (S p)).
    (** the argument of the inner call: [toeplitz(&autocorrelations[..n])] with [n = p] *)
    Definition fit_inv_arg (p : nat) (data : list T) : list T :=
      toeplitz (firstn p (autocorrs p data)).

    (** [fit]: returns the stored state (coeffs as stored, i.e. reversed: [coeffs[p-1]] is phi_1; intercept) *)
    Definition ar_fit (p : nat) (data : list T) : option (list T * T) :=
      let mu := ts_mean data in
      let r := tl (autocorrs p data) in
      let* rinv := inv (fit_inv_arg p data) in
      let* c := matmul O rinv r p p false false in
      Some (rev c, mu).

    (** [AR::new(p)] (asserts [p > 0]) followed by [fit] *)
    Definition ar_new_fit (p : nat) (data : list T) : option (list T * T) :=
      let* _ := guard (0 <? p) in ar_fit p data.
  End Fit.

  (** [predict_one]: the window (the last [len coeffs] observations, or all of them against the
      LAST [n] stored coefficients), centred by the intercept, dotted with the coefficients,
      plus the intercept *)
  Definition predict_one (coeffs : list T) (mu : T) (data : list T) : option T :=
    let n := length data in
    let cl := length coeffs in
    let '(history, cs) := if cl <=? n then (skipn (n - cl) data, coeffs)
                          else (data, skipn (cl - n) coeffs) in
    let* d := dot O (map (fun v => sub O v mu) history) cs in
    Some (add O d mu).

  (** the loop [for i in p..d.len() { d[i] = predict_one(&d[..i]) }]: [d] is the prefix written so far *)
  Fixpoint predict_loop (coeffs : list T) (mu : T) (h : nat) (d : list T) : option (list T) :=
    match h with
    | 0 => Some d
    | S h' => let* f := predict_one coeffs mu d in predict_loop coeffs mu h' (d ++ [f])
    end.

  (** [predict(data, n)]: panics when the history is shorter than the coefficient vector *)
  Definition predict (coeffs : list T) (mu : T) (data : list T) (n : nat) : option (list T) :=
    let cl := length coeffs in
    let* _ := guard (cl <=? length data) in
    let* d := predict_loop coeffs mu n (skipn (length data - cl) data) in
    Some (skipn (length d - n) d).
End TimeSeries.
