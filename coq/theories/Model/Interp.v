(** * Model of src/functions/interpolate.rs (after the repair of D29 and of the extrapolation formulas).
    [interp_unchecked] = interp1d_linear_unchecked, [interp_checked] = interp1d_linear.
    [None] = panic.  No proofs in this file. *)
From Coq Require Import List Arith Bool.
From Compute Require Import Base.Ops Base.ListMat.
Import ListNotations.

(** ExtrapolationMode *)
Inductive mode (T : Type) := MPanic | MFill (left right : T) | MExtrap.
Arguments MPanic {T}. Arguments MFill {T} _ _. Arguments MExtrap {T}.

Section Interp.
  Context {T : Type} (O : Ops T).
  Local Notation "l '[[' i ']]'" := (nth i l (zero O)) (at level 9).

  (** [let mut idx = 0; for j in 0..m { if x[j] > t { break; } idx += 1; }] on the suffix [xs] of x
      (m = n - 1 at the call: the scan never looks at the last abscissa) *)
  Fixpoint scan (xs : list T) (m : nat) (t : T) : nat :=
    match m, xs with
    | S m', xj :: xs' => if ltb O t xj then 0 else S (scan xs' m' t)
    | _, _ => 0
    end.

  (** the convex-combination formula on the segment (idx-1, idx) *)
  Definition segment_value (x y : list T) (idx : nat) (t : T) : T :=
    let ratio := div O (sub O t x[[idx - 1]]) (sub O x[[idx]] x[[idx - 1]]) in
    add O (mul O ratio y[[idx]]) (mul O (sub O (one O) ratio) y[[idx - 1]]).

  (** the two extrapolation formulas (after the repair: the end segment's line is continued through the
      distance ratio, not through the slope, which overflowed / underflowed for steep / flat end segments) *)
  Definition extrap_left (x y : list T) (t : T) : T :=
    let ratio := div O (sub O x[[0]] t) (sub O x[[1]] x[[0]]) in
    sub O y[[0]] (mul O ratio (sub O y[[1]] y[[0]])).

  Definition extrap_right (x y : list T) (n : nat) (t : T) : T :=
    let ratio := div O (sub O t x[[n - 1]]) (sub O x[[n - 1]] x[[n - 2]]) in
    add O y[[n - 1]] (mul O ratio (sub O y[[n - 1]] y[[n - 2]])).

  (** one iteration of the loop over the targets; [n = x.len() = y.len()].
      n = 0: `n - 1` underflows (debug: overflow panic; release: the scan indexes x[0]) — a panic either way.
      n = 1: the scan is empty, idx = 0, and the left extrapolation indexes y[1] — a panic. *)
  Definition interp1 (x y : list T) (n : nat) (m : mode T) (t : T) : option T :=
    match n with
    | 0 => None
    | S _ =>
      let idx := scan x (n - 1) t in
      let above := ltb O x[[n - 1]] t in
      if (idx =? 0) || above then
        match m with
        | MPanic => None
        | MFill l r => Some (if idx =? 0 then l else r)
        | MExtrap =>
            if idx =? 0 then (if 2 <=? n then Some (extrap_left x y t) else None)
            else Some (extrap_right x y n t)
        end
      else Some (segment_value x y idx t)
    end.

  Fixpoint mapM {A B} (f : A -> option B) (l : list A) : option (list B) :=
    match l with
    | [] => Some []
    | a :: l' => let* b := f a in let* r := mapM f l' in Some (b :: r)
    end.

  (** interp1d_linear_unchecked *)
  Definition interp_unchecked (x y tgt : list T) (m : mode T) : option (list T) :=
    if length x =? length y then mapM (interp1 x y (length x) m) tgt else None.

  (** [for i in 0..n-1 { if x[i+1] - x[i] < 0. { panic } }] *)
  Fixpoint ascending (x : list T) : bool :=
    match x with
    | a :: (b :: _) as tl => negb (ltb O (sub O b a) (zero O)) && ascending tl
    | _ => true
    end.

  (** interp1d_linear (n = 0: the bound `n - 1` of the sortedness loop underflows — a panic in debug
      and, through x[1], in release) *)
  Definition interp_checked (x y tgt : list T) (m : mode T) : option (list T) :=
    if length x =? length y then
      match x with
      | [] => None
      | _ => if ascending x then interp_unchecked x y tgt m else None
      end
    else None.
End Interp.
