(** * Model of [functions/combinatorial.rs::binom_coeff] on [u64].

    Integers are [N]; every [u64] operation that can leave the range is made explicit:
    - [Wrap]: release build ([overflow-checks = false]): the result is reduced mod 2^64;
    - [Trap]: debug build ([overflow-checks = true]): the operation panics ([None]).
    The loop [for i in 1..=nk] is [N.iter nk] over a small state machine, so the model runs for any
    [nk] the implementation can run for.  No proofs in this file. *)
From Coq Require Import NArith.
Local Open Scope N_scope.

Definition M64 : N := 18446744073709551616.   (* 2^64 *)
Definition MAX64 : N := 18446744073709551615. (* u64::MAX *)

Inductive mode := Wrap | Trap.

(** result of a [u64] addition / multiplication whose exact value is [v] *)
Definition norm (md : mode) (v : N) : option N :=
  if v <? M64 then Some v else match md with Wrap => Some (v mod M64) | Trap => None end.
(** [a - b] on [u64] (operands below 2^64) *)
Definition usub (md : mode) (a b : N) : option N :=
  if b <=? a then Some (a - b) else match md with Wrap => Some (a + M64 - b) | Trap => None end.
Definition uadd (md : mode) (a b : N) : option N := norm md (a + b).
Definition umul (md : mode) (a b : N) : option N := norm md (a * b).

(** state of the loop: running with counter [i] and accumulator [c]; returned early; panicked *)
Inductive st := Run (i c : N) | Ret (r : N) | Trapped.

(** one iteration:
    [if c / i > u64::MAX / nk { return 0; }  c = c / i * (n - i + 1) + c % i * (n - i + 1) / i;] *)
Definition step (md : mode) (n nk : N) (s : st) : st :=
  match s with
  | Run i c =>
      if MAX64 / nk <? c / i then Ret 0
      else
        match usub md n i with
        | None => Trapped
        | Some d =>
            match uadd md d 1 with
            | None => Trapped
            | Some m =>
                match umul md (c / i) m, umul md (c mod i) m with
                | Some t1, Some t2 =>
                    match uadd md t1 (t2 / i) with
                    | Some c' => Run (i + 1) c'
                    | None => Trapped
                    end
                | _, _ => Trapped
                end
            end
        end
  | _ => s
  end.

(** [let mut nk = k; if k > n - k { nk = n - k; }  let mut c = 1; for i in 1..=nk { .. }  c] *)
Definition binom_coeff (md : mode) (n k : N) : option N :=
  match usub md n k with
  | None => None
  | Some d =>
      let nk := if d <? k then d else k in
      match N.iter nk (step md n nk) (Run 1 1) with
      | Run _ c => Some c
      | Ret r => Some r
      | Trapped => None
      end
  end.
