(** * Model of [distributions/multivariatenormal.rs], END TO END: the constructor [MVN::new] with the three
    factorisation routines it calls computed by the executable models of properties C01 / C11 (no recorded inner
    call), and [pdf] / [ln_pdf] on the object it builds.

    [MVN::new(mean, covariance_matrix)], in source order:
      [assert!(c.is_symmetric())]                    [Model/Subst.v: matrix_is_symmetric] (relative tolerance)
      [assert_eq!(m.len(), c.ncols)]
      [let l = (&c).cholesky()]                      [Model/Cholesky.v: matrix_cholesky] ([assert!(is_positive_definite())],
                                                     full-row dot products, [assert!(d > 0.)] on every pivot)
      [let cinv = (&c).inv()]                        [Model/SolveInst.v: mat_inv] ([Matrix::inv]: [assert!(is_square())],
                                                     [self.solve(&Matrix::eye(n))] = ALWAYS pivoted LU + one [lu_solve] per
                                                     column of the identity, never the Cholesky factor just computed)
      [let cdet = (&c).det()]                        [Model/LU.v: matrix_det] (a SECOND pivoted LU, product of the diagonal
                                                     times [ipiv_parity])
    and all five values are cached in the struct.  [None] = the constructor panics.
    [pdf] / [ln_pdf] are the functions of [Model/MVN.v] applied to the cached fields (they re-assert
    [is_positive_definite] of the cached covariance and the length of the point).  No proofs in this file. *)
From Coq Require Import List ZArith Bool Arith.
From Compute Require Import Base.Ops Base.ListMat Model.Reduce Model.MatMul Model.Subst Model.Cholesky Model.LU
  Model.Solve Model.SolveInst Model.MVN.
Import ListNotations.

Section MVNNew.
  Context {T : Type} (O : Ops T).

  (** the struct [MVN] *)
  Record mvn := {
    mvn_mean : list T;                 (* mean *)
    mvn_cov : matrix (T := T);         (* covariance_matrix *)
    mvn_cinv : matrix (T := T);        (* inverse_covariance_matrix *)
    mvn_cdet : T;                      (* covariance_determinant *)
    mvn_chol : matrix (T := T)         (* decomposed_covariance_matrix *)
  }.

  (** a [Matrix] value satisfies [well_formed] ([Matrix::new] asserts it); kept as a guard so that the model is
      total on arbitrary records *)
  Definition mvn_new (mean : list T) (c : matrix (T := T)) : option mvn :=
    let* _ := guard (well_formed c) in
    let* _ := guard (matrix_is_symmetric O c) in
    let* _ := guard (length mean =? nc c) in
    let* l := matrix_cholesky O c in
    let* cinv := mat_inv O c in
    let* cdet := matrix_det O c in
    Some {| mvn_mean := mean; mvn_cov := c; mvn_cinv := cinv; mvn_cdet := cdet; mvn_chol := l |}.

  Definition mvn_obj_pdf (d : mvn) (x : list T) : option T :=
    mvn_pdf O (mvn_cov d) (mvn_cinv d) (mvn_cdet d) (mvn_mean d) x.
  Definition mvn_obj_ln_pdf (d : mvn) (x : list T) : option T :=
    mvn_ln_pdf O (mvn_cov d) (mvn_cinv d) (mvn_cdet d) (mvn_mean d) x.

  (** [MVN::new(mean, cov).pdf(x)] and [.ln_pdf(x)] *)
  Definition mvn_pdf_full (mean : list T) (c : matrix (T := T)) (x : list T) : option T :=
    let* d := mvn_new mean c in mvn_obj_pdf d x.
  Definition mvn_ln_pdf_full (mean : list T) (c : matrix (T := T)) (x : list T) : option T :=
    let* d := mvn_new mean c in mvn_obj_ln_pdf d x.
End MVNNew.
Arguments mvn T : clear implicits.
