(** * Model of [distributions/multivariatenormal.rs]: [pdf] and [ln_pdf] of the multivariate normal, from the
    cached inverse covariance and determinant.  The constructor [MVN::new], which computes the cached values with
    [Matrix::cholesky] / [Matrix::inv] / [Matrix::det], is modelled in [Model/MVNNew.v] by composition with the models
    of C01 / C11; here [cinv], [cdet] are inputs (the correspondence runs these functions both on values recomputed
    with the crate's public functions and, end to end, on the values the composed constructor computes).  The products go through the [Dot] trait (Model/MatMul.v, property C05) and the unrolled
    [dot] (Model/Reduce.v).  No proofs here. *)
From Coq Require Import List ZArith QArith Bool Arith.
From Compute Require Import Base.Ops Base.ListMat Model.Reduce Model.MatMul.
From Compute Require Model.Subst.
Import ListNotations.

Section MVN.
  Context {T : Type} (O : Ops T).
  Local Notation z := (zero O).

  (** [Matrix::is_symmetric] (square, and [|x - y| <= EPSILON * max(|x|, |y|)] for every mirrored pair: the tolerance is
      RELATIVE since the repair made for property C01) and [Matrix::is_positive_definite] (symmetric with a positive
      diagonal; sic: see D1, property C01): the [Matrix] predicates of [Model/Subst.v], one definition shared with
      C01 / C11 (tied bitwise there and, through the near-symmetric covariances, here). *)
  Definition is_symmetric (m : matrix (T := T)) : bool := Model.Subst.matrix_is_symmetric O m.
  Definition is_positive_definite (m : matrix (T := T)) : bool := Model.Subst.matrix_is_positive_definite O m.

  (** [x.iter().enumerate().map(|(i, v)| v - self.mean[i])]: indexing past the mean panics *)
  Fixpoint centre (x mean : list T) : option (list T) :=
    match x, mean with
    | [], _ => Some []
    | v :: x', m :: mean' => let* r := centre x' mean' in Some (sub O v m :: r)
    | _ :: _, [] => None
    end.

  (** the two asserts, then [x_minus_mu.t_dot(&self.inverse_covariance_matrix.dot(&x_minus_mu))] *)
  Definition quad_form (cov cinv : matrix (T := T)) (mean x : list T) : option T :=
    let* _ := guard (is_positive_definite cov) in
    let* _ := guard (length x =? length mean) in
    let* xm := centre x mean in
    let* y := mat_vec_dot O DotNN cinv xm in
    dot O xm y.

  Definition two_pi : T := mul O (two O) (pi O).
  Definition neg_half : T := neg O (ofQ O (1 # 2)%Q).

  (** [(-0.5 * q).exp() / ((2. * PI).powi(n) * det).sqrt()] *)
  Definition mvn_pdf (cov cinv : matrix (T := T)) (cdet : T) (mean x : list T) : option T :=
    let* q := quad_form cov cinv mean x in
    Some (div O (f1 O Exp (mul O neg_half q))
                (sqrt O (mul O (powi O two_pi (Z.of_nat (length x))) cdet))).
  (** [-0.5 * (det.ln() + q + n as f64 * (2. * PI).ln())] *)
  Definition mvn_ln_pdf (cov cinv : matrix (T := T)) (cdet : T) (mean x : list T) : option T :=
    let* q := quad_form cov cinv mean x in
    Some (mul O neg_half
            (add O (add O (f1 O Ln cdet) q) (mul O (ofZ O (Z.of_nat (length x))) (f1 O Ln two_pi)))).
End MVN.
