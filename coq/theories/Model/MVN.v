(** * Model of [distributions/multivariatenormal.rs]: [pdf] and [ln_pdf] of the multivariate normal, from the
    cached inverse covariance and determinant.  [Matrix::inv] / [Matrix::det] (LU: properties C01/C11) are NOT
    modelled here: the cached values [cinv], [cdet] are inputs (the correspondence recomputes them with the same
    public functions).  The products go through the [Dot] trait (Model/MatMul.v, property C05) and the unrolled
    [dot] (Model/Reduce.v).  No proofs here. *)
From Coq Require Import List ZArith QArith Bool Arith.
From Compute Require Import Base.Ops Base.ListMat Model.Reduce Model.MatMul.
Import ListNotations.

Section MVN.
  Context {T : Type} (O : Ops T).
  Local Notation z := (zero O).

  (** [f64::EPSILON] = 2^-52 *)
  Definition f64_epsilon : T := ofQ O (1 # 4503599627370496)%Q.

  (** [Matrix::is_symmetric]: square, and [|a[i*ncols+j] - a[j*nrows+i]| <= EPSILON] for [j >= i] *)
  Definition is_symmetric (m : matrix (T := T)) : bool :=
    (nr m =? nc m) &&
    forallb (fun i => forallb (fun j =>
        negb (ltb O f64_epsilon (abs O (sub O (nth (i * nc m + j) (dat m) z) (nth (j * nr m + i) (dat m) z)))))
      (seq i (nc m - i))) (seq 0 (nr m)).
  (** [Matrix::is_positive_definite]: symmetric with a positive diagonal (sic: see D1, property C01) *)
  Definition is_positive_definite (m : matrix (T := T)) : bool :=
    is_symmetric m && forallb (fun i => negb (leb O (nth (i * nc m + i) (dat m) z) z)) (seq 0 (nc m)).

  (** [x.iter().enumerate().map(|(i, v)| v - self.mean[i])]: indexing past the mean panics *)
  Fixpoint centre (x mean : list T) : option (list T) :=
    match x, mean with
    | [], _ => Some []
    | v :: x', m :: mean' => let* r := centre x' mean' in Some (sub O v m :: r)
    | _ :: _, [] => None
    end.

  (** the two asserts, then [x_minus_mu.t_dot(&self.inverse_covariance_matrix.dot(&x_minus_mu))] *)
  Definition quad_form (cov cinv : matrix (T := T)) (mean x : list T) : option T :=
    let* _ := guard (is_positive_definite cov) in
    let* _ := guard (length x =? length mean) in
    let* xm := centre x mean in
    let* y := mat_vec_dot O DotNN cinv xm in
    dot O xm y.

  Definition two_pi : T := mul O (two O) (pi O).
  Definition neg_half : T := neg O (ofQ O (1 # 2)%Q).

  (** [(-0.5 * q).exp() / ((2. * PI).powi(n) * det).sqrt()] *)
  Definition mvn_pdf (cov cinv : matrix (T := T)) (cdet : T) (mean x : list T) : option T :=
    let* q := quad_form cov cinv mean x in
    Some (div O (f1 O Exp (mul O neg_half q))
                (sqrt O (mul O (powi O two_pi (Z.of_nat (length x))) cdet))).
  (** [-0.5 * (det.ln() + q + n as f64 * (2. * PI).ln())] *)
  Definition mvn_ln_pdf (cov cinv : matrix (T := T)) (cdet : T) (mean x : list T) : option T :=
    let* q := quad_form cov cinv mean x in
    Some (mul O neg_half
            (add O (add O (f1 O Ln cdet) q) (mul O (ofZ O (Z.of_nat (length x))) (f1 O Ln two_pi)))).
End MVN.
