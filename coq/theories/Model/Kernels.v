(** * Model of [predict/gps/kernels.rs]: RBF and rational-quadratic kernels, scalar and matrix form.
    The matrix form of the (repaired) Rust code reshapes the first argument to a column and the second to a row,
    broadcasts their difference (entry (i, j) = x_i - y_j) and then applies, element-wise, exactly the operations of
    the scalar form in the scalar form's order; this file states the net effect: the matrix of the SCALAR form.  The
    plumbing itself is modelled in [Model/KernelsPlumbing.v] as the composition of the verified component models of
    C15 / C04 / C12 in the code's call order; Proofs/C20_plumbing.v proves that composition equal to the net
    matrix below, and the correspondence runs both. *)
From Coq Require Import List ZArith Bool.
From Compute Require Import Base.Ops.
Import ListNotations.

Section Kernels.
  Context {T : Type} (O : Ops T).
  Local Notation "x + y" := (add O x y). Local Notation "x - y" := (sub O x y).
  Local Notation "x * y" := (mul O x y). Local Notation "x / y" := (div O x y).
  Local Notation "1" := (one O). Local Notation "2" := (two O).

  (** [(-(x - y).powi(2) / (2. * l.powi(2))).exp() * var] *)
  Definition rbf (var ls x y : T) : T :=
    f1 O Exp (neg O (powi O (x - y) 2) / (2 * powi O ls 2)) * var.
  (** [(1. + (x - y).powi(2) / (2. * alpha * l.powi(2))).powf(-alpha) * var] *)
  Definition rq (var alpha ls x y : T) : T :=
    f2 O Pow (1 + powi O (x - y) 2 / (2 * alpha * powi O ls 2)) (neg O alpha) * var.

  (** matrix form on point sets [xs], [ys]: one row per point of [xs], one column per point of [ys], entry = the scalar form *)
  Definition rbf_matrix (var ls : T) (xs ys : list T) : list (list T) :=
    map (fun x => map (fun y => rbf var ls x y) ys) xs.
  Definition rq_matrix (var alpha ls : T) (xs ys : list T) : list (list T) :=
    map (fun x => map (fun y => rq var alpha ls x y) ys) xs.

  (** constructors: the three [assert!]s *)
  Definition rbf_new (var ls : T) : option (T * T) :=
    if (ltb O (zero O) var && ltb O (zero O) ls)%bool then Some (var, ls) else None.
  Definition rq_new (var alpha ls : T) : option (T * T * T) :=
    if (ltb O (zero O) var && ltb O (zero O) alpha && ltb O (zero O) ls)%bool then Some (var, alpha, ls) else None.
End Kernels.
