(** * Model of [src/statistics/{moments,covariance,order,hist}.rs] (repaired tree) and of the
    Vector / Matrix reduction wrappers.  Same dataflow and operand order as the Rust code.
    No proofs in this file. *)
From Coq Require Import List Arith ZArith QArith Floats.
From Compute Require Import Base.Ops Base.ListMat Model.Reduce.
Import ListNotations.
Local Close Scope Q_scope.

Section Stats.
  Context {T : Type} (O : Ops T).
  Local Notation "x + y" := (add O x y). Local Notation "x - y" := (sub O x y).
  Local Notation "x * y" := (mul O x y). Local Notation "x / y" := (div O x y).

  (** ** moments.rs *)

  (** [welford_update]: aggregate (count, mean, M2) *)
  Definition welford_update (a : nat * T * T) (x : T) : nat * T * T :=
    match a with
    | (count, mean, m2) =>
        let count' := S count in
        let delta := x - mean in
        let mean' := mean + delta / ofN O count' in
        let delta2 := x - mean' in
        let m2' := m2 + delta * delta2 in
        (count', mean', m2')
    end.
  Definition welford_statistics (data : list T) : nat * T * T :=
    fold_left welford_update data (0, zero O, zero O).

  (** [sum(data) / data.len() as f64] with the 8-way unrolled [sum] of linalg/utils.rs *)
  Definition mean (data : list T) : T := sum O data / ofN O (length data).
  Definition welford_mean (data : list T) : T :=
    match welford_statistics data with (_, m, _) => m end.
  Definition var (data : list T) : T :=
    match welford_statistics data with (count, _, m2) => m2 / ofN O count end.

  (** [(count - 1) as f64] on [usize]: the release build wraps 0 - 1 to 2^64 - 1 (a debug build panics
      instead); only reachable with no data, where the numerator is a zero and the quotient the same zero
      whatever positive value the divisor has. *)
  Definition usize_pred (n : nat) : Z :=
    match n with 0 => 18446744073709551615%Z | S k => Z.of_nat k end.
  Definition sample_var (data : list T) : T :=
    match welford_statistics data with (count, _, m2) => m2 / ofZ O (usize_pred count) end.
  Definition std (data : list T) : T := sqrt O (var data).
  Definition sample_std (data : list T) : T := sqrt O (sample_var data).

  (** ** covariance.rs *)

  (** [Iterator::sum::<f64>()]: left fold from -0.0 *)
  Definition isum (l : list T) : T := fold_left (add O) l (neg O (zero O)).

  Definition centred_products (x y : list T) : list T :=
    let mean_x := mean x in
    let mean_y := mean y in
    map2 (fun a b => (a - mean_x) * (b - mean_y)) x y.

  Definition covariance (x y : list T) : option T :=
    if length x =? length y then
      Some (isum (centred_products x y) / ofN O (length x))
    else None.
  Definition sample_covariance (x y : list T) : option T :=
    if length x =? length y then
      Some (isum (centred_products x y) / ofZ O (usize_pred (length x)))
    else None.

  (** shifted one-pass algorithm (after the repair of D18): sums of dx, dy, dx*dy with
      dx = x[i] - x[0], dy = y[i] - y[0] *)
  Definition onepass_step (x0 y0 : T) (s : T * T * T) (p : T * T) : T * T * T :=
    match s with
    | (sum_dx, sum_dy, sum_dxdy) =>
        let dx := fst p - x0 in
        let dy := snd p - y0 in
        (sum_dx + dx, sum_dy + dy, sum_dxdy + dx * dy)
    end.
  Definition onepass_sums (x y : list T) : T * T * T :=
    fold_left (onepass_step (hd (zero O) x) (hd (zero O) y)) (combine x y) (zero O, zero O, zero O).
  Definition sample_covariance_onepass (x y : list T) : option T :=
    if length x =? length y then
      match onepass_sums x y with
      | (sum_dx, sum_dy, sum_dxdy) =>
          Some ((sum_dxdy - sum_dx * sum_dy / ofN O (length x)) / ofZ O (usize_pred (length x)))
      end
    else None.

  (** online algorithm (after the repair of D19): state (meanx, meany, c, n), [n] a float counter *)
  Definition online_step (s : T * T * T * T) (p : T * T) : T * T * T * T :=
    match s with
    | (meanx, meany, c, n) =>
        let n' := n + one O in
        let dx := fst p - meanx in
        let dy := snd p - meany in
        let meanx' := meanx + dx / n' in
        let meany' := meany + dy / n' in
        let c' := c + dx * (snd p - meany') in
        (meanx', meany', c', n')
    end.
  Definition online_state (x y : list T) : T * T * T * T :=
    fold_left online_step (combine x y) (zero O, zero O, zero O, zero O).
  Definition sample_covariance_online (x y : list T) : option T :=
    if length x =? length y then
      match online_state x y with (_, _, c, n) => Some (c / (n - one O)) end
    else None.

  (** ** order.rs *)

  (** the literals [f64::NAN], [f64::MAX], [f64::MIN] *)
  Definition f64_max_q : Q := inject_Z (9007199254740991 * 2 ^ 971).
  Definition f64_nan : T := ofLit O (0%Q, PrimFloat.nan).
  Definition f64_max : T := ofLit O (f64_max_q, 0x1.fffffffffffffp+1023%float).
  Definition f64_min : T := ofLit O (Qopp f64_max_q, (-0x1.fffffffffffffp+1023)%float).

  (** [data.iter().fold(f64::NAN, |acc, i| f64::min(acc, *i))] *)
  Definition min (data : list T) : T := fold_left (fmin O) data f64_nan.
  Definition max (data : list T) : T := fold_left (fmax O) data f64_nan.

  (** [enumerate().fold((0, f64::MAX), |acc, (i, j)| if acc.1 > *j { (i, *j) } else { acc }).0] *)
  Fixpoint argmin_go (i : nat) (acc : nat * T) (l : list T) : nat * T :=
    match l with
    | [] => acc
    | x :: l' => argmin_go (S i) (if ltb O x (snd acc) then (i, x) else acc) l'
    end.
  Definition argmin (data : list T) : nat := fst (argmin_go 0 (0, f64_max) data).
  (** [... fold((0, f64::MIN), |acc, (i, j)| if acc.1 < *j { (i, *j) } else { acc }).0] *)
  Fixpoint argmax_go (i : nat) (acc : nat * T) (l : list T) : nat * T :=
    match l with
    | [] => acc
    | x :: l' => argmax_go (S i) (if ltb O (snd acc) x then (i, x) else acc) l'
    end.
  Definition argmax (data : list T) : nat := fst (argmax_go 0 (0, f64_min) data).

  (** ** hist.rs (after the repair of D20): fewer than two edges panic; centre i = (e[i] + e[i+1]) / 2 *)
  Definition hist_bin_centers (edges : list T) : option (list T) :=
    if 2 <=? length edges then
      Some (map2 (fun a b => (a + b) / ofZ O 2) edges (tl edges))
    else None.

  (** ** Vector / Matrix wrappers ([impl_inner_fn!], [impl_reduction_fns_matrix!]): the same function on
      the underlying data; [Matrix::argmin/argmax] convert the flat index to (row, column) *)
  Definition matrix_index (ncols am : nat) : option (nat * nat) :=
    if ncols =? 0 then None else Some (Nat.div am ncols, Nat.modulo am ncols).
  Definition matrix_argmin (data : list T) (ncols : nat) : option (nat * nat) :=
    matrix_index ncols (argmin data).
  Definition matrix_argmax (data : list T) (ncols : nat) : option (nat * nat) :=
    matrix_index ncols (argmax data).
End Stats.
