(** * Model of [integrate/functions.rs] ([trapz], [romberg], [quad5]) and [integrate/samples.rs]
    ([trapezoid]) — the repaired code (D17: interior nodes 1..n-1; Romberg's stopping test on the signed
    estimates).  The Gauss-Legendre tables come from Generated/quad_tables.v (Tie A).
    The integrand is a function argument; [horner] and [catalogue] are the integrands of the correspondence.
    No proofs in this file. *)
From Coq Require Import List ZArith QArith Floats Arith.
From Compute Require Import Base.Ops Base.ListMat Generated.quad_tables.
Import ListNotations.

Section Quad.
  Context {T : Type} (O : Ops T).
  Local Notation "x + y" := (add O x y). Local Notation "x - y" := (sub O x y).
  Local Notation "x * y" := (mul O x y). Local Notation "x / y" := (div O x y).
  Local Notation "1" := (one O). Local Notation "2" := (two O).
  Local Notation half := (ofQ O (1 # 2)).
  Local Notation lit := (ofLit O).

  (** [Iterator::sum::<f64>()] folds from -0.0 *)
  Definition negzero : T := neg O (zero O).

  (** integrands of the correspondence: [cs.iter().rev().fold(0.0, |acc, c| acc * x + c)] *)
  Definition horner (cs : list T) (x : T) : T := fold_right (fun c acc => acc * x + c) (zero O) cs.
  (** ... and a few that call libm (ids shared with harness/src/props/c07.rs::catalogue) *)
  Definition catalogue (id : nat) (x : T) : T :=
    match id with
    | 0%nat => f1 O Exp x
    | 1%nat => f1 O Sin x * f1 O Cos (2 * x)
    | 2%nat => 1 / (1 + x * x)
    | 3%nat => x * sqrt O (1 + 2 * x)
    | 4%nat => f1 O Ln x / x
    | _ => f1 O Exp (neg O x) * f1 O Cos x
    end.

  (** ** trapz: [dx * ((1..n).map(|k| f(a + k as f64 * dx)).sum::<f64>() + (f(b) + f(a)) / 2.)] *)
  (** [s + f(a + k dx) + f(a + (k+1) dx) + ...], [cnt] terms *)
  Fixpoint ksum (f : T -> T) (a dx : T) (cnt : nat) (k : Z) (s : T) : T :=
    match cnt with
    | 0%nat => s
    | S c => ksum f a dx c (k + 1)%Z (s + f (a + ofZ O k * dx))
    end.
  Definition trapz (f : T -> T) (a b : T) (n : nat) : T :=
    let dx := (b - a) / ofN O n in
    dx * (ksum f a dx (n - 1) 1%Z negzero + (f b + f a) / 2).

  (** ** romberg *)
  (** [(1..=2^(n-1)).map(|k| f(a + (2k-1) as f64 * hn)).sum()] *)
  Fixpoint oddsum (f : T -> T) (a hn : T) (cnt : nat) (k : Z) (s : T) : T :=
    match cnt with
    | 0%nat => s
    | S c => oddsum f a hn c (k + 1)%Z (s + f (a + ofZ O (2 * k - 1) * hn))
    end.
  (** first column below row 0: [r[n][0] = 0.5 * r[n-1][0] + hn * s], rows [n, n+1, ..., n+cnt-1] *)
  Fixpoint col0 (f : T -> T) (a b : T) (cnt n : nat) (prev : T) : list T :=
    match cnt with
    | 0%nat => []
    | S c =>
        let hn := (b - a) / powi O 2 (Z.of_nat n) in
        let s := oddsum f a hn (Nat.pow 2 (n - 1)) 1%Z negzero in
        let v := half * prev + hn * s in
        v :: col0 f a b c (S n) v
    end.
  (** Richardson step along a row: from [cur = r[n][m-1]] and the previous row's entries [r[n-1][m-1], ...] *)
  Fixpoint extrap (prevrow : list T) (m : Z) (cur : T) : list T :=
    match prevrow with
    | [] => []
    | p :: pr => let v := cur + (cur - p) / (powi O (ofZ O 4) m - 1) in v :: extrap pr (m + 1)%Z v
    end.
  Definition next_row (prevrow : list T) (rn0 : T) : list T := rn0 :: extrap prevrow 1%Z rn0.
  (** repaired stopping test: [diff / cur.abs().min(prev.abs()) < eps || diff < eps], [diff = |cur - prev|] *)
  Definition stop (cur prev eps : T) : bool :=
    let diff := abs O (cur - prev) in
    ltb O (diff / fmin O (abs O cur) (abs O prev)) eps || ltb O diff eps.
  (** second loop: [c0s] = first-column entries of rows [n, n+1, ...]; [prevrow] = row [n-1] *)
  Fixpoint rows (c0s : list T) (n : nat) (prevrow : list T) (eps : T) : T :=
    match c0s with
    | [] => last prevrow (zero O)
    | rn0 :: rest =>
        let row := next_row prevrow rn0 in
        let cur := last row (zero O) in
        if (1 <? n)%nat && stop cur (last prevrow (zero O)) eps then cur
        else rows rest (S n) row eps
    end.
  (** [None]: [nmax = 0] (indexing an empty tableau panics) *)
  Definition romberg (f : T -> T) (a b eps : T) (nmax : nat) : option T :=
    match nmax with
    | 0%nat => None
    | S m =>
        let r00 := (b - a) / 2 * (f a + f b) in
        Some (rows (col0 f a b m 1 r00) 1 [r00] eps)
    end.

  (** ** quad5: symmetric Gauss-Legendre with the regenerated tables *)
  Definition quad5 (f : T -> T) (a b : T) : T :=
    let xm := half * (b + a) in
    let xr := half * (b - a) in
    fold_left (fun s nw => let dx := xr * lit (fst nw) in s + lit (snd nw) * (f (xm + dx) + f (xm - dx)))
              (combine gauss_nodes gauss_weights) negzero
    * xr.

  (** ** sampled [trapezoid(y, x, dx)] *)
  (** [x[i] - x[i-1]], i = 1.. *)
  Definition diffs (x : list T) : list T := map2 (sub O) (tl x) x.
  Definition trapezoid (y : list T) (x : option (list T)) (dx : option T) : option T :=
    let* diff_x :=
      match x with
      | Some xa =>
          let* _ := guard (length y =? length xa)%nat in
          let* _ := guard (match dx with None => true | Some _ => false end) in
          Some (diffs xa)
      | None =>
          match y with
          | [] => None                       (* y.len() - 1 underflows: panic (debug) / capacity overflow (release) *)
          | _ :: y' => Some (map (fun _ => 1 * match dx with Some d => d | None => 1 end) y')
          end
      end in
    Some (fold_left (add O) (map2 (fun s d => s / 2 * d) (map2 (add O) (tl y) y) diff_x) negzero).
End Quad.
