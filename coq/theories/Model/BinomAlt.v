(** * Model of [functions/combinatorial.rs::binom_coeff_alt] (the gamma-based alternative):
    [(gamma(n+1).ln() - gamma(k+1).ln() - gamma(n-k+1).ln()).exp().round() as u64].
    [gamma] is the model of C09 (Model/Special.v).  The final [as u64] cast is applied by the
    correspondence (Corr/C17.v) on binary64.  No proofs in this file. *)
From Coq Require Import ZArith.
From Compute Require Import Base.Ops Model.Special.

Section BinomAlt.
  Context {T : Type} (O : Ops T).
  Local Notation "x + y" := (add O x y). Local Notation "x - y" := (sub O x y).
  Local Notation "1" := (one O).

  (** the value before rounding; [n], [k] are the u64 arguments with k <= n *)
  Definition binom_alt_raw (n k : Z) : T :=
    exp_ O (ln_ O (gamma O (ofZ O n + 1)) - ln_ O (gamma O (ofZ O k + 1)) - ln_ O (gamma O (ofZ O (n - k)%Z + 1))).
  Definition binom_alt_rounded (n k : Z) : T := f1 O Round (binom_alt_raw n k).
End BinomAlt.
