//! Interposed libm: every call the library under test makes to exp/log/pow/... lands here,
//! is forwarded to the real glibc function, and (when recording) logged as (fn, arg, result).
//! The Coq model answers its libm calls from this table, so both sides see identical values.
#![allow(clippy::missing_safety_doc)]
use std::cell::RefCell;
use std::os::raw::{c_char, c_int, c_void};

extern "C" {
    fn dlsym(handle: *mut c_void, symbol: *const c_char) -> *mut c_void;
    fn dlopen(f: *const c_char, flags: c_int) -> *mut c_void;
}

#[derive(Clone, Debug, Default)]
pub struct Table {
    pub t1: Vec<(&'static str, f64, f64)>,
    pub t2: Vec<(&'static str, f64, f64, f64)>,
}

thread_local! {
    static REC: RefCell<Option<Table>> = RefCell::new(None);
}

fn handle() -> *mut c_void {
    static mut H: *mut c_void = std::ptr::null_mut();
    unsafe {
        if H.is_null() {
            H = dlopen(b"libm.so.6\0".as_ptr() as *const c_char, 2);
            assert!(!H.is_null(), "cannot dlopen libm.so.6");
        }
        H
    }
}

pub fn start() {
    REC.with(|r| *r.borrow_mut() = Some(Table::default()));
}
pub fn stop() -> Table {
    REC.with(|r| r.borrow_mut().take().unwrap_or_default())
}

fn same(a: f64, b: f64) -> bool {
    a.to_bits() == b.to_bits() || (a.is_nan() && b.is_nan())
}

fn rec1(name: &'static str, x: f64, r: f64) {
    let _ = REC.try_with(|c| {
        if let Ok(mut g) = c.try_borrow_mut() {
            if let Some(t) = g.as_mut() {
                if !t.t1.iter().any(|e| e.0 == name && same(e.1, x)) {
                    t.t1.push((name, x, r));
                }
            }
        }
    });
}
fn rec2(name: &'static str, x: f64, y: f64, r: f64) {
    let _ = REC.try_with(|c| {
        if let Ok(mut g) = c.try_borrow_mut() {
            if let Some(t) = g.as_mut() {
                if !t.t2.iter().any(|e| e.0 == name && same(e.1, x) && same(e.2, y)) {
                    t.t2.push((name, x, y, r));
                }
            }
        }
    });
}

macro_rules! wrap1 {
    ($($sym:ident => $coq:literal),* $(,)?) => {$(
        #[no_mangle]
        pub unsafe extern "C" fn $sym(x: f64) -> f64 {
            static mut F: Option<extern "C" fn(f64) -> f64> = None;
            if F.is_none() {
                let p = dlsym(handle(), concat!(stringify!($sym), "\0").as_ptr() as *const c_char);
                assert!(!p.is_null());
                F = Some(std::mem::transmute::<*mut c_void, extern "C" fn(f64) -> f64>(p));
            }
            let r = (F.unwrap())(x);
            rec1($coq, x, r);
            r
        }
    )*};
}
macro_rules! wrap2 {
    ($($sym:ident => $coq:literal),* $(,)?) => {$(
        #[no_mangle]
        pub unsafe extern "C" fn $sym(x: f64, y: f64) -> f64 {
            static mut F: Option<extern "C" fn(f64, f64) -> f64> = None;
            if F.is_none() {
                let p = dlsym(handle(), concat!(stringify!($sym), "\0").as_ptr() as *const c_char);
                assert!(!p.is_null());
                F = Some(std::mem::transmute::<*mut c_void, extern "C" fn(f64, f64) -> f64>(p));
            }
            let r = (F.unwrap())(x, y);
            rec2($coq, x, y, r);
            r
        }
    )*};
}

wrap1!(exp => "Exp", log => "Ln", sin => "Sin", cos => "Cos", tan => "Tan", asin => "Asin",
       acos => "Acos", atan => "Atan", sinh => "Sinh", cosh => "Cosh", tanh => "Tanh",
       asinh => "Asinh", acosh => "Acosh", atanh => "Atanh", log2 => "Log2", log10 => "Log10",
       log1p => "Ln1p", expm1 => "Expm1", exp2 => "Exp2", cbrt => "Cbrt", floor => "Floor",
       ceil => "Ceil", round => "Round", trunc => "Trunc");
wrap2!(pow => "Pow", atan2 => "Atan2", hypot => "Hypot", fmod => "Fmod");

/// LLVM fuses `x.sin()` and `x.cos()` of the same argument into one call of glibc's `sincos`: interpose it too, forward to
/// the real function and record exactly the two values the library received as (Sin, x) and (Cos, x).
#[no_mangle]
pub unsafe extern "C" fn sincos(x: f64, s: *mut f64, c: *mut f64) {
    type SinCos = extern "C" fn(f64, *mut f64, *mut f64);
    static mut F: Option<SinCos> = None;
    if F.is_none() {
        let p = dlsym(handle(), b"sincos\0".as_ptr() as *const c_char);
        assert!(!p.is_null());
        F = Some(std::mem::transmute::<*mut c_void, SinCos>(p));
    }
    (F.unwrap())(x, s, c);
    rec1("Sin", x, *s);
    rec1("Cos", x, *c);
}

/// glibc reference functions for the failure-search oracles (never interposed / recorded).
pub mod reference {
    use super::*;
    fn get1(name: &[u8]) -> extern "C" fn(f64) -> f64 {
        unsafe { std::mem::transmute(dlsym(handle(), name.as_ptr() as *const c_char)) }
    }
    pub fn tgamma(x: f64) -> f64 { get1(b"tgamma\0")(x) }
    pub fn lgamma(x: f64) -> f64 { get1(b"lgamma\0")(x) }
    pub fn erf(x: f64) -> f64 { get1(b"erf\0")(x) }
    pub fn erfc(x: f64) -> f64 { get1(b"erfc\0")(x) }
}
