//! PRNG for case generation (never `alea`), Coq term writer, panic capture, stats.
use std::collections::hash_map::DefaultHasher;
use std::collections::{BTreeMap, HashSet};
use std::fmt::Write as _;
use std::hash::{Hash, Hasher};
use std::panic::{catch_unwind, AssertUnwindSafe};

pub struct Rng(pub u64);
impl Rng {
    pub fn new(seed: u64) -> Self {
        let mut r = Rng(seed ^ 0x9E37_79B9_7F4A_7C15);
        for _ in 0..4 { r.next(); }
        r
    }
    pub fn next(&mut self) -> u64 {
        // splitmix64
        self.0 = self.0.wrapping_add(0x9E37_79B9_7F4A_7C15);
        let mut z = self.0;
        z = (z ^ (z >> 30)).wrapping_mul(0xBF58_476D_1CE4_E5B9);
        z = (z ^ (z >> 27)).wrapping_mul(0x94D0_49BB_1331_11EB);
        z ^ (z >> 31)
    }
    pub fn below(&mut self, n: u64) -> u64 { if n == 0 { 0 } else { self.next() % n } }
    pub fn range(&mut self, lo: i64, hi: i64) -> i64 { lo + self.below((hi - lo + 1) as u64) as i64 }
    pub fn unit(&mut self) -> f64 { (self.next() >> 11) as f64 / (1u64 << 53) as f64 }
    pub fn uniform(&mut self, lo: f64, hi: f64) -> f64 { lo + (hi - lo) * self.unit() }
    pub fn normal(&mut self) -> f64 {
        // Box-Muller with the harness's own libm-free approximations is overkill: use sum of 12
        let mut s = 0.0; for _ in 0..12 { s += self.unit(); } s - 6.0
    }
    pub fn coin(&mut self, p: f64) -> bool { self.unit() < p }
    pub fn pick<'a, T>(&mut self, xs: &'a [T]) -> &'a T { &xs[self.below(xs.len() as u64) as usize] }
    pub fn small_int(&mut self, m: i64) -> f64 { self.range(-m, m) as f64 }
}

/// hexadecimal float literal accepted by Coq's float_scope (exact)
pub fn hexf(x: f64) -> String {
    if x.is_nan() { return "nan".into(); }
    if x == f64::INFINITY { return "infinity".into(); }
    if x == f64::NEG_INFINITY { return "neg_infinity".into(); }
    let bits = x.to_bits();
    let neg = bits >> 63 == 1;
    let e = ((bits >> 52) & 0x7ff) as i64;
    let m = bits & 0x000f_ffff_ffff_ffff;
    let body = if e == 0 && m == 0 { "0".to_string() }
        else if e == 0 { format!("0x0.{:013x}p-1022", m) }
        else { format!("0x1.{:013x}p{:+}", m, e - 1023) };
    if neg { format!("(-{})", body) } else { body }
}

/// A Coq term.
#[derive(Clone, Debug)]
pub enum Tm { F(f64), Nat(u64), N(u64), Z(i64), B(bool), L(Vec<Tm>), App(String, Vec<Tm>), Tup(Vec<Tm>), Raw(String) }
pub fn fl(v: &[f64]) -> Tm { Tm::L(v.iter().map(|x| Tm::F(*x)).collect()) }
pub fn app(name: &str, args: Vec<Tm>) -> Tm { Tm::App(name.to_string(), args) }
impl Tm {
    pub fn write(&self, s: &mut String) {
        match self {
            Tm::F(x) => s.push_str(&hexf(*x)),
            Tm::Nat(n) => { let _ = write!(s, "{}%nat", n); }
            Tm::N(n) => { let _ = write!(s, "{}%N", n); }
            Tm::Z(n) => { if *n < 0 { let _ = write!(s, "({})%Z", n); } else { let _ = write!(s, "{}%Z", n); } }
            Tm::B(b) => s.push_str(if *b { "true" } else { "false" }),
            Tm::L(v) => { s.push('['); for (i, t) in v.iter().enumerate() { if i > 0 { s.push_str("; "); } t.write(s); } s.push(']'); }
            Tm::App(n, a) => { if a.is_empty() { s.push_str(n); } else { s.push('('); s.push_str(n); for t in a { s.push(' '); t.write(s); } s.push(')'); } }
            Tm::Tup(v) => { s.push('('); for (i, t) in v.iter().enumerate() { if i > 0 { s.push_str(", "); } t.write(s); } s.push(')'); }
            Tm::Raw(r) => s.push_str(r),
        }
    }
    pub fn to_string(&self) -> String { let mut s = String::new(); self.write(&mut s); s }
}

/// outcome of running the implementation
pub fn outcome_list(r: &Result<Vec<f64>, String>) -> Tm {
    match r { Ok(v) => app("Val", vec![fl(v)]), Err(_) => Tm::Raw("Panic".into()) }
}
pub fn outcome_f(r: &Result<f64, String>) -> Tm {
    match r { Ok(v) => app("Val", vec![Tm::F(*v)]), Err(_) => Tm::Raw("Panic".into()) }
}

pub fn quiet_panics() { std::panic::set_hook(Box::new(|_| {})); }
pub fn catch<R>(f: impl FnOnce() -> R) -> Result<R, String> {
    catch_unwind(AssertUnwindSafe(f)).map_err(|e| {
        if let Some(s) = e.downcast_ref::<&str>() { s.to_string() }
        else if let Some(s) = e.downcast_ref::<String>() { s.clone() }
        else { "panic".to_string() }
    })
}

pub fn libm_table(t: &crate::libm::Table) -> Tm {
    let t1 = Tm::L(t.t1.iter().map(|(n, x, r)| Tm::Tup(vec![Tm::Raw(n.to_string()), Tm::F(*x), Tm::F(*r)])).collect());
    let t2 = Tm::L(t.t2.iter().map(|(n, x, y, r)| Tm::Tup(vec![Tm::Raw(n.to_string()), Tm::F(*x), Tm::F(*y), Tm::F(*r)])).collect());
    Tm::Raw(format!("{{| tbl1 := {}; tbl2 := {} |}}", t1.to_string(), t2.to_string()))
}

/// Collects the cases of one property, counts them, and writes shards + stats.
pub struct Cases {
    pub prop: String,
    pub cases: Vec<String>,
    seen: HashSet<u64>,
    pub nontrivial: u64,
    pub tags: BTreeMap<String, u64>,
    pub samples: Vec<String>,
}
impl Cases {
    pub fn new(prop: &str) -> Self {
        Cases { prop: prop.into(), cases: vec![], seen: HashSet::new(), nontrivial: 0, tags: BTreeMap::new(), samples: vec![] }
    }
    /// `nontrivial`: the case leaves the default path by the property's rule (DESIGN §5)
    pub fn push(&mut self, t: Tm, tag: &str, nontrivial: bool) {
        let s = t.to_string();
        let mut h = DefaultHasher::new(); s.hash(&mut h);
        let fresh = self.seen.insert(h.finish());
        if fresh && nontrivial { self.nontrivial += 1; }
        *self.tags.entry(tag.to_string()).or_insert(0) += 1;
        if self.samples.len() < 6 && (nontrivial || self.cases.len() < 2) && s.len() < 1500 { self.samples.push(s.clone()); }
        self.cases.push(s);
    }
    pub fn write(&self, outdir: &str, per_shard: usize, rule: &str) {
        let header = format!("From Coq Require Import List Floats ZArith NArith.\nImport ListNotations.\nFrom Compute Require Import Corr.{}.\nLocal Open Scope float_scope.", self.prop);
        let checker = "check";
        std::fs::create_dir_all(outdir).unwrap();
        let mut shards = vec![];
        for (k, chunk) in self.cases.chunks(per_shard.max(1)).enumerate() {
            let name = format!("{}_{}.v", self.prop, k);
            let mut s = String::new();
            s.push_str(&header);
            s.push_str("\nDefinition cases := [\n");
            for (i, c) in chunk.iter().enumerate() { if i > 0 { s.push_str(";\n"); } s.push_str(c); }
            s.push_str("\n].\n");
            let _ = write!(s, "Eval vm_compute in failing {} cases.\n", checker);
            std::fs::write(format!("{}/{}", outdir, name), s).unwrap();
            shards.push(name);
        }
        let mut j = String::new();
        let _ = write!(j, "{{\"evaluations\": {}, \"distinct_nontrivial\": {}, \"per_shard\": {}, \"rule\": {}, \"shards\": [{}], \"tags\": {{{}}}, \"samples\": [{}]}}",
            self.cases.len(), self.nontrivial, per_shard, json_str(rule),
            shards.iter().map(|s| json_str(s)).collect::<Vec<_>>().join(", "),
            self.tags.iter().map(|(k, v)| format!("{}: {}", json_str(k), v)).collect::<Vec<_>>().join(", "),
            self.samples.iter().map(|s| json_str(s)).collect::<Vec<_>>().join(", "));
        std::fs::write(format!("{}/{}.stats.json", outdir, self.prop), j).unwrap();
    }
}

pub fn json_str(s: &str) -> String {
    let mut o = String::from("\"");
    for c in s.chars() {
        match c { '"' => o.push_str("\\\""), '\\' => o.push_str("\\\\"), '\n' => o.push_str("\\n"), '\t' => o.push_str("\\t"),
                  c if (c as u32) < 0x20 => { let _ = write!(o, "\\u{:04x}", c as u32); } c => o.push(c) }
    }
    o.push('"'); o
}
pub fn json_floats(v: &[f64]) -> String {
    format!("[{}]", v.iter().map(|x| json_str(&format!("{:e}", x))).collect::<Vec<_>>().join(", "))
}

/// A concrete failing input found by a failure-search oracle.
pub struct Finding { pub class: String, pub what: String, pub input: String }
pub fn write_findings(path: &str, prop: &str, tried: u64, fs: &[Finding]) {
    let mut j = String::new();
    let _ = write!(j, "{{\"property\": {}, \"oracle_evaluations\": {}, \"findings\": [{}]}}", json_str(prop), tried,
        fs.iter().map(|f| format!("{{\"class\": {}, \"what\": {}, \"input\": {}}}", json_str(&f.class), json_str(&f.what), json_str(&f.input))).collect::<Vec<_>>().join(", "));
    std::fs::write(path, j).unwrap();
}

/// Crash breadcrumb: the oracle records the input it is about to evaluate in a small file (overwritten in place), so that
/// when the implementation takes the whole process down (stack overflow from unbounded recursion, abort, a hang killed by
/// the driver's timeout) the driver can still name the failing input.  Path from env HARNESS_CRUMB; no-op when unset.
pub fn crumb(s: &str) {
    use std::os::unix::fs::FileExt;
    use std::sync::OnceLock;
    static F: OnceLock<Option<std::fs::File>> = OnceLock::new();
    let f = F.get_or_init(|| std::env::var("HARNESS_CRUMB").ok().and_then(|p| std::fs::OpenOptions::new().create(true).write(true).truncate(true).open(p).ok()));
    if let Some(f) = f {
        let mut buf = [b' '; 2048];
        let b = s.as_bytes(); let n = b.len().min(2047);
        buf[..n].copy_from_slice(&b[..n]); buf[2047] = b'\n';
        let _ = f.write_at(&buf, 0);
    }
}
